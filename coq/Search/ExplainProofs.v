(* Search/ExplainProofs.v — explanation trees: the root is the score (any arithmetic, hence
   bit for bit in binary64), and over the reals every node's value is the formula stated in its
   message applied to its children.  D4: with the idf text of the pinned tree this is refuted. *)
From Coq Require Import ZArith QArith List Bool String Ascii Reals Qreals Lra Lia.
From Bluge Require Import Base.Int64 Gen.ParamsBM25 Search.BM25R Search.BM25RProofs Search.BM25F Search.Explain.
Import ListNotations.
Open Scope R_scope.

Lemma explain_root_is_score_g : forall V (o : ops V) (sc : scorer (V:=V)) freq dl,
  ev (g_explain o sc freq dl) = g_score o sc freq dl.
Proof. intros. reflexivity. Qed.

Lemma prefix_app : forall s y, prefix s (append s y) = true.
Proof.
  induction s as [|a s IH]; intros y; cbn [prefix append].
  - destruct y; reflexivity.
  - destruct (Ascii.ascii_dec a a) as [_|n]; [apply IH | exfalso; apply n; reflexivity].
Qed.

Lemma contains_app : forall sub x y, contains sub (append x (append sub y)) = true.
Proof.
  intros sub x y. induction x as [|c x IH].
  - cbn [append]. destruct (append sub y) eqn:E; cbn [contains]; rewrite <- E, prefix_app; reflexivity.
  - cbn [append contains]. rewrite IH. apply orb_true_r.
Qed.

Lemma append_assoc : forall a b c : string, append (append a b) c = append a (append b c).
Proof. induction a as [|x a IH]; intros; cbn [append]; [reflexivity | rewrite IH; reflexivity]. Qed.

Lemma rev_string_app : forall a b acc, rev_string (append a b) acc = rev_string b (rev_string a acc).
Proof. induction a as [|x a IH]; intros; cbn [append rev_string]; [reflexivity | apply IH]. Qed.

Lemma rev_string_acc : forall s acc, rev_string s acc = append (rev_string s EmptyString) acc.
Proof.
  induction s as [|x s IH]; intros acc; cbn [rev_string]; [reflexivity|].
  rewrite IH. rewrite (IH (String x EmptyString)). rewrite append_assoc. reflexivity.
Qed.

Lemma suffix_app : forall suf s, suffix suf (append s suf) = true.
Proof.
  intros. unfold suffix. rewrite rev_string_app. rewrite (rev_string_acc suf (rev_string s EmptyString)).
  apply prefix_app.
Qed.

Lemma score_text_is_score : forall z, formula_of_text (sprintf_d (msg_at msg_explain 1) z) = TScore.
Proof.
  intros z. unfold sprintf_d. set (d := DecimalString.NilZero.string_of_int (Z.to_int z)).
  change (subst_d (msg_at msg_explain 1) d) with (append txt_score_pre (append d txt_score_suf)).
  unfold formula_of_text.
  change (String.eqb (append txt_score_pre (append d txt_score_suf)) txt_idf_lucene) with false.
  change (String.eqb (append txt_score_pre (append d txt_score_suf)) txt_idf_coded) with false.
  change (String.eqb (append txt_score_pre (append d txt_score_suf)) txt_tf) with false.
  rewrite prefix_app. rewrite <- append_assoc. rewrite suffix_app. reflexivity.
Qed.

Lemma Q2R_0 : Q2R 0 = 0.
Proof. unfold Q2R; cbn [Qnum Qden]. field. Qed.

Lemma Rneqb_false : forall x y : R, oneqb ops_R x y = false -> x = y.
Proof. intros x y H. cbn [oneqb ops_R] in H. destruct (Req_EM_T x y); [assumption | discriminate]. Qed.

Section Faithful.
  Variables (k1 b boost : R) (sum_ttf N n freq dl : Z).
  Hypothesis Hn : (1 <= n <= N)%Z.
  Hypothesis HN : (N < 2 ^ 64)%Z.
  Hypothesis Hf : (1 <= freq)%Z.
  Hypothesis Hdl : (0 <= dl)%Z.
  Hypothesis Hsum : (0 < sum_ttf)%Z.
  Hypothesis Hk1 : 0 < k1.
  Hypothesis Hb : 0 <= b <= 1.
  Hypothesis Hboost : 0 < boost.
  Hypothesis Hlen : b < 1 \/ (0 < dl)%Z.

  Let sc := g_scorer ops_R k1 b boost (Some (sum_ttf, N)) n.

  Lemma idf_node_faithful : node_faithful ops_R eq (sc_idf sc).
  Proof.
    unfold sc, g_scorer, g_new_scorer. cbn [sc_idf]. unfold g_idf_explain, node_faithful. cbn [emsg echildren ev].
    change (formula_of_text (msg_at msg_idf_explain 0)) with TIdfCoded.
    cbn.
    rewrite uwrap64_id by (unfold in_uint64, two64; lia). rewrite minus_IZR. reflexivity.
  Qed.

  Let avgdl := IZR sum_ttf / IZR N.
  Lemma avgdl_pos : 0 < avgdl.
  Proof.
    unfold avgdl. apply Rmult_lt_0_compat; [apply IZR_lt; lia | apply Rinv_0_lt_compat; apply IZR_lt; lia].
  Qed.
  Lemma len_pos : 0 < len_norm b (IZR dl) avgdl.
  Proof.
    apply len_norm_pos; try lra; [apply IZR_le; lia | apply avgdl_pos |].
    destruct Hlen as [H|H]; [left; assumption | right; apply IZR_lt; lia].
  Qed.

  Lemma tf_node_faithful : node_faithful ops_R eq (g_explain_tf ops_R sc freq dl).
  Proof.
    unfold g_explain_tf, node_faithful. cbn [emsg echildren ev].
    change (formula_of_text (msg_at msg_explain_tf 5)) with TTf.
    cbn.
    change (Q2R 1 - Q2R 1 / (Q2R 1 + IZR freq * (Q2R 1 / (k1 * (Q2R 1 - b + b * IZR dl / (IZR sum_ttf / IZR N))))))
      with (tf k1 b (IZR freq) (IZR dl) avgdl).
    rewrite tf_is_stated; [| assumption | apply IZR_lt; lia | apply avgdl_pos | apply len_pos].
    unfold tf_stated, avgdl. rewrite Q2R_1. reflexivity.
  Qed.

  Lemma root_node_faithful : node_faithful ops_R eq (g_explain ops_R sc freq dl).
  Proof.
    unfold g_explain, node_faithful. cbn [emsg echildren ev].
    rewrite score_text_is_score.
    destruct (oneqb ops_R (sc_boost sc) (oQ ops_R bm25_no_boost)) eqn:E.
    - cbn. rewrite !Q2R_1. unfold Rdiv. ring.
    - apply Rneqb_false in E. cbn in E. unfold bm25_no_boost in E. rewrite Q2R_1 in E. subst boost.
      cbn. rewrite !Q2R_1. unfold Rdiv. ring.
  Qed.

  Lemma leaf_faithful : forall (v : R) m, formula_of_text m = TLeaf -> all_nodes (node_faithful ops_R eq) (ENode v m []).
  Proof. intros v m H. cbn [all_nodes]. split; [|exact I]. unfold node_faithful. cbn [emsg]. rewrite H. exact I. Qed.

  Lemma idf_subtree_faithful : all_nodes (node_faithful ops_R eq) (sc_idf sc).
  Proof.
    pose proof idf_node_faithful as Hidf. unfold sc, g_scorer, g_new_scorer in *. cbn [sc_idf] in *.
    unfold g_idf_explain in *. cbn [all_nodes]. split; [exact Hidf|].
    repeat (split; [apply leaf_faithful; reflexivity |]). exact I.
  Qed.

  Lemma tf_subtree_faithful : all_nodes (node_faithful ops_R eq) (g_explain_tf ops_R sc freq dl).
  Proof.
    pose proof tf_node_faithful as Htf. unfold g_explain_tf in *. cbn [all_nodes]. split; [exact Htf|].
    repeat (split; [apply leaf_faithful; reflexivity |]). exact I.
  Qed.

  Theorem explain_nodes_faithful_all : all_nodes (node_faithful ops_R eq) (g_explain ops_R sc freq dl).
  Proof.
    pose proof root_node_faithful as Hroot. pose proof idf_subtree_faithful as Hidf. pose proof tf_subtree_faithful as Htf.
    unfold g_explain in *. cbn [all_nodes]. split; [exact Hroot|].
    destruct (oneqb ops_R (sc_boost sc) (oQ ops_R bm25_no_boost)); cbn [app].
    - split; [exact Hidf|]. split; [apply leaf_faithful; reflexivity|]. split; [exact Htf | exact I].
    - split; [exact Hidf|]. split; [exact Htf | exact I].
  Qed.
End Faithful.

(* ---- composite nodes (composite.go:47-66) ---- *)
Lemma map_ev_snd : forall (cs : list (R * expl R)),
  Forall (fun p => ev (snd p) = fst p) cs -> map ev (map snd cs) = map fst cs.
Proof.
  intros cs H. induction H as [|p cs Hp Hcs IH]; cbn [map]; [reflexivity|]. rewrite Hp, IH. reflexivity.
Qed.

Lemma composite_boost_lit : lit ops_R explain_composite_literals 0 = 1.
Proof. unfold lit, explain_composite_literals. cbn [nth oQ ops_R]. exact Q2R_1. Qed.

Lemma explain_root_is_score_composite_R : forall boost (cs : list (R * expl R)),
  ev (g_explain_composite ops_R boost cs) = g_composite_score ops_R boost (map fst cs).
Proof.
  intros boost cs. unfold g_explain_composite, g_composite_score.
  destruct (oneqb ops_R boost (lit ops_R explain_composite_literals 0)) eqn:E; cbn [ev].
  - reflexivity.
  - apply Rneqb_false in E. rewrite composite_boost_lit in E. subst boost. cbn [omul ops_R]. ring.
Qed.

Lemma composite_nodes_faithful_all : forall boost (cs : list (R * expl R)),
  Forall (fun p => ev (snd p) = fst p) cs ->
  node_faithful ops_R eq (g_explain_composite ops_R boost cs) /\
  Forall (fun c => In c (map snd cs) \/ all_nodes (node_faithful ops_R eq) c \/
                   (node_faithful ops_R eq c /\ echildren c = map snd cs))
         (echildren (g_explain_composite ops_R boost cs)).
Proof.
  intros boost cs H. pose proof (map_ev_snd cs H) as Hm. unfold g_explain_composite.
  destruct (oneqb ops_R boost (lit ops_R explain_composite_literals 0)) eqn:E.
  - split.
    + unfold node_faithful. cbn [emsg echildren ev].
      change (formula_of_text (msg_at msg_explain_composite 1)) with TBoostSum.
      cbn. ring.
    + cbn [echildren]. constructor; [|constructor; [|constructor]].
      * right; left. apply leaf_faithful. reflexivity.
      * right; right. split; [|reflexivity]. unfold node_faithful. cbn [emsg echildren ev].
        change (formula_of_text (msg_at msg_explain_composite 3)) with TSum.
        cbn [eval_formula]. rewrite Hm. reflexivity.
  - split.
    + unfold node_faithful. cbn [emsg echildren ev].
      change (formula_of_text (msg_at msg_explain_composite 0)) with TSum.
      cbn [eval_formula]. rewrite Hm. reflexivity.
    + cbn [echildren]. apply Forall_forall. intros c Hc. left. exact Hc.
Qed.

(* ---- D4 ---- *)
Lemma idf_explain_refuted_all : exists n N : Z, (1 <= n <= N)%Z /\
  ~ node_faithful ops_R eq
      (ENode (g_idf ops_R n N) txt_idf_lucene
         [ENode (IZR n) (msg_at msg_idf_explain 1) []; ENode (IZR N) (msg_at msg_idf_explain 2) []]).
Proof.
  exists 3%Z, 10%Z. split; [lia|]. unfold node_faithful. cbn [emsg echildren ev].
  change (formula_of_text txt_idf_lucene) with TIdfLucene.
  cbn. intros Heq. apply idf_explain_refuted_w.
  unfold idf, idf_lucene, idf_lucene_arg. rewrite idf_arg_eq.
  rewrite Q2R_1, Q2R_half in Heq.
  replace (1 + (10 - 3) + / 2 / (3 + / 2)) with (1 + 7 + / 2 / (3 + / 2)) by lra.
  replace (1 + (10 - 3 + 1 / 2) / (3 + 1 / 2)) with (1 + (10 - 3 + / 2) / (3 + / 2)) by (f_equal; f_equal; lra).
  exact Heq.
Qed.

(* the message of the current tree is the as-coded text *)
Lemma idf_message_is_coded : formula_of_text (msg_at msg_idf_explain 0) = TIdfCoded.
Proof. reflexivity. Qed.

Lemma explain_example :
  all_nodes (node_faithful ops_R eq)
    (g_explain ops_R (g_scorer ops_R default_k1 default_b 2 (Some (120, 10)%Z) 3%Z) 2%Z 7%Z).
Proof.
  pose proof defaults_in_range as [Hk [Hb0 Hb1]].
  apply explain_nodes_faithful_all; try lia; try lra.
Qed.
