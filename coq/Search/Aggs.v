(* Search/Aggs.v — executable model of search/aggregations.go (Bucket: NewBucket / Consume /
   Finish / Merge) and search/aggregations/*.go: count.go, metric.go (Sum, Min, Max,
   MaxStartingAt, Avg, WeightedAvg), terms.go, range.go, range_date.go, cardinality.go,
   percentiles.go, filter.go (FilterNumeric / FilterText), and of the value sources of
   search/source.go they read (FieldSource.Values / Numbers / Dates, ScoreSource,
   MissingNumeric), joined to the collector of Search/TopN.v and to collector/all.go.

   Values are exact: a float64 is decoded to an extended rational (xq); sums, products and
   quotients are exact rationals, so the model equals the implementation whenever the float
   operations do not round (the generator uses integer-valued and dyadic values).  The
   hyperloglog / t-digest sketches are not modelled: the calculator state is the list of values
   inserted, in order.  sort.Sort in TermsCalculator.Finish is not modelled as an algorithm:
   the returned bucket order is an input that check_obs validates (sorted by count, a top-size
   selection).  No proofs in this file. *)
From Coq Require Import ZArith QArith Qreduction Qabs List Bool.
From Bluge Require Import Base.Int64 Base.Res Base.Corr Gen.ParamsTopN Search.Numeric Search.Sort Search.TopN.
Import ListNotations.
Open Scope Z_scope.

(* ---------- float64 values as extended rationals ---------- *)

Inductive xq :=
| XNaN
| XInf (neg : bool)
| XFin (q : Q).

Definition two52 : Z := 4503599627370496.

(* decode an IEEE-754 binary64 bit pattern exactly *)
Definition xq_of_bits (b : Z) : xq :=
  let neg := two63 <=? b in
  let e := (b / two52) mod 2048 in
  let m := b mod two52 in
  if e =? 2047 then (if m =? 0 then XInf neg else XNaN)
  else
    let mant := if e =? 0 then m else two52 + m in
    let ex := (if e =? 0 then 1 else e) - 1075 in
    let mag : Q := if 0 <=? ex then (mant * 2 ^ ex) # 1
                   else Qred (mant # Z.to_pos (2 ^ (- ex))) in
    XFin (if neg then Qred (- mag) else mag).

Definition xadd (a b : xq) : xq :=
  match a, b with
  | XNaN, _ | _, XNaN => XNaN
  | XInf s, XInf t => if Bool.eqb s t then XInf s else XNaN
  | XInf s, XFin _ => XInf s
  | XFin _, XInf t => XInf t
  | XFin p, XFin q => XFin (Qred (p + q))
  end.

Definition qsign (q : Q) : Z := Z.sgn (Qnum q).

Definition xmul (a b : xq) : xq :=
  match a, b with
  | XNaN, _ | _, XNaN => XNaN
  | XInf s, XInf t => XInf (xorb s t)
  | XInf s, XFin q | XFin q, XInf s =>
      if qsign q =? 0 then XNaN else XInf (xorb s (qsign q <? 0))
  | XFin p, XFin q => XFin (Qred (p * q))
  end.

(* a / b as float division of exact operands (0/0 = NaN, x/0 = +-Inf) *)
Definition xdiv (a b : xq) : xq :=
  match a, b with
  | XFin p, XFin q =>
      if qsign q =? 0 then (if qsign p =? 0 then XNaN else XInf (qsign p <? 0))
      else XFin (Qred (p / q))
  | XFin _, XInf _ => XFin 0
  | XInf s, XFin q => XInf (xorb s (qsign q <? 0))
  | _, _ => XNaN
  end.

(* Go's `a < b` on float64: false when either side is NaN *)
Definition xlt (a b : xq) : bool :=
  match a, b with
  | XNaN, _ | _, XNaN => false
  | XInf s, XInf t => s && negb t
  | XInf s, XFin _ => s
  | XFin _, XInf t => negb t
  | XFin p, XFin q => negb (Qle_bool q p)
  end.
Definition xle (a b : xq) : bool :=
  match a, b with
  | XNaN, _ | _, XNaN => false
  | _, _ => negb (xlt b a)
  end.

Definition xq_eqb (a b : xq) : bool :=
  match a, b with
  | XNaN, XNaN => true
  | XInf s, XInf t => Bool.eqb s t
  | XFin p, XFin q => Qeq_bool p q
  | _, _ => false
  end.

Definition xq_of_Z (z : Z) : xq := XFin (z # 1).

(* ---------- search/source.go: the sources aggregations read ---------- *)

Inductive nsource :=                     (* NumericValuesSource *)
| NSField (f : Z)                        (* search.Field(name) *)
| NSScore                                (* search.DocumentScore() *)
| NSCount                                (* aggregations.countSource: staticCount = [1] *)
| NSMissing (p r : nsource)              (* search.MissingNumeric(primary, replacement) *)
| NSFilterGe (s : nsource) (c : Q).      (* aggregations.FilterNumeric(s, func(v) { return v >= c }) *)

Inductive vsource :=                     (* TextValuesSource *)
| VSField (f : Z)                        (* search.Field(name) *)
| VSFilterPrefix (s : vsource) (p : bytes).   (* aggregations.FilterText(s, bytes.HasPrefix(.., p)) *)

Fixpoint nsource_fields (s : nsource) : list Z :=
  match s with
  | NSField f => [f]
  | NSScore | NSCount => []
  | NSMissing p r => nsource_fields p ++ nsource_fields r      (* source.go:222-227 *)
  | NSFilterGe s _ => nsource_fields s
  end.

Fixpoint vsource_fields (s : vsource) : list Z :=
  match s with
  | VSField f => [f]
  | VSFilterPrefix s _ => vsource_fields s
  end.

(* source.go:88-101 FieldSource.Numbers: the shift-0 prefix-coded terms, decoded *)
Definition term_number (t : bytes) : list Z :=    (* float64 bits *)
  match pc_shift t with
  | Some 0 => match pc_int64 t with Some i => [i2f i] | None => [] end
  | _ => []
  end.

(* source.go:107-120 FieldSource.Dates: time.Unix(0, i64); a time is its nanosecond count *)
Definition term_date (t : bytes) : list Z :=
  match pc_shift t with
  | Some 0 => match pc_int64 t with Some i => [i] | None => [] end
  | _ => []
  end.

Fixpoint numbers (s : nsource) (h : hit) : list xq :=
  match s with
  | NSField f => map xq_of_bits (flat_map term_number (doc_values (h_dv h) f))
  | NSScore => [xq_of_bits (h_score h)]
  | NSCount => [XFin 1]
  | NSMissing p r => match numbers p h with [] => numbers r h | l => l end    (* source.go:229-235 *)
  | NSFilterGe s c => filter (fun v => xle (XFin c) v) (numbers s h)          (* filter.go:66-75 *)
  end.

Fixpoint has_prefix (p v : bytes) : bool :=
  match p, v with
  | [], _ => true
  | x :: p', y :: v' => (x =? y) && has_prefix p' v'
  | _ :: _, [] => false
  end.

Fixpoint tvalues (s : vsource) (h : hit) : list bytes :=
  match s with
  | VSField f => doc_values (h_dv h) f                                        (* source.go:80 *)
  | VSFilterPrefix s p => filter (has_prefix p) (tvalues s h)                 (* filter.go:40-49 *)
  end.

Definition dates (f : Z) (h : hit) : list Z := flat_map term_date (doc_values (h_dv h) f).

(* ---------- aggregations ---------- *)

Inductive sop := OpSum | OpMin | OpMax.

Inductive agg :=
| ASingle (op : sop) (s : nsource) (init : xq)       (* metric.go: Sum / Min / Max / MaxStartingAt / CountMatches *)
| AWAvg (s : nsource) (w : option nsource)           (* metric.go: Avg (no weight) / WeightedAvg *)
| ACard (t : vsource)                                (* cardinality.go *)
| AQuant (s : nsource)                               (* percentiles.go *)
| ATerms (t : vsource) (size : Z) (subs : list (Z * agg))               (* terms.go *)
| ARange (s : nsource) (ranges : list (xq * xq)) (subs : list (Z * agg)) (* range.go *)
| ADateRange (f : Z) (ranges : list (option Z * option Z)) (subs : list (Z * agg)). (* range_date.go; None = zero time *)

Definition a_sum (s : nsource) : agg := ASingle OpSum s (XFin 0).
Definition a_min (s : nsource) : agg := ASingle OpMin s (XInf false).
Definition a_max (s : nsource) : agg := ASingle OpMax s (XInf true).
Definition a_count : agg := a_sum NSCount.                               (* count.go:33 *)
Definition count_id : Z := 0.     (* the name "count" that terms/range buckets always carry *)

(* Aggregation.Fields().  terms.go:49-55 adds the nested aggregations' fields;
   range.go / range_date.go: after the repair they do so too. *)
Fixpoint agg_fields (a : agg) : list Z :=
  let subs_fields := fix sf (subs : list (Z * agg)) : list Z :=
      match subs with
      | [] => []
      | (_, a') :: r => agg_fields a' ++ sf r
      end in
  match a with
  | ASingle _ s _ => nsource_fields s
  | AWAvg s w => nsource_fields s ++ match w with Some w' => nsource_fields w' | None => [] end
  | ACard t => vsource_fields t
  | AQuant s => nsource_fields s
  | ATerms t _ subs => vsource_fields t ++ subs_fields subs
  | ARange s _ subs => nsource_fields s ++ subs_fields subs
  | ADateRange f _ subs => f :: subs_fields subs
  end.

Definition aggs_fields (aggs : list (Z * agg)) : list Z := flat_map (fun p => agg_fields (snd p)) aggs.

(* calculator states *)
Inductive calc :=
| KVal (val : xq)                                    (* SingleValueCalculator.val *)
| KWAvg (val weights : xq)                           (* WeightedAvgCalculator *)
| KFedT (fed : list bytes)                           (* values given to sketch.Insert, in order *)
| KFedN (fed : list xq)                              (* values given to tdigest.Add, in order *)
| KTerms (buckets : list (bytes * list calc)) (total : Z)   (* bucketsList (insertion order), total *)
| KBuckets (buckets : list (list calc)).             (* range / date-range bucketCalculators *)

(* Aggregation.Calculator() / search.NewBucket *)
Fixpoint init (a : agg) : calc :=
  let init_subs := fix go (subs : list (Z * agg)) : list calc :=
      match subs with
      | [] => []
      | (_, a') :: r => init a' :: go r
      end in
  match a with
  | ASingle _ _ i => KVal i
  | AWAvg _ _ => KWAvg (XFin 0) (XFin 0)
  | ACard _ => KFedT []
  | AQuant _ => KFedN []
  | ATerms _ _ _ => KTerms [] 0
  | ARange _ ranges subs => KBuckets (map (fun _ => init_subs subs) ranges)
  | ADateRange _ ranges subs => KBuckets (map (fun _ => init_subs subs) ranges)
  end.

Fixpoint init_subs (subs : list (Z * agg)) : list calc :=
  match subs with
  | [] => []
  | (_, a') :: r => init a' :: init_subs r
  end.

Definition single_step (op : sop) (acc v : xq) : xq :=
  match op with
  | OpSum => xadd acc v                              (* metric.go:34: s.val += val *)
  | OpMin => if xlt v acc then v else acc            (* metric.go:44-46 *)
  | OpMax => if xlt acc v then v else acc            (* metric.go:60-62 *)
  end.

Definition in_range (r : xq * xq) (v : xq) : bool := xle (fst r) v && xlt v (snd r).   (* range.go:79 *)

(* range_date.go:79-85; None = IsZero() bound *)
Definition in_date_range (r : option Z * option Z) (v : Z) : bool :=
  negb (match fst r with Some s => v <? s | None => false end) &&
  negb (match snd r with Some e => e <=? v | None => false end).

(* helpers of consume, parameterised by `step` = Bucket.Consume(d) on one bucket's calculators *)
Section BucketSteps.
  Variable step : list calc -> list calc.

  (* terms.go:93-104: bucket, ok := bucketsMap[term]; consume, or create + consume + append *)
  Fixpoint upsert (fresh : list calc) (term : bytes) (bks : list (bytes * list calc)) : list (bytes * list calc) :=
    match bks with
    | [] => [(term, step fresh)]
    | (nm, cs) :: r => if beqb nm term then (nm, step cs) :: r else (nm, cs) :: upsert fresh term r
    end.

  (* range.go:77-83 / range_date.go:77-87: for one value, every range that contains it *)
  Fixpoint feed {R V : Type} (inr : R -> V -> bool) (ranges : list R) (bs : list (list calc)) (v : V) : list (list calc) :=
    match ranges, bs with
    | r :: rr, b :: br => (if inr r v then step b else b) :: feed inr rr br v
    | _, _ => []
    end.
End BucketSteps.

(* Calculator.Consume(d); Bucket.Consume feeds every calculator of the bucket with d *)
Fixpoint consume (a : agg) (h : hit) (k : calc) {struct a} : calc :=
  let consume_subs := fix go (subs : list (Z * agg)) (cs : list calc) : list calc :=
      match subs, cs with
      | (_, a') :: sr, c :: cr => consume a' h c :: go sr cr
      | _, _ => []
      end in
  match a, k with
  | ASingle op s _, KVal v => KVal (fold_left (single_step op) (numbers s h) v)       (* metric.go:98-102 *)
  | AWAvg s w, KWAvg val weights =>                                                  (* metric.go:156-168 *)
      let weight := match w with
                    | Some w' => match numbers w' h with wv :: _ => wv | [] => XFin 1 end
                    | None => XFin 1
                    end in
      let '(val', weights') :=
          fold_left (fun acc v => (xadd (fst acc) (xmul v weight), xadd (snd acc) weight)) (numbers s h) (val, weights) in
      KWAvg val' weights'
  | ACard t, KFedT fed => KFedT (fed ++ tvalues t h)                                  (* cardinality.go:53-57 *)
  | AQuant s, KFedN fed => KFedN (fed ++ numbers s h)                                 (* percentiles.go:66-70 *)
  | ATerms t _ subs, KTerms bks total =>                                              (* terms.go:91-105 *)
      KTerms (fold_left (fun b term => upsert (consume_subs subs) (init_subs subs) term b) (tvalues t h) bks) (total + 1)
  | ARange s ranges subs, KBuckets bs =>                                              (* range.go:76-84 *)
      KBuckets (fold_left (feed (consume_subs subs) in_range ranges) (numbers s h) bs)
  | ADateRange f ranges subs, KBuckets bs =>                                          (* range_date.go:76-88 *)
      KBuckets (fold_left (feed (consume_subs subs) in_date_range ranges) (dates f h) bs)
  | _, _ => k
  end.

Fixpoint consume_subs (subs : list (Z * agg)) (h : hit) (cs : list calc) : list calc :=
  match subs, cs with
  | (_, a') :: sr, c :: cr => consume a' h c :: consume_subs sr h cr
  | _, _ => []
  end.

(* the root bucket: search.NewBucket("", aggs); Bucket.Consume (aggregations.go:93-97).  The
   calculators of one bucket have disjoint state, so Go's map iteration order is unobservable. *)
Definition bucket_consume (aggs : list (Z * agg)) (h : hit) (cs : list calc) : list calc := consume_subs aggs h cs.

(* the aggregations of a complete match list *)
Definition run_bucket (aggs : list (Z * agg)) (hits : list hit) : list calc :=
  fold_left (fun cs h => bucket_consume aggs h cs) hits (init_subs aggs).

(* ---------- results ---------- *)

(* MetricCalculator.Value() *)
Definition calc_value (k : calc) : xq :=
  match k with
  | KVal v => v
  | KWAvg val weights => xdiv val weights            (* metric.go:152 *)
  | _ => XNaN
  end.

(* what the harness reads back from a finished iterator *)
Inductive obs :=
| OVal (bits : Z)                                    (* Value() as float64 bits *)
| OFedT (fed : list bytes)                           (* values a recording source handed to the sketch *)
| OFedN (fed : list Z)
| OTerms (buckets : list (bytes * list obs)) (other : Z)   (* Buckets() in returned order, Other() *)
| OBuckets (buckets : list (list obs))
| OSketch.   (* a sketch calculator inside a bucket: only its estimate is observable there; it is
                judged by the engine's oracle against a sketch fed the bucket's values directly *)

(* the observed float equals the exact value, or, for a quotient, is within half an ulp
   (relative 2^-53) of it *)
Definition two53 : Z := 9007199254740992.
Definition approx_eqb (exact o : xq) : bool :=
  match exact, o with
  | XFin e, XFin v => Qle_bool (Qabs (v - e) * (two53 # 1)) (Qabs e)
  | _, _ => xq_eqb exact o
  end.

Definition count_of (cs : list calc) : Z :=
  match cs with
  | KVal (XFin q) :: _ => Qnum q / Zpos (Qden q)     (* int(bucket count Value()) *)
  | _ => 0
  end.

Fixpoint lookup_bucket (nm : bytes) (bks : list (bytes * list calc)) : option (list calc) :=
  match bks with
  | [] => None
  | (n, cs) :: r => if beqb n nm then Some cs else lookup_bucket nm r
  end.

Fixpoint non_increasing (l : list Z) : bool :=
  match l with
  | a :: ((b :: _) as t) => (b <=? a) && non_increasing t
  | _ => true
  end.

Fixpoint distinct_names (l : list bytes) : bool :=
  match l with
  | [] => true
  | a :: t => negb (existsb (beqb a) t) && distinct_names t
  end.

(* terms.go:134-152 Finish: sorted by count descending (sort.Sort: order of ties unspecified),
   trimmed to size, other = total - sum of the returned counts.  `names` is the returned order. *)
Definition top_selection (size : Z) (bks : list (bytes * list calc)) (names : list bytes) : bool :=
  let returned := map (fun nm => match lookup_bucket nm bks with Some cs => count_of cs | None => -1 end) names in
  let trim := Z.min size (Z.of_nat (length bks)) in
  (Z.of_nat (length names) =? trim) &&
  distinct_names names &&
  forallb (fun c => 0 <=? c) returned &&
  non_increasing returned &&
  (let lowest := last returned 0 in
   forallb (fun b => existsb (beqb (fst b)) names || (count_of (snd b) <=? lowest) || (trim =? 0)) bks).

(* check an observation against the state reached by consume.  finished = Finish() reached this
   calculator: terms.go Finish does not finish its buckets, range.go:97-101 does. *)
Fixpoint check_obs (a : agg) (finished : bool) (k : calc) (o : obs) {struct a} : bool :=
  let check_subs := fix go (fin : bool) (subs : list (Z * agg)) (cs : list calc) (os : list obs) : bool :=
      match subs, cs, os with
      | [], [], [] => true
      | (_, a') :: sr, c :: cr, o' :: or => check_obs a' fin c o' && go fin sr cr or
      | _, _, _ => false
      end in
  match a, k, o with
  | ASingle _ _ _, KVal v, OVal bits => xq_eqb v (xq_of_bits bits)
  | AWAvg _ _, KWAvg _ _, OVal bits => approx_eqb (calc_value k) (xq_of_bits bits)
  | ACard _, KFedT _, OSketch => true
  | AQuant _, KFedN _, OSketch => true
  | ACard _, KFedT fed, OFedT ofed => list_eqb beqb fed ofed
  | AQuant _, KFedN fed, OFedN ofed => list_eqb xq_eqb fed (map xq_of_bits ofed)
  | ATerms _ size subs, KTerms bks total, OTerms obks other =>
      let names := map fst obks in
      (if finished
       then top_selection size bks names &&
            (other =? total - fold_left Z.add (map (fun nm => match lookup_bucket nm bks with Some cs => count_of cs | None => 0 end) names) 0)
       else list_eqb beqb (map fst bks) names && (other =? 0)) &&
      forallb (fun ob => match lookup_bucket (fst ob) bks with
                         | Some cs => check_subs false subs cs (snd ob)
                         | None => false
                         end) obks
  | ARange _ _ subs, KBuckets bs, OBuckets obs' =>
      (fix all2 (bs : list (list calc)) (os : list (list obs)) : bool :=
         match bs, os with
         | [], [] => true
         | b :: br, o' :: or => check_subs finished subs b o' && all2 br or
         | _, _ => false
         end) bs obs'
  | ADateRange _ _ subs, KBuckets bs, OBuckets obs' =>
      (fix all2 (bs : list (list calc)) (os : list (list obs)) : bool :=
         match bs, os with
         | [], [] => true
         | b :: br, o' :: or => check_subs finished subs b o' && all2 br or
         | _, _ => false
         end) bs obs'
  | _, _, _ => false
  end.

Fixpoint check_bucket (aggs : list (Z * agg)) (cs : list calc) (os : list obs) : bool :=
  match aggs, cs, os with
  | [], [], [] => true
  | (_, a) :: ar, c :: cr, o :: or => check_obs a true c o && check_bucket ar cr or
  | _, _, _ => false
  end.

(* ---------- Merge (aggregations.go:76-84 Bucket.Merge and the calculators' Merge) ---------- *)

(* terms.go:113-123: a bucket of the other list is merged into the local bucket of the same name,
   or appended *)
Section MergeInto.
  Variable mb : list calc -> list calc -> list calc.     (* Bucket.Merge on two buckets' calculators *)
  Fixpoint merge_into (b1 : list (bytes * list calc)) (ob : bytes * list calc) : list (bytes * list calc) :=
    match b1 with
    | [] => [ob]
    | (nm, cs) :: r => if beqb nm (fst ob) then (nm, mb cs (snd ob)) :: r else (nm, cs) :: merge_into r ob
    end.
  Definition merge_terms (b1 b2 : list (bytes * list calc)) : list (bytes * list calc) := fold_left merge_into b2 b1.

  Fixpoint merge_buckets (bs1 bs2 : list (list calc)) : list (list calc) :=
    match bs1, bs2 with
    | c1 :: r1, c2 :: r2 => mb c1 c2 :: merge_buckets r1 r2
    | _, _ => []
    end.
End MergeInto.

(* Calculator.Merge(other).  Both sides come from the same aggregation definition (the only use:
   shards of one request), so Bucket.Merge pairs the calculators by name = by position.
   metric.go:104-108 (compute(s, other.val)), :170-175; cardinality.go:59-63 / percentiles.go:72-76
   (sketch merge: modelled as the concatenation of what was inserted); terms.go:107-131 (total,
   bucket lists; the closing Finish() is, as everywhere, the relation check_obs validates);
   range.go:87-95 / range_date.go:92-100 (pairwise when the lengths agree). *)
Fixpoint merge (a : agg) (k1 k2 : calc) {struct a} : calc :=
  let merge_subs := fix go (subs : list (Z * agg)) (cs1 cs2 : list calc) : list calc :=
      match subs, cs1, cs2 with
      | (_, a') :: sr, c1 :: r1, c2 :: r2 => merge a' c1 c2 :: go sr r1 r2
      | _, _, _ => []
      end in
  match a, k1, k2 with
  | ASingle op _ _, KVal v1, KVal v2 => KVal (single_step op v1 v2)
  | AWAvg _ _, KWAvg a1 b1, KWAvg a2 b2 => KWAvg (xadd a1 a2) (xadd b1 b2)
  | ACard _, KFedT f1, KFedT f2 => KFedT (f1 ++ f2)
  | AQuant _, KFedN f1, KFedN f2 => KFedN (f1 ++ f2)
  | ATerms _ _ subs, KTerms b1 t1, KTerms b2 t2 => KTerms (merge_terms (merge_subs subs) b1 b2) (t1 + t2)
  | ARange _ _ subs, KBuckets bs1, KBuckets bs2 =>
      if (length bs1 =? length bs2)%nat then KBuckets (merge_buckets (merge_subs subs) bs1 bs2) else k1
  | ADateRange _ _ subs, KBuckets bs1, KBuckets bs2 =>
      if (length bs1 =? length bs2)%nat then KBuckets (merge_buckets (merge_subs subs) bs1 bs2) else k1
  | _, _, _ => k1
  end.

Fixpoint merge_subs (subs : list (Z * agg)) (cs1 cs2 : list calc) : list calc :=
  match subs, cs1, cs2 with
  | (_, a') :: sr, c1 :: r1, c2 :: r2 => merge a' c1 c2 :: merge_subs sr r1 r2
  | _, _, _ => []
  end.

(* the state a finished calculator is left in, given the bucket order Finish was observed to
   choose: terms keep the returned buckets only (terms.go:145), in that order *)
Definition finish_with (a : agg) (k : calc) (o : obs) : calc :=
  match a, k, o with
  | ATerms _ _ _, KTerms bks total, OTerms obks _ =>
      KTerms (flat_map (fun ob => match lookup_bucket (fst ob) bks with
                                  | Some cs => [(fst ob, cs)]
                                  | None => []
                                  end) obks) total
  | _, _, _ => k
  end.

Fixpoint finish_bucket (aggs : list (Z * agg)) (cs : list calc) (os : list obs) : list calc :=
  match aggs, cs, os with
  | (_, a) :: ar, c :: cr, o :: or => finish_with a c o :: finish_bucket ar cr or
  | _, _, _ => []
  end.

(* ---------- the collectors ---------- *)

(* collector/topn.go with the root bucket as the consumer *)
Definition topn_aggs (aggs : list (Z * agg)) (n : Z) (order : list sortspec) (p : paging)
           (hits : list rawhit) : res (list hit * list calc) :=
  topn_search (bucket_consume aggs) n order p (aggs_fields aggs) (init_subs aggs) hits.

Definition direct_aggs (aggs : list (Z * agg)) (size skip : Z) (order : list sortspec) (reverse : bool)
           (after : option (list bytes)) (hits : list rawhit) : res (list hit * list calc) :=
  c <- direct_collector size skip order reverse after (aggs_fields aggs) ;;
  run_collector (bucket_consume aggs) c (init_subs aggs) hits.

(* collector/all.go:60-100: every match is numbered, its needed doc values loaded, consumed *)
Definition all_aggs (aggs : list (Z * agg)) (hits : list rawhit) : list calc :=
  run_bucket aggs (prepare_all (aggs_fields aggs) [] 0 hits).

(* "the aggregations of the match set": what the property compares every run with *)
Definition aggs_of (aggs : list (Z * agg)) (hits : list rawhit) : list calc := all_aggs aggs hits.
