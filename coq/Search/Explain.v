(* Search/Explain.v — explanation trees (/repo/search/explanation.go) as built by
   IdfExplainTerm, explainTf, Explain (search/similarity/bm25.go:55-136), ExplainComposite
   (composite.go:47-66) and the constant scorer (constant.go), generically over the arithmetic
   (instances: the reals with Coq's ln; binary64 with math.Log as a table), together with the
   reading of each message text as a formula over the node's children (`formula_of_text`,
   `eval_formula`).  The message texts come from Gen/ParamsBM25.v (regenerated from the Go AST on
   every run).  No proofs here. *)
From Coq Require Import ZArith QArith List Bool String Ascii DecimalString Reals Qreals Floats.
From Bluge Require Import Base.Int64 Gen.ParamsBM25 Search.BM25R Search.BM25F.
Import ListNotations.
Open Scope Z_scope.

(* search/explanation.go:22-26  Explanation{Value, Message, Children} *)
Inductive expl (V : Type) : Type := ENode (v : V) (msg : string) (children : list (expl V)).
Arguments ENode {V} v msg children.
Definition ev {V} (e : expl V) : V := match e with ENode v _ _ => v end.
Definition emsg {V} (e : expl V) : string := match e with ENode _ m _ => m end.
Definition echildren {V} (e : expl V) : list (expl V) := match e with ENode _ _ c => c end.

(* the arithmetic the similarity is written over *)
Record ops (V : Type) : Type := {
  oadd : V -> V -> V;  osub : V -> V -> V;  omul : V -> V -> V;  odiv : V -> V -> V;
  olog : V -> V;                  (* math.Log *)
  ou64 : Z -> V;                  (* float64(x), x : uint64 / uint32 *)
  oint : Z -> V;                  (* float64(x), x : int *)
  oQ : Q -> V;                    (* an untyped constant *)
  oneqb : V -> V -> bool          (* Go's != *)
}.
Arguments oadd {V} _. Arguments osub {V} _. Arguments omul {V} _. Arguments odiv {V} _.
Arguments olog {V} _. Arguments ou64 {V} _. Arguments oint {V} _. Arguments oQ {V} _. Arguments oneqb {V} _.

(* fmt.Sprintf with a single %d verb *)
Fixpoint subst_d (fmt arg : string) : string :=
  match fmt with
  | EmptyString => EmptyString
  | String c rest =>
      if prefix "%d" fmt then append arg (match rest with String _ r => r | EmptyString => EmptyString end)
      else String c (subst_d rest arg)
  end.
Definition sprintf_d (fmt : string) (z : Z) : string := subst_d fmt (NilZero.string_of_int (Z.to_int z)).

Definition msg_at (l : list string) (i : nat) : string := nth i l EmptyString.

Section Generic.
  Context {V : Type} (o : ops V).
  Notation "x + y" := (oadd o x y).
  Notation "x - y" := (osub o x y).
  Notation "x * y" := (omul o x y).
  Notation "x / y" := (odiv o x y).
  Definition lit (l : list Q) (i : nat) : V := oQ o (nth i l 0%Q).

  (* bm25.go:51-53 Idf *)
  Definition g_idf_arg (n N : Z) : V :=
    (lit idf_literals 0 + ou64 o (uwrap64 (N - n)%Z)) + lit idf_literals 1 / (ou64 o n + lit idf_literals 2).
  Definition g_idf (n N : Z) : V := olog o (g_idf_arg n N).

  (* collection statistics: Some (SumTotalTermFrequency, DocumentCount) or nil *)
  Definition coll_stats := option (Z * Z).
  Definition doc_count (s : coll_stats) : Z := match s with Some (_, dc) => dc | None => 0 end.

  (* bm25.go:55-65 IdfExplainTerm *)
  Definition g_idf_explain (s : coll_stats) (n : Z) : expl V :=
    let N := doc_count s in
    ENode (g_idf n N) (msg_at msg_idf_explain 0)
      [ENode (ou64 o n) (msg_at msg_idf_explain 1) []; ENode (ou64 o N) (msg_at msg_idf_explain 2) []].

  (* bm25.go:67-72 AverageFieldLength *)
  Definition g_avgdl (s : coll_stats) : V :=
    match s with Some (sum_ttf, dc) => ou64 o sum_ttf / ou64 o dc | None => oQ o 0%Q end.

  (* bm25.go:79-97 BM25Scorer, NewBM25Scorer *)
  Record scorer : Type := { sc_boost : V; sc_k1 : V; sc_b : V; sc_avgdl : V; sc_weight : V; sc_idf : expl V }.
  Definition g_new_scorer (boost k1 b avgdl : V) (idf : expl V) : scorer :=
    {| sc_boost := boost; sc_k1 := k1; sc_b := b; sc_avgdl := avgdl; sc_weight := boost * ev idf; sc_idf := idf |}.
  (* bm25.go:74-77 Scorer *)
  Definition g_scorer (k1 b boost : V) (s : coll_stats) (n : Z) : scorer :=
    g_new_scorer boost k1 b (g_avgdl s) (g_idf_explain s n).

  Definition g_norm_inverse (lits : list Q) (sc : scorer) (dl : Z) : V :=
    lit lits 0 / (sc_k1 sc * ((lit lits 1 - sc_b sc) + sc_b sc * ou64 o dl / sc_avgdl sc)).

  (* bm25.go:99-103 Score (dl = math.Float32bits(float32(norm))) *)
  Definition g_score (sc : scorer) (freq dl : Z) : V :=
    sc_weight sc - sc_weight sc / (lit score_literals 2 + oint o freq * g_norm_inverse score_literals sc dl).

  (* bm25.go:105-120 explainTf *)
  Definition g_explain_tf (sc : scorer) (freq dl : Z) : expl V :=
    let ni := g_norm_inverse explain_tf_literals sc dl in
    let children :=
      [ENode (oint o freq) (msg_at msg_explain_tf 0) [];
       ENode (sc_k1 sc) (msg_at msg_explain_tf 1) [];
       ENode (sc_b sc) (msg_at msg_explain_tf 2) [];
       ENode (ou64 o dl) (msg_at msg_explain_tf 3) [];
       ENode (sc_avgdl sc) (msg_at msg_explain_tf 4) []] in
    let score := lit explain_tf_literals 2 - lit explain_tf_literals 3 / (lit explain_tf_literals 4 + oint o freq * ni) in
    ENode score (msg_at msg_explain_tf 5) children.

  (* bm25.go:124-136 Explain *)
  Definition g_explain (sc : scorer) (freq dl : Z) : expl V :=
    let children :=
      ([sc_idf sc] ++
       (if oneqb o (sc_boost sc) (oQ o bm25_no_boost) then [ENode (sc_boost sc) (msg_at msg_explain 0) []] else []) ++
       [g_explain_tf sc freq dl])%list in
    let ni := g_norm_inverse explain_literals sc dl in
    let score := sc_weight sc - sc_weight sc / (lit explain_literals 2 + oint o freq * ni) in
    ENode score (sprintf_d (msg_at msg_explain 1) freq) children.

  (* composite.go:39-45 ScoreComposite over the constituents' scores *)
  Definition g_sum (l : list V) : V := fold_left (oadd o) l (oQ o 0%Q).
  Definition g_composite_score (boost : V) (l : list V) : V := g_sum l * boost.

  (* composite.go:47-66 ExplainComposite over (constituent.Score, constituent.Explanation) *)
  Definition g_explain_composite (boost : V) (cs : list (V * expl V)) : expl V :=
    let sum := g_sum (map fst cs) in
    let children := map snd cs in
    if oneqb o boost (lit explain_composite_literals 0) then
      ENode (sum * boost) (msg_at msg_explain_composite 1)
        [ENode boost (msg_at msg_explain_composite 2) []; ENode sum (msg_at msg_explain_composite 3) children]
    else ENode sum (msg_at msg_explain_composite 0) children.

  (* constant.go:25-34 *)
  Definition g_explain_constant (c : V) : expl V := ENode c (msg_at msg_explain_constant 0) [].
  Definition g_explain_constant_composite (c : V) : expl V := ENode c (msg_at msg_explain_constant_composite 0) [].

  (* ---- the messages read as formulas ---- *)
  Inductive tag := TLeaf | TIdfLucene | TIdfCoded | TTf | TScore | TSum | TBoostSum | TUnknown.

  (* does s contain sub? *)
  Fixpoint contains (sub s : string) : bool :=
    prefix sub s || match s with EmptyString => false | String _ r => contains sub r end.
  Fixpoint rev_string (s acc : string) : string :=
    match s with EmptyString => acc | String c r => rev_string r (String c acc) end.
  Definition suffix (suf s : string) : bool := prefix (rev_string suf EmptyString) (rev_string s EmptyString).

  Definition txt_idf_lucene : string := "idf, computed as log(1 + (N - n + 0.5) / (n + 0.5)) from:".
  Definition txt_idf_coded : string := "idf, computed as log(1 + (N - n) + 0.5 / (n + 0.5)) from:".
  Definition txt_tf : string := "tf, computed as freq / (freq + k1 * (1 - b + b * dl / avgdl)) from:".
  Definition txt_score_pre : string := "score(freq=".
  Definition txt_score_suf : string := "), computed as boost * idf * tf from:".
  Definition txt_sum : string := "sum of:".
  Definition txt_boost_sum : string := "computed as boost * sum".

  (* a text stating no formula ("n, number of documents containing term", "boost", "constant", …)
     labels a given value: TLeaf *)
  Definition formula_of_text (m : string) : tag :=
    if String.eqb m txt_idf_lucene then TIdfLucene
    else if String.eqb m txt_idf_coded then TIdfCoded
    else if String.eqb m txt_tf then TTf
    else if prefix txt_score_pre m && suffix txt_score_suf m then TScore
    else if String.eqb m txt_sum then TSum
    else if String.eqb m txt_boost_sum then TBoostSum
    else if contains "computed as" m || contains " of:" m then TUnknown
    else TLeaf.

  (* the child a formula variable refers to: its message is the name, or begins with the name
     followed by ',' or ' ' ("n, number of…", "sum of:") *)
  Definition names (name m : string) : bool :=
    String.eqb m name || prefix (append name ",") m || prefix (append name " ") m.
  Fixpoint child_named (name : string) (cs : list (expl V)) : option V :=
    match cs with
    | [] => None
    | c :: r => if names name (emsg c) then Some (ev c) else child_named name r
    end.

  Definition half : V := oQ o (1 # 2)%Q.
  Definition one : V := oQ o 1%Q.

  Definition eval_formula (t : tag) (cs : list (expl V)) : option V :=
    match t with
    | TLeaf | TUnknown => None
    | TIdfLucene =>   (* log(1 + (N - n + 0.5) / (n + 0.5)) *)
        match child_named "n" cs, child_named "N" cs with
        | Some n, Some N => Some (olog o (one + (N - n + half) / (n + half)))
        | _, _ => None
        end
    | TIdfCoded =>    (* log(1 + (N - n) + 0.5 / (n + 0.5)) *)
        match child_named "n" cs, child_named "N" cs with
        | Some n, Some N => Some (olog o (one + (N - n) + half / (n + half)))
        | _, _ => None
        end
    | TTf =>          (* freq / (freq + k1 * (1 - b + b * dl / avgdl)) *)
        match child_named "freq" cs, child_named "k1" cs, child_named "b" cs, child_named "dl" cs, child_named "avgdl" cs with
        | Some f, Some k1, Some b, Some dl, Some avgdl => Some (f / (f + k1 * (one - b + b * dl / avgdl)))
        | _, _, _, _, _ => None
        end
    | TScore =>       (* boost * idf * tf; the code omits the boost child when the boost is 1 *)
        match child_named "idf" cs, child_named "tf" cs with
        | Some i, Some t =>
            Some ((match child_named "boost" cs with Some bo => bo | None => one end) * i * t)
        | _, _ => None
        end
    | TSum => Some (g_sum (map ev cs))
    | TBoostSum =>    (* boost * sum *)
        match child_named "boost" cs, child_named "sum" cs with
        | Some bo, Some s => Some (bo * s)
        | _, _ => None
        end
    end.

  (* "the node's value equals the formula stated in its message applied to its children" *)
  Definition node_faithful (eq : V -> V -> Prop) (e : expl V) : Prop :=
    match formula_of_text (emsg e) with
    | TLeaf => True
    | TUnknown => False
    | t => match eval_formula t (echildren e) with Some v => eq (ev e) v | None => False end
    end.

  Fixpoint all_nodes (P : expl V -> Prop) (e : expl V) : Prop :=
    match e with
    | ENode v m cs => P e /\ (fix go (l : list (expl V)) : Prop := match l with [] => True | c :: r => all_nodes P c /\ go r end) cs
    end.
End Generic.

(* ---- instance: the reals ---- *)
Definition ops_R : ops R := {|
  oadd := Rplus; osub := Rminus; omul := Rmult; odiv := Rdiv; olog := ln;
  ou64 := IZR; oint := IZR; oQ := Q2R;
  oneqb := fun x y => if Req_EM_T x y then false else true |}.

(* ---- instance: binary64 with math.Log as a table ---- *)
Definition ops_F (t : log_table) : ops float := {|
  oadd := PrimFloat.add; osub := PrimFloat.sub; omul := PrimFloat.mul; odiv := PrimFloat.div;
  olog := log_f t; ou64 := f_of_u64; oint := f_of_int; oQ := f_of_Q;
  oneqb := fun x y => negb (PrimFloat.eqb x y) |}.

(* observed trees carry bit patterns *)
Fixpoint expl_eqb (a : expl float) (b : expl Z) : bool :=
  match a, b with
  | ENode va ma ca, ENode vb mb cb =>
      feqb va vb && String.eqb ma mb &&
      (fix go (x : list (expl float)) (y : list (expl Z)) : bool :=
         match x, y with
         | [], [] => true
         | p :: x', q :: y' => expl_eqb p q && go x' y'
         | _, _ => false
         end) ca cb
  end.

(* ---- shapes: what the harness reads off an observed tree (leaves only), from which the model
   rebuilds every inner value ---- *)
Inductive shape :=
| STerm (k1 b boost avgdl : Z) (n N : Z) (freq dl : Z)       (* float parameters as bit patterns *)
| SComposite (boost : Z) (parts : list shape)
| SConstant (c : Z) (composite : bool).

Section Build.
  Variable t : log_table.
  (* a term scorer given avgdl directly (the leaf of the tree), bm25.go:88-97 *)
  Definition scorer_of_leaves (k1 b boost avgdl : Z) (n N : Z) : scorer (V := float) :=
    let o := ops_F t in
    g_new_scorer o (f64_of_bits boost) (f64_of_bits k1) (f64_of_bits b) (f64_of_bits avgdl)
      (ENode (g_idf o n N) (msg_at msg_idf_explain 0)
         [ENode (f_of_u64 n) (msg_at msg_idf_explain 1) []; ENode (f_of_u64 N) (msg_at msg_idf_explain 2) []]).

  Fixpoint build (s : shape) : expl float :=
    match s with
    | STerm k1 b boost avgdl n N freq dl => g_explain (ops_F t) (scorer_of_leaves k1 b boost avgdl n N) freq dl
    | SComposite boost parts =>
        let es := map build parts in
        g_explain_composite (ops_F t) (f64_of_bits boost) (map (fun e => (ev e, e)) es)
    | SConstant c comp =>
        if comp then g_explain_constant_composite (f64_of_bits c) else g_explain_constant (f64_of_bits c)
    end.
End Build.
