(* Search/Numeric.v — executable model of numeric/float.go, numeric/prefix_coded.go,
   numeric/bin.go, field.go (addShiftTokens) and
   search/searcher/search_numeric_range.go (splitInt64Range, newRange, Enumerate,
   incrementBytes, the ±Inf / exclusive-end front end).
   float64 values are their 64-bit patterns (uint64 as Z); int64 values are Z in
   [-2^63, 2^63); bytes are Z in [0,256).  No proofs in this file. *)
From Coq Require Import ZArith List Bool.
From Bluge Require Import Base.Int64 Base.Res Gen.ParamsNumeric.
Import ListNotations.
Open Scope Z_scope.

(* ---------- numeric/float.go ---------- *)

(* Float64ToInt64: fasint := int64(bits); if fasint < 0 { fasint ^= 0x7fff...f } *)
Definition f2i (bits : Z) : Z :=
  let fasint := wrap64 bits in
  if fasint <? 0 then Z.lxor fasint max_int64 else fasint.

(* Int64ToFloat64 *)
Definition i2f (i : Z) : Z :=
  let i' := if i <? 0 then Z.lxor i max_int64 else i in
  uwrap64 i'.

(* ---------- numeric/prefix_coded.go ---------- *)

(* the loop `for nChars > 0 { rv[nChars] = byte(sortableBits & 0x7f); nChars--; sortableBits >>= 7 }`
   fills positions nChars..1, i.e. conses digits in front of the already written ones *)
Fixpoint digits7 (n : nat) (x : Z) (acc : list Z) : list Z :=
  match n with
  | O => acc
  | S n' => digits7 n' (Z.shiftr x 7) (Z.land x 127 :: acc)
  end.

Definition n_chars (shift : Z) : Z := (63 - shift) / 7 + 1.

(* NewPrefixCodedInt64(in, shift): None = the error "cannot shift" (shift > 63) *)
Definition prefix_coded (v : Z) (shift : Z) : option (list Z) :=
  if 63 <? shift then None
  else
    let sortable := Z.lxor (uwrap64 v) two63 in
    let sb := ushr64 sortable shift in
    Some (((shift_start_int64 + shift) mod 256) :: digits7 (Z.to_nat (n_chars shift)) sb []).

(* PrefixCoded.Shift(): byte arithmetic wraps mod 256; note `shift < 63` *)
Definition pc_shift (p : list Z) : option Z :=
  match p with
  | [] => None
  | b :: _ => let s := (b - shift_start_int64) mod 256 in
              if s <? 63 then Some s else None
  end.

(* PrefixCoded.Int64() *)
Definition pc_int64 (p : list Z) : option Z :=
  match pc_shift p with
  | None => None
  | Some s =>
      let sb := fold_left (fun acc b => Z.lor (shl64 acc 7) b) (tl p) 0 in
      Some (wrap64 (Z.lxor (uwrap64 (shl64 sb s)) two63))
  end.

(* ValidPrefixCodedTermBytes *)
Definition valid_prefix_coded (p : list Z) : bool * Z :=
  match p with
  | [] => (false, 0)
  | b :: _ =>
      if (b <? shift_start_int64) || (shift_start_int64 + 63 <? b) then (false, 0)
      else
        let shift := b - shift_start_int64 in
        let nChars := (63 - shift) / 7 + 1 in
        if Z.of_nat (length p) =? nChars + 1 then (true, shift) else (false, 0)
  end.

(* ---------- field.go: numericAnalyzer / addShiftTokens ---------- *)

(* tokens for shifts shiftBy, 2*shiftBy, ... < 64 *)
Fixpoint shift_tokens_from (fuel : nat) (v shift shiftBy : Z) : list (list Z) :=
  match fuel with
  | O => []
  | S f =>
      if shift <? 64 then
        match prefix_coded v shift with
        | None => []
        | Some t => t :: shift_tokens_from f v (shift + shiftBy) shiftBy
        end
      else []
  end.

(* numericAnalyzer.Analyze on the shift-0 encoding of v: the value itself plus shift tokens.
   (Analyze decodes its input with Int64(); for the shift-0 image that yields v, see
   Props/C10 prefix_roundtrip.) *)
Definition index_tokens (v shiftBy : Z) : list (list Z) :=
  match prefix_coded v 0 with
  | None => []
  | Some t0 =>
      match pc_int64 t0 with
      | None => [t0]
      | Some orig => t0 :: shift_tokens_from 64 orig shiftBy shiftBy
      end
  end.

(* ---------- bytes.Compare ---------- *)
Fixpoint bytes_cmp (a b : list Z) : comparison :=
  match a, b with
  | [], [] => Eq
  | [], _ :: _ => Lt
  | _ :: _, [] => Gt
  | x :: a', y :: b' =>
      match Z.compare x y with
      | Eq => bytes_cmp a' b'
      | c => c
      end
  end.
Definition bytes_le (a b : list Z) : bool := match bytes_cmp a b with Gt => false | _ => true end.
Definition bytes_lt (a b : list Z) : bool := match bytes_cmp a b with Lt => true | _ => false end.
Definition bytes_eqb (a b : list Z) : bool := match bytes_cmp a b with Eq => true | _ => false end.

(* ---------- search_numeric_range.go ---------- *)

Record trange := { tr_start : list Z; tr_end : list Z }.

(* newRange: maxBound |= (1<<shift)-1 ; MustNewPrefixCodedInt64 panics on error *)
Definition new_range (minB maxB shift : Z) : res trange :=
  let maxB' := Z.lor maxB (wrap64 (shl64 1 shift - 1)) in
  match prefix_coded minB shift, prefix_coded maxB' shift with
  | Some a, Some b => Ok {| tr_start := a; tr_end := b |}
  | _, _ => Panic 1
  end.

Fixpoint split_loop (fuel : nat) (minB maxB shift step : Z) (acc : list trange) : res (list trange) :=
  match fuel with
  | O => OutOfFuel
  | S f =>
      let diff := shl64 1 (shift + step) in
      let mask := shl64 (wrap64 (shl64 1 step - 1)) shift in
      let hasLower := negb (Z.land minB mask =? 0) in
      let hasUpper := negb (Z.land maxB mask =? mask) in
      let nextMin := if hasLower then Z.ldiff (wrap64 (minB + diff)) mask else Z.ldiff minB mask in
      let nextMax := if hasUpper then Z.ldiff (wrap64 (maxB - diff)) mask else Z.ldiff maxB mask in
      let lowerWrapped := nextMin <? minB in
      let upperWrapped := maxB <? nextMax in
      if (64 <=? shift + step) || (nextMax <? nextMin) || lowerWrapped || upperWrapped then
        r <- new_range minB maxB shift ;; Ok (acc ++ [r])
      else
        acc1 <- (if hasLower then r <- new_range minB (Z.lor minB mask) shift ;; Ok (acc ++ [r]) else Ok acc) ;;
        acc2 <- (if hasUpper then r <- new_range (Z.ldiff maxB mask) maxB shift ;; Ok (acc1 ++ [r]) else Ok acc1) ;;
        split_loop f nextMin nextMax (shift + step) step acc2
  end.

(* splitInt64Range(min, max, step); 65 iterations suffice for any step >= 1 *)
Definition split_range (minB maxB step : Z) : res (list trange) :=
  if maxB <? minB then Ok [] else split_loop 65 minB maxB 0 step [].

(* incrementBytes: add one to the big-endian byte string, wrapping *)
Fixpoint incr_rev (r : list Z) : list Z :=
  match r with
  | [] => []
  | b :: t => let b' := (b + 1) mod 256 in
              if b' =? 0 then b' :: incr_rev t else b' :: t
  end.
Definition increment_bytes (l : list Z) : list Z := rev (incr_rev (rev l)).

(* termRange.Enumerate(filter) with fuel *)
Fixpoint enumerate_loop (fuel : nat) (next endT : list Z) (filter : list Z -> bool) (acc : list (list Z))
  : res (list (list Z)) :=
  match fuel with
  | O => OutOfFuel
  | S f =>
      if bytes_le next endT then
        enumerate_loop f (increment_bytes next) endT filter (if filter next then acc ++ [next] else acc)
      else Ok acc
  end.

Definition enumerate_range (fuel : nat) (r : trange) (filter : list Z -> bool) : res (list (list Z)) :=
  enumerate_loop fuel (tr_start r) (tr_end r) filter [].

Fixpoint enumerate_ranges (fuel : nat) (rs : list trange) (filter : list Z -> bool) : res (list (list Z)) :=
  match rs with
  | [] => Ok []
  | r :: t => a <- enumerate_range fuel r filter ;; b <- enumerate_ranges fuel t filter ;; Ok (a ++ b)
  end.

(* fuel for one range: the harness aborts the implementation after 70000 visited
   candidate terms; the loop needs one more unit for the final failing comparison *)
Definition enum_fuel : nat := Z.to_nat 70001.

(* NewNumericRangeSearcher front end: float bit patterns, is_neg_inf/is_pos_inf decided by pattern *)
Definition bits_neg_inf : Z := 18442240474082181120. (* 0xFFF0000000000000 *)
Definition bits_pos_inf : Z := 9218868437227405312.  (* 0x7FF0000000000000 *)

Definition range_bounds (minBits maxBits : Z) (inclMin inclMax : bool) : Z * Z :=
  let minI := if minBits =? bits_neg_inf then min_int64 else f2i minBits in
  let maxI := if maxBits =? bits_pos_inf then max_int64 else f2i maxBits in
  let minI' := if negb inclMin && negb (minI =? max_int64) then minI + 1 else minI in
  let maxI' := if negb inclMax && negb (maxI =? min_int64) then maxI - 1 else maxI in
  (minI', maxI').

(* the terms a numeric range query looks for, given the dictionary predicate *)
Definition numeric_range_terms (minBits maxBits : Z) (inclMin inclMax : bool) (dict : list Z -> bool)
  : res (list (list Z)) :=
  let '(lo, hi) := range_bounds minBits maxBits inclMin inclMax in
  rs <- split_range lo hi query_precision_step ;;
  enumerate_ranges enum_fuel rs dict.

(* a document holding value v (int64) is matched iff one of its index tokens is among the terms *)
Definition doc_matches (terms : list (list Z)) (v : Z) : bool :=
  existsb (fun t => existsb (bytes_eqb t) terms) (index_tokens v numeric_precision_step).

(* declarative form used by the theorems: token t lies in range r *)
Definition in_trange (r : trange) (t : list Z) : bool :=
  (Nat.eqb (length t) (length (tr_start r))) && bytes_le (tr_start r) t && bytes_le t (tr_end r).

(* ---------- numeric/bin.go ---------- *)
Definition m0 : Z := 0x5555555555555555.
Definition m1 : Z := 0x3333333333333333.
Definition m2 : Z := 0x0F0F0F0F0F0F0F0F.
Definition m3 : Z := 0x00FF00FF00FF00FF.
Definition m4 : Z := 0x0000FFFF0000FFFF.
Definition m5 : Z := 0x00000000FFFFFFFF.

Definition ushl (x s : Z) : Z := uwrap64 (Z.shiftl x s).

Definition spread (v : Z) : Z :=
  let v := Z.land (Z.lor v (ushl v 16)) m4 in
  let v := Z.land (Z.lor v (ushl v 8)) m3 in
  let v := Z.land (Z.lor v (ushl v 4)) m2 in
  let v := Z.land (Z.lor v (ushl v 2)) m1 in
  let v := Z.land (Z.lor v (ushl v 1)) m0 in
  v.

Definition interleave (v1 v2 : Z) : Z := Z.lor (ushl (spread v2) 1) (spread v1).

Definition deinterleave (b : Z) : Z :=
  let b := Z.land b m0 in
  let b := Z.land (Z.lxor b (Z.shiftr b 1)) m1 in
  let b := Z.land (Z.lxor b (Z.shiftr b 2)) m2 in
  let b := Z.land (Z.lxor b (Z.shiftr b 4)) m3 in
  let b := Z.land (Z.lxor b (Z.shiftr b 8)) m4 in
  let b := Z.land (Z.lxor b (Z.shiftr b 16)) m5 in
  b.
