(* Search/NumericSource.v — executable model of the numeric parts of search/source.go:
   FieldSource.Value (sort key: firstTerm (RemoveNumericPaddedTerms values), lines 74-76, 299-304,
   327-348) and FieldSource.Numbers (lines 87-101) over the doc values (terms) of one field.
   No proofs in this file. *)
From Coq Require Import ZArith List Bool.
From Bluge Require Import Base.Int64 Base.Res Gen.ParamsNumeric Search.Numeric.
Import ListNotations.
Open Scope Z_scope.

(* the loop of RemoveNumericPaddedTerms: collects shift-0 terms, stops at the first term that is
   not one (`allValidNumeric = false; break`) *)
Fixpoint rnpt_scan (l : list (list Z)) (acc : list (list Z)) : bool * list (list Z) :=
  match l with
  | [] => (true, acc)
  | t :: r =>
      match pc_shift t with
      | Some 0 => rnpt_scan r (acc ++ [t])
      | _ => (false, acc)
      end
  end.

Definition remove_numeric_padded_terms (vals : list (list Z)) : list (list Z) :=
  let '(allValid, zeroPadded) := rnpt_scan vals [] in
  if allValid && negb (match zeroPadded with [] => true | _ => false end) then zeroPadded else vals.

Definition first_term (vals : list (list Z)) : option (list Z) :=
  match vals with [] => None | t :: _ => Some t end.

(* FieldSource.Value: the bytes a sort on this field compares (search/sort.go:62 bytes.Compare) *)
Definition source_value (vals : list (list Z)) : option (list Z) :=
  first_term (remove_numeric_padded_terms vals).

(* FieldSource.Numbers: the float64 bit patterns of the shift-0 terms *)
Definition source_numbers (vals : list (list Z)) : list Z :=
  flat_map (fun t => match pc_shift t with
                     | Some 0 => match pc_int64 t with Some i => [i2f i] | None => [] end
                     | _ => []
                     end) vals.
