(* Search/AggsCorr.v — correspondence cases for the aggs engine: a match list, an aggregation
   tree, a sort order and, for several collector settings (AllMatches, TopNSearch with n / from /
   After / Before, the collector called directly), the aggregation results read back from the
   implementation; check recomputes the calculator states with the model and validates every
   observed value against them. *)
From Coq Require Import ZArith QArith List Bool.
From Bluge Require Import Base.Int64 Base.Res Base.Corr Gen.ParamsTopN Search.Numeric Search.Sort Search.TopN Search.Aggs.
Import ListNotations.
Open Scope Z_scope.

Inductive mode :=
| MAll                                                         (* bluge.AllMatches / collector.AllCollector *)
| MTopN (n : Z) (p : paging)                                   (* bluge.TopNSearch *)
| MDirect (size skip : Z) (after : option (list bytes)) (reverse : bool).   (* collector.NewTopNCollector[After] *)

(* out = None: the run panicked *)
Inductive arun := ARun (m : mode) (out : option (list obs)).

Inductive acase :=
| CAggs (aggs : list (Z * agg)) (order : list sortspec) (hits : list rawhit) (runs : list arun)
| CFloat (bits num : Z) (den : positive)                        (* xq_of_bits on a finite pattern *)
| CMerge (aggs : list (Z * agg)) (shards : list (list rawhit * list obs)) (steps : list (list obs)).
  (* shards: match list and finished aggregations of each shard (AllCollector); steps: the first
     shard's bucket after Bucket.Merge of the second, of the third, ... *)

Definition state_of (aggs : list (Z * agg)) (order : list sortspec) (hits : list rawhit) (m : mode) : res (list calc) :=
  match m with
  | MAll => Ok (all_aggs aggs hits)
  | MTopN n p => rmap snd (topn_aggs aggs n order p hits)
  | MDirect size skip after reverse => rmap snd (direct_aggs aggs size skip order reverse after hits)
  end.

Definition check_run (aggs : list (Z * agg)) (order : list sortspec) (hits : list rawhit) (r : arun) : bool :=
  let '(ARun m out) := r in
  match state_of aggs order hits m, out with
  | Ok cs, Some os => check_bucket aggs cs os
  | Panic _, None => true
  | _, _ => false
  end.

Fixpoint merge_steps (aggs : list (Z * agg)) (st : list calc) (rest : list (list calc)) (steps : list (list obs)) : bool :=
  match rest, steps with
  | [], [] => true
  | f :: rr, o :: os =>
      let m := merge_subs aggs st f in
      check_bucket aggs m o && merge_steps aggs (finish_bucket aggs m o) rr os
  | _, _ => false
  end.

Definition check_merge (aggs : list (Z * agg)) (shards : list (list rawhit * list obs)) (steps : list (list obs)) : bool :=
  let states := map (fun sh => (all_aggs aggs (fst sh), snd sh)) shards in
  forallb (fun so => check_bucket aggs (fst so) (snd so)) states &&
  match map (fun so => finish_bucket aggs (fst so) (snd so)) states with
  | [] => match steps with [] => true | _ => false end
  | f1 :: rest => merge_steps aggs f1 rest steps
  end.

Definition check (c : acase) : bool :=
  match c with
  | CAggs aggs order hits runs => forallb (check_run aggs order hits) runs
  | CFloat bits num den => xq_eqb (xq_of_bits bits) (XFin (num # den))
  | CMerge aggs shards steps => check_merge aggs shards steps
  end.

Definition mismatches (l : list acase) : list nat := failing check l.
