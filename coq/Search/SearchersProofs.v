(* Search/SearchersProofs.v — first part of the proofs about the searcher state machines:
   non-vacuity examples on a fixed 2-segment, 5-document index with a pending delete
   (the same index the `search` engine builds in its probes). *)
From Coq Require Import ZArith List Bool Lia.
From Bluge Require Import Base.Res Search.Numeric Search.Postings Search.Searchers Search.Semantics.
Import ListNotations.
Open Scope Z_scope.

Definition t_ab := [97; 98].
Definition t_ba := [98; 97].
Definition t_cab := [99; 97; 98].

(* segment 0: docs 1 "ab ba", 2 "ba" (deleted), 3 "ab cab ab"; segment 1: docs 4 "ba ab", 5 "ba" *)
Definition ex_sn : snapshot :=
  [ {| seg_docs := [ {| d_id := 1; d_fields := [(0, [ {| tf_term := t_ab; tf_pos := [1] |}; {| tf_term := t_ba; tf_pos := [2] |} ])] |};
                     {| d_id := 2; d_fields := [(0, [ {| tf_term := t_ba; tf_pos := [1] |} ])] |};
                     {| d_id := 3; d_fields := [(0, [ {| tf_term := t_ab; tf_pos := [1; 3] |}; {| tf_term := t_cab; tf_pos := [2] |} ])] |} ];
       seg_del := [1] |};
    {| seg_docs := [ {| d_id := 4; d_fields := [(0, [ {| tf_term := t_ab; tf_pos := [2] |}; {| tf_term := t_ba; tf_pos := [1] |} ])] |};
                     {| d_id := 5; d_fields := [(0, [ {| tf_term := t_ba; tf_pos := [1] |} ])] |} ];
       seg_del := [] |} ].

Definition ex_q1 : query := QBool [QTerm 0 t_ab] [QTerm 0 t_ba; QTerm 0 t_cab] [QPhrase 0 [[t_ba]; [t_ab]] 0] 1.

(* the boolean tree returns exactly the documents its meaning selects on the example index *)
Lemma ex_run_boolean : run ex_sn copts_default ex_q1 = Ok [0; 2] /\ sem_numbers ex_q1 ex_sn = [0; 2].
Proof. vm_compute. split; reflexivity. Qed.

(* a deleted document (number 1, id 2) holding the term is never returned *)
Lemma ex_deleted_skipped : run ex_sn copts_default (QTerm 0 t_ba) = Ok [0; 3; 4] /\ sem_ids (QTerm 0 t_ba) ex_sn = [1; 4; 5].
Proof. vm_compute. split; reflexivity. Qed.

(* Advance crosses the segment boundary (offsets 0 and 3) *)
Lemma ex_advance_across_segments :
  (s <- compile ex_sn copts_default (QTerm 0 t_ab) ;; run_script 100 10 s [ONext; OAdvance 3; ONext]) = Ok [Some 0; Some 3; None].
Proof. vm_compute. reflexivity. Qed.

(* a sloppy phrase: "ab ab" with slop 1 is found in "ab cab ab" only *)
Lemma ex_phrase_slop :
  run ex_sn copts_default (QPhrase 0 [[t_ab]; [t_ab]] 1) = Ok [2] /\
  run ex_sn copts_default (QPhrase 0 [[t_ab]; [t_ab]] 0) = Ok [] /\
  sem_numbers (QPhrase 0 [[t_ab]; [t_ab]] 1) ex_sn = [2].
Proof. vm_compute. repeat split; reflexivity. Qed.

(* ---------- the bitmap rewrites of index/optimize.go return the same document set ---------- *)

Lemma zmem_In x l : zmem x l = true <-> In x l.
Proof.
  unfold zmem. rewrite existsb_exists. split.
  - intros [y [Hy E]]. apply Z.eqb_eq in E. subst. exact Hy.
  - intros H. exists x. split; [exact H|apply Z.eqb_refl].
Qed.

Lemma pnums_bare l : pnums (map bare l) = l.
Proof. unfold pnums. rewrite map_map. simpl. apply map_id. Qed.

(* unadorned conjunction (optimizeConjunctionUnadorned.Finish): per segment the numbers present
   in every child's list *)
Lemma inter_seg_spec : forall ls x,
  In x (pnums (inter_seg ls)) <-> ls <> [] /\ forall l, In l ls -> In x (pnums l).
Proof.
  intros [| l0 r] x; simpl.
  - split; [intros []|intros [H _]; congruence].
  - unfold pnums at 1. rewrite map_map. simpl. rewrite in_map_iff. split.
    + intros [p [Hp Hin]]. apply filter_In in Hin. destruct Hin as [Hin Hall]. split; [discriminate|].
      intros l [<-|Hl].
      * unfold pnums. apply in_map_iff. exists p. split; assumption.
      * rewrite forallb_forall in Hall. specialize (Hall l Hl). rewrite Hp in Hall. apply zmem_In. exact Hall.
    + intros [_ Hall]. pose proof (Hall l0 (or_introl eq_refl)) as H0. unfold pnums in H0. apply in_map_iff in H0.
      destruct H0 as [p [Hp Hin]]. exists p. split; [exact Hp|]. apply filter_In. split; [exact Hin|].
      apply forallb_forall. intros l Hl. rewrite Hp. apply zmem_In. apply Hall. right. exact Hl.
Qed.

Lemma insert_pos_In x y l : In x (insert_pos y l) <-> x = y \/ In x l.
Proof.
  induction l as [| h r IH]; simpl; [intuition|].
  destruct (y <? h); [simpl; intuition|]. destruct (y =? h) eqn:E.
  - apply Z.eqb_eq in E. subst. simpl. intuition.
  - simpl. rewrite IH. intuition.
Qed.

Lemma sort_dedupe_In x l : In x (fold_right insert_pos [] l) <-> In x l.
Proof.
  induction l as [| a l IH]; simpl; [reflexivity|]. rewrite insert_pos_In, IH. intuition.
Qed.

(* unadorned disjunction (optimizeDisjunctionUnadorned.Finish): per segment the numbers present
   in some child's list *)
Lemma union_seg_spec : forall ls x,
  In x (pnums (union_seg ls)) <-> exists l, In l ls /\ In x (pnums l).
Proof.
  intros ls x. unfold union_seg. rewrite pnums_bare, sort_dedupe_In, in_flat_map. reflexivity.
Qed.

(* the "conjunction" push-down (optimizeConjunction.Finish, and_replace): a term child keeps
   exactly its entries whose number every term child of the segment holds *)
Lemma and_replace_filter_spec : forall (col : list (list posting)) (l : list posting) p,
  In p (filter (fun p => forallb (fun l' => zmem (p_num p) (pnums l')) col) l) <->
  In p l /\ forall l', In l' col -> In (p_num p) (pnums l').
Proof.
  intros col l p. rewrite filter_In, forallb_forall. split; intros [H1 H2]; split; auto.
  - intros l' Hl'. apply zmem_In. apply H2. exact Hl'.
  - intros l' Hl'. apply zmem_In. apply H2. exact Hl'.
Qed.
