(* Search/SearchersProofs.v — first part of the proofs about the searcher state machines:
   non-vacuity examples on a fixed 2-segment, 5-document index with a pending delete
   (the same index the `search` engine builds in its probes). *)
From Coq Require Import ZArith List Bool Lia.
From Bluge Require Import Base.Res Search.Numeric Search.Postings Search.Searchers Search.Semantics.
Import ListNotations.
Open Scope Z_scope.

Definition t_ab := [97; 98].
Definition t_ba := [98; 97].
Definition t_cab := [99; 97; 98].

(* segment 0: docs 1 "ab ba", 2 "ba" (deleted), 3 "ab cab ab"; segment 1: docs 4 "ba ab", 5 "ba" *)
Definition ex_sn : snapshot :=
  [ {| seg_docs := [ {| d_id := 1; d_fields := [(0, [ {| tf_term := t_ab; tf_pos := [1] |}; {| tf_term := t_ba; tf_pos := [2] |} ])] |};
                     {| d_id := 2; d_fields := [(0, [ {| tf_term := t_ba; tf_pos := [1] |} ])] |};
                     {| d_id := 3; d_fields := [(0, [ {| tf_term := t_ab; tf_pos := [1; 3] |}; {| tf_term := t_cab; tf_pos := [2] |} ])] |} ];
       seg_del := [1] |};
    {| seg_docs := [ {| d_id := 4; d_fields := [(0, [ {| tf_term := t_ab; tf_pos := [2] |}; {| tf_term := t_ba; tf_pos := [1] |} ])] |};
                     {| d_id := 5; d_fields := [(0, [ {| tf_term := t_ba; tf_pos := [1] |} ])] |} ];
       seg_del := [] |} ].

Definition ex_q1 : query := QBool [QTerm 0 t_ab] [QTerm 0 t_ba; QTerm 0 t_cab] [QPhrase 0 [[t_ba]; [t_ab]] 0] 1.

(* the boolean tree returns exactly the documents its meaning selects on the example index *)
Lemma ex_run_boolean : run ex_sn copts_default ex_q1 = Ok [0; 2] /\ sem_numbers ex_q1 ex_sn = [0; 2].
Proof. vm_compute. split; reflexivity. Qed.

(* a deleted document (number 1, id 2) holding the term is never returned *)
Lemma ex_deleted_skipped : run ex_sn copts_default (QTerm 0 t_ba) = Ok [0; 3; 4] /\ sem_ids (QTerm 0 t_ba) ex_sn = [1; 4; 5].
Proof. vm_compute. split; reflexivity. Qed.

(* Advance crosses the segment boundary (offsets 0 and 3) *)
Lemma ex_advance_across_segments :
  (s <- compile ex_sn copts_default (QTerm 0 t_ab) ;; run_script 100 10 s [ONext; OAdvance 3; ONext]) = Ok [Some 0; Some 3; None].
Proof. vm_compute. reflexivity. Qed.

(* a sloppy phrase: "ab ab" with slop 1 is found in "ab cab ab" only *)
Lemma ex_phrase_slop :
  run ex_sn copts_default (QPhrase 0 [[t_ab]; [t_ab]] 1) = Ok [2] /\
  run ex_sn copts_default (QPhrase 0 [[t_ab]; [t_ab]] 0) = Ok [] /\
  sem_numbers (QPhrase 0 [[t_ab]; [t_ab]] 1) ex_sn = [2].
Proof. vm_compute. repeat split; reflexivity. Qed.
