(* Search/NumericProofs.v — proofs about Search/Numeric.v (C10). *)
From Coq Require Import ZArith List Bool Lia.
From Coq Require Import ZifyBool.
From Bluge Require Import Base.Int64 Base.Res Gen.ParamsNumeric Search.Numeric.
Import ListNotations.
Open Scope Z_scope.

(* ---------- Float64ToInt64 / Int64ToFloat64 ---------- *)

Lemma wrap64_of_uint64 b : in_uint64 b -> wrap64 b = if b <? two63 then b else b - two64.
Proof.
  unfold in_uint64, wrap64, two63, two64. intros H.
  destruct (Z.ltb_spec b 9223372036854775808).
  - rewrite Z.mod_small; lia.
  - replace (b + 9223372036854775808) with ((b - 9223372036854775808) + 1 * 18446744073709551616) by lia.
    rewrite Z.mod_add by lia. rewrite Z.mod_small; lia.
Qed.

(* arithmetic characterisation of the xor trick *)
Lemma f2i_arith b : in_uint64 b -> f2i b = if b <? two63 then b else two63 - 1 - b.
Proof.
  intros H. unfold f2i. rewrite (wrap64_of_uint64 b H).
  unfold in_uint64, two64 in H.
  destruct (Z.ltb_spec b two63) as [Hlt|Hge].
  - destruct (Z.ltb_spec b 0); [lia|reflexivity].
  - unfold two63, two64 in *. destruct (Z.ltb_spec (b - 18446744073709551616) 0); [|lia].
    rewrite lxor_max_neg by (unfold min_int64; lia). unfold two63. lia.
Qed.

Lemma f2i_range b : in_uint64 b -> in_int64 (f2i b).
Proof.
  intros H. rewrite f2i_arith by assumption. unfold in_uint64, in_int64, two63, two64, min_int64, max_int64 in *.
  destruct (Z.ltb_spec b 9223372036854775808); lia.
Qed.

Lemma i2f_arith i : in_int64 i -> i2f i = if i <? 0 then two63 - 1 - i else i.
Proof.
  intros H. unfold i2f. unfold in_int64, min_int64, max_int64 in H.
  destruct (Z.ltb_spec i 0).
  - rewrite lxor_max_neg by (unfold min_int64; lia).
    unfold uwrap64, two63, two64.
    replace (- i - 9223372036854775808 - 1) with ((9223372036854775808 - 1 - i) + (-1) * 18446744073709551616) by lia.
    rewrite Z.mod_add by lia. rewrite Z.mod_small; lia.
  - unfold uwrap64, two64. rewrite Z.mod_small; lia.
Qed.

(* round trip on every one of the 2^64 bit patterns (NaN payloads and infinities included) *)
Lemma f2i_roundtrip_all b : in_uint64 b -> i2f (f2i b) = b.
Proof.
  intros H. rewrite i2f_arith by (apply f2i_range; assumption).
  rewrite f2i_arith by assumption. unfold in_uint64, two63, two64 in *.
  destruct (Z.ltb_spec b 9223372036854775808).
  - destruct (Z.ltb_spec b 0); lia.
  - destruct (Z.ltb_spec (9223372036854775808 - 1 - b) 0); lia.
Qed.

Lemma i2f_roundtrip_all i : in_int64 i -> f2i (i2f i) = i.
Proof.
  intros H. assert (Hr : in_uint64 (i2f i)).
  { rewrite i2f_arith by assumption. unfold in_int64, in_uint64, min_int64, max_int64, two63, two64 in *.
    destruct (Z.ltb_spec i 0); lia. }
  rewrite f2i_arith by assumption. rewrite i2f_arith by assumption.
  unfold in_int64, min_int64, max_int64, two63, two64 in *.
  destruct (Z.ltb_spec i 0).
  - destruct (Z.ltb_spec (9223372036854775808 - 1 - i) 9223372036854775808); lia.
  - destruct (Z.ltb_spec i 9223372036854775808); lia.
Qed.

(* IEEE-754 binary64 order on bit patterns, as sign/magnitude comparison:
   sign = bit 63, magnitude = low 63 bits (exponent and mantissa fields, which for
   finite values of one sign compare like the absolute values).  -0 < +0. *)
Definition f_sign (b : Z) : Z := b / two63.
Definition f_mag (b : Z) : Z := b mod two63.
Definition float_lt (a b : Z) : Prop :=
  (f_sign a = 1 /\ f_sign b = 0) \/
  (f_sign a = 0 /\ f_sign b = 0 /\ f_mag a < f_mag b) \/
  (f_sign a = 1 /\ f_sign b = 1 /\ f_mag b < f_mag a).

Lemma sign_mag b : in_uint64 b ->
  (b < two63 /\ f_sign b = 0 /\ f_mag b = b) \/ (two63 <= b /\ f_sign b = 1 /\ f_mag b = b - two63).
Proof.
  unfold in_uint64, f_sign, f_mag, two63, two64. intros H.
  destruct (Z_lt_ge_dec b 9223372036854775808).
  - left. rewrite Z.div_small, Z.mod_small; lia.
  - right. replace b with ((b - 9223372036854775808) + 1 * 9223372036854775808) at 2 3 by lia.
    rewrite Z.div_add, Z.mod_add by lia. rewrite Z.div_small, Z.mod_small; lia.
Qed.

Lemma f2i_order_all a b : in_uint64 a -> in_uint64 b -> (float_lt a b <-> f2i a < f2i b).
Proof.
  intros Ha Hb. rewrite !f2i_arith by assumption.
  destruct (sign_mag a Ha) as [(La & Sa & Ma)|(La & Sa & Ma)];
  destruct (sign_mag b Hb) as [(Lb & Sb & Mb)|(Lb & Sb & Mb)];
  unfold float_lt; rewrite Sa, Sb, Ma, Mb;
  unfold in_uint64, two63, two64 in *;
  destruct (Z.ltb_spec a 9223372036854775808); destruct (Z.ltb_spec b 9223372036854775808); try lia.
Qed.

(* -0 (0x8000...0) is immediately below +0 (0) *)
Lemma f2i_zeros : f2i two63 = -1 /\ f2i 0 = 0.
Proof. split; reflexivity. Qed.

(* the query-time precision step (the literal argument of splitInt64Range in
   NewNumericRangeSearcher) equals the index-time steps of numeric and datetime fields;
   all three are regenerated from the Go source on every run *)
Lemma steps_agree :
  query_precision_step = numeric_precision_step /\ query_precision_step = datetime_precision_step.
Proof. split; reflexivity. Qed.
