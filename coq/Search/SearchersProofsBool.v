(* Search/SearchersProofsBool.v — the boolean searcher (search_boolean.go) meets the iterator
   contract when its children do.  Denotation: every candidate of the primary child (must, else
   should) that the must-not child does not match and — when there are must clauses and the
   should child requires matches (Min() <> 0) — that the should child matches too.
   Invariant (DESIGN.md 3.5): currentMatch is the least candidate at or above the level L;
   currShould / currMustNot are members of their children, with no member between L and the
   cursor, or trail the candidate. *)
From Coq Require Import ZArith List Bool Lia Arith.
From Bluge Require Import Base.Res Search.Numeric Search.Postings Search.Searchers
  Search.SearchersProofsBase Search.SearchersProofsConj.
Import ListNotations.
Open Scope Z_scope.

Section Bool.
  Variable C : Type.
  Variable cnext : C -> res (option dmatch * C).
  Variable cadv : C -> Z -> res (option dmatch * C).
  Variable cmin : C -> Z.
  Variable CInv CFin : C -> (Z -> bool) -> Z -> Prop.
  Hypothesis Hnext : next_exact C cnext CInv CFin.
  Hypothesis Hadv : adv_exact C cadv CInv CFin.
  (* Min() is a static property of a searcher *)
  Hypothesis Hmin_next : forall c r c', cnext c = Ok (r, c') -> cmin c' = cmin c.
  Hypothesis Hmin_adv : forall c n r c', cadv c n = Ok (r, c') -> cmin c' = cmin c.
  Variable N : Z.

  Variable Sm Ss Sn : option (Z -> bool).   (* denotations of the children that exist *)
  Variable smin : Z.                          (* shouldSearcher.Min() *)

  Definition opt_S (o : option (Z -> bool)) (dflt : bool) (x : Z) : bool :=
    match o with Some s => s x | None => dflt end.

  Definition should_required : bool := match Ss with Some _ => negb (smin =? 0) | None => false end.

  Definition bool_S (x : Z) : bool :=
    match Sm with
    | Some sm => sm x && negb (opt_S Sn false x) && (if should_required then opt_S Ss true x else true)
    | None => match Ss with
              | Some ss => ss x && negb (opt_S Sn false x)
              | None => false
              end
    end.

  (* the child that supplies the candidates *)
  Definition prim_ok (child : C) (S : Z -> bool) (L : Z) (cursor : option dmatch) : Prop :=
    bounded N S /\
    match cursor with
    | Some m => least_from S L (dm_num m) /\ CInv child S (dm_num m + 1)
    | None => none_from S L /\ exists lo', lo' <= L /\ CFin child S lo'
    end.

  (* a child that is only consulted about the candidate *)
  Definition sec_ok (child : C) (S : Z -> bool) (L : Z) (cursor : option dmatch) : Prop :=
    match cursor with
    | Some m => S (dm_num m) = true /\ CInv child S (dm_num m + 1) /\ (forall x, L <= x < dm_num m -> S x = false)
    | None => none_from S L /\ exists lo', lo' <= L /\ CFin child S lo'
    end.

  Definition opt_sec_ok (child : option C) (S : option (Z -> bool)) (L : Z) (cursor : option dmatch) : Prop :=
    match child, S with
    | Some c, Some s => sec_ok c s L cursor
    | None, None => cursor = None
    | _, _ => False
    end.

  (* Lp, Ln, Ls: the levels the candidates, the must-not cursor and the should cursor are valid from *)
  Definition bool_ok3 (st : bool_st C) (Lp Ln Ls : Z) : Prop :=
    b_init st = true /\ b_done st = false /\
    opt_sec_ok (b_mustnot st) Sn Ln (b_cmn st) /\
    match b_must st, Sm with
    | Some mc, Some sm =>
        prim_ok mc sm Lp (b_cm st) /\ b_cur st = b_cm st /\
        opt_sec_ok (b_should st) Ss Ls (b_cs st) /\
        match b_should st with Some sc => cmin sc = smin | None => True end
    | None, None =>
        match b_should st, Ss with
        | Some sc, Some ss => prim_ok sc ss Lp (b_cs st) /\ b_cur st = b_cs st /\ b_cm st = None
        | _, _ => False
        end
    | _, _ => False
    end.

  Definition bool_ok (st : bool_st C) (L : Z) : Prop := bool_ok3 st L L L.

  (* ---------- consulting a secondary child about the candidate c ---------- *)

  Lemma sec_keep : forall child S L cursor c,
    sec_ok child S L cursor -> L <= c ->
    match cursor with Some m => c <= dm_num m | None => True end ->
    sec_ok child S (c + 1) cursor /\
    S c = match cursor with Some m => dm_num m =? c | None => false end.
  Proof.
    intros child S L [m|] c Hok HL Hc; simpl in *.
    - destruct Hok as [A [B0 D]]. split.
      + split; [exact A|]. split; [exact B0|]. intros x Hx. apply D. lia.
      + destruct (dm_num m =? c) eqn:E.
        * apply Z.eqb_eq in E. rewrite <- E. exact A.
        * apply Z.eqb_neq in E. apply D. lia.
    - destruct Hok as [Hn [lo' [Hlo' HF]]]. split.
      + split; [eapply none_from_mono; eauto; lia|]. exists lo'. split; [lia|exact HF].
      + apply Hn. exact HL.
  Qed.

  (* the cursor trails the candidate: Advance(c) *)
  Lemma sec_advance : forall child S L m c,
    sec_ok child S L (Some m) -> dm_num m < c ->
    exists r child', cadv child c = Ok (r, child') /\
      sec_ok child' S (c + 1) r /\
      S c = match r with Some m' => dm_num m' =? c | None => false end /\
      match r with Some m' => c <= dm_num m' | None => True end.
  Proof.
    intros child S L m c [A [B0 D]] Hlt.
    destruct (Hadv child S (dm_num m + 1) c B0 ltac:(lia)) as [r [child' [E Hpost]]].
    exists r, child'. split; [exact E|].
    destruct r as [m'|]; simpl in Hpost.
    - destruct Hpost as [[A' [B' D']] HI]. split; [|split].
      + split; [exact A'|]. split; [exact HI|]. intros x Hx. apply D'. lia.
      + destruct (dm_num m' =? c) eqn:E2.
        * apply Z.eqb_eq in E2. rewrite <- E2. exact A'.
        * apply Z.eqb_neq in E2. apply D'. lia.
      + exact B'.
    - destruct Hpost as [Hn HF]. split; [|split; [apply Hn; lia|exact I]].
      split; [eapply none_from_mono; eauto; lia|]. exists c. split; [lia|exact HF].
  Qed.

  Lemma sec_ok_mono : forall child S L L' cursor, sec_ok child S L cursor -> L <= L' -> sec_ok child S L' cursor.
  Proof.
    intros child S L L' [m|] Hok Hle; simpl in *.
    - destruct Hok as [A [B0 D]]. split; [exact A|]. split; [exact B0|]. intros x Hx. apply D. lia.
    - destruct Hok as [Hn [lo' [Hlo' HF]]]. split; [eapply none_from_mono; eauto|]. exists lo'. split; [lia|exact HF].
  Qed.

  Lemma opt_sec_ok_mono : forall child S L L' cursor, opt_sec_ok child S L cursor -> L <= L' -> opt_sec_ok child S L' cursor.
  Proof.
    intros [c|] [s|] L L' cursor H Hle; simpl in *; auto. eapply sec_ok_mono; eauto.
  Qed.

  (* consulting an optional secondary child: the shape shared by must-not and should *)
  Definition consult (child : option C) (cursor : option dmatch) (c : Z) : res (option dmatch * option C) :=
    match cursor with
    | Some m => if dm_num m <? c then opt_adv C cadv child cursor c else Ok (cursor, child)
    | None => Ok (cursor, child)
    end.

  Lemma consult_spec : forall child S L cursor c,
    opt_sec_ok child S L cursor -> L <= c ->
    exists cursor' child', consult child cursor c = Ok (cursor', child') /\
      opt_sec_ok child' S (c + 1) cursor' /\
      opt_S S false c = match cursor' with Some m' => dm_num m' =? c | None => false end /\
      match cursor' with Some m' => c <= dm_num m' | None => True end /\
      (child = None <-> child' = None) /\
      (forall ch ch', child = Some ch -> child' = Some ch' -> cmin ch' = cmin ch).
  Proof.
    intros [ch|] [s|] L cursor c Hok HL; simpl in Hok; try contradiction.
    - unfold consult. destruct cursor as [m|].
      + destruct (dm_num m <? c) eqn:E.
        * apply Z.ltb_lt in E. destruct (sec_advance ch s L m c Hok E) as [r [ch' [Ea [Hok' [Hs Hge]]]]].
          exists r, (Some ch'). simpl. rewrite Ea. simpl. split; [reflexivity|]. split; [exact Hok'|]. split; [exact Hs|].
          split; [exact Hge|]. split; [split; discriminate|].
          intros a b Ha Hb. inversion Ha; inversion Hb; subst. eapply Hmin_adv; eauto.
        * apply Z.ltb_ge in E. destruct (sec_keep ch s L (Some m) c Hok HL E) as [Hok' Hs].
          exists (Some m), (Some ch). split; [reflexivity|]. split; [exact Hok'|]. split; [exact Hs|]. split; [exact E|].
          split; [split; discriminate|]. intros a b Ha Hb. inversion Ha; inversion Hb; subst. reflexivity.
      + destruct (sec_keep ch s L None c Hok HL I) as [Hok' Hs].
        exists None, (Some ch). split; [reflexivity|]. split; [exact Hok'|]. split; [exact Hs|]. split; [exact I|].
        split; [split; discriminate|]. intros a b Ha Hb. inversion Ha; inversion Hb; subst. reflexivity.
    - subst cursor. exists None, None. unfold consult. split; [reflexivity|]. simpl. split; [reflexivity|].
      split; [reflexivity|]. split; [exact I|]. split; [split; reflexivity|]. intros a b Ha. discriminate.
  Qed.

  (* ---------- nextInternal in two stages ---------- *)

  Definition mn_stage (st : bool_st C) (cur : dmatch) : res (bool * bool_st C) :=
    match b_cmn st with
    | None => Ok (false, st)
    | Some mn =>
        if dm_num mn <? dm_num cur then
          y <- opt_adv C cadv (b_mustnot st) (b_cmn st) (dm_num cur) ;;
          let st1 := set_cmn C st (snd y) (fst y) in
          match fst y with
          | Some mn' => if dm_num mn' =? dm_num cur
                        then st2 <- bool_advance_next_must C cnext st1 ;; Ok (true, st2)
                        else Ok (false, st1)
          | None => Ok (false, st1)
          end
        else if dm_num mn =? dm_num cur then st2 <- bool_advance_next_must C cnext st ;; Ok (true, st2)
        else Ok (false, st)
    end.

  Definition matched' (stm : bool_st C) (cons : list dmatch) : res (option dmatch * bool_st C) :=
    match build_match cons with
    | None => Panic 3
    | Some rv => st3 <- bool_advance_next_must C cnext stm ;; Ok (Some rv, st3)
    end.

  Definition only_must' (stm : bool_st C) : list dmatch := match b_cm stm with Some m => [m] | None => [] end.

  Definition should_stage (k : bool_st C -> res (option dmatch * bool_st C)) (st1 : bool_st C) (cur : dmatch)
    : res (option dmatch * bool_st C) :=
    match b_cs st1 with
    | Some s =>
        if dm_num s <? dm_num cur then
          y <- opt_adv C cadv (b_should st1) (b_cs st1) (dm_num cur) ;;
          let st2 := set_cs C st1 (snd y) (fst y) in
          let hit := match fst y with Some s' => dm_num s' =? dm_num cur | None => false end in
          if hit then matched' st2 (bool_constituents C st2)
          else if should_min_zero C cmin st2 then matched' st2 (only_must' st2)
          else st3 <- bool_advance_next_must C cnext st2 ;; k st3
        else if dm_num s =? dm_num cur then matched' st1 (bool_constituents C st1)
        else if should_min_zero C cmin st1 then matched' st1 (only_must' st1)
        else st3 <- bool_advance_next_must C cnext st1 ;; k st3
    | None =>
        if should_min_zero C cmin st1 then matched' st1 (only_must' st1)
        else st3 <- bool_advance_next_must C cnext st1 ;; k st3
    end.

  Lemma bool_loop_unfold : forall f st,
    bool_loop C cnext cadv cmin (Datatypes.S f) st =
    match b_cur st with
    | None => Ok (None, st)
    | Some cur =>
        x <- mn_stage st cur ;;
        if fst x then bool_loop C cnext cadv cmin f (snd x)
        else should_stage (bool_loop C cnext cadv cmin f) (snd x) cur
    end.
  Proof. reflexivity. Qed.

  (* the denotation of the child supplying the candidates *)
  Definition prim_S (x : Z) : bool :=
    match Sm with Some sm => sm x | None => opt_S Ss false x end.

  Lemma bool_S_prim x : prim_S x = false -> bool_S x = false.
  Proof.
    unfold prim_S, bool_S. destruct Sm as [sm|]; [intros ->; reflexivity|].
    destruct Ss as [ss|]; simpl; [intros ->; reflexivity|reflexivity].
  Qed.

  (* advanceNextMust from a state whose candidate is cur *)
  Lemma anm_spec : forall st Lp Ln Ls cur,
    bool_ok3 st Lp Ln Ls -> b_cur st = Some cur -> Ln <= dm_num cur + 1 -> Ls <= dm_num cur + 1 ->
    exists st', bool_advance_next_must C cnext st = Ok st' /\ bool_ok st' (dm_num cur + 1).
  Proof.
    intros st Lp Ln Ls cur [Hi [Hd [Hmn Hrest]]] Hcur HLn HLs.
    unfold bool_advance_next_must.
    destruct (b_must st) as [mc|] eqn:Em; destruct Sm as [sm|] eqn:ESm; try contradiction.
    - destruct Hrest as [[HB Hp] [Hcc [Hsh Hmin]]]. rewrite Hcur in Hcc. rewrite <- Hcc in Hp.
      destruct Hp as [_ HI].
      destruct (Hnext mc sm (dm_num cur + 1) HI) as [r [mc' [E Hpost]]]. rewrite E. simpl.
      eexists. split; [reflexivity|].
      unfold bool_ok, bool_ok3. simpl. rewrite ESm. split; [exact Hi|]. split; [exact Hd|].
      split; [eapply opt_sec_ok_mono; eauto|].
      split; [|split; [reflexivity|split; [eapply opt_sec_ok_mono; eauto|exact Hmin]]].
      split; [exact HB|]. destruct r as [m'|]; simpl in Hpost; [exact Hpost|].
      destruct Hpost as [Hn HF]. split; [exact Hn|]. eexists. split; [|exact HF]. lia.
    - destruct (b_should st) as [sc|] eqn:Es; destruct Ss as [ss|] eqn:ESs; try contradiction.
      destruct Hrest as [[HB Hp] [Hcc Hcm]]. rewrite Hcur in Hcc. rewrite <- Hcc in Hp.
      destruct Hp as [_ HI].
      destruct (Hnext sc ss (dm_num cur + 1) HI) as [r [sc' [E Hpost]]]. rewrite E. simpl.
      eexists. split; [reflexivity|].
      unfold bool_ok, bool_ok3. simpl. rewrite ESm, ESs. split; [exact Hi|]. split; [exact Hd|].
      split; [eapply opt_sec_ok_mono; eauto|].
      split; [|split; [reflexivity|exact Hcm]].
      split; [exact HB|]. destruct r as [m'|]; simpl in Hpost; [exact Hpost|].
      destruct Hpost as [Hn HF]. split; [exact Hn|]. eexists. split; [|exact HF]. lia.
  Qed.

  (* the candidate of a valid state *)
  Lemma cur_facts : forall st Lp Ln Ls cur,
    bool_ok3 st Lp Ln Ls -> b_cur st = Some cur ->
    least_from prim_S Lp (dm_num cur) /\ dm_num cur < N.
  Proof.
    intros st Lp Ln Ls cur [Hi [Hd [Hmn Hrest]]] Hcur. unfold prim_S.
    destruct (b_must st) as [mc|]; destruct Sm as [sm|]; try contradiction.
    - destruct Hrest as [[HB Hp] [Hcc _]]. rewrite Hcur in Hcc. rewrite <- Hcc in Hp. destruct Hp as [Hl _].
      split; [exact Hl|]. destruct Hl as [A _]. apply HB in A. lia.
    - destruct (b_should st) as [sc|]; destruct Ss as [ss|]; try contradiction.
      destruct Hrest as [[HB Hp] [Hcc _]]. rewrite Hcur in Hcc. rewrite <- Hcc in Hp. destruct Hp as [Hl _].
      simpl. split; [exact Hl|]. destruct Hl as [A _]. apply HB in A. lia.
  Qed.

  Lemma set_cmn_ok : forall st Lp Ln Ls child' r Ln',
    bool_ok3 st Lp Ln Ls -> opt_sec_ok child' Sn Ln' r -> bool_ok3 (set_cmn C st child' r) Lp Ln' Ls.
  Proof.
    intros st Lp Ln Ls child' r Ln' [Hi [Hd [Hmn Hrest]]] Hok.
    unfold bool_ok3, set_cmn. simpl. split; [exact Hi|]. split; [exact Hd|]. split; [exact Hok|exact Hrest].
  Qed.

  Lemma mn_stage_spec : forall st L cur,
    bool_ok st L -> b_cur st = Some cur ->
    exists excl st1, mn_stage st cur = Ok (excl, st1) /\
      excl = opt_S Sn false (dm_num cur) /\
      if excl then bool_ok st1 (dm_num cur + 1)
      else bool_ok3 st1 L (dm_num cur + 1) L /\ b_cur st1 = Some cur.
  Proof.
    intros st L cur Hok Hcur.
    destruct (cur_facts st L L L cur Hok Hcur) as [[_ [HLc _]] _].
    pose proof Hok as [Hi [Hd [Hmn Hrest]]].
    unfold mn_stage.
    assert (Hkeep : forall Ln', L <= Ln' -> bool_ok3 st L Ln' L).
    { intros Ln' Hle. split; [exact Hi|]. split; [exact Hd|]. split; [eapply opt_sec_ok_mono; eauto|exact Hrest]. }
    destruct (b_mustnot st) as [nc|] eqn:En; destruct Sn as [sn|] eqn:ESn; simpl in Hmn; try contradiction.
    - destruct (b_cmn st) as [mn|] eqn:Ecmn.
      + destruct (dm_num mn <? dm_num cur) eqn:E1.
        * apply Z.ltb_lt in E1.
          destruct (sec_advance nc sn L mn (dm_num cur) Hmn E1) as [r [nc' [Ea [Hok' [Hs Hge]]]]].
          unfold opt_adv. rewrite Ea. cbn [rbind fst snd].
          assert (Hst1 : bool_ok3 (set_cmn C st (Some nc') r) L (dm_num cur + 1) L).
          { apply (set_cmn_ok st L L L (Some nc') r (dm_num cur + 1) Hok). rewrite ESn. exact Hok'. }
          destruct r as [mn'|].
          -- destruct (dm_num mn' =? dm_num cur) eqn:E2.
             ++ destruct (anm_spec _ _ _ _ cur Hst1) as [st2 [E3 Hok2]]; [exact Hcur|lia|lia|].
                rewrite E3. cbn [rbind]. exists true, st2. split; [reflexivity|]. split; [symmetry; exact Hs|exact Hok2].
             ++ exists false, (set_cmn C st (Some nc') (Some mn')). split; [reflexivity|]. split; [symmetry; exact Hs|].
                split; [exact Hst1|exact Hcur].
          -- exists false, (set_cmn C st (Some nc') None). split; [reflexivity|]. split; [symmetry; exact Hs|].
             split; [exact Hst1|exact Hcur].
        * apply Z.ltb_ge in E1.
          destruct (sec_keep nc sn L (Some mn) (dm_num cur) Hmn HLc E1) as [Hok' Hs]. simpl in Hs.
          destruct (dm_num mn =? dm_num cur) eqn:E2.
          -- destruct (anm_spec st L L L cur Hok Hcur) as [st2 [E3 Hok2]]; [lia|lia|].
             rewrite E3. cbn [rbind]. exists true, st2. split; [reflexivity|]. split; [symmetry; exact Hs|exact Hok2].
          -- exists false, st. split; [reflexivity|]. split; [symmetry; exact Hs|]. split; [apply Hkeep; lia|exact Hcur].
      + exists false, st. split; [reflexivity|]. split.
        * simpl. destruct Hmn as [Hn _]. symmetry. apply Hn. exact HLc.
        * split; [apply Hkeep; lia|exact Hcur].
    - subst. rewrite Hmn. exists false, st. split; [reflexivity|]. split; [reflexivity|].
      split; [apply Hkeep; lia|exact Hcur].
  Qed.

  Lemma set_cs_ok : forall st Lp Ln Ls mc child' r Ls',
    bool_ok3 st Lp Ln Ls -> b_must st = Some mc -> opt_sec_ok child' Ss Ls' r ->
    match child' with Some sc => cmin sc = smin | None => True end ->
    bool_ok3 (set_cs C st child' r) Lp Ln Ls'.
  Proof.
    intros st Lp Ln Ls mc child' r Ls' [Hi [Hd [Hmn Hrest]]] Hm Hok Hmin.
    unfold bool_ok3, set_cs. simpl. split; [exact Hi|]. split; [exact Hd|]. split; [exact Hmn|].
    rewrite Hm in *. destruct Sm as [sm|]; [|contradiction].
    destruct Hrest as [Hp [Hcc [_ _]]]. split; [exact Hp|]. split; [exact Hcc|]. split; [exact Hok|exact Hmin].
  Qed.

  Definition stage_result (k : bool_st C -> res (option dmatch * bool_st C)) (st1 : bool_st C) (cur : dmatch) : Prop :=
    (exists rv st3, should_stage k st1 cur = Ok (Some rv, st3) /\ dm_num rv = dm_num cur /\
                    bool_S (dm_num cur) = true /\ bool_ok st3 (dm_num cur + 1)) \/
    (exists st3, should_stage k st1 cur = k st3 /\ bool_S (dm_num cur) = false /\ bool_ok st3 (dm_num cur + 1)).

  (* matched: build the match from the candidate, step the candidate child *)
  Lemma matched_spec : forall st2 L Ls cons first rest cur,
    bool_ok3 st2 L (dm_num cur + 1) Ls -> Ls <= dm_num cur + 1 -> b_cur st2 = Some cur ->
    cons = first :: rest -> dm_num first = dm_num cur ->
    exists rv st3, matched' st2 cons = Ok (Some rv, st3) /\ dm_num rv = dm_num cur /\ bool_ok st3 (dm_num cur + 1).
  Proof.
    intros st2 L Ls cons first rest cur Hok HLs Hcur -> Hnum.
    unfold matched'. cbn [build_match].
    destruct (anm_spec st2 L _ Ls cur Hok Hcur) as [st3 [E Hok3]]; [lia|exact HLs|].
    rewrite E. cbn [rbind]. eexists _, st3. split; [reflexivity|]. split; [exact Hnum|exact Hok3].
  Qed.

  Lemma should_stage_spec : forall k st1 L cur,
    bool_ok3 st1 L (dm_num cur + 1) L -> b_cur st1 = Some cur -> opt_S Sn false (dm_num cur) = false ->
    stage_result k st1 cur.
  Proof.
    intros k st1 L cur Hok Hcur HSn.
    destruct (cur_facts st1 L _ L cur Hok Hcur) as [[Hprim [HLc _]] _].
    pose proof Hok as [Hi [Hd [Hmn Hrest]]].
    unfold stage_result, should_stage.
    destruct (b_must st1) as [mc|] eqn:Em; destruct Sm as [sm|] eqn:ESm; try contradiction.
    - (* must clauses: the candidate is currMust *)
      destruct Hrest as [Hp [Hcc [Hsh Hmin]]].
      assert (Hcm : b_cm st1 = Some cur) by congruence.
      assert (Hsm : sm (dm_num cur) = true) by (unfold prim_S in Hprim; rewrite ESm in Hprim; exact Hprim).
      assert (HbS : forall b, (if should_required then opt_S Ss true (dm_num cur) else true) = b -> bool_S (dm_num cur) = b).
      { intros b Hb. unfold bool_S. rewrite ESm, Hsm, HSn. simpl. exact Hb. }
      (* the two ways of deciding once the should cursor is known *)
      assert (Hdecide : forall st2 Ls (hit : bool) rest,
                bool_ok3 st2 L (dm_num cur + 1) Ls -> Ls <= dm_num cur + 1 -> b_cur st2 = Some cur -> b_cm st2 = Some cur ->
                hit = opt_S Ss false (dm_num cur) ->
                (hit = true -> bool_constituents C st2 = cur :: rest) ->
                should_min_zero C cmin st2 = negb should_required ->
                (exists rv st3, (if hit then matched' st2 (bool_constituents C st2)
                                 else if should_min_zero C cmin st2 then matched' st2 (only_must' st2)
                                 else st3 <- bool_advance_next_must C cnext st2 ;; k st3) = Ok (Some rv, st3) /\
                                dm_num rv = dm_num cur /\ bool_S (dm_num cur) = true /\ bool_ok st3 (dm_num cur + 1)) \/
                (exists st3, (if hit then matched' st2 (bool_constituents C st2)
                              else if should_min_zero C cmin st2 then matched' st2 (only_must' st2)
                              else st3 <- bool_advance_next_must C cnext st2 ;; k st3) = k st3 /\
                             bool_S (dm_num cur) = false /\ bool_ok st3 (dm_num cur + 1))).
      { intros st2 Ls hit rest Hok2 HLs Hcur2 Hcm2 Hhit Hcons Hmz.
        destruct hit.
        - left. destruct (matched_spec st2 L Ls _ cur rest cur Hok2 HLs Hcur2 (Hcons eq_refl) eq_refl) as [rv [st3 [E [Hn Hok3]]]].
          exists rv, st3. split; [exact E|]. split; [exact Hn|]. split; [|exact Hok3].
          apply HbS. destruct should_required; [|reflexivity].
          destruct Ss as [ss|]; simpl in *; [symmetry; exact Hhit|reflexivity].
        - rewrite Hmz. destruct should_required eqn:Ereq; simpl.
          + right. destruct (anm_spec st2 L _ Ls cur Hok2 Hcur2) as [st3 [E Hok3]]; [lia|exact HLs|].
            rewrite E. cbn [rbind]. exists st3. split; [reflexivity|]. split; [|exact Hok3].
            apply HbS. unfold should_required in Ereq. destruct Ss as [ss|]; [|discriminate]. simpl in *. symmetry. exact Hhit.
          + left. unfold only_must'. rewrite Hcm2.
            destruct (matched_spec st2 L Ls [cur] cur [] cur Hok2 HLs Hcur2 eq_refl eq_refl) as [rv [st3 [E [Hn Hok3]]]].
            exists rv, st3. split; [exact E|]. split; [exact Hn|]. split; [|exact Hok3]. apply HbS. reflexivity. }
      destruct (b_should st1) as [sc|] eqn:Esc; destruct Ss as [ss|] eqn:ESs; simpl in Hsh; try contradiction.
      + assert (Hmz1 : should_min_zero C cmin st1 = negb should_required).
        { unfold should_min_zero, should_required. rewrite Esc, ESs, Hmin. destruct (smin =? 0); reflexivity. }
        destruct (b_cs st1) as [s|] eqn:Ecs.
        * destruct (dm_num s <? dm_num cur) eqn:E1.
          -- apply Z.ltb_lt in E1.
             destruct (sec_advance sc ss L s (dm_num cur) Hsh E1) as [r [sc' [Ea [Hok' [Hs Hge]]]]].
             unfold opt_adv. rewrite Ea. cbn [rbind fst snd]. cbv zeta.
             assert (Hst2 : bool_ok3 (set_cs C st1 (Some sc') r) L (dm_num cur + 1) (dm_num cur + 1)).
             { apply (set_cs_ok st1 L _ L mc (Some sc') r (dm_num cur + 1) Hok Em); [rewrite ESs; exact Hok'|].
               rewrite <- Hmin. eapply Hmin_adv; eauto. }
             apply (Hdecide (set_cs C st1 (Some sc') r) (dm_num cur + 1) _ (match r with Some s' => [s'] | None => [] end));
               try assumption; try lia.
             ++ symmetry. exact Hs.
             ++ intros _. unfold bool_constituents, set_cs. simpl. rewrite Hcm. destruct r; reflexivity.
             ++ unfold should_min_zero, should_required, set_cs. simpl.
                rewrite ESs, (Hmin_adv _ _ _ _ Ea), Hmin. destruct (smin =? 0); reflexivity.
          -- apply Z.ltb_ge in E1.
             destruct (sec_keep sc ss L (Some s) (dm_num cur) Hsh HLc E1) as [_ Hs]. simpl in Hs.
             apply (Hdecide st1 L (dm_num s =? dm_num cur) [s]); try assumption; try lia.
             ++ symmetry. exact Hs.
             ++ intros _. unfold bool_constituents. rewrite Hcm, Ecs. reflexivity.
        * destruct Hsh as [Hn _].
          apply (Hdecide st1 L false []); try assumption; try lia;
            try (simpl; symmetry; apply Hn; exact HLc); try (intros Hf; discriminate).
      + subst. rewrite Hsh.
        apply (Hdecide st1 L false []); try assumption; try lia;
          try reflexivity; try (intros Hf; discriminate).
        unfold should_min_zero, should_required. rewrite Esc, ESs. reflexivity.
    - (* only should clauses: the candidate is currShould *)
      destruct (b_should st1) as [sc|] eqn:Esc; destruct Ss as [ss|] eqn:ESs; try contradiction.
      destruct Hrest as [Hp [Hcc Hcm]].
      assert (Hcs : b_cs st1 = Some cur) by congruence.
      rewrite Hcs. rewrite Z.ltb_irrefl, Z.eqb_refl.
      left. destruct (matched_spec st1 L L (bool_constituents C st1) cur [] cur Hok ltac:(lia) Hcur) as [rv [st3 [E [Hn Hok3]]]].
      { unfold bool_constituents. rewrite Hcm, Hcs. reflexivity. }
      { reflexivity. }
      exists rv, st3. split; [exact E|]. split; [exact Hn|]. split; [|exact Hok3].
      unfold bool_S. rewrite ESm, ESs, HSn. unfold prim_S in Hprim. rewrite ESm, ESs in Hprim. simpl in Hprim.
      rewrite Hprim. reflexivity.
  Qed.

  (* ---------- nextInternal ---------- *)

  Lemma bool_S_excluded x : opt_S Sn false x = true -> bool_S x = false.
  Proof.
    intros H. unfold bool_S. rewrite H. destruct Sm as [sm|].
    - destruct (sm x); reflexivity.
    - destruct Ss as [ss|]; [destruct (ss x); reflexivity|reflexivity].
  Qed.

  Lemma cur_none_facts : forall st L, bool_ok st L -> b_cur st = None -> none_from prim_S L.
  Proof.
    intros st L [Hi [Hd [Hmn Hrest]]] Hcur. unfold prim_S.
    destruct (b_must st) as [mc|]; destruct Sm as [sm|]; try contradiction.
    - destruct Hrest as [[_ Hp] [Hcc _]]. rewrite Hcur in Hcc. rewrite <- Hcc in Hp. apply Hp.
    - destruct (b_should st) as [sc|]; destruct Ss as [ss|]; try contradiction.
      destruct Hrest as [[_ Hp] [Hcc _]]. rewrite Hcur in Hcc. rewrite <- Hcc in Hp. simpl. apply Hp.
  Qed.

  Definition bool_loop_post (lo : Z) (r : option dmatch) (st' : bool_st C) : Prop :=
    match r with
    | Some rv => least_from bool_S lo (dm_num rv) /\ bool_ok st' (dm_num rv + 1)
    | None => none_from bool_S lo /\ b_init st' = true
    end.

  Lemma bool_loop_spec : forall fuel st lo L,
    bool_ok st L -> lo <= L -> 0 <= L -> (forall x, lo <= x < L -> bool_S x = false) ->
    (Z.to_nat (N - L) + 1 < fuel)%nat ->
    exists r st', bool_loop C cnext cadv cmin fuel st = Ok (r, st') /\ bool_loop_post lo r st'.
  Proof.
    induction fuel as [| fuel IH]; intros st lo L Hok HloL HL Hbelow Hfuel; [lia|].
    rewrite bool_loop_unfold. destruct (b_cur st) as [cur|] eqn:Hcur.
    - destruct (cur_facts st L L L cur Hok Hcur) as [[Hc1 [Hc2 Hc3]] HcN].
      assert (Hbelow_c : forall x, lo <= x < dm_num cur -> bool_S x = false).
      { intros x Hx. destruct (Z_lt_ge_dec x L); [apply Hbelow; lia|]. apply bool_S_prim. apply Hc3. lia. }
      destruct (mn_stage_spec st L cur Hok Hcur) as [excl [st1 [E1 [Hexcl Hst1]]]].
      rewrite E1. cbn [rbind fst snd].
      assert (Hcont : forall st3, bool_ok st3 (dm_num cur + 1) -> bool_S (dm_num cur) = false ->
                 exists r st', bool_loop C cnext cadv cmin fuel st3 = Ok (r, st') /\ bool_loop_post lo r st').
      { intros st3 Hok3 Hfalse. apply IH with (L := dm_num cur + 1); auto; try lia.
        intros x Hx. destruct (Z.eq_dec x (dm_num cur)) as [->|Hne]; [exact Hfalse|apply Hbelow_c; lia]. }
      destruct excl.
      + apply Hcont; [exact Hst1|]. apply bool_S_excluded. symmetry. exact Hexcl.
      + destruct Hst1 as [Hst1 Hcur1].
        destruct (should_stage_spec (bool_loop C cnext cadv cmin fuel) st1 L cur Hst1 Hcur1 (eq_sym Hexcl))
          as [[rv [st3 [E [Hn [HbS Hok3]]]]]|[st3 [E [HbS Hok3]]]].
        * exists (Some rv), st3. split; [exact E|]. simpl. rewrite Hn. split; [|exact Hok3].
          split; [exact HbS|]. split; [lia|exact Hbelow_c].
        * rewrite E. apply Hcont; assumption.
    - exists None, st. split; [reflexivity|]. simpl. split; [|apply Hok].
      pose proof (cur_none_facts st L Hok Hcur) as Hn.
      intros x Hx. destruct (Z_lt_ge_dec x L); [apply Hbelow; lia|]. apply bool_S_prim. apply Hn. lia.
  Qed.

  (* ---------- Next ---------- *)

  Definition opt_new (child : option C) (S : option (Z -> bool)) : Prop :=
    match child, S with
    | Some c, Some s => bounded N s /\ CInv c s 0
    | None, None => True
    | _, _ => False
    end.

  Definition bool_fresh (st : bool_st C) : Prop :=
    b_init st = false /\ b_done st = false /\
    b_cm st = None /\ b_cs st = None /\ b_cmn st = None /\
    opt_new (b_must st) Sm /\ opt_new (b_should st) Ss /\ opt_new (b_mustnot st) Sn /\
    match b_should st with Some sc => cmin sc = smin | None => True end /\
    (Sm <> None \/ Ss <> None).

  Definition bool_inv (st : bool_st C) (lo : Z) : Prop := bool_ok st lo \/ (bool_fresh st /\ lo = 0).

  Lemma opt_next_new : forall child S cur, opt_new child S -> cur = None ->
    exists r child', opt_next C cnext child cur = Ok (r, child') /\
      (child = None <-> child' = None) /\
      (forall ch ch', child = Some ch -> child' = Some ch' -> cmin ch' = cmin ch) /\
      match child', S with
      | Some c', Some s => bounded N s /\ exact_post CInv CFin s 0 r c'
      | None, None => r = None
      | _, _ => False
      end.
  Proof.
    intros [c|] [s|] cur H ->; simpl in H; try contradiction.
    - destruct H as [HB HI]. destruct (Hnext c s 0 HI) as [r [c' [E Hpost]]].
      exists r, (Some c'). simpl. rewrite E. simpl. split; [reflexivity|]. split; [split; discriminate|].
      split; [|split; assumption]. intros a b Ha Hb. inversion Ha; inversion Hb; subst. eapply Hmin_next; eauto.
    - exists None, None. simpl. split; [reflexivity|]. split; [split; reflexivity|]. split; [|reflexivity].
      intros a b Ha. discriminate.
  Qed.

  Lemma exact_post_prim : forall c s r, bounded N s -> exact_post CInv CFin s 0 r c -> prim_ok c s 0 r.
  Proof.
    intros c s [m|] HB H; simpl in *; split; auto.
    destruct H as [Hn HF]. split; [exact Hn|]. exists 0. split; [lia|exact HF].
  Qed.

  Lemma exact_post_sec : forall c s r, exact_post CInv CFin s 0 r c -> sec_ok c s 0 r.
  Proof.
    intros c s [m|] H; simpl in *.
    - destruct H as [[A [B0 D]] HI]. split; [exact A|]. split; [exact HI|exact D].
    - destruct H as [Hn HF]. split; [exact Hn|]. exists 0. split; [lia|exact HF].
  Qed.

  Lemma bool_initialise_spec : forall st lo, bool_inv st lo ->
    exists st1, bool_initialise C cnext st = Ok st1 /\ bool_ok st1 lo.
  Proof.
    intros st lo [Hok|[Hf ->]].
    - exists st. unfold bool_initialise. destruct Hok as [Hi Hok]. rewrite Hi. split; [reflexivity|split; assumption].
    - destruct Hf as [Hi [Hd [Hcm [Hcs [Hcmn [Hm [Hs [Hn [Hmin Hne]]]]]]]]].
      unfold bool_initialise. rewrite Hi.
      destruct (opt_next_new _ _ _ Hm Hcm) as [rm [m' [Em [Hnm [_ Hpm]]]]]. rewrite Em. cbn [rbind].
      destruct (opt_next_new _ _ _ Hs Hcs) as [rs [s' [Es [Hns [Hmins Hps]]]]]. rewrite Es. cbn [rbind].
      destruct (opt_next_new _ _ _ Hn Hcmn) as [rn [n' [En [Hnn [_ Hpn]]]]]. rewrite En. cbn [rbind fst snd].
      eexists. split; [reflexivity|].
      unfold bool_ok, bool_ok3. simpl. split; [reflexivity|]. split; [exact Hd|].
      split.
      { unfold opt_sec_ok. destruct n' as [nc|]; destruct Sn as [sn|]; try contradiction; [|exact Hpn].
        apply exact_post_sec. apply Hpn. }
      destruct m' as [mc|]; destruct Sm as [sm|] eqn:ESm; try contradiction.
      + destruct Hpm as [HB Hpm]. split; [apply exact_post_prim; assumption|]. split; [reflexivity|].
        split.
        { unfold opt_sec_ok. destruct s' as [sc|]; destruct Ss as [ss|]; try contradiction; [|exact Hps].
          apply exact_post_sec. apply Hps. }
        destruct s' as [sc|]; [|exact I].
        destruct (b_should st) as [sc0|] eqn:Esc; [|destruct Hns as [Hns _]; specialize (Hns eq_refl); discriminate].
        rewrite (Hmins sc0 sc eq_refl eq_refl). exact Hmin.
      + destruct s' as [sc|]; destruct Ss as [ss|] eqn:ESs; try contradiction.
        * destruct Hps as [HB Hps]. split; [apply exact_post_prim; assumption|]. split; [reflexivity|exact Hpm].
        * destruct Hne as [Hne|Hne]; congruence.
  Qed.

  Definition bool_exact_post (lo : Z) (r : option dmatch) (st' : bool_st C) : Prop :=
    match r with
    | Some rv => least_from bool_S lo (dm_num rv) /\ bool_inv st' (dm_num rv + 1)
    | None => none_from bool_S lo /\ b_done st' = true
    end.

  Lemma bool_next_spec : forall lf st lo, bool_inv st lo -> 0 <= lo -> (Z.to_nat N + 2 <= lf)%nat ->
    exists r st', bool_next C cnext cadv cmin lf st = Ok (r, st') /\ bool_exact_post lo r st'.
  Proof.
    intros lf st lo Hinv Hlo Hlf. unfold bool_next.
    assert (Hd : b_done st = false) by (destruct Hinv as [[_ [Hd _]]|[[_ [Hd _]] _]]; exact Hd).
    rewrite Hd.
    destruct (bool_initialise_spec st lo Hinv) as [st1 [E1 Hok]]. rewrite E1. cbn [rbind].
    assert (Hb0 : forall x, lo <= x < lo -> bool_S x = false) by (intros x Hx; lia).
    assert (Hfu : (Z.to_nat (N - lo) + 1 < lf)%nat) by lia.
    destruct (bool_loop_spec lf st1 lo lo Hok (Z.le_refl _) Hlo Hb0 Hfu) as [r [st' [E Hpost]]].
    rewrite E. cbn [rbind fst snd]. destruct r as [rv|]; simpl in Hpost.
    - exists (Some rv), st'. split; [reflexivity|]. simpl. destruct Hpost as [Hl Hok']. split; [exact Hl|left; exact Hok'].
    - exists None, (set_done C st'). split; [reflexivity|]. simpl. destruct Hpost as [Hn _]. split; [exact Hn|reflexivity].
  Qed.
End Bool.
