(* Search/NumericBin.v — numeric/bin.go Interleave / Deinterleave round trip for 32-bit halves.
   Bit-level proof: a small verified symbolic evaluator tracks, for each of the 64 bit positions of
   an intermediate word, which input bits it is the exclusive-or of; every operation of the two
   functions (and-with-constant, or, xor, shifts) has a soundness lemma over Z.testbit; the final
   position table is computed and compared with the table of the input. *)
From Coq Require Import ZArith List Bool Lia.
From Coq Require Import ZifyBool.
From Bluge Require Import Base.Int64 Search.Numeric.
Import ListNotations.
Open Scope Z_scope.

(* position -> list of variable ids whose xor is the bit at that position *)
Definition sv := Z -> list Z.

Fixpoint xors (rho : Z -> bool) (l : list Z) : bool :=
  match l with
  | [] => false
  | i :: t => xorb (rho i) (xors rho t)
  end.

Lemma xors_app rho a b : xors rho (a ++ b) = xorb (xors rho a) (xors rho b).
Proof.
  induction a as [|i a IH]; cbn [xors app]; [destruct (xors rho b); reflexivity|].
  rewrite IH. destruct (rho i), (xors rho a), (xors rho b); reflexivity.
Qed.

Definition denotes (rho : Z -> bool) (s : sv) (x : Z) : Prop :=
  0 <= x /\ (forall n, 64 <= n -> Z.testbit x n = false) /\
  (forall n, 0 <= n < 64 -> Z.testbit x n = xors rho (s n)).

Definition range64 : list Z := map Z.of_nat (seq 0 64).

Lemma in_range64 n : 0 <= n < 64 -> In n range64.
Proof.
  intros H. unfold range64. apply in_map_iff. exists (Z.to_nat n). split; [lia|]. apply in_seq. lia.
Qed.

Definition is_nil (l : list Z) : bool := match l with [] => true | _ => false end.
Definition disj (s1 s2 : sv) : bool := forallb (fun n => is_nil (s1 n) || is_nil (s2 n)) range64.

Lemma disj_spec s1 s2 n : disj s1 s2 = true -> 0 <= n < 64 -> s1 n = [] \/ s2 n = [].
Proof.
  intros H Hn. unfold disj in H. rewrite forallb_forall in H. specialize (H n (in_range64 n Hn)).
  destruct (s1 n); [left; reflexivity|]. destruct (s2 n); [right; reflexivity|discriminate].
Qed.

(* ---------- symbolic operations and their soundness ---------- *)

Definition s_land_c (c : Z) (s : sv) : sv := fun n => if Z.testbit c n then s n else [].
Definition s_shr (k : Z) (s : sv) : sv := fun n => if n + k <? 64 then s (n + k) else [].
Definition s_shl (k : Z) (s : sv) : sv := fun n => if n <? k then [] else s (n - k).
Definition s_xor (s1 s2 : sv) : sv := fun n => s1 n ++ s2 n.

Lemma land_c_sound rho s x c : denotes rho s x -> denotes rho (s_land_c c s) (Z.land x c).
Proof.
  intros (Hx & Hhi & Hb). split; [|split].
  - apply Z.land_nonneg. left. exact Hx.
  - intros n Hn. rewrite Z.land_spec, (Hhi n Hn). reflexivity.
  - intros n Hn. rewrite Z.land_spec, (Hb n Hn). unfold s_land_c.
    destruct (Z.testbit c n); [apply andb_true_r|apply andb_false_r].
Qed.

Lemma shr_sound rho s x k : 0 <= k -> denotes rho s x -> denotes rho (s_shr k s) (Z.shiftr x k).
Proof.
  intros Hk (Hx & Hhi & Hb). split; [|split].
  - apply Z.shiftr_nonneg. exact Hx.
  - intros n Hn. rewrite Z.shiftr_spec by lia. apply Hhi. lia.
  - intros n Hn. rewrite Z.shiftr_spec by lia. unfold s_shr.
    destruct (Z.ltb_spec (n + k) 64); [apply Hb; lia|apply Hhi; lia].
Qed.

Lemma shl_sound rho s x k : 0 <= k -> denotes rho s x -> denotes rho (s_shl k s) (ushl x k).
Proof.
  intros Hk (Hx & Hhi & Hb). unfold ushl, uwrap64. rewrite two64_eq. split; [|split].
  - apply Z.mod_pos_bound. lia.
  - intros n Hn. apply Z.mod_pow2_bits_high. lia.
  - intros n Hn. rewrite Z.mod_pow2_bits_low by lia. unfold s_shl.
    destruct (Z.ltb_spec n k).
    + apply Z.shiftl_spec_low. lia.
    + rewrite Z.shiftl_spec_high by lia. apply Hb. lia.
Qed.

Lemma xor_sound rho s1 s2 x y : denotes rho s1 x -> denotes rho s2 y ->
  denotes rho (s_xor s1 s2) (Z.lxor x y).
Proof.
  intros (Hx & Hhx & Hbx) (Hy & Hhy & Hby). split; [|split].
  - apply Z.lxor_nonneg. tauto.
  - intros n Hn. rewrite Z.lxor_spec, (Hhx n Hn), (Hhy n Hn). reflexivity.
  - intros n Hn. rewrite Z.lxor_spec, (Hbx n Hn), (Hby n Hn). unfold s_xor.
    rewrite xors_app. reflexivity.
Qed.

(* or of two words that are never both (syntactically) non-zero at a position = xor *)
Lemma or_sound rho s1 s2 x y : disj s1 s2 = true -> denotes rho s1 x -> denotes rho s2 y ->
  denotes rho (s_xor s1 s2) (Z.lor x y).
Proof.
  intros Hd (Hx & Hhx & Hbx) (Hy & Hhy & Hby). split; [|split].
  - apply Z.lor_nonneg. tauto.
  - intros n Hn. rewrite Z.lor_spec, (Hhx n Hn), (Hhy n Hn). reflexivity.
  - intros n Hn. rewrite Z.lor_spec, (Hbx n Hn), (Hby n Hn). unfold s_xor.
    rewrite xors_app. destruct (disj_spec s1 s2 n Hd Hn) as [E|E]; rewrite E; cbn [xors].
    + destruct (xors rho (s2 n)); reflexivity.
    + rewrite orb_false_r, xorb_false_r. reflexivity.
Qed.

(* ---------- the two functions, symbolically ---------- *)

(* (v | v << k) & m  =  (v & m) | ((v << k) & m): the two sides overlap before masking *)
Definition s_spread_step (k m : Z) (s : sv) : sv := s_xor (s_land_c m s) (s_land_c m (s_shl k s)).
Definition spread_step (k m v : Z) : Z := Z.land (Z.lor v (ushl v k)) m.
Definition step_ok (k m : Z) (s : sv) : bool := disj (s_land_c m s) (s_land_c m (s_shl k s)).

Lemma spread_step_sound rho s v k m : 0 <= k -> step_ok k m s = true ->
  denotes rho s v -> denotes rho (s_spread_step k m s) (spread_step k m v).
Proof.
  intros Hk Hd D. unfold spread_step. rewrite Z.land_lor_distr_l.
  apply or_sound; [exact Hd | apply land_c_sound; exact D | apply land_c_sound; apply shl_sound; assumption].
Qed.

Definition s_spread (s : sv) : sv :=
  s_spread_step 1 m0 (s_spread_step 2 m1 (s_spread_step 4 m2 (s_spread_step 8 m3 (s_spread_step 16 m4 s)))).

Definition spread_ok (s : sv) : bool :=
  let s1 := s_spread_step 16 m4 s in
  let s2 := s_spread_step 8 m3 s1 in
  let s3 := s_spread_step 4 m2 s2 in
  let s4 := s_spread_step 2 m1 s3 in
  step_ok 16 m4 s && step_ok 8 m3 s1 && step_ok 4 m2 s2 && step_ok 2 m1 s3 && step_ok 1 m0 s4.

Lemma spread_unfold v :
  spread v = spread_step 1 m0 (spread_step 2 m1 (spread_step 4 m2 (spread_step 8 m3 (spread_step 16 m4 v)))).
Proof. reflexivity. Qed.

Lemma spread_sound rho s v : spread_ok s = true -> denotes rho s v -> denotes rho (s_spread s) (spread v).
Proof.
  unfold spread_ok. cbv zeta. rewrite !andb_true_iff. intros ((((H1 & H2) & H3) & H4) & H5) D.
  rewrite spread_unfold. unfold s_spread.
  repeat (apply spread_step_sound; [lia|assumption|]). exact D.
Qed.

Definition s_interleave (s1 s2 : sv) : sv := s_xor (s_shl 1 (s_spread s2)) (s_spread s1).

Lemma interleave_sound rho s1 s2 v1 v2 :
  spread_ok s1 = true -> spread_ok s2 = true -> disj (s_shl 1 (s_spread s2)) (s_spread s1) = true ->
  denotes rho s1 v1 -> denotes rho s2 v2 -> denotes rho (s_interleave s1 s2) (interleave v1 v2).
Proof.
  intros O1 O2 Hd D1 D2. unfold interleave, s_interleave.
  apply or_sound; [exact Hd | apply shl_sound; [lia|] | ]; apply spread_sound; assumption.
Qed.

Definition s_de_step (k m : Z) (s : sv) : sv := s_land_c m (s_xor s (s_shr k s)).

Definition s_deinterleave (s : sv) : sv :=
  s_de_step 16 m5 (s_de_step 8 m4 (s_de_step 4 m3 (s_de_step 2 m2 (s_de_step 1 m1 (s_land_c m0 s))))).

Lemma deinterleave_sound rho s b : denotes rho s b -> denotes rho (s_deinterleave s) (deinterleave b).
Proof.
  intros D. unfold deinterleave, s_deinterleave, s_de_step. cbv zeta.
  repeat (apply land_c_sound; apply xor_sound; [|apply shr_sound; [lia|]]);
    try (apply land_c_sound; exact D).
  all: repeat first [ apply land_c_sound; exact D
                    | apply land_c_sound; apply xor_sound; [|apply shr_sound; [lia|]] ].
Qed.

(* two denotations with the same table (over the same inputs) are the same number *)
Definition sv_eqb (s1 s2 : sv) : bool :=
  forallb (fun n => if list_eq_dec Z.eq_dec (s1 n) (s2 n) then true else false) range64.

Lemma denotes_ext rho s1 s2 x y : sv_eqb s1 s2 = true -> denotes rho s1 x -> denotes rho s2 y -> x = y.
Proof.
  intros He (Hx & Hhx & Hbx) (Hy & Hhy & Hby). apply Z.bits_inj'. intros n Hn.
  destruct (Z_lt_ge_dec n 64) as [Hlt|Hge].
  - rewrite Hbx, Hby by lia. unfold sv_eqb in He. rewrite forallb_forall in He.
    specialize (He n (in_range64 n ltac:(lia))).
    destruct (list_eq_dec Z.eq_dec (s1 n) (s2 n)) as [->|]; [reflexivity|discriminate].
  - rewrite Hhx, Hhy by lia. reflexivity.
Qed.

(* ---------- the round trip ---------- *)

(* the inputs: variables 0..31 are the bits of a, 32..63 the bits of b *)
Definition sv_a : sv := fun n => if n <? 32 then [n] else [].
Definition sv_b : sv := fun n => if n <? 32 then [n + 32] else [].

Lemma small_bits_high a n : 0 <= a < 2 ^ 32 -> 32 <= n -> Z.testbit a n = false.
Proof.
  intros Ha Hn. rewrite <- (Z.mod_small a (2 ^ 32)) by lia. apply Z.mod_pow2_bits_high. lia.
Qed.

Lemma interleave_roundtrip_all a b : 0 <= a < 2 ^ 32 -> 0 <= b < 2 ^ 32 ->
  deinterleave (interleave a b) = a /\ deinterleave (Z.shiftr (interleave a b) 1) = b.
Proof.
  intros Ha Hb.
  set (rho := fun i => if i <? 32 then Z.testbit a i else Z.testbit b (i - 32)).
  assert (Da : denotes rho sv_a a).
  { split; [lia|]. split.
    - intros n Hn. apply small_bits_high; [exact Ha|lia].
    - intros n Hn. unfold sv_a, rho. destruct (Z.ltb_spec n 32) as [Hlt|Hge]; cbn [xors].
      + destruct (Z.ltb_spec n 32); [|lia]. rewrite xorb_false_r. reflexivity.
      + apply small_bits_high; [exact Ha|lia]. }
  assert (Db : denotes rho sv_b b).
  { split; [lia|]. split.
    - intros n Hn. apply small_bits_high; [exact Hb|lia].
    - intros n Hn. unfold sv_b, rho. destruct (Z.ltb_spec n 32) as [Hlt|Hge]; cbn [xors].
      + destruct (Z.ltb_spec (n + 32) 32); [lia|]. rewrite xorb_false_r. f_equal. lia.
      + apply small_bits_high; [exact Hb|lia]. }
  assert (Di : denotes rho (s_interleave sv_a sv_b) (interleave a b)).
  { apply interleave_sound; try assumption; vm_compute; reflexivity. }
  split.
  - apply (denotes_ext rho (s_deinterleave (s_interleave sv_a sv_b)) sv_a).
    + vm_compute. reflexivity.
    + apply deinterleave_sound. exact Di.
    + exact Da.
  - apply (denotes_ext rho (s_deinterleave (s_shr 1 (s_interleave sv_a sv_b))) sv_b).
    + vm_compute. reflexivity.
    + apply deinterleave_sound. apply shr_sound; [lia|exact Di].
    + exact Db.
Qed.
