(* Search/SearchersProofsSnap.v — a term iterator built over a well-formed snapshot
   (Snapshot.PostingsIterator, mk_pit) starts exact from 0 for the denotation "the live documents
   whose field holds the term", with the snapshot's offsets. *)
From Coq Require Import ZArith List Bool Lia Arith.
From Bluge Require Import Base.Res Search.Numeric Search.Postings Search.Searchers Search.Semantics
  Search.SearchersProofsBase Search.SearchersProofsLeaf.
Import ListNotations.
Open Scope Z_scope.

(* every segment of a snapshot holds at least one document (index/introducer.go keeps a segment
   only while it has live documents); at least one segment *)
Definition wf_sn (sn : snapshot) : Prop := sn <> [] /\ forall s, In s sn -> seg_docs s <> [].

Lemma seg_count_pos s : seg_docs s <> [] -> 0 < seg_count s.
Proof. unfold seg_count. destruct (seg_docs s); [congruence|simpl; lia]. Qed.

Lemma seg_count_nonneg s : 0 <= seg_count s.
Proof. unfold seg_count. lia. Qed.

Lemma total_docs_nonneg sn : 0 <= total_docs sn.
Proof. induction sn as [| s r IH]; simpl; [lia|]. pose proof (seg_count_nonneg s). lia. Qed.

(* ---------- offsets ---------- *)

Lemma offsets_from_length r sn : length (offsets_from r sn) = length sn.
Proof. revert r. induction sn as [| s rest IH]; intros r; simpl; auto. Qed.

(* the k-th offset, with the total as the value past the end *)
Lemma offsets_from_nth : forall sn r k,
  nth k (offsets_from r sn) (r + total_docs sn) = r + total_docs (firstn k sn).
Proof.
  induction sn as [| s rest IH]; intros r k; simpl.
  - destruct k; simpl; lia.
  - destruct k as [| k]; simpl; [lia|].
    replace (r + (seg_count s + total_docs rest)) with ((r + seg_count s) + total_docs rest) by lia.
    rewrite IH. lia.
Qed.

Lemma total_firstn_step : forall sn k, (k < length sn)%nat ->
  total_docs (firstn (Datatypes.S k) sn) = total_docs (firstn k sn) + seg_count (nth k sn {| seg_docs := []; seg_del := [] |}).
Proof.
  induction sn as [| s rest IH]; intros k Hk; simpl in *; [lia|].
  destruct k as [| k]; simpl; [lia|]. rewrite IH by lia. lia.
Qed.

Lemma offs_ok_snapshot sn : wf_sn sn -> offs_ok (offsets sn) (total_docs sn).
Proof.
  intros [Hne Hall]. unfold offs_ok, offx, offsets.
  rewrite offsets_from_length. split; [destruct sn; [congruence|simpl; lia]|].
  split.
  - pose proof (offsets_from_nth sn 0 O) as H. rewrite !Z.add_0_l in H. rewrite H. reflexivity.
  - intros k Hk.
    pose proof (offsets_from_nth sn 0 k) as H1. pose proof (offsets_from_nth sn 0 (Datatypes.S k)) as H2.
    rewrite !Z.add_0_l in H1, H2. rewrite H1, H2, total_firstn_step by exact Hk.
    assert (0 < seg_count (nth k sn {| seg_docs := []; seg_del := [] |})).
    { apply seg_count_pos. apply Hall. apply nth_In. exact Hk. }
    lia.
Qed.

(* ---------- per-segment lists ---------- *)

Lemma number_from_spec : forall ds k n d, In (n, d) (number_from k ds) -> k <= n < k + Z.of_nat (length ds).
Proof.
  induction ds as [| a ds IH]; intros k n d H; simpl in *; [destruct H|].
  destruct H as [H|H]; [inversion H; subst; lia|]. apply IH in H. lia.
Qed.

Fixpoint nsorted (l : list (Z * doc)) : Prop :=
  match l with
  | a :: ((b :: _) as r) => fst a < fst b /\ nsorted r
  | _ => True
  end.

Lemma number_from_sorted : forall ds k, nsorted (number_from k ds).
Proof.
  induction ds as [| a ds IH]; intros k; simpl; [exact I|].
  destruct ds as [| b ds]; simpl; [exact I|]. split; [simpl; lia|]. apply (IH (k + 1)).
Qed.

Lemma nsorted_filter : forall (f : Z * doc -> bool) l, nsorted l -> nsorted (filter f l).
Proof.
  intros f l. induction l as [| a l IH]; intros H; simpl; [exact I|].
  assert (Hl : nsorted l) by (destruct l; simpl in *; tauto).
  assert (Hmin : forall b, In b l -> fst a < fst b).
  { clear -H. revert a H. induction l as [| c l IHl]; intros a H b Hb; [destruct Hb|].
    destruct H as [Hac Hs]. destruct Hb as [<-|Hb]; [exact Hac|]. specialize (IHl c Hs b Hb). lia. }
  destruct (f a); [|apply IH; exact Hl].
  specialize (IH Hl). destruct (filter f l) as [| b r] eqn:E; simpl; [exact I|].
  split; [|exact IH]. apply Hmin. assert (In b (filter f l)) by (rewrite E; left; reflexivity).
  apply filter_In in H0. tauto.
Qed.

Lemma seg_postings_spec : forall f t s p,
  In p (seg_postings f t s) <->
  exists d ps, In (p_num p, d) (seg_live s) /\ term_positions d f t = Some ps /\ p_locs p = ps.
Proof.
  intros f t s p. unfold seg_postings. rewrite in_flat_map. split.
  - intros [[n d] [Hin Hp]]. simpl in Hp. destruct (term_positions d f t) as [ps|] eqn:E; [|destruct Hp].
    destruct Hp as [<-|[]]. simpl. exists d, ps. auto.
  - intros [d [ps [Hin [E Hl]]]]. exists (p_num p, d). split; [exact Hin|]. simpl. rewrite E. left.
    destruct p; simpl in *. subst. reflexivity.
Qed.

Lemma seg_postings_sorted : forall f t s, psorted (seg_postings f t s).
Proof.
  intros f t s. unfold seg_postings.
  assert (Hs : nsorted (seg_live s)) by (unfold seg_live; apply nsorted_filter; apply number_from_sorted).
  induction (seg_live s) as [| a l IH]; simpl; [exact I|].
  assert (Hl : nsorted l) by (destruct l; simpl in *; tauto).
  assert (Hmin : forall b, In b l -> fst a < fst b).
  { clear -Hs. revert a Hs. induction l as [| c l IHl]; intros a H b Hb; [destruct Hb|].
    destruct H as [Hac Hs]. destruct Hb as [<-|Hb]; [exact Hac|]. specialize (IHl c Hs b Hb). lia. }
  specialize (IH Hl).
  destruct (term_positions (snd a) f t) as [ps|]; simpl; [|exact IH].
  destruct (flat_map _ l) as [| b r] eqn:E; [exact I|]. split; [|exact IH].
  assert (Hb : In b (flat_map (fun p : Z * doc => match term_positions (snd p) f t with
                                   | Some ps0 => [{| p_num := fst p; p_locs := ps0 |}] | None => [] end) l))
    by (rewrite E; left; reflexivity).
  apply in_flat_map in Hb. destruct Hb as [x [Hx Hbx]]. destruct (term_positions (snd x) f t); [|destruct Hbx].
  destruct Hbx as [<-|[]]. simpl. apply Hmin. exact Hx.
Qed.

Lemma seg_live_range : forall s n d, In (n, d) (seg_live s) -> 0 <= n < seg_count s.
Proof.
  intros s n d H. unfold seg_live in H. apply filter_In in H. destruct H as [H _].
  apply number_from_spec in H. unfold seg_count. lia.
Qed.

(* ---------- the global numbers of the postings ---------- *)

(* membership in the live documents holding the term *)
Definition term_S (sn : snapshot) (f : Z) (t : list Z) (x : Z) : bool :=
  existsb (fun p => (fst p =? x) && has_term (snd p) f t) (live_docs sn).

Lemma live_from_In : forall sn r x d,
  In (x, d) (live_from r sn) <->
  exists k s, nth_error sn k = Some s /\ In (x - (r + total_docs (firstn k sn)), d) (seg_live s).
Proof.
  induction sn as [| s0 rest IH]; intros r x d; simpl.
  - split; [intros []|intros [k [s [H _]]]; destruct k; discriminate].
  - rewrite in_app_iff, in_map_iff. split.
    + intros [[[n d'] [E Hin]]|H].
      * simpl in E. inversion E; subst. exists O, s0. split; [reflexivity|]. simpl.
        replace (r + n - (r + 0)) with n by lia. exact Hin.
      * apply IH in H. destruct H as [k [s [Hk Hin]]]. exists (Datatypes.S k), s. split; [exact Hk|]. simpl.
        replace (x - (r + (seg_count s0 + total_docs (firstn k rest)))) with (x - (r + seg_count s0 + total_docs (firstn k rest))) by lia.
        exact Hin.
    + intros [[| k] [s [Hk Hin]]]; simpl in *.
      * inversion Hk; subst. left. exists (x - (r + 0), d). split; [simpl; f_equal; lia|exact Hin].
      * right. apply IH. exists k, s. split; [exact Hk|].
        replace (x - (r + seg_count s0 + total_docs (firstn k rest))) with (x - (r + (seg_count s0 + total_docs (firstn k rest)))) by lia.
        exact Hin.
Qed.

Lemma nth_or_map {A B} (g : A -> B) (l : list A) k a b : (k < length l)%nat -> nth_or (map g l) k b = g (nth k l a).
Proof. intros H. unfold nth_or. rewrite (nth_indep _ b (g a)) by (rewrite map_length; exact H). apply map_nth. Qed.

Lemma term_S_visible : forall sn f t x, wf_sn sn ->
  (term_S sn f t x = true <-> visible (offsets sn) (total_docs sn) (map (seg_postings f t) sn) O x).
Proof.
  intros sn f t x Hwf. unfold term_S, visible. rewrite existsb_exists. unfold offsets. rewrite offsets_from_length.
  set (dflt := {| seg_docs := []; seg_del := [] |}).
  split.
  - intros [[n d] [Hin Hp]]. simpl in Hp. apply andb_prop in Hp. destruct Hp as [E Hterm]. apply Z.eqb_eq in E. subst n.
    unfold live_docs in Hin. apply live_from_In in Hin. destruct Hin as [k [s [Hk Hin]]]. simpl in Hin.
    assert (Hkl : (k < length sn)%nat) by (apply nth_error_Some; congruence).
    unfold has_term in Hterm. destruct (term_positions d f t) as [ps|] eqn:Et; [|discriminate].
    exists k, {| p_num := x - total_docs (firstn k sn); p_locs := ps |}. split; [lia|]. split.
    + rewrite (nth_or_map _ sn k dflt) by exact Hkl. apply seg_postings_spec. simpl. exists d, ps.
      rewrite (nth_error_nth sn k dflt Hk). auto.
    + simpl. unfold offx. pose proof (offsets_from_nth sn 0 k) as Ho. rewrite !Z.add_0_l in Ho. rewrite Ho. lia.
  - intros [k [p [Hk [Hp Hx]]]].
    assert (Hkl : (k < length sn)%nat) by lia.
    rewrite (nth_or_map _ sn k dflt) in Hp by exact Hkl. apply seg_postings_spec in Hp.
    destruct Hp as [d [ps [Hin [Et _]]]].
    exists (x, d). split.
    + unfold live_docs. apply live_from_In. exists k, (nth k sn dflt). split; [apply nth_error_nth'; exact Hkl|]. simpl.
      unfold offx in Hx. pose proof (offsets_from_nth sn 0 k) as Ho. rewrite !Z.add_0_l in Ho. rewrite Ho in Hx.
      replace (x - total_docs (firstn k sn)) with (p_num p) by lia. exact Hin.
    + simpl. rewrite Z.eqb_refl. unfold has_term. rewrite Et. reflexivity.
Qed.

Lemma iters_ok_snapshot : forall sn f t, wf_sn sn ->
  iters_ok (offsets sn) (total_docs sn) (map (seg_postings f t) sn).
Proof.
  intros sn f t Hwf. unfold iters_ok, offsets. rewrite map_length, offsets_from_length.
  set (dflt := {| seg_docs := []; seg_del := [] |}).
  split; [reflexivity|]. split.
  - intros k. destruct (lt_dec k (length sn)) as [Hk|Hk].
    + rewrite (nth_or_map _ sn k dflt) by exact Hk. apply seg_postings_sorted.
    + unfold nth_or. rewrite nth_overflow by (rewrite map_length; lia). exact I.
  - intros k p Hp. destruct (lt_dec k (length sn)) as [Hk|Hk].
    + rewrite (nth_or_map _ sn k dflt) in Hp by exact Hk. apply seg_postings_spec in Hp.
      destruct Hp as [d [ps [Hin _]]]. apply seg_live_range in Hin.
      unfold offx. pose proof (offsets_from_nth sn 0 k) as H1. pose proof (offsets_from_nth sn 0 (Datatypes.S k)) as H2.
      rewrite !Z.add_0_l in H1, H2. rewrite H1, H2, total_firstn_step by exact Hk. fold dflt. lia.
    + unfold nth_or in Hp. rewrite nth_overflow in Hp by (rewrite map_length; lia). destruct Hp.
Qed.

(* a fresh term iterator is exact from 0 *)
Lemma mk_pit_inv : forall sn f t, wf_sn sn ->
  PInv (offsets sn) (total_docs sn) (mk_pit sn f t) (term_S sn f t) 0.
Proof.
  intros sn f t Hwf. pose proof (offs_ok_snapshot sn Hwf) as Hok.
  unfold PInv, mk_pit. simpl. split; [reflexivity|]. split; [exact Hok|].
  split; [apply iters_ok_snapshot; exact Hwf|]. split; [lia|]. split; [exact I|].
  exists O. split; [lia|]. destruct Hok as [Hlen [H0 _]]. split; [exact Hlen|]. split; [lia|].
  split; [intros k Hk; lia|]. split.
  - intros x [k [p [Hk [Hp ->]]]].
    destruct (iters_ok_snapshot sn f t Hwf) as [_ [_ Hr]]. destruct (Hr k p Hp) as [Hp0 _].
    pose proof (offx_mono (offsets sn) (total_docs sn) (offs_ok_snapshot sn Hwf) O k ltac:(lia) ltac:(lia)). lia.
  - intros x _. apply term_S_visible. exact Hwf.
Qed.

Lemma total_firstn_le : forall sn j, total_docs (firstn j sn) <= total_docs sn.
Proof.
  induction sn as [| a l IH]; intros j; destruct j; simpl; try lia.
  - pose proof (total_docs_nonneg l). pose proof (seg_count_nonneg a). lia.
  - specialize (IH j). lia.
Qed.

Lemma term_S_bounded : forall sn f t x, term_S sn f t x = true -> 0 <= x < total_docs sn.
Proof.
  intros sn f t x H. unfold term_S in H. rewrite existsb_exists in H. destruct H as [[n d] [Hin Hp]].
  simpl in Hp. apply andb_prop in Hp. destruct Hp as [E _]. apply Z.eqb_eq in E. subst n.
  unfold live_docs in Hin. apply live_from_In in Hin. destruct Hin as [k [s [Hk Hin]]]. simpl in Hin.
  apply seg_live_range in Hin.
  assert (Hkl : (k < length sn)%nat) by (apply nth_error_Some; congruence).
  set (dflt := {| seg_docs := []; seg_del := [] |}).
  pose proof (total_firstn_le sn (Datatypes.S k)) as H.
  rewrite total_firstn_step in H by exact Hkl. rewrite (nth_error_nth sn k _ Hk) in H.
  pose proof (total_docs_nonneg (firstn k sn)). lia.
Qed.
