(* Search/SearchersProofsAll.v — index/postings_all.go (the match-all iterator over the live
   documents of every segment): exact for Next and forward Advance (AInv / AFin, as PInv / PFin of
   SearchersProofsLeaf.v) and sound for every Advance (AW: Advance re-positions the iterator on
   the segment of its target, possibly an earlier one whose left-over numbers then come back). *)
From Coq Require Import ZArith List Bool Lia Arith.
From Bluge Require Import Base.Res Search.Numeric Search.Postings Search.Searchers
  Search.SearchersProofsBase Search.SearchersProofsLeaf.
Import ListNotations.
Open Scope Z_scope.

Fixpoint zsorted (l : list Z) : Prop :=
  match l with
  | a :: ((b :: _) as r) => a < b /\ zsorted r
  | _ => True
  end.

Lemma zsorted_tail a l : zsorted (a :: l) -> zsorted l.
Proof. destruct l; simpl; tauto. Qed.

Lemma zsorted_head_min a l : zsorted (a :: l) -> forall q, In q l -> a < q.
Proof.
  revert a. induction l as [| b l IH]; intros a H q Hq; [destruct Hq|].
  destruct H as [Hab Hs]. destruct Hq as [<-|Hq]; [exact Hab|].
  specialize (IH b Hs q Hq). lia.
Qed.

Lemma dbz_In n l x : In x (drop_below_z n l) -> In x l.
Proof. induction l as [| a l IH]; simpl; [tauto|]. destruct (a <? n); [intros H; right; auto|auto]. Qed.

Lemma dbz_sorted n l : zsorted l -> zsorted (drop_below_z n l).
Proof.
  induction l as [| a l IH]; intros H; simpl; [exact I|].
  destruct (a <? n); [apply IH; eapply zsorted_tail; eauto|exact H].
Qed.

Lemma dbz_ge n l : zsorted l -> forall x, In x (drop_below_z n l) -> n <= x.
Proof.
  induction l as [| a l IH]; intros Hs x Hx; simpl in Hx; [destruct Hx|].
  destruct (a <? n) eqn:E.
  - apply IH; [eapply zsorted_tail; eauto|exact Hx].
  - apply Z.ltb_ge in E. destruct Hx as [<-|Hx]; [exact E|].
    pose proof (zsorted_head_min a l Hs x Hx). lia.
Qed.

Lemma dbz_keeps n l x : In x l -> n <= x -> In x (drop_below_z n l).
Proof.
  induction l as [| a l IH]; intros Hx Hn; simpl; [destruct Hx|].
  destruct (a <? n) eqn:E.
  - apply Z.ltb_lt in E. destruct Hx as [<-|Hx]; [lia|auto].
  - exact Hx.
Qed.

Section All.
  Variable offs : list Z.
  Variable N : Z.
  Notation offx := (offx offs N).
  Hypothesis Hok : offs_ok offs N.

  Definition aiters_ok (iters : list (list Z)) : Prop :=
    length iters = length offs /\
    (forall k, zsorted (nth_or iters k [])) /\
    (forall k n, In n (nth_or iters k []) -> 0 <= n /\ n + offx k < offx (Datatypes.S k)).

  Definition avisible (iters : list (list Z)) (s0 : nat) (x : Z) : Prop :=
    exists k n, (s0 <= k < length offs)%nat /\ In n (nth_or iters k []) /\ x = n + offx k.

  Lemma aiters_ok_set : forall iters k l,
    aiters_ok iters -> zsorted l -> (forall n, In n l -> In n (nth_or iters k [])) ->
    aiters_ok (set_nth iters k l).
  Proof.
    intros iters k l [Hlen [Hs Hr]] Hsl Hsub. split; [rewrite set_nth_length; exact Hlen|]. split.
    - intros j. destruct (Nat.eq_dec k j) as [<-|Hne].
      + destruct (lt_dec k (length iters)) as [Hlt|Hge]; [rewrite nth_or_set_eq by exact Hlt; exact Hsl|].
        unfold nth_or. rewrite nth_overflow by (rewrite set_nth_length; lia). exact I.
      + rewrite nth_or_set_neq by exact Hne. apply Hs.
    - intros j p Hp. destruct (Nat.eq_dec k j) as [<-|Hne].
      + destruct (lt_dec k (length iters)) as [Hlt|Hge].
        * rewrite nth_or_set_eq in Hp by exact Hlt. apply Hr. apply Hsub. exact Hp.
        * unfold nth_or in Hp. rewrite nth_overflow in Hp by (rewrite set_nth_length; lia). destruct Hp.
      + rewrite nth_or_set_neq in Hp by exact Hne. apply Hr. exact Hp.
  Qed.

  (* the scan of Next *)
  Lemma ait_next_loop_spec : forall fuel it,
    (length (ai_iters it) - ai_segoff it < fuel)%nat ->
    (exists j n r, (ai_segoff it <= j < length (ai_iters it))%nat /\
                   nth_or (ai_iters it) j [] = n :: r /\
                   (forall k, (ai_segoff it <= k < j)%nat -> nth_or (ai_iters it) k [] = []) /\
                   ait_next_loop fuel it =
                   Ok (Some (n + nth_or (ai_offs it) j 0),
                       {| ai_iters := set_nth (ai_iters it) j r; ai_offs := ai_offs it; ai_segoff := j |})) \/
    ((forall k, (ai_segoff it <= k < length (ai_iters it))%nat -> nth_or (ai_iters it) k [] = []) /\
     exists so, (length (ai_iters it) <= so)%nat /\ (ai_segoff it <= so)%nat /\
       ait_next_loop fuel it = Ok (None, {| ai_iters := ai_iters it; ai_offs := ai_offs it; ai_segoff := so |})).
  Proof.
    induction fuel as [| fuel IH]; intros it Hfuel; [lia|].
    simpl. destruct (ai_segoff it <? length (ai_iters it))%nat eqn:E.
    - apply Nat.ltb_lt in E. destruct (nth_or (ai_iters it) (ai_segoff it) []) as [| n r] eqn:En.
      + destruct (IH {| ai_iters := ai_iters it; ai_offs := ai_offs it; ai_segoff := Datatypes.S (ai_segoff it) |}) as [H|H].
        { simpl. lia. }
        * left. destruct H as [j [n [r [Hj [Hn [He Hr]]]]]]. simpl in *. exists j, n, r.
          split; [lia|]. split; [exact Hn|]. split; [|exact Hr].
          intros k Hk. destruct (Nat.eq_dec k (ai_segoff it)) as [->|Hne]; [exact En|apply He; lia].
        * right. destruct H as [He [so [Hso1 [Hso2 Hr]]]]. simpl in *. split.
          -- intros k Hk. destruct (Nat.eq_dec k (ai_segoff it)) as [->|Hne]; [exact En|apply He; lia].
          -- exists so. split; [exact Hso1|]. split; [lia|exact Hr].
      + left. exists (ai_segoff it), n, r. split; [lia|]. split; [exact En|]. split; [intros k Hk; lia|reflexivity].
    - apply Nat.ltb_ge in E. right. split; [intros k Hk; lia|]. exists (ai_segoff it). split; [exact E|]. split; [lia|].
      destruct it; reflexivity.
  Qed.

  (* ---------- sound for every call ---------- *)

  Definition AW (it : ait) (S : Z -> bool) (p : option Z) : Prop :=
    ai_offs it = offs /\ aiters_ok (ai_iters it) /\
    (forall x, avisible (ai_iters it) O x -> S x = true) /\
    match p with
    | Some q => forall x, avisible (ai_iters it) (ai_segoff it) x -> q < x
    | None => True
    end.

  Definition aw_res (S : Z -> bool) (low : Z) (r : option Z) (it' : ait) : Prop :=
    match r with
    | Some x => S x = true /\ low <= x /\ AW it' S (Some x)
    | None => AW it' S None
    end.

  Lemma aw_scan : forall it S low,
    ai_offs it = offs -> aiters_ok (ai_iters it) -> (forall x, avisible (ai_iters it) O x -> S x = true) ->
    (forall x, avisible (ai_iters it) (ai_segoff it) x -> low <= x) ->
    exists r it', ait_next it = Ok (r, it') /\ aw_res S low r it'.
  Proof.
    intros it S low Hoffs Hit HS Hlow.
    pose proof Hit as [Hlen [Hsort Hrange]].
    unfold ait_next.
    destruct (ait_next_loop_spec (Datatypes.S (length (ai_iters it))) it ltac:(lia))
      as [[j [n [r [Hj [Hn [He E]]]]]]|[He [so [Hso1 [Hso2 E]]]]].
    - rewrite E. eexists _, _. split; [reflexivity|].
      rewrite Hoffs, (nth_or_offx offs N) by lia. cbn [aw_res].
      assert (Hvis : avisible (ai_iters it) (ai_segoff it) (n + offx j)).
      { exists j, n. split; [lia|]. split; [rewrite Hn; left; reflexivity|reflexivity]. }
      split.
      { apply HS. exists j, n. split; [lia|]. split; [rewrite Hn; left; reflexivity|reflexivity]. }
      split; [apply Hlow; exact Hvis|].
      assert (Hjl : (j < length (ai_iters it))%nat) by lia.
      unfold AW. cbn [ai_offs ai_iters ai_segoff].
      split; [reflexivity|]. split.
      { apply aiters_ok_set; [exact Hit|specialize (Hsort j); rewrite Hn in Hsort; eapply zsorted_tail; eauto|].
        intros q Hq. rewrite Hn. right. exact Hq. }
      split.
      { intros x [k [q [Hk [Hq ->]]]]. apply HS. exists k, q. split; [exact Hk|]. split; [|reflexivity].
        destruct (Nat.eq_dec j k) as [<-|Hne].
        - rewrite nth_or_set_eq in Hq by exact Hjl. rewrite Hn. right. exact Hq.
        - rewrite nth_or_set_neq in Hq by exact Hne. exact Hq. }
      intros x [k [q [Hk [Hq ->]]]]. destruct (Nat.eq_dec j k) as [<-|Hne].
      + rewrite nth_or_set_eq in Hq by exact Hjl.
        specialize (Hsort j). rewrite Hn in Hsort. pose proof (zsorted_head_min n r Hsort q Hq). lia.
      + rewrite nth_or_set_neq in Hq by exact Hne.
        destruct (Hrange k q Hq) as [Hq0 _]. destruct (Hrange j n ltac:(rewrite Hn; left; reflexivity)) as [_ Hp1].
        pose proof (offx_mono offs N Hok (Datatypes.S j) k ltac:(lia) ltac:(lia)). lia.
    - rewrite E. eexists _, _. split; [reflexivity|]. cbn [aw_res]. unfold AW. cbn [ai_offs ai_iters ai_segoff].
      split; [exact Hoffs|]. split; [exact Hit|]. split; [exact HS|exact I].
  Qed.

  Lemma aw_next : forall it S q, AW it S (Some q) ->
    exists r it', ait_next it = Ok (r, it') /\ aw_res S (q + 1) r it'.
  Proof.
    intros it S q [Hoffs [Hit [HS Hvis]]]. apply aw_scan; auto. intros x Hx. pose proof (Hvis x Hx). lia.
  Qed.

  Lemma aw_adv : forall it S p t, AW it S p -> 0 <= t ->
    exists r it', ait_advance it t = Ok (r, it') /\ aw_res S t r it'.
  Proof.
    intros it S p t [Hoffs [Hit [HS _]]] Ht.
    pose proof Hit as [Hlen [Hsort Hrange]].
    unfold ait_advance. rewrite Hoffs.
    destruct (count_le_spec offs N t Hok Ht) as [j [Ec [Hj [Hjle Hjlt]]]]. rewrite Ec.
    assert (Hlj : (length (ai_iters it) <=? j)%nat = false) by (apply Nat.leb_gt; lia). rewrite Hlj.
    rewrite (nth_or_offx offs N) by exact Hj.
    assert (Hjl : (j < length (ai_iters it))%nat) by lia.
    set (dl := drop_below_z (t - offx j) (nth_or (ai_iters it) j [])).
    assert (Hit2 : aiters_ok (set_nth (ai_iters it) j dl)).
    { apply aiters_ok_set; [exact Hit|apply dbz_sorted; apply Hsort|]. intros q Hq. eapply dbz_In; eauto. }
    apply aw_scan; cbn [ai_offs ai_iters ai_segoff].
    - reflexivity.
    - exact Hit2.
    - intros x [k [q [Hk [Hq ->]]]]. apply HS. exists k, q. split; [exact Hk|]. split; [|reflexivity].
      destruct (Nat.eq_dec j k) as [<-|Hne].
      + rewrite nth_or_set_eq in Hq by exact Hjl. eapply dbz_In; eauto.
      + rewrite nth_or_set_neq in Hq by exact Hne. exact Hq.
    - intros x [k [q [Hk [Hq ->]]]]. destruct (Nat.eq_dec j k) as [<-|Hne].
      + rewrite nth_or_set_eq in Hq by exact Hjl. pose proof (dbz_ge _ _ (Hsort j) q Hq). lia.
      + rewrite nth_or_set_neq in Hq by exact Hne. destruct (Hrange k q Hq) as [Hq0 _].
        specialize (Hjlt ltac:(lia)).
        pose proof (offx_mono offs N Hok (Datatypes.S j) k ltac:(lia) ltac:(lia)). lia.
  Qed.
  (* ---------- exact for Next and forward Advance ---------- *)

  Definition AInv (it : ait) (S : Z -> bool) (lo : Z) : Prop :=
    ai_offs it = offs /\ aiters_ok (ai_iters it) /\ 0 <= lo /\
    (forall x, avisible (ai_iters it) O x -> S x = true) /\
    exists s0, (s0 <= ai_segoff it)%nat /\ (s0 < length offs)%nat /\ offx s0 <= lo /\
               (forall k, (s0 <= k < ai_segoff it)%nat -> nth_or (ai_iters it) k [] = []) /\
               (forall x, avisible (ai_iters it) s0 x -> lo <= x) /\
               (forall x, lo <= x -> (S x = true <-> avisible (ai_iters it) s0 x)).

  Definition AFin (it : ait) (S : Z -> bool) (lo : Z) : Prop :=
    ai_offs it = offs /\ aiters_ok (ai_iters it) /\ 0 <= lo /\
    (forall x, avisible (ai_iters it) O x -> S x = true) /\
    none_from S lo /\
    exists s0, (s0 < length offs)%nat /\ offx s0 <= lo /\
               (forall k, (s0 <= k < length offs)%nat -> nth_or (ai_iters it) k [] = []).

  Definition a_post (S : Z -> bool) (lo : Z) (r : option Z) (it' : ait) : Prop :=
    match r with
    | Some x => least_from S lo x /\ AInv it' S (x + 1)
    | None => none_from S lo /\ AFin it' S lo
    end.

  Lemma avisible_shrink : forall iters j l s0 x, (j < length iters)%nat ->
    (forall q, In q l -> In q (nth_or iters j [])) ->
    avisible (set_nth iters j l) s0 x -> avisible iters s0 x.
  Proof.
    intros iters j l s0 x Hj Hsub [k [q [Hk [Hq ->]]]]. exists k, q. split; [exact Hk|]. split; [|reflexivity].
    destruct (Nat.eq_dec j k) as [<-|Hne].
    - rewrite nth_or_set_eq in Hq by exact Hj. apply Hsub. exact Hq.
    - rewrite nth_or_set_neq in Hq by exact Hne. exact Hq.
  Qed.

  Lemma a_next_exact : forall it S lo, AInv it S lo ->
    exists r it', ait_next it = Ok (r, it') /\ a_post S lo r it'.
  Proof.
    intros it S lo [Hoffs [Hit [Hlo [HS0 [s0 [Hs0 [Hs0l [Hoff0 [Hempty [Hvis HM]]]]]]]]]].
    pose proof Hit as [Hlen [Hsort Hrange]].
    unfold ait_next.
    destruct (ait_next_loop_spec (Datatypes.S (length (ai_iters it))) it ltac:(lia))
      as [[j [n [r [Hj [Hn [He E]]]]]]|[He [so [Hso1 [Hso2 E]]]]].
    - rewrite E. eexists _, _. split; [reflexivity|].
      rewrite Hoffs, (nth_or_offx offs N) by lia. cbn [a_post].
      assert (Hjl : (j < length (ai_iters it))%nat) by lia.
      assert (Hemp : forall k, (s0 <= k < j)%nat -> nth_or (ai_iters it) k [] = []).
      { intros k Hk. destruct (lt_dec k (ai_segoff it)); [apply Hempty; lia|apply He; lia]. }
      assert (Hnin : In n (nth_or (ai_iters it) j [])) by (rewrite Hn; left; reflexivity).
      destruct (Hrange j n Hnin) as [Hn0 Hn1].
      assert (Hvx : avisible (ai_iters it) s0 (n + offx j)).
      { exists j, n. split; [lia|]. split; [exact Hnin|reflexivity]. }
      assert (Hsr : zsorted (n :: r)) by (rewrite <- Hn; apply Hsort).
      assert (Hoj : 0 <= offx j).
      { pose proof (offx_mono offs N Hok O j ltac:(lia) ltac:(lia)). pose proof Hok as [_ [Hz _]]. lia. }
      (* what is visible from segment s0 below / above x *)
      assert (Hbelow : forall y, avisible (ai_iters it) s0 y -> n + offx j <= y).
      { intros y [k [q [Hk [Hq ->]]]].
        destruct (lt_eq_lt_dec k j) as [[Hlt|Heq]|Hgt].
        - rewrite Hemp in Hq by lia. destruct Hq.
        - subst k. rewrite Hn in Hq. destruct Hq as [<-|Hq]; [lia|]. pose proof (zsorted_head_min n r Hsr q Hq). lia.
        - destruct (Hrange k q Hq) as [Hq0 _].
          pose proof (offx_mono offs N Hok (Datatypes.S j) k ltac:(lia) ltac:(lia)). lia. }
      split.
      + split; [apply HM; [apply Hvis; exact Hvx|exact Hvx]|]. split; [apply Hvis; exact Hvx|].
        intros y Hy. apply not_true_is_false. intros HSy. apply HM in HSy; [|lia]. apply Hbelow in HSy. lia.
      + unfold AInv. cbn [ai_offs ai_iters ai_segoff].
        assert (Hsub : forall q, In q r -> In q (nth_or (ai_iters it) j [])) by (intros q Hq; rewrite Hn; right; exact Hq).
        split; [reflexivity|]. split; [apply aiters_ok_set; [exact Hit|eapply zsorted_tail; eauto|exact Hsub]|].
        split; [lia|]. split.
        { intros y Hy. apply HS0. eapply avisible_shrink; eauto. }
        exists j. split; [lia|]. split; [lia|]. split; [lia|]. split; [intros k Hk; lia|].
        assert (Hv' : forall y, avisible (set_nth (ai_iters it) j r) j y <-> avisible (ai_iters it) s0 y /\ n + offx j + 1 <= y).
        { intros y. split.
          - intros Hy. split; [|].
            + destruct Hy as [k [q [Hk [Hq ->]]]]. exists k, q. split; [lia|]. split; [|reflexivity].
              destruct (Nat.eq_dec j k) as [<-|Hne]; [rewrite nth_or_set_eq in Hq by exact Hjl; apply Hsub; exact Hq|].
              rewrite nth_or_set_neq in Hq by exact Hne. exact Hq.
            + destruct Hy as [k [q [Hk [Hq ->]]]]. destruct (Nat.eq_dec j k) as [<-|Hne].
              * rewrite nth_or_set_eq in Hq by exact Hjl. pose proof (zsorted_head_min n r Hsr q Hq). lia.
              * rewrite nth_or_set_neq in Hq by exact Hne. destruct (Hrange k q Hq) as [Hq0 _].
                pose proof (offx_mono offs N Hok (Datatypes.S j) k ltac:(lia) ltac:(lia)). lia.
          - intros [[k [q [Hk [Hq ->]]]] Hge].
            destruct (lt_eq_lt_dec k j) as [[Hlt|Heq]|Hgt].
            + rewrite Hemp in Hq by lia. destruct Hq.
            + subst k. rewrite Hn in Hq. destruct Hq as [<-|Hq]; [lia|].
              exists j, q. split; [lia|]. split; [rewrite nth_or_set_eq by exact Hjl; exact Hq|reflexivity].
            + exists k, q. split; [lia|]. split; [rewrite nth_or_set_neq by lia; exact Hq|reflexivity]. }
        split; [intros y Hy; apply Hv' in Hy; lia|].
        intros y Hy. rewrite Hv'. rewrite (HM y) by (pose proof (Hvis _ Hvx); lia). split; [intros H; split; [exact H|lia]|intros [H _]; exact H].
    - rewrite E. eexists _, _. split; [reflexivity|]. cbn [a_post].
      assert (Hall : forall k, (s0 <= k < length offs)%nat -> nth_or (ai_iters it) k [] = []).
      { intros k Hk. destruct (lt_dec k (ai_segoff it)); [apply Hempty; lia|apply He; lia]. }
      assert (Hnone : none_from S lo).
      { intros y Hy. apply not_true_is_false. intros HSy. apply HM in HSy; [|exact Hy].
        destruct HSy as [k [q [Hk [Hq _]]]]. rewrite Hall in Hq by lia. destruct Hq. }
      split; [exact Hnone|]. unfold AFin. cbn [ai_offs ai_iters ai_segoff].
      split; [exact Hoffs|]. split; [exact Hit|]. split; [exact Hlo|]. split; [exact HS0|]. split; [exact Hnone|].
      exists s0. split; [exact Hs0l|]. split; [exact Hoff0|exact Hall].
  Qed.

  Lemma a_advance_exact : forall it S lo n, AInv it S lo -> lo <= n ->
    exists r it', ait_advance it n = Ok (r, it') /\ a_post S n r it'.
  Proof.
    intros it S lo n [Hoffs [Hit [Hlo [HS0 [s0 [Hs0 [Hs0l [Hoff0 [Hempty [Hvis HM]]]]]]]]]] Hn.
    pose proof Hit as [Hlen [Hsort Hrange]].
    unfold ait_advance. rewrite Hoffs.
    destruct (count_le_spec offs N n Hok ltac:(lia)) as [j [Ec [Hj [Hjle Hjlt]]]]. rewrite Ec.
    assert (Hlj : (length (ai_iters it) <=? j)%nat = false) by (apply Nat.leb_gt; lia). rewrite Hlj.
    rewrite (nth_or_offx offs N) by exact Hj.
    pose proof (seg_ge offs N s0 j n Hok Hs0l ltac:(lia) Hjlt Hj) as Hs0j.
    assert (Hjl : (j < length (ai_iters it))%nat) by lia.
    set (dl := drop_below_z (n - offx j) (nth_or (ai_iters it) j [])).
    assert (Hsub : forall q, In q dl -> In q (nth_or (ai_iters it) j [])) by (intros q Hq; eapply dbz_In; eauto).
    apply a_next_exact. unfold AInv. cbn [ai_offs ai_iters ai_segoff].
    split; [reflexivity|]. split; [apply aiters_ok_set; [exact Hit|apply dbz_sorted; apply Hsort|exact Hsub]|].
    split; [lia|]. split; [intros y Hy; apply HS0; eapply avisible_shrink; eauto|].
    exists j. split; [lia|]. split; [exact Hj|]. split; [exact Hjle|]. split; [intros k Hk; lia|].
    assert (Hv' : forall y, avisible (set_nth (ai_iters it) j dl) j y <-> avisible (ai_iters it) s0 y /\ n <= y).
    { intros y. split.
      - intros [k [q [Hk [Hq ->]]]]. destruct (Nat.eq_dec j k) as [<-|Hne].
        + rewrite nth_or_set_eq in Hq by exact Hjl. split.
          * exists j, q. split; [lia|]. split; [apply Hsub; exact Hq|reflexivity].
          * pose proof (dbz_ge _ _ (Hsort j) q Hq). lia.
        + rewrite nth_or_set_neq in Hq by exact Hne. split.
          * exists k, q. split; [lia|]. split; [exact Hq|reflexivity].
          * destruct (Hrange k q Hq) as [Hq0 _]. specialize (Hjlt ltac:(lia)).
            pose proof (offx_mono offs N Hok (Datatypes.S j) k ltac:(lia) ltac:(lia)). lia.
      - intros [[k [q [Hk [Hq ->]]]] Hge].
        destruct (lt_eq_lt_dec k j) as [[Hlt|Heq]|Hgt].
        + exfalso. destruct (Hrange k q Hq) as [_ Hq2].
          pose proof (offx_mono offs N Hok (Datatypes.S k) j ltac:(lia) ltac:(lia)). lia.
        + subst k. exists j, q. split; [lia|]. split; [|reflexivity].
          rewrite nth_or_set_eq by exact Hjl. apply dbz_keeps; [exact Hq|lia].
        + exists k, q. split; [lia|]. split; [|reflexivity]. rewrite nth_or_set_neq by lia. exact Hq. }
    split; [intros y Hy; apply Hv' in Hy; lia|].
    intros y Hy. rewrite Hv', (HM y) by lia. split; [intros H; split; [exact H|exact Hy]|intros [H _]; exact H].
  Qed.

  Lemma a_fin_advance : forall it S lo n, AFin it S lo -> lo <= n ->
    exists it', ait_advance it n = Ok (None, it') /\ AFin it' S lo.
  Proof.
    intros it S lo n [Hoffs [Hit [Hlo [HS0 [Hnone [s0 [Hs0l [Hoff0 Hall]]]]]]]] Hn.
    pose proof Hit as [Hlen [Hsort Hrange]].
    unfold ait_advance. rewrite Hoffs.
    destruct (count_le_spec offs N n Hok ltac:(lia)) as [j [Ec [Hj [Hjle Hjlt]]]]. rewrite Ec.
    assert (Hlj : (length (ai_iters it) <=? j)%nat = false) by (apply Nat.leb_gt; lia). rewrite Hlj.
    pose proof (seg_ge offs N s0 j n Hok Hs0l ltac:(lia) Hjlt Hj) as Hs0j.
    rewrite (Hall j) by lia. cbn [drop_below_z].
    assert (Hjl : (j < length (ai_iters it))%nat) by lia.
    assert (Hit2 : aiters_ok (set_nth (ai_iters it) j [])).
    { apply aiters_ok_set; [exact Hit|exact I|intros q []]. }
    assert (Hall2 : forall k, (s0 <= k < length offs)%nat -> nth_or (set_nth (ai_iters it) j []) k [] = []).
    { intros k Hk. destruct (Nat.eq_dec j k) as [<-|Hne]; [apply nth_or_set_eq; lia|].
      rewrite nth_or_set_neq by exact Hne. apply Hall. exact Hk. }
    unfold ait_next.
    destruct (ait_next_loop_spec (Datatypes.S (length (ai_iters {| ai_iters := set_nth (ai_iters it) j []; ai_offs := offs; ai_segoff := j |})))
                {| ai_iters := set_nth (ai_iters it) j []; ai_offs := offs; ai_segoff := j |} ltac:(simpl; lia))
      as [[k [p [r [Hk [Hnk _]]]]]|[He [so [Hso1 [Hso2 E]]]]]; simpl in *.
    - rewrite set_nth_length in Hk. rewrite Hall2 in Hnk by lia. discriminate.
    - rewrite E. eexists. split; [reflexivity|].
      unfold AFin. simpl. split; [reflexivity|]. split; [exact Hit2|]. split; [exact Hlo|].
      split; [intros y Hy; apply HS0; apply (avisible_shrink (ai_iters it) j [] O y Hjl); [intros q []|exact Hy]|].
      split; [exact Hnone|]. exists s0. split; [exact Hs0l|]. split; [exact Hoff0|exact Hall2].
  Qed.

  (* exact states are sound states *)
  Lemma AInv_AW : forall it S lo m, AInv it S lo -> m + 1 = lo -> AW it S (Some m).
  Proof.
    intros it S lo m [Hoffs [Hit [Hlo [HS0 [s0 [Hs0 [Hs0l [Hoff0 [Hempty [Hvis HM]]]]]]]]]] Hm.
    split; [exact Hoffs|]. split; [exact Hit|]. split; [exact HS0|].
    intros x [k [q [Hk [Hq ->]]]]. assert (lo <= q + offx k); [|lia].
    apply Hvis. exists k, q. split; [lia|]. split; [exact Hq|reflexivity].
  Qed.

  Lemma AFin_AW : forall it S lo, AFin it S lo -> AW it S None.
  Proof. intros it S lo [Hoffs [Hit [_ [HS0 _]]]]. split; [exact Hoffs|]. split; [exact Hit|]. split; [exact HS0|exact I]. Qed.
End All.

(* ---------- the fresh match-all iterator of a snapshot ---------- *)
From Bluge Require Import Search.SearchersProofsSnap.

Definition all_S (sn : snapshot) (x : Z) : bool := existsb (fun p => fst p =? x) (live_docs sn).

Lemma nsorted_zsorted : forall l, nsorted l -> zsorted (map fst l).
Proof.
  induction l as [| a l IH]; intros H; [exact I|]. destruct l as [| b l]; [exact I|].
  destruct H as [Hab Hs]. cbn [map]. split; [exact Hab|]. apply IH. exact Hs.
Qed.

Lemma aiters_ok_snapshot : forall sn, wf_sn sn ->
  aiters_ok (offsets sn) (total_docs sn) (map (fun s => map fst (seg_live s)) sn).
Proof.
  intros sn Hwf. unfold aiters_ok, offsets. rewrite map_length, offsets_from_length.
  set (dflt := {| seg_docs := []; seg_del := [] |}).
  split; [reflexivity|]. split.
  - intros k. destruct (lt_dec k (length sn)) as [Hk|Hk].
    + rewrite (nth_or_map _ sn k dflt) by exact Hk. apply nsorted_zsorted.
      unfold seg_live. apply nsorted_filter. apply number_from_sorted.
    + unfold nth_or. rewrite nth_overflow by (rewrite map_length; lia). exact I.
  - intros k n Hn. destruct (lt_dec k (length sn)) as [Hk|Hk].
    + rewrite (nth_or_map _ sn k dflt) in Hn by exact Hk. apply in_map_iff in Hn. destruct Hn as [[n' d] [E Hin]].
      simpl in E. subst n'. apply seg_live_range in Hin.
      unfold offx. pose proof (offsets_from_nth sn 0 k) as H1. pose proof (offsets_from_nth sn 0 (Datatypes.S k)) as H2.
      rewrite !Z.add_0_l in H1, H2. rewrite H1, H2, total_firstn_step by exact Hk. fold dflt. lia.
    + unfold nth_or in Hn. rewrite nth_overflow in Hn by (rewrite map_length; lia). destruct Hn.
Qed.

Lemma all_S_visible : forall sn x, wf_sn sn ->
  (all_S sn x = true <-> avisible (offsets sn) (total_docs sn) (map (fun s => map fst (seg_live s)) sn) O x).
Proof.
  intros sn x Hwf. unfold all_S, avisible. rewrite existsb_exists. unfold offsets. rewrite offsets_from_length.
  set (dflt := {| seg_docs := []; seg_del := [] |}).
  split.
  - intros [[n d] [Hin E]]. simpl in E. apply Z.eqb_eq in E. subst n.
    unfold live_docs in Hin. apply live_from_In in Hin. destruct Hin as [k [s [Hk Hin]]]. simpl in Hin.
    assert (Hkl : (k < length sn)%nat) by (apply nth_error_Some; congruence).
    exists k, (x - total_docs (firstn k sn)). split; [lia|]. split.
    + rewrite (nth_or_map _ sn k dflt) by exact Hkl. rewrite (nth_error_nth sn k dflt Hk).
      apply in_map_iff. exists (x - total_docs (firstn k sn), d). split; [reflexivity|exact Hin].
    + unfold offx. pose proof (offsets_from_nth sn 0 k) as Ho. rewrite !Z.add_0_l in Ho. rewrite Ho. lia.
  - intros [k [n [Hk [Hn Hx]]]].
    assert (Hkl : (k < length sn)%nat) by lia.
    rewrite (nth_or_map _ sn k dflt) in Hn by exact Hkl. apply in_map_iff in Hn. destruct Hn as [[n' d] [E Hin]].
    simpl in E. subst n'.
    exists (x, d). split; [|simpl; apply Z.eqb_refl].
    unfold live_docs. apply live_from_In. exists k, (nth k sn dflt). split; [apply nth_error_nth'; exact Hkl|]. simpl.
    unfold offx in Hx. pose proof (offsets_from_nth sn 0 k) as Ho. rewrite !Z.add_0_l in Ho. rewrite Ho in Hx.
    replace (x - total_docs (firstn k sn)) with n by lia. exact Hin.
Qed.

Lemma AInv_ext : forall offs N it S S' lo, (forall x, S x = S' x) -> AInv offs N it S lo -> AInv offs N it S' lo.
Proof.
  intros offs N it S S' lo E [A [B0 [D [HS0 [s0 [F [G [H [I0 [J K]]]]]]]]]].
  split; [exact A|]. split; [exact B0|]. split; [exact D|]. split; [intros x Hx; rewrite <- E; apply HS0; exact Hx|].
  exists s0. split; [exact F|]. split; [exact G|]. split; [exact H|]. split; [exact I0|]. split; [exact J|].
  intros x Hx. rewrite <- E. apply K. exact Hx.
Qed.

Lemma mk_ait_inv : forall sn, wf_sn sn -> AInv (offsets sn) (total_docs sn) (mk_ait sn) (all_S sn) 0.
Proof.
  intros sn Hwf. pose proof (offs_ok_snapshot sn Hwf) as Hok.
  unfold AInv, mk_ait. simpl. split; [reflexivity|]. split; [apply aiters_ok_snapshot; exact Hwf|]. split; [lia|].
  split; [intros x Hx; apply all_S_visible; assumption|].
  exists O. split; [lia|]. destruct Hok as [Hlen [H0 _]]. split; [exact Hlen|]. split; [lia|].
  split; [intros k Hk; lia|]. split.
  - intros x [k [n [Hk [Hn ->]]]].
    destruct (aiters_ok_snapshot sn Hwf) as [_ [_ Hr]]. destruct (Hr k n Hn) as [Hn0 _].
    pose proof (offx_mono (offsets sn) (total_docs sn) (offs_ok_snapshot sn Hwf) O k ltac:(lia) ltac:(lia)). lia.
  - intros x _. apply all_S_visible. exact Hwf.
Qed.
