(* Search/Searchers.v — the searcher state machines of search/searcher/*.go as total functions.

   Modelled code (line numbers of the pinned tree):
     search_term.go           Next (84-98), Advance (100-115), buildDocumentMatch (139-167)
     search_match_all.go      Next / Advance;   search_match_none.go
     search_conjunction.go    initSearchers (95-109), Next (111-187), Advance (189-206), advanceChild (208-214)
     search_disjunction_slice.go  initSearchers (88-108), updateMatches (110-138), Next (140-176), Advance (178-207)
     search_disjunction_heap.go   initSearchers (84-108), updateMatches (110-132), Next (134-172),
                                  Advance (174-214), Less/Push/Pop (container/heap = Base/GoHeap.v)
     search_boolean.go        initSearchers (75-116), advanceNextMust (118-146), Next (148-170),
                              nextInternal (172-241), doesMustNotExcludeCandidate (243-268),
                              buildConstituents (270-281), Advance (283-304), advanceIfTrailing (306-352)
     search_phrase.go         Next (152-177), checkCurrMustMatch (183-207), findPhrasePaths (271-335), Advance (345-368)
     search_filter.go         Next (45-54), Advance (56-68)
     search/search.go         DocumentMatch.Complete (180-241), Locations.Dedupe (45-68)

   Every composite is written once, generically over the type C of its children and their
   Next/Advance functions; the tree type `searcher` ties the knot by recursion on fuel.
   A document match carries its number and the (term, position) locations used by the phrase
   searcher; scores are the business of C17 and are not carried.  The match pool
   (search/pool.go) is not modelled: matches are values.
   Loops with data-dependent exit take `lf` (loop fuel).  No proofs in this file. *)
From Coq Require Import ZArith List Bool Arith.
From Bluge Require Import Base.Res Base.GoHeap Gen.ParamsSearch Search.Numeric Search.Postings.
Import ListNotations.
Open Scope Z_scope.

Record dmatch := { dm_num : Z; dm_locs : list (list Z * Z) }.

Definition dm_of_posting (term : list Z) (withlocs : bool) (p : posting) : dmatch :=
  {| dm_num := p_num p; dm_locs := if withlocs then map (fun x => (term, x)) (p_locs p) else [] |}.

(* rv := constituents[0]; rv.FieldTermLocations = MergeFieldTermLocations(rv.FieldTermLocations, constituents[1:]) *)
Definition build_match (cons : list dmatch) : option dmatch :=
  match cons with
  | [] => None
  | c :: r => Some {| dm_num := dm_num c; dm_locs := dm_locs c ++ flat_map dm_locs r |}
  end.

Fixpoint somes {A} (l : list (option A)) : list A :=
  match l with
  | [] => []
  | Some x :: r => x :: somes r
  | None :: r => somes r
  end.

Section Generic.
  Variable C : Type.
  Variable cnext : C -> res (option dmatch * C).
  Variable cadv : C -> Z -> res (option dmatch * C).
  Variable cmin : C -> Z.       (* search.Searcher.Min() *)
  Variable lf : nat.            (* loop fuel *)

  (* for i, searcher := range searchers { currs[i], err = searcher.Next(ctx) } *)
  Fixpoint next_all (cs : list C) : res (list (option dmatch) * list C) :=
    match cs with
    | [] => Ok ([], [])
    | c :: r =>
        x <- cnext c ;;
        y <- next_all r ;;
        Ok (fst x :: fst y, snd x :: snd y)
    end.

  (* s.currs[i], err = s.searchers[i].Advance(ctx, number) *)
  Definition adv_child (cs : list C) (currs : list (option dmatch)) (i : nat) (n : Z)
    : res (list C * list (option dmatch)) :=
    match nth_error cs i with
    | None => Panic 2
    | Some c => x <- cadv c n ;; Ok (set_nth cs i (snd x), set_nth currs i (fst x))
    end.

  Definition next_child (cs : list C) (currs : list (option dmatch)) (i : nat)
    : res (list C * list (option dmatch)) :=
    match nth_error cs i with
    | None => Panic 2
    | Some c => x <- cnext c ;; Ok (set_nth cs i (snd x), set_nth currs i (fst x))
    end.

  (* ================= ConjunctionSearcher ================= *)

  Record conj_st := { cj_s : list C; cj_currs : list (option dmatch); cj_max : nat; cj_init : bool }.

  Definition conj_initialise (st : conj_st) : res conj_st :=
    if cj_init st then Ok st
    else x <- next_all (cj_s st) ;;
         Ok {| cj_s := snd x; cj_currs := fst x; cj_max := cj_max st; cj_init := true |}.

  (* for x := 0; x < i; x++ { advanceChild(x, maxID) } *)
  Fixpoint adv_range (cnt : nat) (x : nat) (cs : list C) (currs : list (option dmatch)) (n : Z)
    : res (list C * list (option dmatch)) :=
    match cnt with
    | O => Ok (cs, currs)
    | S k => y <- adv_child cs currs x n ;; adv_range k (S x) (fst y) (snd y) n
    end.

  (* The OUTER loop and the inner `for i < len(currs)` loop of Next as one recursion:
     oi = None: at the head of OUTER; oi = Some i: inside the inner loop at index i. *)
  Fixpoint conj_loop (fuel : nat) (cs : list C) (currs : list (option dmatch)) (mx : nat) (oi : option nat)
    : res (option dmatch * (list C * list (option dmatch) * nat)) :=
    match fuel with
    | O => OutOfFuel
    | S f =>
        match oi with
        | None =>
            (* for s.maxIDIdx < len(s.currs) && s.currs[s.maxIDIdx] != nil *)
            match nth_error currs mx with
            | Some (Some _) => conj_loop f cs currs mx (Some O)
            | _ => Ok (None, (cs, currs, mx))
            end
        | Some i =>
            match nth_error currs mx with
            | Some (Some m) =>
                let maxID := dm_num m in
                match nth_error currs i with
                | None =>
                    (* i == len(currs): a doc matched all readers *)
                    match build_match (somes currs) with
                    | None => Panic 3
                    | Some rv =>
                        x <- next_all cs ;;
                        Ok (Some rv, (snd x, fst x, mx))
                    end
                | Some None => Ok (None, (cs, currs, mx))          (* if s.currs[i] == nil { return nil, nil } *)
                | Some (Some c) =>
                    if Nat.eqb i mx then conj_loop f cs currs mx (Some (S i))
                    else if maxID =? dm_num c then conj_loop f cs currs mx (Some (S i))
                    else if maxID <? dm_num c then
                      (* new maxIDIdx; advance the positions [0, i) to the new max; continue OUTER *)
                      y <- adv_range i O cs currs (dm_num c) ;;
                      conj_loop f (fst y) (snd y) i None
                    else
                      (* maxID > currs[i]: advance searchers[i]; do not bump i *)
                      y <- adv_child cs currs i maxID ;;
                      conj_loop f (fst y) (snd y) mx (Some i)
                end
            | _ => Panic 4 (* s.currs[s.maxIDIdx].Number on nil *)
            end
        end
    end.

  Definition conj_next (st : conj_st) : res (option dmatch * conj_st) :=
    st1 <- conj_initialise st ;;
    x <- conj_loop lf (cj_s st1) (cj_currs st1) (cj_max st1) None ;;
    let '(r, (cs, currs, mx)) := x in
    Ok (r, {| cj_s := cs; cj_currs := currs; cj_max := mx; cj_init := true |}).

  (* for i := range searchers { if currs[i] != nil && currs[i].Number >= number { continue }; advanceChild(i, number) } *)
  Fixpoint adv_trailing (cnt : nat) (i : nat) (cs : list C) (currs : list (option dmatch)) (n : Z)
    : res (list C * list (option dmatch)) :=
    match cnt with
    | O => Ok (cs, currs)
    | S k =>
        match nth_error currs i with
        | Some (Some c) =>
            if n <=? dm_num c then adv_trailing k (S i) cs currs n
            else y <- adv_child cs currs i n ;; adv_trailing k (S i) (fst y) (snd y) n
        | _ => y <- adv_child cs currs i n ;; adv_trailing k (S i) (fst y) (snd y) n
        end
    end.

  Definition conj_advance (st : conj_st) (n : Z) : res (option dmatch * conj_st) :=
    st1 <- conj_initialise st ;;
    y <- adv_trailing (length (cj_s st1)) O (cj_s st1) (cj_currs st1) n ;;
    conj_next {| cj_s := fst y; cj_currs := snd y; cj_max := cj_max st1; cj_init := true |}.

  (* ================= DisjunctionSliceSearcher ================= *)

  Record dsl_st := { ds_s : list C; ds_currs : list (option dmatch); ds_min : Z;
                     ds_matching : list dmatch; ds_idxs : list nat; ds_init : bool }.

  (* updateMatches (110-138): the children whose current match has the least number, in index order *)
  Fixpoint update_matches_from (i : nat) (currs : list (option dmatch)) (matching : list dmatch) (idxs : list nat)
    : list dmatch * list nat :=
    match currs with
    | [] => (matching, idxs)
    | None :: r => update_matches_from (S i) r matching idxs
    | Some c :: r =>
        match matching with
        | m0 :: _ =>
            if dm_num m0 <? dm_num c then update_matches_from (S i) r matching idxs
            else if dm_num c <? dm_num m0 then update_matches_from (S i) r [c] [i]
            else update_matches_from (S i) r (matching ++ [c]) (idxs ++ [i])
        | [] => update_matches_from (S i) r [c] [i]
        end
    end.
  Definition update_matches (currs : list (option dmatch)) : list dmatch * list nat :=
    update_matches_from O currs [] [].

  Definition dsl_initialise (st : dsl_st) : res dsl_st :=
    if ds_init st then Ok st
    else x <- next_all (ds_s st) ;;
         let um := update_matches (fst x) in
         Ok {| ds_s := snd x; ds_currs := fst x; ds_min := ds_min st;
               ds_matching := fst um; ds_idxs := snd um; ds_init := true |}.

  (* for _, i := range s.matchingIdxs { s.currs[i], err = s.searchers[i].Next(ctx) } *)
  Fixpoint next_idxs (idxs : list nat) (cs : list C) (currs : list (option dmatch))
    : res (list C * list (option dmatch)) :=
    match idxs with
    | [] => Ok (cs, currs)
    | i :: r => y <- next_child cs currs i ;; next_idxs r (fst y) (snd y)
    end.

  (* for !found && len(s.matching) > 0 *)
  Fixpoint dsl_loop (fuel : nat) (st : dsl_st) : res (option dmatch * dsl_st) :=
    match fuel with
    | O => OutOfFuel
    | S f =>
        match ds_matching st with
        | [] => Ok (None, st)
        | _ :: _ =>
            let found := ds_min st <=? Z.of_nat (length (ds_matching st)) in
            y <- next_idxs (ds_idxs st) (ds_s st) (ds_currs st) ;;
            let um := update_matches (snd y) in
            let st' := {| ds_s := fst y; ds_currs := snd y; ds_min := ds_min st;
                          ds_matching := fst um; ds_idxs := snd um; ds_init := true |} in
            if found then Ok (build_match (ds_matching st), st') else dsl_loop f st'
        end
    end.

  Definition dsl_next (st : dsl_st) : res (option dmatch * dsl_st) :=
    st1 <- dsl_initialise st ;; dsl_loop lf st1.

  Definition dsl_advance (st : dsl_st) (n : Z) : res (option dmatch * dsl_st) :=
    st1 <- dsl_initialise st ;;
    y <- adv_trailing (length (ds_s st1)) O (ds_s st1) (ds_currs st1) n ;;
    let um := update_matches (snd y) in
    dsl_loop lf {| ds_s := fst y; ds_currs := snd y; ds_min := ds_min st1;
                   ds_matching := fst um; ds_idxs := snd um; ds_init := true |}.

  (* ================= DisjunctionHeapSearcher ================= *)

  Variable cdflt : C.   (* default element for container/heap's slice accesses; never observed *)

  Definition hentry := (C * dmatch)%type.               (* searcherCurr{searcher, curr} *)
  Definition h_less (a b : hentry) : bool := dm_num (snd a) <? dm_num (snd b).   (* Less; curr is never nil in the heap *)
  Definition h_dflt : hentry := (cdflt, {| dm_num := 0; dm_locs := [] |}).

  Record dhp_st := { dh_s : list C; dh_min : Z; dh_heap : list hentry; dh_matching : list hentry; dh_init : bool }.

  (* updateMatches (110-132): pop the minimum and every entry with the same number *)
  Fixpoint dhp_pop_equal (fuel : nat) (num : Z) (heap : list hentry) (acc : list hentry) : list hentry * list hentry :=
    match fuel with
    | O => (heap, acc)
    | S f =>
        match heap with
        | [] => (heap, acc)
        | top :: _ =>
            if dm_num (snd top) =? num then
              match heap_pop h_less h_dflt heap with
              | Some (e, heap') => dhp_pop_equal f num heap' (acc ++ [e])
              | None => (heap, acc)
              end
            else (heap, acc)
        end
    end.

  Definition dhp_update_matches (heap : list hentry) : list hentry * list hentry :=
    match heap_pop h_less h_dflt heap with
    | None => (heap, [])
    | Some (e, heap') => dhp_pop_equal (length heap') (dm_num (snd e)) heap' [e]
    end.

  (* initSearchers (84-108) *)
  Fixpoint dhp_init_push (cs : list C) (heap : list hentry) : res (list hentry) :=
    match cs with
    | [] => Ok heap
    | c :: r =>
        x <- cnext c ;;
        match fst x with
        | Some m => dhp_init_push r (heap_push h_less h_dflt heap (snd x, m))
        | None => dhp_init_push r heap
        end
    end.

  Definition dhp_initialise (st : dhp_st) : res dhp_st :=
    if dh_init st then Ok st
    else heap <- dhp_init_push (dh_s st) (dh_heap st) ;;
         let um := dhp_update_matches heap in
         Ok {| dh_s := dh_s st; dh_min := dh_min st; dh_heap := fst um; dh_matching := snd um; dh_init := true |}.

  (* for _, matchingCurr := range s.matchingCurrs { curr := matchingCurr.searcher.Next(); if curr != nil { push } } *)
  Fixpoint dhp_next_matching (ms : list hentry) (heap : list hentry) : res (list hentry) :=
    match ms with
    | [] => Ok heap
    | e :: r =>
        x <- cnext (fst e) ;;
        match fst x with
        | Some m => dhp_next_matching r (heap_push h_less h_dflt heap (snd x, m))
        | None => dhp_next_matching r heap
        end
    end.

  Fixpoint dhp_loop (fuel : nat) (st : dhp_st) : res (option dmatch * dhp_st) :=
    match fuel with
    | O => OutOfFuel
    | S f =>
        match dh_matching st with
        | [] => Ok (None, st)
        | _ :: _ =>
            let found := dh_min st <=? Z.of_nat (length (dh_matching st)) in
            heap <- dhp_next_matching (dh_matching st) (dh_heap st) ;;
            let um := dhp_update_matches heap in
            let st' := {| dh_s := dh_s st; dh_min := dh_min st; dh_heap := fst um; dh_matching := snd um; dh_init := true |} in
            if found then Ok (build_match (map snd (dh_matching st)), st') else dhp_loop f st'
        end
    end.

  Definition dhp_next (st : dhp_st) : res (option dmatch * dhp_st) :=
    st1 <- dhp_initialise st ;; dhp_loop lf st1.

  (* for len(s.heap) > 0 && s.heap[0].curr.Number < number { pop; Advance; keep if non-nil } *)
  Fixpoint dhp_adv_loop (fuel : nat) (heap : list hentry) (kept : list hentry) (n : Z) : res (list hentry * list hentry) :=
    match fuel with
    | O => OutOfFuel
    | S f =>
        match heap with
        | [] => Ok (heap, kept)
        | top :: _ =>
            if dm_num (snd top) <? n then
              match heap_pop h_less h_dflt heap with
              | None => Ok (heap, kept)
              | Some (e, heap') =>
                  x <- cadv (fst e) n ;;
                  match fst x with
                  | Some m => dhp_adv_loop f heap' (kept ++ [(snd x, m)]) n
                  | None => dhp_adv_loop f heap' kept n
                  end
              end
            else Ok (heap, kept)
        end
    end.

  Definition dhp_advance (st : dhp_st) (n : Z) : res (option dmatch * dhp_st) :=
    st1 <- dhp_initialise st ;;
    let heap1 := fold_left (fun h e => heap_push h_less h_dflt h e) (dh_matching st1) (dh_heap st1) in
    y <- dhp_adv_loop (S (length heap1)) heap1 [] n ;;
    let heap2 := fold_left (fun h e => heap_push h_less h_dflt h e) (snd y) (fst y) in
    let um := dhp_update_matches heap2 in
    dhp_loop lf {| dh_s := dh_s st1; dh_min := dh_min st1; dh_heap := fst um; dh_matching := snd um; dh_init := true |}.

  (* ================= BooleanSearcher ================= *)

  Record bool_st := { b_must : option C; b_should : option C; b_mustnot : option C;
                      b_cm : option dmatch; b_cs : option dmatch; b_cmn : option dmatch;
                      b_cur : option dmatch;      (* currentMatch (an alias of currMust or currShould) *)
                      b_init : bool; b_done : bool }.

  (* if mustSearcher != nil && currMust != nil { currMust } else if mustSearcher == nil && currShould != nil { currShould } else nil *)
  Definition pick_current (must : option C) (cm cs : option dmatch) : option dmatch :=
    match must with
    | Some _ => cm
    | None => cs
    end.

  Definition opt_next (c : option C) (cur : option dmatch) : res (option dmatch * option C) :=
    match c with
    | None => Ok (cur, None)
    | Some x => y <- cnext x ;; Ok (fst y, Some (snd y))
    end.

  Definition opt_adv (c : option C) (cur : option dmatch) (n : Z) : res (option dmatch * option C) :=
    match c with
    | None => Ok (cur, None)
    | Some x => y <- cadv x n ;; Ok (fst y, Some (snd y))
    end.

  Definition bool_initialise (st : bool_st) : res bool_st :=
    if b_init st then Ok st
    else
      m <- opt_next (b_must st) (b_cm st) ;;
      s <- opt_next (b_should st) (b_cs st) ;;
      mn <- opt_next (b_mustnot st) (b_cmn st) ;;
      Ok {| b_must := snd m; b_should := snd s; b_mustnot := snd mn;
            b_cm := fst m; b_cs := fst s; b_cmn := fst mn;
            b_cur := pick_current (snd m) (fst m) (fst s); b_init := true; b_done := b_done st |}.

  (* advanceNextMust (118-146) *)
  Definition bool_advance_next_must (st : bool_st) : res bool_st :=
    match b_must st with
    | Some c =>
        y <- cnext c ;;
        Ok {| b_must := Some (snd y); b_should := b_should st; b_mustnot := b_mustnot st;
              b_cm := fst y; b_cs := b_cs st; b_cmn := b_cmn st;
              b_cur := fst y; b_init := b_init st; b_done := b_done st |}
    | None =>
        match b_should st with
        | Some c =>
            y <- cnext c ;;
            Ok {| b_must := None; b_should := Some (snd y); b_mustnot := b_mustnot st;
                  b_cm := b_cm st; b_cs := fst y; b_cmn := b_cmn st;
                  b_cur := fst y; b_init := b_init st; b_done := b_done st |}
        | None => Panic 5 (* s.shouldSearcher.Next on nil *)
        end
    end.

  Definition set_cmn (st : bool_st) (c : option C) (m : option dmatch) : bool_st :=
    {| b_must := b_must st; b_should := b_should st; b_mustnot := c;
       b_cm := b_cm st; b_cs := b_cs st; b_cmn := m; b_cur := b_cur st; b_init := b_init st; b_done := b_done st |}.
  Definition set_cs (st : bool_st) (c : option C) (m : option dmatch) : bool_st :=
    {| b_must := b_must st; b_should := c; b_mustnot := b_mustnot st;
       b_cm := b_cm st; b_cs := m; b_cmn := b_cmn st; b_cur := b_cur st; b_init := b_init st; b_done := b_done st |}.

  (* buildConstituents (270-281) / the one-element `cons[0] = s.currMust` of the "match is OK anyway" branches *)
  Definition bool_constituents (st : bool_st) : list dmatch :=
    match b_cm st with
    | Some m => m :: match b_cs st with Some s => [s] | None => [] end
    | None => match b_cs st with Some s => [s] | None => [] end
    end.

  Definition should_min_zero (st : bool_st) : bool :=
    match b_should st with Some c => cmin c =? 0 | None => true end.

  (* nextInternal (172-241), one iteration per unit of fuel *)
  Fixpoint bool_loop (fuel : nat) (st : bool_st) : res (option dmatch * bool_st) :=
    match fuel with
    | O => OutOfFuel
    | S f =>
        match b_cur st with
        | None => Ok (None, st)
        | Some cur =>
            (* doesMustNotExcludeCandidate (243-268) *)
            x <- match b_cmn st with
                 | None => Ok (false, st)
                 | Some mn =>
                     if dm_num mn <? dm_num cur then
                       y <- opt_adv (b_mustnot st) (b_cmn st) (dm_num cur) ;;
                       let st1 := set_cmn st (snd y) (fst y) in
                       match fst y with
                       | Some mn' => if dm_num mn' =? dm_num cur
                                     then st2 <- bool_advance_next_must st1 ;; Ok (true, st2)
                                     else Ok (false, st1)
                       | None => Ok (false, st1)
                       end
                     else if dm_num mn =? dm_num cur then st2 <- bool_advance_next_must st ;; Ok (true, st2)
                     else Ok (false, st)
                 end ;;
            let st1 := snd x in
            if fst x then bool_loop f st1
            else
              let matched (stm : bool_st) (cons : list dmatch) : res (option dmatch * bool_st) :=
                match build_match cons with
                | None => Panic 3
                | Some rv => st3 <- bool_advance_next_must stm ;; Ok (Some rv, st3)
                end in
              let only_must (stm : bool_st) := match b_cm stm with Some m => [m] | None => [] end in
              match b_cs st1 with
              | Some s =>
                  if dm_num s <? dm_num cur then
                    (* advance should searcher to our candidate entry *)
                    y <- opt_adv (b_should st1) (b_cs st1) (dm_num cur) ;;
                    let st2 := set_cs st1 (snd y) (fst y) in
                    let hit := match fst y with Some s' => dm_num s' =? dm_num cur | None => false end in
                    if hit then matched st2 (bool_constituents st2)
                    else if should_min_zero st2 then matched st2 (only_must st2)
                    else st3 <- bool_advance_next_must st2 ;; bool_loop f st3
                  else if dm_num s =? dm_num cur then matched st1 (bool_constituents st1)
                  else if should_min_zero st1 then matched st1 (only_must st1)
                  else st3 <- bool_advance_next_must st1 ;; bool_loop f st3
              | None =>
                  if should_min_zero st1 then matched st1 (only_must st1)
                  else st3 <- bool_advance_next_must st1 ;; bool_loop f st3
              end
        end
    end.

  Definition set_done (st : bool_st) : bool_st :=
    {| b_must := b_must st; b_should := b_should st; b_mustnot := b_mustnot st;
       b_cm := b_cm st; b_cs := b_cs st; b_cmn := b_cmn st; b_cur := b_cur st; b_init := b_init st; b_done := true |}.

  Definition bool_next (st : bool_st) : res (option dmatch * bool_st) :=
    if b_done st then Ok (None, st)
    else
      st1 <- bool_initialise st ;;
      x <- bool_loop lf st1 ;;
      match fst x with
      | None => Ok (None, set_done (snd x))
      | Some rv => Ok (Some rv, snd x)
      end.

  (* advanceIfTrailing (306-352) *)
  Definition bool_advance_if_trailing (st : bool_st) (n : Z) : res bool_st :=
    m <- opt_adv (b_must st) (b_cm st) n ;;
    s <- opt_adv (b_should st) (b_cs st) n ;;
    mn <- match b_mustnot st with
          | None => Ok (b_cmn st, None)
          | Some _ =>
              let trailing := match b_cmn st with None => true | Some c => dm_num c <? n end in
              if trailing then opt_adv (b_mustnot st) (b_cmn st) n else Ok (b_cmn st, b_mustnot st)
          end ;;
    Ok {| b_must := snd m; b_should := snd s; b_mustnot := snd mn;
          b_cm := fst m; b_cs := fst s; b_cmn := fst mn;
          b_cur := pick_current (snd m) (fst m) (fst s); b_init := b_init st; b_done := b_done st |}.

  Definition bool_advance (st : bool_st) (n : Z) : res (option dmatch * bool_st) :=
    if b_done st then Ok (None, st)
    else
      st1 <- bool_initialise st ;;
      st2 <- (match b_cur st1 with
              | Some c => if dm_num c <? n then bool_advance_if_trailing st1 n else Ok st1
              | None => bool_advance_if_trailing st1 n
              end) ;;
      bool_next st2.

  (* ================= FilteringSearcher ================= *)

  Record flt_st := { fl_child : C; fl_accept : Z -> bool }.

  Fixpoint flt_loop (fuel : nat) (c : C) (accept : Z -> bool) : res (option dmatch * C) :=
    match fuel with
    | O => OutOfFuel
    | S f =>
        x <- cnext c ;;
        match fst x with
        | None => Ok (None, snd x)
        | Some m => if accept (dm_num m) then Ok (Some m, snd x) else flt_loop f (snd x) accept
        end
    end.

  Definition flt_next (st : flt_st) : res (option dmatch * flt_st) :=
    x <- flt_loop lf (fl_child st) (fl_accept st) ;;
    Ok (fst x, {| fl_child := snd x; fl_accept := fl_accept st |}).

  Definition flt_advance (st : flt_st) (n : Z) : res (option dmatch * flt_st) :=
    x <- cadv (fl_child st) n ;;
    match fst x with
    | None => Ok (None, {| fl_child := snd x; fl_accept := fl_accept st |})
    | Some m =>
        if fl_accept st (dm_num m) then Ok (Some m, {| fl_child := snd x; fl_accept := fl_accept st |})
        else flt_next {| fl_child := snd x; fl_accept := fl_accept st |}
    end.

  (* ================= PhraseSearcher ================= *)

  Record phr_st := { ph_must : C; ph_cm : option dmatch; ph_terms : list (list (list Z)); ph_slop : Z; ph_init : bool }.
End Generic.

Arguments cj_s {C}. Arguments cj_currs {C}. Arguments cj_max {C}. Arguments cj_init {C}.
Arguments ds_s {C}. Arguments ds_currs {C}. Arguments ds_min {C}. Arguments ds_matching {C}.
Arguments ds_idxs {C}. Arguments ds_init {C}.
Arguments dh_s {C}. Arguments dh_min {C}. Arguments dh_heap {C}. Arguments dh_matching {C}. Arguments dh_init {C}.
Arguments b_must {C}. Arguments b_should {C}. Arguments b_mustnot {C}. Arguments b_cm {C}. Arguments b_cs {C}.
Arguments b_cmn {C}. Arguments b_cur {C}. Arguments b_init {C}. Arguments b_done {C}.
Arguments fl_child {C}. Arguments fl_accept {C}.
Arguments ph_must {C}. Arguments ph_cm {C}. Arguments ph_terms {C}. Arguments ph_slop {C}. Arguments ph_init {C}.

(* ---------- phrase matching (search_phrase.go, search/search.go) ---------- *)

Definition tl_eqb (a b : list Z * Z) : bool := bytes_eqb (fst a) (fst b) && (snd a =? snd b).

(* DocumentMatch.Complete: per term the locations in arrival order; when some location of a term
   is at or before the previous one of that term every list is sorted and de-duplicated
   (Locations.Dedupe; a location is identified with its position: one token per position). *)
Fixpoint term_locs (t : list Z) (locs : list (list Z * Z)) : list Z :=
  match locs with
  | [] => []
  | (t', p) :: r => if bytes_eqb t t' then p :: term_locs t r else term_locs t r
  end.

Fixpoint ascending (l : list Z) : bool :=
  match l with
  | a :: ((b :: _) as r) => (a <? b) && ascending r
  | _ => true
  end.

Fixpoint insert_pos (x : Z) (l : list Z) : list Z :=
  match l with
  | [] => [x]
  | h :: r => if x <? h then x :: l else if x =? h then l else h :: insert_pos x r
  end.
Definition sort_dedupe (l : list Z) : list Z := fold_right insert_pos [] l.

Definition needs_dedupe (locs : list (list Z * Z)) : bool :=
  negb (forallb (fun tp => ascending (term_locs (fst tp) locs)) locs).

Definition tlm_of (locs : list (list Z * Z)) (t : list Z) : list Z :=
  if needs_dedupe locs then sort_dedupe (term_locs t locs) else term_locs t locs.

Definition empty_car (car : list (list Z)) : bool :=
  match car with
  | [] => true
  | [[]] => true
  | _ => false
  end.

(* findPhrasePaths (271-335): phrase positions are lists of alternative terms, the empty
   term is a placeholder; prevPos = 0 means "no previous position" (positions start at 1) *)
Fixpoint find_phrase_paths (prevPos : Z) (phraseTerms : list (list (list Z))) (tlm : list Z -> list Z)
         (p : list (list Z * Z)) (remainingSlop : Z) (rv : list (list (list Z * Z))) : list (list (list Z * Z)) :=
  match phraseTerms with
  | [] => rv ++ [p]
  | car :: cdr =>
      if empty_car car then
        find_phrase_paths (if prevPos =? 0 then 0 else prevPos + 1) cdr tlm p remainingSlop rv
      else
        fold_left (fun rv1 carTerm =>
          fold_left (fun rv2 loc =>
            let dist := if prevPos =? 0 then 0 else Z.abs (prevPos + 1 - loc) in
            if (prevPos =? 0) || (0 <=? remainingSlop - dist) then
              if existsb (tl_eqb (carTerm, loc)) p then rv2
              else find_phrase_paths loc cdr tlm (p ++ [(carTerm, loc)]) (remainingSlop - dist) rv2
            else rv2) (tlm carTerm) rv1) car rv
  end.

(* checkCurrMustMatch (183-207): the match survives iff the paths hold at least one part *)
Definition phrase_check (terms : list (list (list Z))) (slop : Z) (m : dmatch) : option dmatch :=
  let paths := find_phrase_paths 0 terms (tlm_of (dm_locs m)) [] slop [] in
  match concat paths with
  | [] => None
  | ftls => Some {| dm_num := dm_num m; dm_locs := ftls |}
  end.

Section Phrase.
  Variable C : Type.
  Variable cnext : C -> res (option dmatch * C).
  Variable cadv : C -> Z -> res (option dmatch * C).
  Variable lf : nat.

  (* Next (152-177): for s.currMust != nil { rv := check; advanceNextMust; if rv != nil return } *)
  Fixpoint phr_loop (fuel : nat) (st : phr_st C) : res (option dmatch * phr_st C) :=
    match fuel with
    | O => OutOfFuel
    | S f =>
        match ph_cm st with
        | None => Ok (None, st)
        | Some m =>
            let rv := phrase_check (ph_terms st) (ph_slop st) m in
            x <- cnext (ph_must st) ;;
            let st' := {| ph_must := snd x; ph_cm := fst x; ph_terms := ph_terms st; ph_slop := ph_slop st; ph_init := true |} in
            match rv with
            | Some r => Ok (Some r, st')
            | None => phr_loop f st'
            end
        end
    end.

  Definition phr_initialise (st : phr_st C) : res (phr_st C) :=
    if ph_init st then Ok st
    else x <- cnext (ph_must st) ;;
         Ok {| ph_must := snd x; ph_cm := fst x; ph_terms := ph_terms st; ph_slop := ph_slop st; ph_init := true |}.

  Definition phr_next (st : phr_st C) : res (option dmatch * phr_st C) :=
    st1 <- phr_initialise st ;; phr_loop lf st1.

  Definition phr_advance (st : phr_st C) (n : Z) : res (option dmatch * phr_st C) :=
    st1 <- phr_initialise st ;;
    match ph_cm st1 with
    | None => Ok (None, st1)
    | Some m =>
        if n <=? dm_num m then phr_loop lf st1
        else
          x <- cadv (ph_must st1) n ;;
          phr_loop lf {| ph_must := snd x; ph_cm := fst x; ph_terms := ph_terms st1; ph_slop := ph_slop st1; ph_init := true |}
    end.
End Phrase.

(* ================= the searcher tree ================= *)

Inductive searcher :=
| STerm (term : list Z) (withlocs : bool) (it : pit)    (* TermSearcher over index/postings.go *)
| SAll (it : ait)                                       (* MatchAllSearcher over index/postings_all.go *)
| SNone                                                 (* MatchNoneSearcher *)
| SConj (st : conj_st searcher)
| SDisjS (st : dsl_st searcher)
| SDisjH (st : dhp_st searcher)
| SBool (st : bool_st searcher)
| SPhrase (st : phr_st searcher)
| SFilter (st : flt_st searcher).

(* search.Searcher.Min() *)
Fixpoint smin (s : searcher) : Z :=
  match s with
  | SDisjS st => ds_min st
  | SDisjH st => dh_min st
  | SFilter st => match st with Build_flt_st _ c _ => smin c end
  | _ => 0
  end.

Definition wrap {A} (f : A -> searcher) (r : res (option dmatch * A)) : res (option dmatch * searcher) :=
  x <- r ;; Ok (fst x, f (snd x)).

Fixpoint snext (lf fuel : nat) (s : searcher) {struct fuel} : res (option dmatch * searcher) :=
  match fuel with
  | O => OutOfFuel
  | S f =>
      match s with
      | STerm t wl it =>
          x <- pit_next it ;;
          Ok (option_map (dm_of_posting t wl) (fst x), STerm t wl (snd x))
      | SAll it =>
          x <- ait_next it ;;
          Ok (option_map (fun n => {| dm_num := n; dm_locs := [] |}) (fst x), SAll (snd x))
      | SNone => Ok (None, SNone)
      | SConj st => wrap SConj (conj_next searcher (snext lf f) (sadv lf f) lf st)
      | SDisjS st => wrap SDisjS (dsl_next searcher (snext lf f) lf st)
      | SDisjH st => wrap SDisjH (dhp_next searcher (snext lf f) lf SNone st)
      | SBool st => wrap SBool (bool_next searcher (snext lf f) (sadv lf f) smin lf st)
      | SPhrase st => wrap SPhrase (phr_next searcher (snext lf f) lf st)
      | SFilter st => wrap SFilter (flt_next searcher (snext lf f) lf st)
      end
  end
with sadv (lf fuel : nat) (s : searcher) (n : Z) {struct fuel} : res (option dmatch * searcher) :=
  match fuel with
  | O => OutOfFuel
  | S f =>
      match s with
      | STerm t wl it =>
          x <- pit_advance it n ;;
          Ok (option_map (dm_of_posting t wl) (fst x), STerm t wl (snd x))
      | SAll it =>
          x <- ait_advance it n ;;
          Ok (option_map (fun k => {| dm_num := k; dm_locs := [] |}) (fst x), SAll (snd x))
      | SNone => Ok (None, SNone)
      | SConj st => wrap SConj (conj_advance searcher (snext lf f) (sadv lf f) lf st n)
      | SDisjS st => wrap SDisjS (dsl_advance searcher (snext lf f) (sadv lf f) lf st n)
      | SDisjH st => wrap SDisjH (dhp_advance searcher (snext lf f) (sadv lf f) lf SNone st n)
      | SBool st => wrap SBool (bool_advance searcher (snext lf f) (sadv lf f) smin lf st n)
      | SPhrase st => wrap SPhrase (phr_advance searcher (snext lf f) (sadv lf f) lf st n)
      | SFilter st => wrap SFilter (flt_advance searcher (snext lf f) (sadv lf f) lf st n)
      end
  end.

(* constructors of fresh searchers (New*Searcher) *)
Definition mk_conj (cs : list searcher) : searcher :=
  SConj {| cj_s := cs; cj_currs := map (fun _ => None) cs; cj_max := O; cj_init := false |}.
Definition mk_disj_slice (cs : list searcher) (min : Z) : searcher :=
  SDisjS {| ds_s := cs; ds_currs := map (fun _ => None) cs; ds_min := min; ds_matching := []; ds_idxs := []; ds_init := false |}.
Definition mk_disj_heap (cs : list searcher) (min : Z) : searcher :=
  SDisjH {| dh_s := cs; dh_min := min; dh_heap := []; dh_matching := []; dh_init := false |}.
Definition mk_bool (must should mustnot : option searcher) : searcher :=
  SBool {| b_must := must; b_should := should; b_mustnot := mustnot; b_cm := None; b_cs := None; b_cmn := None;
           b_cur := None; b_init := false; b_done := false |}.
Definition mk_phrase (must : searcher) (terms : list (list (list Z))) (slop : Z) : searcher :=
  SPhrase {| ph_must := must; ph_cm := None; ph_terms := terms; ph_slop := slop; ph_init := false |}.
Definition mk_filter (c : searcher) (accept : Z -> bool) : searcher :=
  SFilter {| fl_child := c; fl_accept := accept |}.

(* ---------- driving a searcher ---------- *)

(* the collectors call Next until it returns nil (search/collector/*.go) *)
Fixpoint run_loop (lf fuel : nat) (cnt : nat) (s : searcher) (acc : list Z) : res (list Z) :=
  match cnt with
  | O => OutOfFuel
  | S k =>
      x <- snext lf fuel s ;;
      match fst x with
      | None => Ok (rev acc)
      | Some m => run_loop lf fuel k (snd x) (dm_num m :: acc)
      end
  end.

(* a script of calls, for the iterator-contract correspondence *)
Inductive op := ONext | OAdvance (n : Z).

Fixpoint run_script (lf fuel : nat) (s : searcher) (ops : list op) : res (list (option Z)) :=
  match ops with
  | [] => Ok []
  | o :: r =>
      x <- match o with ONext => snext lf fuel s | OAdvance n => sadv lf fuel s n end ;;
      rest <- run_script lf fuel (snd x) r ;;
      Ok (option_map dm_num (fst x) :: rest)
  end.

(* ================= queries and their compilation to searchers (query.go) ================= *)

(* predicates of the multi-term leaves *)
Inductive tpred :=
| PPrefix (p : list Z)                                              (* PrefixQuery *)
| PRange (min max : option (list Z)) (incMin incMax : bool)         (* TermRangeQuery *)
| PNumRange (lo hi : Z) (il ih : bool)                              (* NumericRangeQuery / DateRangeQuery: float64 bit patterns *)
| PSet (ts : list (list Z)).                                        (* regexp / wildcard / fuzzy: the accepted terms (the automaton is not modelled) *)

Inductive query :=
| QTerm (f : Z) (t : list Z)
| QAll
| QNone
| QBool (must should mustnot : list query) (minShould : Z)
| QPhrase (f : Z) (terms : list (list (list Z))) (slop : Z)         (* MultiPhraseQuery; MatchPhraseQuery after analysis *)
| QMulti (f : Z) (p : tpred)
| QDocSet (nums : list Z) (ids : list Z).                           (* geo leaves: the ids of the accepted documents are supplied (geometry not modelled) *)

(* search.SearcherOptions / index.Config switches that change how queries compile *)
Record copts := { co_score_none : bool; co_tv : bool; co_conj : bool; co_conj_un : bool; co_disj_un : bool }.

Definition copts_default : copts :=
  {| co_score_none := false; co_tv := false; co_conj := true; co_conj_un := true; co_disj_un := true |}.

Definition with_tv (o : copts) : copts :=
  {| co_score_none := co_score_none o; co_tv := true; co_conj := co_conj o; co_conj_un := co_conj_un o; co_disj_un := co_disj_un o |}.

(* segment.Optimizable: a TermSearcher over a postings iterator, or a disjunction wrapping exactly one such *)
Definition as_opt_term (s : searcher) : option pit :=
  match s with
  | STerm _ _ it => Some it
  | SDisjS st => match ds_s st with [STerm _ _ it] => Some it | _ => None end
  | SDisjH st => match dh_s st with [STerm _ _ it] => Some it | _ => None end
  | _ => None
  end.

Fixpoint all_opt (cs : list searcher) : option (list pit) :=
  match cs with
  | [] => Some []
  | c :: r => match as_opt_term c, all_opt r with
              | Some it, Some its => Some (it :: its)
              | _, _ => None
              end
  end.

Definition pnums (l : list posting) : list Z := map p_num l.
Definition bare (n : Z) : posting := {| p_num := n; p_locs := [] |}.

(* per segment: the AND / OR of the children's bitmaps (index/optimize.go Finish) *)
Definition inter_seg (ls : list (list posting)) : list posting :=
  match ls with
  | [] => []
  | l0 :: r => map (fun p => bare (p_num p)) (filter (fun p => forallb (fun l => zmem (p_num p) (pnums l)) r) l0)
  end.
Definition union_seg (ls : list (list posting)) : list posting :=
  map bare (fold_right insert_pos [] (flat_map pnums ls)).

Definition seg_column (its : list pit) (k : nat) : list (list posting) := map (fun it => nth k (pi_iters it) []) its.

Definition unadorned_term : list Z := [].

Definition opt_unadorned (sn : snapshot) (combine : list (list posting) -> list posting) (its : list pit) : searcher :=
  STerm unadorned_term false (mk_pit_lists sn (map (fun k => combine (seg_column its k)) (seq 0 (length sn)))).

(* newDisjunctionSearcher (search_disjunction.go:47-69) *)
Definition new_disjunction (sn : snapshot) (o : copts) (cs : list searcher) (min : Z) : searcher :=
  let try := (1 <? length cs)%nat && (min <=? 1) && co_score_none o && negb (co_tv o) && co_disj_un o in
  match (if try then all_opt cs else None) with
  | Some its => opt_unadorned sn union_seg its
  | None =>
      if disjunction_heap_takeover <? Z.of_nat (length cs) then mk_disj_heap cs min else mk_disj_slice cs min
  end.

(* "conjunction" push-down (optimizeConjunction.Finish): every term child keeps only the
   documents present in all the term children of the same segment; a restart re-reads the full lists *)
Definition is_sterm (s : searcher) : bool := match s with STerm _ _ _ => true | _ => false end.
Definition and_replace (cs : list searcher) : list searcher :=
  let its := flat_map (fun c => match c with STerm _ _ it => [it] | _ => [] end) cs in
  map (fun c => match c with
                | STerm t wl it =>
                    STerm t wl {| pi_segs := pi_segs it;
                                  pi_iters := map (fun k => filter (fun p => forallb (fun l => zmem (p_num p) (pnums l)) (seg_column its k))
                                                                   (nth k (pi_iters it) []))
                                                  (seq 0 (length (pi_iters it)));
                                  pi_offs := pi_offs it; pi_segoff := pi_segoff it; pi_curr := pi_curr it |}
                | other => other
                end) cs.

(* NewConjunctionSearcher (search_conjunction.go:32-75); sort.Sort by Count() only permutes the
   children and is not modelled (the theorems hold for every order) *)
Definition new_conjunction (sn : snapshot) (o : copts) (cs : list searcher) : searcher :=
  let try_un := (1 <? length cs)%nat && co_score_none o && negb (co_tv o) && co_conj_un o in
  match (if try_un then all_opt cs else None) with
  | Some its => opt_unadorned sn inter_seg its
  | None =>
      if (1 <? length cs)%nat && co_conj o && forallb is_sterm cs then mk_conj (and_replace cs) else mk_conj cs
  end.

Definition term_searcher (sn : snapshot) (o : copts) (f : Z) (t : list Z) : searcher :=
  STerm t (co_tv o) (mk_pit sn f t).

(* NewMultiTermSearcher* -> newMultiTermSearcherInternal (search_multi_term.go) *)
Definition multi_term (sn : snapshot) (o : copts) (f : Z) (terms : list (list Z)) : searcher :=
  new_disjunction sn o (map (term_searcher sn o f) terms) multi_term_disjunction_min.

Definition nonempty_term (t : list Z) : bool := match t with [] => false | _ => true end.

Definition in_dict_range (start : list Z) (endT : option (list Z)) (t : list Z) : bool :=
  bytes_le start t && match endT with Some e => bytes_lt t e | None => true end.

(* the candidate terms of a multi-term leaf, from the merged dictionary *)
Definition multi_terms (sn : snapshot) (f : Z) (p : tpred) : res (option (list (list Z))) :=
  match p with
  | PPrefix pre =>
      (* NewTermPrefixSearcher: DictionaryIterator(field, nil, prefix, incrementBytes(prefix)) *)
      Ok (Some (filter (in_dict_range pre (Some (increment_bytes pre))) (dict_terms sn f)))
  | PRange mn mx incMin incMax =>
      (* NewTermRangeSearcher (search_term_range.go:21-66) *)
      let start := match mn with Some m => m | None => [] end in
      let endT := match mx with Some m => Some (if incMax then m ++ [0] else m) | None => None end in
      let terms := filter (in_dict_range start endT) (dict_terms sn f) in
      let inverted := match endT with Some e => bytes_le e start | None => false end in
      if inverted then Ok None   (* bytes.Compare(min, max) >= 0: match-none *)
      else
      match terms with
      | [] => Ok None
      | t0 :: r =>
          if negb incMin && bytes_eqb start t0
          then match r with [] => Ok None | _ => Ok (Some r) end
          else Ok (Some terms)
      end
  | PNumRange lo hi il ih =>
      let d := dict_terms sn f in   (* DictionaryLookup.Contains over the merged dictionary *)
      ts <- numeric_range_terms lo hi il ih (fun t => existsb (bytes_eqb t) d) ;; Ok (Some ts)
  | PSet ts => Ok (Some (filter (fun t => existsb (bytes_eqb t) ts) (dict_terms sn f)))
  end.

(* the external id of the live document with global number n (-1 when there is none) *)
Definition live_id_at (sn : snapshot) (n : Z) : Z :=
  match filter (fun p => fst p =? n) (live_docs sn) with
  | p :: _ => d_id (snd p)
  | [] => -1
  end.

Definition replace_none (s : option searcher) : option searcher :=
  match s with Some SNone => None | x => x end.

Fixpoint compile (sn : snapshot) (o : copts) (q : query) {struct q} : res searcher :=
  match q with
  | QTerm f t => Ok (term_searcher sn o f t)
  | QAll => Ok (SAll (mk_ait sn))
  | QNone => Ok SNone
  | QBool must should mustnot minShould =>
      let clist := fix clist (qs : list query) : res (list searcher) :=
                     match qs with
                     | [] => Ok []
                     | q1 :: r => s1 <- compile sn o q1 ;; ss <- clist r ;; Ok (s1 :: ss)
                     end in
      (* initPrimarySearchers (query.go:163-196) *)
      mn <- clist mustnot ;;
      m <- clist must ;;
      s <- clist should ;;
      let mustNotS := match mustnot with [] => None | _ => Some (new_disjunction sn o mn must_not_disjunction_min) end in
      let mustS := match must with [] => None | _ => Some (new_conjunction sn o m) end in
      let shouldS := match should with [] => None | _ => Some (new_disjunction sn o s minShould) end in
      (* Searcher (query.go:198-229) *)
      let mustS := replace_none mustS in
      let shouldS := replace_none shouldS in
      let mustNotS := replace_none mustNotS in
      match mustS, shouldS, mustNotS with
      | None, None, None => Ok SNone
      | None, None, Some _ => Ok (mk_bool (Some (SAll (mk_ait sn))) None mustNotS)
      | _, _, _ => Ok (mk_bool mustS shouldS mustNotS)
      end
  | QPhrase f terms slop =>
      (* NewSloppyMultiPhraseSearcher (search_phrase.go:64-131) *)
      let o' := with_tv o in
      let tps := flat_map (fun termPos =>
                   match termPos with
                   | [] => []
                   | [t] => if nonempty_term t then [term_searcher sn o' f t] else []
                   | _ => [new_disjunction sn o' (map (term_searcher sn o' f) (filter nonempty_term termPos))
                                           phrase_position_disjunction_min]
                   end) terms in
      Ok (mk_phrase (new_conjunction sn o' tps) terms slop)
  | QMulti f p =>
      ts <- multi_terms sn f p ;;
      match ts with
      | None => Ok SNone
      | Some terms => Ok (multi_term sn o f terms)
      end
  | QDocSet _ ids => Ok (mk_filter (SAll (mk_ait sn)) (fun n => zmem (live_id_at sn n) ids))
  end.

(* size measures used for the fuel *)
Fixpoint qsize (q : query) : nat :=
  match q with
  | QBool a b c _ =>
      let sz := fix sz (l : list query) : nat := match l with [] => O | x :: r => (qsize x + sz r)%nat end in
      S (sz a + sz b + sz c)
  | _ => 1%nat
  end.

Definition depth_fuel (q : query) : nat := (4 * qsize q + 8)%nat.

(* the largest number of children of any node *)
Fixpoint swidth (s : searcher) : nat :=
  let lmax := fix lmax (l : list searcher) : nat := match l with [] => O | x :: r => Nat.max (swidth x) (lmax r) end in
  match s with
  | SConj st => match st with Build_conj_st _ cs _ _ _ => Nat.max (length cs) (lmax cs) end
  | SDisjS st => match st with Build_dsl_st _ cs _ _ _ _ _ => Nat.max (length cs) (lmax cs) end
  | SDisjH st => match st with Build_dhp_st _ cs _ _ _ _ => Nat.max (length cs) (lmax cs) end
  | SBool st => match st with
                | Build_bool_st _ m sh mn _ _ _ _ _ _ =>
                    let o := fun x => match x with Some c => swidth c | None => O end in
                    Nat.max 3 (Nat.max (o m) (Nat.max (o sh) (o mn)))
                end
  | SPhrase st => match st with Build_phr_st _ c _ _ _ _ => Nat.max 1 (swidth c) end
  | SFilter st => match st with Build_flt_st _ c _ => Nat.max 1 (swidth c) end
  | _ => O
  end.

(* loop fuel: (documents + 2) * (width + 3)^2 covers the leap-frog loop of the widest conjunction
   ((w+2)((w+1)N) + w + 3 iterations, SearchersProofsConj.conj_fuel) and the candidate loops (N + 2) *)
Definition loop_fuel (sn : snapshot) (w : nat) : nat :=
  Z.to_nat ((total_docs sn + 2) * ((Z.of_nat w + 3) * (Z.of_nat w + 3))).

Definition run (sn : snapshot) (o : copts) (q : query) : res (list Z) :=
  s <- compile sn o q ;;
  run_loop (loop_fuel sn (swidth s)) (depth_fuel q) (S (Z.to_nat (total_docs sn))) s [].
