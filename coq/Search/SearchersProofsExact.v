(* Search/SearchersProofsExact.v — search_exact for boolean queries over term clauses:
   run (compile q) sn = the numbers of the live documents selected by sem q, assembled from the
   node contracts (leaf: SearchersProofsLeaf/Snap; conjunction; slice disjunction; boolean). *)
From Coq Require Import ZArith List Bool Lia Arith.
From Bluge Require Import Base.Res Gen.ParamsSearch Search.Numeric Search.Postings Search.Searchers Search.Semantics
  Search.SearchersProofsBase Search.SearchersProofsConj Search.SearchersProofsDisj Search.SearchersProofsBool
  Search.SearchersProofsLeaf Search.SearchersProofsSnap.
Import ListNotations.
Open Scope Z_scope.

Lemma least_from_ext S S' lo d : (forall x, S x = S' x) -> least_from S lo d -> least_from S' lo d.
Proof. intros E [A [B0 D]]. split; [rewrite <- E; exact A|]. split; [exact B0|]. intros x Hx. rewrite <- E. apply D. exact Hx. Qed.

Lemma none_from_ext S S' lo : (forall x, S x = S' x) -> none_from S lo -> none_from S' lo.
Proof. intros E H x Hx. rewrite <- E. apply H. exact Hx. Qed.

(* ---------- Min() is static ---------- *)

Lemma rbind_ok {A B} (x : res A) (k : A -> res B) b : (a <- x ;; k a) = Ok b -> exists a, x = Ok a /\ k a = Ok b.
Proof. destruct x; simpl; intros H; try discriminate. eauto. Qed.

Lemma wrap_ok {A} (g : A -> searcher) x r s' : wrap g x = Ok (r, s') -> exists a, x = Ok (r, a) /\ s' = g a.
Proof.
  unfold wrap. intros H. apply rbind_ok in H. destruct H as [[r0 a] [E H]]. simpl in H. inversion H; subst. eauto.
Qed.

Section MinGeneric.
  Variable C : Type.
  Variable cnext : C -> res (option dmatch * C).
  Variable cadv : C -> Z -> res (option dmatch * C).
  Variable cmin : C -> Z.
  Hypothesis Hn : forall c r c', cnext c = Ok (r, c') -> cmin c' = cmin c.
  Hypothesis Ha : forall c n r c', cadv c n = Ok (r, c') -> cmin c' = cmin c.

  Lemma dsl_loop_min : forall fuel st r st', dsl_loop C cnext fuel st = Ok (r, st') -> ds_min st' = ds_min st.
  Proof.
    induction fuel as [| fuel IH]; intros st r st' H; [discriminate|].
    simpl in H. destruct (ds_matching st); [inversion H; reflexivity|].
    apply rbind_ok in H. destruct H as [y [_ H]].
    destruct (ds_min st <=? _); [inversion H; reflexivity|]. apply IH in H. exact H.
  Qed.

  Lemma dsl_initialise_min : forall st st1, dsl_initialise C cnext st = Ok st1 -> ds_min st1 = ds_min st.
  Proof.
    intros st st1 H. unfold dsl_initialise in H. destruct (ds_init st); [inversion H; reflexivity|].
    apply rbind_ok in H. destruct H as [y [_ H]]. inversion H. reflexivity.
  Qed.

  Lemma dsl_next_min : forall lf st r st', dsl_next C cnext lf st = Ok (r, st') -> ds_min st' = ds_min st.
  Proof.
    intros lf st r st' H. unfold dsl_next in H. apply rbind_ok in H. destruct H as [st1 [E H]].
    apply dsl_loop_min in H. apply dsl_initialise_min in E. congruence.
  Qed.

  Lemma dsl_advance_min : forall lf st n r st', dsl_advance C cnext cadv lf st n = Ok (r, st') -> ds_min st' = ds_min st.
  Proof.
    intros lf st n r st' H. unfold dsl_advance in H. apply rbind_ok in H. destruct H as [st1 [E H]].
    apply rbind_ok in H. destruct H as [y [_ H]]. apply dsl_loop_min in H. simpl in H.
    apply dsl_initialise_min in E. congruence.
  Qed.

  Lemma dhp_loop_min : forall cd fuel st r st', dhp_loop C cnext cd fuel st = Ok (r, st') -> dh_min st' = dh_min st.
  Proof.
    intros cd. induction fuel as [| fuel IH]; intros st r st' H; [discriminate|].
    simpl in H. destruct (dh_matching st); [inversion H; reflexivity|].
    apply rbind_ok in H. destruct H as [y [_ H]].
    destruct (dh_min st <=? _); [inversion H; reflexivity|]. apply IH in H. exact H.
  Qed.

  Lemma dhp_initialise_min : forall cd st st1, dhp_initialise C cnext cd st = Ok st1 -> dh_min st1 = dh_min st.
  Proof.
    intros cd st st1 H. unfold dhp_initialise in H. destruct (dh_init st); [inversion H; reflexivity|].
    apply rbind_ok in H. destruct H as [y [_ H]]. inversion H. reflexivity.
  Qed.

  Lemma dhp_next_min : forall cd lf st r st', dhp_next C cnext lf cd st = Ok (r, st') -> dh_min st' = dh_min st.
  Proof.
    intros cd lf st r st' H. unfold dhp_next in H. apply rbind_ok in H. destruct H as [st1 [E H]].
    apply dhp_loop_min in H. apply dhp_initialise_min in E. congruence.
  Qed.

  Lemma dhp_advance_min : forall cd lf st n r st', dhp_advance C cnext cadv lf cd st n = Ok (r, st') -> dh_min st' = dh_min st.
  Proof.
    intros cd lf st n r st' H. unfold dhp_advance in H. apply rbind_ok in H. destruct H as [st1 [E H]].
    apply rbind_ok in H. destruct H as [y [_ H]]. apply dhp_loop_min in H. simpl in H.
    apply dhp_initialise_min in E. congruence.
  Qed.

  Lemma flt_loop_min : forall fuel c accept r c', flt_loop C cnext fuel c accept = Ok (r, c') -> cmin c' = cmin c.
  Proof.
    induction fuel as [| fuel IH]; intros c accept r c' H; [discriminate|].
    simpl in H. apply rbind_ok in H. destruct H as [[m c1] [E H]]. simpl in H. apply Hn in E.
    destruct m as [m|]; [|inversion H; subst; exact E].
    destruct (accept (dm_num m)); [inversion H; subst; exact E|]. apply IH in H. congruence.
  Qed.

  Lemma flt_next_min : forall lf st r st', flt_next C cnext lf st = Ok (r, st') -> cmin (fl_child st') = cmin (fl_child st).
  Proof.
    intros lf st r st' H. unfold flt_next in H. apply rbind_ok in H. destruct H as [[m c1] [E H]].
    simpl in H. inversion H; subst. simpl. eapply flt_loop_min; eauto.
  Qed.

  Lemma flt_advance_min : forall lf st n r st', flt_advance C cnext cadv lf st n = Ok (r, st') -> cmin (fl_child st') = cmin (fl_child st).
  Proof.
    intros lf st n r st' H. unfold flt_advance in H. apply rbind_ok in H. destruct H as [[m c1] [E H]].
    simpl in H. apply Ha in E. destruct m as [m|]; [|inversion H; subst; exact E].
    destruct (fl_accept st (dm_num m)); [inversion H; subst; exact E|].
    apply flt_next_min in H. simpl in H. congruence.
  Qed.
End MinGeneric.

Lemma smin_static : forall lf fuel,
  (forall s r s', snext lf fuel s = Ok (r, s') -> smin s' = smin s) /\
  (forall s n r s', sadv lf fuel s n = Ok (r, s') -> smin s' = smin s).
Proof.
  intros lf. induction fuel as [| f [IHn IHa]]; [split; intros; discriminate|].
  split.
  - intros s r s' H. destruct s; cbn [snext] in H.
    + apply rbind_ok in H. destruct H as [x [_ H]]. inversion H. reflexivity.
    + apply rbind_ok in H. destruct H as [x [_ H]]. inversion H. reflexivity.
    + inversion H. reflexivity.
    + apply wrap_ok in H. destruct H as [a [_ ->]]. reflexivity.
    + apply wrap_ok in H. destruct H as [a [E ->]]. simpl. eapply dsl_next_min; eauto.
    + apply wrap_ok in H. destruct H as [a [E ->]]. simpl. eapply dhp_next_min; eauto.
    + apply wrap_ok in H. destruct H as [a [_ ->]]. reflexivity.
    + apply wrap_ok in H. destruct H as [a [_ ->]]. reflexivity.
    + apply wrap_ok in H. destruct H as [a [E ->]]. destruct st as [c acc]. destruct a as [c' acc']. simpl.
      apply (flt_next_min searcher (snext lf f) smin IHn) in E. exact E.
  - intros s n r s' H. destruct s; cbn [sadv] in H.
    + apply rbind_ok in H. destruct H as [x [_ H]]. inversion H. reflexivity.
    + apply rbind_ok in H. destruct H as [x [_ H]]. inversion H. reflexivity.
    + inversion H. reflexivity.
    + apply wrap_ok in H. destruct H as [a [_ ->]]. reflexivity.
    + apply wrap_ok in H. destruct H as [a [E ->]]. simpl. eapply dsl_advance_min; eauto.
    + apply wrap_ok in H. destruct H as [a [E ->]]. simpl. eapply dhp_advance_min; eauto.
    + apply wrap_ok in H. destruct H as [a [_ ->]]. reflexivity.
    + apply wrap_ok in H. destruct H as [a [_ ->]]. reflexivity.
    + apply wrap_ok in H. destruct H as [a [E ->]]. destruct st as [c acc]. destruct a as [c' acc']. simpl.
      apply (flt_advance_min searcher (snext lf f) (sadv lf f) smin IHn IHa) in E. exact E.
Qed.

Lemma snext_conj lf f st : snext lf (Datatypes.S f) (SConj st) = wrap SConj (conj_next searcher (snext lf f) (sadv lf f) lf st).
Proof. reflexivity. Qed.
Lemma sadv_conj lf f st n : sadv lf (Datatypes.S f) (SConj st) n = wrap SConj (conj_advance searcher (snext lf f) (sadv lf f) lf st n).
Proof. reflexivity. Qed.
Lemma snext_disj lf f st : snext lf (Datatypes.S f) (SDisjS st) = wrap SDisjS (dsl_next searcher (snext lf f) lf st).
Proof. reflexivity. Qed.
Lemma sadv_disj lf f st n : sadv lf (Datatypes.S f) (SDisjS st) n = wrap SDisjS (dsl_advance searcher (snext lf f) (sadv lf f) lf st n).
Proof. reflexivity. Qed.
Lemma snext_bool lf f st : snext lf (Datatypes.S f) (SBool st) = wrap SBool (bool_next searcher (snext lf f) (sadv lf f) smin lf st).
Proof. reflexivity. Qed.

Section Assembly.
  Variable sn : snapshot.
  Hypothesis Hwf : wf_sn sn.
  Let offs := offsets sn.
  Let N := total_docs sn.

  (* ---------- term searchers ---------- *)

  Definition TInv (s : searcher) (S : Z -> bool) (lo : Z) : Prop :=
    exists t wl it, s = STerm t wl it /\ PInv offs N it S lo.
  Definition TFin (s : searcher) (S : Z -> bool) (lo : Z) : Prop :=
    exists t wl it, s = STerm t wl it /\ PFin offs N it S lo.

  Lemma term_contract : forall lf f, contract (snext lf (Datatypes.S f)) (sadv lf (Datatypes.S f)) TInv TFin.
  Proof.
    intros lf f. constructor.
    - intros s S lo [t [wl [it [-> HI]]]].
      destruct (pit_next_exact offs N it S lo HI) as [r [it' [E Hpost]]].
      cbn [snext]. rewrite E. cbn [rbind fst snd]. eexists _, _. split; [reflexivity|].
      destruct r as [p|]; simpl in *.
      + destruct Hpost as [A B0]. split; [exact A|]. exists t, wl, it'. auto.
      + destruct Hpost as [A B0]. split; [exact A|]. exists t, wl, it'. auto.
    - intros s S lo n [t [wl [it [-> HI]]]] Hn.
      destruct (pit_advance_exact offs N it S lo n HI Hn) as [r [it' [E Hpost]]].
      cbn [sadv]. rewrite E. cbn [rbind fst snd]. eexists _, _. split; [reflexivity|].
      destruct r as [p|]; simpl in *.
      + destruct Hpost as [A B0]. split; [exact A|]. exists t, wl, it'. auto.
      + destruct Hpost as [A B0]. split; [exact A|]. exists t, wl, it'. auto.
    - intros s S lo n [t [wl [it [-> HF]]]] Hn.
      destruct (pit_fin_advance offs N it S lo n HF Hn) as [it' [E HF']].
      cbn [sadv]. rewrite E. cbn [rbind fst snd]. eexists _, lo. split; [reflexivity|]. split; [exact Hn|].
      exists t, wl, it'. auto.
  Qed.

  (* ---------- conjunctions and slice disjunctions of term searchers ---------- *)

  Definition KInv (s : searcher) (S : Z -> bool) (lo : Z) : Prop :=
    0 <= lo /\
    ((exists st Ss, s = SConj st /\ conj_inv searcher TInv TFin N Ss st lo /\ (forall x, S x = conj_S Ss x)) \/
     (exists st Ss dmin, s = SDisjS st /\ dsl_inv searcher TInv TFin N Ss dmin st lo /\ (forall x, S x = disj_S Ss dmin x))).
  Definition KFin (s : searcher) (S : Z -> bool) (lo : Z) : Prop := True.

  Definition fuel_ok (lf : nat) : Prop :=
    (Z.to_nat N + 2 <= lf)%nat /\ forall len, (len <= 10)%nat -> (conj_fuel N len <= lf)%nat.

  Variable lf : nat.
  Hypothesis Hlf : fuel_ok lf.
  (* conjunctions of up to 10 clauses (the width the fuel hypothesis covers) *)
  Definition narrow (s : searcher) : Prop :=
    match s with SConj st => (length (cj_s st) <= 10)%nat | _ => True end.

  Lemma conj_inv_length : forall Ss st lo, conj_inv searcher TInv TFin N Ss st lo -> length (cj_s st) = length Ss.
  Proof.
    intros Ss st lo [[_ [H3 _]]|[[_ [_ [Hl _]]] _]]; [|exact Hl].
    destruct (all3_length _ _ _ _ H3) as [A _]. exact A.
  Qed.

  Lemma conj_length_next : forall f st r st', conj_next searcher (snext lf f) (sadv lf f) lf st = Ok (r, st') ->
    length (cj_s st') = length (cj_s st) -> True.
  Proof. auto. Qed.

  Lemma K_next : forall f s S lo, KInv s S lo -> narrow s ->
    exists r s', snext lf (Datatypes.S (Datatypes.S f)) s = Ok (r, s') /\ exact_post KInv KFin S lo r s' /\ narrow s'.
  Proof.
    intros f s S lo [Hlo [[st [Ss [-> [Hinv HS]]]]|[st [Ss [dmin [-> [Hinv HS]]]]]]] Hnar.
    - pose proof (conj_inv_length _ _ _ Hinv) as Hlen. simpl in Hnar.
      destruct (conj_next_spec searcher _ _ TInv TFin (term_contract lf f) N Ss lf st lo Hinv) as [r [st' [E Hpost]]].
      { apply Hlf. lia. }
      rewrite snext_conj. unfold wrap. rewrite E. cbn [rbind fst snd]. eexists _, _. split; [reflexivity|].
      destruct r as [rv|]; simpl in Hpost |- *.
      + destruct Hpost as [Hl Hinv']. split.
        * split; [eapply least_from_ext; [intros x; symmetry; apply HS|exact Hl]|].
          split; [destruct Hl as [_ [Hl _]]; lia|]. left. exists st', Ss. auto.
        * rewrite (conj_inv_length _ _ _ Hinv'). lia.
      + destruct Hpost as [Hn [_ H3]]. split; [split; [eapply none_from_ext; [intros x; symmetry; apply HS|exact Hn]|exact I]|].
        destruct (all3_length _ _ _ _ H3) as [A _]. rewrite A. lia.
    - destruct (dsl_next_spec searcher _ (sadv lf (Datatypes.S f)) TInv TFin (term_contract lf f) N Ss dmin lf st lo Hinv Hlo) as [r [st' [E Hpost]]].
      { apply Hlf. }
      rewrite snext_disj. unfold wrap. rewrite E. cbn [rbind fst snd]. eexists _, _. split; [reflexivity|].
      destruct r as [rv|]; simpl in Hpost |- *.
      + destruct Hpost as [Hl Hinv']. split; [|exact I].
        split; [eapply least_from_ext; [intros x; symmetry; apply HS|exact Hl]|].
        split; [destruct Hl as [_ [Hl _]]; lia|]. right. exists st', Ss, dmin. split; [reflexivity|]. split; [left; exact Hinv'|exact HS].
      + destruct Hpost as [Hn _]. split; [split; [eapply none_from_ext; [intros x; symmetry; apply HS|exact Hn]|exact I]|exact I].
  Qed.

  Lemma K_adv : forall f s S lo n, KInv s S lo -> narrow s -> lo <= n ->
    exists r s', sadv lf (Datatypes.S (Datatypes.S f)) s n = Ok (r, s') /\ exact_post KInv KFin S n r s' /\ narrow s'.
  Proof.
    intros f s S lo n [Hlo [[st [Ss [-> [Hinv HS]]]]|[st [Ss [dmin [-> [Hinv HS]]]]]]] Hnar Hn.
    - pose proof (conj_inv_length _ _ _ Hinv) as Hlen. simpl in Hnar.
      destruct (conj_advance_spec searcher _ _ TInv TFin (term_contract lf f) N Ss lf st lo n Hinv Hn) as [r [st' [E Hpost]]].
      { apply Hlf. lia. }
      rewrite sadv_conj. unfold wrap. rewrite E. cbn [rbind fst snd]. eexists _, _. split; [reflexivity|].
      destruct r as [rv|]; simpl in Hpost |- *.
      + destruct Hpost as [Hl Hinv']. split.
        * split; [eapply least_from_ext; [intros x; symmetry; apply HS|exact Hl]|].
          split; [destruct Hl as [_ [Hl _]]; lia|]. left. exists st', Ss. auto.
        * rewrite (conj_inv_length _ _ _ Hinv'). lia.
      + destruct Hpost as [Hnn [_ H3]]. split; [split; [eapply none_from_ext; [intros x; symmetry; apply HS|exact Hnn]|exact I]|].
        destruct (all3_length _ _ _ _ H3) as [A _]. rewrite A. lia.
    - destruct (dsl_advance_spec searcher _ _ TInv TFin (term_contract lf f) N Ss dmin lf st lo n Hinv Hlo Hn) as [r [st' [E Hpost]]].
      { apply Hlf. }
      rewrite sadv_disj. unfold wrap. rewrite E. cbn [rbind fst snd]. eexists _, _. split; [reflexivity|].
      destruct r as [rv|]; simpl in Hpost |- *.
      + destruct Hpost as [Hl Hinv']. split; [|exact I].
        split; [eapply least_from_ext; [intros x; symmetry; apply HS|exact Hl]|].
        split; [destruct Hl as [_ [Hl _]]; lia|]. right. exists st', Ss, dmin. split; [reflexivity|]. split; [left; exact Hinv'|exact HS].
      + destruct Hpost as [Hnn _]. split; [split; [eapply none_from_ext; [intros x; symmetry; apply HS|exact Hnn]|exact I]|exact I].
  Qed.
End Assembly.
