(* Search/SearchersProofsExact.v — search_exact for boolean queries over term clauses:
   run (compile q) sn = the numbers of the live documents selected by sem q, assembled from the
   node contracts (leaf: SearchersProofsLeaf/Snap; conjunction; slice disjunction; boolean). *)
From Coq Require Import ZArith List Bool Lia Arith.
From Bluge Require Import Base.Res Gen.ParamsSearch Search.Numeric Search.Postings Search.Searchers Search.Semantics Search.SearchersProofs
  Search.SearchersProofsBase Search.SearchersProofsConj Search.SearchersProofsDisj Search.SearchersProofsBool
  Search.SearchersProofsLeaf Search.SearchersProofsSnap.
Import ListNotations.
Open Scope Z_scope.

Lemma least_from_ext S S' lo d : (forall x, S x = S' x) -> least_from S lo d -> least_from S' lo d.
Proof. intros E [A [B0 D]]. split; [rewrite <- E; exact A|]. split; [exact B0|]. intros x Hx. rewrite <- E. apply D. exact Hx. Qed.

Lemma none_from_ext S S' lo : (forall x, S x = S' x) -> none_from S lo -> none_from S' lo.
Proof. intros E H x Hx. rewrite <- E. apply H. exact Hx. Qed.

(* ---------- Min() is static ---------- *)

Lemma rbind_ok {A B} (x : res A) (k : A -> res B) b : (a <- x ;; k a) = Ok b -> exists a, x = Ok a /\ k a = Ok b.
Proof. destruct x; simpl; intros H; try discriminate. eauto. Qed.

Lemma wrap_ok {A} (g : A -> searcher) x r s' : wrap g x = Ok (r, s') -> exists a, x = Ok (r, a) /\ s' = g a.
Proof.
  unfold wrap. intros H. apply rbind_ok in H. destruct H as [[r0 a] [E H]]. simpl in H. inversion H; subst. eauto.
Qed.

Section MinGeneric.
  Variable C : Type.
  Variable cnext : C -> res (option dmatch * C).
  Variable cadv : C -> Z -> res (option dmatch * C).
  Variable cmin : C -> Z.
  Hypothesis Hn : forall c r c', cnext c = Ok (r, c') -> cmin c' = cmin c.
  Hypothesis Ha : forall c n r c', cadv c n = Ok (r, c') -> cmin c' = cmin c.

  Lemma dsl_loop_min : forall fuel st r st', dsl_loop C cnext fuel st = Ok (r, st') -> ds_min st' = ds_min st.
  Proof.
    induction fuel as [| fuel IH]; intros st r st' H; [discriminate|].
    simpl in H. destruct (ds_matching st); [inversion H; reflexivity|].
    apply rbind_ok in H. destruct H as [y [_ H]].
    destruct (ds_min st <=? _); [inversion H; reflexivity|]. apply IH in H. exact H.
  Qed.

  Lemma dsl_initialise_min : forall st st1, dsl_initialise C cnext st = Ok st1 -> ds_min st1 = ds_min st.
  Proof.
    intros st st1 H. unfold dsl_initialise in H. destruct (ds_init st); [inversion H; reflexivity|].
    apply rbind_ok in H. destruct H as [y [_ H]]. inversion H. reflexivity.
  Qed.

  Lemma dsl_next_min : forall lf st r st', dsl_next C cnext lf st = Ok (r, st') -> ds_min st' = ds_min st.
  Proof.
    intros lf st r st' H. unfold dsl_next in H. apply rbind_ok in H. destruct H as [st1 [E H]].
    apply dsl_loop_min in H. apply dsl_initialise_min in E. congruence.
  Qed.

  Lemma dsl_advance_min : forall lf st n r st', dsl_advance C cnext cadv lf st n = Ok (r, st') -> ds_min st' = ds_min st.
  Proof.
    intros lf st n r st' H. unfold dsl_advance in H. apply rbind_ok in H. destruct H as [st1 [E H]].
    apply rbind_ok in H. destruct H as [y [_ H]]. apply dsl_loop_min in H. simpl in H.
    apply dsl_initialise_min in E. congruence.
  Qed.

  Lemma dhp_loop_min : forall cd fuel st r st', dhp_loop C cnext cd fuel st = Ok (r, st') -> dh_min st' = dh_min st.
  Proof.
    intros cd. induction fuel as [| fuel IH]; intros st r st' H; [discriminate|].
    simpl in H. destruct (dh_matching st); [inversion H; reflexivity|].
    apply rbind_ok in H. destruct H as [y [_ H]].
    destruct (dh_min st <=? _); [inversion H; reflexivity|]. apply IH in H. exact H.
  Qed.

  Lemma dhp_initialise_min : forall cd st st1, dhp_initialise C cnext cd st = Ok st1 -> dh_min st1 = dh_min st.
  Proof.
    intros cd st st1 H. unfold dhp_initialise in H. destruct (dh_init st); [inversion H; reflexivity|].
    apply rbind_ok in H. destruct H as [y [_ H]]. inversion H. reflexivity.
  Qed.

  Lemma dhp_next_min : forall cd lf st r st', dhp_next C cnext lf cd st = Ok (r, st') -> dh_min st' = dh_min st.
  Proof.
    intros cd lf st r st' H. unfold dhp_next in H. apply rbind_ok in H. destruct H as [st1 [E H]].
    apply dhp_loop_min in H. apply dhp_initialise_min in E. congruence.
  Qed.

  Lemma dhp_advance_min : forall cd lf st n r st', dhp_advance C cnext cadv lf cd st n = Ok (r, st') -> dh_min st' = dh_min st.
  Proof.
    intros cd lf st n r st' H. unfold dhp_advance in H. apply rbind_ok in H. destruct H as [st1 [E H]].
    apply rbind_ok in H. destruct H as [y [_ H]]. apply dhp_loop_min in H. simpl in H.
    apply dhp_initialise_min in E. congruence.
  Qed.

  Lemma flt_loop_min : forall fuel c accept r c', flt_loop C cnext fuel c accept = Ok (r, c') -> cmin c' = cmin c.
  Proof.
    induction fuel as [| fuel IH]; intros c accept r c' H; [discriminate|].
    simpl in H. apply rbind_ok in H. destruct H as [[m c1] [E H]]. simpl in H. apply Hn in E.
    destruct m as [m|]; [|inversion H; subst; exact E].
    destruct (accept (dm_num m)); [inversion H; subst; exact E|]. apply IH in H. congruence.
  Qed.

  Lemma flt_next_min : forall lf st r st', flt_next C cnext lf st = Ok (r, st') -> cmin (fl_child st') = cmin (fl_child st).
  Proof.
    intros lf st r st' H. unfold flt_next in H. apply rbind_ok in H. destruct H as [[m c1] [E H]].
    simpl in H. inversion H; subst. simpl. eapply flt_loop_min; eauto.
  Qed.

  Lemma flt_advance_min : forall lf st n r st', flt_advance C cnext cadv lf st n = Ok (r, st') -> cmin (fl_child st') = cmin (fl_child st).
  Proof.
    intros lf st n r st' H. unfold flt_advance in H. apply rbind_ok in H. destruct H as [[m c1] [E H]].
    simpl in H. apply Ha in E. destruct m as [m|]; [|inversion H; subst; exact E].
    destruct (fl_accept st (dm_num m)); [inversion H; subst; exact E|].
    apply flt_next_min in H. simpl in H. congruence.
  Qed.
End MinGeneric.

Lemma smin_static : forall lf fuel,
  (forall s r s', snext lf fuel s = Ok (r, s') -> smin s' = smin s) /\
  (forall s n r s', sadv lf fuel s n = Ok (r, s') -> smin s' = smin s).
Proof.
  intros lf. induction fuel as [| f [IHn IHa]]; [split; intros; discriminate|].
  split.
  - intros s r s' H. destruct s; cbn [snext] in H.
    + apply rbind_ok in H. destruct H as [x [_ H]]. inversion H. reflexivity.
    + apply rbind_ok in H. destruct H as [x [_ H]]. inversion H. reflexivity.
    + inversion H. reflexivity.
    + apply wrap_ok in H. destruct H as [a [_ ->]]. reflexivity.
    + apply wrap_ok in H. destruct H as [a [E ->]]. simpl. eapply dsl_next_min; eauto.
    + apply wrap_ok in H. destruct H as [a [E ->]]. simpl. eapply dhp_next_min; eauto.
    + apply wrap_ok in H. destruct H as [a [_ ->]]. reflexivity.
    + apply wrap_ok in H. destruct H as [a [_ ->]]. reflexivity.
    + apply wrap_ok in H. destruct H as [a [E ->]]. destruct st as [c acc]. destruct a as [c' acc']. simpl.
      apply (flt_next_min searcher (snext lf f) smin IHn) in E. exact E.
  - intros s n r s' H. destruct s; cbn [sadv] in H.
    + apply rbind_ok in H. destruct H as [x [_ H]]. inversion H. reflexivity.
    + apply rbind_ok in H. destruct H as [x [_ H]]. inversion H. reflexivity.
    + inversion H. reflexivity.
    + apply wrap_ok in H. destruct H as [a [_ ->]]. reflexivity.
    + apply wrap_ok in H. destruct H as [a [E ->]]. simpl. eapply dsl_advance_min; eauto.
    + apply wrap_ok in H. destruct H as [a [E ->]]. simpl. eapply dhp_advance_min; eauto.
    + apply wrap_ok in H. destruct H as [a [_ ->]]. reflexivity.
    + apply wrap_ok in H. destruct H as [a [_ ->]]. reflexivity.
    + apply wrap_ok in H. destruct H as [a [E ->]]. destruct st as [c acc]. destruct a as [c' acc']. simpl.
      apply (flt_advance_min searcher (snext lf f) (sadv lf f) smin IHn IHa) in E. exact E.
Qed.

Lemma snext_conj lf f st : snext lf (Datatypes.S f) (SConj st) = wrap SConj (conj_next searcher (snext lf f) (sadv lf f) lf st).
Proof. reflexivity. Qed.
Lemma sadv_conj lf f st n : sadv lf (Datatypes.S f) (SConj st) n = wrap SConj (conj_advance searcher (snext lf f) (sadv lf f) lf st n).
Proof. reflexivity. Qed.
Lemma snext_disj lf f st : snext lf (Datatypes.S f) (SDisjS st) = wrap SDisjS (dsl_next searcher (snext lf f) lf st).
Proof. reflexivity. Qed.
Lemma sadv_disj lf f st n : sadv lf (Datatypes.S f) (SDisjS st) n = wrap SDisjS (dsl_advance searcher (snext lf f) (sadv lf f) lf st n).
Proof. reflexivity. Qed.
Lemma snext_bool lf f st : snext lf (Datatypes.S f) (SBool st) = wrap SBool (bool_next searcher (snext lf f) (sadv lf f) smin lf st).
Proof. reflexivity. Qed.

Fixpoint zseq (lo : Z) (cnt : nat) : list Z :=
  match cnt with O => [] | Datatypes.S k => lo :: zseq (lo + 1) k end.

Lemma zseq_In : forall cnt lo x, In x (zseq lo cnt) <-> lo <= x < lo + Z.of_nat cnt.
Proof.
  induction cnt as [| k IH]; intros lo x; simpl; [lia|]. rewrite IH. lia.
Qed.

Lemma zseq_app : forall a lo b, zseq lo (a + b) = zseq lo a ++ zseq (lo + Z.of_nat a) b.
Proof.
  induction a as [| a IH]; intros lo b; simpl.
  - replace (lo + 0) with lo by lia. reflexivity.
  - rewrite IH. f_equal. f_equal. f_equal. lia.
Qed.

Section Assembly.
  Variable sn : snapshot.
  Hypothesis Hwf : wf_sn sn.
  Let offs := offsets sn.
  Let N := total_docs sn.

  (* ---------- term searchers ---------- *)

  Definition TInv (s : searcher) (S : Z -> bool) (lo : Z) : Prop :=
    exists t wl it, s = STerm t wl it /\ PInv offs N it S lo.
  Definition TFin (s : searcher) (S : Z -> bool) (lo : Z) : Prop :=
    exists t wl it, s = STerm t wl it /\ PFin offs N it S lo.

  Lemma term_contract : forall lf f, contract (snext lf (Datatypes.S f)) (sadv lf (Datatypes.S f)) TInv TFin.
  Proof.
    intros lf f. constructor.
    - intros s S lo [t [wl [it [-> HI]]]].
      destruct (pit_next_exact offs N it S lo HI) as [r [it' [E Hpost]]].
      cbn [snext]. rewrite E. cbn [rbind fst snd]. eexists _, _. split; [reflexivity|].
      destruct r as [p|]; simpl in *.
      + destruct Hpost as [A B0]. split; [exact A|]. exists t, wl, it'. auto.
      + destruct Hpost as [A B0]. split; [exact A|]. exists t, wl, it'. auto.
    - intros s S lo n [t [wl [it [-> HI]]]] Hn.
      destruct (pit_advance_exact offs N it S lo n HI Hn) as [r [it' [E Hpost]]].
      cbn [sadv]. rewrite E. cbn [rbind fst snd]. eexists _, _. split; [reflexivity|].
      destruct r as [p|]; simpl in *.
      + destruct Hpost as [A B0]. split; [exact A|]. exists t, wl, it'. auto.
      + destruct Hpost as [A B0]. split; [exact A|]. exists t, wl, it'. auto.
    - intros s S lo n [t [wl [it [-> HF]]]] Hn.
      destruct (pit_fin_advance offs N it S lo n HF Hn) as [it' [E HF']].
      cbn [sadv]. rewrite E. cbn [rbind fst snd]. eexists _, lo. split; [reflexivity|]. split; [exact Hn|].
      exists t, wl, it'. auto.
  Qed.

  Definition TNew (s : searcher) (S : Z -> bool) : Prop := TInv s S 0.
  Lemma term_new : forall lf f, new_exact (snext lf (Datatypes.S f)) TInv TFin TNew.
  Proof. intros lf f c S H. exact (ct_next _ _ _ _ _ (term_contract lf f) c S 0 H). Qed.

  (* ---------- conjunctions and slice disjunctions of term searchers ---------- *)

  Definition KInv (s : searcher) (S : Z -> bool) (lo : Z) : Prop :=
    0 <= lo /\
    ((exists st Ss, s = SConj st /\ conj_inv searcher TInv TFin TNew N Ss st lo /\ (forall x, S x = conj_S Ss x)) \/
     (exists st Ss dmin, s = SDisjS st /\ dsl_inv searcher TInv TFin TNew N Ss dmin st lo /\ (forall x, S x = disj_S Ss dmin x))).
  Definition KFin (s : searcher) (S : Z -> bool) (lo : Z) : Prop := True.

  Variable W : nat.   (* a bound on the number of clauses of a conjunction *)
  Definition fuel_ok (lf : nat) : Prop :=
    (Z.to_nat N + 2 <= lf)%nat /\ forall len, (len <= W)%nat -> (conj_fuel N len <= lf)%nat.

  Variable lf : nat.
  Hypothesis Hlf : fuel_ok lf.
  (* conjunctions of up to W clauses (the width the fuel hypothesis covers) *)
  Definition narrow (s : searcher) : Prop :=
    match s with SConj st => (length (cj_s st) <= W)%nat | _ => True end.

  Lemma conj_inv_length : forall Ss st lo, conj_inv searcher TInv TFin TNew N Ss st lo -> length (cj_s st) = length Ss.
  Proof.
    intros Ss st lo [[_ [H3 _]]|[[_ [_ [Hl _]]] _]]; [|exact Hl].
    destruct (all3_length _ _ _ _ H3) as [A _]. exact A.
  Qed.

  Lemma conj_length_next : forall f st r st', conj_next searcher (snext lf f) (sadv lf f) lf st = Ok (r, st') ->
    length (cj_s st') = length (cj_s st) -> True.
  Proof. auto. Qed.

  Lemma K_next : forall f s S lo, KInv s S lo -> narrow s ->
    exists r s', snext lf (Datatypes.S (Datatypes.S f)) s = Ok (r, s') /\ exact_post KInv KFin S lo r s' /\ narrow s'.
  Proof.
    intros f s S lo [Hlo [[st [Ss [-> [Hinv HS]]]]|[st [Ss [dmin [-> [Hinv HS]]]]]]] Hnar.
    - pose proof (conj_inv_length _ _ _ Hinv) as Hlen. simpl in Hnar.
      destruct (conj_next_spec searcher _ _ TInv TFin (term_contract lf f) TNew (term_new lf f) N Ss lf st lo Hinv) as [r [st' [E Hpost]]].
      { apply Hlf. lia. }
      rewrite snext_conj. unfold wrap. rewrite E. cbn [rbind fst snd]. eexists _, _. split; [reflexivity|].
      destruct r as [rv|]; simpl in Hpost |- *.
      + destruct Hpost as [Hl Hinv']. split.
        * split; [eapply least_from_ext; [intros x; symmetry; apply HS|exact Hl]|].
          split; [destruct Hl as [_ [Hl _]]; lia|]. left. exists st', Ss. auto.
        * rewrite (conj_inv_length _ _ _ Hinv'). lia.
      + destruct Hpost as [Hn [_ H3]]. split; [split; [eapply none_from_ext; [intros x; symmetry; apply HS|exact Hn]|exact I]|].
        destruct (all3_length _ _ _ _ H3) as [A _]. rewrite A. lia.
    - destruct (dsl_next_spec searcher _ (sadv lf (Datatypes.S f)) TInv TFin (term_contract lf f) TNew (term_new lf f) N Ss dmin lf st lo Hinv Hlo) as [r [st' [E Hpost]]].
      { apply Hlf. }
      rewrite snext_disj. unfold wrap. rewrite E. cbn [rbind fst snd]. eexists _, _. split; [reflexivity|].
      destruct r as [rv|]; simpl in Hpost |- *.
      + destruct Hpost as [Hl Hinv']. split; [|exact I].
        split; [eapply least_from_ext; [intros x; symmetry; apply HS|exact Hl]|].
        split; [destruct Hl as [_ [Hl _]]; lia|]. right. exists st', Ss, dmin. split; [reflexivity|]. split; [left; exact Hinv'|exact HS].
      + destruct Hpost as [Hn _]. split; [split; [eapply none_from_ext; [intros x; symmetry; apply HS|exact Hn]|exact I]|exact I].
  Qed.

  Lemma K_adv : forall f s S lo n, KInv s S lo -> narrow s -> lo <= n ->
    exists r s', sadv lf (Datatypes.S (Datatypes.S f)) s n = Ok (r, s') /\ exact_post KInv KFin S n r s' /\ narrow s'.
  Proof.
    intros f s S lo n [Hlo [[st [Ss [-> [Hinv HS]]]]|[st [Ss [dmin [-> [Hinv HS]]]]]]] Hnar Hn.
    - pose proof (conj_inv_length _ _ _ Hinv) as Hlen. simpl in Hnar.
      destruct (conj_advance_spec searcher _ _ TInv TFin (term_contract lf f) TNew (term_new lf f) N Ss lf st lo n Hinv Hn) as [r [st' [E Hpost]]].
      { apply Hlf. lia. }
      rewrite sadv_conj. unfold wrap. rewrite E. cbn [rbind fst snd]. eexists _, _. split; [reflexivity|].
      destruct r as [rv|]; simpl in Hpost |- *.
      + destruct Hpost as [Hl Hinv']. split.
        * split; [eapply least_from_ext; [intros x; symmetry; apply HS|exact Hl]|].
          split; [destruct Hl as [_ [Hl _]]; lia|]. left. exists st', Ss. auto.
        * rewrite (conj_inv_length _ _ _ Hinv'). lia.
      + destruct Hpost as [Hnn [_ H3]]. split; [split; [eapply none_from_ext; [intros x; symmetry; apply HS|exact Hnn]|exact I]|].
        destruct (all3_length _ _ _ _ H3) as [A _]. rewrite A. lia.
    - destruct (dsl_advance_spec searcher _ _ TInv TFin (term_contract lf f) TNew (term_new lf f) N Ss dmin lf st lo n Hinv Hlo Hn) as [r [st' [E Hpost]]].
      { apply Hlf. }
      rewrite sadv_disj. unfold wrap. rewrite E. cbn [rbind fst snd]. eexists _, _. split; [reflexivity|].
      destruct r as [rv|]; simpl in Hpost |- *.
      + destruct Hpost as [Hl Hinv']. split; [|exact I].
        split; [eapply least_from_ext; [intros x; symmetry; apply HS|exact Hl]|].
        split; [destruct Hl as [_ [Hl _]]; lia|]. right. exists st', Ss, dmin. split; [reflexivity|]. split; [left; exact Hinv'|exact HS].
      + destruct Hpost as [Hnn _]. split; [split; [eapply none_from_ext; [intros x; symmetry; apply HS|exact Hnn]|exact I]|exact I].
  Qed.

  Definition K2Inv (s : searcher) (S : Z -> bool) (lo : Z) : Prop := KInv s S lo /\ narrow s.

  Definition K2New (s : searcher) (S : Z -> bool) : Prop := K2Inv s S 0.

  Lemma K2_next : forall f, next_exact searcher (snext lf (Datatypes.S (Datatypes.S f))) K2Inv KFin.
  Proof.
    intros f s S lo [HK Hn]. destruct (K_next f s S lo HK Hn) as [r [s' [E [Hpost Hn']]]].
    exists r, s'. split; [exact E|]. destruct r as [m|]; simpl in *.
    - destruct Hpost as [A B0]. split; [exact A|split; assumption].
    - exact Hpost.
  Qed.

  Lemma K2_adv : forall f, adv_exact searcher (sadv lf (Datatypes.S (Datatypes.S f))) K2Inv KFin.
  Proof.
    intros f s S lo n [HK Hn] Hle. destruct (K_adv f s S lo n HK Hn Hle) as [r [s' [E [Hpost Hn']]]].
    exists r, s'. split; [exact E|]. destruct r as [m|]; simpl in *.
    - destruct Hpost as [A B0]. split; [exact A|split; assumption].
    - exact Hpost.
  Qed.

  Lemma K2_new : forall f, new_exact (snext lf (Datatypes.S (Datatypes.S f))) K2Inv KFin K2New.
  Proof. intros f c S H. exact (K2_next f c S 0 H). Qed.

  (* ---------- the root boolean: draining it with Next ---------- *)

  Variable Sm Ss Sn : option (Z -> bool).
  Variable smin0 : Z.
  Let BS := bool_S Sm Ss Sn smin0.
  Hypothesis HBS_bounded : forall x, BS x = true -> 0 <= x < N.

  Definition members (lo : Z) : list Z := filter BS (zseq lo (Z.to_nat (N - lo))).

  Lemma filter_none : forall (l : list Z), (forall x, In x l -> BS x = false) -> filter BS l = [].
  Proof.
    induction l as [| a l IH]; intros H; simpl; [reflexivity|].
    rewrite (H a (or_introl eq_refl)). apply IH. intros x Hx. apply H. right. exact Hx.
  Qed.

  Lemma members_least : forall lo d, 0 <= lo -> least_from BS lo d -> members lo = d :: members (d + 1).
  Proof.
    intros lo d Hlo [A [B0 D]]. pose proof (HBS_bounded d A) as Hd. unfold members.
    replace (Z.to_nat (N - lo)) with (Z.to_nat (d - lo) + (1 + Z.to_nat (N - (d + 1))))%nat by lia.
    rewrite zseq_app, filter_app. rewrite filter_none.
    - simpl. replace (lo + Z.of_nat (Z.to_nat (d - lo))) with d by lia. rewrite A. reflexivity.
    - intros x Hx. apply zseq_In in Hx. apply D. lia.
  Qed.

  Lemma members_none : forall lo, none_from BS lo -> members lo = [].
  Proof.
    intros lo Hn. unfold members. apply filter_none. intros x Hx. apply zseq_In in Hx. apply Hn. lia.
  Qed.

  Lemma run_loop_bool : forall cnt f st lo acc,
    bool_inv searcher smin K2Inv KFin K2New N Sm Ss Sn smin0 st lo -> 0 <= lo -> (Z.to_nat (N - lo) < cnt)%nat ->
    run_loop lf (Datatypes.S (Datatypes.S (Datatypes.S f))) cnt (SBool st) acc = Ok (rev acc ++ members lo).
  Proof.
    induction cnt as [| cnt IH]; intros f st lo acc Hinv Hlo Hcnt; [lia|].
    cbn [run_loop]. rewrite snext_bool. unfold wrap.
    destruct (bool_next_spec searcher _ _ smin K2Inv KFin (K2_next f) (K2_adv f) K2New (K2_new f)
                (proj1 (smin_static lf _)) (proj2 (smin_static lf _)) N Sm Ss Sn smin0 lf st lo Hinv Hlo (proj1 Hlf))
      as [r [st' [E Hpost]]].
    rewrite E. cbn [rbind fst snd]. destruct r as [rv|]; simpl in Hpost.
    - destruct Hpost as [Hl Hinv']. pose proof (HBS_bounded _ (proj1 Hl)) as Hb.
      rewrite (IH f st' (dm_num rv + 1) (dm_num rv :: acc) Hinv'); [|lia|destruct Hl as [_ [Hl _]]; lia].
      rewrite (members_least lo (dm_num rv) Hlo Hl). simpl. rewrite <- app_assoc. reflexivity.
    - destruct Hpost as [Hn _]. rewrite (members_none lo Hn), app_nil_r. reflexivity.
  Qed.
End Assembly.

(* ================= boolean queries over term clauses ================= *)

Definition tq (ft : Z * list Z) : query := QTerm (fst ft) (snd ft).
Definition flatq (musts shoulds nots : list (Z * list Z)) (ms : Z) : query :=
  QBool (map tq musts) (map tq shoulds) (map tq nots) ms.

(* default options with the "conjunction" push-down switched off *)
Definition copts_plain : copts :=
  {| co_score_none := false; co_tv := false; co_conj := false; co_conj_un := true; co_disj_un := true |}.

Definition tsearchers (sn : snapshot) (l : list (Z * list Z)) : list searcher :=
  map (fun ft => term_searcher sn copts_plain (fst ft) (snd ft)) l.

Definition tdenots (sn : snapshot) (l : list (Z * list Z)) : list (Z -> bool) :=
  map (fun ft => term_S sn (fst ft) (snd ft)) l.

Lemma compile_flat : forall sn musts shoulds nots ms,
  (length shoulds <= 10)%nat -> (length nots <= 10)%nat -> (musts <> [] \/ shoulds <> []) ->
  compile sn copts_plain (flatq musts shoulds nots ms) =
  Ok (mk_bool (match musts with [] => None | _ => Some (mk_conj (tsearchers sn musts)) end)
              (match shoulds with [] => None | _ => Some (mk_disj_slice (tsearchers sn shoulds) ms) end)
              (match nots with [] => None | _ => Some (mk_disj_slice (tsearchers sn nots) 1) end)).
Proof.
  intros sn musts shoulds nots ms Hs Hn Hne. unfold flatq. cbn [compile].
  assert (Hcl : forall l,
    (fix clist (qs : list query) : res (list searcher) :=
       match qs with
       | [] => Ok []
       | q1 :: r => s1 <- compile sn copts_plain q1 ;; ss <- clist r ;; Ok (s1 :: ss)
       end) (map tq l) = Ok (tsearchers sn l)).
  { induction l as [| a l IH]; [reflexivity|]. cbn [map]. rewrite IH. reflexivity. }
  rewrite !Hcl. cbn [rbind].
  assert (Hdisj : forall l m, (length l <= 10)%nat ->
            new_disjunction sn copts_plain (tsearchers sn l) m = mk_disj_slice (tsearchers sn l) m).
  { intros l m Hl. unfold new_disjunction. cbn [co_score_none co_tv co_disj_un copts_plain].
    rewrite andb_false_r. cbn [andb].
    assert (E : disjunction_heap_takeover <? Z.of_nat (length (tsearchers sn l)) = false).
    { apply Z.ltb_ge. unfold tsearchers. rewrite map_length. unfold disjunction_heap_takeover. lia. }
    rewrite E. reflexivity. }
  assert (Hconj : forall l, new_conjunction sn copts_plain (tsearchers sn l) = mk_conj (tsearchers sn l)).
  { intros l. unfold new_conjunction. cbn [co_score_none co_tv co_conj co_conj_un copts_plain].
    rewrite !andb_false_r. cbn [andb]. reflexivity. }
  destruct musts as [| m0 mr]; destruct shoulds as [| s0 sr]; destruct nots as [| n0 nr];
    cbn [map]; try (destruct Hne; congruence);
    try rewrite Hconj; try rewrite (Hdisj (s0 :: sr)) by exact Hs; try rewrite (Hdisj (n0 :: nr)) by exact Hn;
    reflexivity.
Qed.

(* ---------- increasing lists ---------- *)

Fixpoint incr (l : list Z) : Prop :=
  match l with
  | a :: ((b :: _) as r) => a < b /\ incr r
  | _ => True
  end.

Lemma incr_tail a l : incr (a :: l) -> incr l.
Proof. destruct l; simpl; tauto. Qed.

Lemma incr_head_min a l : incr (a :: l) -> forall b, In b l -> a < b.
Proof.
  revert a. induction l as [| c l IH]; intros a H b Hb; [destruct Hb|].
  destruct H as [Hac Hs]. destruct Hb as [<-|Hb]; [exact Hac|]. specialize (IH c Hs b Hb). lia.
Qed.

Lemma incr_cons a l : incr l -> (forall b, In b l -> a < b) -> incr (a :: l).
Proof. intros H Hm. destruct l as [| b l]; simpl; [exact I|]. split; [apply Hm; left; reflexivity|exact H]. Qed.

Lemma incr_app l1 l2 : incr l1 -> incr l2 -> (forall a b, In a l1 -> In b l2 -> a < b) -> incr (l1 ++ l2).
Proof.
  induction l1 as [| a l1 IH]; intros H1 H2 H; simpl; [exact H2|].
  apply incr_cons.
  - apply IH; [eapply incr_tail; eauto|exact H2|]. intros x y Hx Hy. apply H; [right; exact Hx|exact Hy].
  - intros b Hb. apply in_app_or in Hb. destruct Hb as [Hb|Hb].
    + eapply incr_head_min; eauto.
    + apply H; [left; reflexivity|exact Hb].
Qed.

Lemma incr_filter (f : Z -> bool) l : incr l -> incr (filter f l).
Proof.
  induction l as [| a l IH]; intros H; simpl; [exact I|].
  pose proof (incr_tail _ _ H) as Ht. destruct (f a); [|apply IH; exact Ht].
  apply incr_cons; [apply IH; exact Ht|]. intros b Hb. apply filter_In in Hb. destruct Hb as [Hb _].
  eapply incr_head_min; eauto.
Qed.

Lemma incr_ext_eq : forall l1 l2, incr l1 -> incr l2 -> (forall x, In x l1 <-> In x l2) -> l1 = l2.
Proof.
  induction l1 as [| a l1 IH]; intros l2 H1 H2 Hext.
  - destruct l2 as [| b l2]; [reflexivity|]. exfalso. apply (proj2 (Hext b)). left. reflexivity.
  - destruct l2 as [| b l2]; [exfalso; apply (proj1 (Hext a)); left; reflexivity|].
    assert (Hab : a = b).
    { destruct (proj1 (Hext a) (or_introl eq_refl)) as [E|Ha]; [symmetry; exact E|].
      destruct (proj2 (Hext b) (or_introl eq_refl)) as [E|Hb]; [exact E|].
      pose proof (incr_head_min _ _ H1 b Hb). pose proof (incr_head_min _ _ H2 a Ha). lia. }
    subst b. f_equal. apply IH; [eapply incr_tail; eauto|eapply incr_tail; eauto|].
    intros x. split; intros Hx.
    + destruct (proj1 (Hext x) (or_intror Hx)) as [E|Hx']; [|exact Hx'].
      subst x. pose proof (incr_head_min _ _ H1 a Hx). lia.
    + destruct (proj2 (Hext x) (or_intror Hx)) as [E|Hx']; [|exact Hx'].
      subst x. pose proof (incr_head_min _ _ H2 a Hx). lia.
Qed.

Lemma zseq_incr : forall cnt lo, incr (zseq lo cnt).
Proof.
  induction cnt as [| k IH]; intros lo; simpl; [exact I|].
  apply incr_cons; [apply IH|]. intros b Hb. apply zseq_In in Hb. lia.
Qed.

(* the live documents are numbered increasingly *)
Lemma nsorted_fst_incr : forall l, nsorted l -> incr (map fst l).
Proof.
  induction l as [| a l IH]; intros H; simpl; [exact I|].
  destruct l as [| b l]; simpl; [exact I|]. destruct H as [Hab Hs]. split; [exact Hab|]. apply IH. exact Hs.
Qed.

Lemma live_from_incr : forall sn r, incr (map fst (live_from r sn)) /\
  forall x, In x (map fst (live_from r sn)) -> r <= x < r + total_docs sn.
Proof.
  induction sn as [| s rest IH]; intros r; simpl; [split; [exact I|intros x []]|].
  destruct (IH (r + seg_count s)) as [Hi Hr].
  assert (Hseg : incr (map fst (map (fun p : Z * doc => (r + fst p, snd p)) (seg_live s))) /\
                 forall x, In x (map fst (map (fun p : Z * doc => (r + fst p, snd p)) (seg_live s))) -> r <= x < r + seg_count s).
  { split.
    - rewrite map_map. simpl.
      assert (Hs : nsorted (seg_live s)) by (unfold seg_live; apply nsorted_filter; apply number_from_sorted).
      induction (seg_live s) as [| a l IHl]; simpl; [exact I|].
      destruct l as [| b l]; simpl; [exact I|]. destruct Hs as [Hab Hs]. split; [lia|]. apply IHl. exact Hs.
    - intros x Hx. rewrite map_map in Hx. simpl in Hx. apply in_map_iff in Hx. destruct Hx as [[n d] [E Hin]].
      simpl in E. subst x. apply seg_live_range in Hin. lia. }
  destruct Hseg as [Hsi Hsr]. rewrite map_app. split.
  - apply incr_app; [exact Hsi|exact Hi|]. intros a b Ha Hb. apply Hsr in Ha. apply Hr in Hb. lia.
  - intros x Hx. apply in_app_or in Hx. pose proof (total_docs_nonneg rest). pose proof (seg_count_nonneg s).
    destruct Hx as [Hx|Hx]; [apply Hsr in Hx; lia|apply Hr in Hx; lia].
Qed.

Lemma live_docs_incr sn : incr (map fst (live_docs sn)).
Proof. apply (live_from_incr sn 0). Qed.

Lemma incr_NoDup : forall l, incr l -> NoDup l.
Proof.
  induction l as [| a l IH]; intros H; constructor.
  - intros Hin. pose proof (incr_head_min _ _ H a Hin). lia.
  - apply IH. eapply incr_tail; eauto.
Qed.

Lemma live_docs_unique : forall sn x d d', In (x, d) (live_docs sn) -> In (x, d') (live_docs sn) -> d = d'.
Proof.
  intros sn x d d' H1 H2. pose proof (incr_NoDup _ (live_docs_incr sn)) as Hnd.
  induction (live_docs sn) as [| [n e] l IH]; [destruct H1|].
  simpl in Hnd. inversion Hnd as [| a l' Hnin Hnd']; subst.
  destruct H1 as [E1|H1]; destruct H2 as [E2|H2].
  - congruence.
  - inversion E1; subst. exfalso. apply Hnin. apply in_map_iff. exists (x, d'). split; [reflexivity|exact H2].
  - inversion E2; subst. exfalso. apply Hnin. apply in_map_iff. exists (x, d). split; [reflexivity|exact H1].
  - apply IH; assumption.
Qed.

(* ---------- the denotations on a live document ---------- *)

Lemma term_S_live : forall sn f t x d, In (x, d) (live_docs sn) -> term_S sn f t x = has_term d f t.
Proof.
  intros sn f t x d Hin. unfold term_S. destruct (has_term d f t) eqn:E.
  - apply existsb_exists. exists (x, d). split; [exact Hin|]. simpl. rewrite Z.eqb_refl, E. reflexivity.
  - apply not_true_is_false. intros H. apply existsb_exists in H. destruct H as [[n e] [Hin' Hp]].
    simpl in Hp. apply andb_prop in Hp. destruct Hp as [En He]. apply Z.eqb_eq in En. subst n.
    rewrite (live_docs_unique sn x d e Hin Hin') in E. congruence.
Qed.

Lemma term_S_not_live : forall sn f t x, (forall d, ~ In (x, d) (live_docs sn)) -> term_S sn f t x = false.
Proof.
  intros sn f t x H. apply not_true_is_false. intros Ht. unfold term_S in Ht. apply existsb_exists in Ht.
  destruct Ht as [[n e] [Hin Hp]]. simpl in Hp. apply andb_prop in Hp. destruct Hp as [En _]. apply Z.eqb_eq in En. subst n.
  exact (H e Hin).
Qed.

Definition has_all (d : doc) (l : list (Z * list Z)) : bool := forallb (fun ft => has_term d (fst ft) (snd ft)) l.
Definition has_count (d : doc) (l : list (Z * list Z)) : Z :=
  fold_right (fun ft a => (if has_term d (fst ft) (snd ft) then 1 else 0) + a) 0 l.
Definition has_any (d : doc) (l : list (Z * list Z)) : bool := existsb (fun ft => has_term d (fst ft) (snd ft)) l.

Lemma forallb_tdenots : forall sn l x d, In (x, d) (live_docs sn) ->
  forallb (fun s : Z -> bool => s x) (tdenots sn l) = has_all d l.
Proof.
  intros sn l x d Hin. unfold tdenots, has_all. induction l as [| b l IH]; simpl; [reflexivity|].
  rewrite (term_S_live sn (fst b) (snd b) x d Hin), IH. reflexivity.
Qed.

Lemma conj_S_live : forall sn l x d, In (x, d) (live_docs sn) -> l <> [] -> conj_S (tdenots sn l) x = has_all d l.
Proof.
  intros sn l x d Hin Hne. unfold conj_S. destruct (tdenots sn l) eqn:E.
  - destruct l; [congruence|discriminate].
  - rewrite <- E. apply forallb_tdenots. exact Hin.
Qed.

Lemma count_true_tdenots : forall sn l x d, In (x, d) (live_docs sn) ->
  Z.of_nat (count_true (tdenots sn l) x) = has_count d l.
Proof.
  intros sn l x d Hin. unfold count_true, tdenots, has_count. induction l as [| b l IH]; simpl; [reflexivity|].
  rewrite (term_S_live sn (fst b) (snd b) x d Hin). destruct (has_term d (fst b) (snd b)); simpl length; lia.
Qed.

Lemma has_count_nonneg d l : 0 <= has_count d l.
Proof. unfold has_count. induction l as [| b l IH]; simpl; [lia|]. destruct (has_term d (fst b) (snd b)); lia. Qed.

Lemma has_any_count d l : has_any d l = (1 <=? has_count d l).
Proof.
  unfold has_any, has_count. induction l as [| b l IH]; simpl; [reflexivity|].
  pose proof (has_count_nonneg d l) as Hn. unfold has_count in Hn.
  destruct (has_term d (fst b) (snd b)); simpl orb.
  - symmetry. apply Z.leb_le. lia.
  - rewrite IH. rewrite Z.add_0_l. reflexivity.
Qed.

(* the denotation of a boolean query over term clauses, spelled out *)
Lemma sem_flat : forall m s n ms d,
  sem (flatq m s n ms) d =
  has_all d m && negb (has_any d n) &&
  match m, s with
  | [], [] => match n with [] => false | _ => true end
  | [], _ => (1 <=? has_count d s) && (ms <=? has_count d s)
  | _, [] => true
  | _, _ => ms <=? has_count d s
  end.
Proof.
  intros m s n ms d. unfold flatq. cbn [sem].
  assert (Hall : forall l, (fix all (l0 : list query) : bool := match l0 with [] => true | x :: r => sem x d && all r end) (map tq l) = has_all d l).
  { induction l as [| a l IH]; [reflexivity|]. cbn [map]. rewrite IH. reflexivity. }
  assert (Hany : forall l, (fix any (l0 : list query) : bool := match l0 with [] => false | x :: r => sem x d || any r end) (map tq l) = has_any d l).
  { induction l as [| a l IH]; [reflexivity|]. cbn [map]. rewrite IH. reflexivity. }
  assert (Hcnt : forall l, (fix count (l0 : list query) : Z := match l0 with [] => 0 | x :: r => (if sem x d then 1 else 0) + count r end) (map tq l) = has_count d l).
  { induction l as [| a l IH]; [reflexivity|]. cbn [map]. rewrite IH. reflexivity. }
  rewrite Hall, Hany, Hcnt.
  destruct m as [| m0 mr]; destruct s as [| s0 sr]; destruct n as [| n0 nr]; reflexivity.
Qed.

(* ---------- the denotation of the compiled boolean = sem ---------- *)

Definition flat_Sm sn (musts : list (Z * list Z)) : option (Z -> bool) :=
  match musts with [] => None | _ => Some (conj_S (tdenots sn musts)) end.
Definition flat_Ss sn (shoulds : list (Z * list Z)) (ms : Z) : option (Z -> bool) :=
  match shoulds with [] => None | _ => Some (disj_S (tdenots sn shoulds) ms) end.
Definition flat_Sn sn (nots : list (Z * list Z)) : option (Z -> bool) :=
  match nots with [] => None | _ => Some (disj_S (tdenots sn nots) 1) end.

Definition flat_S sn musts shoulds nots ms : Z -> bool :=
  bool_S (flat_Sm sn musts) (flat_Ss sn shoulds ms) (flat_Sn sn nots) ms.

Lemma disj_S_live : forall sn l k x d, In (x, d) (live_docs sn) ->
  disj_S (tdenots sn l) k x = (Z.max k 1 <=? has_count d l).
Proof. intros. unfold disj_S. rewrite (count_true_tdenots sn l x d H). reflexivity. Qed.

Lemma flat_S_live : forall sn musts shoulds nots ms x d,
  In (x, d) (live_docs sn) -> 0 <= ms -> (musts <> [] \/ shoulds <> []) ->
  flat_S sn musts shoulds nots ms x = sem (flatq musts shoulds nots ms) d.
Proof.
  intros sn musts shoulds nots ms x d Hin Hms Hne. rewrite sem_flat. unfold flat_S, bool_S, should_required.
  assert (Hn : opt_S (flat_Sn sn nots) false x = has_any d nots).
  { unfold flat_Sn. destruct nots as [| n0 nr]; [reflexivity|]. unfold opt_S.
    rewrite (disj_S_live sn (n0 :: nr) 1 x d Hin), has_any_count. reflexivity. }
  rewrite Hn. pose proof (has_count_nonneg d shoulds) as Hc.
  destruct musts as [| m0 mr].
  - destruct shoulds as [| s0 sr]; [destruct Hne; congruence|].
    cbn [flat_Sm flat_Ss]. rewrite (disj_S_live sn _ ms x d Hin). cbn [has_all forallb andb].
    destruct (Z.max ms 1 <=? has_count d (s0 :: sr)) eqn:E1.
    + apply Z.leb_le in E1. assert (E2 : (1 <=? has_count d (s0 :: sr)) = true) by (apply Z.leb_le; lia).
      assert (E3 : (ms <=? has_count d (s0 :: sr)) = true) by (apply Z.leb_le; lia). rewrite E2, E3.
      destruct (has_any d nots); reflexivity.
    + apply Z.leb_gt in E1.
      destruct (1 <=? has_count d (s0 :: sr)) eqn:E2; destruct (ms <=? has_count d (s0 :: sr)) eqn:E3;
        try (apply Z.leb_le in E2); try (apply Z.leb_le in E3); try lia; destruct (has_any d nots); reflexivity.
  - cbn [flat_Sm]. rewrite (conj_S_live sn (m0 :: mr) x d Hin) by discriminate.
    destruct shoulds as [| s0 sr]; cbn [flat_Ss].
    + destruct (has_all d (m0 :: mr)); destruct (has_any d nots); reflexivity.
    + destruct (ms =? 0) eqn:E0; cbn [negb opt_S].
      * apply Z.eqb_eq in E0. subst ms. assert (E3 : (0 <=? has_count d (s0 :: sr)) = true) by (apply Z.leb_le; lia).
        rewrite E3. reflexivity.
      * apply Z.eqb_neq in E0. rewrite (disj_S_live sn _ ms x d Hin).
        replace (Z.max ms 1) with ms by lia. reflexivity.
Qed.

Lemma flat_S_not_live : forall sn musts shoulds nots ms x,
  (forall d, ~ In (x, d) (live_docs sn)) -> (musts <> [] \/ shoulds <> []) ->
  flat_S sn musts shoulds nots ms x = false.
Proof.
  intros sn musts shoulds nots ms x Hnl Hne. apply bool_S_prim. unfold prim_S.
  destruct musts as [| m0 mr].
  - destruct shoulds as [| s0 sr]; [destruct Hne; congruence|]. cbn [flat_Sm flat_Ss opt_S].
    unfold disj_S. assert (E : forall l0, count_true (tdenots sn l0) x = O).
    { unfold count_true, tdenots. induction l0 as [| b l IH]; simpl; [reflexivity|].
      rewrite (term_S_not_live sn _ _ x Hnl). exact IH. }
    rewrite E. apply Z.leb_gt. simpl. lia.
  - cbn [flat_Sm]. unfold conj_S, tdenots. cbn [map forallb]. rewrite (term_S_not_live sn _ _ x Hnl). reflexivity.
Qed.

Lemma incr_map_fst_filter : forall (f : Z * doc -> bool) l, incr (map fst l) -> incr (map fst (filter f l)).
Proof.
  intros f l. induction l as [| a l IH]; intros Hi; [exact I|].
  pose proof (incr_tail _ _ Hi) as Ht. cbn [filter]. destruct (f a); [|apply IH; exact Ht].
  cbn [map]. apply incr_cons; [apply IH; exact Ht|]. intros b Hb. apply in_map_iff in Hb. destruct Hb as [p [<- Hp]].
  apply filter_In in Hp. destruct Hp as [Hp _]. apply (incr_head_min _ _ Hi). apply in_map. exact Hp.
Qed.

Lemma sem_numbers_members : forall sn musts shoulds nots ms,
  0 <= ms -> (musts <> [] \/ shoulds <> []) ->
  members sn (flat_Sm sn musts) (flat_Ss sn shoulds ms) (flat_Sn sn nots) ms 0 = sem_numbers (flatq musts shoulds nots ms) sn.
Proof.
  intros sn musts shoulds nots ms Hms Hne. unfold members, sem_numbers.
  apply incr_ext_eq.
  - apply incr_filter. apply zseq_incr.
  - apply incr_map_fst_filter. apply live_docs_incr.
  - intros x. rewrite filter_In, zseq_In, in_map_iff. fold (flat_S sn musts shoulds nots ms). split.
    + intros [Hr HS].
      destruct (in_dec Z.eq_dec x (map fst (live_docs sn))) as [Hin|Hnin].
      * apply in_map_iff in Hin. destruct Hin as [[n d] [E Hin]]. simpl in E. subst n.
        exists (x, d). split; [reflexivity|]. apply filter_In. split; [exact Hin|]. cbn [snd].
        rewrite <- (flat_S_live sn musts shoulds nots ms x d Hin Hms Hne). exact HS.
      * rewrite flat_S_not_live in HS; [discriminate| |exact Hne].
        intros d Hd. apply Hnin. apply in_map_iff. exists (x, d). split; [reflexivity|exact Hd].
    + intros [[n d] [E Hp]]. simpl in E. subst n. apply filter_In in Hp. destruct Hp as [Hin Hs]. cbn [snd] in Hs.
      split.
      * pose proof (proj2 (live_from_incr sn 0) x) as Hr. unfold live_docs in Hin.
        specialize (Hr ltac:(apply in_map_iff; exists (x, d); split; [reflexivity|exact Hin])).
        pose proof (total_docs_nonneg sn). lia.
      * rewrite (flat_S_live sn musts shoulds nots ms x d Hin Hms Hne). exact Hs.
Qed.

(* ---------- search_exact for boolean queries over term clauses ---------- *)

Lemma fuel_ok_loop_fuel : forall sn W, fuel_ok sn W (loop_fuel sn W).
Proof.
  intros sn W. unfold fuel_ok, loop_fuel, conj_fuel.
  pose proof (total_docs_nonneg sn) as Hn.
  set (k := Z.to_nat (total_docs sn)). assert (Hk : total_docs sn = Z.of_nat k) by (unfold k; lia). rewrite Hk.
  replace (Z.to_nat ((Z.of_nat k + 2) * ((Z.of_nat W + 3) * (Z.of_nat W + 3)))) with ((k + 2) * ((W + 3) * (W + 3)))%nat by lia.
  rewrite ?Nat2Z.id. split; [nia|]. intros len Hlen. nia.
Qed.

Lemma nth_error_map_inv {A B} (g : A -> B) l i b : nth_error (map g l) i = Some b -> exists a, nth_error l i = Some a /\ b = g a.
Proof.
  revert i. induction l as [| a l IH]; intros [| i] H; simpl in *; try discriminate.
  - inversion H. eauto.
  - apply IH. exact H.
Qed.

Lemma tsearchers_fresh : forall sn l i c S, wf_sn sn ->
  nth_error (tsearchers sn l) i = Some c -> nth_error (tdenots sn l) i = Some S ->
  bounded (total_docs sn) S /\ TInv sn c S 0.
Proof.
  intros sn l i c S Hwf Hc HS. unfold tsearchers in Hc. unfold tdenots in HS.
  apply nth_error_map_inv in Hc. destruct Hc as [ft [Hft ->]].
  apply nth_error_map_inv in HS. destruct HS as [ft' [Hft' ->]]. rewrite Hft in Hft'. inversion Hft'; subst ft'.
  split; [intros x Hx; eapply term_S_bounded; eauto|].
  unfold TInv, term_searcher. eexists _, _, _. split; [reflexivity|]. apply mk_pit_inv. exact Hwf.
Qed.

Lemma conj_S_bounded : forall sn l, l <> [] -> bounded (total_docs sn) (conj_S (tdenots sn l)).
Proof.
  intros sn [| a l] Hne x Hx; [congruence|]. unfold conj_S, tdenots in Hx. cbn [map forallb] in Hx.
  apply andb_prop in Hx. destruct Hx as [Hx _]. eapply term_S_bounded; eauto.
Qed.

Lemma disj_S_bounded : forall sn l k, bounded (total_docs sn) (disj_S (tdenots sn l) k).
Proof.
  intros sn l k x Hx. unfold disj_S in Hx. apply Z.leb_le in Hx.
  assert (Hpos : (0 < count_true (tdenots sn l) x)%nat) by lia. clear Hx.
  unfold count_true, tdenots in Hpos. induction l as [| a l IH]; simpl in Hpos; [lia|].
  destruct (term_S sn (fst a) (snd a) x) eqn:E; [eapply term_S_bounded; eauto|apply IH; exact Hpos].
Qed.

(* draining the compiled boolean, whatever searcher serves the must clauses *)
Lemma run_flat_core : forall sn musts shoulds nots ms bm,
  wf_sn sn -> 0 <= ms -> (musts <> [] \/ shoulds <> []) ->
  let bs := match shoulds with [] => None | _ => Some (mk_disj_slice (tsearchers sn shoulds) ms) end in
  let bn := match nots with [] => None | _ => Some (mk_disj_slice (tsearchers sn nots) 1) end in
  let W := swidth (mk_bool bm bs bn) in
  opt_new searcher (K2New sn W) (total_docs sn) bm (flat_Sm sn musts) ->
  run_loop (loop_fuel sn W) (depth_fuel (flatq musts shoulds nots ms)) (Datatypes.S (Z.to_nat (total_docs sn))) (mk_bool bm bs bn) [] =
  Ok (sem_numbers (flatq musts shoulds nots ms) sn).
Proof.
  intros sn musts shoulds nots ms bm Hwf Hms Hne bs bn W Hbm.
  pose proof (fuel_ok_loop_fuel sn W) as Hfuel.
  rewrite <- (sem_numbers_members sn musts shoulds nots ms Hms Hne).
  assert (Hdf : exists f, depth_fuel (flatq musts shoulds nots ms) = Datatypes.S (Datatypes.S (Datatypes.S f))).
  { unfold depth_fuel. exists (4 * qsize (flatq musts shoulds nots ms) + 5)%nat. lia. }
  destruct Hdf as [f Hdf]. rewrite Hdf. unfold mk_bool.
  rewrite (run_loop_bool sn W (loop_fuel sn W) Hfuel (flat_Sm sn musts) (flat_Ss sn shoulds ms) (flat_Sn sn nots) ms) with (lo := 0).
  - reflexivity.
  - (* the denotation lives in [0, N) *)
    intros x Hx. destruct (prim_S (flat_Sm sn musts) (flat_Ss sn shoulds ms) x) eqn:Ep.
    + unfold prim_S in Ep. destruct musts as [| m0 mr]; cbn [flat_Sm] in Ep.
      * destruct shoulds as [| s0 sr]; cbn [flat_Ss opt_S] in Ep; [discriminate|]. eapply disj_S_bounded; eauto.
      * eapply conj_S_bounded; [|exact Ep]. discriminate.
    + rewrite (bool_S_prim _ _ _ _ _ Ep) in Hx. discriminate.
  - (* the compiled searcher is fresh *)
    right. split; [|reflexivity]. unfold bool_fresh. cbn [b_init b_done b_cm b_cs b_cmn b_must b_should b_mustnot].
    split; [reflexivity|]. split; [reflexivity|]. split; [reflexivity|]. split; [reflexivity|]. split; [reflexivity|].
    assert (Hdisj : forall l k, l <> [] ->
              opt_new searcher (K2New sn W) (total_docs sn) (Some (mk_disj_slice (tsearchers sn l) k)) (Some (disj_S (tdenots sn l) k))).
    { intros l k Hl. unfold opt_new, K2New. split; [apply disj_S_bounded|]. split; [|exact I]. split; [lia|]. right.
      eexists _, (tdenots sn l), k. split; [reflexivity|]. split; [|intros x; reflexivity].
      right. split; [|reflexivity]. unfold dsl_fresh. cbn [ds_init ds_min ds_s]. split; [reflexivity|]. split; [reflexivity|].
      split; [unfold tsearchers, tdenots; rewrite !map_length; reflexivity|].
      intros i c S Hc HS. eapply tsearchers_fresh; eauto. }
    split; [exact Hbm|]. split; [|split; [|split]].
    + unfold bs, flat_Ss. destruct shoulds as [| s0 sr]; [exact I|]. apply Hdisj. discriminate.
    + unfold bn, flat_Sn. destruct nots as [| n0 nr]; [exact I|]. apply Hdisj. discriminate.
    + unfold bs. destruct shoulds; [exact I|reflexivity].
    + unfold flat_Sm, flat_Ss. destruct Hne as [H|H]; [left|right]; destruct musts, shoulds; congruence.
  - lia.
  - pose proof (total_docs_nonneg sn). lia.
Qed.

Theorem search_exact_flat : forall sn musts shoulds nots ms,
  wf_sn sn -> 0 <= ms -> (musts <> [] \/ shoulds <> []) ->
  (length shoulds <= 10)%nat -> (length nots <= 10)%nat ->
  run sn copts_plain (flatq musts shoulds nots ms) = Ok (sem_numbers (flatq musts shoulds nots ms) sn).
Proof.
  intros sn musts shoulds nots ms Hwf Hms Hne Hls Hln.
  unfold run. rewrite (compile_flat sn musts shoulds nots ms Hls Hln Hne). cbn [rbind].
  apply run_flat_core; auto.
  set (bm := match musts with [] => None | _ => Some (mk_conj (tsearchers sn musts)) end).
  set (W := swidth _).
  assert (HW : (length musts <= W)%nat).
  { unfold W, mk_bool, bm. cbn [swidth]. destruct musts as [| m0 mr]; [simpl; lia|].
    unfold mk_conj. cbn [swidth]. unfold tsearchers. rewrite map_length. lia. }
  unfold bm, flat_Sm. destruct musts as [| m0 mr]; [exact I|]. unfold opt_new, K2New. split; [apply conj_S_bounded; discriminate|].
  split; [|unfold narrow, mk_conj; cbn [cj_s]; unfold tsearchers; rewrite map_length; exact HW]. split; [lia|]. left.
  eexists _, (tdenots sn (m0 :: mr)). split; [reflexivity|]. split; [|intros x; reflexivity].
  right. split; [|reflexivity]. unfold conj_fresh. cbn [cj_init cj_max cj_s]. split; [reflexivity|]. split; [reflexivity|].
  split; [unfold tsearchers, tdenots; rewrite !map_length; reflexivity|].
  intros i c S Hc HS. eapply tsearchers_fresh; eauto.
Qed.

(* the hypotheses are satisfiable on the example index (2 segments, a pending delete) *)
Lemma ex_sn_wf : wf_sn ex_sn.
Proof.
  split; [discriminate|]. intros s [<-|[<-|[]]]; discriminate.
Qed.

Lemma search_exact_flat_example :
  wf_sn ex_sn /\
  run ex_sn copts_plain (flatq [(0, t_ab)] [(0, t_ba); (0, t_cab)] [(0, [122])] 1) = Ok [0; 2; 3].
Proof.
  split; [exact ex_sn_wf|].
  rewrite search_exact_flat; [vm_compute; reflexivity|exact ex_sn_wf|lia|left; discriminate|simpl; lia|simpl; lia].
Qed.

(* ================= the same with the default options: the "conjunction" push-down ================= *)

Lemma psorted_filter : forall (f : posting -> bool) l, psorted l -> psorted (filter f l).
Proof.
  intros f l. induction l as [| a l IH]; intros H; simpl; [exact I|].
  pose proof (psorted_tail _ _ H) as Ht. destruct (f a); [|apply IH; exact Ht].
  specialize (IH Ht). destruct (filter f l) as [| b r] eqn:E; [exact I|]. split; [|exact IH].
  assert (Hb : In b (filter f l)) by (rewrite E; left; reflexivity). apply filter_In in Hb. destruct Hb as [Hb _].
  eapply psorted_head_min; eauto.
Qed.

Lemma nth_map_seq {A} (g : nat -> A) n k d : (k < n)%nat -> nth k (map g (seq 0 n)) d = g k.
Proof.
  intros H. rewrite (nth_indep _ d (g O)) by (rewrite map_length, seq_length; exact H).
  rewrite (map_nth g (seq 0 n) O k). rewrite seq_nth by exact H. reflexivity.
Qed.

(* a global number determines its segment and its local number *)
Lemma segment_unique : forall offs N, offs_ok offs N -> forall k k' a b,
  (k < length offs)%nat -> (k' < length offs)%nat ->
  0 <= a -> a + offx offs N k < offx offs N (Datatypes.S k) ->
  0 <= b -> b + offx offs N k' < offx offs N (Datatypes.S k') ->
  a + offx offs N k = b + offx offs N k' -> k = k' /\ a = b.
Proof.
  intros offs N Hok k k' a b Hk Hk' Ha1 Ha2 Hb1 Hb2 E.
  destruct (lt_eq_lt_dec k k') as [[Hlt|Heq]|Hgt].
  - pose proof (offx_mono offs N Hok (Datatypes.S k) k' ltac:(lia) ltac:(lia)). lia.
  - subst k'. split; [reflexivity|lia].
  - pose proof (offx_mono offs N Hok (Datatypes.S k') k ltac:(lia) ltac:(lia)). lia.
Qed.

Section PushDown.
  Variable sn : snapshot.
  Hypothesis Hwf : wf_sn sn.
  Variable musts : list (Z * list Z).
  Hypothesis Hne : musts <> [].

  Let D : Z -> bool := conj_S (tdenots sn musts).
  Let its : list pit := map (fun ft => mk_pit sn (fst ft) (snd ft)) musts.

  Definition pushed (it : pit) : pit :=
    {| pi_segs := pi_segs it;
       pi_iters := map (fun k => filter (fun p => forallb (fun l => zmem (p_num p) (pnums l)) (seg_column its k))
                                        (nth k (pi_iters it) []))
                       (seq 0 (length (pi_iters it)));
       pi_offs := pi_offs it; pi_segoff := pi_segoff it; pi_curr := pi_curr it |}.

  Lemma and_replace_tsearchers :
    and_replace (tsearchers sn musts) =
    map (fun ft => STerm (snd ft) false (pushed (mk_pit sn (fst ft) (snd ft)))) musts.
  Proof.
    unfold and_replace, tsearchers. rewrite map_map.
    assert (Hits : flat_map (fun c : searcher => match c with STerm _ _ it => [it] | _ => [] end)
                     (map (fun ft : Z * list Z => term_searcher sn copts_plain (fst ft) (snd ft)) musts) = its).
    { unfold its. clear. induction musts as [| a l IH]; simpl; [reflexivity|]. rewrite IH. reflexivity. }
    rewrite Hits. apply map_ext. intros ft. reflexivity.
  Qed.

  Lemma pushed_inv : forall ft, In ft musts ->
    PInv (offsets sn) (total_docs sn) (pushed (mk_pit sn (fst ft) (snd ft))) D 0.
  Proof.
    intros ft Hft.
    pose proof (offs_ok_snapshot sn Hwf) as Hok.
    pose proof (iters_ok_snapshot sn (fst ft) (snd ft) Hwf) as [Hlen [Hsort Hrange]].
    set (iters := map (seg_postings (fst ft) (snd ft)) sn) in *.
    assert (Hnth : forall k, (k < length iters)%nat ->
              nth_or (pi_iters (pushed (mk_pit sn (fst ft) (snd ft)))) k [] =
              filter (fun p => forallb (fun l => zmem (p_num p) (pnums l)) (seg_column its k)) (nth_or iters k [])).
    { intros k Hk. unfold pushed, mk_pit, nth_or. cbn [pi_iters]. fold iters.
      exact (nth_map_seq (fun k0 => filter (fun p => forallb (fun l => zmem (p_num p) (pnums l)) (seg_column its k0)) (nth k0 iters []))
                         (length iters) k [] Hk). }
    assert (Hover : forall k, (length iters <= k)%nat -> nth_or (pi_iters (pushed (mk_pit sn (fst ft) (snd ft)))) k [] = []).
    { intros k Hk. unfold nth_or. apply nth_overflow. unfold pushed, mk_pit. cbn [pi_iters]. fold iters.
      rewrite map_length, seq_length. exact Hk. }
    assert (Hsub : forall k p, In p (nth_or (pi_iters (pushed (mk_pit sn (fst ft) (snd ft)))) k []) -> In p (nth_or iters k [])).
    { intros k p Hp. destruct (lt_dec k (length iters)) as [Hk|Hk].
      - rewrite Hnth in Hp by exact Hk. apply filter_In in Hp. tauto.
      - rewrite Hover in Hp by lia. destruct Hp. }
    assert (Hit' : iters_ok (offsets sn) (total_docs sn) (pi_iters (pushed (mk_pit sn (fst ft) (snd ft))))).
    { split; [unfold pushed, mk_pit; cbn [pi_iters]; rewrite map_length, seq_length; fold iters; exact Hlen|]. split.
      - intros k. destruct (lt_dec k (length iters)) as [Hk|Hk].
        + rewrite Hnth by exact Hk. apply psorted_filter. apply Hsort.
        + rewrite Hover by lia. exact I.
      - intros k p Hp. apply Hrange. apply Hsub. exact Hp. }
    unfold PInv. split; [reflexivity|]. split; [exact Hok|]. split; [exact Hit'|]. split; [lia|]. split; [exact I|].
    exists O. split; [cbn; lia|]. destruct Hok as [Hpos [H0 Hinc]]. split; [exact Hpos|]. split; [lia|].
    split; [intros k Hk; cbn in Hk; lia|].
    assert (Hok : offs_ok (offsets sn) (total_docs sn)) by (split; [exact Hpos|split; assumption]).
    split.
    - intros x [k [p [Hk [Hp ->]]]]. destruct (Hrange k p (Hsub k p Hp)) as [Hp0 _].
      pose proof (offx_mono _ _ Hok O k ltac:(lia) ltac:(lia)). lia.
    - intros x _. split.
      + (* a member of the conjunction is visible in the pushed-down iterator *)
        intros HD.
        assert (Hall : forall ft', In ft' musts -> term_S sn (fst ft') (snd ft') x = true).
        { intros ft' Hin. unfold D, conj_S in HD. destruct (tdenots sn musts) eqn:Et; [discriminate|]. rewrite <- Et in HD.
          rewrite forallb_forall in HD. apply HD. unfold tdenots. apply in_map_iff. exists ft'. split; [reflexivity|exact Hin]. }
        pose proof (proj1 (term_S_visible sn (fst ft) (snd ft) x Hwf) (Hall ft Hft)) as [k [p [Hk [Hp Hx]]]].
        fold iters in Hp. exists k, p. split; [exact Hk|]. split; [|exact Hx].
        rewrite Hnth by lia. apply filter_In. split; [exact Hp|]. apply forallb_forall. intros l Hl.
        unfold seg_column, its in Hl. rewrite map_map in Hl. apply in_map_iff in Hl. destruct Hl as [ft' [<- Hin']].
        apply zmem_In.
        pose proof (proj1 (term_S_visible sn (fst ft') (snd ft') x Hwf) (Hall ft' Hin')) as [k' [q [Hk' [Hq Hx']]]].
        destruct (Hrange k p Hp) as [Hp0 Hp1].
        destruct (iters_ok_snapshot sn (fst ft') (snd ft') Hwf) as [_ [_ Hrange']]. destruct (Hrange' k' q Hq) as [Hq0 Hq1].
        destruct (segment_unique _ _ Hok k k' (p_num p) (p_num q) ltac:(lia) ltac:(lia) Hp0 Hp1 Hq0 Hq1 ltac:(lia)) as [-> Epq].
        unfold mk_pit. cbn [pi_iters]. unfold nth_or in Hq. unfold pnums. apply in_map_iff. exists q. split; [lia|exact Hq].
      + (* and conversely *)
        intros [k [p [Hk [Hp ->]]]]. rewrite Hnth in Hp by lia. apply filter_In in Hp. destruct Hp as [Hp Hall].
        rewrite forallb_forall in Hall.
        unfold D, conj_S. destruct (tdenots sn musts) eqn:Et; [apply map_eq_nil in Et; congruence|]. rewrite <- Et.
        apply forallb_forall. intros S HS. unfold tdenots in HS. apply in_map_iff in HS. destruct HS as [ft' [<- Hin']].
        apply (term_S_visible sn (fst ft') (snd ft') _ Hwf).
        assert (Hcol : In (nth k (pi_iters (mk_pit sn (fst ft') (snd ft'))) []) (seg_column its k)).
        { unfold seg_column, its. rewrite map_map. apply in_map_iff. exists ft'. split; [reflexivity|exact Hin']. }
        specialize (Hall _ Hcol). apply zmem_In in Hall. unfold pnums in Hall. apply in_map_iff in Hall.
        destruct Hall as [q [Eq Hq]]. exists k, q. split; [exact Hk|]. split; [exact Hq|lia].
  Qed.
End PushDown.

Lemma compile_flat_default : forall sn musts shoulds nots ms,
  (length shoulds <= 10)%nat -> (length nots <= 10)%nat -> (musts <> [] \/ shoulds <> []) ->
  compile sn copts_default (flatq musts shoulds nots ms) =
  Ok (mk_bool (match musts with
               | [] => None
               | [_] => Some (mk_conj (tsearchers sn musts))
               | _ => Some (mk_conj (and_replace (tsearchers sn musts)))
               end)
              (match shoulds with [] => None | _ => Some (mk_disj_slice (tsearchers sn shoulds) ms) end)
              (match nots with [] => None | _ => Some (mk_disj_slice (tsearchers sn nots) 1) end)).
Proof.
  intros sn musts shoulds nots ms Hs Hn Hne. unfold flatq. cbn [compile].
  assert (Hcl : forall l,
    (fix clist (qs : list query) : res (list searcher) :=
       match qs with
       | [] => Ok []
       | q1 :: r => s1 <- compile sn copts_default q1 ;; ss <- clist r ;; Ok (s1 :: ss)
       end) (map tq l) = Ok (tsearchers sn l)).
  { induction l as [| a l IH]; [reflexivity|]. cbn [map]. rewrite IH. reflexivity. }
  rewrite !Hcl. cbn [rbind].
  assert (Hdisj : forall l m, (length l <= 10)%nat ->
            new_disjunction sn copts_default (tsearchers sn l) m = mk_disj_slice (tsearchers sn l) m).
  { intros l m Hl. unfold new_disjunction. cbn [co_score_none co_tv co_disj_un copts_default].
    rewrite andb_false_r. cbn [andb].
    assert (E : disjunction_heap_takeover <? Z.of_nat (length (tsearchers sn l)) = false).
    { apply Z.ltb_ge. unfold tsearchers. rewrite map_length. unfold disjunction_heap_takeover. lia. }
    rewrite E. reflexivity. }
  assert (Hst : forall l, forallb is_sterm (tsearchers sn l) = true).
  { induction l as [| a l IH]; [reflexivity|]. simpl. exact IH. }
  assert (Hconj : forall l, new_conjunction sn copts_default (tsearchers sn l) =
            if (1 <? length (tsearchers sn l))%nat then mk_conj (and_replace (tsearchers sn l)) else mk_conj (tsearchers sn l)).
  { intros l. unfold new_conjunction. cbn [co_score_none co_tv co_conj co_conj_un copts_default].
    rewrite !andb_false_r. cbn [andb]. rewrite Hst, !andb_true_r. reflexivity. }
  destruct musts as [| m0 [| m1 mr]]; destruct shoulds as [| s0 sr]; destruct nots as [| n0 nr];
    cbn [map]; try (destruct Hne; congruence);
    try rewrite Hconj; try rewrite (Hdisj (s0 :: sr)) by exact Hs; try rewrite (Hdisj (n0 :: nr)) by exact Hn;
    reflexivity.
Qed.

Lemma conj_S_const : forall (D : Z -> bool) (l : list (Z * list Z)) x, l <> [] ->
  conj_S (map (fun _ => D) l) x = D x.
Proof.
  intros D [| a l] x Hne; [congruence|]. unfold conj_S. cbn [map forallb].
  assert (H : forallb (fun s : Z -> bool => s x) (map (fun _ : Z * list Z => D) l) = true \/ D x = false).
  { destruct (D x) eqn:E; [left|right; reflexivity]. clear Hne. induction l as [| b l IH]; simpl; [reflexivity|]. rewrite E. exact IH. }
  destruct H as [H|H]; [rewrite H; apply andb_true_r|rewrite H; reflexivity].
Qed.

(* search_exact for boolean queries over term clauses with the default options *)
Theorem search_exact_flat_default : forall sn musts shoulds nots ms,
  wf_sn sn -> 0 <= ms -> (musts <> [] \/ shoulds <> []) ->
  (length shoulds <= 10)%nat -> (length nots <= 10)%nat ->
  run sn copts_default (flatq musts shoulds nots ms) = Ok (sem_numbers (flatq musts shoulds nots ms) sn).
Proof.
  intros sn musts shoulds nots ms Hwf Hms Hne Hls Hln.
  unfold run. rewrite (compile_flat_default sn musts shoulds nots ms Hls Hln Hne). cbn [rbind].
  apply run_flat_core; auto.
  set (W := swidth _).
  destruct musts as [| m0 [| m1 mr]].
  - exact I.
  - (* a single must clause: no push-down *)
    assert (HW : (1 <= W)%nat) by (unfold W, mk_bool; cbn [swidth]; apply Nat.le_trans with 3%nat; [lia|apply Nat.le_max_l]).
    unfold flat_Sm, opt_new, K2New. split; [apply conj_S_bounded; discriminate|].
    split; [|unfold narrow, mk_conj; cbn [cj_s]; simpl; exact HW]. split; [lia|]. left.
    eexists _, (tdenots sn [m0]). split; [reflexivity|]. split; [|intros x; reflexivity].
    right. split; [|reflexivity]. unfold conj_fresh. cbn [cj_init cj_max cj_s]. split; [reflexivity|]. split; [reflexivity|].
    split; [reflexivity|]. intros i c S Hc HS. eapply tsearchers_fresh; eauto.
  - (* several must clauses: every child keeps only the documents all of them hold *)
    set (musts := m0 :: m1 :: mr) in *.
    assert (Hmne : musts <> []) by discriminate.
    assert (Hlen : length (and_replace (tsearchers sn musts)) = length musts).
    { rewrite (and_replace_tsearchers sn musts). apply map_length. }
    assert (HW : (length musts <= W)%nat).
    { unfold W, mk_bool. cbn [swidth]. unfold mk_conj at 1. cbn [swidth]. rewrite Hlen.
      eapply Nat.le_trans; [|apply Nat.le_max_r]. eapply Nat.le_trans; [|apply Nat.le_max_l]. apply Nat.le_max_l. }
    unfold flat_Sm, opt_new. fold musts. change (match musts with [] => None | _ :: _ => Some (conj_S (tdenots sn musts)) end)
      with (Some (conj_S (tdenots sn musts))).
    split; [apply conj_S_bounded; exact Hmne|].
    split; [|unfold narrow, mk_conj; cbn [cj_s]; rewrite Hlen; exact HW]. split; [lia|]. left.
    eexists _, (map (fun _ => conj_S (tdenots sn musts)) musts). split; [reflexivity|].
    split; [|intros x; symmetry; apply conj_S_const; exact Hmne].
    right. split; [|reflexivity]. unfold conj_fresh. cbn [cj_init cj_max cj_s]. split; [reflexivity|]. split; [reflexivity|].
    split; [rewrite Hlen, map_length; reflexivity|].
    intros i c S Hc HS. rewrite (and_replace_tsearchers sn musts) in Hc.
    apply nth_error_map_inv in Hc. destruct Hc as [ft [Hft ->]].
    apply nth_error_map_inv in HS. destruct HS as [ft' [_ ->]].
    split; [apply conj_S_bounded; exact Hmne|].
    unfold TInv. eexists _, _, _. split; [reflexivity|]. apply pushed_inv; [exact Hwf|exact Hmne|].
    eapply nth_error_In; eauto.
Qed.

(* ================= the iterator contract at the level of call scripts ================= *)

(* what a searcher exact from lo for the denotation S must answer to a script: Next = the least
   member at or above the watermark, Advance n (n at or above the watermark: above the last number
   returned, not below an earlier target) = the least member at or above n; the script may go on
   until the end is reported *)
Inductive script_ok (S : Z -> bool) : Z -> list op -> list (option Z) -> Prop :=
| so_nil : forall lo, script_ok S lo [] []
| so_next_some : forall lo d r outs, least_from S lo d -> script_ok S (d + 1) r outs -> script_ok S lo (ONext :: r) (Some d :: outs)
| so_next_end : forall lo, none_from S lo -> script_ok S lo [ONext] [None]
| so_adv_some : forall lo n d r outs, lo <= n -> least_from S n d -> script_ok S (d + 1) r outs ->
                script_ok S lo (OAdvance n :: r) (Some d :: outs)
| so_adv_end : forall lo n, lo <= n -> none_from S n -> script_ok S lo [OAdvance n] [None].

Section Scripts.
  Variable lf fuel : nat.
  Variable Inv Fin : searcher -> (Z -> bool) -> Z -> Prop.
  Hypothesis Hn : next_exact searcher (snext lf fuel) Inv Fin.
  Hypothesis Ha : adv_exact searcher (sadv lf fuel) Inv Fin.

  Lemma script_spec : forall ops s S lo outs,
    Inv s S lo -> script_ok S lo ops outs -> run_script lf fuel s ops = Ok outs.
  Proof.
    induction ops as [| o r IH]; intros s S lo outs HI Hs.
    - inversion Hs; subst. reflexivity.
    - inversion Hs as [ | lo' d r' outs' Hl0 Hrest | lo' Hnone0 | lo' n d r' outs' Hle Hl0 Hrest | lo' n Hle Hnone0 ]; subst;
        cbn [run_script].
      + destruct (Hn s S lo HI) as [res [s' [E Hpost]]]. rewrite E. cbn [rbind fst snd].
        destruct res as [m|]; simpl in Hpost.
        * destruct Hpost as [Hl HI']. pose proof (least_from_unique S lo _ _ Hl Hl0). subst d.
          rewrite (IH s' S (dm_num m + 1) outs' HI' Hrest). reflexivity.
        * destruct Hpost as [Hnone _]. exfalso. eapply least_none_false; eauto.
      + destruct (Hn s S lo HI) as [res [s' [E Hpost]]]. rewrite E. cbn [rbind fst snd].
        destruct res as [m|]; simpl in Hpost; [|reflexivity].
        destruct Hpost as [Hl _]. exfalso. eapply least_none_false; eauto.
      + destruct (Ha s S lo n HI Hle) as [res [s' [E Hpost]]]. rewrite E. cbn [rbind fst snd].
        destruct res as [m|]; simpl in Hpost.
        * destruct Hpost as [Hl HI']. pose proof (least_from_unique S n _ _ Hl Hl0). subst d.
          rewrite (IH s' S (dm_num m + 1) outs' HI' Hrest). reflexivity.
        * destruct Hpost as [Hnone _]. exfalso. eapply least_none_false; eauto.
      + destruct (Ha s S lo n HI Hle) as [res [s' [E Hpost]]]. rewrite E. cbn [rbind fst snd].
        destruct res as [m|]; simpl in Hpost; [|reflexivity].
        destruct Hpost as [Hl _]. exfalso. eapply least_none_false; eauto.
  Qed.
End Scripts.

(* a term searcher over a well-formed snapshot obeys every such script *)
Theorem term_searcher_script : forall sn f t lf fuel ops outs,
  wf_sn sn -> script_ok (term_S sn f t) 0 ops outs ->
  run_script lf (Datatypes.S fuel) (term_searcher sn copts_default f t) ops = Ok outs.
Proof.
  intros sn f t lf fuel ops outs Hwf Hs.
  pose proof (term_contract sn lf fuel) as [Hn Ha _].
  apply (script_spec lf (Datatypes.S fuel) (TInv sn) (TFin sn) Hn Ha ops _ (term_S sn f t) 0 outs); [|exact Hs].
  unfold TInv, term_searcher. eexists _, _, _. split; [reflexivity|]. apply mk_pit_inv. exact Hwf.
Qed.

(* so does a conjunction, and a slice disjunction with any min, of term searchers *)
Theorem conjunction_of_terms_script : forall sn l lf fuel ops outs,
  wf_sn sn -> l <> [] -> fuel_ok sn (length l) lf ->
  script_ok (conj_S (tdenots sn l)) 0 ops outs ->
  run_script lf (Datatypes.S (Datatypes.S fuel)) (mk_conj (tsearchers sn l)) ops = Ok outs.
Proof.
  intros sn l lf fuel ops outs Hwf Hne Hlf Hs.
  apply (script_spec lf _ (K2Inv sn (length l)) KFin (K2_next sn (length l) lf Hlf fuel) (K2_adv sn (length l) lf Hlf fuel)
           ops _ (conj_S (tdenots sn l)) 0 outs); [|exact Hs].
  split; [|unfold narrow, mk_conj; cbn [cj_s]; unfold tsearchers; rewrite map_length; lia].
  split; [lia|]. left. eexists _, (tdenots sn l). split; [reflexivity|]. split; [|intros x; reflexivity].
  right. split; [|reflexivity]. unfold conj_fresh. cbn [cj_init cj_max cj_s]. split; [reflexivity|]. split; [reflexivity|].
  split; [unfold tsearchers, tdenots; rewrite !map_length; reflexivity|].
  intros i c S Hc HS. eapply tsearchers_fresh; eauto.
Qed.

Theorem disjunction_of_terms_script : forall sn l k lf fuel ops outs,
  wf_sn sn -> fuel_ok sn O lf ->
  script_ok (disj_S (tdenots sn l) k) 0 ops outs ->
  run_script lf (Datatypes.S (Datatypes.S fuel)) (mk_disj_slice (tsearchers sn l) k) ops = Ok outs.
Proof.
  intros sn l k lf fuel ops outs Hwf Hlf Hs.
  apply (script_spec lf _ (K2Inv sn O) KFin (K2_next sn O lf Hlf fuel) (K2_adv sn O lf Hlf fuel)
           ops _ (disj_S (tdenots sn l) k) 0 outs); [|exact Hs].
  split; [|exact I]. split; [lia|]. right.
  eexists _, (tdenots sn l), k. split; [reflexivity|]. split; [|intros x; reflexivity].
  right. split; [|reflexivity]. unfold dsl_fresh. cbn [ds_init ds_min ds_s]. split; [reflexivity|]. split; [reflexivity|].
  split; [unfold tsearchers, tdenots; rewrite !map_length; reflexivity|].
  intros i c S Hc HS. eapply tsearchers_fresh; eauto.
Qed.
