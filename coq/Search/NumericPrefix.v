(* Search/NumericPrefix.v — proofs about the prefix coding (numeric/prefix_coded.go) and the
   index-time shift tokens (field.go addShiftTokens / numericAnalyzer) of Search/Numeric.v. *)
From Coq Require Import ZArith List Bool Lia.
From Coq Require Import ZifyBool.
From Bluge Require Import Base.Int64 Base.NumBits Base.Res Gen.ParamsNumeric Search.Numeric.
Import ListNotations.
Open Scope Z_scope.

(* the proofs of this development are for these values of the regenerated constants; a changed
   constant fails here at once (closed numerals) instead of in a slow failing conversion later *)
Lemma gen_constants :
  query_precision_step = 4 /\ numeric_precision_step = 4 /\ datetime_precision_step = 4 /\
  geo_precision_step = 9 /\ shift_start_int64 = 32.
Proof. repeat split; reflexivity. Qed.

(* ---------- the 7-bit digit loop ---------- *)

Lemma digits7_acc n : forall x acc, digits7 n x acc = digits7 n x [] ++ acc.
Proof.
  induction n as [|n IH]; intros x acc; cbn [digits7]; [reflexivity|].
  rewrite (IH _ (_ :: acc)), (IH _ [_]). rewrite <- app_assoc. reflexivity.
Qed.

Lemma digits7_S n x : digits7 (S n) x [] = digits7 n (Z.shiftr x 7) [] ++ [x mod 128].
Proof.
  cbn [digits7]. rewrite digits7_acc. change 127 with (Z.ones 7).
  rewrite Z.land_ones by lia. reflexivity.
Qed.

Lemma digits7_length n : forall x, length (digits7 n x []) = n.
Proof.
  induction n as [|n IH]; intros x; [reflexivity|].
  rewrite digits7_S, app_length, IH. cbn. lia.
Qed.

Lemma digits7_digits n : forall x, digitsB 128 (digits7 n x []).
Proof.
  induction n as [|n IH]; intros x; [constructor|].
  rewrite digits7_S. apply Forall_app. split; [apply IH|].
  constructor; [|constructor]. apply Z.mod_pos_bound. lia.
Qed.

Lemma digits7_val n : forall x, valB 128 (digits7 n x []) = x mod 128 ^ Z.of_nat n.
Proof.
  induction n as [|n IH]; intros x.
  - cbn. rewrite Z.mod_1_r. reflexivity.
  - rewrite digits7_S, valB_app by lia. rewrite IH. cbn [length valB].
    rewrite Z.shiftr_div_pow2 by lia. change (2 ^ 7) with 128.
    change (Z.of_nat 1) with 1. change (Z.of_nat 0) with 0.
    rewrite Z.pow_1_r, Z.pow_0_r.
    rewrite (Nat2Z.inj_succ n), Z.pow_succ_r by lia.
    rewrite Z.rem_mul_r by (try apply Z.pow_pos_nonneg; lia). lia.
Qed.

(* ---------- bytes.Compare on equal-length digit strings = comparison of the numbers ---------- *)

Lemma bytes_cmp_val B : 0 < B -> forall a b, digitsB B a -> digitsB B b -> length a = length b ->
  bytes_cmp a b = Z.compare (valB B a) (valB B b).
Proof.
  intros HB a. induction a as [|x a IH]; intros b Ha Hb Hl.
  - destruct b; [reflexivity|discriminate].
  - destruct b as [|y b]; [discriminate|].
    inversion Ha as [|? ? Hx Ha']; inversion Hb as [|? ? Hy Hb']; subst.
    cbn [length] in Hl. injection Hl as Hl.
    cbn [bytes_cmp valB]. rewrite <- Hl.
    pose proof (valB_bound B a HB Ha') as Ba. pose proof (valB_bound B b HB Hb') as Bb.
    rewrite <- Hl in Bb.
    destruct (Z.compare_spec x y) as [E|L|G].
    + subst y. rewrite (IH b Ha' Hb' Hl).
      destruct (Z.compare_spec (valB B a) (valB B b)); symmetry;
        [apply Z.compare_eq_iff | apply Z.compare_lt_iff | apply Z.compare_gt_iff]; lia.
    + symmetry. apply Z.compare_lt_iff. nia.
    + symmetry. apply Z.compare_gt_iff. nia.
Qed.

Lemma bytes_cmp_refl a : bytes_cmp a a = Eq.
Proof. induction a as [|x a IH]; [reflexivity|]. cbn [bytes_cmp]. rewrite Z.compare_refl. exact IH. Qed.

(* ---------- closed form of NewPrefixCodedInt64 ---------- *)

(* the shift-s term of v: header byte, then the base-128 digits of (v + 2^63) >> s *)
Definition enc (v s : Z) : list Z :=
  (shift_start_int64 + s) :: digits7 (Z.to_nat (n_chars s)) ((v + two63) / 2 ^ s) [].

Lemma n_chars_bounds s : 0 <= s <= 63 -> 1 <= n_chars s <= 10 /\ 64 - s <= 7 * n_chars s.
Proof. intros H. unfold n_chars. Z.div_mod_to_equations. lia. Qed.

Lemma prefix_coded_enc v s : in_int64 v -> 0 <= s <= 63 -> prefix_coded v s = Some (enc v s).
Proof.
  intros Hv Hs. unfold prefix_coded, enc.
  destruct (Z.ltb_spec 63 s); [lia|].
  rewrite sortable_of_int64 by assumption.
  unfold ushr64. destruct (Z.ltb_spec s 64); [|lia].
  rewrite Z.shiftr_div_pow2 by lia.
  rewrite Z.mod_small by (unfold shift_start_int64; lia). reflexivity.
Qed.

Lemma prefix_coded_none v s : 63 < s -> prefix_coded v s = None.
Proof. intros H. unfold prefix_coded. destruct (Z.ltb_spec 63 s); [reflexivity|lia]. Qed.

(* the shifted sortable value fits the digits *)
Lemma shifted_fits v s : in_int64 v -> 0 <= s <= 63 ->
  0 <= (v + two63) / 2 ^ s < 128 ^ Z.of_nat (Z.to_nat (n_chars s)).
Proof.
  intros Hv Hs. destruct (n_chars_bounds s Hs) as [Hn Hn7].
  rewrite Z2Nat.id by lia.
  change 128 with (2 ^ 7). rewrite <- Z.pow_mul_r by lia.
  pose proof (pow2_pos s ltac:(lia)) as Hp.
  unfold in_int64, min_int64, max_int64, two63 in *.
  split; [apply Z.div_pos; lia|].
  apply Z.div_lt_upper_bound; [lia|].
  rewrite <- Z.pow_add_r by lia.
  apply Z.lt_le_trans with (2 ^ 64); [lia|]. apply Z.pow_le_mono_r; lia.
Qed.

Lemma enc_digits_val v s : in_int64 v -> 0 <= s <= 63 ->
  valB 128 (tl (enc v s)) = (v + two63) / 2 ^ s.
Proof.
  intros Hv Hs. unfold enc. cbn [tl]. rewrite digits7_val.
  apply Z.mod_small. apply shifted_fits; assumption.
Qed.

Lemma enc_length v s : 0 <= s <= 63 -> Z.of_nat (length (enc v s)) = n_chars s + 1.
Proof.
  intros Hs. unfold enc. cbn [length]. rewrite digits7_length.
  destruct (n_chars_bounds s Hs). lia.
Qed.

(* ---------- prefix_order ---------- *)

Lemma compare_add_l c x y : Z.compare (c + x) (c + y) = Z.compare x y.
Proof.
  destruct (Z.compare_spec x y); [apply Z.compare_eq_iff | apply Z.compare_lt_iff | apply Z.compare_gt_iff]; lia.
Qed.

Lemma enc_cmp s s' a b : in_int64 a -> in_int64 b -> 0 <= s <= 63 -> 0 <= s' <= 63 ->
  length (enc a s) = length (enc b s') ->
  bytes_cmp (enc a s) (enc b s') =
    match Z.compare s s' with
    | Eq => Z.compare ((a + two63) / 2 ^ s) ((b + two63) / 2 ^ s')
    | c => c
    end.
Proof.
  intros Ha Hb Hs Hs' Hl.
  pose proof (enc_digits_val a s Ha Hs) as Va. pose proof (enc_digits_val b s' Hb Hs') as Vb.
  unfold enc in *. cbn [bytes_cmp tl length] in *. injection Hl as Hl.
  rewrite compare_add_l.
  destruct (Z.compare s s'); try reflexivity.
  rewrite (bytes_cmp_val 128) by (try apply digits7_digits; try exact Hl; lia).
  rewrite Va, Vb. reflexivity.
Qed.

(* at every shift the encodings have equal lengths and compare like the truncated sortable values *)
Lemma prefix_order_all s a b pa pb : 0 <= s <= 63 -> in_int64 a -> in_int64 b ->
  prefix_coded a s = Some pa -> prefix_coded b s = Some pb ->
  bytes_cmp pa pb = Z.compare ((a + 2 ^ 63) / 2 ^ s) ((b + 2 ^ 63) / 2 ^ s) /\ length pa = length pb.
Proof.
  intros Hs Ha Hb Ea Eb.
  rewrite prefix_coded_enc in Ea, Eb by assumption. injection Ea as <-. injection Eb as <-.
  assert (Hl : length (enc a s) = length (enc b s)).
  { apply Nat2Z.inj. rewrite !enc_length by assumption. reflexivity. }
  split; [|exact Hl].
  rewrite enc_cmp by assumption. rewrite Z.compare_refl. rewrite <- two63_eq. reflexivity.
Qed.

(* in the signed domain: terms at shift s compare like the floor quotients v / 2^s *)
Lemma enc_cmp_signed s a b : 0 <= s <= 63 -> in_int64 a -> in_int64 b ->
  bytes_cmp (enc a s) (enc b s) = Z.compare (a / 2 ^ s) (b / 2 ^ s).
Proof.
  intros Hs Ha Hb.
  assert (Hl : length (enc a s) = length (enc b s)).
  { apply Nat2Z.inj. rewrite !enc_length by assumption. reflexivity. }
  rewrite enc_cmp by assumption. rewrite Z.compare_refl.
  rewrite !div_add_two63 by assumption.
  rewrite (Z.add_comm (a / _)), (Z.add_comm (b / _)). apply compare_add_l.
Qed.

(* shift 0: bytewise order = numeric order *)
Lemma prefix_order_shift0 a b pa pb : in_int64 a -> in_int64 b ->
  prefix_coded a 0 = Some pa -> prefix_coded b 0 = Some pb ->
  bytes_cmp pa pb = Z.compare a b.
Proof.
  intros Ha Hb Ea Eb.
  rewrite prefix_coded_enc in Ea, Eb by (assumption || lia). injection Ea as <-. injection Eb as <-.
  rewrite enc_cmp_signed by (assumption || lia). rewrite Z.pow_0_r, !Z.div_1_r. reflexivity.
Qed.

(* ---------- prefix_roundtrip ---------- *)

Lemma pc_shift_enc v s : 0 <= s <= 63 -> pc_shift (enc v s) = if s <? 63 then Some s else None.
Proof.
  intros Hs. unfold pc_shift, enc.
  replace (shift_start_int64 + s - shift_start_int64) with s by lia.
  rewrite Z.mod_small by lia. reflexivity.
Qed.

(* the decoding loop `sortableBits <<= 7; sortableBits |= int64(inbyte)` over base-128 digits *)
Lemma decode_fold l : digitsB 128 l -> forall z,
  fold_left (fun acc b => Z.lor (shl64 acc 7) b) l (wrap64 z)
  = wrap64 (z * 128 ^ Z.of_nat (length l) + valB 128 l).
Proof.
  induction 1 as [|d t Hd Ht IH]; intros z.
  - cbn. f_equal. lia.
  - cbn [fold_left valB length].
    assert (E : Z.lor (shl64 (wrap64 z) 7) d = wrap64 (z * 128 + d)).
    { unfold shl64. cbn [Z.ltb Z.compare Pos.compare Pos.compare_cont].
      rewrite Z.shiftl_mul_pow2 by lia. change (2 ^ 7) with 128.
      destruct (wrap64_decomp z) as [k Hk].
      destruct (wrap64_decomp (wrap64 z * 128)) as [j Hj].
      pose proof (wrap64_range (wrap64 z * 128)) as R.
      set (y := wrap64 (wrap64 z * 128)) in *.
      assert (Hy : y mod 2 ^ 7 = 0).
      { rewrite Hj, Hk. change (2 ^ 7) with 128.
        replace ((z + k * two64) * 128 + j * two64) with ((z + k * two64 + j * 144115188075855872) * 128)
          by (unfold two64; ring).
        apply Z.mod_mul. lia. }
      rewrite (lor_add_low y d 7) by (try assumption; lia).
      symmetry. apply wrap64_congr with (k := - (k * 128 + j)).
      - unfold in_int64, min_int64, max_int64 in *. change (2 ^ 7) with 128 in Hy.
        Z.div_mod_to_equations. lia.
      - lia. }
    rewrite E, IH. f_equal.
    rewrite Nat2Z.inj_succ, Z.pow_succ_r by lia. ring.
Qed.

(* v with its low s bits cleared *)
Lemma ldiff_ones_arith v s : 0 <= s -> Z.ldiff v (Z.ones s) = 2 ^ s * (v / 2 ^ s).
Proof.
  intros Hs. rewrite Z.ldiff_ones_r by lia.
  rewrite Z.shiftl_mul_pow2, Z.shiftr_div_pow2 by lia. ring.
Qed.

Lemma pc_int64_enc v s : in_int64 v -> 0 <= s <= 62 ->
  pc_int64 (enc v s) = Some (Z.ldiff v (Z.ones s)).
Proof.
  intros Hv Hs. unfold pc_int64. rewrite pc_shift_enc by lia.
  destruct (Z.ltb_spec s 63); [|lia]. f_equal.
  pose proof (enc_digits_val v s Hv ltac:(lia)) as Val.
  pose proof (shifted_fits v s Hv ltac:(lia)) as Fit.
  set (q := (v + two63) / 2 ^ s) in *.
  change 0 with (wrap64 0) at 1.
  rewrite decode_fold by (unfold enc; cbn [tl]; apply digits7_digits).
  rewrite Val, Z.mul_0_l, Z.add_0_l.
  pose proof (pow2_pos s ltac:(lia)) as Hp.
  (* sortableBits << shift *)
  assert (Hsh : shl64 (wrap64 q) s = wrap64 (q * 2 ^ s)).
  { unfold shl64. destruct (Z.ltb_spec s 64); [|lia].
    rewrite Z.shiftl_mul_pow2 by lia. destruct (wrap64_decomp q) as [k Hk].
    apply wrap64_eqm with (k := k * 2 ^ s). rewrite Hk. ring. }
  rewrite Hsh.
  assert (Hq : q * 2 ^ s = v + two63 - (v + two63) mod 2 ^ s).
  { unfold q. pose proof (Z.div_mod (v + two63) (2 ^ s) ltac:(lia)). lia. }
  assert (Hu : in_uint64 (q * 2 ^ s)).
  { pose proof (Z.mod_pos_bound (v + two63) (2 ^ s) Hp).
    unfold in_uint64, in_int64, min_int64, max_int64, two63, two64 in *.
    split; [apply Z.mul_nonneg_nonneg; lia|]. lia. }
  assert (Huw : uwrap64 (wrap64 (q * 2 ^ s)) = q * 2 ^ s).
  { destruct (wrap64_decomp (q * 2 ^ s)) as [k Hk].
    apply uwrap64_congr with (k := k); [exact Hu|]. exact Hk. }
  rewrite Huw, unsortable_of_uint64 by exact Hu.
  rewrite ldiff_ones_arith by lia.
  unfold q. rewrite div_add_two63 by lia. rewrite (pow2_63_split s) by lia. ring.
Qed.

Lemma prefix_roundtrip_all v : in_int64 v ->
  (exists p, prefix_coded v 0 = Some p) /\
  (forall p, prefix_coded v 0 = Some p -> pc_int64 p = Some v) /\
  (forall s p, 0 <= s <= 62 -> prefix_coded v s = Some p -> pc_int64 p = Some (Z.ldiff v (Z.ones s))) /\
  (forall p, prefix_coded v 63 = Some p -> pc_int64 p = None).
Proof.
  intros Hv. repeat split.
  - exists (enc v 0). apply prefix_coded_enc; [assumption|lia].
  - intros p E. rewrite prefix_coded_enc in E by (assumption || lia). injection E as <-.
    rewrite pc_int64_enc by (assumption || lia). cbn [Z.ones Z.shiftl Z.pred Z.add Z.opp Z.pos_sub].
    rewrite Z.ldiff_0_r. reflexivity.
  - intros s p Hs E. rewrite prefix_coded_enc in E by (assumption || lia). injection E as <-.
    apply pc_int64_enc; assumption.
  - intros p E. rewrite prefix_coded_enc in E by (assumption || lia). injection E as <-.
    unfold pc_int64. rewrite pc_shift_enc by lia. reflexivity.
Qed.

(* ---------- ValidPrefixCodedTermBytes ---------- *)

(* what the function accepts: first byte in [0x20, 0x20+63], and the length that goes with that shift;
   the remaining bytes are not inspected *)
Lemma valid_prefix_coded_spec p s :
  valid_prefix_coded p = (true, s) <->
  exists b rest, p = b :: rest /\ shift_start_int64 <= b <= shift_start_int64 + 63 /\
                 s = b - shift_start_int64 /\ Z.of_nat (length p) = n_chars s + 1.
Proof.
  unfold valid_prefix_coded. destruct p as [|b rest].
  - split; [discriminate|]. intros (b & r & E & _). discriminate.
  - destruct (Z.ltb_spec b shift_start_int64) as [H1|H1];
    destruct (Z.ltb_spec (shift_start_int64 + 63) b) as [H2|H2]; cbn [orb].
    1-3: split; [discriminate|]; intros (b' & r & E & Hb & _); injection E as <- <-; lia.
    fold (n_chars (b - shift_start_int64)).
    destruct (Z.eqb_spec (Z.of_nat (length (b :: rest))) (n_chars (b - shift_start_int64) + 1)) as [E|E].
    + split.
      * intros H. injection H as <-. exists b, rest. repeat split; lia.
      * intros (b' & r & E' & Hb & -> & Hl). injection E' as <- <-. reflexivity.
    + split; [discriminate|]. intros (b' & r & E' & Hb & -> & Hl). injection E' as <- <-. lia.
Qed.

Lemma valid_prefix_coded_false p :
  (forall s, valid_prefix_coded p <> (true, s)) -> valid_prefix_coded p = (false, 0).
Proof.
  unfold valid_prefix_coded. destruct p as [|b rest]; [reflexivity|].
  destruct (_ || _); [reflexivity|]. destruct (_ =? _); [|reflexivity].
  intros H. exfalso. eapply H. reflexivity.
Qed.

Lemma valid_prefix_coded_images_all v s p : in_int64 v -> 0 <= s <= 63 ->
  prefix_coded v s = Some p -> valid_prefix_coded p = (true, s).
Proof.
  intros Hv Hs E. rewrite prefix_coded_enc in E by assumption. injection E as <-.
  apply valid_prefix_coded_spec. exists (shift_start_int64 + s), (tl (enc v s)).
  repeat split; try (unfold enc; cbn [tl]; reflexivity); try lia.
  apply enc_length. assumption.
Qed.

(* the last byte of any image is a 7-bit digit ... *)
Lemma prefix_coded_last v s p : prefix_coded v s = Some p -> 0 <= last p 0 < 128.
Proof.
  unfold prefix_coded. destruct (63 <? s) eqn:E; [discriminate|]. intros H. injection H as <-.
  assert (Hn : exists n, Z.to_nat (n_chars s) = S n).
  { assert (1 <= n_chars s).
    { unfold n_chars. destruct (Z.ltb_spec 63 s); [discriminate|]. Z.div_mod_to_equations. lia. }
    exists (Z.to_nat (n_chars s - 1)). lia. }
  destruct Hn as [n ->]. rewrite digits7_S.
  rewrite app_comm_cons, last_last. apply Z.mod_pos_bound. lia.
Qed.

(* ... so the acceptance test is strictly weaker than "is an image": *)
Lemma valid_prefix_coded_exact_refuted_all :
  exists p, valid_prefix_coded p = (true, 0) /\ forall v s, prefix_coded v s <> Some p.
Proof.
  exists [32; 255; 255; 255; 255; 255; 255; 255; 255; 255; 255]. split; [reflexivity|].
  intros v s E. apply prefix_coded_last in E. cbn in E. lia.
Qed.

(* ---------- index-time tokens ---------- *)

Lemma shift_tokens_from_S f v s st : in_int64 v -> 0 <= s ->
  shift_tokens_from (S f) v s st =
    if s <? 64 then enc v s :: shift_tokens_from f v (s + st) st else [].
Proof.
  intros Hv Hs. cbn [shift_tokens_from]. destruct (Z.ltb_spec s 64); [|reflexivity].
  rewrite prefix_coded_enc by (assumption || lia). reflexivity.
Qed.

(* numericAnalyzer.Analyze with step 4: the terms of v at shifts 0, 4, ..., 60 *)
Lemma index_tokens_4 v : in_int64 v ->
  index_tokens v 4 = map (enc v) [0; 4; 8; 12; 16; 20; 24; 28; 32; 36; 40; 44; 48; 52; 56; 60].
Proof.
  intros Hv. unfold index_tokens.
  rewrite prefix_coded_enc by (assumption || lia).
  rewrite pc_int64_enc by (assumption || lia).
  replace (Z.ldiff v (Z.ones 0)) with v by (cbn; rewrite Z.ldiff_0_r; reflexivity).
  do 15 (rewrite shift_tokens_from_S by (assumption || lia);
         match goal with |- context [?a <? 64] =>
           let b := eval vm_compute in (a <? 64) in change (a <? 64) with b end; cbv iota;
         match goal with |- context [shift_tokens_from ?f v (?a + 4) 4] =>
           let c := eval vm_compute in (a + 4) in change (a + 4) with c end).
  rewrite shift_tokens_from_S by (assumption || lia). reflexivity.
Qed.

Lemma index_tokens_prefix_coded v : in_int64 v ->
  map Some (index_tokens v numeric_precision_step)
  = map (prefix_coded v) [0; 4; 8; 12; 16; 20; 24; 28; 32; 36; 40; 44; 48; 52; 56; 60].
Proof.
  intros Hv. unfold numeric_precision_step. rewrite index_tokens_4 by assumption.
  rewrite map_map. apply map_ext_in. intros s Hs. symmetry. apply prefix_coded_enc; [assumption|].
  cbn in Hs. lia.
Qed.

Lemma in_index_tokens v t : in_int64 v ->
  (In t (index_tokens v 4) <-> exists s, 0 <= s <= 60 /\ s mod 4 = 0 /\ t = enc v s).
Proof.
  intros Hv. rewrite index_tokens_4 by assumption. rewrite in_map_iff. split.
  - intros (s & <- & Hs). exists s. cbn in Hs.
    repeat (destruct Hs as [<-|Hs]; [split; [lia|split; reflexivity]|]). destruct Hs.
  - intros (s & Hs & Hm & ->). exists s. split; [reflexivity|].
    assert (s = 0 \/ s = 4 \/ s = 8 \/ s = 12 \/ s = 16 \/ s = 20 \/ s = 24 \/ s = 28 \/ s = 32 \/
            s = 36 \/ s = 40 \/ s = 44 \/ s = 48 \/ s = 52 \/ s = 56 \/ s = 60) as D
      by (Z.div_mod_to_equations; lia).
    repeat (destruct D as [D|D]; [subst s; unfold In; tauto|]). subst s; unfold In; tauto.
Qed.

(* geo point fields (field.go NewGeoPointField, shiftBy = geoPrecisionStep): the terms of the
   Morton hash at shifts 0, 9, ..., 63 *)
Lemma index_tokens_9 v : in_int64 v ->
  index_tokens v 9 = map (enc v) [0; 9; 18; 27; 36; 45; 54; 63].
Proof.
  intros Hv. unfold index_tokens.
  rewrite prefix_coded_enc by (assumption || lia).
  rewrite pc_int64_enc by (assumption || lia).
  replace (Z.ldiff v (Z.ones 0)) with v by (cbn; rewrite Z.ldiff_0_r; reflexivity).
  do 7 (rewrite shift_tokens_from_S by (assumption || lia);
        match goal with |- context [?a <? 64] =>
          let b := eval vm_compute in (a <? 64) in change (a <? 64) with b end; cbv iota;
        match goal with |- context [shift_tokens_from ?f v (?a + 9) 9] =>
          let c := eval vm_compute in (a + 9) in change (a + 9) with c end).
  rewrite shift_tokens_from_S by (assumption || lia). reflexivity.
Qed.

Lemma index_tokens_geo v : in_int64 v ->
  map Some (index_tokens v geo_precision_step) = map (prefix_coded v) [0; 9; 18; 27; 36; 45; 54; 63].
Proof.
  intros Hv. unfold geo_precision_step. rewrite index_tokens_9 by assumption.
  rewrite map_map. apply map_ext_in. intros s Hs. symmetry. apply prefix_coded_enc; [assumption|].
  cbn in Hs. lia.
Qed.

Lemma index_tokens_datetime v :
  index_tokens v datetime_precision_step = index_tokens v numeric_precision_step.
Proof. replace datetime_precision_step with numeric_precision_step by reflexivity. reflexivity. Qed.

(* every byte after the header of any term is a 7-bit digit: the candidate strings with a byte
   >= 0x80 that termRange.Enumerate walks through are never terms of a numeric field *)
Lemma prefix_coded_7bit v s p : prefix_coded v s = Some p -> Forall (fun d => 0 <= d < 128) (tl p).
Proof.
  unfold prefix_coded. destruct (63 <? s); [discriminate|]. intros H. injection H as <-.
  cbn [tl]. apply digits7_digits.
Qed.
