(* Search/Layout.v — C08: a layout is any list of segments with deleted sets; what the
   searches may depend on is only the logical content, the multiset of live documents.
   Definitions only (statistics as summed by index/snapshot.go CollectionStats (213-242) and
   postingsIterator.Count (index/postings.go:117-123); MultiSearch as multisearch.go
   MultiSearcherList.Next (35-52): the searchers of the readers one after the other). *)
From Coq Require Import ZArith List Bool.
From Bluge Require Import Base.Res Base.Corr Search.Numeric Search.Postings Search.Searchers Search.Semantics.
Import ListNotations.
Open Scope Z_scope.

(* the logical content of a snapshot: its live documents (as a multiset: up to Permutation) *)
Definition logical (sn : snapshot) : list doc := map snd (live_docs sn).

Definition no_pending_deletes (sn : snapshot) : Prop := forall s, In s sn -> seg_del s = [].

(* ---------- collection statistics ---------- *)

Record cstats := { cs_total : Z; cs_docs : Z; cs_sumtf : Z }.
Definition cstats_zero : cstats := {| cs_total := 0; cs_docs := 0; cs_sumtf := 0 |}.
Definition cstats_add (a b : cstats) : cstats :=
  {| cs_total := cs_total a + cs_total b; cs_docs := cs_docs a + cs_docs b; cs_sumtf := cs_sumtf a + cs_sumtf b |}.

Definition has_field (f : Z) (d : doc) : bool := match field_terms d f with [] => false | _ => true end.

(* token count of field f in d (the positions are recorded for fields indexed with term vectors) *)
Definition field_length (f : Z) (d : doc) : Z :=
  fold_right (fun x a => Z.of_nat (length (tf_pos x)) + a) 0 (field_terms d f).

(* ice Segment.CollectionStats (third party): documents of the segment, documents holding the
   field, tokens of the field; all zero when no document of the segment has the field.
   Deleted documents are still counted: the segment is immutable. *)
Definition seg_stats (f : Z) (s : segment) : cstats :=
  let withf := filter (has_field f) (seg_docs s) in
  match withf with
  | [] => cstats_zero
  | _ => {| cs_total := seg_count s; cs_docs := Z.of_nat (length withf);
            cs_sumtf := fold_right (fun d a => field_length f d + a) 0 withf |}
  end.

(* Snapshot.CollectionStats: rv = first segment's stats; rv.Merge(next) ... *)
Definition collection_stats (f : Z) (sn : snapshot) : cstats :=
  fold_right (fun s a => cstats_add (seg_stats f s) a) cstats_zero sn.

(* postingsIterator.Count: sum over the segments of the postings counts (deleted excluded) *)
Definition doc_freq (f : Z) (t : list Z) (sn : snapshot) : Z :=
  fold_right (fun s a => Z.of_nat (length (seg_postings f t s)) + a) 0 sn.

(* the same quantities over a bare list of documents *)
Definition docs_with_field (f : Z) (ds : list doc) : Z := Z.of_nat (length (filter (has_field f) ds)).
Definition docs_sumtf (f : Z) (ds : list doc) : Z := fold_right (fun d a => field_length f d + a) 0 (filter (has_field f) ds).
Definition docs_freq (f : Z) (t : list Z) (ds : list doc) : Z := Z.of_nat (length (filter (fun d => has_term d f t) ds)).

(* ---------- answers ---------- *)

(* ids returned for a query on one snapshot (in searcher order) *)
Definition id_at (sn : snapshot) (n : Z) : Z :=
  match filter (fun p => fst p =? n) (live_docs sn) with
  | p :: _ => d_id (snd p)
  | [] => -1
  end.

Definition answer (sn : snapshot) (o : copts) (q : query) : res (list Z) :=
  nums <- run sn o q ;; Ok (map (id_at sn) nums).

(* MultiSearch: the readers' searchers are drained one after the other *)
Fixpoint multi_answer (sns : list snapshot) (o : copts) (q : query) : res (list Z) :=
  match sns with
  | [] => Ok []
  | sn :: r => a <- answer sn o q ;; b <- multi_answer r o q ;; Ok (a ++ b)
  end.

(* the order a distinguishing sort puts the matches in depends only on the documents *)
Fixpoint insert_by (key : Z -> Z) (x : Z) (l : list Z) : list Z :=
  match l with
  | [] => [x]
  | h :: r => if key x <=? key h then x :: l else h :: insert_by key x r
  end.
Definition sort_by (key : Z -> Z) (l : list Z) : list Z := fold_right (insert_by key) [] l.
