(* Search/Sort.v — executable model of search/sort.go (SortOrder.Compute / Compare / Reverse,
   Sort.Value, sortFirstLast) and of the text value sources of search/source.go that feed a
   sort key (FieldSource.Value, firstTerm, RemoveNumericPaddedTerms, ScoreSource.Value,
   MissingTextValueSource.Value), and of DocumentMatch.LoadDocumentValues / DocValues
   (search/search.go).  bytes = list Z, nil slices = None.  No proofs in this file. *)
From Coq Require Import ZArith List Bool.
From Bluge Require Import Base.Int64 Base.Res Gen.ParamsTopN Search.Numeric.
Import ListNotations.
Open Scope Z_scope.

Definition bytes := list Z.

(* bytes.Compare: -1 / 0 / +1 *)
Fixpoint bcmp (a b : bytes) : Z :=
  match a, b with
  | [], [] => 0
  | [], _ :: _ => -1
  | _ :: _, [] => 1
  | x :: a', y :: b' => if x <? y then -1 else if y <? x then 1 else bcmp a' b'
  end.

Fixpoint beqb (a b : bytes) : bool :=
  match a, b with
  | [], [] => true
  | x :: a', y :: b' => (x =? y) && beqb a' b'
  | _, _ => false
  end.

(* ---------- documents as the collector sees them ---------- *)

(* a match as produced by a searcher, before the collector touches it *)
Record rawhit := {
  r_doc : Z;                         (* DocumentMatch.Number *)
  r_score : Z;                       (* DocumentMatch.Score, float64 bit pattern *)
  r_dv : list (Z * list bytes);      (* the document's doc values: field id -> terms, in the
                                        order the segment's DocumentValueReader visits them *)
  r_tab : list (option bytes)        (* values of harness-defined TextValueSources (None = nil) *)
}.

(* a match inside the collector: HitNumber assigned, needed doc values loaded, SortValue computed *)
Record hit := {
  h_num : Z;                         (* HitNumber *)
  h_raw : rawhit;
  h_dv : list (Z * list bytes);      (* DocumentMatch.docValues after LoadDocumentValues *)
  h_sort : list bytes                (* DocumentMatch.SortValue *)
}.

Definition h_doc (h : hit) : Z := r_doc (h_raw h).
Definition h_score (h : hit) : Z := r_score (h_raw h).

(* search/search.go:124 DocValues(field): dm.docValues[field]; all appended values of that name *)
Definition doc_values (dv : list (Z * list bytes)) (f : Z) : list bytes :=
  flat_map (fun p => if fst p =? f then snd p else []) dv.

(* search/search.go:286 DocValueReaderForReader (after the repair: each needed field is named once)
   + search.go:115 LoadDocumentValues + the segment reader's VisitDocumentValues: for every field
   in the reader's field list, in that order, every term of the document is passed to addDocValue. *)
Fixpoint dedup_fields (seen fields : list Z) : list Z :=
  match fields with
  | [] => []
  | f :: t => if existsb (Z.eqb f) seen then dedup_fields seen t else f :: dedup_fields (f :: seen) t
  end.

Definition load_doc_values (needed : list Z) (r : rawhit) : list (Z * list bytes) :=
  map (fun f => (f, doc_values (r_dv r) f)) (dedup_fields [] needed).

(* ---------- search/source.go ---------- *)

Inductive tsource :=
| TSField (f : Z)        (* search.Field(name) *)
| TSScore                (* search.DocumentScore() *)
| TSTab (i : nat).       (* a caller-defined TextValueSource with no fields (harness table) *)

Definition tsource_fields (s : tsource) : list Z :=
  match s with TSField f => [f] | _ => [] end.

(* source.go:384-405 RemoveNumericPaddedTerms: the loop stops at the first term that is not a
   shift-0 prefix-coded value *)
Fixpoint zero_padded_prefix (l : list bytes) : list bytes * bool :=
  match l with
  | [] => ([], true)
  | t :: r =>
      match pc_shift t with
      | Some 0 => let '(z, ok) := zero_padded_prefix r in (t :: z, ok)
      | _ => ([], false)
      end
  end.
Definition remove_numeric_padded_terms (l : list bytes) : list bytes :=
  let '(z, ok) := zero_padded_prefix l in
  if ok && negb (match z with [] => true | _ => false end) then z else l.

(* source.go:356 firstTerm *)
Definition first_term (l : list bytes) : option bytes :=
  match l with [] => None | t :: _ => Some t end.

(* TextValueSource.Value for the primary source *)
Definition primary_value (s : tsource) (h : hit) : option bytes :=
  match s with
  | TSField f => first_term (remove_numeric_padded_terms (doc_values (h_dv h) f))   (* source.go:77 *)
  | TSScore => prefix_coded (f2i (h_score h)) 0                                     (* source.go:169 *)
  | TSTab i => nth i (r_tab (h_raw h)) None
  end.

(* ---------- search/sort.go ---------- *)

Record sortspec := { s_src : tsource; s_desc : bool; s_first : bool }.

(* sort.go:153-162 sortFirstLast.Value *)
Definition first_last (desc first : bool) : bytes :=
  if desc && first then high_term
  else if desc then low_term
  else if first then low_term
  else high_term.

(* sort.go:115 Sort.Value = MissingTextValueSource.Value (source.go:196): primary unless nil *)
Definition sort_value (s : sortspec) (h : hit) : bytes :=
  match primary_value (s_src s) h with
  | Some v => v
  | None => first_last (s_desc s) (s_first s)
  end.

(* sort.go:40 Compute: appends one value per sort to match.SortValue *)
Definition compute (o : list sortspec) (h : hit) : hit :=
  {| h_num := h_num h; h_raw := h_raw h; h_dv := h_dv h;
     h_sort := h_sort h ++ map (fun s => sort_value s h) o |}.

(* sort.go:33 Reverse *)
Definition reverse_order (o : list sortspec) : list sortspec :=
  map (fun s => {| s_src := s_src s; s_desc := negb (s_desc s); s_first := negb (s_first s) |}) o.

(* sort.go:21 Fields *)
Definition order_fields (o : list sortspec) : list Z := flat_map (fun s => tsource_fields (s_src s)) o.

(* sort.go:49-65: the loop over the sorts; iVal := i.SortValue[x] panics when the slice is too
   short, which compare_checked reports; cmp_keys itself reads a missing entry as empty. *)
Fixpoint cmp_keys (descs : list bool) (a b : list bytes) : Z :=
  match descs with
  | [] => 0
  | d :: ds =>
      let c := bcmp (hd [] a) (hd [] b) in
      if c =? 0 then cmp_keys ds (tl a) (tl b)
      else if d then - c else c
  end.

Definition descs_of (o : list sortspec) : list bool := map s_desc o.

(* sort.go:66-73 hit number tie-break *)
Definition cmp_num (a b : Z) : Z := if a =? b then 0 else if b <? a then 1 else -1.

Definition compare (descs : list bool) (i j : hit) : Z :=
  let c := cmp_keys descs (h_sort i) (h_sort j) in
  if c =? 0 then cmp_num (h_num i) (h_num j) else c.

(* index-out-of-range condition of Compare *)
Definition keys_long_enough (descs : list bool) (k : list bytes) : bool :=
  (length descs <=? length k)%nat.
