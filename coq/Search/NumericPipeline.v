(* Search/NumericPipeline.v — the executable query pipeline of the model
   (numeric_range_terms = range_bounds ; split_range ; enumerate_ranges over a dictionary predicate,
   then doc_matches) agrees with the declarative matching used by split_exact /
   numeric_range_exact: whenever the enumeration finishes, a document whose tokens are in the
   dictionary is matched iff its value lies in the interval.  This is the function the
   correspondence cases CRangeQ / CDateQ evaluate against the implementation. *)
From Coq Require Import ZArith List Bool Lia.
From Coq Require Import ZifyBool.
From Bluge Require Import Base.Int64 Base.NumBits Base.Res Gen.ParamsNumeric Search.Numeric Search.NumericProofs
  Search.NumericPrefix Search.NumericSplit Search.NumericEnum Search.NumericRange.
Import ListNotations.
Open Scope Z_scope.

(* ---------- shape of the ranges of splitInt64Range: what enumerate_spec needs ---------- *)

Definition range_shape (r : trange) : Prop :=
  wf_bytes (tr_start r) /\ wf_bytes (tr_end r) /\ length (tr_start r) = length (tr_end r).

Lemma prefix_coded_wf v s p : prefix_coded v s = Some p ->
  wf_bytes p /\ length p = S (Z.to_nat (n_chars s)).
Proof.
  intros E. pose proof (prefix_coded_7bit v s p E) as D. revert E D.
  unfold prefix_coded. destruct (63 <? s); [discriminate|]. intros H. injection H as <-. cbn [tl]. intros D.
  split.
  - constructor; [apply Z.mod_pos_bound; lia|].
    eapply Forall_impl; [|exact D]. cbn. intros a Ha. lia.
  - cbn [length]. rewrite digits7_length. reflexivity.
Qed.

Lemma new_range_shape x y s r : new_range x y s = Ok r -> range_shape r.
Proof.
  unfold new_range. destruct (prefix_coded x s) as [a|] eqn:Ea; [|discriminate].
  destruct (prefix_coded (Z.lor y _) s) as [b|] eqn:Eb; [|discriminate]. intros H. injection H as <-.
  destruct (prefix_coded_wf _ _ _ Ea) as (Wa & La). destruct (prefix_coded_wf _ _ _ Eb) as (Wb & Lb).
  unfold range_shape. cbn [tr_start tr_end]. repeat split; try assumption. congruence.
Qed.

Lemma split_loop_shape fuel : forall minB maxB s acc rs, Forall range_shape acc ->
  split_loop fuel minB maxB s 4 acc = Ok rs -> Forall range_shape rs.
Proof.
  induction fuel as [|f IH]; intros minB maxB s acc rs Hacc E; [discriminate|].
  rewrite split_loop_S in E.
  assert (Hadd : forall x y acc0 res, Forall range_shape acc0 ->
            (r <- new_range x y s ;; Ok (acc0 ++ [r])) = Ok res -> Forall range_shape res).
  { intros x y acc0 res H0 H. destruct (new_range x y s) as [r| | |] eqn:En; try discriminate.
    cbn [rbind] in H. injection H as <-. apply Forall_app. split; [exact H0|].
    constructor; [|constructor]. eapply new_range_shape. exact En. }
  destruct (sl_exit minB maxB s); [eapply Hadd; eassumption|].
  destruct (if sl_hasLower minB s then _ else _) as [acc1| | |] eqn:E1; try discriminate.
  cbn [rbind] in E.
  destruct (if sl_hasUpper maxB s then _ else _) as [acc2| | |] eqn:E2; try discriminate.
  cbn [rbind] in E.
  assert (H1 : Forall range_shape acc1).
  { destruct (sl_hasLower minB s); [eapply Hadd; eassumption|]. injection E1 as <-. exact Hacc. }
  assert (H2 : Forall range_shape acc2).
  { destruct (sl_hasUpper maxB s); [eapply Hadd; eassumption|]. injection E2 as <-. exact H1. }
  eapply IH; eassumption.
Qed.

Lemma split_range_shape lo hi rs : split_range lo hi query_precision_step = Ok rs -> Forall range_shape rs.
Proof.
  unfold split_range, query_precision_step. destruct (hi <? lo).
  - intros H. injection H as <-. constructor.
  - apply split_loop_shape. constructor.
Qed.

(* ---------- enumerate_ranges ---------- *)

Lemma enumerate_ranges_in fuel dict : forall rs terms, Forall range_shape rs ->
  enumerate_ranges fuel rs dict = Ok terms ->
  forall t, In t terms <-> exists r, In r rs /\ in_trange r t = true /\ wf_bytes t /\ dict t = true.
Proof.
  induction rs as [|r rs IH]; intros terms Hs E t.
  - cbn in E. injection E as <-. split; [intros []|intros (r & [] & _)].
  - inversion Hs as [|? ? (Ws & We & Hl) Hrest]; subst.
    cbn [enumerate_ranges] in E.
    destruct (enumerate_range fuel r dict) as [a| | |] eqn:Ea; try discriminate. cbn [rbind] in E.
    destruct (enumerate_ranges fuel rs dict) as [b| | |] eqn:Eb; try discriminate. cbn [rbind] in E.
    injection E as <-.
    destruct (enumerate_spec_all fuel r dict a Ws We Hl Ea) as (_ & Hin & _ & _).
    rewrite in_app_iff, (Hin t), (IH b Hrest eq_refl t). unfold in_trange.
    split.
    + intros [(L & W & B1 & B2 & D)|(r' & Hr' & H')].
      * exists r. split; [left; reflexivity|]. rewrite L, Nat.eqb_refl, B1, B2. tauto.
      * exists r'. split; [right; exact Hr'|exact H'].
    + intros (r' & [<-|Hr'] & H & W & D).
      * left. rewrite !andb_true_iff, Nat.eqb_eq in H. tauto.
      * right. exists r'. tauto.
Qed.

(* ---------- doc_matches ---------- *)

Lemma bytes_cmp_eq a : forall b, bytes_cmp a b = Eq <-> a = b.
Proof.
  induction a as [|x a IH]; intros [|y b]; cbn [bytes_cmp]; try (split; [discriminate|discriminate]).
  - tauto.
  - destruct (Z.compare_spec x y) as [->|L|G].
    + rewrite IH. split; [intros ->; reflexivity|intros H; injection H; tauto].
    + split; [discriminate|]. intros H. injection H as -> _. lia.
    + split; [discriminate|]. intros H. injection H as -> _. lia.
Qed.

Lemma bytes_eqb_eq a b : bytes_eqb a b = true <-> a = b.
Proof.
  unfold bytes_eqb. rewrite <- bytes_cmp_eq. destruct (bytes_cmp a b); split; congruence.
Qed.

Lemma doc_matches_in terms v :
  doc_matches terms v = true <-> exists t, In t (index_tokens v numeric_precision_step) /\ In t terms.
Proof.
  unfold doc_matches. rewrite existsb_exists. split.
  - intros (t & Ht & H). rewrite existsb_exists in H. destruct H as (t' & Ht' & E).
    apply bytes_eqb_eq in E. subst t'. exists t. tauto.
  - intros (t & Ht & Hin). exists t. split; [exact Ht|]. rewrite existsb_exists. exists t.
    split; [exact Hin|]. apply bytes_eqb_eq. reflexivity.
Qed.

Lemma index_token_wf v t : in_int64 v -> In t (index_tokens v numeric_precision_step) -> wf_bytes t.
Proof.
  intros Hv Hin. unfold numeric_precision_step in Hin. apply in_index_tokens in Hin; [|assumption].
  destruct Hin as (s & Hs & _ & ->). apply enc_wf. lia.
Qed.

(* ---------- the pipeline ---------- *)

(* int64 interval: whenever split + enumerate finish, a document all of whose tokens the dictionary
   contains is matched iff lo <= v <= hi *)
Lemma range_pipeline_exact_all lo hi fuel dict terms v : in_int64 lo -> in_int64 hi -> in_int64 v ->
  (forall t, In t (index_tokens v numeric_precision_step) -> dict t = true) ->
  (rs <- split_range lo hi query_precision_step ;; enumerate_ranges fuel rs dict) = Ok terms ->
  (doc_matches terms v = true <-> lo <= v <= hi).
Proof.
  intros Hlo Hhi Hv Hd E.
  destruct (split_exact_all lo hi Hlo Hhi) as (rs & Ers & C). rewrite Ers in E. cbn [rbind] in E.
  pose proof (enumerate_ranges_in fuel dict rs terms (split_range_shape _ _ _ Ers) E) as Hin.
  rewrite doc_matches_in, <- (C v Hv). split.
  - intros (t & Ht & Htt). apply Hin in Htt. destruct Htt as (r & Hr & H & _ & _).
    exists r. split; [exact Hr|]. exists t. tauto.
  - intros (r & Hr & t & Ht & H). exists t. split; [exact Ht|]. apply Hin. exists r.
    repeat split; try assumption; [eapply index_token_wf; eassumption | apply Hd; exact Ht].
Qed.

(* the numeric front end: float end points, finite document value *)
Lemma numeric_pipeline_exact_all lo hi il ih dict terms x :
  in_uint64 lo -> in_uint64 hi -> in_uint64 x -> finite x ->
  (forall t, In t (index_tokens (f2i x) numeric_precision_step) -> dict t = true) ->
  numeric_range_terms lo hi il ih dict = Ok terms ->
  (doc_matches terms (f2i x) = true <-> lower_ok lo il x /\ upper_ok hi ih x).
Proof.
  intros Hlo Hhi Hx Hf Hd E. unfold numeric_range_terms in E.
  rewrite range_bounds_split in E.
  pose proof (f2i_range x Hx) as Rx.
  destruct (range_bounds_guards lo hi il ih (f2i x) Hlo Hhi Rx) as (Il & Ih & _ & _).
  rewrite (range_pipeline_exact_all _ _ _ _ _ _ Il Ih Rx Hd E).
  destruct (numeric_range_exact_all lo hi il ih x Hlo Hhi Hx Hf) as (rs & Ers & C).
  rewrite range_bounds_split in Ers. cbn [fst snd] in Ers.
  destruct (split_exact_all _ _ Il Ih) as (rs' & Ers' & C').
  rewrite Ers in Ers'. injection Ers' as <-.
  rewrite <- C. unfold covered, covers. symmetry. apply (C' (f2i x) Rx).
Qed.

(* an instance: the query [1.5, 10.0) over a dictionary holding the terms of 3.0 and of -2.0 *)
Definition ex_dict (t : list Z) : bool :=
  existsb (bytes_eqb t) (index_tokens (f2i 0x4008000000000000) numeric_precision_step ++
                         index_tokens (f2i 0xC000000000000000) numeric_precision_step).

Lemma ex_numeric_pipeline :
  exists terms, numeric_range_terms 0x3FF8000000000000 0x4024000000000000 true false ex_dict = Ok terms /\
                length terms = 1%nat /\
                doc_matches terms (f2i 0x4008000000000000) = true /\
                doc_matches terms (f2i 0xC000000000000000) = false.
Proof. eexists. split; [vm_compute; reflexivity|]. repeat split; vm_compute; reflexivity. Qed.
