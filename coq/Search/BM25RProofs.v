(* Search/BM25RProofs.v — the BM25 laws of property C17 over the reals, for the formulas the
   code computes (Search/BM25R.v). *)
From Coq Require Import Reals QArith Qreals List Lra Lia.
From Bluge Require Import Gen.ParamsBM25 Search.BM25R.
Import ListNotations.
Open Scope R_scope.

(* ---- values of the generated literals ---- *)
Lemma Q2R_1 : Q2R (1 # 1) = 1.
Proof. unfold Q2R; cbn [Qnum Qden]. field. Qed.
Lemma Q2R_half : Q2R (1 # 2) = / 2.
Proof. unfold Q2R; cbn [Qnum Qden]. field. Qed.

Lemma idf_lit0 : litR idf_literals 0 = 1.
Proof. unfold litR, idf_literals; cbn [nth]. exact Q2R_1. Qed.
Lemma idf_lit1 : litR idf_literals 1 = / 2.
Proof. unfold litR, idf_literals; cbn [nth]. exact Q2R_half. Qed.
Lemma idf_lit2 : litR idf_literals 2 = / 2.
Proof. unfold litR, idf_literals; cbn [nth]. exact Q2R_half. Qed.
Lemma score_lit0 : litR score_literals 0 = 1.
Proof. unfold litR, score_literals; cbn [nth]. exact Q2R_1. Qed.
Lemma score_lit1 : litR score_literals 1 = 1.
Proof. unfold litR, score_literals; cbn [nth]. exact Q2R_1. Qed.
Lemma score_lit2 : litR score_literals 2 = 1.
Proof. unfold litR, score_literals; cbn [nth]. exact Q2R_1. Qed.
Lemma tf_lit0 : litR explain_tf_literals 0 = 1.
Proof. unfold litR, explain_tf_literals; cbn [nth]. exact Q2R_1. Qed.
Lemma tf_lit1 : litR explain_tf_literals 1 = 1.
Proof. unfold litR, explain_tf_literals; cbn [nth]. exact Q2R_1. Qed.
Lemma tf_lit2 : litR explain_tf_literals 2 = 1.
Proof. unfold litR, explain_tf_literals; cbn [nth]. exact Q2R_1. Qed.
Lemma tf_lit3 : litR explain_tf_literals 3 = 1.
Proof. unfold litR, explain_tf_literals; cbn [nth]. exact Q2R_1. Qed.
Lemma tf_lit4 : litR explain_tf_literals 4 = 1.
Proof. unfold litR, explain_tf_literals; cbn [nth]. exact Q2R_1. Qed.
Lemma ex_lit0 : litR explain_literals 0 = 1.
Proof. unfold litR, explain_literals; cbn [nth]. exact Q2R_1. Qed.
Lemma ex_lit1 : litR explain_literals 1 = 1.
Proof. unfold litR, explain_literals; cbn [nth]. exact Q2R_1. Qed.
Lemma ex_lit2 : litR explain_literals 2 = 1.
Proof. unfold litR, explain_literals; cbn [nth]. exact Q2R_1. Qed.

(* whatever the generated defaults are, they must lie inside the hypotheses of the laws; proved
   from the rationals by computation, so any admissible change of the constants re-checks *)
Lemma defaults_in_range : 0 < default_k1 /\ 0 <= default_b <= 1.
Proof.
  unfold default_k1, default_b. repeat split.
  - rewrite <- RMicromega.Q2R_0. apply Qreals.Qlt_Rlt. reflexivity.
  - rewrite <- RMicromega.Q2R_0. apply Qreals.Qle_Rle. discriminate.
  - rewrite <- RMicromega.Q2R_1. apply Qreals.Qle_Rle. discriminate.
Qed.

(* ---- closed forms ---- *)
Lemma idf_arg_eq : forall n N, idf_arg n N = 1 + (N - n) + / 2 / (n + / 2).
Proof. intros. unfold idf_arg. rewrite idf_lit0, idf_lit1, idf_lit2. reflexivity. Qed.

Definition len_norm (b dl avgdl : R) : R := (1 - b) + b * dl / avgdl.

Lemma len_norm_pos : forall b dl avgdl,
  0 <= b -> b <= 1 -> 0 <= dl -> 0 < avgdl -> (b < 1 \/ 0 < dl) -> 0 < len_norm b dl avgdl.
Proof.
  intros b dl avgdl Hb0 Hb1 Hdl Havg Hlen. unfold len_norm.
  assert (Hq : 0 <= dl / avgdl) by (apply Rmult_le_pos; [lra | left; apply Rinv_0_lt_compat; lra]).
  assert (Hbq : 0 <= b * (dl / avgdl)) by (apply Rmult_le_pos; lra).
  unfold Rdiv in *. rewrite Rmult_assoc.
  destruct Hlen as [Hlt | Hdlpos].
  - lra.
  - destruct (Req_dec b 1) as [-> | Hne].
    + assert (0 < dl * / avgdl) by (apply Rmult_lt_0_compat; [lra | apply Rinv_0_lt_compat; lra]). lra.
    + lra.
Qed.

Lemma len_norm_mono : forall b dl1 dl2 avgdl,
  0 <= b -> 0 < avgdl -> dl1 <= dl2 -> len_norm b dl1 avgdl <= len_norm b dl2 avgdl.
Proof.
  intros b dl1 dl2 avgdl Hb Havg Hdl. unfold len_norm, Rdiv.
  assert (Hi : 0 < / avgdl) by (apply Rinv_0_lt_compat; lra).
  assert (b * dl1 * / avgdl <= b * dl2 * / avgdl).
  { apply Rmult_le_compat_r; [lra|]. apply Rmult_le_compat_l; lra. }
  lra.
Qed.

Lemma len_norm_mono_strict : forall b dl1 dl2 avgdl,
  0 < b -> 0 < avgdl -> dl1 < dl2 -> len_norm b dl1 avgdl < len_norm b dl2 avgdl.
Proof.
  intros b dl1 dl2 avgdl Hb Havg Hdl. unfold len_norm, Rdiv.
  assert (Hi : 0 < / avgdl) by (apply Rinv_0_lt_compat; lra).
  assert (b * dl1 * / avgdl < b * dl2 * / avgdl).
  { apply Rmult_lt_compat_r; [lra|]. apply Rmult_lt_compat_l; lra. }
  lra.
Qed.

Lemma norm_inverse_eq : forall lits k1 b dl avgdl,
  litR lits 0 = 1 -> litR lits 1 = 1 ->
  norm_inverse lits k1 b dl avgdl = / (k1 * len_norm b dl avgdl).
Proof. intros lits k1 b dl avgdl H0 H1. unfold norm_inverse, len_norm. rewrite H0, H1. unfold Rdiv. ring. Qed.

(* the saturation function  w - w/(1+x) *)
Definition sat (w x : R) : R := w - w / (1 + x).

Lemma sat_eq : forall w x, 0 <= x -> sat w x = w * (x / (1 + x)).
Proof. intros w x Hx. unfold sat. field. lra. Qed.

Lemma sat_pos : forall w x, 0 < w -> 0 < x -> 0 < sat w x.
Proof.
  intros w x Hw Hx. rewrite sat_eq by lra. apply Rmult_lt_0_compat; [lra|].
  apply Rmult_lt_0_compat; [lra | apply Rinv_0_lt_compat; lra].
Qed.

Lemma sat_lt_w : forall w x, 0 < w -> 0 <= x -> sat w x < w.
Proof.
  intros w x Hw Hx. unfold sat.
  assert (0 < w / (1 + x)) by (apply Rmult_lt_0_compat; [lra | apply Rinv_0_lt_compat; lra]). lra.
Qed.

Lemma sat_mono : forall w x1 x2, 0 < w -> 0 <= x1 -> x1 < x2 -> sat w x1 < sat w x2.
Proof.
  intros w x1 x2 Hw Hx1 Hlt. unfold sat, Rdiv.
  assert (Hi : / (1 + x2) < / (1 + x1)) by (apply Rinv_lt_contravar; [apply Rmult_lt_0_compat; lra | lra]).
  assert (w * / (1 + x2) < w * / (1 + x1)) by (apply Rmult_lt_compat_l; lra). lra.
Qed.

Lemma sat_mono_weak : forall w x1 x2, 0 < w -> 0 <= x1 -> x1 <= x2 -> sat w x1 <= sat w x2.
Proof.
  intros w x1 x2 Hw Hx1 Hle. destruct (Rle_lt_or_eq_dec _ _ Hle) as [Hlt | ->].
  - left. apply sat_mono; lra.
  - right. reflexivity.
Qed.

Lemma sat_linear : forall c w x, sat (c * w) x = c * sat w x.
Proof. intros. unfold sat, Rdiv. ring. Qed.

Lemma score_eq : forall w k1 b f dl avgdl,
  score w k1 b f dl avgdl = sat w (f * / (k1 * len_norm b dl avgdl)).
Proof.
  intros. unfold score, sat. rewrite score_lit2.
  rewrite (norm_inverse_eq _ _ _ _ _ score_lit0 score_lit1). reflexivity.
Qed.

Lemma explain_score_eq_score : forall w k1 b f dl avgdl,
  explain_score w k1 b f dl avgdl = score w k1 b f dl avgdl.
Proof.
  intros. etransitivity; [| symmetry; apply score_eq].
  unfold explain_score, sat. rewrite ex_lit2.
  rewrite (norm_inverse_eq _ _ _ _ _ ex_lit0 ex_lit1). reflexivity.
Qed.

Lemma tf_eq : forall k1 b f dl avgdl, tf k1 b f dl avgdl = sat 1 (f * / (k1 * len_norm b dl avgdl)).
Proof.
  intros. unfold tf, sat. rewrite tf_lit2, tf_lit3, tf_lit4.
  rewrite (norm_inverse_eq _ _ _ _ _ tf_lit0 tf_lit1). reflexivity.
Qed.

Lemma x_pos : forall k1 b f dl avgdl,
  0 < k1 -> 0 < f -> 0 < len_norm b dl avgdl -> 0 < f * / (k1 * len_norm b dl avgdl).
Proof.
  intros k1 b f dl avgdl Hk Hf Hl. apply Rmult_lt_0_compat; [lra|].
  apply Rinv_0_lt_compat. apply Rmult_lt_0_compat; lra.
Qed.

(* ---- idf ---- *)
Lemma idf_arg_gt_1 : forall n N, 1 <= n -> n <= N -> 1 < idf_arg n N.
Proof.
  intros n N Hn HnN. rewrite idf_arg_eq.
  assert (0 < / 2 / (n + / 2)) by (apply Rmult_lt_0_compat; [lra | apply Rinv_0_lt_compat; lra]). lra.
Qed.

Lemma idf_pos_all : forall n N, 1 <= n -> n <= N -> 0 < idf n N.
Proof.
  intros n N Hn HnN. unfold idf. rewrite <- ln_1. apply ln_increasing; [lra | apply idf_arg_gt_1; assumption].
Qed.

Lemma idf_arg_anti : forall n1 n2 N, 1 <= n1 -> n1 < n2 -> idf_arg n2 N < idf_arg n1 N.
Proof.
  intros n1 n2 N H1 Hlt. rewrite !idf_arg_eq. unfold Rdiv.
  assert (/ (n2 + / 2) < / (n1 + / 2)) by (apply Rinv_lt_contravar; [apply Rmult_lt_0_compat; lra | lra]).
  lra.
Qed.

(* rarer term weighs more: strictly decreasing in the document frequency *)
Lemma idf_anti_df_all : forall n1 n2 N, 1 <= n1 -> n1 < n2 -> n2 <= N -> idf n2 N < idf n1 N.
Proof.
  intros n1 n2 N H1 Hlt HN. unfold idf. apply ln_increasing.
  - assert (1 < idf_arg n2 N) by (apply idf_arg_gt_1; lra). lra.
  - apply idf_arg_anti; assumption.
Qed.

(* ---- the score laws ---- *)
Lemma stats_len_pos : forall boost k1 b n N f dl avgdl,
  stats_ok boost k1 b n N f dl avgdl -> 0 < len_norm b dl avgdl.
Proof. intros ? ? ? ? ? ? ? ? H. destruct H. apply len_norm_pos; assumption. Qed.

Lemma stats_weight_pos : forall boost k1 b n N f dl avgdl,
  stats_ok boost k1 b n N f dl avgdl -> 0 < weight boost (idf n N).
Proof. intros ? ? ? ? ? ? ? ? H. destruct H. unfold weight. apply Rmult_lt_0_compat; [assumption | apply idf_pos_all; assumption]. Qed.

Lemma score_pos_all : forall boost k1 b n N f dl avgdl,
  stats_ok boost k1 b n N f dl avgdl ->
  0 < term_score boost k1 b n N f dl avgdl /\
  term_score boost k1 b n N f dl avgdl < boost * idf n N.
Proof.
  intros boost k1 b n N f dl avgdl H. pose proof (stats_len_pos _ _ _ _ _ _ _ _ H) as Hl.
  pose proof (stats_weight_pos _ _ _ _ _ _ _ _ H) as Hw. destruct H.
  unfold term_score. rewrite score_eq.
  assert (Hx : 0 < f * / (k1 * len_norm b dl avgdl)) by (apply x_pos; lra).
  split; [apply sat_pos; assumption | apply sat_lt_w; [assumption | lra]].
Qed.

Lemma score_mono_freq_all : forall boost k1 b n N f1 f2 dl avgdl,
  stats_ok boost k1 b n N f1 dl avgdl -> f1 < f2 ->
  term_score boost k1 b n N f1 dl avgdl < term_score boost k1 b n N f2 dl avgdl.
Proof.
  intros boost k1 b n N f1 f2 dl avgdl H Hlt. pose proof (stats_len_pos _ _ _ _ _ _ _ _ H) as Hl.
  pose proof (stats_weight_pos _ _ _ _ _ _ _ _ H) as Hw. destruct H.
  unfold term_score. rewrite !score_eq.
  assert (Hi : 0 < / (k1 * len_norm b dl avgdl)) by (apply Rinv_0_lt_compat; apply Rmult_lt_0_compat; lra).
  apply sat_mono; [assumption | | ].
  - apply Rmult_le_pos; lra.
  - apply Rmult_lt_compat_r; assumption.
Qed.

Lemma score_anti_len_all : forall boost k1 b n N f dl1 dl2 avgdl,
  stats_ok boost k1 b n N f dl1 avgdl -> dl1 < dl2 ->
  term_score boost k1 b n N f dl2 avgdl <= term_score boost k1 b n N f dl1 avgdl /\
  (0 < b -> term_score boost k1 b n N f dl2 avgdl < term_score boost k1 b n N f dl1 avgdl).
Proof.
  intros boost k1 b n N f dl1 dl2 avgdl H Hlt. pose proof (stats_len_pos _ _ _ _ _ _ _ _ H) as Hl.
  pose proof (stats_weight_pos _ _ _ _ _ _ _ _ H) as Hw. destruct H.
  unfold term_score. rewrite !score_eq.
  pose proof (len_norm_mono b dl1 dl2 avgdl so_b0 so_avgdl (Rlt_le _ _ Hlt)) as Hm.
  assert (Hl2 : 0 < len_norm b dl2 avgdl) by lra.
  assert (Hp1 : 0 < k1 * len_norm b dl1 avgdl) by (apply Rmult_lt_0_compat; lra).
  assert (Hp2 : 0 < k1 * len_norm b dl2 avgdl) by (apply Rmult_lt_0_compat; lra).
  split.
  - apply sat_mono_weak; [assumption | | ].
    + apply Rmult_le_pos; [lra | left; apply Rinv_0_lt_compat; assumption].
    + apply Rmult_le_compat_l; [lra|]. apply Rinv_le_contravar; [assumption|].
      apply Rmult_le_compat_l; lra.
  - intros Hb. pose proof (len_norm_mono_strict b dl1 dl2 avgdl Hb so_avgdl Hlt) as Hs.
    apply sat_mono; [assumption | | ].
    + apply Rmult_le_pos; [lra | left; apply Rinv_0_lt_compat; assumption].
    + apply Rmult_lt_compat_l; [lra|]. apply Rinv_lt_contravar; [apply Rmult_lt_0_compat; assumption|].
      apply Rmult_lt_compat_l; lra.
Qed.

(* rarer term -> higher score, everything else equal *)
Lemma score_anti_df_all : forall boost k1 b n1 n2 N f dl avgdl,
  stats_ok boost k1 b n1 N f dl avgdl -> n1 < n2 -> n2 <= N ->
  term_score boost k1 b n2 N f dl avgdl < term_score boost k1 b n1 N f dl avgdl.
Proof.
  intros boost k1 b n1 n2 N f dl avgdl H Hlt HN. pose proof (stats_len_pos _ _ _ _ _ _ _ _ H) as Hl.
  destruct H. unfold term_score. rewrite !score_eq.
  assert (Hx : 0 < f * / (k1 * len_norm b dl avgdl)) by (apply x_pos; lra).
  rewrite !sat_eq by lra.
  apply Rmult_lt_compat_r.
  - apply Rmult_lt_0_compat; [lra | apply Rinv_0_lt_compat; lra].
  - unfold weight. apply Rmult_lt_compat_l; [assumption|]. apply idf_anti_df_all; assumption.
Qed.

Lemma score_linear_boost_all : forall c boost k1 b n N f dl avgdl,
  term_score (c * boost) k1 b n N f dl avgdl = c * term_score boost k1 b n N f dl avgdl.
Proof.
  intros. unfold term_score, weight. rewrite !score_eq. rewrite Rmult_assoc. apply sat_linear.
Qed.

(* ---- composite ---- *)
Lemma fold_left_Rplus_acc : forall l a, fold_left Rplus l a = a + fold_right Rplus 0 l.
Proof.
  induction l as [|x l IH]; intros a; cbn [fold_left fold_right]; [lra|]. rewrite IH. lra.
Qed.

Lemma composite_sum_all : forall boost l, composite_score boost l = boost * fold_right Rplus 0 l.
Proof. intros. unfold composite_score, sum_scores. rewrite fold_left_Rplus_acc. ring. Qed.

Lemma composite_pos_all : forall boost l, 0 < boost -> l <> [] -> Forall (fun s => 0 < s) l -> 0 < composite_score boost l.
Proof.
  intros boost l Hb Hne Hall. rewrite composite_sum_all. apply Rmult_lt_0_compat; [assumption|].
  destruct l as [|x l]; [contradiction|]. inversion Hall as [|? ? Hx Hl]; subst. cbn [fold_right].
  assert (0 <= fold_right Rplus 0 l).
  { clear -Hl. induction Hl as [|y l Hy Hl IH]; cbn [fold_right]; lra. }
  lra.
Qed.

(* ---- explanation formulas over R ---- *)
(* score = boost * idf * tf in the algebraic form the message of the score node states *)
Lemma score_is_boost_idf_tf : forall boost idfv k1 b f dl avgdl,
  score (weight boost idfv) k1 b f dl avgdl = boost * idfv * tf k1 b f dl avgdl.
Proof. intros. rewrite score_eq, tf_eq. unfold weight, sat, Rdiv. ring. Qed.

(* the tf message's formula is the same real number as the computed expression *)
Lemma tf_is_stated : forall k1 b f dl avgdl,
  0 < k1 -> 0 < f -> 0 < avgdl -> 0 < len_norm b dl avgdl ->
  tf k1 b f dl avgdl = tf_stated k1 b f dl avgdl.
Proof.
  intros k1 b f dl avgdl Hk Hf Ha Hl. rewrite tf_eq. unfold sat, tf_stated.
  change (1 - b + b * dl / avgdl) with (len_norm b dl avgdl).
  assert (0 < k1 * len_norm b dl avgdl) by (apply Rmult_lt_0_compat; lra).
  field. repeat split; try lra.
  (* remaining side conditions produced by field *)
  all: try (unfold len_norm in *; lra).
Qed.

(* ---- D4: the idf message of the pinned tree states a different formula ---- *)
Lemma idf_coded_3_10 : idf 3 10 = ln (57 / 7).
Proof. unfold idf. rewrite idf_arg_eq. apply (f_equal ln). field. Qed.
Lemma idf_lucene_3_10 : idf_lucene 3 10 = ln (22 / 7).
Proof. unfold idf_lucene, idf_lucene_arg. apply (f_equal ln). field. Qed.

Lemma idf_explain_refuted_w : idf 3 10 <> idf_lucene 3 10.
Proof.
  rewrite idf_coded_3_10, idf_lucene_3_10. intros Heq.
  apply ln_inv in Heq; lra.
Qed.

(* the two formulas agree exactly when n = N ... and differ for every n < N *)
Lemma idf_coded_vs_lucene : forall n N, 1 <= n -> n < N -> idf_lucene n N < idf n N.
Proof.
  intros n N Hn HnN. unfold idf, idf_lucene. apply ln_increasing.
  - unfold idf_lucene_arg. assert (0 < (N - n + 1 / 2) / (n + 1 / 2)) by (apply Rmult_lt_0_compat; [lra | apply Rinv_0_lt_compat; lra]). lra.
  - rewrite idf_arg_eq. unfold idf_lucene_arg.
    assert (Hd : 0 < n + 1 / 2) by lra.
    (* (N-n+1 / 2)/(n+1 / 2) < (N-n) + 1 / 2/(n+1 / 2)  since (N-n)/(n+1 / 2) < N-n *)
    replace ((N - n + 1 / 2) / (n + 1 / 2)) with ((N - n) / (n + 1 / 2) + 1 / 2 / (n + 1 / 2)) by (field; lra).
    assert ((N - n) / (n + 1 / 2) < N - n).
    { unfold Rdiv. rewrite <- (Rmult_1_r (N - n)) at 2. apply Rmult_lt_compat_l; [lra|].
      rewrite <- Rinv_1. apply Rinv_lt_contravar; lra. }
    replace (/ 2 / (n + / 2)) with (1 / 2 / (n + 1 / 2)) by (field; lra). lra.
Qed.

Lemma idf_as_coded_anti_df_all : forall n N, 1 <= n -> n <= N ->
  0 < idf n N /\ (forall n', n < n' -> n' <= N -> idf n' N < idf n N).
Proof.
  intros n N Hn HnN. split; [apply idf_pos_all; assumption|].
  intros n' Hlt HN. apply idf_anti_df_all; assumption.
Qed.

(* the hypotheses of the laws hold on a concrete non-trivial instance *)
Lemma stats_ok_instance : stats_ok 1 default_k1 default_b 3 10 2 7 12.
Proof.
  pose proof defaults_in_range as [Hk [Hb0 Hb1]].
  constructor; lra.
Qed.
