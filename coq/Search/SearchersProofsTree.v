(* Search/SearchersProofsTree.v — the iterator contract for arbitrarily nested searcher trees.
   Trees alternate two levels:
     clause level   a term searcher, match-none, or a boolean searcher (what a query clause
                    compiles to); depth d+1 adds the booleans over depth-d clauses;
     kid level      the three children of a boolean: a conjunction (must), slice or heap
                    disjunctions (should, must-not) over clause-level searchers.
   For each level four predicates: exact from a watermark (Inv), end reported (Fin), not called yet
   (New: first call is Next) and sound-only (W: SearchersProofsWeak.v).  `good P f0` packs the
   contract of a predicate family for every fuel >= f0; it is proved for the leaves and carried from
   depth d to depth d+1 through the node theorems (conjunction, slice/heap disjunction, boolean). *)
From Coq Require Import ZArith List Bool Lia Arith Permutation.
From Bluge Require Import Base.Res Search.Numeric Search.Postings Search.Searchers Search.Semantics
  Search.SearchersProofsBase Search.SearchersProofsConj Search.SearchersProofsDisj Search.SearchersProofsHeap
  Search.SearchersProofsLeaf Search.SearchersProofsSnap Search.SearchersProofsLeafWeak Search.SearchersProofsAll Search.SearchersProofsWeak
  Search.SearchersProofsExact.
From Bluge Require Search.SearchersProofsBoolAdv.
Module B := SearchersProofsBoolAdv.
Import ListNotations.
Open Scope Z_scope.

Record preds := mkP {
  pInv : searcher -> (Z -> bool) -> Z -> Prop;
  pFin : searcher -> (Z -> bool) -> Z -> Prop;
  pNew : searcher -> (Z -> bool) -> Prop;
  pW : searcher -> (Z -> bool) -> option Z -> Prop
}.

Lemma exact_post_ext {C} (CInv CFin CInv' CFin' : C -> (Z -> bool) -> Z -> Prop) S S' lo r c :
  (forall x, S' x = S x) ->
  (forall m, CInv c S (m + 1) -> CInv' c S' (m + 1)) -> (CFin c S lo -> CFin' c S' lo) ->
  exact_post CInv CFin S lo r c -> exact_post CInv' CFin' S' lo r c.
Proof.
  intros E HI HF. destruct r as [m|]; simpl.
  - intros [Hl Hi]. split; [eapply least_from_ext; [intros x; symmetry; apply E|exact Hl]|apply HI; exact Hi].
  - intros [Hn Hf]. split; [eapply none_from_ext; [intros x; symmetry; apply E|exact Hn]|apply HF; exact Hf].
Qed.

Section Tree.
  Variable sn : snapshot.
  Hypothesis Hwf : wf_sn sn.
  Let offs := offsets sn.
  Let N := total_docs sn.
  Variable W : nat.
  Variable lf : nat.
  Hypothesis Hlf : fuel_ok sn W lf.

  Let Hoffs_ok : offs_ok offs N := offs_ok_snapshot sn Hwf.

  (* the contract of a predicate family, for every fuel from f0 on *)
  Record good (P : preds) (f0 : nat) : Prop := {
    g_next : forall f, (f0 <= f)%nat -> next_exact searcher (snext lf f) (pInv P) (pFin P);
    g_adv : forall f, (f0 <= f)%nat -> adv_exact searcher (sadv lf f) (pInv P) (pFin P);
    g_new : forall f, (f0 <= f)%nat -> new_exact (snext lf f) (pInv P) (pFin P) (pNew P);
    g_fin : forall f, (f0 <= f)%nat -> fin_adv searcher (sadv lf f) (pFin P);
    g_wadv : forall f, (f0 <= f)%nat -> wk_adv searcher (sadv lf f) (pW P);
    g_wnext : forall f, (f0 <= f)%nat -> wk_next searcher (snext lf f) (pW P);
    g_cw_inv : forall c S m, pInv P c S (m + 1) -> S m = true -> pW P c S (Some m);
    g_cw_fin : forall c S lo, pFin P c S lo -> pW P c S None
  }.

  (* ================= the leaves ================= *)

  Definition LInv (s : searcher) (S : Z -> bool) (lo : Z) : Prop :=
    (exists t wl (it : pit), s = STerm t wl it /\ PInv offs N it S lo /\ PStatic offs N it S) \/
    (exists it, s = SAll it /\ AInv offs N it S lo).
  Definition LFin (s : searcher) (S : Z -> bool) (lo : Z) : Prop :=
    (exists t wl (it : pit), s = STerm t wl it /\ PFin offs N it S lo /\ PStatic offs N it S) \/
    (exists it, s = SAll it /\ AFin offs N it S lo) \/
    (s = SNone /\ forall x, S x = false).
  Definition LNew (s : searcher) (S : Z -> bool) : Prop :=
    LInv s S 0 \/ (s = SNone /\ forall x, S x = false).
  Definition LW (s : searcher) (S : Z -> bool) (p : option Z) : Prop :=
    (exists t wl (it : pit), s = STerm t wl it /\ PW offs N it S p) \/
    (exists it, s = SAll it /\ AW offs N it S p) \/
    (s = SNone /\ p = None).

  Definition leafP : preds := mkP LInv LFin LNew LW.

  Definition amatch (n : Z) : dmatch := {| dm_num := n; dm_locs := [] |}.

  Lemma leaf_next_inv : forall f s S lo, LInv s S lo ->
    exists r s', snext lf (Datatypes.S f) s = Ok (r, s') /\ exact_post LInv LFin S lo r s'.
  Proof.
    intros f s S lo [[t [wl [it [-> [HI HS]]]]]|[it [-> HI]]].
    - destruct (pit_next_exact offs N it S lo HI) as [r [it' [E Hpost]]].
      assert (HW : PW offs N it S (Some (lo - 1))) by (eapply PInv_PW; eauto; lia).
      destruct (pw_next offs N Hoffs_ok it S (lo - 1) HW) as [r2 [it2 [E2 Hres]]].
      rewrite E in E2. inversion E2; subst r2 it2.
      cbn [snext]. rewrite E. cbn [rbind fst snd]. eexists _, _. split; [reflexivity|].
      destruct r as [p|]; simpl in *.
      + destruct Hpost as [A B0]. split; [exact A|]. left. exists t, wl, it'. split; [reflexivity|]. split; [exact B0|].
        eapply PW_static. apply Hres.
      + destruct Hpost as [A B0]. split; [exact A|]. left. exists t, wl, it'. split; [reflexivity|]. split; [exact B0|].
        eapply PW_static. exact Hres.
    - destruct (a_next_exact offs N Hoffs_ok it S lo HI) as [r [it' [E Hpost]]].
      cbn [snext]. rewrite E. cbn [rbind fst snd]. eexists _, _. split; [reflexivity|].
      destruct r as [x|]; simpl in *.
      + destruct Hpost as [A B0]. split; [exact A|]. right. exists it'. auto.
      + destruct Hpost as [A B0]. split; [exact A|]. right. left. exists it'. auto.
  Qed.

  Lemma leaf_good : good leafP 1.
  Proof.
    constructor.
    - intros [|f] Hf; [lia|]. intros s S lo H. apply leaf_next_inv. exact H.
    - intros [|f] Hf; [lia|]. intros s S lo n [[t [wl [it [-> [HI HS]]]]]|[it [-> HI]]] Hn.
      + destruct (pit_advance_exact offs N it S lo n HI Hn) as [r [it' [E Hpost]]].
        assert (HW : PW offs N it S (Some (lo - 1))) by (eapply PInv_PW; eauto; lia).
        destruct HI as [_ [_ [_ [Hlo _]]]].
        destruct (pw_adv offs N Hoffs_ok it S (Some (lo - 1)) n HW ltac:(lia)) as [r2 [it2 [E2 Hres]]].
        { intros q Hq. inversion Hq; subst. lia. }
        rewrite E in E2. inversion E2; subst r2 it2.
        cbn [sadv]. rewrite E. cbn [rbind fst snd]. eexists _, _. split; [reflexivity|].
        destruct r as [p|]; simpl in *.
        * destruct Hpost as [A B0]. split; [exact A|]. left. exists t, wl, it'. split; [reflexivity|]. split; [exact B0|].
          eapply PW_static. apply Hres.
        * destruct Hpost as [A B0]. split; [exact A|]. left. exists t, wl, it'. split; [reflexivity|]. split; [exact B0|].
          eapply PW_static. exact Hres.
      + destruct (a_advance_exact offs N Hoffs_ok it S lo n HI Hn) as [r [it' [E Hpost]]].
        cbn [sadv]. rewrite E. cbn [rbind fst snd]. eexists _, _. split; [reflexivity|].
        destruct r as [x|]; simpl in *.
        * destruct Hpost as [A B0]. split; [exact A|]. right. exists it'. auto.
        * destruct Hpost as [A B0]. split; [exact A|]. right. left. exists it'. auto.
    - intros [|f] Hf; [lia|]. intros s S [H|[-> HS]]; [apply leaf_next_inv; exact H|].
      exists None, SNone. split; [reflexivity|]. simpl. split; [intros x _; apply HS|]. right. right. split; [reflexivity|exact HS].
    - intros [|f] Hf; [lia|]. intros s S lo n [[t [wl [it [-> [HF HS]]]]]|[[it [-> HF]]|[-> HS]]] Hn.
      + destruct (pit_fin_advance offs N it S lo n HF Hn) as [it' [E HF']].
        assert (HW : PW offs N it S None) by (eapply PFin_PW; eauto).
        destruct HF as [_ [_ [_ [Hlo _]]]].
        destruct (pw_adv offs N Hoffs_ok it S None n HW ltac:(lia)) as [r2 [it2 [E2 Hres]]].
        { intros q Hq. discriminate. }
        rewrite E in E2. inversion E2; subst r2 it2. simpl in Hres.
        cbn [sadv]. rewrite E. cbn [rbind fst snd]. eexists _, lo. split; [reflexivity|]. split; [exact Hn|].
        left. exists t, wl, it'. split; [reflexivity|]. split; [exact HF'|]. eapply PW_static. exact Hres.
      + destruct (a_fin_advance offs N Hoffs_ok it S lo n HF Hn) as [it' [E HF']].
        cbn [sadv]. rewrite E. cbn [rbind fst snd]. eexists _, lo. split; [reflexivity|]. split; [exact Hn|].
        right. left. exists it'. auto.
      + exists SNone, lo. split; [reflexivity|]. split; [exact Hn|]. right. right. split; [reflexivity|exact HS].
    - intros [|f] Hf; [lia|]. intros s S p t [[tm [wl [it [-> HW]]]]|[[it [-> HW]]|[-> ->]]] Ht Hp.
      + destruct (pw_adv offs N Hoffs_ok it S p t HW Ht Hp) as [r [it' [E Hres]]].
        cbn [sadv]. rewrite E. cbn [rbind fst snd]. eexists _, _. split; [reflexivity|].
        destruct r as [x|]; simpl in *.
        * destruct Hres as [A [B0 D]]. split; [exact A|]. split; [exact B0|]. left. exists tm, wl, it'. auto.
        * left. exists tm, wl, it'. auto.
      + destruct (aw_adv offs N Hoffs_ok it S p t HW Ht) as [r [it' [E Hres]]].
        cbn [sadv]. rewrite E. cbn [rbind fst snd]. eexists _, _. split; [reflexivity|].
        destruct r as [x|]; simpl in *.
        * destruct Hres as [A [B0 D]]. split; [exact A|]. split; [exact B0|]. right. left. exists it'. auto.
        * right. left. exists it'. auto.
      + exists None, SNone. split; [reflexivity|]. simpl. right. right. auto.
    - intros [|f] Hf; [lia|]. intros s S m [[tm [wl [it [-> HW]]]]|[[it [-> HW]]|[-> Hp]]]; [| |discriminate].
      + destruct (pw_next offs N Hoffs_ok it S m HW) as [r [it' [E Hres]]].
        cbn [snext]. rewrite E. cbn [rbind fst snd]. eexists _, _. split; [reflexivity|].
        destruct r as [x|]; simpl in *.
        * destruct Hres as [A [B0 D]]. split; [exact A|]. split; [exact B0|]. left. exists tm, wl, it'. auto.
        * left. exists tm, wl, it'. auto.
      + destruct (aw_next offs N Hoffs_ok it S m HW) as [r [it' [E Hres]]].
        cbn [snext]. rewrite E. cbn [rbind fst snd]. eexists _, _. split; [reflexivity|].
        destruct r as [x|]; simpl in *.
        * destruct Hres as [A [B0 D]]. split; [exact A|]. split; [exact B0|]. right. left. exists it'. auto.
        * right. left. exists it'. auto.
    - intros c S m [[t [wl [it [-> [HI HS]]]]]|[it [-> HI]]] _.
      + left. exists t, wl, it. split; [reflexivity|]. eapply PInv_PW; eauto.
      + right. left. exists it. split; [reflexivity|]. eapply AInv_AW; eauto.
    - intros c S lo [[t [wl [it [-> [HF HS]]]]]|[[it [-> HF]]|[-> HS]]].
      + left. exists t, wl, it. split; [reflexivity|]. eapply PFin_PW; eauto.
      + right. left. exists it. split; [reflexivity|]. eapply AFin_AW; eauto.
      + right. right. auto.
  Qed.

  (* ================= the kid level: conjunction, slice and heap disjunction ================= *)

  Section Kids.
    Variable P : preds.
    Variable f0 : nat.
    Hypothesis HP : good P f0.

    Definition KInv (s : searcher) (S : Z -> bool) (lo : Z) : Prop :=
      0 <= lo /\
      ((exists st Ss, s = SConj st /\ conj_inv searcher (pInv P) (pFin P) (pNew P) N Ss st lo /\
                      (length Ss <= W)%nat /\ forall x, S x = conj_S Ss x) \/
       (exists st Ss dm, s = SDisjS st /\ dsl_inv searcher (pInv P) (pFin P) (pNew P) N Ss dm st lo /\
                         forall x, S x = disj_S Ss dm x) \/
       (exists st Ss dm, s = SDisjH st /\ dhp_inv searcher (pInv P) (pNew P) N Ss dm SNone st lo /\
                         forall x, S x = disj_S Ss dm x)).

    Definition KFin (s : searcher) (S : Z -> bool) (lo : Z) : Prop :=
      0 <= lo /\
      ((exists st Ss, s = SConj st /\ conj_wfin searcher (pW P) N Ss st /\ none_from (conj_S Ss) lo /\
                      (length Ss <= W)%nat /\ forall x, S x = conj_S Ss x) \/
       (exists st Ss dm p, s = SDisjS st /\ dsl_wany searcher (pW P) N Ss dm st p /\ none_from (disj_S Ss dm) lo /\
                           forall x, S x = disj_S Ss dm x) \/
       (exists st dm, s = SDisjH st /\ dhp_fin searcher dm st)).

    Definition KNew (s : searcher) (S : Z -> bool) : Prop := KInv s S 0.

    Definition KAny (s : searcher) : Prop :=
      (exists st Ss dm p, s = SDisjS st /\ dsl_wany searcher (pW P) N Ss dm st p) \/
      (exists st Ss dm lo, s = SDisjH st /\ 0 <= lo /\ dhp_ready searcher (pInv P) N Ss dm SNone st lo) \/
      (exists st dm, s = SDisjH st /\ dhp_fin searcher dm st).

    Definition KS (s : searcher) : Prop := match s with SDisjS _ | SDisjH _ => True | _ => False end.

    Lemma child_ok_wchild : forall c S cur, child_ok searcher (pInv P) (pFin P) N c S cur -> wchild searcher (pW P) N c S cur.
    Proof.
      intros c S [m|] [HB H]; split; try exact HB; simpl.
      - destruct H as [A B0]. split; [eapply g_cw_inv; eauto|exact A].
      - destruct H as [lo' HF]. split; [eapply g_cw_fin; eauto|exact I].
    Qed.

    Lemma dchild_ok_wchild : forall lo c S cur, dchild_ok searcher (pInv P) (pFin P) N lo c S cur -> wchild searcher (pW P) N c S cur.
    Proof.
      intros lo c S [m|] [HB H]; split; try exact HB; simpl.
      - destruct H as [[A _] B0]. split; [eapply g_cw_inv; eauto|exact A].
      - destruct H as [_ [lo' [_ HF]]]. split; [eapply g_cw_fin; eauto|exact I].
    Qed.

    Lemma dsl_ready_wany : forall Ss dm st lo, dsl_ready searcher (pInv P) (pFin P) N Ss dm st lo ->
      dsl_wany searcher (pW P) N Ss dm st None.
    Proof.
      intros Ss dm st lo [Hi [Hm [H3 [Hma Hix]]]]. split; [exact Hi|]. split; [exact Hm|].
      split; [eapply all3_impl; [|exact H3]; intros a b d H; eapply dchild_ok_wchild; eauto|].
      split; [exact Hma|]. split; [exact Hix|]. intros q Hq. discriminate.
    Qed.

    Section AtFuel.
      Variable f : nat.
      Hypothesis Hf : (f0 <= f)%nat.

      Let Hct : contract (snext lf f) (sadv lf f) (pInv P) (pFin P) :=
        {| ct_next := g_next P f0 HP f Hf; ct_adv := g_adv P f0 HP f Hf; ct_fin_adv := g_fin P f0 HP f Hf |}.
      Let Hnw := g_new P f0 HP f Hf.
      Let Hwa := g_wadv P f0 HP f Hf.
      Let Hwn := g_wnext P f0 HP f Hf.

      Lemma snext_heap st : snext lf (Datatypes.S f) (SDisjH st) = wrap SDisjH (dhp_next searcher (snext lf f) lf SNone st).
      Proof. reflexivity. Qed.
      Lemma sadv_heap st n : sadv lf (Datatypes.S f) (SDisjH st) n = wrap SDisjH (dhp_advance searcher (snext lf f) (sadv lf f) lf SNone st n).
      Proof. reflexivity. Qed.

      (* packaging the answers of the three node theorems *)
      Lemma conj_pack : forall Ss S lo r st', (length Ss <= W)%nat -> (forall x, S x = conj_S Ss x) -> 0 <= lo ->
        conj_exact_post searcher (pInv P) (pFin P) (pNew P) N Ss lo r st' -> exact_post KInv KFin S lo r (SConj st').
      Proof.
        intros Ss S lo r st' HW HS Hlo Hpost. destruct r as [rv|]; simpl in Hpost |- *.
        - destruct Hpost as [Hl Hinv']. split; [eapply least_from_ext; [intros x; symmetry; apply HS|exact Hl]|].
          split; [destruct Hl as [_ [Hl _]]; lia|]. left. exists st', Ss. auto.
        - destruct Hpost as [Hn [Hi H3]]. split; [eapply none_from_ext; [intros x; symmetry; apply HS|exact Hn]|].
          split; [exact Hlo|]. left. exists st', Ss. split; [reflexivity|]. split; [|auto].
          split; [exact Hi|]. eapply all3_impl; [|exact H3]. intros a b d H. apply child_ok_wchild. exact H.
      Qed.

      Lemma dsl_pack : forall Ss dm S lo r st', (forall x, S x = disj_S Ss dm x) -> 0 <= lo ->
        dsl_exact_post searcher (pInv P) (pFin P) N Ss dm lo r st' -> exact_post KInv KFin S lo r (SDisjS st').
      Proof.
        intros Ss dm S lo r st' HS Hlo Hpost. destruct r as [rv|]; simpl in Hpost |- *.
        - destruct Hpost as [Hl Hinv']. split; [eapply least_from_ext; [intros x; symmetry; apply HS|exact Hl]|].
          split; [destruct Hl as [_ [Hl _]]; lia|]. right. left. exists st', Ss, dm. split; [reflexivity|]. split; [left; exact Hinv'|exact HS].
        - destruct Hpost as [Hn [lo' [Hlo' [HR _]]]]. split; [eapply none_from_ext; [intros x; symmetry; apply HS|exact Hn]|].
          split; [exact Hlo|]. right. left. exists st', Ss, dm, None. split; [reflexivity|].
          split; [eapply dsl_ready_wany; eauto|]. split; [exact Hn|exact HS].
      Qed.

      Lemma dhp_pack : forall Ss dm S lo r st', (forall x, S x = disj_S Ss dm x) -> 0 <= lo ->
        dhp_exact_post searcher (pInv P) N Ss dm SNone lo r st' -> exact_post KInv KFin S lo r (SDisjH st').
      Proof.
        intros Ss dm S lo r st' HS Hlo Hpost. destruct r as [rv|]; simpl in Hpost |- *.
        - destruct Hpost as [Hl Hinv']. split; [eapply least_from_ext; [intros x; symmetry; apply HS|exact Hl]|].
          split; [destruct Hl as [_ [Hl _]]; lia|]. right. right. exists st', Ss, dm. split; [reflexivity|]. split; [left; exact Hinv'|exact HS].
        - destruct Hpost as [Hn HF]. split; [eapply none_from_ext; [intros x; symmetry; apply HS|exact Hn]|].
          split; [exact Hlo|]. right. right. exists st', dm. auto.
      Qed.

      Lemma K_next : next_exact searcher (snext lf (Datatypes.S f)) KInv KFin.
      Proof.
        intros s S lo [Hlo [[st [Ss [-> [Hinv [HW HS]]]]]|[[st [Ss [dm [-> [Hinv HS]]]]]|[st [Ss [dm [-> [Hinv HS]]]]]]]].
        - destruct (conj_next_spec searcher _ _ _ _ Hct _ Hnw N Ss lf st lo Hinv) as [r [st' [E Hpost]]].
          { apply Hlf. exact HW. }
          rewrite snext_conj. unfold wrap. rewrite E. cbn [rbind fst snd]. eexists _, _. split; [reflexivity|].
          eapply conj_pack; eauto.
        - destruct (dsl_next_spec searcher _ (sadv lf f) _ _ Hct _ Hnw N Ss dm lf st lo Hinv Hlo (proj1 Hlf)) as [r [st' [E Hpost]]].
          rewrite snext_disj. unfold wrap. rewrite E. cbn [rbind fst snd]. eexists _, _. split; [reflexivity|].
          eapply dsl_pack; eauto.
        - destruct (dhp_next_spec searcher _ (sadv lf f) _ _ Hct _ Hnw N Ss dm SNone lf st lo Hinv Hlo (proj1 Hlf)) as [r [st' [E Hpost]]].
          rewrite snext_heap. unfold wrap. rewrite E. cbn [rbind fst snd]. eexists _, _. split; [reflexivity|].
          eapply dhp_pack; eauto.
      Qed.

      Lemma K_adv : adv_exact searcher (sadv lf (Datatypes.S f)) KInv KFin.
      Proof.
        intros s S lo n [Hlo [[st [Ss [-> [Hinv [HW HS]]]]]|[[st [Ss [dm [-> [Hinv HS]]]]]|[st [Ss [dm [-> [Hinv HS]]]]]]]] Hn.
        - destruct (conj_advance_spec searcher _ _ _ _ Hct _ Hnw N Ss lf st lo n Hinv Hn) as [r [st' [E Hpost]]].
          { apply Hlf. exact HW. }
          rewrite sadv_conj. unfold wrap. rewrite E. cbn [rbind fst snd]. eexists _, _. split; [reflexivity|].
          eapply conj_pack; eauto. lia.
        - destruct (dsl_advance_spec searcher _ _ _ _ Hct _ Hnw N Ss dm lf st lo n Hinv Hlo Hn (proj1 Hlf)) as [r [st' [E Hpost]]].
          rewrite sadv_disj. unfold wrap. rewrite E. cbn [rbind fst snd]. eexists _, _. split; [reflexivity|].
          eapply dsl_pack; eauto. lia.
        - destruct (dhp_advance_spec searcher _ _ _ _ Hct _ Hnw N Ss dm SNone lf st lo n Hinv Hlo Hn (proj1 Hlf)) as [r [st' [E Hpost]]].
          rewrite sadv_heap. unfold wrap. rewrite E. cbn [rbind fst snd]. eexists _, _. split; [reflexivity|].
          eapply dhp_pack; eauto. lia.
      Qed.

      Lemma K_new : new_exact (snext lf (Datatypes.S f)) KInv KFin KNew.
      Proof. intros c S H. exact (K_next c S 0 H). Qed.

      Lemma K_fin : fin_adv searcher (sadv lf (Datatypes.S f)) KFin.
      Proof.
        intros s S lo n [Hlo [[st [Ss [-> [Hfin [Hnone [HW HS]]]]]]|[[st [Ss [dm [p [-> [Hany [Hnone HS]]]]]]]|[st [dm [-> Hfin]]]]]] Hn.
        - destruct (conj_wfin_adv searcher (snext lf f) (sadv lf f) (pW P) Hwa N Ss lf st lo n Hfin Hnone Hn ltac:(lia)) as [st' [E Hfin']].
          { apply Hlf. exact HW. }
          rewrite sadv_conj. unfold wrap. rewrite E. cbn [rbind fst snd]. eexists _, lo. split; [reflexivity|]. split; [exact Hn|].
          split; [exact Hlo|]. left. exists st', Ss. auto.
        - destruct (dsl_wany_adv searcher (snext lf f) (sadv lf f) (pW P) Hwa Hwn N Ss dm lf st p n Hany ltac:(lia) (proj1 Hlf)) as [r [st' [E Hres]]].
          rewrite sadv_disj. unfold wrap. rewrite E. cbn [rbind fst snd].
          destruct r as [rv|]; simpl in Hres.
          + exfalso. destruct Hres as [A [B0 _]]. rewrite Hnone in A by lia. discriminate.
          + eexists _, lo. split; [reflexivity|]. split; [exact Hn|]. split; [exact Hlo|].
            right. left. exists st', Ss, dm, None. auto.
        - destruct (dhp_fin_adv searcher (snext lf f) (sadv lf f) (pInv P) (pFin P) (pNew P) Hnw dm SNone lf st n Hfin) as [st' [E Hfin']].
          { destruct Hlf as [Hl _]. lia. }
          rewrite sadv_heap. unfold wrap. rewrite E. cbn [rbind fst snd]. eexists _, lo. split; [reflexivity|]. split; [exact Hn|].
          split; [exact Hlo|]. right. right. exists st', dm. auto.
      Qed.

      Lemma K_any_adv : forall c n, KAny c -> 0 <= n -> exists r c', sadv lf (Datatypes.S f) c n = Ok (r, c') /\ KAny c'.
      Proof.
        intros c n [[st [Ss [dm [p [-> Hany]]]]]|[[st [Ss [dm [lo [-> [Hlo HR]]]]]]|[st [dm [-> Hfin]]]]] Hn.
        - destruct (dsl_wany_adv searcher (snext lf f) (sadv lf f) (pW P) Hwa Hwn N Ss dm lf st p n Hany Hn (proj1 Hlf)) as [r [st' [E Hres]]].
          rewrite sadv_disj. unfold wrap. rewrite E. cbn [rbind fst snd]. eexists _, _. split; [reflexivity|].
          left. destruct r as [rv|]; simpl in Hres; [destruct Hres as [_ [_ Hres]]|]; eauto 8.
        - assert (Hpost : exists r st' lo', sadv lf (Datatypes.S f) (SDisjH st) n = Ok (r, SDisjH st') /\ 0 <= lo' /\
                            dhp_exact_post searcher (pInv P) N Ss dm SNone lo' r st').
          { destruct (Z_le_gt_dec lo n) as [Hle|Hgt].
            - destruct (dhp_advance_spec searcher _ _ _ _ Hct _ Hnw N Ss dm SNone lf st lo n (or_introl HR) Hlo Hle (proj1 Hlf)) as [r [st' [E Hp]]].
              exists r, st', n. rewrite sadv_heap. unfold wrap. rewrite E. cbn [rbind fst snd]. auto.
            - destruct (dhp_advance_below_spec searcher _ _ _ _ Hct _ Hnw N Ss dm SNone lf st lo n HR Hlo ltac:(lia) (proj1 Hlf)) as [r [st' [E Hp]]].
              exists r, st', lo. rewrite sadv_heap. unfold wrap. rewrite E. cbn [rbind fst snd]. auto. }
          destruct Hpost as [r [st' [lo' [E [Hlo' Hp]]]]]. eexists _, _. split; [exact E|].
          destruct r as [rv|]; simpl in Hp.
          + destruct Hp as [[_ [Hge _]] HR']. right. left. exists st', Ss, dm, (dm_num rv + 1). split; [reflexivity|]. split; [lia|exact HR'].
          + destruct Hp as [_ HF]. right. right. eauto.
        - destruct (dhp_fin_adv searcher (snext lf f) (sadv lf f) (pInv P) (pFin P) (pNew P) Hnw dm SNone lf st n Hfin) as [st' [E Hfin']].
          { destruct Hlf as [Hl _]. lia. }
          rewrite sadv_heap. unfold wrap. rewrite E. cbn [rbind fst snd]. eexists _, _. split; [reflexivity|].
          right. right. eauto.
      Qed.
    End AtFuel.

    Lemma K_any_inv : forall c S lo, KS c -> 0 < lo -> KInv c S lo -> KAny c.
    Proof.
      intros c S lo HK Hpos [Hlo [[st [Ss [-> _]]]|[[st [Ss [dm [-> [Hinv HS]]]]]|[st [Ss [dm [-> [Hinv HS]]]]]]]].
      - destruct HK.
      - destruct Hinv as [HR|[HF ->]]; [|lia].
        left. exists st, Ss, dm, None. split; [reflexivity|]. eapply dsl_ready_wany; eauto.
      - destruct Hinv as [HR|[HF ->]]; [|lia].
        right. left. exists st, Ss, dm, lo. split; [reflexivity|]. split; [exact Hlo|exact HR].
    Qed.

    Lemma K_any_fin : forall c S lo, KS c -> KFin c S lo -> KAny c.
    Proof.
      intros c S lo HK [Hlo [[st [Ss [-> _]]]|[[st [Ss [dm [p [-> [Hany _]]]]]]|[st [dm [-> Hfin]]]]]].
      - destruct HK.
      - left. eauto 8.
      - right. right. eauto.
    Qed.

    Lemma KS_next : forall f c r c', KS c -> snext lf f c = Ok (r, c') -> KS c'.
    Proof.
      intros [|f] c r c' HK H; [discriminate|]. destruct c; try destruct HK; cbn [snext] in H;
        apply wrap_ok in H; destruct H as [a [_ ->]]; exact I.
    Qed.
  End Kids.
  (* ================= the boolean searcher over kid-level children ================= *)

  Section Bools.
    Variable P : preds.
    Variable f0 : nat.
    Hypothesis HP : good P f0.

    Notation KI := (KInv P). Notation KF := (KFin P). Notation KA := (KAny P). Notation KN := (KNew P).

    Definition BInv (s : searcher) (S : Z -> bool) (lo : Z) : Prop :=
      exists st Sm Ss Sn sm, s = SBool st /\ B.bool_ret searcher smin KI KF KA N Sm Ss Sn sm st lo /\ 0 <= lo /\
                             forall x, S x = B.bool_S Sm Ss Sn sm x.
    Definition BFin (s : searcher) (S : Z -> bool) (lo : Z) : Prop :=
      exists st, s = SBool st /\ b_done st = true /\ none_from S lo.
    Definition BNew (s : searcher) (S : Z -> bool) : Prop :=
      exists st Sm Ss Sn sm, s = SBool st /\ B.bool_fresh searcher smin KN KS N Sm Ss Sn sm st /\
                             forall x, S x = B.bool_S Sm Ss Sn sm x.
    Definition BW (s : searcher) (S : Z -> bool) (p : option Z) : Prop :=
      match p with
      | Some m => BInv s S (m + 1) /\ S m = true
      | None => exists lo, BFin s S lo
      end.

    Definition boolP : preds := mkP BInv BFin BNew BW.

    Lemma sadv_bool f st n : sadv lf (Datatypes.S f) (SBool st) n = wrap SBool (bool_advance searcher (snext lf f) (sadv lf f) smin lf st n).
    Proof. reflexivity. Qed.

    Section AtFuelB.
      Variable f : nat.
      Hypothesis Hf : (f0 <= f)%nat.

      Let Hbc := fun Sm Ss Sn sm =>
        B.bool_contract searcher (snext lf (Datatypes.S f)) (sadv lf (Datatypes.S f)) smin KI KF
          (K_next P f0 HP f Hf) (K_adv P f0 HP f Hf) KN (K_new P f0 HP f Hf) (K_fin P f0 HP f Hf)
          KA (K_any_adv P f0 HP f Hf) KS (KS_next (Datatypes.S f)) (K_any_inv P f0 HP) (K_any_fin P)
          (proj1 (smin_static lf _)) (proj2 (smin_static lf _)) N Sm Ss Sn sm lf (proj1 Hlf).

      Lemma bool_pack : forall Sm Ss Sn sm S lo r st', (forall x, S x = B.bool_S Sm Ss Sn sm x) -> 0 <= lo ->
        B.bool_exact_post searcher smin KI KF KA N Sm Ss Sn sm lo r st' -> exact_post BInv BFin S lo r (SBool st').
      Proof.
        intros Sm Ss Sn sm S lo r st' HS Hlo Hpost. destruct r as [rv|]; simpl in Hpost |- *.
        - destruct Hpost as [Hl Hret]. split; [eapply least_from_ext; [intros x; symmetry; apply HS|exact Hl]|].
          exists st', Sm, Ss, Sn, sm. split; [reflexivity|]. split; [exact Hret|]. split; [destruct Hl as [_ [Hl _]]; lia|exact HS].
        - destruct Hpost as [Hn Hd]. assert (Hn' : none_from S lo) by (eapply none_from_ext; [intros x; symmetry; apply HS|exact Hn]).
          split; [exact Hn'|]. exists st'. auto.
      Qed.

      Lemma B_next : next_exact searcher (snext lf (Datatypes.S (Datatypes.S f))) BInv BFin.
      Proof.
        intros s S lo [st [Sm [Ss [Sn [sm [-> [Hret [Hlo HS]]]]]]]].
        destruct (proj1 (Hbc Sm Ss Sn sm) st lo (B.bool_ret_inv _ _ _ _ KN _ KS _ _ _ _ _ _ _ Hret) Hlo) as [r [st' [E Hpost]]].
        rewrite snext_bool. unfold wrap. rewrite E. cbn [rbind fst snd]. eexists _, _. split; [reflexivity|].
        eapply bool_pack; eauto.
      Qed.

      Lemma B_adv : adv_exact searcher (sadv lf (Datatypes.S (Datatypes.S f))) BInv BFin.
      Proof.
        intros s S lo n [st [Sm [Ss [Sn [sm [-> [Hret [Hlo HS]]]]]]]] Hn.
        destruct (proj1 (proj2 (Hbc Sm Ss Sn sm)) st lo n Hret Hlo Hn) as [r [st' [E Hpost]]].
        rewrite sadv_bool. unfold wrap. rewrite E. cbn [rbind fst snd]. eexists _, _. split; [reflexivity|].
        eapply bool_pack; eauto. lia.
      Qed.

      Lemma B_new : new_exact (snext lf (Datatypes.S (Datatypes.S f))) BInv BFin BNew.
      Proof.
        intros s S [st [Sm [Ss [Sn [sm [-> [Hfresh HS]]]]]]].
        destruct (proj1 (Hbc Sm Ss Sn sm) st 0 (or_intror (conj Hfresh eq_refl)) ltac:(lia)) as [r [st' [E Hpost]]].
        rewrite snext_bool. unfold wrap. rewrite E. cbn [rbind fst snd]. eexists _, _. split; [reflexivity|].
        eapply bool_pack; eauto. lia.
      Qed.

      Lemma B_fin : fin_adv searcher (sadv lf (Datatypes.S (Datatypes.S f))) BFin.
      Proof.
        intros s S lo n [st [-> [Hd Hn]]] Hle.
        destruct (proj2 (proj2 (Hbc None None None 0)) st n Hd) as [_ E].
        rewrite sadv_bool. unfold wrap. rewrite E. cbn [rbind fst snd]. eexists _, lo. split; [reflexivity|]. split; [exact Hle|].
        exists st. auto.
      Qed.

      Lemma B_res : forall S low r s', exact_post BInv BFin S low r s' -> wres searcher BW S low r s'.
      Proof.
        intros S low [rv|] s' H; simpl in *.
        - destruct H as [[A [B0 _]] HI]. split; [exact A|]. split; [exact B0|]. split; [exact HI|exact A].
        - destruct H as [_ HF]. exists low. exact HF.
      Qed.

      Lemma B_wadv : wk_adv searcher (sadv lf (Datatypes.S (Datatypes.S f))) BW.
      Proof.
        intros s S p t HW Ht Hp. destruct p as [m|]; simpl in HW.
        - destruct HW as [HI _]. destruct (B_adv s S (m + 1) t HI ltac:(specialize (Hp m eq_refl); lia)) as [r [s' [E Hpost]]].
          exists r, s'. split; [exact E|]. apply B_res. exact Hpost.
        - destruct HW as [lo [st [-> [Hd Hn]]]].
          destruct (proj2 (proj2 (Hbc None None None 0)) st t Hd) as [_ E].
          rewrite sadv_bool. unfold wrap. rewrite E. cbn [rbind fst snd]. eexists _, _. split; [reflexivity|].
          simpl. exists lo, st. auto.
      Qed.

      Lemma B_wnext : wk_next searcher (snext lf (Datatypes.S (Datatypes.S f))) BW.
      Proof.
        intros s S m [HI _]. destruct (B_next s S (m + 1) HI) as [r [s' [E Hpost]]].
        exists r, s'. split; [exact E|]. apply B_res. exact Hpost.
      Qed.
    End AtFuelB.

    Lemma bool_good : good boolP (Datatypes.S (Datatypes.S f0)).
    Proof.
      constructor.
      - intros [|[|f]] Hf; try lia. apply B_next. lia.
      - intros [|[|f]] Hf; try lia. apply B_adv. lia.
      - intros [|[|f]] Hf; try lia. apply B_new. lia.
      - intros [|[|f]] Hf; try lia. apply B_fin. lia.
      - intros [|[|f]] Hf; try lia. apply B_wadv. lia.
      - intros [|[|f]] Hf; try lia. apply B_wnext. lia.
      - intros c S m HI HS. split; assumption.
      - intros c S lo HF. exists lo. exact HF.
    Qed.
  End Bools.

  (* ================= the union of two families ================= *)

  Definition unionP (P Q : preds) : preds :=
    mkP (fun s S lo => pInv P s S lo \/ pInv Q s S lo) (fun s S lo => pFin P s S lo \/ pFin Q s S lo)
        (fun s S => pNew P s S \/ pNew Q s S) (fun s S p => pW P s S p \/ pW Q s S p).

  Lemma exact_post_union_l : forall P Q S lo r s, exact_post (pInv P) (pFin P) S lo r s ->
    exact_post (pInv (unionP P Q)) (pFin (unionP P Q)) S lo r s.
  Proof. intros P Q S lo [m|] s [A B0]; split; auto; left; exact B0. Qed.
  Lemma exact_post_union_r : forall P Q S lo r s, exact_post (pInv Q) (pFin Q) S lo r s ->
    exact_post (pInv (unionP P Q)) (pFin (unionP P Q)) S lo r s.
  Proof. intros P Q S lo [m|] s [A B0]; split; auto; right; exact B0. Qed.
  Lemma wres_union_l : forall P Q S low r s, wres searcher (pW P) S low r s -> wres searcher (pW (unionP P Q)) S low r s.
  Proof. intros P Q S low [m|] s H; simpl in *; [destruct H as [A [B0 D]]; split; [exact A|split; [exact B0|left; exact D]]|left; exact H]. Qed.
  Lemma wres_union_r : forall P Q S low r s, wres searcher (pW Q) S low r s -> wres searcher (pW (unionP P Q)) S low r s.
  Proof. intros P Q S low [m|] s H; simpl in *; [destruct H as [A [B0 D]]; split; [exact A|split; [exact B0|right; exact D]]|right; exact H]. Qed.

  Lemma good_union : forall P Q f0 f1, good P f0 -> good Q f1 -> good (unionP P Q) (Nat.max f0 f1).
  Proof.
    intros P Q f0 f1 HP HQ. constructor.
    - intros f Hf s S lo [H|H].
      + destruct (g_next P f0 HP f ltac:(lia) s S lo H) as [r [s' [E Hp]]]. exists r, s'. split; [exact E|apply exact_post_union_l; exact Hp].
      + destruct (g_next Q f1 HQ f ltac:(lia) s S lo H) as [r [s' [E Hp]]]. exists r, s'. split; [exact E|apply exact_post_union_r; exact Hp].
    - intros f Hf s S lo n [H|H] Hn.
      + destruct (g_adv P f0 HP f ltac:(lia) s S lo n H Hn) as [r [s' [E Hp]]]. exists r, s'. split; [exact E|apply exact_post_union_l; exact Hp].
      + destruct (g_adv Q f1 HQ f ltac:(lia) s S lo n H Hn) as [r [s' [E Hp]]]. exists r, s'. split; [exact E|apply exact_post_union_r; exact Hp].
    - intros f Hf s S [H|H].
      + destruct (g_new P f0 HP f ltac:(lia) s S H) as [r [s' [E Hp]]]. exists r, s'. split; [exact E|apply exact_post_union_l; exact Hp].
      + destruct (g_new Q f1 HQ f ltac:(lia) s S H) as [r [s' [E Hp]]]. exists r, s'. split; [exact E|apply exact_post_union_r; exact Hp].
    - intros f Hf s S lo n [H|H] Hn.
      + destruct (g_fin P f0 HP f ltac:(lia) s S lo n H Hn) as [s' [lo2 [E [Hl Hp]]]]. exists s', lo2. split; [exact E|]. split; [exact Hl|left; exact Hp].
      + destruct (g_fin Q f1 HQ f ltac:(lia) s S lo n H Hn) as [s' [lo2 [E [Hl Hp]]]]. exists s', lo2. split; [exact E|]. split; [exact Hl|right; exact Hp].
    - intros f Hf s S p t [H|H] Ht Hp.
      + destruct (g_wadv P f0 HP f ltac:(lia) s S p t H Ht Hp) as [r [s' [E Hr]]]. exists r, s'. split; [exact E|apply wres_union_l; exact Hr].
      + destruct (g_wadv Q f1 HQ f ltac:(lia) s S p t H Ht Hp) as [r [s' [E Hr]]]. exists r, s'. split; [exact E|apply wres_union_r; exact Hr].
    - intros f Hf s S m [H|H].
      + destruct (g_wnext P f0 HP f ltac:(lia) s S m H) as [r [s' [E Hr]]]. exists r, s'. split; [exact E|apply wres_union_l; exact Hr].
      + destruct (g_wnext Q f1 HQ f ltac:(lia) s S m H) as [r [s' [E Hr]]]. exists r, s'. split; [exact E|apply wres_union_r; exact Hr].
    - intros c S m [H|H] HS; [left; eapply g_cw_inv; eauto|right; eapply g_cw_inv; eauto].
    - intros c S lo [H|H]; [left; eapply g_cw_fin; eauto|right; eapply g_cw_fin; eauto].
  Qed.

  (* ================= clause-level searchers of every depth ================= *)

  Fixpoint Cl (d : nat) : preds :=
    match d with
    | O => leafP
    | Datatypes.S d' => unionP (Cl d') (boolP (Cl d'))
    end.

  Lemma Cl_good : forall d, good (Cl d) (2 * d + 1).
  Proof.
    induction d as [| d IH]; [exact leaf_good|].
    cbn [Cl]. replace (2 * Datatypes.S d + 1)%nat with (Nat.max (2 * d + 1) (Datatypes.S (Datatypes.S (2 * d + 1)))) by lia.
    apply good_union; [exact IH|]. apply bool_good. exact IH.
  Qed.
End Tree.
