(* Search/Postings.v — corpus, snapshot layout and the snapshot-level postings iterators.

   Modelled code:
     index/postings.go        postingsIterator.Next (62-80), Advance (82-115)
     index/postings_all.go    postingsIteratorAll.Next (35-49), Advance (51-64)
     index/snapshot.go        segmentIndexAndLocalDocNumFromGlobal (316-324), PostingsIterator (326-386)
     index/dictionary.go      merged dictionary of all segments (term present in any segment, deleted docs included)

   The segment library (ice) is not modelled internally: a segment-level postings list for a term is
   the list of (local doc number, positions) of the documents of that segment holding the term, in
   increasing local number, minus the segment's deleted set (dict.PostingsList(term, seg.deleted, ..));
   a segment-level iterator is the remaining suffix of that list (Next pops the head, Advance n drops
   the entries below n and pops the head: ice PostingsIterator.nextAtOrAfter).  No proofs here. *)
From Coq Require Import ZArith List Bool.
From Bluge Require Import Base.Res Search.Numeric.
Import ListNotations.
Open Scope Z_scope.

(* ---------- analysed documents ---------- *)

(* one term of one field of one document with its token positions (1-based, increasing) *)
Record tf := { tf_term : list Z; tf_pos : list Z }.
(* a document: external id and, per field id, the analysed terms *)
Record doc := { d_id : Z; d_fields : list (Z * list tf) }.
(* a segment: documents in local-number order and the deleted local numbers *)
Record segment := { seg_docs : list doc; seg_del : list Z }.
Definition snapshot := list segment.

Definition field_terms (d : doc) (f : Z) : list tf :=
  flat_map (fun p => if fst p =? f then snd p else []) (d_fields d).

Definition term_positions (d : doc) (f : Z) (t : list Z) : option (list Z) :=
  match filter (fun x => bytes_eqb (tf_term x) t) (field_terms d f) with
  | [] => None
  | x :: _ => Some (tf_pos x)
  end.

Definition has_term (d : doc) (f : Z) (t : list Z) : bool :=
  match term_positions d f t with Some _ => true | None => false end.

Definition zmem (x : Z) (l : list Z) : bool := existsb (Z.eqb x) l.

(* ---------- layout: offsets (index/introducer.go: running sum of segment.Count()) ---------- *)

Definition seg_count (s : segment) : Z := Z.of_nat (length (seg_docs s)).

Fixpoint offsets_from (running : Z) (sn : snapshot) : list Z :=
  match sn with
  | [] => []
  | s :: r => running :: offsets_from (running + seg_count s) r
  end.
Definition offsets (sn : snapshot) : list Z := offsets_from 0 sn.

Definition total_docs (sn : snapshot) : Z := fold_right (fun s a => seg_count s + a) 0 sn.

(* sort.Search(len(offsets), func(x) { offsets[x] > docNum }) - 1, as a count of leading
   offsets <= docNum (the offsets are increasing); -1 when there is no segment *)
Fixpoint count_le (offs : list Z) (n : Z) : nat :=
  match offs with
  | [] => O
  | o :: r => if o <=? n then S (count_le r n) else O
  end.

(* numbered documents of a segment: (local number, doc) *)
Fixpoint number_from (k : Z) (ds : list doc) : list (Z * doc) :=
  match ds with
  | [] => []
  | d :: r => (k, d) :: number_from (k + 1) r
  end.

Definition seg_live (s : segment) : list (Z * doc) :=
  filter (fun p => negb (zmem (fst p) (seg_del s))) (number_from 0 (seg_docs s)).

(* live documents of the snapshot with their global numbers, in increasing number *)
Fixpoint live_from (running : Z) (sn : snapshot) : list (Z * doc) :=
  match sn with
  | [] => []
  | s :: r => map (fun p => (running + fst p, snd p)) (seg_live s) ++ live_from (running + seg_count s) r
  end.
Definition live_docs (sn : snapshot) : list (Z * doc) := live_from 0 sn.

(* ---------- segment-level postings ---------- *)

Record posting := { p_num : Z; p_locs : list Z }.

(* postings of term t in field f of one segment, deleted documents excluded *)
Definition seg_postings (f : Z) (t : list Z) (s : segment) : list posting :=
  flat_map (fun p => match term_positions (snd p) f t with
                     | Some ps => [{| p_num := fst p; p_locs := ps |}]
                     | None => []
                     end) (seg_live s).

(* ice PostingsIterator.nextAtOrAfter on the remaining list *)
Fixpoint drop_below (n : Z) (l : list posting) : list posting :=
  match l with
  | [] => []
  | p :: r => if p_num p <? n then drop_below n r else l
  end.

Definition nth_or {A} (l : list A) (i : nat) (d : A) : A := nth i l d.

Fixpoint set_nth {A} (l : list A) (i : nat) (x : A) : list A :=
  match l, i with
  | [], _ => []
  | _ :: t, O => x :: t
  | y :: t, S i' => y :: set_nth t i' x
  end.

(* ---------- index/postings.go: snapshot-level iterator ---------- *)

Record pit := {
  pi_segs : list (list posting);    (* the per-segment lists as built by Snapshot.PostingsIterator (restart) *)
  pi_iters : list (list posting);   (* i.iterators: remaining entries per segment *)
  pi_offs : list Z;                 (* i.snapshot.offsets *)
  pi_segoff : nat;                  (* i.segmentOffset *)
  pi_curr : option Z                (* Some currID when currPosting != nil *)
}.

Definition mk_pit (sn : snapshot) (f : Z) (t : list Z) : pit :=
  let segs := map (seg_postings f t) sn in
  {| pi_segs := segs; pi_iters := segs; pi_offs := offsets sn; pi_segoff := O; pi_curr := None |}.

(* an iterator over explicit per-segment lists (the unadorned rewrites of index/optimize.go,
   Snapshot.unadornedPostingsIterator): its term/field are the artificial "<conjunction:unadorned>" / "*",
   so the restart of Advance (a fresh Snapshot.PostingsIterator for that term) finds empty lists *)
Definition mk_pit_lists (sn : snapshot) (segs : list (list posting)) : pit :=
  {| pi_segs := map (fun _ => []) segs; pi_iters := segs; pi_offs := offsets sn; pi_segoff := O; pi_curr := None |}.

(* Next (postings.go:62-80): for i.segmentOffset < len(i.iterators) { next := iterators[segmentOffset].Next() .. } *)
Fixpoint pit_next_loop (fuel : nat) (it : pit) : res (option posting * pit) :=
  match fuel with
  | O => OutOfFuel
  | S f =>
      if (pi_segoff it <? length (pi_iters it))%nat then
        match nth_or (pi_iters it) (pi_segoff it) [] with
        | p :: r =>
            let num := p_num p + nth_or (pi_offs it) (pi_segoff it) 0 in
            Ok (Some {| p_num := num; p_locs := p_locs p |},
                {| pi_segs := pi_segs it; pi_iters := set_nth (pi_iters it) (pi_segoff it) r;
                   pi_offs := pi_offs it; pi_segoff := pi_segoff it; pi_curr := Some num |})
        | [] =>
            pit_next_loop f {| pi_segs := pi_segs it; pi_iters := pi_iters it; pi_offs := pi_offs it;
                               pi_segoff := S (pi_segoff it); pi_curr := pi_curr it |}
        end
      else Ok (None, it)
  end.
Definition pit_next (it : pit) : res (option posting * pit) :=
  pit_next_loop (S (length (pi_iters it))) it.

(* Advance (postings.go:82-115) *)
Definition pit_advance (it : pit) (number : Z) : res (option posting * pit) :=
  (* if i.currPosting != nil && i.currID >= number { restart from the beginning } *)
  let it1 := match pi_curr it with
             | Some c => if number <=? c
                         then {| pi_segs := pi_segs it; pi_iters := pi_segs it; pi_offs := pi_offs it;
                                 pi_segoff := O; pi_curr := None |}
                         else it
             | None => it
             end in
  match count_le (pi_offs it1) number with
  | O => Panic 1 (* i.offsets[-1]: index out of range (no segment, or number below the first offset) *)
  | S segIndex =>
      if (length (pi_iters it1) <=? segIndex)%nat then Err 1
      else
        let ldoc := number - nth_or (pi_offs it1) segIndex 0 in
        match drop_below ldoc (nth_or (pi_iters it1) segIndex []) with
        | p :: r =>
            let num := p_num p + nth_or (pi_offs it1) segIndex 0 in
            Ok (Some {| p_num := num; p_locs := p_locs p |},
                {| pi_segs := pi_segs it1; pi_iters := set_nth (pi_iters it1) segIndex r;
                   pi_offs := pi_offs it1; pi_segoff := segIndex; pi_curr := Some num |})
        | [] =>
            pit_next {| pi_segs := pi_segs it1; pi_iters := set_nth (pi_iters it1) segIndex [];
                        pi_offs := pi_offs it1; pi_segoff := segIndex; pi_curr := pi_curr it1 |}
        end
  end.

(* ---------- index/postings_all.go: iterator over all live documents ---------- *)

Record ait := {
  ai_iters : list (list Z);   (* roaring iterators over DocNumbersLive, remaining local numbers *)
  ai_offs : list Z;
  ai_segoff : nat
}.

Definition mk_ait (sn : snapshot) : ait :=
  {| ai_iters := map (fun s => map fst (seg_live s)) sn; ai_offs := offsets sn; ai_segoff := O |}.

Fixpoint ait_next_loop (fuel : nat) (it : ait) : res (option Z * ait) :=
  match fuel with
  | O => OutOfFuel
  | S f =>
      if (ai_segoff it <? length (ai_iters it))%nat then
        match nth_or (ai_iters it) (ai_segoff it) [] with
        | n :: r =>
            Ok (Some (n + nth_or (ai_offs it) (ai_segoff it) 0),
                {| ai_iters := set_nth (ai_iters it) (ai_segoff it) r; ai_offs := ai_offs it; ai_segoff := ai_segoff it |})
        | [] => ait_next_loop f {| ai_iters := ai_iters it; ai_offs := ai_offs it; ai_segoff := S (ai_segoff it) |}
        end
      else Ok (None, it)
  end.
Definition ait_next (it : ait) : res (option Z * ait) := ait_next_loop (S (length (ai_iters it))) it.

Fixpoint drop_below_z (n : Z) (l : list Z) : list Z :=
  match l with
  | [] => []
  | x :: r => if x <? n then drop_below_z n r else l
  end.

Definition ait_advance (it : ait) (number : Z) : res (option Z * ait) :=
  match count_le (ai_offs it) number with
  | O => Panic 1
  | S segIndex =>
      if (length (ai_iters it) <=? segIndex)%nat then Err 1
      else
        let ldoc := number - nth_or (ai_offs it) segIndex 0 in
        (* iterators[segmentOffset].AdvanceIfNeeded(localDocNum); return i.Next() *)
        ait_next {| ai_iters := set_nth (ai_iters it) segIndex (drop_below_z ldoc (nth_or (ai_iters it) segIndex []));
                    ai_offs := ai_offs it; ai_segoff := segIndex |}
  end.

(* ---------- dictionary (index/dictionary.go): terms of a field over all segments ---------- *)

(* every term of field f present in some segment (documents marked deleted still count: the
   segment dictionaries are not rewritten by deletions), in byte order without duplicates *)
Fixpoint insert_term (t : list Z) (l : list (list Z)) : list (list Z) :=
  match l with
  | [] => [t]
  | h :: r => match bytes_cmp t h with
              | Lt => t :: l
              | Eq => l
              | Gt => h :: insert_term t r
              end
  end.

Definition dict_terms (sn : snapshot) (f : Z) : list (list Z) :=
  fold_right insert_term []
    (flat_map (fun s => flat_map (fun d => map tf_term (field_terms d f)) (seg_docs s)) sn).

Definition dict_contains (sn : snapshot) (f : Z) (t : list Z) : bool :=
  existsb (bytes_eqb t) (dict_terms sn f).
