(* Search/BM25FProofs.v — the field length survives the norm (bm25.go:47-49 ComputeNorm, :100
   Score): math.Float32bits(float32(float64(math.Float32frombits(n)))) = n for every bit
   pattern n below the float32 infinity, whatever mantissa/exponent pair the float64 uses to
   denote the value (proved on specification floats, pure integer arithmetic). *)
From Coq Require Import ZArith Lia Floats Bool.
From Coq Require Import ZifyBool.
From Bluge Require Import Search.BM25F.
Open Scope Z_scope.

Lemma rne_shift_exact : forall m k, 0 <= m -> 0 < k -> rne_shift (m * 2 ^ k) k = m.
Proof.
  intros m k Hm Hk. unfold rne_shift.
  assert (Hp : 0 < 2 ^ k) by (apply Z.pow_pos_nonneg; lia).
  rewrite Z.div_mul by lia. rewrite Z.mod_mul by lia.
  assert (Hh : 0 < 2 ^ (k - 1)) by (apply Z.pow_pos_nonneg; lia).
  destruct (0 <? 2 ^ (k - 1)) eqn:E; [reflexivity | lia].
Qed.

Lemma log2_shift : forall m k, 0 < m -> 0 <= k -> Z.log2 (m * 2 ^ k) = Z.log2 m + k.
Proof. intros m k Hm Hk. rewrite Z.log2_mul_pow2 by lia. lia. Qed.

Lemma mant_exact : forall m k, 0 < m -> 0 <= k ->
  (if k <=? 0 then m * 2 ^ k * 2 ^ (- k) else rne_shift (m * 2 ^ k) k) = m.
Proof.
  intros m k Hm Hk. destruct (k <=? 0) eqn:Ek.
  - assert (k = 0) by lia. subst k. replace (- 0) with 0 by lia. rewrite Z.pow_0_r. lia.
  - apply rne_shift_exact; lia.
Qed.

(* a finite non-zero binary32 pattern decodes to (m, e); any pair (m*2^k, e-k) of the same value
   encodes back to the pattern *)
Lemma f32_roundtrip_sf_all : forall z k, 0 < z < 255 * 2 ^ 23 -> 0 <= k ->
  exists m e, sf_of_f32bits z = S754_finite false m e /\
    f32bits_of_sf (S754_finite false (Z.to_pos (Zpos m * 2 ^ k)) (e - k)) = z.
Proof.
  intros z k Hz Hk.
  assert (H31 : z / 2 ^ 31 = 0) by (apply Z.div_small; lia).
  assert (Hpk : 0 < 2 ^ k) by (apply Z.pow_pos_nonneg; lia).
  unfold sf_of_f32bits. rewrite H31. cbn [Z.odd].
  pose proof (Z.div_mod z (2 ^ 23) ltac:(lia)) as Hdm.
  pose proof (Z.mod_pos_bound z (2 ^ 23) ltac:(lia)) as Hmb.
  assert (He8 : 0 <= z / 2 ^ 23 < 255).
  { split; [apply Z.div_pos; lia | apply Z.div_lt_upper_bound; lia]. }
  rewrite (Z.mod_small (z / 2 ^ 23) (2 ^ 8)) by lia.
  set (e8 := z / 2 ^ 23) in *. set (f := z mod 2 ^ 23) in *.
  destruct (e8 =? 0) eqn:E0.
  - (* subnormal *)
    assert (Hf : f = z) by lia. assert (Hfz : 0 < f) by lia.
    destruct (f =? 0) eqn:Ef; [lia|].
    exists (Z.to_pos f), (-149). split; [reflexivity|].
    unfold f32bits_of_sf. rewrite Z2Pos.id by lia. rewrite Z2Pos.id by lia.
    rewrite log2_shift by lia.
    assert (Hl : Z.log2 f < 23) by (apply Z.log2_lt_pow2; lia).
    assert (Hl0 : 0 <= Z.log2 f) by apply Z.log2_nonneg.
    replace (-149 - k + (Z.log2 f + k)) with (-149 + Z.log2 f) by lia.
    destruct (-149 + Z.log2 f <? -126) eqn:El; [|lia].
    replace (-149 - (-149 - k)) with k by lia.
    rewrite mant_exact by lia.
    destruct (255 * 2 ^ 23 <=? (-149 + 149) * 2 ^ 23 + f) eqn:Eo; lia.
  - (* normal *)
    assert (Hne : e8 =? 255 = false) by lia. rewrite Hne.
    exists (Z.to_pos (f + 2 ^ 23)), (e8 - 150). split; [reflexivity|].
    unfold f32bits_of_sf. rewrite Z2Pos.id by lia. rewrite Z2Pos.id by lia.
    rewrite log2_shift by lia.
    assert (Hl : Z.log2 (f + 2 ^ 23) = 23).
    { apply Z.log2_unique; lia. }
    rewrite Hl.
    replace (e8 - 150 - k + (23 + k)) with (e8 - 127) by lia.
    destruct (e8 - 127 <? -126) eqn:El; [lia|].
    replace (e8 - 127 - 23 - (e8 - 150 - k)) with k by lia.
    rewrite mant_exact by lia.
    destruct (255 * 2 ^ 23 <=? (e8 - 127 - 23 + 149) * 2 ^ 23 + (f + 2 ^ 23)) eqn:Eo; lia.
Qed.

(* zero and the infinity pattern *)
Lemma f32_roundtrip_zero_inf :
  f32bits_of_sf (sf_of_f32bits 0) = 0 /\ f32bits_of_sf (sf_of_f32bits (255 * 2 ^ 23)) = 255 * 2 ^ 23.
Proof. split; reflexivity. Qed.

(* ---- on primitive floats ---- *)
Lemma digits2_pos_log2 : forall p, Zpos (SpecFloat.digits2_pos p) = Z.log2 (Zpos p) + 1.
Proof.
  assert (Hs : forall p, SpecFloat.digits2_pos p = Pos.size p).
  { induction p as [p IH|p IH|]; cbn [SpecFloat.digits2_pos Pos.size]; try rewrite IH; reflexivity. }
  intros p. rewrite Hs. destruct p as [p|p|]; cbn [Z.log2 Pos.size]; lia.
Qed.

Lemma canon_valid : forall s m e, Z.log2 (Zpos m) <= 52 -> -1074 <= e - (52 - Z.log2 (Zpos m)) <= 971 ->
  SpecFloat.valid_binary prec emax (sf64_canon (S754_finite s m e)) = true.
Proof.
  intros s m e Hl He. unfold sf64_canon. cbn [SpecFloat.valid_binary]. unfold SpecFloat.bounded, SpecFloat.canonical_mantissa, SpecFloat.fexp, SpecFloat.emin, prec, emax.
  set (k := 52 - Z.log2 (Zpos m)) in *.
  assert (Hk : 0 <= k) by lia.
  assert (Hp : 0 < 2 ^ k) by (apply Z.pow_pos_nonneg; lia).
  assert (Hpos : 0 < Zpos m * 2 ^ k) by lia.
  rewrite digits2_pos_log2. rewrite Z2Pos.id by lia. rewrite log2_shift by lia.
  apply andb_true_iff. split.
  - apply Zeq_is_eq_bool. lia.
  - lia.
Qed.

(* the field length survives ComputeNorm -> float64 -> Score's float32 bits, for every length
   up to and including the float32 infinity pattern 0x7F800000 *)
Lemma norm_roundtrip_all : forall n, 0 <= n <= 255 * 2 ^ 23 ->
  doc_len_of_norm (f64_of_f32bits (compute_norm_bits n)) = n.
Proof.
  intros n Hn. unfold compute_norm_bits. rewrite Z.mod_small by lia.
  unfold doc_len_of_norm, f32bits_of_f64, f64_of_f32bits.
  destruct (Z.eq_dec n 0) as [->|Hn0].
  { rewrite Prim2SF_SF2Prim by reflexivity. reflexivity. }
  destruct (Z.eq_dec n (255 * 2 ^ 23)) as [->|Hni].
  { rewrite Prim2SF_SF2Prim by reflexivity. reflexivity. }
  (* finite non-zero: the decoded mantissa has at most 24 bits and exponent in [-149, 104] *)
  assert (Hrange : 0 < n < 255 * 2 ^ 23) by lia.
  assert (Hdec : exists m e, sf_of_f32bits n = S754_finite false m e /\ Z.log2 (Zpos m) <= 23 /\ -149 <= e <= 104).
  { unfold sf_of_f32bits.
    assert (H31 : n / 2 ^ 31 = 0) by (apply Z.div_small; lia). rewrite H31. cbn [Z.odd].
    pose proof (Z.div_mod n (2 ^ 23) ltac:(lia)) as Hdm.
    pose proof (Z.mod_pos_bound n (2 ^ 23) ltac:(lia)) as Hmb.
    assert (He8 : 0 <= n / 2 ^ 23 < 255) by (split; [apply Z.div_pos; lia | apply Z.div_lt_upper_bound; lia]).
    rewrite (Z.mod_small (n / 2 ^ 23) (2 ^ 8)) by lia.
    set (e8 := n / 2 ^ 23) in *. set (f := n mod 2 ^ 23) in *.
    destruct (e8 =? 0) eqn:E0.
    - destruct (f =? 0) eqn:Ef; [lia|]. exists (Z.to_pos f), (-149). split; [reflexivity|].
      rewrite Z2Pos.id by lia. split; [|lia].
      assert (Z.log2 f < 23) by (apply Z.log2_lt_pow2; lia). lia.
    - assert (Hne : e8 =? 255 = false) by lia. rewrite Hne.
      exists (Z.to_pos (f + 2 ^ 23)), (e8 - 150). split; [reflexivity|].
      rewrite Z2Pos.id by lia. split; [|lia].
      assert (Z.log2 (f + 2 ^ 23) = 23) by (apply Z.log2_unique; lia). lia. }
  destruct Hdec as (m & e & Hsf & Hlog & He).
  rewrite Hsf. rewrite Prim2SF_SF2Prim.
  - unfold sf64_canon.
    destruct (f32_roundtrip_sf_all n (52 - Z.log2 (Zpos m)) Hrange ltac:(lia)) as (m' & e' & Hsf' & Hback).
    rewrite Hsf in Hsf'. injection Hsf' as <- <-. exact Hback.
  - apply canon_valid; [lia|]. pose proof (Z.log2_nonneg (Zpos m)). lia.
Qed.
