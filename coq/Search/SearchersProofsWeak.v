(* Search/SearchersProofsWeak.v — what remains true of searchers that are called outside the
   forward discipline.  Two callers do that:
     * a conjunction that reported the end and is advanced again (BooleanSearcher.Advance after its
       must searcher ran dry) advances its finished children to targets BELOW the point where they
       finished: a postings iterator then restarts or finds left-over postings in a segment it
       skipped, and returns documents it had passed;
     * the optional should searcher of a boolean with must clauses is advanced to every target
       (advanceIfTrailing), also to targets below its cursor.
   Such children are no longer exact, but they stay SOUND: CW c S p says that c answers every
   Advance t (t above its last answer p) with a member of S at or above t and every Next after an
   answer with a larger member.  With sound children
     * a conjunction whose denotation has no member at or above lo reports the end for every
       target n >= lo and keeps sound children (conj_wfin_adv);
     * a slice disjunction answers every Advance soundly and stays sound (dsl_wany_adv, ..._next). *)
From Coq Require Import ZArith List Bool Lia Arith.
From Bluge Require Import Base.Res Search.Numeric Search.Postings Search.Searchers
  Search.SearchersProofsBase Search.SearchersProofsConj Search.SearchersProofsDisj.
Import ListNotations.
Open Scope Z_scope.

Section Weak.
  Variable C : Type.
  Variable cnext : C -> res (option dmatch * C).
  Variable cadv : C -> Z -> res (option dmatch * C).
  Variable CW : C -> (Z -> bool) -> option Z -> Prop.

  Definition wres (S : Z -> bool) (low : Z) (r : option dmatch) (c' : C) : Prop :=
    match r with
    | Some x => S (dm_num x) = true /\ low <= dm_num x /\ CW c' S (Some (dm_num x))
    | None => CW c' S None
    end.

  Definition wk_adv : Prop := forall c S p t, CW c S p -> 0 <= t -> (forall m, p = Some m -> m < t) ->
    exists r c', cadv c t = Ok (r, c') /\ wres S t r c'.
  Definition wk_next : Prop := forall c S m, CW c S (Some m) ->
    exists r c', cnext c = Ok (r, c') /\ wres S (m + 1) r c'.

  Hypothesis Hwa : wk_adv.
  Hypothesis Hwn : wk_next.
  Variable N : Z.
  Variable Ss0 : list (Z -> bool).

  Definition wchild (c : C) (S : Z -> bool) (cur : option dmatch) : Prop :=
    bounded N S /\ CW c S (option_map dm_num cur) /\
    match cur with Some m => S (dm_num m) = true | None => True end.

  Lemma wchild_of_res : forall c' S low r, bounded N S -> wres S low r c' -> wchild c' S r.
  Proof.
    intros c' S low [x|] HB H; simpl in H.
    - destruct H as [A [_ B0]]. split; [exact HB|]. split; [exact B0|exact A].
    - split; [exact HB|]. split; [exact H|exact I].
  Qed.

  Lemma w3_lookup : forall cs Ss currs i,
    all3 wchild cs Ss currs -> (i < length currs)%nat ->
    exists c S cur, nth_error cs i = Some c /\ nth_error Ss i = Some S /\ nth_error currs i = Some cur /\ wchild c S cur.
  Proof.
    intros cs Ss currs i H. revert i. induction H; intros i Hi; simpl in *; [lia|].
    destruct i as [| i]; simpl.
    - exists a, b, d. split; [reflexivity|split; [reflexivity|split; [reflexivity|assumption]]].
    - apply IHall3. lia.
  Qed.

  (* advancing child i, whose cursor (if any) lies below the target *)
  Lemma w_adv_child : forall cs Ss currs i cur n,
    all3 wchild cs Ss currs -> nth_error currs i = Some cur -> 0 <= n ->
    (forall m, cur = Some m -> dm_num m < n) ->
    exists cs' r, adv_child C cadv cs currs i n = Ok (cs', set_nth currs i r) /\
      all3 wchild cs' Ss (set_nth currs i r) /\
      match r with Some m' => n <= dm_num m' < N | None => True end.
  Proof.
    intros cs Ss currs i cur n H3 Hi Hn Hlt.
    destruct (w3_lookup cs Ss currs i H3 (nth_error_Some_lt _ _ _ Hi)) as [c [S [cur' [Hc [HS [Hcur Hok]]]]]].
    rewrite Hi in Hcur. inversion Hcur; subst cur'. destruct Hok as [HB [HW Hm]].
    destruct (Hwa c S (option_map dm_num cur) n HW Hn) as [r [c' [E Hres]]].
    { intros m Hm'. destruct cur as [m0|]; simpl in Hm'; [|discriminate]. inversion Hm'; subst. apply Hlt. reflexivity. }
    exists (set_nth cs i c'), r. unfold adv_child. rewrite Hc. simpl. rewrite E. simpl.
    split; [reflexivity|]. split.
    - eapply all3_set; eauto. eapply wchild_of_res; eauto.
    - destruct r as [m'|]; [|exact I]. simpl in Hres. destruct Hres as [A [B0 _]]. pose proof (HB _ A). lia.
  Qed.

  Lemma w_adv_range : forall cnt x cs currs n,
    all3 wchild cs Ss0 currs -> 0 <= n -> cursors_from currs n \/ True ->
    (forall j, (x <= j < x + cnt)%nat -> exists m, nth_error currs j = Some (Some m) /\ dm_num m < n) ->
    exists cs' currs', adv_range C cadv cnt x cs currs n = Ok (cs', currs') /\
      all3 wchild cs' Ss0 currs' /\
      (total_slack N currs' <= total_slack N currs)%nat /\ length currs' = length currs /\
      (forall j, ~ (x <= j < x + cnt)%nat -> nth_error currs' j = nth_error currs j) /\
      (forall j m, (x <= j < x + cnt)%nat -> nth_error currs' j = Some (Some m) -> n <= dm_num m).
  Proof.
    induction cnt as [| cnt IH]; intros x cs currs n H3 Hn _ Hpre.
    - exists cs, currs. simpl. split; [reflexivity|]. split; [exact H3|]. split; [lia|]. split; [reflexivity|].
      split; [intros; reflexivity|]. intros j m Hj. lia.
    - destruct (Hpre x ltac:(lia)) as [m [Hx Hm]].
      destruct (w_adv_child cs Ss0 currs x (Some m) n H3 Hx Hn) as [cs1 [r [E [H31 Hr]]]].
      { intros m0 Hm0. inversion Hm0; subst. exact Hm. }
      assert (Hlen : (x < length currs)%nat) by (eapply nth_error_Some_lt; eauto).
      destruct (IH (S x) cs1 (set_nth currs x r) n H31 Hn (or_intror I)) as [cs2 [currs2 [E2 [H32 [Hs2 [Hl2 [Hun2 Hge2]]]]]]].
      { intros j Hj. destruct (Hpre j ltac:(lia)) as [mj [Hj1 Hj2]]. exists mj.
        rewrite nth_error_set_nth_neq by lia. split; assumption. }
      exists cs2, currs2. simpl. rewrite E. simpl. rewrite E2.
      split; [reflexivity|]. split; [exact H32|].
      split.
      { pose proof (total_slack_set N currs x (Some m) r Hx) as HT.
        assert (slack N r <= slack N (Some m))%nat.
        { destruct r as [m'|]; simpl; [|lia]. apply Z2Nat.inj_le; lia. }
        lia. }
      split; [rewrite Hl2; apply set_nth_length|].
      split.
      + intros j Hj. rewrite Hun2 by lia. apply nth_error_set_nth_neq. lia.
      + intros j mj Hj Hnj. destruct (Nat.eq_dec j x) as [->|Hne].
        * rewrite Hun2 in Hnj by lia. rewrite nth_error_set_nth_eq in Hnj by exact Hlen.
          inversion Hnj; subst r. lia.
        * apply (Hge2 j mj); [lia|exact Hnj].
  Qed.

  Lemma w_slack_le : forall c S cur, wchild c S cur -> (slack N cur <= Z.to_nat N)%nat.
  Proof.
    intros c S [m|] [HB [_ H]]; simpl; [|lia]. apply HB in H. apply Z2Nat.inj_le; lia.
  Qed.

  Lemma w_total_slack_le : forall cs Ss currs, all3 wchild cs Ss currs -> (total_slack N currs <= length currs * Z.to_nat N)%nat.
  Proof.
    intros cs Ss currs H. induction H; simpl; [lia|]. pose proof (w_slack_le _ _ _ H). lia.
  Qed.

  Lemma w_mu_le : forall cs currs mx oi, all3 wchild cs Ss0 currs -> (mu N currs mx oi < conj_fuel N (length currs))%nat.
  Proof.
    intros cs currs mx oi H. unfold mu, conj_fuel.
    pose proof (w_total_slack_le _ _ _ H) as HT.
    assert (HM : (slack N (nth mx currs None) <= Z.to_nat N)%nat).
    { destruct (nth_error currs mx) as [cur|] eqn:E.
      - rewrite (nth_nth_error _ _ _ _ E).
        destruct (w3_lookup cs Ss0 currs mx H (nth_error_Some_lt _ _ _ E)) as [c [S [cur' [_ [_ [E' Hok]]]]]].
        rewrite E in E'. inversion E'; subst. eapply w_slack_le; eauto.
      - rewrite nth_overflow by (apply nth_error_None; exact E). simpl. lia. }
    assert (phase (length currs) oi <= length currs + 2)%nat by (destruct oi; simpl; lia).
    nia.
  Qed.

  (* the leap-frog loop over sound children, when the conjunction has no member at or above n
     and every cursor is at or above n: it ends without a match *)
  Lemma w_conj_loop : forall fuel cs currs mx oi n,
    all3 wchild cs Ss0 currs -> cursors_from currs n -> 0 <= n -> none_from (conj_S Ss0) n ->
    loop_state_ok currs mx oi ->
    (mu N currs mx oi < fuel)%nat ->
    exists cs' currs' mx', conj_loop C cnext cadv fuel cs currs mx oi = Ok (None, (cs', currs', mx')) /\
                           all3 wchild cs' Ss0 currs'.
  Proof.
    induction fuel as [| fuel IH]; intros cs currs mx oi n H3 Hf Hn0 Hnone Hst Hmu; [lia|].
    destruct (all3_length _ _ _ _ H3) as [Hl1 Hl2].
    destruct oi as [i|]; simpl.
    - destruct Hst as [Hi [m [Hm Heq]]]. rewrite Hm.
      assert (Hmxlt : (mx < length currs)%nat) by (eapply nth_error_Some_lt; eauto).
      destruct (nth_error currs i) as [[c|]|] eqn:Ei.
      + assert (Hilt : (i < length currs)%nat) by (eapply nth_error_Some_lt; eauto).
        destruct (Nat.eqb i mx) eqn:Eim.
        { apply Nat.eqb_eq in Eim. subst i.
          apply IH with (n := n); auto.
          - split; [lia|]. exists m. split; [exact Hm|]. intros j Hj.
            destruct (Nat.eq_dec j mx) as [->|Hne]; [exists m; auto|]. apply Heq. lia.
          - unfold mu, phase in *. lia. }
        destruct (dm_num m =? dm_num c) eqn:Eeq.
        { apply Z.eqb_eq in Eeq. apply IH with (n := n); auto.
          - split; [lia|]. exists m. split; [exact Hm|]. intros j Hj.
            destruct (Nat.eq_dec j i) as [->|Hne]; [exists c; split; [exact Ei|lia]|]. apply Heq. lia.
          - unfold mu, phase in *. lia. }
        apply Z.eqb_neq in Eeq. apply Nat.eqb_neq in Eim.
        destruct (dm_num m <? dm_num c) eqn:Elt.
        { apply Z.ltb_lt in Elt.
          assert (HcN : dm_num c < N).
          { destruct (w3_lookup cs Ss0 currs i H3 Hilt) as [c0 [S0 [cur [_ [_ [Hcur [HB [_ Hok]]]]]]]].
            rewrite Ei in Hcur. inversion Hcur; subst cur. apply HB in Hok. lia. }
          pose proof (Hf i c Ei) as Hcn.
          destruct (w_adv_range i O cs currs (dm_num c) H3 ltac:(lia) (or_intror I)) as [cs1 [currs1 [E [H31 [Hs1 [Hlen1 [Hun1 Hge1]]]]]]].
          { intros j Hj. destruct (Heq j ltac:(lia)) as [cj [Hcj Hnum]]. exists cj. split; [exact Hcj|lia]. }
          rewrite E. simpl.
          assert (Hci : nth_error currs1 i = Some (Some c)) by (rewrite Hun1 by lia; exact Ei).
          apply IH with (n := n); auto.
          - intros j mj Hj. destruct (lt_dec j i) as [Hlt|Hge].
            + pose proof (Hge1 j mj ltac:(lia) Hj). lia.
            + rewrite Hun1 in Hj by lia. eapply Hf; eauto.
          - exact I.
          - unfold mu in *. rewrite Hlen1.
            rewrite (nth_nth_error currs1 i None _ Hci). rewrite (nth_nth_error currs mx None _ Hm) in Hmu.
            simpl slack in *. unfold phase in *.
            assert (Z.to_nat (N - dm_num c) < Z.to_nat (N - dm_num m))%nat by (apply Z2Nat.inj_lt; lia).
            nia. }
        { apply Z.ltb_ge in Elt. assert (Hcm : dm_num c < dm_num m) by lia.
          assert (HmN : dm_num m < N).
          { destruct (w3_lookup cs Ss0 currs mx H3 Hmxlt) as [c0 [S0 [cur [_ [_ [Hcur [HB [_ Hok]]]]]]]].
            rewrite Hm in Hcur. inversion Hcur; subst cur. apply HB in Hok. lia. }
          pose proof (Hf mx m Hm) as Hmn.
          destruct (w_adv_child cs Ss0 currs i (Some c) (dm_num m) H3 Ei ltac:(lia)) as [cs1 [r [E [H31 Hr]]]].
          { intros m0 Hm0. inversion Hm0; subst. exact Hcm. }
          rewrite E. simpl.
          apply IH with (n := n); auto.
          - apply cursors_from_set; [exact Hf|]. destruct r; [lia|exact I].
          - split; [rewrite set_nth_length; lia|]. exists m. split.
            + rewrite nth_error_set_nth_neq by lia. exact Hm.
            + intros j Hj. rewrite nth_error_set_nth_neq by lia. apply Heq. exact Hj.
          - unfold mu in *. rewrite set_nth_length.
            pose proof (total_slack_set N currs i (Some c) r Ei) as HT.
            assert (Hnth : nth mx (set_nth currs i r) None = nth mx currs None).
            { erewrite (nth_nth_error (set_nth currs i r) mx None); [|rewrite nth_error_set_nth_neq by lia; exact Hm].
              symmetry. eapply nth_nth_error; eauto. }
            rewrite Hnth.
            assert (slack N r < slack N (Some c))%nat.
            { destruct r as [m'|]; simpl.
              - apply Z2Nat.inj_lt; lia.
              - assert (0 < Z.to_nat (N - dm_num c))%nat by (apply Z2Nat.inj_lt with (n := 0); lia). lia. }
            unfold phase in *. nia. }
      + do 3 eexists. split; [reflexivity|exact H3].
      + (* every cursor equals the maximum: that would be a match at or above n *)
        exfalso.
        assert (Hilen : i = length currs) by (apply nth_error_None in Ei; lia). subst i.
        assert (HT : conj_S Ss0 (dm_num m) = true).
        { apply conj_S_true.
          - intros ->. simpl in Hl2. destruct currs; [simpl in Hmxlt; lia|discriminate].
          - intros j Sj HSj.
            assert (Hj : (j < length currs)%nat) by (apply nth_error_Some_lt in HSj; lia).
            destruct (Heq j Hj) as [curj [Hcurj Hnum]].
            destruct (nth_error cs j) as [cj|] eqn:Hcj; [|apply nth_error_None in Hcj; lia].
            pose proof (all3_nth _ _ _ _ _ _ _ _ H3 Hcj HSj Hcurj) as [_ [_ HS]]. rewrite <- Hnum. exact HS. }
        rewrite Hnone in HT; [discriminate|]. exact (Hf mx m Hm).
    - destruct (nth_error currs mx) as [[m|]|] eqn:Em.
      + apply IH with (n := n); auto.
        * split; [lia|]. exists m. split; [exact Em|]. intros j Hj. lia.
        * unfold mu, phase in *. lia.
      + do 3 eexists. split; [reflexivity|exact H3].
      + do 3 eexists. split; [reflexivity|exact H3].
  Qed.

  Lemma w_adv_trailing : forall cnt i cs currs n,
    all3 wchild cs Ss0 currs -> 0 <= n -> (i + cnt = length currs)%nat ->
    (forall j m, (j < i)%nat -> nth_error currs j = Some (Some m) -> n <= dm_num m) ->
    exists cs' currs', adv_trailing C cadv cnt i cs currs n = Ok (cs', currs') /\
      all3 wchild cs' Ss0 currs' /\ cursors_from currs' n /\ length currs' = length currs.
  Proof.
    induction cnt as [| cnt IH]; intros i cs currs n H3 Hn Hlen Hdone.
    - exists cs, currs. simpl. split; [reflexivity|]. split; [exact H3|]. split; [|reflexivity].
      intros j m Hj. apply (Hdone j m); [|exact Hj]. apply nth_error_Some_lt in Hj. lia.
    - assert (Hi : (i < length currs)%nat) by lia.
      destruct (nth_error currs i) as [cur|] eqn:Hcur; [|apply nth_error_None in Hcur; lia].
      assert (Hstep : (forall m, cur = Some m -> dm_num m < n) ->
                exists cs' currs', (y <- adv_child C cadv cs currs i n ;; adv_trailing C cadv cnt (S i) (fst y) (snd y) n) = Ok (cs', currs') /\
                  all3 wchild cs' Ss0 currs' /\ cursors_from currs' n /\ length currs' = length currs).
      { intros Hlt. destruct (w_adv_child cs Ss0 currs i cur n H3 Hcur Hn Hlt) as [cs1 [r [E [H31 Hr]]]].
        rewrite E. cbn [rbind fst snd].
        destruct (IH (S i) cs1 (set_nth currs i r) n H31 Hn) as [cs2 [currs2 [E2 [H32 [Hf2 Hl2]]]]].
        { rewrite set_nth_length. lia. }
        { intros j mj Hj Hnj. destruct (Nat.eq_dec j i) as [->|Hne].
          - rewrite nth_error_set_nth_eq in Hnj by exact Hi. inversion Hnj; subst r. lia.
          - rewrite nth_error_set_nth_neq in Hnj by congruence. apply (Hdone j mj); [lia|exact Hnj]. }
        exists cs2, currs2. split; [exact E2|]. split; [exact H32|]. split; [exact Hf2|].
        rewrite Hl2. apply set_nth_length. }
      simpl. rewrite Hcur. destruct cur as [m|].
      + destruct (n <=? dm_num m) eqn:En.
        * apply Z.leb_le in En. apply IH; auto; [lia|].
          intros j mj Hj Hnj. destruct (Nat.eq_dec j i) as [->|Hne]; [rewrite Hcur in Hnj; inversion Hnj; subst; exact En|].
          apply (Hdone j mj); [lia|exact Hnj].
        * apply Z.leb_gt in En. apply Hstep. intros m0 Hm0. inversion Hm0; subst. exact En.
      + apply Hstep. intros m0 Hm0. discriminate.
  Qed.

  (* ---------- the conjunction that reported the end ---------- *)

  Definition conj_wfin (st : conj_st C) : Prop :=
    cj_init st = true /\ all3 wchild (cj_s st) Ss0 (cj_currs st).

  Lemma conj_wfin_adv : forall lf st lo n, conj_wfin st -> none_from (conj_S Ss0) lo -> lo <= n -> 0 <= n ->
    (conj_fuel N (length Ss0) <= lf)%nat ->
    exists st', conj_advance C cnext cadv lf st n = Ok (None, st') /\ conj_wfin st'.
  Proof.
    intros lf st lo n [Hi H3] Hnone Hle Hn Hlf. unfold conj_advance, conj_initialise. rewrite Hi. cbn [rbind].
    destruct (all3_length _ _ _ _ H3) as [Hl1 Hl2].
    destruct (w_adv_trailing (length (cj_s st)) O (cj_s st) (cj_currs st) n H3 Hn ltac:(lia)) as [cs' [currs' [E [H3' [Hf' Hl']]]]].
    { intros j m Hj. lia. }
    rewrite E. cbn [rbind fst snd]. unfold conj_next, conj_initialise. cbn [cj_init cj_s cj_currs cj_max rbind].
    destruct (w_conj_loop lf cs' currs' (cj_max st) None n H3' Hf' Hn) as [cs2 [currs2 [mx2 [E2 H32]]]].
    { eapply none_from_mono; eauto. }
    { exact I. }
    { pose proof (w_mu_le cs' currs' (cj_max st) None H3'). destruct (all3_length _ _ _ _ H3') as [_ B0]. rewrite <- B0 in H. lia. }
    rewrite E2. cbn [rbind]. eexists. split; [reflexivity|].
    split; [reflexivity|exact H32].
  Qed.
  (* ---------- the slice disjunction over sound children ---------- *)

  Variable dmin : Z.

  Definition dsl_wany (st : dsl_st C) (p : option Z) : Prop :=
    ds_init st = true /\ ds_min st = dmin /\
    all3 wchild (ds_s st) Ss0 (ds_currs st) /\
    ds_matching st = fst (update_matches (ds_currs st)) /\ ds_idxs st = snd (update_matches (ds_currs st)) /\
    (forall q, p = Some q -> cursors_from (ds_currs st) (q + 1)).

  Lemma w_count : forall cs Ss currs d, all3 wchild cs Ss currs -> (count_at d currs <= count_true Ss d)%nat.
  Proof.
    intros cs Ss currs d H. induction H as [| c S cur cs Ss currs Hok H IH]; [unfold count_at, count_true; simpl; lia|].
    unfold count_at, count_true in *. simpl. destruct Hok as [_ [_ Hok]].
    destruct cur as [m|]; simpl.
    - destruct (dm_num m =? d) eqn:E; simpl.
      + apply Z.eqb_eq in E. subst d. rewrite Hok. simpl. lia.
      + destruct (S d); simpl; lia.
    - destruct (S d); simpl; lia.
  Qed.

  Lemma w_cursors_nonneg : forall cs Ss currs, all3 wchild cs Ss currs -> cursors_from currs 0.
  Proof.
    intros cs Ss currs H j m Hj.
    destruct (w3_lookup cs Ss currs j H (nth_error_Some_lt _ _ _ Hj)) as [c [S [cur [_ [_ [Hcur [HB [_ Hok]]]]]]]].
    rewrite Hj in Hcur. inversion Hcur; subst cur. apply HB in Hok. lia.
  Qed.

  (* stepping the children that sit on the candidate d *)
  Lemma w_next_idxs : forall idxs cs currs d,
    NoDup idxs -> all3 wchild cs Ss0 currs ->
    (forall j, In j idxs -> exists m, nth_error currs j = Some (Some m) /\ dm_num m = d) ->
    exists cs' currs', next_idxs C cnext idxs cs currs = Ok (cs', currs') /\ all3 wchild cs' Ss0 currs' /\
      (forall j m, nth_error currs' j = Some (Some m) -> d < dm_num m \/ (~ In j idxs /\ nth_error currs j = Some (Some m))).
  Proof.
    induction idxs as [| i idxs IH]; intros cs currs d Hnd H3 Hall.
    - exists cs, currs. simpl. split; [reflexivity|]. split; [exact H3|]. intros j m Hj. right. split; [intros []|exact Hj].
    - inversion Hnd as [| i' l' Hnin Hnd']; subst.
      destruct (Hall i (or_introl eq_refl)) as [m [Hi Hm]].
      assert (Hilt : (i < length currs)%nat) by (eapply nth_error_Some_lt; eauto).
      destruct (w3_lookup cs Ss0 currs i H3 Hilt) as [c [S [cur [Hc [HS [Hcur [HB [HW Hok]]]]]]]].
      rewrite Hi in Hcur. inversion Hcur; subst cur. simpl in HW.
      destruct (Hwn c S (dm_num m) HW) as [r [c' [E Hres]]].
      simpl. unfold next_child. rewrite Hc. simpl. rewrite E. simpl.
      destruct (IH (set_nth cs i c') (set_nth currs i r) d Hnd') as [cs2 [currs2 [E2 [H32 Hpost]]]].
      { eapply all3_set; eauto. eapply wchild_of_res; eauto. }
      { intros j Hj. destruct (Hall j (or_intror Hj)) as [mj [Hj1 Hj2]]. exists mj.
        rewrite nth_error_set_nth_neq by (intros ->; contradiction). split; assumption. }
      exists cs2, currs2. split; [exact E2|]. split; [exact H32|].
      intros j mj Hj. destruct (Hpost j mj Hj) as [Hgt|[Hnin' Hold]]; [left; exact Hgt|].
      destruct (Nat.eq_dec j i) as [->|Hne].
      + rewrite nth_error_set_nth_eq in Hold by exact Hilt. inversion Hold; subst r. simpl in Hres.
        left. destruct Hres as [_ [Hge _]]. lia.
      + rewrite nth_error_set_nth_neq in Hold by congruence. right. split; [|exact Hold].
        intros [Heq|Hin]; [congruence|contradiction].
  Qed.

  Definition dsl_wres (low : Z) (r : option dmatch) (st' : dsl_st C) : Prop :=
    match r with
    | Some rv => disj_S Ss0 dmin (dm_num rv) = true /\ low <= dm_num rv /\ dsl_wany st' (Some (dm_num rv))
    | None => dsl_wany st' None
    end.

  Lemma w_dsl_loop : forall fuel st L,
    dsl_wany st None -> cursors_from (ds_currs st) L -> 0 <= L -> (Z.to_nat (N - L) + 1 < fuel)%nat ->
    exists r st', dsl_loop C cnext fuel st = Ok (r, st') /\ dsl_wres L r st'.
  Proof.
    induction fuel as [| fuel IH]; intros st L HR HfL HL Hfuel; [lia|].
    pose proof HR as [Hi [Hmin [H3 [Hm [Hx _]]]]].
    destruct (all3_length _ _ _ _ H3) as [Hl1 Hl2].
    pose proof (update_matches_spec (ds_currs st)) as [Hlen Hum].
    pose proof (update_matches_idxs (ds_currs st)) as [Hnd Hbound].
    rewrite <- Hm in Hlen, Hum. rewrite <- Hx in Hlen, Hnd, Hbound, Hum.
    rewrite dsl_loop_unfold. destruct (ds_matching st) as [| m0 mr] eqn:Em.
    - exists None, st. split; [reflexivity|exact HR].
    - destruct Hum as [Hleast [Hall [Hcnt Hidx]]].
      remember (dm_num m0) as d eqn:Ed.
      assert (Hex : exists j m, nth_error (ds_currs st) j = Some (Some m) /\ dm_num m = d).
      { destruct (ds_idxs st) as [| j0 jr] eqn:Ej; [simpl in Hlen; discriminate|].
        destruct (proj1 (Hidx j0) (or_introl eq_refl)) as [m [Hj Hmj]]. eauto. }
      destruct Hex as [j0 [mj0 [Hj0 Hmj0]]].
      assert (HdL : L <= d) by (pose proof (HfL j0 mj0 Hj0); lia).
      assert (HdN : d < N).
      { destruct (w3_lookup _ _ _ j0 H3 (nth_error_Some_lt _ _ _ Hj0)) as [c [S [cur [_ [_ [Hcur [HB [_ Hok]]]]]]]].
        rewrite Hj0 in Hcur. inversion Hcur; subst cur. apply HB in Hok. lia. }
      destruct (w_next_idxs (ds_idxs st) (ds_s st) (ds_currs st) d Hnd H3) as [cs' [currs' [E [H3' Hpost]]]].
      { intros j Hj. apply Hidx. exact Hj. }
      rewrite E. cbn [rbind fst snd].
      assert (Hf' : cursors_from currs' (d + 1)).
      { intros j m Hj. destruct (Hpost j m Hj) as [Hgt|[Hnin Hold]]; [lia|].
        assert (d <= dm_num m) by (apply (Hleast (Some m) m); [eapply nth_error_In; eauto|reflexivity]).
        destruct (Z.eq_dec (dm_num m) d) as [Heq|Hne]; [|lia].
        exfalso. apply Hnin. apply Hidx. exists m. split; [exact Hold|exact Heq]. }
      set (st' := {| ds_s := cs'; ds_currs := currs'; ds_min := ds_min st;
                     ds_matching := fst (update_matches currs'); ds_idxs := snd (update_matches currs'); ds_init := true |}).
      assert (HR' : forall p, (forall q, p = Some q -> q + 1 <= d + 1) -> dsl_wany st' p).
      { intros p Hp. unfold dsl_wany, st'. simpl. split; [reflexivity|]. split; [exact Hmin|]. split; [exact H3'|].
        split; [reflexivity|]. split; [reflexivity|]. intros q Hq j m Hj. pose proof (Hf' j m Hj). pose proof (Hp q Hq). lia. }
      destruct (ds_min st <=? Z.of_nat (length (m0 :: mr))) eqn:Efound.
      + exists (build_match (m0 :: mr)), st'. split; [reflexivity|].
        cbn [build_match dsl_wres dm_num]. rewrite <- Ed.
        split; [|split; [exact HdL|apply HR'; intros q Hq; inversion Hq; lia]].
        unfold disj_S. apply Z.leb_le in Efound. rewrite Hmin in Efound. apply Z.leb_le.
        pose proof (w_count _ _ _ d H3) as Hc. rewrite <- Hcnt in Hc. simpl length in *. lia.
      + destruct (IH st' (d + 1) (HR' None ltac:(intros q Hq; discriminate)) Hf' ltac:(lia)) as [r [st'' [E2 Hres]]].
        { assert (Z.to_nat (N - (d + 1)) < Z.to_nat (N - L))%nat by (apply Z2Nat.inj_lt; lia). lia. }
        exists r, st''. split; [exact E2|]. destruct r as [rv|]; simpl in *; [|exact Hres].
        destruct Hres as [A [B0 D]]. split; [exact A|]. split; [lia|exact D].
  Qed.

  Lemma dsl_wany_weaken st p : dsl_wany st p -> dsl_wany st None.
  Proof.
    intros [A [B0 [D [E [F _]]]]]. split; [exact A|]. split; [exact B0|]. split; [exact D|]. split; [exact E|].
    split; [exact F|]. intros q Hq. discriminate.
  Qed.

  Lemma dsl_wany_next : forall lf st q, dsl_wany st (Some q) -> (Z.to_nat N + 2 <= lf)%nat ->
    exists r st', dsl_next C cnext lf st = Ok (r, st') /\ dsl_wres (q + 1) r st'.
  Proof.
    intros lf st q HR Hlf. unfold dsl_next, dsl_initialise. pose proof HR as [Hi [_ [H3 [_ [_ Hp]]]]]. rewrite Hi. cbn [rbind].
    destruct (w_dsl_loop lf st (Z.max 0 (q + 1)) (dsl_wany_weaken _ _ HR)) as [r [st' [E Hres]]].
    - intros j m Hj. pose proof (Hp q eq_refl j m Hj). pose proof (w_cursors_nonneg _ _ _ H3 j m Hj). lia.
    - lia.
    - lia.
    - exists r, st'. split; [exact E|]. destruct r as [rv|]; simpl in *; [|exact Hres].
      destruct Hres as [A [B0 D]]. split; [exact A|]. split; [lia|exact D].
  Qed.

  (* Advance: every target is answered *)
  Lemma dsl_wany_adv : forall lf st p n, dsl_wany st p -> 0 <= n -> (Z.to_nat N + 2 <= lf)%nat ->
    exists r st', dsl_advance C cnext cadv lf st n = Ok (r, st') /\ dsl_wres n r st'.
  Proof.
    intros lf st p n HR Hn Hlf. unfold dsl_advance, dsl_initialise. pose proof HR as [Hi [Hmin [H3 _]]]. rewrite Hi. cbn [rbind].
    destruct (all3_length _ _ _ _ H3) as [Hl1 Hl2].
    destruct (w_adv_trailing (length (ds_s st)) O (ds_s st) (ds_currs st) n H3 Hn ltac:(lia)) as [cs' [currs' [E [H3' [Hf' Hl']]]]].
    { intros j m Hj. lia. }
    rewrite E. cbn [rbind fst snd].
    apply w_dsl_loop; [|exact Hf'|exact Hn|lia].
    unfold dsl_wany. simpl. split; [reflexivity|]. split; [exact Hmin|]. split; [exact H3'|].
    split; [reflexivity|]. split; [reflexivity|]. intros q Hq. discriminate.
  Qed.
End Weak.
