(* Search/TopNCorr.v — correspondence cases for the topn engine: each case carries a match list
   (as produced by the searcher), a sort order and the results the implementation returned for
   several (size, skip, after, reverse) settings; check recomputes them with the model. *)
From Coq Require Import ZArith List Bool.
From Bluge Require Import Base.Int64 Base.Res Base.Corr Gen.ParamsTopN Search.Numeric Search.Sort Search.TopN.
Import ListNotations.
Open Scope Z_scope.

(* result observed on the implementation: None = the call panicked *)
Definition obs := option (list (Z * list bytes)).

Inductive dquery := DQ (size skip : Z) (after : option (list bytes)) (reverse : bool) (out : obs).
Inductive rquery := RQ (n : Z) (p : paging) (out : obs).

Inductive tcase :=
| CTopN (order : list sortspec) (agg_fields : list Z) (hits : list rawhit)
        (direct : list dquery) (request : list rquery)
| CCompare (descs : list bool) (ka kb : list bytes) (na nb : Z) (out : Z).

Definition obs_eqb (a b : list (Z * list bytes)) : bool :=
  list_eqb (pair_eqb Z.eqb zzlist_eqb) a b.

Definition res_matches (r : res (list hit * unit)) (o : obs) : bool :=
  match r, o with
  | Ok (l, _), Some out => obs_eqb (result_obs l) out
  | Panic _, None => true
  | _, _ => false
  end.

Definition no_aggs (_ : hit) (b : unit) : unit := b.

Definition check_dquery (order : list sortspec) (aggf : list Z) (hits : list rawhit) (q : dquery) : bool :=
  let '(DQ size skip after reverse out) := q in
  res_matches (c <- direct_collector size skip order reverse after aggf ;; run_collector no_aggs c tt hits) out.

Definition check_rquery (order : list sortspec) (aggf : list Z) (hits : list rawhit) (q : rquery) : bool :=
  let '(RQ n p out) := q in
  res_matches (topn_search no_aggs n order p aggf tt hits) out.

Definition mkhit (num : Z) (k : list bytes) : hit :=
  {| h_num := num; h_raw := dummy_raw; h_dv := []; h_sort := k |}.

Definition check (c : tcase) : bool :=
  match c with
  | CTopN order aggf hits dqs rqs =>
      forallb (check_dquery order aggf hits) dqs && forallb (check_rquery order aggf hits) rqs
  | CCompare descs ka kb na nb out =>
      compare descs (mkhit na ka) (mkhit nb kb) =? out
  end.

Definition mismatches (l : list tcase) : list nat := failing check l.
