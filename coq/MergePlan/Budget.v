(* MergePlan/Budget.v — executable model of mergeplan.CalcBudget
   (/repo/index/mergeplan/merge_plan.go:243-273).  No proofs in this file.

   Go computes with float64:
       segmentsInTier := float64(totalSize) / float64(tierSize)
       if segmentsInTier < float64(maxSegmentsPerTier) { budget += int(math.Ceil(segmentsInTier)); break }
       budget += maxSegmentsPerTier
       totalSize -= int64(maxSegmentsPerTier) * tierSize
       tierSize = int64(float64(tierSize) * tierGrowth)
   The model computes over Z with tierGrowth : Q:
       total/tier < M            as   total < M * tier
       int(ceil(total/tier))     as   integer ceiling division
       int64(float64(tier) * g)  as   Qfloor (tier * g)
   This is exact on the domain  0 <= total < 2^40, tier < 2^40, M <= 2^10, g = a/2^k with a <= 2^6
   (see docs/C19.md for the argument); the harness generates CalcBudget inputs only there and the
   correspondence cases (CBudget) compare the two on every run. *)
From Coq Require Import ZArith QArith Qround List Bool.
From Bluge Require Import Base.Res.
Import ListNotations.
Open Scope Z_scope.

(* state of the loop `for totalSize > 0 { ... }` *)
Inductive bstate :=
| BRun (total tier acc : Z)
| BDone (budget : Z).

(* integer ceiling of a/b for b > 0 *)
Definition cdiv (a b : Z) : Z := (a + b - 1) / b.

(* int64(float64(tier) * g) for tier >= 1, g >= 1 *)
Definition next_tier (tier : Z) (g : Q) : Z := Qfloor (inject_Z tier * g).

(* one evaluation of the loop condition + body (merge_plan.go:260-270) *)
Definition budget_step (M : Z) (g : Q) (s : bstate) : bstate :=
  match s with
  | BDone b => BDone b
  | BRun total tier acc =>
      if total <=? 0 then BDone acc                                  (* loop condition false *)
      else if total <? M * tier then BDone (acc + cdiv total tier)   (* :262-264 break *)
      else BRun (total - M * tier) (next_tier tier g) (acc + M)      (* :267-269 *)
  end.

(* Iteration indexed by a binary positive: xH = one step, xO p = p steps twice,
   xI p = one step then p steps twice; a finished state is returned at once, so the
   evaluation cost is the number of loop iterations actually taken (plus the bit length
   of the fuel), not the fuel. *)
Fixpoint iter_stop (M : Z) (g : Q) (p : positive) (s : bstate) : bstate :=
  match s with
  | BDone _ => s
  | BRun _ _ _ =>
      match p with
      | xH => budget_step M g s
      | xO p' => iter_stop M g p' (iter_stop M g p' s)
      | xI p' => iter_stop M g p' (iter_stop M g p' (budget_step M g s))
      end
  end.

(* the clamps of merge_plan.go:245-258 *)
Definition clamp_tier (first : Z) : Z := if first <? 1 then 1 else first.
Definition clamp_per_tier (M : Z) : Z := if M <? 1 then 1 else M.
Definition clamp_growth (g : Q) : Q := if Qle_bool 1 g then g else 1%Q.

(* CalcBudget(totalSize, firstTierSize, o) with o.MaxSegmentsPerTier = M, o.TierGrowth = g.
   Fuel total+1: every iteration lowers totalSize by at least 1 (BudgetProofs: never OutOfFuel). *)
Definition calc_budget (total first M : Z) (g : Q) : res Z :=
  match iter_stop (clamp_per_tier M) (clamp_growth g) (Z.to_pos (total + 1))
                  (BRun total (clamp_tier first) 0) with
  | BDone b => Ok b
  | BRun _ _ _ => OutOfFuel
  end.
