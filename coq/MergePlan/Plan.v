(* MergePlan/Plan.v — executable model of the merge planner
     /repo/index/mergeplan/merge_plan.go   plan (139-222), findLiveSizesAndEligibles (224-238),
                                           RaiseToFloorSegmentSize (112-117), removeSegments (276-288),
                                           ValidateMergePlannerOptions (382-387), DefaultMergePlanOptions (128-135)
     /repo/index/mergeplan/sort.go         byLiveSizeDescending (17-28)
   and of the way the merger applies a plan, on sizes only
     /repo/index/merge.go                  planMergeAtSnapshot (89-125), executeMergeTask (127-215),
                                           planSegmentsToMerge (217-241)
     /repo/index/introducer.go             introduceMerge (241-330).
   CalcBudget is in MergePlan/Budget.v.  No proofs in this file.

   A segment is (id, full size, live size); sizes are Go int64 modelled as Z, the two int64
   additions of the planner are written with wrap64.  The score function (Options.ScoreSegments,
   default mergeplan.ScoreSegments: float64 with math.Pow) is an argument `score : list seg -> Z`:
   any key whose `<` is the order used at merge_plan.go:205.  removeSegments compares interface
   values (pointer identity); the model compares ids, the same thing when ids are distinct (the
   Segment interface documents the id as unique). *)
From Coq Require Import ZArith QArith List Bool.
From Bluge Require Import Base.Int64 Base.Res Gen.ParamsPlan MergePlan.Budget.
Import ListNotations.
Open Scope Z_scope.

Record seg := mkseg { seg_id : Z; seg_full : Z; seg_live : Z }.

Record options := mkopts {
  o_max_per_tier : Z;   (* MaxSegmentsPerTier *)
  o_max_size : Z;       (* MaxSegmentSize *)
  o_growth : Q;         (* TierGrowth *)
  o_per_task : Z;       (* SegmentsPerMergeTask *)
  o_floor : Z;          (* FloorSegmentSize *)
  o_reclaim : Q         (* ReclaimDeletesWeight: read by the default score only *)
}.

(* merge_plan.go:128-135, regenerated from the Go literal on every run *)
Definition default_options : options :=
  mkopts plan_default_max_segments_per_tier plan_default_max_segment_size plan_default_tier_growth
         plan_default_segments_per_merge_task plan_default_floor_segment_size
         plan_default_reclaim_deletes_weight.

(* ValidateMergePlannerOptions (382-387) accepts exactly these *)
Definition validate_options (o : options) : bool := o_max_size o <=? plan_max_segment_size_limit.

(* the "sane options" of the theorems: accepted by ValidateMergePlannerOptions, a positive
   maximum size, at least one segment per task *)
Definition sane_options (o : options) : Prop :=
  0 < o_max_size o <= plan_max_segment_size_limit /\ 1 <= o_per_task o.
Definition sane_optionsb (o : options) : bool :=
  (0 <? o_max_size o) && validate_options o && (1 <=? o_per_task o).

Definition zlen {A} (l : list A) : Z := Z.of_nat (length l).
Definition ids (l : list seg) : list Z := map seg_id l.
Definition sum_live (l : list seg) : Z := fold_right (fun s a => seg_live s + a) 0 l.

(* int64 addition result: wrap64 z, computed without the 64-bit division when z is already an
   int64 (PlanProofs.wrap64f_eq: wrap64f z = wrap64 z for every z) *)
Definition wrap64f (z : Z) : Z :=
  if (min_int64 <=? z) && (z <=? max_int64) then z else wrap64 z.

(* ---------- sort.go: byLiveSizeDescending.Less ---------- *)
Definition seg_before (a b : seg) : bool :=
  if negb (seg_live a =? seg_live b) then seg_live b <? seg_live a
  else seg_id a <? seg_id b.

(* sort.Sort(byLiveSizeDescending(segments)): with distinct ids the order is total, so the sorted
   permutation is unique whatever algorithm sort.Sort runs; the model is insertion sort *)
Fixpoint insert_seg (s : seg) (l : list seg) : list seg :=
  match l with
  | [] => [s]
  | h :: t => if seg_before s h then s :: l else h :: insert_seg s t
  end.
Definition sort_segs (l : list seg) : list seg := fold_right insert_seg [] l.

(* ---------- RaiseToFloorSegmentSize (112-117) ---------- *)
Definition raise_floor (o : options) (s : Z) : Z := if o_floor o <? s then s else o_floor o.

(* ---------- findLiveSizesAndEligibles (224-238) ---------- *)
(* o.MaxSegmentSize/2: Go's integer division truncates toward zero *)
Definition half_max (o : options) : Z := Z.quot (o_max_size o) 2.
Definition eligible (o : options) (s : seg) : bool := seg_live s <? half_max o.
Definition min_live (l : list seg) : Z :=
  fold_left (fun m s => if seg_live s <? m then seg_live s else m) l max_int64.
Definition eligibles (o : options) (l : list seg) : list seg := filter (eligible o) l.
(* eligiblesLiveSize += segment.LiveSize()  (int64) *)
Definition eligibles_live (o : options) (l : list seg) : Z :=
  fold_left (fun a s => wrap64f (a + seg_live s)) (eligibles o l) 0.

(* ---------- removeSegments (276-288): stable ---------- *)
Definition in_ids (s : seg) (l : list seg) : bool := existsb (fun r => seg_id r =? seg_id s) l.
Definition remove_segs (l rem : list seg) : list seg := filter (fun s => negb (in_ids s rem)) l.

(* ---------- the roster built from one start index (190-200) ----------
   l = eligibles[startIdx:], n = len(roster), size = rosterLiveSize *)
Fixpoint build_roster (o : options) (l : list seg) (n size : Z) : list seg :=
  match l with
  | [] => []
  | e :: t =>
      if n <? o_per_task o then
        if wrap64f (size + seg_live e) <? o_max_size o
        then e :: build_roster o t (n + 1) (wrap64f (size + seg_live e))
        else build_roster o t n size
      else []
  end.

(* the non-empty rosters of all start indices, in order (189, 202) *)
Fixpoint all_rosters (o : options) (l : list seg) : list (list seg) :=
  match l with
  | [] => []
  | _ :: t =>
      match build_roster o l 0 0 with
      | [] => all_rosters o t
      | r => r :: all_rosters o t
      end
  end.

(* 203-208: the first roster with the strictly smallest score *)
Fixpoint pick_best (score : list seg -> Z) (rs : list (list seg)) (best : option (list seg * Z))
  : option (list seg * Z) :=
  match rs with
  | [] => best
  | r :: t =>
      let sc := score r in
      pick_best score t
        (match best with
         | None => Some (r, sc)
         | Some (_, bs) => if sc <? bs then Some (r, sc) else best
         end)
  end.
Definition best_roster (score : list seg -> Z) (o : options) (elig : list seg) : option (list seg) :=
  option_map fst (pick_best score (all_rosters o elig) None).

(* the loop condition at 183 *)
Definition over_budget (budget : Z) (elig : list seg) (ntasks : Z) : bool :=
  (0 <? zlen elig) && (budget <? zlen elig + ntasks).

(* ---------- the loop 183-219; returns the tasks appended by the loop ---------- *)
Fixpoint plan_loop (fuel : nat) (score : list seg -> Z) (o : options) (budget : Z)
         (elig : list seg) (ntasks : Z) : res (list (list seg)) :=
  if over_budget budget elig ntasks then
    match fuel with
    | O => OutOfFuel
    | S f =>
        match best_roster score o elig with
        | None => Ok []                                   (* 212-214 *)
        | Some r =>
            ts <- plan_loop f score o budget (remove_segs elig r) (ntasks + 1) ;;
            Ok (r :: ts)
        end
    end
  else Ok [].

(* 170-179 *)
Definition empties (elig : list seg) : list seg := filter (fun s => seg_live s <=? 0) elig.

(* 168-179: the tasks before the loop (the empties task, if any) and the eligibles the loop
   starts with *)
Definition loop_start (o : options) (sorted : list seg) : list (list seg) * list seg :=
  let el := eligibles o sorted in
  match empties el with
  | [] => ([], el)
  | em => ([em], remove_segs el em)
  end.

(* everything after the budget is known (168-221), on the sorted list *)
Definition plan_sorted (score : list seg -> Z) (o : options) (budget : Z) (sorted : list seg)
  : res (list (list seg)) :=
  let '(tasks0, el') := loop_start o sorted in
  ts <- plan_loop (S (length el')) score o budget el' (zlen tasks0) ;;
  Ok (tasks0 ++ ts).

(* the arguments handed to calcBudget at 161 *)
Definition budget_args (o : options) (sorted : list seg) : Z * Z :=
  (eligibles_live o sorted, raise_floor o (min_live sorted)).

Definition budget_of (o : options) (sorted : list seg) : res Z :=
  let '(total, first) := budget_args o sorted in
  calc_budget total first (o_max_per_tier o) (o_growth o).

(* plan(segmentsIn, o) for a non-nil o; None = the nil *MergePlan of 140-142 *)
Definition plan_with (score : list seg -> Z) (o : options) (l : list seg)
  : res (option (list (list seg))) :=
  if zlen l <=? 1 then Ok None
  else
    let sorted := sort_segs l in
    b <- budget_of o sorted ;;
    ts <- plan_sorted score o b sorted ;;
    Ok (Some ts).

(* Plan(segments, o): o = None is Go's nil (144-146) *)
Definition effective (o : option options) : options :=
  match o with Some o' => o' | None => default_options end.
Definition plan (score : list seg -> Z) (o : option options) (l : list seg)
  : res (option (list (list seg))) :=
  plan_with score (effective o) l.

(* ================= applying a plan (merge.go, introducer.go), sizes only =================
   State: the persisted segments of the snapshot and Writer.nextSegmentID.  A task becomes one
   new segment whose full and live sizes are the sum of the live sizes of its segments
   (sizes are document counts: segment.go:48-54; the merge drops the deleted documents);
   segments with LiveSize()==0 are not merged (merge.go:225-227) and when nothing is left no
   segment is produced (merge.go:136, introducer.go:302); introduceMerge keeps only the other
   segments whose LiveSize() > 0 (introducer.go:264) and puts the new one at the end (:304). *)
Definition state := (list seg * Z)%type.

Definition apply_task (st : state) (t : list seg) : state :=
  let '(segs, next) := st in
  match t with
  | [] => st                                      (* merge.go:128-131 *)
  | _ =>
      let newid := next + 1 in                    (* merge.go:137 atomic.AddUint64 *)
      let kept := filter (fun s => negb (seg_live s =? 0)) t in
      let rest := filter (fun s => 0 <? seg_live s) (remove_segs segs t) in
      match kept with
      | [] => (rest, newid)
      | _ => (rest ++ [mkseg newid (sum_live kept) (sum_live kept)], newid)
      end
  end.

(* planMergeAtSnapshot 113-119: the tasks are executed serially *)
Definition apply_plan (st : state) (tasks : list (list seg)) : state := fold_left apply_task tasks st.

(* a task that rewrites one segment without deletions into an identical one *)
Definition noop_task (t : list seg) : bool :=
  match t with
  | [s] => (seg_full s =? seg_live s) && negb (seg_live s =? 0)
  | _ => false
  end.

(* progress measure: #segments + #segments with deletions *)
Definition has_deletes (s : seg) : bool := negb (seg_full s =? seg_live s).
Definition measure (l : list seg) : Z := zlen l + zlen (filter has_deletes l).

(* one merger cycle: plan on the current segments, apply *)
Definition cycle (score : list seg -> Z) (o : options) (st : state)
  : res (option (list (list seg)) * state) :=
  p <- plan_with score o (fst st) ;;
  match p with
  | None => Ok (None, st)
  | Some ts => Ok (Some ts, apply_plan st ts)
  end.

(* a plan with nothing to do: nil or no tasks *)
Definition empty_plan (p : option (list (list seg))) : bool :=
  match p with None => true | Some [] => true | _ => false end.

Inductive outcome :=
| Quiescent (st : state)          (* an empty plan was returned in state st *)
| NoopPlanned (st : state)        (* a plan containing a no-op task was returned in state st *)
| StillWorking (st : state)       (* cycles used up *)
| Failed.                         (* OutOfFuel inside plan (excluded by the theorems) *)

Fixpoint run_cycles (n : nat) (score : list seg -> Z) (o : options) (st : state) : outcome :=
  match plan_with score o (fst st) with
  | Ok p =>
      if empty_plan p then Quiescent st
      else match p with
           | Some ts =>
               if existsb noop_task ts then NoopPlanned st
               else match n with
                    | O => StillWorking st
                    | S n' => run_cycles n' score o (apply_plan st ts)
                    end
           | None => Quiescent st
           end
  | _ => Failed
  end.

(* n merger cycles in a row (no arrivals in between) *)
Fixpoint iter_cycles (n : nat) (score : list seg -> Z) (o : options) (st : state) : res state :=
  match n with
  | O => Ok st
  | S n' => r <- cycle score o st ;; iter_cycles n' score o (snd r)
  end.

(* the sizes of a state, ids forgotten *)
Definition sizes (l : list seg) : list (Z * Z) := map (fun s => (seg_full s, seg_live s)) l.

(* ---------- histories on sizes: arrivals, deletions and merger cycles ---------- *)
Inductive event :=
| EArrive (full live : Z)     (* a batch is persisted as a new segment (id = ++nextSegmentID) *)
| EDelete (id d : Z)          (* d documents of segment id are deleted: its live size drops *)
| ECycle.                     (* the merger plans on the current segments and executes the plan *)

Definition delete_in (id d : Z) (l : list seg) : list seg :=
  map (fun s => if seg_id s =? id then mkseg (seg_id s) (seg_full s) (seg_live s - d) else s) l.

(* tasks that are not no-ops *)
Definition useful_tasks (ts : list (list seg)) : Z := zlen (filter (fun t => negb (noop_task t)) ts).

(* runs the history; `work` accumulates the number of useful tasks executed *)
Fixpoint run_history (score : list seg -> Z) (o : options) (h : list event) (st : state) (work : Z)
  : res (state * Z) :=
  match h with
  | [] => Ok (st, work)
  | EArrive f l :: h' =>
      run_history score o h' (fst st ++ [mkseg (snd st + 1) f l], snd st + 1) work
  | EDelete i d :: h' => run_history score o h' (delete_in i d (fst st), snd st) work
  | ECycle :: h' =>
      r <- cycle score o st ;;
      run_history score o h' (snd r)
        (work + match fst r with Some ts => useful_tasks ts | None => 0 end)
  end.

Definition arrivals (h : list event) : Z :=
  zlen (filter (fun e => match e with EArrive _ _ => true | _ => false end) h).
Definition deletions (h : list event) : Z :=
  zlen (filter (fun e => match e with EDelete _ _ => true | _ => false end) h).
