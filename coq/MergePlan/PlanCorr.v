(* MergePlan/PlanCorr.v — correspondence cases for the `plan` engine: each case carries what
   mergeplan.Plan / mergeplan.CalcBudget returned (and, for CPlanT, every call of the
   ScoreSegments and CalcBudget hooks in order); check re-computes it with the model. *)
From Coq Require Import ZArith QArith List Bool FMapPositive.
From Bluge Require Import Base.Int64 Base.Res Base.Corr Gen.ParamsPlan MergePlan.Budget MergePlan.Plan.
Import ListNotations.
Open Scope Z_scope.

Inductive pcase :=
(* Plan(segs, o) with Options.ScoreSegments wrapping the default score: `log` is the sequence of
   calls (ids of the roster, order-preserving integer key of the float64 returned);
   `bargs` = (totalSize, firstTierSize, result) of the single CalcBudget call, None when the
   hook was not called; out = None for a nil plan, else the tasks as id lists *)
| CPlanT (o : option options) (segs : list (Z * Z * Z)) (log : list (list Z * Z))
         (bargs : option (Z * Z * Z)) (out : option (list (list Z)))
(* Plan(segs, o) with Options.ScoreSegments = the synthetic integer score syn_score k *)
| CPlanS (o : options) (segs : list (Z * Z * Z)) (p : Z) (out : option (list (list Z)))
(* CalcBudget(total, first, {MaxSegmentsPerTier: M, TierGrowth: g}) = out *)
| CBudget (total first M : Z) (g : Q) (out : Z)
(* a plan made by the merger of a real index.Writer (harness/engines/plan_writer.go): segs = the persisted
   segments (id, Count, Count - #deleted) of the root current at the CalcBudget call, log / bargs as in
   CPlanT, tasks = the merges of persisted segments introduced before the merger's progress event, each as
   the ascending list of the ids of its old segments *)
| CPlanW (o : options) (segs : list (Z * Z * Z)) (log : list (list Z * Z)) (bargs : option (Z * Z * Z))
         (tasks : list (list Z))
(* one merge introduction of a real writer: all segments of the root before it, the id of the new segment
   (Writer.nextSegmentID after the increment), the ids of the merged segments, all segments of the root
   after it  =  Plan.apply_task *)
| CApply (before : list (Z * Z * Z)) (newid : Z) (old : list Z) (after : list (Z * Z * Z)).

Definition mk (t : Z * Z * Z) : seg := let '(i, f, l) := t in mkseg i f l.

(* a score key below every int64 key: a roster the implementation never scored wins every
   comparison in the model, and the trace comparison below fails anyway *)
Definition miss_key : Z := min_int64 - 1.

Fixpoint lookup (k : list Z) (log : list (list Z * Z)) : Z :=
  match log with
  | [] => miss_key
  | (k', v) :: t => if zlist_eqb k k' then v else lookup k t
  end.

(* the log indexed by the id of the first segment of the roster (an evaluation device only:
   table_score log r = lookup (ids r) log up to the order of equal entries, and the trace
   comparison in `check` makes every query of the model an entry of the log) *)
Definition id_key (i : Z) : positive := Z.to_pos (i + 1).
Definition index_log (log : list (list Z * Z)) : PositiveMap.t (list (list Z * Z)) :=
  fold_right (fun e m =>
                match fst e with
                | [] => m
                | i :: _ =>
                    let old := match PositiveMap.find (id_key i) m with Some b => b | None => [] end in
                    PositiveMap.add (id_key i) (e :: old) m
                end) (PositiveMap.empty _) log.
Definition table_score (tbl : PositiveMap.t (list (list Z * Z))) (r : list seg) : Z :=
  match r with
  | [] => miss_key
  | s :: _ =>
      match PositiveMap.find (id_key (seg_id s)) tbl with
      | Some bucket => lookup (ids r) bucket
      | None => miss_key
      end
  end.

(* the synthetic score the harness installs for large inputs (harness/engines/plan.go planSynScore):
   t := (h*31 + id + 7*live + full) & (2^k-1); h := (t * 2654435761) & (2^k-1) over the roster.
   The harness keeps ids < 2^32 and |sizes| < 2^44 in these cases so that nothing overflows
   int64, and k <= 30 so that the result is exact as a float64.  Z.land on a negative argument
   is the two's-complement `&` of Go. *)
Definition syn_score (k : Z) (r : list seg) : Z :=
  let mask := Z.ones k in
  fold_left (fun h s => Z.land (Z.land (h * 31 + seg_id s + 7 * seg_live s + seg_full s) mask * 2654435761) mask) r 0.

(* the rosters handed to the score function, in call order (mirrors plan_loop) *)
Fixpoint loop_trace (fuel : nat) (score : list seg -> Z) (o : options) (budget : Z)
         (elig : list seg) (ntasks : Z) : list (list seg) :=
  if over_budget budget elig ntasks then
    match fuel with
    | O => []
    | S f =>
        let rs := all_rosters o elig in
        match best_roster score o elig with
        | None => rs
        | Some r => rs ++ loop_trace f score o budget (remove_segs elig r) (ntasks + 1)
        end
    end
  else [].

Definition plan_trace (score : list seg -> Z) (o : options) (l : list seg) : list (list seg) :=
  if zlen l <=? 1 then []
  else
    let sorted := sort_segs l in
    match budget_of o sorted with
    | Ok b =>
        let '(tasks0, el') := loop_start o sorted in
        loop_trace (S (length el')) score o b el' (zlen tasks0)
    | _ => []
    end.

Definition plan_out_eqb (p : res (option (list (list seg)))) (out : option (list (list Z))) : bool :=
  match p with
  | Ok m => option_eqb zzlist_eqb (option_map (map ids) m) out
  | _ => false
  end.

Definition bargs_ok (o : options) (l : list seg) (bargs : option (Z * Z * Z)) : bool :=
  match bargs with
  | None => zlen l <=? 1
  | Some (total, first, b) =>
      negb (zlen l <=? 1) &&
      (let '(t, f) := budget_args o (sort_segs l) in (t =? total) && (f =? first)) &&
      match budget_of o (sort_segs l) with Ok b' => b' =? b | _ => false end
  end.

Fixpoint insert_z (x : Z) (l : list Z) : list Z :=
  match l with
  | [] => [x]
  | h :: t => if x <? h then x :: l else h :: insert_z x t
  end.
Definition sort_z (l : list Z) : list Z := fold_right insert_z [] l.

Definition seg3_eqb (a b : Z * Z * Z) : bool :=
  let '(a1, a2, a3) := a in let '(b1, b2, b3) := b in (a1 =? b1) && (a2 =? b2) && (a3 =? b3).
Definition un3 (s : seg) : Z * Z * Z := (seg_id s, seg_full s, seg_live s).

Definition check (c : pcase) : bool :=
  match c with
  | CPlanT o segs log bargs out =>
      let l := map mk segs in
      let o' := match o with Some x => x | None => default_options end in
      let score := table_score (index_log log) in
      plan_out_eqb (plan score o l) out
      && zzlist_eqb (map ids (plan_trace score o' l)) (map fst log)
      && bargs_ok o' l bargs
  | CPlanS o segs p out =>
      plan_out_eqb (plan (syn_score p) (Some o) (map mk segs)) out
  | CPlanW o segs log bargs tasks =>
      let l := map mk segs in
      let score := table_score (index_log log) in
      match plan_with score o l with
      | Ok (Some ts) => zzlist_eqb (map (fun t => sort_z (ids t)) ts) tasks
      | _ => false
      end
      && zzlist_eqb (map ids (plan_trace score o l)) (map fst log)
      && bargs_ok o l bargs
  | CApply before newid old after =>
      (* old segments that an earlier introduction already dropped (LiveSize 0) are not in `before`; when none is
         left the task is non-empty for merge.go all the same (id incremented, nothing merged): a placeholder *)
      let segs := map mk before in
      let task := filter (fun s => existsb (Z.eqb (seg_id s)) old) segs in
      match old with
      | [] => false
      | _ =>
          let '(segs', next') := apply_task (segs, newid - 1) (match task with [] => [mkseg (-1) 0 0] | _ => task end) in
          list_eqb seg3_eqb (map un3 segs') after && (next' =? newid)
      end
  | CBudget total first M g out =>
      match calc_budget total first M g with
      | Ok b => b =? out
      | _ => false
      end
  end.

Definition mismatches (l : list pcase) : list nat := failing check l.
