(* MergePlan/PlanProofs.v — proofs about the merge planner model (MergePlan/Plan.v).
   Everything is proved for EVERY score function (a Section variable) and every budget. *)
From Coq Require Import ZArith QArith List Bool Lia Permutation Sorted.
From Coq Require Import ZifyBool.
From Bluge Require Import Base.Int64 Base.Res Gen.ParamsPlan MergePlan.Budget MergePlan.BudgetProofs MergePlan.Plan.
Import ListNotations.
Open Scope Z_scope.

(* ================================================================= basics *)

Lemma wrap64f_eq z : wrap64f z = wrap64 z.
Proof.
  unfold wrap64f. destruct ((min_int64 <=? z) && (z <=? max_int64)) eqn:E; [|reflexivity].
  symmetry. apply wrap64_id. unfold in_int64. lia.
Qed.

Lemma zlen_nonneg {A} (l : list A) : 0 <= zlen l.
Proof. unfold zlen. lia. Qed.
Lemma zlen_cons {A} (a : A) l : zlen (a :: l) = zlen l + 1.
Proof. unfold zlen. cbn [length]. lia. Qed.
Lemma zlen_app {A} (l1 l2 : list A) : zlen (l1 ++ l2) = zlen l1 + zlen l2.
Proof. unfold zlen. rewrite app_length. lia. Qed.
Lemma zlen_nil {A} : zlen (@nil A) = 0.
Proof. reflexivity. Qed.

Lemma ids_app l1 l2 : ids (l1 ++ l2) = ids l1 ++ ids l2.
Proof. unfold ids. apply map_app. Qed.

Lemma sum_live_app l1 l2 : sum_live (l1 ++ l2) = sum_live l1 + sum_live l2.
Proof. unfold sum_live. induction l1 as [|a l1 IH]; cbn [fold_right app]; [lia|]. rewrite IH. lia. Qed.

(* ---------- subsequences ---------- *)
Inductive subseq {A} : list A -> list A -> Prop :=
| sub_nil : subseq [] []
| sub_skip a l1 l2 : subseq l1 l2 -> subseq l1 (a :: l2)
| sub_take a l1 l2 : subseq l1 l2 -> subseq (a :: l1) (a :: l2).

Lemma subseq_nil_l {A} (l : list A) : subseq [] l.
Proof. induction l; constructor; assumption. Qed.
Lemma subseq_refl {A} (l : list A) : subseq l l.
Proof. induction l; constructor; assumption. Qed.
Lemma subseq_trans {A} (l1 l2 l3 : list A) : subseq l1 l2 -> subseq l2 l3 -> subseq l1 l3.
Proof.
  intros H12 H23. revert l1 H12. induction H23 as [|a l2 l3 H IH|a l2 l3 H IH]; intros l1 H12.
  - exact H12.
  - constructor. apply IH. exact H12.
  - inversion H12; subst.
    + constructor. apply IH. assumption.
    + apply sub_take. apply IH. assumption.
Qed.
Lemma subseq_incl {A} (l1 l2 : list A) : subseq l1 l2 -> incl l1 l2.
Proof.
  induction 1 as [|a l1 l2 H IH|a l1 l2 H IH]; intros x Hx.
  - exact Hx.
  - right. apply IH. exact Hx.
  - destruct Hx as [->|Hx]; [left; reflexivity|right; apply IH; exact Hx].
Qed.
Lemma subseq_map {A B} (f : A -> B) l1 l2 : subseq l1 l2 -> subseq (map f l1) (map f l2).
Proof. induction 1; cbn [map]; constructor; assumption. Qed.
Lemma subseq_NoDup {A} (l1 l2 : list A) : subseq l1 l2 -> NoDup l2 -> NoDup l1.
Proof.
  induction 1 as [|a l1 l2 H IH|a l1 l2 H IH]; intros Hnd.
  - constructor.
  - inversion Hnd; subst. apply IH. assumption.
  - inversion Hnd; subst. constructor; [|apply IH; assumption].
    intros Hin. apply (subseq_incl _ _ H) in Hin. contradiction.
Qed.
Lemma subseq_filter {A} (p : A -> bool) l : subseq (filter p l) l.
Proof. induction l as [|a l IH]; cbn [filter]; [constructor|]. destruct (p a); constructor; exact IH. Qed.
Lemma subseq_length {A} (l1 l2 : list A) : subseq l1 l2 -> (length l1 <= length l2)%nat.
Proof. induction 1; cbn [length]; lia. Qed.

Lemma NoDup_ids_subseq l1 l2 : subseq l1 l2 -> NoDup (ids l2) -> NoDup (ids l1).
Proof. intros H. apply subseq_NoDup. apply subseq_map. exact H. Qed.

(* an injective-on-the-list key identifies the element *)
Lemma NoDup_ids_inj l a b : NoDup (ids l) -> In a l -> In b l -> seg_id a = seg_id b -> a = b.
Proof.
  induction l as [|h t IH]; intros Hnd Ha Hb E; [contradiction|].
  cbn [ids map] in Hnd. inversion Hnd as [|x xs Hnot Hnd']; subst.
  destruct Ha as [->|Ha], Hb as [->|Hb].
  - reflexivity.
  - exfalso. apply Hnot. rewrite E. apply in_map. exact Hb.
  - exfalso. apply Hnot. rewrite <- E. apply in_map. exact Ha.
  - apply IH; assumption.
Qed.

(* ---------- removeSegments ---------- *)
Lemma in_ids_true s l : in_ids s l = true <-> In (seg_id s) (ids l).
Proof.
  unfold in_ids. rewrite existsb_exists. split.
  - intros [r [Hr E]]. apply Z.eqb_eq in E. rewrite <- E. apply in_map. exact Hr.
  - intros H. apply in_map_iff in H. destruct H as [r [E Hr]]. exists r. split; [exact Hr|]. apply Z.eqb_eq. exact E.
Qed.
Lemma in_ids_false s l : in_ids s l = false <-> ~ In (seg_id s) (ids l).
Proof.
  rewrite <- in_ids_true. destruct (in_ids s l); split; intros H.
  - discriminate.
  - exfalso. apply H. reflexivity.
  - intros H'. discriminate.
  - reflexivity.
Qed.

Lemma remove_segs_subseq l rem : subseq (remove_segs l rem) l.
Proof. apply subseq_filter. Qed.
Lemma remove_segs_In s l rem : In s (remove_segs l rem) <-> In s l /\ ~ In (seg_id s) (ids rem).
Proof. unfold remove_segs. rewrite filter_In. rewrite negb_true_iff, in_ids_false. tauto. Qed.
Lemma remove_segs_nil l : remove_segs l [] = l.
Proof. unfold remove_segs. induction l as [|a l IH]; cbn [filter in_ids existsb negb]; [reflexivity|]. f_equal. exact IH. Qed.
Lemma remove_segs_app l a b : remove_segs (remove_segs l a) b = remove_segs l (a ++ b).
Proof.
  unfold remove_segs. induction l as [|s l IH]; cbn [filter]; [reflexivity|].
  assert (E : in_ids s (a ++ b) = in_ids s a || in_ids s b) by (unfold in_ids; apply existsb_app).
  rewrite E. destruct (in_ids s a); cbn [negb orb filter].
  - exact IH.
  - destruct (in_ids s b); cbn [negb]; [exact IH|]. rewrite IH. reflexivity.
Qed.

(* removing a non-empty part of the list makes it shorter *)
Lemma remove_segs_shorter l r s :
  In s r -> In s l -> (length (remove_segs l r) < length l)%nat.
Proof.
  intros Hr Hl. unfold remove_segs. induction l as [|h t IH]; [contradiction|].
  cbn [filter length].
  destruct Hl as [->|Hl].
  - assert (E : in_ids s r = true) by (apply in_ids_true; apply in_map; exact Hr).
    rewrite E. cbn [negb].
    pose proof (subseq_length _ _ (subseq_filter (fun s0 => negb (in_ids s0 r)) t)). lia.
  - specialize (IH Hl). destruct (negb (in_ids h r)); cbn [length]; lia.
Qed.

(* ================================================================= sorting *)

Definition seg_lt (a b : seg) : Prop := seg_before a b = true.

Lemma seg_before_irrefl a : seg_before a a = false.
Proof. unfold seg_before. rewrite Z.eqb_refl. cbn [negb]. lia. Qed.
Lemma seg_lt_trans a b c : seg_lt a b -> seg_lt b c -> seg_lt a c.
Proof.
  unfold seg_lt, seg_before. intros H1 H2.
  destruct (seg_live a =? seg_live b) eqn:E1, (seg_live b =? seg_live c) eqn:E2,
           (seg_live a =? seg_live c) eqn:E3; cbn [negb] in *; lia.
Qed.
(* total on distinct ids *)
Lemma seg_before_total a b : seg_id a <> seg_id b -> seg_before a b = false -> seg_before b a = true.
Proof.
  unfold seg_before. intros Hne H.
  destruct (seg_live a =? seg_live b) eqn:E1, (seg_live b =? seg_live a) eqn:E2; cbn [negb] in *; lia.
Qed.

Lemma insert_perm s l : Permutation (insert_seg s l) (s :: l).
Proof.
  induction l as [|h t IH]; cbn [insert_seg]; [apply Permutation_refl|].
  destruct (seg_before s h); [apply Permutation_refl|].
  eapply perm_trans; [apply perm_skip; exact IH|apply perm_swap].
Qed.
Lemma sort_perm l : Permutation (sort_segs l) l.
Proof.
  induction l as [|a l IH]; cbn [sort_segs fold_right]; [constructor|].
  eapply perm_trans; [apply insert_perm|]. apply perm_skip. exact IH.
Qed.

Lemma insert_sorted s l :
  (forall x, In x l -> seg_id x <> seg_id s) ->
  StronglySorted seg_lt l -> StronglySorted seg_lt (insert_seg s l).
Proof.
  intros Hne Hs. induction Hs as [|h t Ht IH Hall]; cbn [insert_seg].
  - constructor; constructor.
  - destruct (seg_before s h) eqn:E.
    + constructor; [constructor; assumption|].
      constructor; [exact E|].
      rewrite Forall_forall in *. intros x Hx. eapply seg_lt_trans; [exact E|apply Hall; exact Hx].
    + constructor.
      * apply IH. intros x Hx. apply Hne. right. exact Hx.
      * rewrite Forall_forall in *. intros x Hx.
        apply (Permutation_in _ (insert_perm s t)) in Hx. destruct Hx as [<-|Hx].
        -- apply seg_before_total; [|exact E]. intros Heq. apply (Hne h); [left; reflexivity|]. symmetry. exact Heq.
        -- apply Hall. exact Hx.
Qed.

Lemma sort_sorted l : NoDup (ids l) -> StronglySorted seg_lt (sort_segs l).
Proof.
  induction l as [|a l IH]; intros Hnd; cbn [sort_segs fold_right]; [constructor|].
  cbn [ids map] in Hnd. inversion Hnd as [|x xs Hnot Hnd']; subst.
  apply insert_sorted; [|apply IH; exact Hnd'].
  intros x Hx Heq. apply Hnot. rewrite <- Heq. apply in_map.
  apply (Permutation_in _ (sort_perm l)). exact Hx.
Qed.

(* two sorted permutations of each other are equal (the order is strict) *)
Lemma sorted_perm_unique l1 : forall l2,
  StronglySorted seg_lt l1 -> StronglySorted seg_lt l2 -> Permutation l1 l2 -> l1 = l2.
Proof.
  induction l1 as [|a l1 IH]; intros l2 H1 H2 Hp.
  - apply Permutation_nil in Hp. subst. reflexivity.
  - destruct l2 as [|b l2]; [apply Permutation_sym, Permutation_nil in Hp; discriminate|].
    inversion H1 as [|? ? Hs1 Ha]; subst. inversion H2 as [|? ? Hs2 Hb]; subst.
    rewrite Forall_forall in Ha, Hb.
    assert (Eab : a = b).
    { assert (Hin1 : In a (b :: l2)) by (apply (Permutation_in _ Hp); left; reflexivity).
      assert (Hin2 : In b (a :: l1)) by (apply (Permutation_in _ (Permutation_sym Hp)); left; reflexivity).
      destruct Hin1 as [->|Hin1]; [reflexivity|]. destruct Hin2 as [->|Hin2]; [reflexivity|].
      exfalso. pose proof (seg_lt_trans _ _ _ (Ha _ Hin2) (Hb _ Hin1)) as Hc.
      unfold seg_lt in Hc. rewrite seg_before_irrefl in Hc. discriminate. }
    subst b. f_equal. apply IH; try assumption. eapply Permutation_cons_inv. exact Hp.
Qed.

Lemma NoDup_ids_perm l l' : Permutation l l' -> NoDup (ids l) -> NoDup (ids l').
Proof. intros Hp. apply Permutation_NoDup. unfold ids. apply Permutation_map. exact Hp. Qed.

Theorem sort_perm_invariant l l' : Permutation l l' -> NoDup (ids l) -> sort_segs l = sort_segs l'.
Proof.
  intros Hp Hnd. apply sorted_perm_unique.
  - apply sort_sorted. exact Hnd.
  - apply sort_sorted. eapply NoDup_ids_perm; eassumption.
  - eapply perm_trans; [apply sort_perm|]. eapply perm_trans; [exact Hp|]. apply Permutation_sym, sort_perm.
Qed.

Lemma sort_NoDup l : NoDup (ids l) -> NoDup (ids (sort_segs l)).
Proof. apply NoDup_ids_perm. apply Permutation_sym, sort_perm. Qed.
Lemma sort_In s l : In s (sort_segs l) <-> In s l.
Proof. split; apply Permutation_in; [apply sort_perm|apply Permutation_sym, sort_perm]. Qed.

(* ================================================================= options *)

Lemma half_max_spec o : 0 < o_max_size o -> 2 * half_max o <= o_max_size o < 2 * half_max o + 2.
Proof.
  intros H. unfold half_max. rewrite Z.quot_div_nonneg by lia.
  pose proof (Z.div_mod (o_max_size o) 2 ltac:(lia)) as E.
  pose proof (Z.mod_pos_bound (o_max_size o) 2 ltac:(lia)) as B. lia.
Qed.

Lemma wrap64f_small z : min_int64 <= z <= max_int64 -> wrap64f z = z.
Proof. intros H. unfold wrap64f. destruct ((min_int64 <=? z) && (z <=? max_int64)) eqn:E; [reflexivity|lia]. Qed.

Lemma default_options_sane : sane_options default_options.
Proof. unfold sane_options. vm_compute. repeat split; intros; discriminate. Qed.

Lemma sane_optionsb_spec o : sane_optionsb o = true <-> sane_options o.
Proof. unfold sane_optionsb, sane_options, validate_options. lia. Qed.

(* ================================================================= rosters *)

Lemma NoDup_app_intro {A} (l1 l2 : list A) :
  NoDup l1 -> NoDup l2 -> (forall x, In x l1 -> ~ In x l2) -> NoDup (l1 ++ l2).
Proof.
  induction l1 as [|a l1 IH]; intros H1 H2 Hd; cbn [app]; [exact H2|].
  inversion H1; subst. constructor.
  - rewrite in_app_iff. intros [Hin|Hin]; [contradiction|]. apply (Hd a); [left; reflexivity|exact Hin].
  - apply IH; try assumption. intros x Hx. apply Hd. right. exact Hx.
Qed.

Lemma build_roster_subseq o l : forall n size, subseq (build_roster o l n size) l.
Proof.
  induction l as [|e t IH]; intros n size; cbn [build_roster]; [constructor|].
  destruct (n <? o_per_task o); [|apply subseq_nil_l].
  destruct (wrap64f (size + seg_live e) <? o_max_size o); [apply sub_take|apply sub_skip]; apply IH.
Qed.

(* the segments the loop works on: 0 < live < MaxSegmentSize/2 *)
Definition small_pos (o : options) (s : seg) : Prop := 0 < seg_live s < half_max o.

Lemma build_roster_sum o l :
  0 < o_max_size o <= plan_max_segment_size_limit ->
  Forall (small_pos o) l ->
  forall n size, 0 <= size < o_max_size o ->
    size <= size + sum_live (build_roster o l n size) < o_max_size o.
Proof.
  intros Hmax Hall. pose proof (half_max_spec o ltac:(lia)) as Hh.
  unfold plan_max_segment_size_limit in Hmax.
  induction Hall as [|e t He Ht IH]; intros n size Hs; cbn [build_roster sum_live fold_right]; [lia|].
  destruct (n <? o_per_task o); [|cbn [sum_live fold_right]; lia].
  unfold small_pos in He.
  rewrite wrap64f_small by (unfold min_int64, max_int64; lia).
  destruct (size + seg_live e <? o_max_size o) eqn:E.
  - cbn [sum_live fold_right]. specialize (IH (n + 1) (size + seg_live e) ltac:(lia)).
    unfold sum_live in IH. lia.
  - apply IH. exact Hs.
Qed.

Lemma build_roster_head o e t :
  sane_options o -> small_pos o e ->
  exists r, build_roster o (e :: t) 0 0 = e :: r.
Proof.
  intros [Hmax Hper] He. pose proof (half_max_spec o ltac:(lia)) as Hh. unfold small_pos in He.
  unfold plan_max_segment_size_limit in Hmax.
  cbn [build_roster]. destruct (0 <? o_per_task o) eqn:E1; [|lia].
  rewrite wrap64f_small by (unfold min_int64, max_int64; lia).
  destruct (0 + seg_live e <? o_max_size o) eqn:E2; [|lia]. eexists. reflexivity.
Qed.

(* every roster offered to the score function *)
Definition is_roster (o : options) (elig r : list seg) : Prop :=
  r <> [] /\ exists l', subseq l' elig /\ r = build_roster o l' 0 0.

Lemma is_roster_subseq o elig r : is_roster o elig r -> subseq r elig.
Proof. intros [_ [l' [Hs ->]]]. eapply subseq_trans; [apply build_roster_subseq|exact Hs]. Qed.

Lemma is_roster_weaken o elig elig' r : subseq elig elig' -> is_roster o elig r -> is_roster o elig' r.
Proof. intros Hs [Hne [l' [Hl Hr]]]. split; [exact Hne|]. exists l'. split; [eapply subseq_trans; eassumption|exact Hr]. Qed.

Lemma all_rosters_spec o l r : In r (all_rosters o l) -> is_roster o l r.
Proof.
  induction l as [|e t IH]; cbn [all_rosters]; [contradiction|].
  destruct (build_roster o (e :: t) 0 0) as [|x xs] eqn:E.
  - intros H. apply (is_roster_weaken o t); [apply sub_skip, subseq_refl|apply IH; exact H].
  - intros [<-|H].
    + split; [discriminate|]. exists (e :: t). split; [apply subseq_refl|symmetry; exact E].
    + apply (is_roster_weaken o t); [apply sub_skip, subseq_refl|apply IH; exact H].
Qed.

Lemma all_rosters_nonempty o l :
  sane_options o -> Forall (small_pos o) l -> l <> [] -> all_rosters o l <> [].
Proof.
  intros Hs Hall Hne. destruct l as [|e t]; [contradiction|]. inversion Hall; subst.
  cbn [all_rosters]. destruct (build_roster_head o e t Hs ltac:(assumption)) as [r ->]. discriminate.
Qed.

Section WithScore.
Variable score : list seg -> Z.

Lemma pick_best_in rs : forall best r sc,
  pick_best score rs best = Some (r, sc) -> In r rs \/ best = Some (r, sc).
Proof.
  induction rs as [|x rs IH]; intros best r sc H; cbn [pick_best] in H; [right; exact H|].
  apply IH in H. destruct H as [H|H]; [left; right; exact H|].
  destruct best as [[br bs]|].
  - destruct (score x <? bs); [inversion H; subst; left; left; reflexivity|right; exact H].
  - inversion H; subst. left; left; reflexivity.
Qed.

Lemma pick_best_none rs : forall best, pick_best score rs best = None -> rs = [] /\ best = None.
Proof.
  induction rs as [|x rs IH]; intros best H; cbn [pick_best] in H; [split; [reflexivity|exact H]|].
  apply IH in H. destruct H as [_ H]. destruct best as [[br bs]|]; [destruct (score x <? bs)|]; discriminate.
Qed.

(* the chosen roster has the smallest score, and is the first one with that score *)
Lemma pick_best_min rs : forall best r sc,
  pick_best score rs best = Some (r, sc) ->
  sc = score r \/ best = Some (r, sc).
Proof.
  induction rs as [|x rs IH]; intros best r sc H; cbn [pick_best] in H; [right; exact H|].
  apply IH in H. destruct H as [H|H]; [left; exact H|].
  destruct best as [[br bs]|].
  - destruct (score x <? bs); [inversion H; subst; left; reflexivity|right; exact H].
  - inversion H; subst. left; reflexivity.
Qed.
Lemma pick_best_le rs : forall best r sc,
  pick_best score rs best = Some (r, sc) ->
  (forall x, In x rs -> sc <= score x) /\ (forall br bs, best = Some (br, bs) -> sc <= bs).
Proof.
  induction rs as [|x rs IH]; intros best r sc H; cbn [pick_best] in H.
  - split; [intros x []|]. intros br bs E. rewrite E in H. inversion H. lia.
  - apply IH in H. destruct H as [H1 H2]. split.
    + intros y [<-|Hy]; [|apply H1; exact Hy].
      destruct best as [[br bs]|].
      * destruct (score x <? bs) eqn:E; [apply (H2 x); reflexivity|]. specialize (H2 br bs eq_refl). lia.
      * apply (H2 x). reflexivity.
    + intros br bs ->. destruct (score x <? bs) eqn:E; [specialize (H2 x (score x) eq_refl); lia|apply (H2 br); reflexivity].
Qed.

Lemma best_roster_in o elig r : best_roster score o elig = Some r -> In r (all_rosters o elig).
Proof.
  unfold best_roster. destruct (pick_best score (all_rosters o elig) None) as [[r' sc]|] eqn:E; [|discriminate].
  cbn [option_map fst]. intros H. inversion H; subst.
  apply pick_best_in in E. destruct E as [E|E]; [exact E|discriminate].
Qed.
Lemma best_roster_none o elig : best_roster score o elig = None -> all_rosters o elig = [].
Proof.
  unfold best_roster. destruct (pick_best score (all_rosters o elig) None) as [[r' sc]|] eqn:E; [discriminate|].
  intros _. apply pick_best_none in E. tauto.
Qed.
Lemma best_roster_minimal o elig r :
  best_roster score o elig = Some r -> forall x, In x (all_rosters o elig) -> score r <= score x.
Proof.
  unfold best_roster. destruct (pick_best score (all_rosters o elig) None) as [[r' sc]|] eqn:E; [|discriminate].
  cbn [option_map fst]. intros H. inversion H; subst.
  pose proof (pick_best_min _ _ _ _ E) as [Hs|Hs]; [|discriminate]. subst sc.
  apply (pick_best_le _ _ _ _ E).
Qed.

Lemma best_roster_spec o elig r :
  best_roster score o elig = Some r ->
  In r (all_rosters o elig) /\ forall x, In x (all_rosters o elig) -> score r <= score x.
Proof. intros H. split; [apply best_roster_in; exact H|apply best_roster_minimal; exact H]. Qed.

(* ================================================================= the loop *)

Lemma plan_loop_eq fuel o budget elig n :
  plan_loop fuel score o budget elig n =
  if over_budget budget elig n then
    match fuel with
    | O => OutOfFuel
    | S f =>
        match best_roster score o elig with
        | None => Ok []
        | Some r => ts <- plan_loop f score o budget (remove_segs elig r) (n + 1) ;; Ok (r :: ts)
        end
    end
  else Ok [].
Proof. destruct fuel; reflexivity. Qed.

(* termination: each iteration removes at least one eligible segment *)
Lemma plan_loop_fuel o budget : forall fuel elig n,
  (length elig < fuel)%nat -> exists ts, plan_loop fuel score o budget elig n = Ok ts.
Proof.
  induction fuel as [|f IH]; intros elig n Hlen; [lia|].
  rewrite plan_loop_eq. destruct (over_budget budget elig n) eqn:Eo; [|eexists; reflexivity].
  destruct (best_roster score o elig) as [r|] eqn:Eb; [|eexists; reflexivity].
  pose proof (all_rosters_spec _ _ _ (best_roster_in _ _ _ Eb)) as Hr.
  pose proof (is_roster_subseq _ _ _ Hr) as Hsub. destruct Hr as [Hne _].
  destruct r as [|s r']; [contradiction|].
  assert (Hin : In s elig) by (apply (subseq_incl _ _ Hsub); left; reflexivity).
  pose proof (remove_segs_shorter elig (s :: r') s ltac:(left; reflexivity) Hin) as Hsh.
  destruct (IH (remove_segs elig (s :: r')) (n + 1) ltac:(lia)) as [ts ->].
  eexists. reflexivity.
Qed.

Lemma plan_loop_spec o budget : forall fuel elig n ts,
  NoDup (ids elig) ->
  plan_loop fuel score o budget elig n = Ok ts ->
  NoDup (ids (concat ts)) /\ Forall (is_roster o elig) ts.
Proof.
  induction fuel as [|f IH]; intros elig n ts Hnd H; rewrite plan_loop_eq in H.
  - destruct (over_budget budget elig n); [discriminate|]. inversion H; subst. split; constructor.
  - destruct (over_budget budget elig n); [|inversion H; subst; split; constructor].
    destruct (best_roster score o elig) as [r|] eqn:Eb; [|inversion H; subst; split; constructor].
    destruct (plan_loop f score o budget (remove_segs elig r) (n + 1)) as [ts'| | |] eqn:El; cbn [rbind] in H; try discriminate.
    inversion H; subst ts.
    pose proof (all_rosters_spec _ _ _ (best_roster_in _ _ _ Eb)) as Hr.
    pose proof (is_roster_subseq _ _ _ Hr) as Hsub.
    assert (Hnd' : NoDup (ids (remove_segs elig r))) by (eapply NoDup_ids_subseq; [apply remove_segs_subseq|exact Hnd]).
    destruct (IH _ _ _ Hnd' El) as [Hd Hf].
    split.
    + cbn [concat]. rewrite ids_app. apply NoDup_app_intro.
      * eapply NoDup_ids_subseq; eassumption.
      * exact Hd.
      * intros x Hx Hx'. unfold ids in Hx'. apply in_map_iff in Hx'. destruct Hx' as [s' [<- Hs']].
        apply in_concat in Hs'. destruct Hs' as [t [Ht Hst]].
        rewrite Forall_forall in Hf. pose proof (is_roster_subseq _ _ _ (Hf t Ht)) as Hts.
        apply (subseq_incl _ _ Hts) in Hst. apply remove_segs_In in Hst. destruct Hst as [_ Hn]. contradiction.
    + constructor; [exact Hr|].
      eapply Forall_impl; [|exact Hf]. intros t Ht. eapply is_roster_weaken; [apply remove_segs_subseq|exact Ht].
Qed.

(* on return: not over budget any more, or no roster could be built *)
Lemma plan_loop_post o budget : forall fuel elig n ts,
  plan_loop fuel score o budget elig n = Ok ts ->
  let rest := remove_segs elig (concat ts) in
  over_budget budget rest (n + zlen ts) = false \/ all_rosters o rest = [].
Proof.
  induction fuel as [|f IH]; intros elig n ts H; rewrite plan_loop_eq in H.
  - destruct (over_budget budget elig n) eqn:Eo; [discriminate|]. inversion H; subst.
    cbn [concat]. rewrite remove_segs_nil, zlen_nil, Z.add_0_r. left. exact Eo.
  - destruct (over_budget budget elig n) eqn:Eo.
    + destruct (best_roster score o elig) as [r|] eqn:Eb.
      * destruct (plan_loop f score o budget (remove_segs elig r) (n + 1)) as [ts'| | |] eqn:El; cbn [rbind] in H; try discriminate.
        inversion H; subst ts. cbn [concat]. rewrite <- remove_segs_app. rewrite zlen_cons.
        replace (n + (zlen ts' + 1)) with (n + 1 + zlen ts') by lia. apply (IH _ _ _ El).
      * inversion H; subst. cbn [concat]. rewrite remove_segs_nil. right. apply best_roster_none. exact Eb.
    + inversion H; subst. cbn [concat]. rewrite remove_segs_nil, zlen_nil, Z.add_0_r. left. exact Eo.
Qed.

(* ================================================================= before the loop *)

Lemma eligibles_subseq o l : subseq (eligibles o l) l.
Proof. apply subseq_filter. Qed.
Lemma eligibles_In o s l : In s (eligibles o l) <-> In s l /\ seg_live s < half_max o.
Proof. unfold eligibles, eligible. rewrite filter_In, Z.ltb_lt. reflexivity. Qed.
Lemma empties_In s l : In s (empties l) <-> In s l /\ seg_live s <= 0.
Proof. unfold empties. rewrite filter_In, Z.leb_le. reflexivity. Qed.

Lemma filter_nil_forall {A} (p : A -> bool) l : filter p l = [] -> Forall (fun x => p x = false) l.
Proof.
  induction l as [|a l IH]; cbn [filter]; intros H; [constructor|].
  destruct (p a) eqn:E; [discriminate|]. constructor; [exact E|apply IH; exact H].
Qed.

(* the loop starts on segments with 0 < live < MaxSegmentSize/2 *)
Lemma loop_start_spec o sorted tasks0 el' :
  loop_start o sorted = (tasks0, el') ->
  subseq el' (eligibles o sorted) /\ Forall (small_pos o) el' /\
  el' = remove_segs (eligibles o sorted) (concat tasks0) /\
  (tasks0 = [] \/ (tasks0 = [empties (eligibles o sorted)] /\ empties (eligibles o sorted) <> [])).
Proof.
  unfold loop_start. set (el := eligibles o sorted).
  destruct (empties el) as [|e em] eqn:E; intros H; inversion H; subst.
  - split; [apply subseq_refl|]. split; [|split; [cbn [concat]; rewrite remove_segs_nil; reflexivity|left; reflexivity]].
    apply filter_nil_forall in E. rewrite Forall_forall in *. intros s Hs. specialize (E s Hs). cbn beta in E.
    apply eligibles_In in Hs. unfold small_pos. lia.
  - split; [apply remove_segs_subseq|]. split; [|split; [cbn [concat]; rewrite app_nil_r; reflexivity|right; split; [reflexivity|discriminate]]].
    rewrite Forall_forall. intros s Hs. apply remove_segs_In in Hs. destruct Hs as [Hs Hn].
    pose proof (proj1 (eligibles_In _ _ _) Hs) as [_ Hsmall]. unfold small_pos. split; [|exact Hsmall].
    destruct (Z_lt_ge_dec 0 (seg_live s)) as [Hp|Hp]; [exact Hp|]. exfalso. apply Hn. apply in_map.
    rewrite <- E. apply empties_In. split; [exact Hs|lia].
Qed.

(* ================================================================= plan *)

Lemma plan_with_unfold o l :
  plan_with score o l =
  if zlen l <=? 1 then Ok None
  else b <- budget_of o (sort_segs l) ;; ts <- plan_sorted score o b (sort_segs l) ;; Ok (Some ts).
Proof. reflexivity. Qed.

Lemma budget_of_ok o sorted : exists b, budget_of o sorted = Ok b.
Proof. unfold budget_of. destruct (budget_args o sorted) as [t f]. apply calc_budget_terminates. Qed.

Lemma plan_sorted_ok o b sorted : exists ts, plan_sorted score o b sorted = Ok ts.
Proof.
  unfold plan_sorted. destruct (loop_start o sorted) as [tasks0 el'].
  destruct (plan_loop_fuel o b (S (length el')) el' (zlen tasks0) ltac:(lia)) as [ts ->].
  eexists. reflexivity.
Qed.

(* ---- plan_terminates: for every score, every options value (sane or not), every list *)
Theorem plan_with_terminates o l : exists p, plan_with score o l = Ok p.
Proof.
  rewrite plan_with_unfold. destruct (zlen l <=? 1); [eexists; reflexivity|].
  destruct (budget_of_ok o (sort_segs l)) as [b ->]. cbn [rbind].
  destruct (plan_sorted_ok o b (sort_segs l)) as [ts ->]. eexists. reflexivity.
Qed.

(* what a returned plan looks like *)
Definition plan_shape (o : options) (b : Z) (sorted : list seg) (ts : list (list seg)) : Prop :=
  exists tasks0 tl el',
    loop_start o sorted = (tasks0, el') /\
    plan_loop (S (length el')) score o b el' (zlen tasks0) = Ok tl /\
    ts = tasks0 ++ tl.

Lemma plan_with_shape o l ts :
  plan_with score o l = Ok (Some ts) ->
  1 < zlen l /\ exists b, budget_of o (sort_segs l) = Ok b /\ plan_shape o b (sort_segs l) ts.
Proof.
  rewrite plan_with_unfold. destruct (zlen l <=? 1) eqn:E; [discriminate|]. intros H. split; [lia|].
  destruct (budget_of o (sort_segs l)) as [b| | |]; cbn [rbind] in H; try discriminate.
  exists b. split; [reflexivity|].
  unfold plan_sorted in H. destruct (loop_start o (sort_segs l)) as [tasks0 el'] eqn:Es.
  destruct (plan_loop (S (length el')) score o b el' (zlen tasks0)) as [tl| | |] eqn:El; cbn [rbind] in H; try discriminate.
  inversion H; subst. exists tasks0, tl, el'. split; [exact Es|]. split; [exact El|reflexivity].
Qed.

Lemma plan_with_none o l : plan_with score o l = Ok None -> zlen l <= 1.
Proof.
  rewrite plan_with_unfold. destruct (zlen l <=? 1) eqn:E; [lia|].
  destruct (budget_of o (sort_segs l)); cbn [rbind]; try discriminate.
  destruct (plan_sorted score o a (sort_segs l)); cbn [rbind]; discriminate.
Qed.

(* every task is the empties task or a roster of the segments the loop started on *)
Lemma shape_tasks o b sorted ts :
  plan_shape o b sorted ts ->
  NoDup (ids sorted) ->
  NoDup (ids (concat ts)) /\
  Forall (fun t => (t = empties (eligibles o sorted) /\ t <> []) \/ is_roster o (snd (loop_start o sorted)) t) ts.
Proof.
  intros [tasks0 [tl [el' [Hs [Hl ->]]]]] Hnd. rewrite Hs. cbn [snd].
  destruct (loop_start_spec _ _ _ _ Hs) as [Hsub [Hpos [Hrem Ht0]]].
  assert (Hndel : NoDup (ids el')).
  { eapply NoDup_ids_subseq; [exact Hsub|]. eapply NoDup_ids_subseq; [apply eligibles_subseq|exact Hnd]. }
  destruct (plan_loop_spec _ _ _ _ _ _ Hndel Hl) as [Hd Hf].
  split.
  - rewrite concat_app, ids_app. apply NoDup_app_intro.
    + destruct Ht0 as [->|[-> _]]; [constructor|]. cbn [concat]. rewrite app_nil_r.
      eapply NoDup_ids_subseq; [apply subseq_filter|]. eapply NoDup_ids_subseq; [apply eligibles_subseq|exact Hnd].
    + exact Hd.
    + intros x Hx Hx'. unfold ids in Hx'. apply in_map_iff in Hx'. destruct Hx' as [s' [<- Hs']].
      apply in_concat in Hs'. destruct Hs' as [t [Ht Hst]].
      rewrite Forall_forall in Hf. pose proof (is_roster_subseq _ _ _ (Hf t Ht)) as Hts.
      apply (subseq_incl _ _ Hts) in Hst. rewrite Hrem in Hst. apply remove_segs_In in Hst. destruct Hst as [_ Hn]. contradiction.
  - apply Forall_app. split.
    + destruct Ht0 as [->|[-> Hne]]; [constructor|]. constructor; [|constructor]. left. split; [reflexivity|exact Hne].
    + eapply Forall_impl; [|exact Hf]. intros t Ht. right. exact Ht.
Qed.

End WithScore.

(* ================================================================= the theorems about plan *)

Lemma subseq_Forall {A} (P : A -> Prop) l1 l2 : subseq l1 l2 -> Forall P l2 -> Forall P l1.
Proof.
  intros Hs Hf. rewrite Forall_forall in *. intros x Hx. apply Hf. apply (subseq_incl _ _ Hs). exact Hx.
Qed.

Lemma sum_live_nonpos l : Forall (fun s => seg_live s <= 0) l -> sum_live l <= 0.
Proof. induction 1; cbn [sum_live fold_right]; [lia|]. unfold sum_live in IHForall. lia. Qed.

Section Theorems.
Variable score : list seg -> Z.

(* the rosters of the loop, without any hypothesis on the ids *)
Lemma plan_loop_rosters o budget : forall fuel elig n ts,
  plan_loop fuel score o budget elig n = Ok ts -> Forall (is_roster o elig) ts.
Proof.
  induction fuel as [|f IH]; intros elig n ts H; rewrite plan_loop_eq in H.
  - destruct (over_budget budget elig n); [discriminate|]. inversion H; subst. constructor.
  - destruct (over_budget budget elig n); [|inversion H; subst; constructor].
    destruct (best_roster score o elig) as [r|] eqn:Eb; [|inversion H; subst; constructor].
    destruct (plan_loop f score o budget (remove_segs elig r) (n + 1)) as [ts'| | |] eqn:El; cbn [rbind] in H; try discriminate.
    inversion H; subst ts.
    constructor; [apply all_rosters_spec; eapply best_roster_in; exact Eb|].
    eapply Forall_impl; [|apply (IH _ _ _ El)]. intros t Ht. eapply is_roster_weaken; [apply remove_segs_subseq|exact Ht].
Qed.

Lemma shape_rosters o b sorted ts :
  plan_shape score o b sorted ts ->
  Forall (fun t => (t = empties (eligibles o sorted) /\ t <> []) \/ is_roster o (snd (loop_start o sorted)) t) ts.
Proof.
  intros [tasks0 [tl [el' [Hs [Hl ->]]]]]. rewrite Hs. cbn [snd].
  destruct (loop_start_spec _ _ _ _ Hs) as [Hsub [Hpos [Hrem Ht0]]].
  apply Forall_app. split.
  - destruct Ht0 as [->|[-> Hne]]; [constructor|]. constructor; [|constructor]. left. split; [reflexivity|exact Hne].
  - eapply Forall_impl; [|apply (plan_loop_rosters _ _ _ _ _ _ Hl)]. intros t Ht. right. exact Ht.
Qed.

(* a task is made of eligible segments of the sorted input; it is either the empties task
   (every live size <= 0) or a roster (every live size > 0, sum below the maximum) *)
Lemma task_cases o l ts t :
  plan_with score o l = Ok (Some ts) -> In t ts ->
  t <> [] /\ subseq t (eligibles o (sort_segs l)) /\
  (Forall (fun s => seg_live s <= 0) t \/
   (Forall (small_pos o) t /\ exists l', Forall (small_pos o) l' /\ t = build_roster o l' 0 0)).
Proof.
  intros Hp Ht. destruct (plan_with_shape _ _ _ _ Hp) as [_ [b [_ Hshape]]].
  pose proof (shape_rosters _ _ _ _ Hshape) as Hf. rewrite Forall_forall in Hf. specialize (Hf t Ht).
  destruct (loop_start o (sort_segs l)) as [tasks0 el'] eqn:Es. cbn [snd] in Hf.
  destruct (loop_start_spec _ _ _ _ Es) as [Hsub [Hpos [_ _]]].
  destruct Hf as [[-> Hne]|Hr].
  - split; [exact Hne|]. split; [apply subseq_filter|]. left.
    rewrite Forall_forall. intros s Hs. apply empties_In in Hs. tauto.
  - pose proof (is_roster_subseq _ _ _ Hr) as Hts. destruct Hr as [Hne [l' [Hl' Heq]]].
    split; [exact Hne|]. split; [eapply subseq_trans; eassumption|]. right.
    split; [eapply subseq_Forall; eassumption|]. exists l'. split; [eapply subseq_Forall; eassumption|exact Heq].
Qed.

Theorem plan_terminates_all o l : exists p, plan score o l = Ok p.
Proof. unfold plan. apply plan_with_terminates. Qed.

Theorem plan_perm_invariant o l l' :
  Permutation l l' -> NoDup (ids l) -> plan score o l = plan score o l'.
Proof.
  intros Hp Hnd. unfold plan. rewrite !plan_with_unfold.
  assert (E : zlen l = zlen l') by (unfold zlen; rewrite (Permutation_length Hp); reflexivity).
  rewrite E, (sort_perm_invariant l l' Hp Hnd). reflexivity.
Qed.

Theorem tasks_subset_input_all o l ts :
  plan score o l = Ok (Some ts) -> forall t s, In t ts -> In s t -> In s l.
Proof.
  unfold plan. intros Hp t s Ht Hs.
  destruct (task_cases _ _ _ _ Hp Ht) as [_ [Hsub _]].
  apply sort_In. apply (subseq_incl _ _ (eligibles_subseq (effective o) (sort_segs l))).
  apply (subseq_incl _ _ Hsub). exact Hs.
Qed.

Theorem tasks_disjoint_all o l ts :
  NoDup (ids l) -> plan score o l = Ok (Some ts) -> NoDup (ids (concat ts)).
Proof.
  unfold plan. intros Hnd Hp. destruct (plan_with_shape _ _ _ _ Hp) as [_ [b [_ Hshape]]].
  apply (shape_tasks _ _ _ _ _ Hshape). apply sort_NoDup. exact Hnd.
Qed.

Theorem tasks_nonempty_all o l ts : plan score o l = Ok (Some ts) -> Forall (fun t => t <> []) ts.
Proof.
  unfold plan. intros Hp. rewrite Forall_forall. intros t Ht. apply (task_cases _ _ _ _ Hp Ht).
Qed.

Theorem task_size_bound_all o l ts :
  0 < o_max_size (effective o) <= plan_max_segment_size_limit ->
  plan score o l = Ok (Some ts) ->
  forall t, In t ts ->
    (Forall (fun s => seg_live s <= 0) t /\ sum_live t <= 0) \/
    (Forall (fun s => 0 < seg_live s) t /\ 0 < sum_live t < o_max_size (effective o)).
Proof.
  unfold plan. intros Hmax Hp t Ht.
  destruct (task_cases _ _ _ _ Hp Ht) as [Hne [_ [Hem|[Hpos [l' [Hl' Heq]]]]]].
  - left. split; [exact Hem|apply sum_live_nonpos; exact Hem].
  - right. split.
    + eapply Forall_impl; [|exact Hpos]. unfold small_pos. intros; lia.
    + pose proof (build_roster_sum (effective o) l' Hmax Hl' 0 0 ltac:(lia)) as Hb. rewrite <- Heq in Hb.
      split; [|lia]. destruct t as [|s t']; [contradiction|]. inversion Hpos as [|? ? Hs Hrest]; subst.
      unfold small_pos in Hs. cbn [sum_live fold_right].
      assert (0 <= sum_live t'); [|unfold sum_live in *; lia].
      clear - Hrest. induction Hrest as [|x xs Hx _ IH]; cbn [sum_live fold_right]; [lia|]. unfold small_pos in Hx. unfold sum_live in IH. lia.
Qed.

Theorem only_small_segments_all o l ts :
  plan score o l = Ok (Some ts) ->
  forall t s, In t ts -> In s t -> seg_live s < half_max (effective o).
Proof.
  unfold plan. intros Hp t s Ht Hs.
  destruct (task_cases _ _ _ _ Hp Ht) as [_ [Hsub _]].
  apply (subseq_incl _ _ Hsub) in Hs. apply eligibles_In in Hs. tauto.
Qed.

(* on return: every eligible segment is planned, or the number of eligible segments left plus
   the number of tasks is within the budget ("no roster possible" cannot happen with sane options) *)
Theorem plan_postcondition_all o l ts :
  sane_options (effective o) ->
  plan score o l = Ok (Some ts) ->
  exists b, budget_of (effective o) (sort_segs l) = Ok b /\
    let rest := remove_segs (eligibles (effective o) (sort_segs l)) (concat ts) in
    rest = [] \/ zlen rest + zlen ts <= b.
Proof.
  unfold plan. intros Hsane Hp. destruct (plan_with_shape _ _ _ _ Hp) as [_ [b [Hb Hshape]]].
  exists b. split; [exact Hb|]. cbv zeta.
  destruct Hshape as [tasks0 [tl [el' [Hs [Hl ->]]]]].
  destruct (loop_start_spec _ _ _ _ Hs) as [Hsub [Hpos [Hrem Ht0]]].
  rewrite concat_app, <- remove_segs_app, <- Hrem.
  pose proof (plan_loop_post _ _ _ _ _ _ _ Hl) as Hpost. cbv zeta in Hpost.
  set (rest := remove_segs el' (concat tl)) in *.
  assert (Hrp : Forall (small_pos (effective o)) rest) by (eapply subseq_Forall; [apply remove_segs_subseq|exact Hpos]).
  destruct Hpost as [Hov|Hno].
  - unfold over_budget in Hov. rewrite zlen_app.
    destruct rest as [|x xs] eqn:Er; [left; reflexivity|]. right.
    rewrite zlen_cons in *. pose proof (zlen_nonneg xs). lia.
  - left. destruct rest as [|x xs] eqn:Er; [reflexivity|]. exfalso.
    apply (all_rosters_nonempty (effective o) (x :: xs) Hsane Hrp); [discriminate|exact Hno].
Qed.

End Theorems.

(* ================================================================= applying a plan *)

Lemma NoDup_app_inv {A} (l1 l2 : list A) :
  NoDup (l1 ++ l2) -> NoDup l1 /\ NoDup l2 /\ (forall a, In a l1 -> ~ In a l2).
Proof.
  induction l1 as [|x l1 IH]; cbn [app]; intros H.
  - split; [constructor|]. split; [exact H|]. intros a [].
  - inversion H as [|? ? Hnot Hnd]; subst. destruct (IH Hnd) as [H1 [H2 H3]].
    split; [constructor; [intros Hin; apply Hnot; apply in_or_app; left; exact Hin|exact H1]|].
    split; [exact H2|]. intros a [<-|Ha]; [intros Hin; apply Hnot; apply in_or_app; right; exact Hin|apply H3; exact Ha].
Qed.

(* weight of a segment in the progress measure: 1, plus 1 when it has deletions *)
Definition weight (s : seg) : Z := if has_deletes s then 2 else 1.
Definition wsum (l : list seg) : Z := fold_right (fun s a => weight s + a) 0 l.

Lemma measure_wsum l : measure l = wsum l.
Proof.
  unfold measure, wsum. induction l as [|s l IH]; [reflexivity|].
  cbn [filter fold_right]. rewrite zlen_cons. unfold weight at 1.
  destruct (has_deletes s); [rewrite zlen_cons|]; lia.
Qed.
Lemma wsum_app l1 l2 : wsum (l1 ++ l2) = wsum l1 + wsum l2.
Proof. unfold wsum. induction l1 as [|a l1 IH]; cbn [fold_right app]; [lia|]. rewrite IH. lia. Qed.
Lemma weight_pos s : 1 <= weight s <= 2.
Proof. unfold weight. destruct (has_deletes s); lia. Qed.
Lemma wsum_nonneg l : 0 <= wsum l.
Proof. unfold wsum. induction l as [|a l IH]; cbn [fold_right]; [lia|]. pose proof (weight_pos a). lia. Qed.
Lemma wsum_ge_len l : zlen l <= wsum l.
Proof. unfold wsum. induction l as [|a l IH]; cbn [fold_right]; [unfold zlen; cbn; lia|]. rewrite zlen_cons. pose proof (weight_pos a). lia. Qed.
Lemma wsum_perm l l' : Permutation l l' -> wsum l = wsum l'.
Proof. unfold wsum. induction 1; cbn [fold_right]; lia. Qed.
Lemma wsum_filter_le p l : wsum (filter p l) <= wsum l.
Proof. unfold wsum. induction l as [|a l IH]; cbn [filter fold_right]; [lia|]. pose proof (weight_pos a). destruct (p a); cbn [fold_right]; lia. Qed.
Lemma wsum_filter_split p l : wsum (filter p l) + wsum (filter (fun s => negb (p s)) l) = wsum l.
Proof. unfold wsum. induction l as [|a l IH]; cbn [filter fold_right]; [lia|]. destruct (p a); cbn [negb fold_right]; lia. Qed.

(* removing a task whose segments are segments of the state (distinct ids) removes its weight *)
Lemma wsum_remove_segs segs t :
  NoDup (ids segs) -> NoDup (ids t) -> incl t segs ->
  wsum (remove_segs segs t) = wsum segs - wsum t.
Proof.
  intros Hnd Hndt Hincl.
  pose proof (wsum_filter_split (fun s => in_ids s t) segs) as Hsplit.
  assert (Hperm : Permutation (filter (fun s => in_ids s t) segs) t).
  { apply NoDup_Permutation.
    - assert (Hn : NoDup segs) by (eapply NoDup_map_inv; exact Hnd).
      eapply subseq_NoDup; [apply subseq_filter|exact Hn].
    - eapply NoDup_map_inv; exact Hndt.
    - intros s. rewrite filter_In, in_ids_true. split.
      + intros [Hs Hid]. unfold ids in Hid. apply in_map_iff in Hid. destruct Hid as [r [E Hr]].
        assert (r = s); [|subst; exact Hr].
        apply (NoDup_ids_inj segs); try assumption. apply Hincl. exact Hr.
      + intros Hs. split; [apply Hincl; exact Hs|apply in_map; exact Hs]. }
  rewrite (wsum_perm _ _ Hperm) in Hsplit. unfold remove_segs. lia.
Qed.

Definition wf_state (st : state) : Prop :=
  NoDup (ids (fst st)) /\ Forall (fun s => seg_id s <= snd st) (fst st).

Lemma apply_task_nonempty segs next t :
  t <> [] ->
  apply_task (segs, next) t =
  let kept := filter (fun s => negb (seg_live s =? 0)) t in
  let rest := filter (fun s => 0 <? seg_live s) (remove_segs segs t) in
  match kept with
  | [] => (rest, next + 1)
  | _ => (rest ++ [mkseg (next + 1) (sum_live kept) (sum_live kept)], next + 1)
  end.
Proof. intros H. destruct t; [contradiction|reflexivity]. Qed.

Lemma has_deletes_new i v : has_deletes (mkseg i v v) = false.
Proof. unfold has_deletes. cbn [seg_full seg_live]. rewrite Z.eqb_refl. reflexivity. Qed.

Lemma apply_task_wf st t : wf_state st -> wf_state (apply_task st t).
Proof.
  destruct st as [segs next]. unfold wf_state. intros [Hnd Hle]. cbn [fst snd] in *.
  destruct t as [|x xs]; [split; assumption|]. rewrite apply_task_nonempty by discriminate. cbv zeta.
  set (t := x :: xs). set (rest := filter _ (remove_segs segs t)).
  assert (Hsub : subseq rest segs) by (eapply subseq_trans; [apply subseq_filter|apply remove_segs_subseq]).
  assert (Hrnd : NoDup (ids rest)) by (eapply NoDup_ids_subseq; eassumption).
  assert (Hrle : Forall (fun s => seg_id s <= next + 1) rest).
  { eapply subseq_Forall; [exact Hsub|]. eapply Forall_impl; [|exact Hle]. intros; cbn beta in *; lia. }
  destruct (filter _ t) as [|k ks]; cbn [fst snd]; [split; assumption|].
  split.
  - rewrite ids_app. apply NoDup_app_intro; [exact Hrnd|constructor; [intros []|constructor]|].
    intros i Hi [<-|[]]. cbn [seg_id] in Hi. unfold ids in Hi. apply in_map_iff in Hi. destruct Hi as [s [E Hs]].
    apply (subseq_incl _ _ Hsub) in Hs. rewrite Forall_forall in Hle. specialize (Hle s Hs). cbn beta in Hle. lia.
  - apply Forall_app. split; [exact Hrle|]. constructor; [cbn [seg_id]; lia|constructor].
Qed.

(* one task: the measure never grows, and drops unless the task is a no-op *)
Lemma apply_task_measure segs next t :
  NoDup (ids segs) -> t <> [] -> NoDup (ids t) -> incl t segs ->
  wsum (fst (apply_task (segs, next) t)) <= wsum segs - (if noop_task t then 0 else 1).
Proof.
  intros Hnd Hne Hndt Hincl. rewrite apply_task_nonempty by exact Hne. cbv zeta.
  pose proof (wsum_remove_segs segs t Hnd Hndt Hincl) as Hrem.
  pose proof (wsum_filter_le (fun s => 0 <? seg_live s) (remove_segs segs t)) as Hfil.
  assert (Hw : (if noop_task t then 1 else 2) <= wsum t \/
               (noop_task t = false /\ wsum t = 1 /\ filter (fun s => negb (seg_live s =? 0)) t = [])).
  { destruct t as [|s [|s' t']]; [contradiction| |].
    - cbn [noop_task]. unfold wsum. cbn [fold_right]. unfold weight, has_deletes.
      destruct (seg_full s =? seg_live s) eqn:E1; cbn [negb andb].
      + destruct (seg_live s =? 0) eqn:E2; cbn [negb]; [right|left; lia].
        split; [reflexivity|]. split; [lia|]. cbn [filter]. rewrite E2. reflexivity.
      + left. lia.
    - left. cbn [noop_task]. unfold wsum. cbn [fold_right]. pose proof (weight_pos s). pose proof (weight_pos s').
      pose proof (wsum_nonneg t'). unfold wsum in *. lia. }
  destruct (filter (fun s => negb (seg_live s =? 0)) t) as [|k ks] eqn:Ek; cbn [fst].
  - destruct Hw as [Hw|[Hn [Hw _]]]; [destruct (noop_task t); lia|rewrite Hn; lia].
  - rewrite wsum_app. unfold wsum at 2. cbn [fold_right]. unfold weight. rewrite has_deletes_new.
    destruct Hw as [Hw|[_ [_ Hk]]]; [destruct (noop_task t); lia|discriminate].
Qed.

(* the tasks of a plan stay applicable while the earlier ones are executed: they are disjoint,
   inside the state, and every task after the first holds only segments with live > 0 (the
   introducer drops the other segments whose live size is 0) *)
Definition applicable (segs : list seg) (ts : list (list seg)) : Prop :=
  NoDup (ids (concat ts)) /\ incl (concat ts) segs /\ Forall (fun t => t <> []) ts /\
  Forall (fun t => Forall (fun s => 0 < seg_live s) t) (tl ts).

Lemma apply_plan_measure : forall ts segs next,
  wf_state (segs, next) -> applicable segs ts ->
  wf_state (apply_plan (segs, next) ts) /\
  wsum (fst (apply_plan (segs, next) ts)) <= wsum segs - zlen (filter (fun t => negb (noop_task t)) ts).
Proof.
  induction ts as [|t ts IH]; intros segs next Hwf [Hnd [Hincl [Hne Hpos]]].
  - cbn [apply_plan fold_left filter fst]. rewrite zlen_nil. split; [exact Hwf|lia].
  - cbn [apply_plan fold_left]. fold (apply_plan (apply_task (segs, next) t) ts).
    cbn [concat] in Hnd, Hincl. rewrite ids_app in Hnd.
    destruct (NoDup_app_inv _ _ Hnd) as [Hndt [Hndr Hdisj]].
    assert (Hinclt : incl t segs) by (intros x Hx; apply Hincl; apply in_or_app; left; exact Hx).
    inversion Hne as [|? ? Hnet Hne']; subst.
    pose proof (apply_task_wf (segs, next) t Hwf) as Hwf'.
    pose proof (apply_task_measure segs next t (proj1 Hwf) Hnet Hndt Hinclt) as Hm.
    destruct (apply_task (segs, next) t) as [segs' next'] eqn:Eat. cbn [fst] in Hm.
    assert (Happ : applicable segs' ts).
    { split; [exact Hndr|]. split; [|split; [exact Hne'|]].
      - (* the later tasks survive: not removed (disjoint ids), live > 0 (not dropped) *)
        intros s Hs. cbn [tl] in Hpos.
        assert (Hlive : 0 < seg_live s).
        { apply in_concat in Hs. destruct Hs as [t' [Ht' Hst']]. rewrite Forall_forall in Hpos.
          specialize (Hpos t' Ht'). rewrite Forall_forall in Hpos. apply Hpos. exact Hst'. }
        assert (Hin : In s (filter (fun s => 0 <? seg_live s) (remove_segs segs t))).
        { apply filter_In. split; [|lia]. apply remove_segs_In. split; [apply Hincl; apply in_or_app; right; exact Hs|].
          intros Hid. apply (Hdisj (seg_id s) Hid). apply in_map. exact Hs. }
        rewrite apply_task_nonempty in Eat by exact Hnet. cbv zeta in Eat.
        destruct (filter (fun s0 => negb (seg_live s0 =? 0)) t); inversion Eat; subst; [exact Hin|apply in_or_app; left; exact Hin].
      - cbn [tl] in Hpos. destruct ts as [|t2 ts2]; [constructor|]. cbn [tl]. inversion Hpos; assumption. }
    destruct (IH segs' next' Hwf' Happ) as [Hwf'' Hm'].
    split; [exact Hwf''|]. cbn [filter]. destruct (noop_task t); cbn [negb]; [|rewrite zlen_cons]; lia.
Qed.

Section Convergence.
Variable score : list seg -> Z.

(* the tasks returned by plan_with are applicable to the state they were planned on *)
Lemma plan_applicable o segs ts :
  NoDup (ids segs) -> plan_with score o segs = Ok (Some ts) -> applicable segs ts.
Proof.
  intros Hnd Hp.
  assert (Hp' : plan score (Some o) segs = Ok (Some ts)) by exact Hp.
  split; [apply (tasks_disjoint_all score (Some o) segs ts Hnd Hp')|].
  split; [intros s Hs; apply in_concat in Hs; destruct Hs as [t [Ht Hst]]; eapply (tasks_subset_input_all score (Some o)); eassumption|].
  split; [apply (tasks_nonempty_all score (Some o) segs ts Hp')|].
  (* only the first task can be the empties task *)
  destruct (plan_with_shape _ _ _ _ Hp) as [_ [b [_ [tasks0 [tlp [el' [Hs [Hl ->]]]]]]]].
  destruct (loop_start_spec _ _ _ _ Hs) as [_ [Hpos [_ Ht0]]].
  pose proof (plan_loop_rosters score _ _ _ _ _ _ Hl) as Hr.
  assert (Hall : Forall (fun t => Forall (fun s => 0 < seg_live s) t) tlp).
  { eapply Forall_impl; [|exact Hr]. intros t Ht. pose proof (is_roster_subseq _ _ _ Ht) as Hsub.
    eapply Forall_impl; [|eapply subseq_Forall; [exact Hsub|exact Hpos]]. unfold small_pos. intros; lia. }
  destruct Ht0 as [->|[-> _]]; cbn [app tl]; [|exact Hall].
  destruct tlp as [|x xs]; [constructor|]. cbn [tl]. inversion Hall; assumption.
Qed.

(* apply_progress: executing a non-empty plan without a no-op task strictly lowers
   #segments + #segments-with-deletions; with no-op tasks it never raises it *)
Theorem apply_progress_all o segs next ts :
  NoDup (ids segs) -> Forall (fun s => seg_id s <= next) segs ->
  plan_with score o segs = Ok (Some ts) ->
  measure (fst (apply_plan (segs, next) ts)) <= measure segs /\
  (ts <> [] -> existsb noop_task ts = false -> measure (fst (apply_plan (segs, next) ts)) < measure segs) /\
  wf_state (apply_plan (segs, next) ts).
Proof.
  intros Hnd Hle Hp. pose proof (plan_applicable o segs ts Hnd Hp) as Happ.
  destruct (apply_plan_measure ts segs next (conj Hnd Hle) Happ) as [Hwf Hm].
  rewrite !measure_wsum. pose proof (zlen_nonneg (filter (fun t => negb (noop_task t)) ts)) as Hz.
  split; [lia|]. split; [|exact Hwf].
  intros Hne Hno. destruct ts as [|t ts']; [contradiction|].
  cbn [existsb] in Hno. apply orb_false_iff in Hno. destruct Hno as [Hn _].
  cbn [filter] in Hm. rewrite Hn in Hm. cbn [negb] in Hm. rewrite zlen_cons in Hm.
  pose proof (zlen_nonneg (filter (fun t => negb (noop_task t)) ts')). lia.
Qed.

(* at an empty plan the number of mergeable segments is within max(budget, 1) *)
Lemma quiescent_bound o segs p :
  sane_options o ->
  plan_with score o segs = Ok p -> empty_plan p = true ->
  exists b, budget_of o (sort_segs segs) = Ok b /\ zlen (eligibles o segs) <= Z.max 1 b.
Proof.
  intros Hsane Hp He. destruct (budget_of_ok o (sort_segs segs)) as [b Hb]. exists b. split; [exact Hb|].
  assert (Hlen : zlen (eligibles o segs) <= zlen segs).
  { unfold zlen. pose proof (subseq_length _ _ (eligibles_subseq o segs)). lia. }
  destruct p as [[|t ts]|]; [|discriminate|].
  - (* Some []: no empties task and the loop did not start *)
    assert (Hp' : plan score (Some o) segs = Ok (Some [])) by exact Hp.
    destruct (plan_postcondition_all score (Some o) segs [] Hsane Hp') as [b' [Hb' Hpost]].
    cbn [effective] in Hb', Hpost. rewrite Hb in Hb'. inversion Hb'; subst b'.
    cbv zeta in Hpost. cbn [concat] in Hpost. rewrite remove_segs_nil, zlen_nil in Hpost.
    assert (Hel : zlen (eligibles o (sort_segs segs)) = zlen (eligibles o segs)).
    { unfold zlen. f_equal. apply Permutation_length. unfold eligibles.
      (* filter of a permutation *)
      assert (Hf : forall l l', Permutation l l' -> Permutation (filter (eligible o) l) (filter (eligible o) l')).
      { induction 1; cbn [filter].
        - constructor.
        - destruct (eligible o x); [apply perm_skip|]; assumption.
        - destruct (eligible o x), (eligible o y); try apply Permutation_refl. apply perm_swap.
        - eapply perm_trans; eassumption. }
      apply Hf. apply sort_perm. }
    rewrite <- Hel. destruct Hpost as [Hnil|Hle]; [rewrite Hnil, zlen_nil; lia|lia].
  - apply plan_with_none in Hp. lia.
Qed.

(* convergence_partial: from any state, within #segments + #segments-with-deletions cycles the
   merger either is handed a plan containing a no-op task, or reaches an empty plan, and there
   the number of mergeable segments is at most max(budget, 1) *)
Theorem convergence_partial_all o : sane_options o ->
  forall (n : nat) segs next,
  NoDup (ids segs) -> Forall (fun s => seg_id s <= next) segs ->
  measure segs <= Z.of_nat n ->
  (exists st', run_cycles n score o (segs, next) = NoopPlanned st') \/
  (exists st' b, run_cycles n score o (segs, next) = Quiescent st' /\
                 budget_of o (sort_segs (fst st')) = Ok b /\
                 zlen (eligibles o (fst st')) <= Z.max 1 b /\
                 measure (fst st') <= measure segs).
Proof.
  intros Hsane. induction n as [|n IH]; intros segs next Hnd Hle Hm.
  - (* measure 0: no segments *)
    assert (segs = []).
    { destruct segs as [|s l]; [reflexivity|]. rewrite measure_wsum in Hm. pose proof (wsum_ge_len (s :: l)). rewrite zlen_cons in *. pose proof (zlen_nonneg l). lia. }
    subst segs. right. exists ([], next). cbn [run_cycles fst]. rewrite plan_with_unfold. cbn.
    destruct (quiescent_bound o [] None Hsane eq_refl eq_refl) as [b [Hb Hbound]].
    exists b. split; [reflexivity|]. cbn [fst]. split; [exact Hb|]. split; [exact Hbound|lia].
  - cbn [run_cycles fst].
    destruct (plan_with_terminates score o segs) as [p Hp]. rewrite Hp.
    destruct (empty_plan p) eqn:Ee.
    + right. destruct (quiescent_bound o segs p Hsane Hp Ee) as [b [Hb Hbound]].
      exists (segs, next), b. cbn [fst]. split; [reflexivity|]. split; [exact Hb|]. split; [exact Hbound|lia].
    + destruct p as [ts|]; [|discriminate].
      destruct (existsb noop_task ts) eqn:En; [left; eexists; reflexivity|].
      destruct (apply_progress_all o segs next ts Hnd Hle Hp) as [_ [Hlt Hwf]].
      assert (Hne : ts <> []) by (destruct ts; [discriminate|discriminate]).
      specialize (Hlt Hne En).
      destruct (apply_plan (segs, next) ts) as [segs' next'] eqn:Ea. cbn [fst] in *.
      destruct Hwf as [Hnd' Hle']. cbn [fst snd] in *.
      destruct (IH segs' next' Hnd' Hle' ltac:(lia)) as [[st' Hr]|[st' [b [Hr [Hb [Hbound Hmm]]]]]].
      * left. exists st'. exact Hr.
      * right. exists st', b. split; [exact Hr|]. split; [exact Hb|]. split; [exact Hbound|lia].
Qed.

End Convergence.

(* ================================================================= renaming the ids
   The planner and the execution of a plan commute with a shift of all ids (and of
   nextSegmentID) when the score does not look at ids.  Used to iterate a concrete cycle. *)

Definition shift (d : Z) (s : seg) : seg := mkseg (seg_id s + d) (seg_full s) (seg_live s).
Definition sh (d : Z) (l : list seg) : list seg := map (shift d) l.

Lemma filter_map_comm {A B} (f : A -> B) (p : B -> bool) (q : A -> bool) l :
  (forall x, p (f x) = q x) -> filter p (map f l) = map f (filter q l).
Proof.
  intros H. induction l as [|a l IH]; cbn [map filter]; [reflexivity|].
  rewrite H. destruct (q a); cbn [map]; rewrite IH; reflexivity.
Qed.

Lemma sh_len d l : zlen (sh d l) = zlen l.
Proof. unfold zlen, sh. rewrite map_length. reflexivity. Qed.
Lemma sh_length d l : length (sh d l) = length l.
Proof. unfold sh. apply map_length. Qed.
Lemma sh_sum_live d l : sum_live (sh d l) = sum_live l.
Proof. unfold sum_live, sh. induction l as [|a l IH]; cbn [map fold_right]; [reflexivity|]. rewrite IH. reflexivity. Qed.
Lemma sh_sizes d l : sizes (sh d l) = sizes l.
Proof. unfold sizes, sh. rewrite map_map. reflexivity. Qed.

Lemma seg_before_shift d a b : seg_before (shift d a) (shift d b) = seg_before a b.
Proof. unfold seg_before, shift. cbn [seg_live seg_id]. destruct (negb (seg_live a =? seg_live b)); [reflexivity|]. lia. Qed.

Lemma insert_shift d s l : insert_seg (shift d s) (sh d l) = sh d (insert_seg s l).
Proof.
  induction l as [|h t IH]; cbn [sh map insert_seg]; [reflexivity|].
  rewrite seg_before_shift. destruct (seg_before s h); cbn [map]; [reflexivity|]. f_equal. exact IH.
Qed.
Lemma sort_shift d l : sort_segs (sh d l) = sh d (sort_segs l).
Proof.
  induction l as [|a l IH]; cbn [sh map sort_segs fold_right]; [reflexivity|].
  fold (sh d l). fold (sort_segs (sh d l)). rewrite IH. apply insert_shift.
Qed.

Lemma eligibles_shift o d l : eligibles o (sh d l) = sh d (eligibles o l).
Proof. unfold eligibles, sh. apply filter_map_comm. intros x. reflexivity. Qed.
Lemma empties_shift d l : empties (sh d l) = sh d (empties l).
Proof. unfold empties, sh. apply filter_map_comm. intros x. reflexivity. Qed.

Lemma min_live_shift d l : min_live (sh d l) = min_live l.
Proof.
  unfold min_live, sh. generalize max_int64. induction l as [|a l IH]; intros m; cbn [map fold_left]; [reflexivity|].
  cbn [shift seg_live]. apply IH.
Qed.
Lemma eligibles_live_shift o d l : eligibles_live o (sh d l) = eligibles_live o l.
Proof.
  unfold eligibles_live. rewrite eligibles_shift. unfold sh. generalize 0.
  induction (eligibles o l) as [|a t IH]; intros z; cbn [map fold_left]; [reflexivity|].
  cbn [shift seg_live]. apply IH.
Qed.
Lemma budget_of_shift o d l : budget_of o (sh d l) = budget_of o l.
Proof. unfold budget_of, budget_args. rewrite eligibles_live_shift, min_live_shift. reflexivity. Qed.

Lemma in_ids_shift d s l : in_ids (shift d s) (sh d l) = in_ids s l.
Proof.
  unfold in_ids, sh. induction l as [|a l IH]; cbn [map existsb]; [reflexivity|].
  rewrite IH. f_equal. cbn [shift seg_id]. lia.
Qed.
Lemma remove_segs_shift d l r : remove_segs (sh d l) (sh d r) = sh d (remove_segs l r).
Proof. unfold remove_segs. unfold sh at 1 3. apply filter_map_comm. intros x. fold (sh d r). rewrite in_ids_shift. reflexivity. Qed.

Lemma build_roster_shift o d l : forall n size, build_roster o (sh d l) n size = sh d (build_roster o l n size).
Proof.
  induction l as [|e t IH]; intros n size; cbn [sh map build_roster]; [reflexivity|].
  destruct (n <? o_per_task o); [|reflexivity]. cbn [shift seg_live].
  destruct (wrap64f (size + seg_live e) <? o_max_size o); cbn [map]; fold (sh d t); rewrite IH; reflexivity.
Qed.
Lemma all_rosters_shift o d l : all_rosters o (sh d l) = map (sh d) (all_rosters o l).
Proof.
  induction l as [|e t IH]; cbn [sh map all_rosters]; [reflexivity|].
  fold (sh d t). change (shift d e :: sh d t) with (sh d (e :: t)). rewrite build_roster_shift.
  destruct (build_roster o (e :: t) 0 0) as [|x xs]; cbn [sh map]; rewrite IH; reflexivity.
Qed.

Section ShiftScore.
Variable score : list seg -> Z.
Variable d : Z.
Hypothesis score_shift : forall r, score (sh d r) = score r.

Definition shb (b : option (list seg * Z)) : option (list seg * Z) :=
  match b with Some (r, sc) => Some (sh d r, sc) | None => None end.

Lemma pick_best_shift rs : forall best,
  pick_best score (map (sh d) rs) (shb best) = shb (pick_best score rs best).
Proof.
  induction rs as [|r rs IH]; intros best; cbn [map pick_best]; [reflexivity|].
  rewrite score_shift. rewrite <- IH. f_equal.
  destruct best as [[br bs]|]; cbn [shb]; [|reflexivity]. destruct (score r <? bs); reflexivity.
Qed.
Lemma best_roster_shift o l : best_roster score o (sh d l) = option_map (sh d) (best_roster score o l).
Proof.
  unfold best_roster. rewrite all_rosters_shift. change None with (shb None) at 1. rewrite pick_best_shift.
  destruct (pick_best score (all_rosters o l) None) as [[r sc]|]; reflexivity.
Qed.

Lemma plan_loop_shift o budget : forall fuel elig n,
  plan_loop fuel score o budget (sh d elig) n = rmap (map (sh d)) (plan_loop fuel score o budget elig n).
Proof.
  induction fuel as [|f IH]; intros elig n; rewrite !plan_loop_eq; unfold over_budget; rewrite sh_len.
  - destruct ((0 <? zlen elig) && (budget <? zlen elig + n)); reflexivity.
  - destruct ((0 <? zlen elig) && (budget <? zlen elig + n)); [|reflexivity].
    rewrite best_roster_shift. destruct (best_roster score o elig) as [r|]; cbn [option_map]; [|reflexivity].
    rewrite remove_segs_shift, IH.
    destruct (plan_loop f score o budget (remove_segs elig r) (n + 1)); reflexivity.
Qed.

Lemma loop_start_shift o l :
  loop_start o (sh d l) = (map (sh d) (fst (loop_start o l)), sh d (snd (loop_start o l))).
Proof.
  unfold loop_start. rewrite eligibles_shift, empties_shift.
  destruct (empties (eligibles o l)) as [|e em] eqn:E; cbn [sh map fst snd]; [reflexivity|].
  f_equal. change (shift d e :: map (shift d) em) with (sh d (e :: em)). fold (sh d (eligibles o l)).
  apply remove_segs_shift.
Qed.

Lemma plan_with_shift o l :
  plan_with score o (sh d l) = rmap (option_map (map (sh d))) (plan_with score o l).
Proof.
  rewrite !plan_with_unfold. rewrite sh_len. destruct (zlen l <=? 1); [reflexivity|].
  rewrite sort_shift, budget_of_shift. destruct (budget_of o (sort_segs l)) as [b| | |]; cbn [rbind rmap]; try reflexivity.
  unfold plan_sorted. rewrite loop_start_shift. destruct (loop_start o (sort_segs l)) as [tasks0 el']. cbn [fst snd].
  rewrite sh_length. unfold zlen at 1. rewrite map_length. fold (zlen tasks0). rewrite plan_loop_shift.
  destruct (plan_loop (S (length el')) score o b el' (zlen tasks0)) as [tl| | |]; cbn [rbind rmap]; try reflexivity.
  cbn [option_map]. rewrite map_app. reflexivity.
Qed.

Definition sh_state (st : state) : state := (sh d (fst st), snd st + d).

Lemma apply_task_shift st t : apply_task (sh_state st) (sh d t) = sh_state (apply_task st t).
Proof.
  destruct st as [segs next]. unfold sh_state. cbn [fst snd].
  destruct t as [|x xs]; [reflexivity|].
  change (sh d (x :: xs)) with (shift d x :: sh d xs). cbn [apply_task].
  change (shift d x :: sh d xs) with (sh d (x :: xs)). set (t := x :: xs).
  assert (Ek : filter (fun s => negb (seg_live s =? 0)) (sh d t) = sh d (filter (fun s => negb (seg_live s =? 0)) t))
    by (unfold sh; apply filter_map_comm; intros y; reflexivity).
  assert (Er : filter (fun s => 0 <? seg_live s) (remove_segs (sh d segs) (sh d t)) =
               sh d (filter (fun s => 0 <? seg_live s) (remove_segs segs t)))
    by (rewrite remove_segs_shift; unfold sh; apply filter_map_comm; intros y; reflexivity).
  rewrite Ek, Er.
  destruct (filter (fun s => negb (seg_live s =? 0)) t) as [|k ks] eqn:E; cbn [sh map fst snd].
  - f_equal. lia.
  - fold (sh d ks). change (shift d k :: sh d ks) with (sh d (k :: ks)). rewrite sh_sum_live.
    unfold sh. rewrite map_app. cbn [map shift seg_id seg_full seg_live].
    f_equal; [|lia]. f_equal. f_equal. unfold shift. cbn [seg_id seg_full seg_live]. f_equal. lia.
Qed.

Lemma apply_plan_shift ts : forall st, apply_plan (sh_state st) (map (sh d) ts) = sh_state (apply_plan st ts).
Proof.
  induction ts as [|t ts IH]; intros st; cbn [map apply_plan fold_left]; [reflexivity|].
  rewrite apply_task_shift. apply IH.
Qed.

Lemma cycle_shift o st :
  cycle score o (sh_state st) =
  rmap (fun r => (option_map (map (sh d)) (fst r), sh_state (snd r))) (cycle score o st).
Proof.
  unfold cycle. cbn [sh_state fst]. rewrite plan_with_shift.
  destruct (plan_with score o (fst st)) as [[ts|]| | |]; cbn [rbind rmap option_map fst snd]; try reflexivity.
  rewrite <- apply_plan_shift. reflexivity.
Qed.

Lemma noop_task_shift t : noop_task (sh d t) = noop_task t.
Proof. destruct t as [|s [|s' t']]; reflexivity. Qed.

End ShiftScore.

(* ================================================================= convergence refuted
   A score, sane options (SegmentsPerMergeTask = 2) and three segments without deletions for
   which every cycle plans three single-segment tasks and executing them gives the same sizes
   again under fresh ids: the merger never reaches an empty plan. *)

Definition rf_opts : options := mkopts 1 1000 2 2 0 0.
Definition rf_score (r : list seg) : Z := sum_live r.
Definition rf_state0 : state := ([mkseg 1 10 10; mkseg 2 10 10; mkseg 3 10 10], 3).
Definition rf_tasks0 : list (list seg) := [[mkseg 3 10 10]; [mkseg 2 10 10]; [mkseg 1 10 10]].

Lemma rf_score_shift d r : rf_score (sh d r) = rf_score r.
Proof. apply sh_sum_live. Qed.

Lemma sh_state_compose a b st : sh_state a (sh_state b st) = sh_state (b + a) st.
Proof.
  destruct st as [segs next]. unfold sh_state. cbn [fst snd]. f_equal; [|lia].
  unfold sh. rewrite map_map. apply map_ext. intros s. unfold shift. cbn [seg_id seg_full seg_live]. f_equal. lia.
Qed.

Lemma rf_cycle0 : cycle rf_score rf_opts rf_state0 = Ok (Some rf_tasks0, sh_state 3 rf_state0).
Proof. vm_compute. reflexivity. Qed.

Lemma rf_cycle k :
  cycle rf_score rf_opts (sh_state k rf_state0) = Ok (Some (map (sh k) rf_tasks0), sh_state (3 + k) rf_state0).
Proof.
  rewrite (cycle_shift rf_score k (rf_score_shift k)). rewrite rf_cycle0. cbn [rmap rbind fst snd option_map].
  rewrite sh_state_compose. reflexivity.
Qed.

Lemma rf_iter : forall n k,
  iter_cycles n rf_score rf_opts (sh_state k rf_state0) = Ok (sh_state (3 * Z.of_nat n + k) rf_state0).
Proof.
  induction n as [|n IH]; intros k.
  - cbn [iter_cycles]. repeat f_equal.
  - cbn [iter_cycles]. rewrite rf_cycle. cbn [rbind snd]. rewrite IH.
    replace (3 * Z.of_nat n + (3 + k)) with (3 * Z.of_nat (S n) + k) by lia. reflexivity.
Qed.

Lemma sh_state_zero st : sh_state 0 st = st.
Proof.
  destruct st as [segs next]. unfold sh_state. cbn [fst snd]. f_equal; [|lia].
  unfold sh. rewrite <- (map_id segs) at 2. apply map_ext. intros [i f l]. unfold shift. cbn. f_equal. lia.
Qed.

Theorem convergence_refuted_all :
  exists (score : list seg -> Z) (o : options) (segs : list seg) (next : Z),
    sane_options o /\ 2 <= o_per_task o /\ NoDup (ids segs) /\ Forall (fun s => seg_id s <= next) segs /\
    forall n : nat, exists st ts st',
      iter_cycles n score o (segs, next) = Ok st /\
      cycle score o st = Ok (Some ts, st') /\
      ts <> [] /\ forallb noop_task ts = true /\ sizes (fst st') = sizes segs.
Proof.
  exists rf_score, rf_opts, (fst rf_state0), (snd rf_state0).
  split; [unfold sane_options; vm_compute; repeat split; intros; discriminate|].
  split; [vm_compute; intros; discriminate|].
  split; [cbn; repeat constructor; cbn; intuition lia|].
  split; [repeat constructor; cbn; lia|].
  intros n.
  exists (sh_state (3 * Z.of_nat n + 0) rf_state0), (map (sh (3 * Z.of_nat n + 0)) rf_tasks0),
         (sh_state (3 + (3 * Z.of_nat n + 0)) rf_state0).
  split.
  - change (fst rf_state0, snd rf_state0) with rf_state0. rewrite <- (sh_state_zero rf_state0) at 1. apply rf_iter.
  - split; [apply rf_cycle|]. split; [discriminate|]. split; [reflexivity|].
    unfold sh_state. cbn [fst]. apply sh_sizes.
Qed.

(* ================================================================= examples *)

(* a stand-in for the default score with integer values: share of the first (largest) segment
   in the roster, lower is better *)
Definition ex_score (r : list seg) : Z :=
  match r with [] => 0 | s :: _ => seg_live s * 1000 / sum_live r end.
Definition ex_opts : options := mkopts 2 1000 2 3 10 2.
Definition ex_segs : list seg :=
  [mkseg 1 700 600; mkseg 2 40 40; mkseg 3 50 0; mkseg 4 45 30; mkseg 5 20 20; mkseg 6 20 20;
   mkseg 7 400 300; mkseg 8 500 500; mkseg 9 15 15; mkseg 10 300 120; mkseg 11 0 0; mkseg 12 90 70;
   mkseg 13 25 22; mkseg 14 12 12; mkseg 15 11 11; mkseg 16 13 13; mkseg 17 14 14; mkseg 18 10 10;
   mkseg 19 10 10].

(* 19 segments, budget 11: the empties task and three rosters; every hypothesis of the
   theorems above holds of this instance *)
Example plan_example :
  sane_options ex_opts /\ NoDup (ids ex_segs) /\
  budget_of ex_opts (sort_segs ex_segs) = Ok 11 /\
  option_map (map ids) (match plan ex_score (Some ex_opts) ex_segs with Ok p => p | _ => None end)
  = Some [[3; 11]; [13; 5; 6]; [15; 18; 19]; [9; 17; 16]].
Proof.
  split; [unfold sane_options; vm_compute; repeat split; intros; discriminate|].
  split; [cbn; repeat constructor; cbn; intuition lia|].
  split; vm_compute; reflexivity.
Qed.

(* the same segments in reverse order give the same plan *)
Example plan_deterministic_example :
  Permutation ex_segs (rev ex_segs) /\ plan ex_score (Some ex_opts) (rev ex_segs) = plan ex_score (Some ex_opts) ex_segs.
Proof. split; [apply Permutation_rev|vm_compute; reflexivity]. Qed.

(* executing that plan: 19 segments, 7 with deletions (measure 26) become 11 segments, 5 with
   deletions (measure 16); no task is a no-op; the next plan is empty and the 9 mergeable
   segments are within the new budget 10 *)
Example apply_progress_example :
  match plan_with ex_score ex_opts ex_segs with
  | Ok (Some ts) =>
      ts <> [] /\ existsb noop_task ts = false /\ measure ex_segs = 26 /\
      measure (fst (apply_plan (ex_segs, 19) ts)) = 16
  | _ => False
  end.
Proof. vm_compute. repeat split; try reflexivity; discriminate. Qed.

Example convergence_example :
  match run_cycles 26 ex_score ex_opts (ex_segs, 19) with
  | Quiescent st =>
      zlen (fst st) = 11 /\ zlen (eligibles ex_opts (fst st)) = 9 /\
      budget_of ex_opts (sort_segs (fst st)) = Ok 10
  | _ => False
  end.
Proof. vm_compute. repeat split; reflexivity. Qed.

(* a plan with a no-op task under sane options with SegmentsPerMergeTask = 3: the last roster
   (one segment without deletions) has the best score *)
Example noop_task_example :
  let o := mkopts 1 1000 4 3 10 2 in
  let l := [mkseg 1 700 600; mkseg 2 40 40; mkseg 3 50 0; mkseg 4 45 30; mkseg 5 20 20; mkseg 6 20 20;
            mkseg 7 499 499; mkseg 8 500 500; mkseg 9 15 15; mkseg 10 300 120; mkseg 11 0 0;
            mkseg 12 90 70; mkseg 13 25 22; mkseg 14 12 12] in
  option_map (map ids) (match plan ex_score (Some o) l with Ok p => p | _ => None end)
  = Some [[3; 11]; [13; 5; 6]; [2; 4; 9]; [10; 12; 14]; [7]] /\
  noop_task [mkseg 7 499 499] = true.
Proof. vm_compute. split; reflexivity. Qed.

(* the default options on a concrete list: 30 segments of 1000..1029 documents are over the
   default budget (the floor 2000 is the first tier: budget 11) and are merged ten at a time *)
Definition ex_default_segs : list seg :=
  map (fun i => mkseg i (1000 + i) (1000 + i)) (map Z.of_nat (seq 0 30)).
Example default_budget_example :
  budget_of default_options (sort_segs ex_default_segs) = Ok 11 /\
  option_map (map (fun t => zlen t)) (match plan ex_score None ex_default_segs with Ok p => p | _ => None end)
  = Some [10; 10; 10].
Proof. vm_compute. split; reflexivity. Qed.

(* ================================================================= histories with arrivals
   The total number of useful (non no-op) tasks the merger executes over any history is at most
   measure(initial) + 2 * #arrivals + #deletions: merging work is linear in what arrives. *)

Lemma delete_in_ids i d l : ids (delete_in i d l) = ids l.
Proof.
  unfold ids, delete_in. rewrite map_map. apply map_ext. intros s. destruct (seg_id s =? i); reflexivity.
Qed.
Lemma delete_in_absent i d l : ~ In i (ids l) -> delete_in i d l = l.
Proof.
  unfold delete_in. induction l as [|s l IH]; intros H; cbn [map]; [reflexivity|].
  cbn [ids map] in H. destruct (seg_id s =? i) eqn:E; [exfalso; apply H; left; lia|].
  f_equal. apply IH. intros Hin. apply H. right. exact Hin.
Qed.
Lemma delete_in_wsum i d l : NoDup (ids l) -> wsum (delete_in i d l) <= wsum l + 1.
Proof.
  induction l as [|s l IH]; intros Hnd; [unfold wsum; cbn; lia|].
  cbn [ids map] in Hnd. inversion Hnd as [|? ? Hnot Hnd']; subst.
  unfold delete_in. cbn [map]. fold (delete_in i d l). unfold wsum. cbn [fold_right]. fold (wsum (delete_in i d l)). fold (wsum l).
  destruct (seg_id s =? i) eqn:E.
  - assert (i = seg_id s) by lia. subst i. rewrite (delete_in_absent _ d l Hnot).
    pose proof (weight_pos s). pose proof (weight_pos (mkseg (seg_id s) (seg_full s) (seg_live s - d))). lia.
  - specialize (IH Hnd'). lia.
Qed.

Lemma wsum_snoc l s : wsum (l ++ [s]) = wsum l + weight s.
Proof. rewrite wsum_app. unfold wsum at 2. cbn [fold_right]. lia. Qed.
Lemma arrivals_cons e h : arrivals (e :: h) = arrivals h + match e with EArrive _ _ => 1 | _ => 0 end.
Proof. unfold arrivals. cbn [filter]. destruct e; [rewrite zlen_cons|..]; lia. Qed.
Lemma deletions_cons e h : deletions (e :: h) = deletions h + match e with EDelete _ _ => 1 | _ => 0 end.
Proof. unfold deletions. cbn [filter]. destruct e; [|rewrite zlen_cons|]; lia. Qed.

Section History.
Variable score : list seg -> Z.

Theorem history_work_bound_all o : forall h st work st' w,
  wf_state st ->
  run_history score o h st work = Ok (st', w) ->
  wf_state st' /\ w + measure (fst st') <= work + measure (fst st) + 2 * arrivals h + deletions h.
Proof.
  induction h as [|e h IH]; intros st work st' w Hwf Hr.
  - cbn [run_history] in Hr. inversion Hr; subst. split; [exact Hwf|]. unfold arrivals, deletions, zlen. cbn [filter length]. lia.
  - destruct st as [segs next]. destruct Hwf as [Hnd Hle]. cbn [fst snd] in *.
    destruct e as [f l|i d|]; cbn [run_history fst snd] in Hr.
    + (* arrival *)
      assert (Hwf' : wf_state (segs ++ [mkseg (next + 1) f l], next + 1)).
      { split; cbn [fst snd].
        - rewrite ids_app. apply NoDup_app_intro; [exact Hnd|constructor; [intros []|constructor]|].
          intros x Hx [<-|[]]. cbn [seg_id] in Hx. unfold ids in Hx. apply in_map_iff in Hx. destruct Hx as [s [E Hs]].
          rewrite Forall_forall in Hle. specialize (Hle s Hs). cbn beta in Hle. lia.
        - apply Forall_app. split; [eapply Forall_impl; [|exact Hle]; intros; cbn beta in *; lia|].
          constructor; [cbn [seg_id]; lia|constructor]. }
      destruct (IH _ _ _ _ Hwf' Hr) as [Hw Hb]. split; [exact Hw|]. cbn [fst] in Hb.
      rewrite !measure_wsum in *. rewrite wsum_snoc in Hb.
      pose proof (weight_pos (mkseg (next + 1) f l)).
      rewrite arrivals_cons, deletions_cons. lia.
    + (* deletion *)
      assert (Hwf' : wf_state (delete_in i d segs, next)).
      { split; cbn [fst snd]; [rewrite delete_in_ids; exact Hnd|].
        unfold delete_in. rewrite Forall_map. eapply Forall_impl; [|exact Hle]. intros s Hs. cbn beta in *.
        destruct (seg_id s =? i); cbn [seg_id]; exact Hs. }
      destruct (IH _ _ _ _ Hwf' Hr) as [Hw Hb]. split; [exact Hw|]. cbn [fst] in Hb.
      rewrite !measure_wsum in *. pose proof (delete_in_wsum i d segs Hnd).
      rewrite arrivals_cons, deletions_cons. lia.
    + (* a merger cycle *)
      unfold cycle in Hr. cbn [fst] in Hr.
      destruct (plan_with_terminates score o segs) as [p Hp]. rewrite Hp in Hr. cbn [rbind] in Hr.
      destruct p as [ts|]; cbn [rbind fst snd] in Hr.
      * pose proof (plan_applicable score o segs ts Hnd Hp) as Happ.
        destruct (apply_plan_measure ts segs next (conj Hnd Hle) Happ) as [Hwf' Hm].
        destruct (IH _ _ _ _ Hwf' Hr) as [Hw Hb]. split; [exact Hw|].
        rewrite !measure_wsum in *. unfold useful_tasks in Hb.
        rewrite arrivals_cons, deletions_cons. lia.
      * destruct (IH (segs, next) _ _ _ (conj Hnd Hle) Hr) as [Hw Hb]. split; [exact Hw|].
        rewrite arrivals_cons, deletions_cons. cbn [fst] in *. lia.
Qed.

End History.

(* 4 arrivals, 1 deletion and 3 cycles from the example state: 5 useful tasks, measure 26 -> 18,
   bound 26 + 2*4 + 1 *)
Example history_example :
  match run_history ex_score ex_opts
          [EArrive 30 30; ECycle; EArrive 12 12; EDelete 8 100; EArrive 9 9; ECycle; EArrive 11 11; ECycle]
          (ex_segs, 19) 0 with
  | Ok (st, w) => w = 5 /\ measure (fst st) = 18 /\ w + measure (fst st) <= 0 + measure ex_segs + 2 * 4 + 1
  | _ => False
  end.
Proof. vm_compute. repeat split; try reflexivity; discriminate. Qed.
