(* MergePlan/PlanProofs.v — proofs about the merge planner model (MergePlan/Plan.v).
   Everything is proved for EVERY score function (a Section variable) and every budget. *)
From Coq Require Import ZArith QArith List Bool Lia Permutation Sorted.
From Coq Require Import ZifyBool.
From Bluge Require Import Base.Int64 Base.Res Gen.ParamsPlan MergePlan.Budget MergePlan.BudgetProofs MergePlan.Plan.
Import ListNotations.
Open Scope Z_scope.

(* ================================================================= basics *)

Lemma wrap64f_eq z : wrap64f z = wrap64 z.
Proof.
  unfold wrap64f. destruct ((min_int64 <=? z) && (z <=? max_int64)) eqn:E; [|reflexivity].
  symmetry. apply wrap64_id. unfold in_int64. lia.
Qed.

Lemma zlen_nonneg {A} (l : list A) : 0 <= zlen l.
Proof. unfold zlen. lia. Qed.
Lemma zlen_cons {A} (a : A) l : zlen (a :: l) = zlen l + 1.
Proof. unfold zlen. cbn [length]. lia. Qed.
Lemma zlen_app {A} (l1 l2 : list A) : zlen (l1 ++ l2) = zlen l1 + zlen l2.
Proof. unfold zlen. rewrite app_length. lia. Qed.
Lemma zlen_nil {A} : zlen (@nil A) = 0.
Proof. reflexivity. Qed.

Lemma ids_app l1 l2 : ids (l1 ++ l2) = ids l1 ++ ids l2.
Proof. unfold ids. apply map_app. Qed.

Lemma sum_live_app l1 l2 : sum_live (l1 ++ l2) = sum_live l1 + sum_live l2.
Proof. unfold sum_live. induction l1 as [|a l1 IH]; cbn [fold_right app]; [lia|]. rewrite IH. lia. Qed.

(* ---------- subsequences ---------- *)
Inductive subseq {A} : list A -> list A -> Prop :=
| sub_nil : subseq [] []
| sub_skip a l1 l2 : subseq l1 l2 -> subseq l1 (a :: l2)
| sub_take a l1 l2 : subseq l1 l2 -> subseq (a :: l1) (a :: l2).

Lemma subseq_nil_l {A} (l : list A) : subseq [] l.
Proof. induction l; constructor; assumption. Qed.
Lemma subseq_refl {A} (l : list A) : subseq l l.
Proof. induction l; constructor; assumption. Qed.
Lemma subseq_trans {A} (l1 l2 l3 : list A) : subseq l1 l2 -> subseq l2 l3 -> subseq l1 l3.
Proof.
  intros H12 H23. revert l1 H12. induction H23 as [|a l2 l3 H IH|a l2 l3 H IH]; intros l1 H12.
  - exact H12.
  - constructor. apply IH. exact H12.
  - inversion H12; subst.
    + constructor. apply IH. assumption.
    + apply sub_take. apply IH. assumption.
Qed.
Lemma subseq_incl {A} (l1 l2 : list A) : subseq l1 l2 -> incl l1 l2.
Proof.
  induction 1 as [|a l1 l2 H IH|a l1 l2 H IH]; intros x Hx.
  - exact Hx.
  - right. apply IH. exact Hx.
  - destruct Hx as [->|Hx]; [left; reflexivity|right; apply IH; exact Hx].
Qed.
Lemma subseq_map {A B} (f : A -> B) l1 l2 : subseq l1 l2 -> subseq (map f l1) (map f l2).
Proof. induction 1; cbn [map]; constructor; assumption. Qed.
Lemma subseq_NoDup {A} (l1 l2 : list A) : subseq l1 l2 -> NoDup l2 -> NoDup l1.
Proof.
  induction 1 as [|a l1 l2 H IH|a l1 l2 H IH]; intros Hnd.
  - constructor.
  - inversion Hnd; subst. apply IH. assumption.
  - inversion Hnd; subst. constructor; [|apply IH; assumption].
    intros Hin. apply (subseq_incl _ _ H) in Hin. contradiction.
Qed.
Lemma subseq_filter {A} (p : A -> bool) l : subseq (filter p l) l.
Proof. induction l as [|a l IH]; cbn [filter]; [constructor|]. destruct (p a); constructor; exact IH. Qed.
Lemma subseq_length {A} (l1 l2 : list A) : subseq l1 l2 -> (length l1 <= length l2)%nat.
Proof. induction 1; cbn [length]; lia. Qed.

Lemma NoDup_ids_subseq l1 l2 : subseq l1 l2 -> NoDup (ids l2) -> NoDup (ids l1).
Proof. intros H. apply subseq_NoDup. apply subseq_map. exact H. Qed.

(* an injective-on-the-list key identifies the element *)
Lemma NoDup_ids_inj l a b : NoDup (ids l) -> In a l -> In b l -> seg_id a = seg_id b -> a = b.
Proof.
  induction l as [|h t IH]; intros Hnd Ha Hb E; [contradiction|].
  cbn [ids map] in Hnd. inversion Hnd as [|x xs Hnot Hnd']; subst.
  destruct Ha as [->|Ha], Hb as [->|Hb].
  - reflexivity.
  - exfalso. apply Hnot. rewrite E. apply in_map. exact Hb.
  - exfalso. apply Hnot. rewrite <- E. apply in_map. exact Ha.
  - apply IH; assumption.
Qed.

(* ---------- removeSegments ---------- *)
Lemma in_ids_true s l : in_ids s l = true <-> In (seg_id s) (ids l).
Proof.
  unfold in_ids. rewrite existsb_exists. split.
  - intros [r [Hr E]]. apply Z.eqb_eq in E. rewrite <- E. apply in_map. exact Hr.
  - intros H. apply in_map_iff in H. destruct H as [r [E Hr]]. exists r. split; [exact Hr|]. apply Z.eqb_eq. exact E.
Qed.
Lemma in_ids_false s l : in_ids s l = false <-> ~ In (seg_id s) (ids l).
Proof.
  rewrite <- in_ids_true. destruct (in_ids s l); split; intros H.
  - discriminate.
  - exfalso. apply H. reflexivity.
  - intros H'. discriminate.
  - reflexivity.
Qed.

Lemma remove_segs_subseq l rem : subseq (remove_segs l rem) l.
Proof. apply subseq_filter. Qed.
Lemma remove_segs_In s l rem : In s (remove_segs l rem) <-> In s l /\ ~ In (seg_id s) (ids rem).
Proof. unfold remove_segs. rewrite filter_In. rewrite negb_true_iff, in_ids_false. tauto. Qed.
Lemma remove_segs_nil l : remove_segs l [] = l.
Proof. unfold remove_segs. induction l as [|a l IH]; cbn [filter in_ids existsb negb]; [reflexivity|]. f_equal. exact IH. Qed.
Lemma remove_segs_app l a b : remove_segs (remove_segs l a) b = remove_segs l (a ++ b).
Proof.
  unfold remove_segs. induction l as [|s l IH]; cbn [filter]; [reflexivity|].
  assert (E : in_ids s (a ++ b) = in_ids s a || in_ids s b) by (unfold in_ids; apply existsb_app).
  rewrite E. destruct (in_ids s a); cbn [negb orb filter].
  - exact IH.
  - destruct (in_ids s b); cbn [negb]; [exact IH|]. rewrite IH. reflexivity.
Qed.

(* removing a non-empty part of the list makes it shorter *)
Lemma remove_segs_shorter l r s :
  In s r -> In s l -> (length (remove_segs l r) < length l)%nat.
Proof.
  intros Hr Hl. unfold remove_segs. induction l as [|h t IH]; [contradiction|].
  cbn [filter length].
  destruct Hl as [->|Hl].
  - assert (E : in_ids s r = true) by (apply in_ids_true; apply in_map; exact Hr).
    rewrite E. cbn [negb].
    pose proof (subseq_length _ _ (subseq_filter (fun s0 => negb (in_ids s0 r)) t)). lia.
  - specialize (IH Hl). destruct (negb (in_ids h r)); cbn [length]; lia.
Qed.

(* ================================================================= sorting *)

Definition seg_lt (a b : seg) : Prop := seg_before a b = true.

Lemma seg_before_irrefl a : seg_before a a = false.
Proof. unfold seg_before. rewrite Z.eqb_refl. cbn [negb]. lia. Qed.
Lemma seg_lt_trans a b c : seg_lt a b -> seg_lt b c -> seg_lt a c.
Proof.
  unfold seg_lt, seg_before. intros H1 H2.
  destruct (seg_live a =? seg_live b) eqn:E1, (seg_live b =? seg_live c) eqn:E2,
           (seg_live a =? seg_live c) eqn:E3; cbn [negb] in *; lia.
Qed.
(* total on distinct ids *)
Lemma seg_before_total a b : seg_id a <> seg_id b -> seg_before a b = false -> seg_before b a = true.
Proof.
  unfold seg_before. intros Hne H.
  destruct (seg_live a =? seg_live b) eqn:E1, (seg_live b =? seg_live a) eqn:E2; cbn [negb] in *; lia.
Qed.

Lemma insert_perm s l : Permutation (insert_seg s l) (s :: l).
Proof.
  induction l as [|h t IH]; cbn [insert_seg]; [apply Permutation_refl|].
  destruct (seg_before s h); [apply Permutation_refl|].
  eapply perm_trans; [apply perm_skip; exact IH|apply perm_swap].
Qed.
Lemma sort_perm l : Permutation (sort_segs l) l.
Proof.
  induction l as [|a l IH]; cbn [sort_segs fold_right]; [constructor|].
  eapply perm_trans; [apply insert_perm|]. apply perm_skip. exact IH.
Qed.

Lemma insert_sorted s l :
  (forall x, In x l -> seg_id x <> seg_id s) ->
  StronglySorted seg_lt l -> StronglySorted seg_lt (insert_seg s l).
Proof.
  intros Hne Hs. induction Hs as [|h t Ht IH Hall]; cbn [insert_seg].
  - constructor; constructor.
  - destruct (seg_before s h) eqn:E.
    + constructor; [constructor; assumption|].
      constructor; [exact E|].
      rewrite Forall_forall in *. intros x Hx. eapply seg_lt_trans; [exact E|apply Hall; exact Hx].
    + constructor.
      * apply IH. intros x Hx. apply Hne. right. exact Hx.
      * rewrite Forall_forall in *. intros x Hx.
        apply (Permutation_in _ (insert_perm s t)) in Hx. destruct Hx as [<-|Hx].
        -- apply seg_before_total; [|exact E]. intros Heq. apply (Hne h); [left; reflexivity|]. symmetry. exact Heq.
        -- apply Hall. exact Hx.
Qed.

Lemma sort_sorted l : NoDup (ids l) -> StronglySorted seg_lt (sort_segs l).
Proof.
  induction l as [|a l IH]; intros Hnd; cbn [sort_segs fold_right]; [constructor|].
  cbn [ids map] in Hnd. inversion Hnd as [|x xs Hnot Hnd']; subst.
  apply insert_sorted; [|apply IH; exact Hnd'].
  intros x Hx Heq. apply Hnot. rewrite <- Heq. apply in_map.
  apply (Permutation_in _ (sort_perm l)). exact Hx.
Qed.

(* two sorted permutations of each other are equal (the order is strict) *)
Lemma sorted_perm_unique l1 : forall l2,
  StronglySorted seg_lt l1 -> StronglySorted seg_lt l2 -> Permutation l1 l2 -> l1 = l2.
Proof.
  induction l1 as [|a l1 IH]; intros l2 H1 H2 Hp.
  - apply Permutation_nil in Hp. subst. reflexivity.
  - destruct l2 as [|b l2]; [apply Permutation_sym, Permutation_nil in Hp; discriminate|].
    inversion H1 as [|? ? Hs1 Ha]; subst. inversion H2 as [|? ? Hs2 Hb]; subst.
    rewrite Forall_forall in Ha, Hb.
    assert (Eab : a = b).
    { assert (Hin1 : In a (b :: l2)) by (apply (Permutation_in _ Hp); left; reflexivity).
      assert (Hin2 : In b (a :: l1)) by (apply (Permutation_in _ (Permutation_sym Hp)); left; reflexivity).
      destruct Hin1 as [->|Hin1]; [reflexivity|]. destruct Hin2 as [->|Hin2]; [reflexivity|].
      exfalso. pose proof (seg_lt_trans _ _ _ (Ha _ Hin2) (Hb _ Hin1)) as Hc.
      unfold seg_lt in Hc. rewrite seg_before_irrefl in Hc. discriminate. }
    subst b. f_equal. apply IH; try assumption. eapply Permutation_cons_inv. exact Hp.
Qed.

Lemma NoDup_ids_perm l l' : Permutation l l' -> NoDup (ids l) -> NoDup (ids l').
Proof. intros Hp. apply Permutation_NoDup. unfold ids. apply Permutation_map. exact Hp. Qed.

Theorem sort_perm_invariant l l' : Permutation l l' -> NoDup (ids l) -> sort_segs l = sort_segs l'.
Proof.
  intros Hp Hnd. apply sorted_perm_unique.
  - apply sort_sorted. exact Hnd.
  - apply sort_sorted. eapply NoDup_ids_perm; eassumption.
  - eapply perm_trans; [apply sort_perm|]. eapply perm_trans; [exact Hp|]. apply Permutation_sym, sort_perm.
Qed.

Lemma sort_NoDup l : NoDup (ids l) -> NoDup (ids (sort_segs l)).
Proof. apply NoDup_ids_perm. apply Permutation_sym, sort_perm. Qed.
Lemma sort_In s l : In s (sort_segs l) <-> In s l.
Proof. split; apply Permutation_in; [apply sort_perm|apply Permutation_sym, sort_perm]. Qed.

(* ================================================================= options *)

Lemma half_max_spec o : 0 < o_max_size o -> 2 * half_max o <= o_max_size o < 2 * half_max o + 2.
Proof.
  intros H. unfold half_max. rewrite Z.quot_div_nonneg by lia.
  pose proof (Z.div_mod (o_max_size o) 2 ltac:(lia)) as E.
  pose proof (Z.mod_pos_bound (o_max_size o) 2 ltac:(lia)) as B. lia.
Qed.

Lemma wrap64f_small z : min_int64 <= z <= max_int64 -> wrap64f z = z.
Proof. intros H. unfold wrap64f. destruct ((min_int64 <=? z) && (z <=? max_int64)) eqn:E; [reflexivity|lia]. Qed.

Lemma default_options_sane : sane_options default_options.
Proof. unfold sane_options. vm_compute. repeat split; intros; discriminate. Qed.

Lemma sane_optionsb_spec o : sane_optionsb o = true <-> sane_options o.
Proof. unfold sane_optionsb, sane_options, validate_options. lia. Qed.

(* ================================================================= rosters *)

Lemma NoDup_app_intro {A} (l1 l2 : list A) :
  NoDup l1 -> NoDup l2 -> (forall x, In x l1 -> ~ In x l2) -> NoDup (l1 ++ l2).
Proof.
  induction l1 as [|a l1 IH]; intros H1 H2 Hd; cbn [app]; [exact H2|].
  inversion H1; subst. constructor.
  - rewrite in_app_iff. intros [Hin|Hin]; [contradiction|]. apply (Hd a); [left; reflexivity|exact Hin].
  - apply IH; try assumption. intros x Hx. apply Hd. right. exact Hx.
Qed.

Lemma build_roster_subseq o l : forall n size, subseq (build_roster o l n size) l.
Proof.
  induction l as [|e t IH]; intros n size; cbn [build_roster]; [constructor|].
  destruct (n <? o_per_task o); [|apply subseq_nil_l].
  destruct (wrap64f (size + seg_live e) <? o_max_size o); [apply sub_take|apply sub_skip]; apply IH.
Qed.

(* the segments the loop works on: 0 < live < MaxSegmentSize/2 *)
Definition small_pos (o : options) (s : seg) : Prop := 0 < seg_live s < half_max o.

Lemma build_roster_sum o l :
  0 < o_max_size o <= plan_max_segment_size_limit ->
  Forall (small_pos o) l ->
  forall n size, 0 <= size < o_max_size o ->
    size <= size + sum_live (build_roster o l n size) < o_max_size o.
Proof.
  intros Hmax Hall. pose proof (half_max_spec o ltac:(lia)) as Hh.
  unfold plan_max_segment_size_limit in Hmax.
  induction Hall as [|e t He Ht IH]; intros n size Hs; cbn [build_roster sum_live fold_right]; [lia|].
  destruct (n <? o_per_task o); [|cbn [sum_live fold_right]; lia].
  unfold small_pos in He.
  rewrite wrap64f_small by (unfold min_int64, max_int64; lia).
  destruct (size + seg_live e <? o_max_size o) eqn:E.
  - cbn [sum_live fold_right]. specialize (IH (n + 1) (size + seg_live e) ltac:(lia)).
    unfold sum_live in IH. lia.
  - apply IH. exact Hs.
Qed.

Lemma build_roster_head o e t :
  sane_options o -> small_pos o e ->
  exists r, build_roster o (e :: t) 0 0 = e :: r.
Proof.
  intros [Hmax Hper] He. pose proof (half_max_spec o ltac:(lia)) as Hh. unfold small_pos in He.
  unfold plan_max_segment_size_limit in Hmax.
  cbn [build_roster]. destruct (0 <? o_per_task o) eqn:E1; [|lia].
  rewrite wrap64f_small by (unfold min_int64, max_int64; lia).
  destruct (0 + seg_live e <? o_max_size o) eqn:E2; [|lia]. eexists. reflexivity.
Qed.

(* every roster offered to the score function *)
Definition is_roster (o : options) (elig r : list seg) : Prop :=
  r <> [] /\ exists l', subseq l' elig /\ r = build_roster o l' 0 0.

Lemma is_roster_subseq o elig r : is_roster o elig r -> subseq r elig.
Proof. intros [_ [l' [Hs ->]]]. eapply subseq_trans; [apply build_roster_subseq|exact Hs]. Qed.

Lemma is_roster_weaken o elig elig' r : subseq elig elig' -> is_roster o elig r -> is_roster o elig' r.
Proof. intros Hs [Hne [l' [Hl Hr]]]. split; [exact Hne|]. exists l'. split; [eapply subseq_trans; eassumption|exact Hr]. Qed.

Lemma all_rosters_spec o l r : In r (all_rosters o l) -> is_roster o l r.
Proof.
  induction l as [|e t IH]; cbn [all_rosters]; [contradiction|].
  destruct (build_roster o (e :: t) 0 0) as [|x xs] eqn:E.
  - intros H. apply (is_roster_weaken o t); [apply sub_skip, subseq_refl|apply IH; exact H].
  - intros [<-|H].
    + split; [discriminate|]. exists (e :: t). split; [apply subseq_refl|symmetry; exact E].
    + apply (is_roster_weaken o t); [apply sub_skip, subseq_refl|apply IH; exact H].
Qed.

Lemma all_rosters_nonempty o l :
  sane_options o -> Forall (small_pos o) l -> l <> [] -> all_rosters o l <> [].
Proof.
  intros Hs Hall Hne. destruct l as [|e t]; [contradiction|]. inversion Hall; subst.
  cbn [all_rosters]. destruct (build_roster_head o e t Hs ltac:(assumption)) as [r ->]. discriminate.
Qed.

Section WithScore.
Variable score : list seg -> Z.

Lemma pick_best_in rs : forall best r sc,
  pick_best score rs best = Some (r, sc) -> In r rs \/ best = Some (r, sc).
Proof.
  induction rs as [|x rs IH]; intros best r sc H; cbn [pick_best] in H; [right; exact H|].
  apply IH in H. destruct H as [H|H]; [left; right; exact H|].
  destruct best as [[br bs]|].
  - destruct (score x <? bs); [inversion H; subst; left; left; reflexivity|right; exact H].
  - inversion H; subst. left; left; reflexivity.
Qed.

Lemma pick_best_none rs : forall best, pick_best score rs best = None -> rs = [] /\ best = None.
Proof.
  induction rs as [|x rs IH]; intros best H; cbn [pick_best] in H; [split; [reflexivity|exact H]|].
  apply IH in H. destruct H as [_ H]. destruct best as [[br bs]|]; [destruct (score x <? bs)|]; discriminate.
Qed.

(* the chosen roster has the smallest score, and is the first one with that score *)
Lemma pick_best_min rs : forall best r sc,
  pick_best score rs best = Some (r, sc) ->
  sc = score r \/ best = Some (r, sc).
Proof.
  induction rs as [|x rs IH]; intros best r sc H; cbn [pick_best] in H; [right; exact H|].
  apply IH in H. destruct H as [H|H]; [left; exact H|].
  destruct best as [[br bs]|].
  - destruct (score x <? bs); [inversion H; subst; left; reflexivity|right; exact H].
  - inversion H; subst. left; reflexivity.
Qed.
Lemma pick_best_le rs : forall best r sc,
  pick_best score rs best = Some (r, sc) ->
  (forall x, In x rs -> sc <= score x) /\ (forall br bs, best = Some (br, bs) -> sc <= bs).
Proof.
  induction rs as [|x rs IH]; intros best r sc H; cbn [pick_best] in H.
  - split; [intros x []|]. intros br bs E. rewrite E in H. inversion H. lia.
  - apply IH in H. destruct H as [H1 H2]. split.
    + intros y [<-|Hy]; [|apply H1; exact Hy].
      destruct best as [[br bs]|].
      * destruct (score x <? bs) eqn:E; [apply (H2 x); reflexivity|]. specialize (H2 br bs eq_refl). lia.
      * apply (H2 x). reflexivity.
    + intros br bs ->. destruct (score x <? bs) eqn:E; [specialize (H2 x (score x) eq_refl); lia|apply (H2 br); reflexivity].
Qed.

Lemma best_roster_in o elig r : best_roster score o elig = Some r -> In r (all_rosters o elig).
Proof.
  unfold best_roster. destruct (pick_best score (all_rosters o elig) None) as [[r' sc]|] eqn:E; [|discriminate].
  cbn [option_map fst]. intros H. inversion H; subst.
  apply pick_best_in in E. destruct E as [E|E]; [exact E|discriminate].
Qed.
Lemma best_roster_none o elig : best_roster score o elig = None -> all_rosters o elig = [].
Proof.
  unfold best_roster. destruct (pick_best score (all_rosters o elig) None) as [[r' sc]|] eqn:E; [discriminate|].
  intros _. apply pick_best_none in E. tauto.
Qed.
Lemma best_roster_minimal o elig r :
  best_roster score o elig = Some r -> forall x, In x (all_rosters o elig) -> score r <= score x.
Proof.
  unfold best_roster. destruct (pick_best score (all_rosters o elig) None) as [[r' sc]|] eqn:E; [|discriminate].
  cbn [option_map fst]. intros H. inversion H; subst.
  pose proof (pick_best_min _ _ _ _ E) as [Hs|Hs]; [|discriminate]. subst sc.
  apply (pick_best_le _ _ _ _ E).
Qed.

(* ================================================================= the loop *)

Lemma plan_loop_eq fuel o budget elig n :
  plan_loop fuel score o budget elig n =
  if over_budget budget elig n then
    match fuel with
    | O => OutOfFuel
    | S f =>
        match best_roster score o elig with
        | None => Ok []
        | Some r => ts <- plan_loop f score o budget (remove_segs elig r) (n + 1) ;; Ok (r :: ts)
        end
    end
  else Ok [].
Proof. destruct fuel; reflexivity. Qed.

(* termination: each iteration removes at least one eligible segment *)
Lemma plan_loop_fuel o budget : forall fuel elig n,
  (length elig < fuel)%nat -> exists ts, plan_loop fuel score o budget elig n = Ok ts.
Proof.
  induction fuel as [|f IH]; intros elig n Hlen; [lia|].
  rewrite plan_loop_eq. destruct (over_budget budget elig n) eqn:Eo; [|eexists; reflexivity].
  destruct (best_roster score o elig) as [r|] eqn:Eb; [|eexists; reflexivity].
  pose proof (all_rosters_spec _ _ _ (best_roster_in _ _ _ Eb)) as Hr.
  pose proof (is_roster_subseq _ _ _ Hr) as Hsub. destruct Hr as [Hne _].
  destruct r as [|s r']; [contradiction|].
  assert (Hin : In s elig) by (apply (subseq_incl _ _ Hsub); left; reflexivity).
  pose proof (remove_segs_shorter elig (s :: r') s ltac:(left; reflexivity) Hin) as Hsh.
  destruct (IH (remove_segs elig (s :: r')) (n + 1) ltac:(lia)) as [ts ->].
  eexists. reflexivity.
Qed.

Lemma plan_loop_spec o budget : forall fuel elig n ts,
  NoDup (ids elig) ->
  plan_loop fuel score o budget elig n = Ok ts ->
  NoDup (ids (concat ts)) /\ Forall (is_roster o elig) ts.
Proof.
  induction fuel as [|f IH]; intros elig n ts Hnd H; rewrite plan_loop_eq in H.
  - destruct (over_budget budget elig n); [discriminate|]. inversion H; subst. split; constructor.
  - destruct (over_budget budget elig n); [|inversion H; subst; split; constructor].
    destruct (best_roster score o elig) as [r|] eqn:Eb; [|inversion H; subst; split; constructor].
    destruct (plan_loop f score o budget (remove_segs elig r) (n + 1)) as [ts'| | |] eqn:El; cbn [rbind] in H; try discriminate.
    inversion H; subst ts.
    pose proof (all_rosters_spec _ _ _ (best_roster_in _ _ _ Eb)) as Hr.
    pose proof (is_roster_subseq _ _ _ Hr) as Hsub.
    assert (Hnd' : NoDup (ids (remove_segs elig r))) by (eapply NoDup_ids_subseq; [apply remove_segs_subseq|exact Hnd]).
    destruct (IH _ _ _ Hnd' El) as [Hd Hf].
    split.
    + cbn [concat]. rewrite ids_app. apply NoDup_app_intro.
      * eapply NoDup_ids_subseq; eassumption.
      * exact Hd.
      * intros x Hx Hx'. unfold ids in Hx'. apply in_map_iff in Hx'. destruct Hx' as [s' [<- Hs']].
        apply in_concat in Hs'. destruct Hs' as [t [Ht Hst]].
        rewrite Forall_forall in Hf. pose proof (is_roster_subseq _ _ _ (Hf t Ht)) as Hts.
        apply (subseq_incl _ _ Hts) in Hst. apply remove_segs_In in Hst. destruct Hst as [_ Hn]. contradiction.
    + constructor; [exact Hr|].
      eapply Forall_impl; [|exact Hf]. intros t Ht. eapply is_roster_weaken; [apply remove_segs_subseq|exact Ht].
Qed.

(* on return: not over budget any more, or no roster could be built *)
Lemma plan_loop_post o budget : forall fuel elig n ts,
  plan_loop fuel score o budget elig n = Ok ts ->
  let rest := remove_segs elig (concat ts) in
  over_budget budget rest (n + zlen ts) = false \/ all_rosters o rest = [].
Proof.
  induction fuel as [|f IH]; intros elig n ts H; rewrite plan_loop_eq in H.
  - destruct (over_budget budget elig n) eqn:Eo; [discriminate|]. inversion H; subst.
    cbn [concat]. rewrite remove_segs_nil, zlen_nil, Z.add_0_r. left. exact Eo.
  - destruct (over_budget budget elig n) eqn:Eo.
    + destruct (best_roster score o elig) as [r|] eqn:Eb.
      * destruct (plan_loop f score o budget (remove_segs elig r) (n + 1)) as [ts'| | |] eqn:El; cbn [rbind] in H; try discriminate.
        inversion H; subst ts. cbn [concat]. rewrite <- remove_segs_app. rewrite zlen_cons.
        replace (n + (zlen ts' + 1)) with (n + 1 + zlen ts') by lia. apply (IH _ _ _ El).
      * inversion H; subst. cbn [concat]. rewrite remove_segs_nil. right. apply best_roster_none. exact Eb.
    + inversion H; subst. cbn [concat]. rewrite remove_segs_nil, zlen_nil, Z.add_0_r. left. exact Eo.
Qed.

(* ================================================================= before the loop *)

Lemma eligibles_subseq o l : subseq (eligibles o l) l.
Proof. apply subseq_filter. Qed.
Lemma eligibles_In o s l : In s (eligibles o l) <-> In s l /\ seg_live s < half_max o.
Proof. unfold eligibles, eligible. rewrite filter_In, Z.ltb_lt. reflexivity. Qed.
Lemma empties_In s l : In s (empties l) <-> In s l /\ seg_live s <= 0.
Proof. unfold empties. rewrite filter_In, Z.leb_le. reflexivity. Qed.

Lemma filter_nil_forall {A} (p : A -> bool) l : filter p l = [] -> Forall (fun x => p x = false) l.
Proof.
  induction l as [|a l IH]; cbn [filter]; intros H; [constructor|].
  destruct (p a) eqn:E; [discriminate|]. constructor; [exact E|apply IH; exact H].
Qed.

(* the loop starts on segments with 0 < live < MaxSegmentSize/2 *)
Lemma loop_start_spec o sorted tasks0 el' :
  loop_start o sorted = (tasks0, el') ->
  subseq el' (eligibles o sorted) /\ Forall (small_pos o) el' /\
  el' = remove_segs (eligibles o sorted) (concat tasks0) /\
  (tasks0 = [] \/ (tasks0 = [empties (eligibles o sorted)] /\ empties (eligibles o sorted) <> [])).
Proof.
  unfold loop_start. set (el := eligibles o sorted).
  destruct (empties el) as [|e em] eqn:E; intros H; inversion H; subst.
  - split; [apply subseq_refl|]. split; [|split; [cbn [concat]; rewrite remove_segs_nil; reflexivity|left; reflexivity]].
    apply filter_nil_forall in E. rewrite Forall_forall in *. intros s Hs. specialize (E s Hs). cbn beta in E.
    apply eligibles_In in Hs. unfold small_pos. lia.
  - split; [apply remove_segs_subseq|]. split; [|split; [cbn [concat]; rewrite app_nil_r; reflexivity|right; split; [reflexivity|discriminate]]].
    rewrite Forall_forall. intros s Hs. apply remove_segs_In in Hs. destruct Hs as [Hs Hn].
    pose proof (proj1 (eligibles_In _ _ _) Hs) as [_ Hsmall]. unfold small_pos. split; [|exact Hsmall].
    destruct (Z_lt_ge_dec 0 (seg_live s)) as [Hp|Hp]; [exact Hp|]. exfalso. apply Hn. apply in_map.
    rewrite <- E. apply empties_In. split; [exact Hs|lia].
Qed.

(* ================================================================= plan *)

Lemma plan_with_unfold o l :
  plan_with score o l =
  if zlen l <=? 1 then Ok None
  else b <- budget_of o (sort_segs l) ;; ts <- plan_sorted score o b (sort_segs l) ;; Ok (Some ts).
Proof. reflexivity. Qed.

Lemma budget_of_ok o sorted : exists b, budget_of o sorted = Ok b.
Proof. unfold budget_of. destruct (budget_args o sorted) as [t f]. apply calc_budget_terminates. Qed.

Lemma plan_sorted_ok o b sorted : exists ts, plan_sorted score o b sorted = Ok ts.
Proof.
  unfold plan_sorted. destruct (loop_start o sorted) as [tasks0 el'].
  destruct (plan_loop_fuel o b (S (length el')) el' (zlen tasks0) ltac:(lia)) as [ts ->].
  eexists. reflexivity.
Qed.

(* ---- plan_terminates: for every score, every options value (sane or not), every list *)
Theorem plan_with_terminates o l : exists p, plan_with score o l = Ok p.
Proof.
  rewrite plan_with_unfold. destruct (zlen l <=? 1); [eexists; reflexivity|].
  destruct (budget_of_ok o (sort_segs l)) as [b ->]. cbn [rbind].
  destruct (plan_sorted_ok o b (sort_segs l)) as [ts ->]. eexists. reflexivity.
Qed.

(* what a returned plan looks like *)
Definition plan_shape (o : options) (b : Z) (sorted : list seg) (ts : list (list seg)) : Prop :=
  exists tasks0 tl el',
    loop_start o sorted = (tasks0, el') /\
    plan_loop (S (length el')) score o b el' (zlen tasks0) = Ok tl /\
    ts = tasks0 ++ tl.

Lemma plan_with_shape o l ts :
  plan_with score o l = Ok (Some ts) ->
  1 < zlen l /\ exists b, budget_of o (sort_segs l) = Ok b /\ plan_shape o b (sort_segs l) ts.
Proof.
  rewrite plan_with_unfold. destruct (zlen l <=? 1) eqn:E; [discriminate|]. intros H. split; [lia|].
  destruct (budget_of o (sort_segs l)) as [b| | |]; cbn [rbind] in H; try discriminate.
  exists b. split; [reflexivity|].
  unfold plan_sorted in H. destruct (loop_start o (sort_segs l)) as [tasks0 el'] eqn:Es.
  destruct (plan_loop (S (length el')) score o b el' (zlen tasks0)) as [tl| | |] eqn:El; cbn [rbind] in H; try discriminate.
  inversion H; subst. exists tasks0, tl, el'. split; [exact Es|]. split; [exact El|reflexivity].
Qed.

Lemma plan_with_none o l : plan_with score o l = Ok None -> zlen l <= 1.
Proof.
  rewrite plan_with_unfold. destruct (zlen l <=? 1) eqn:E; [lia|].
  destruct (budget_of o (sort_segs l)); cbn [rbind]; try discriminate.
  destruct (plan_sorted score o a (sort_segs l)); cbn [rbind]; discriminate.
Qed.

(* every task is the empties task or a roster of the segments the loop started on *)
Lemma shape_tasks o b sorted ts :
  plan_shape o b sorted ts ->
  NoDup (ids sorted) ->
  NoDup (ids (concat ts)) /\
  Forall (fun t => (t = empties (eligibles o sorted) /\ t <> []) \/ is_roster o (snd (loop_start o sorted)) t) ts.
Proof.
  intros [tasks0 [tl [el' [Hs [Hl ->]]]]] Hnd. rewrite Hs. cbn [snd].
  destruct (loop_start_spec _ _ _ _ Hs) as [Hsub [Hpos [Hrem Ht0]]].
  assert (Hndel : NoDup (ids el')).
  { eapply NoDup_ids_subseq; [exact Hsub|]. eapply NoDup_ids_subseq; [apply eligibles_subseq|exact Hnd]. }
  destruct (plan_loop_spec _ _ _ _ _ _ Hndel Hl) as [Hd Hf].
  split.
  - rewrite concat_app, ids_app. apply NoDup_app_intro.
    + destruct Ht0 as [->|[-> _]]; [constructor|]. cbn [concat]. rewrite app_nil_r.
      eapply NoDup_ids_subseq; [apply subseq_filter|]. eapply NoDup_ids_subseq; [apply eligibles_subseq|exact Hnd].
    + exact Hd.
    + intros x Hx Hx'. unfold ids in Hx'. apply in_map_iff in Hx'. destruct Hx' as [s' [<- Hs']].
      apply in_concat in Hs'. destruct Hs' as [t [Ht Hst]].
      rewrite Forall_forall in Hf. pose proof (is_roster_subseq _ _ _ (Hf t Ht)) as Hts.
      apply (subseq_incl _ _ Hts) in Hst. rewrite Hrem in Hst. apply remove_segs_In in Hst. destruct Hst as [_ Hn]. contradiction.
  - apply Forall_app. split.
    + destruct Ht0 as [->|[-> Hne]]; [constructor|]. constructor; [|constructor]. left. split; [reflexivity|exact Hne].
    + eapply Forall_impl; [|exact Hf]. intros t Ht. right. exact Ht.
Qed.

End WithScore.

(* ================================================================= the theorems about plan *)

Lemma subseq_Forall {A} (P : A -> Prop) l1 l2 : subseq l1 l2 -> Forall P l2 -> Forall P l1.
Proof.
  intros Hs Hf. rewrite Forall_forall in *. intros x Hx. apply Hf. apply (subseq_incl _ _ Hs). exact Hx.
Qed.

Lemma sum_live_nonpos l : Forall (fun s => seg_live s <= 0) l -> sum_live l <= 0.
Proof. induction 1; cbn [sum_live fold_right]; [lia|]. unfold sum_live in IHForall. lia. Qed.

Section Theorems.
Variable score : list seg -> Z.

(* the rosters of the loop, without any hypothesis on the ids *)
Lemma plan_loop_rosters o budget : forall fuel elig n ts,
  plan_loop fuel score o budget elig n = Ok ts -> Forall (is_roster o elig) ts.
Proof.
  induction fuel as [|f IH]; intros elig n ts H; rewrite plan_loop_eq in H.
  - destruct (over_budget budget elig n); [discriminate|]. inversion H; subst. constructor.
  - destruct (over_budget budget elig n); [|inversion H; subst; constructor].
    destruct (best_roster score o elig) as [r|] eqn:Eb; [|inversion H; subst; constructor].
    destruct (plan_loop f score o budget (remove_segs elig r) (n + 1)) as [ts'| | |] eqn:El; cbn [rbind] in H; try discriminate.
    inversion H; subst ts.
    constructor; [apply all_rosters_spec; eapply best_roster_in; exact Eb|].
    eapply Forall_impl; [|apply (IH _ _ _ El)]. intros t Ht. eapply is_roster_weaken; [apply remove_segs_subseq|exact Ht].
Qed.

Lemma shape_rosters o b sorted ts :
  plan_shape score o b sorted ts ->
  Forall (fun t => (t = empties (eligibles o sorted) /\ t <> []) \/ is_roster o (snd (loop_start o sorted)) t) ts.
Proof.
  intros [tasks0 [tl [el' [Hs [Hl ->]]]]]. rewrite Hs. cbn [snd].
  destruct (loop_start_spec _ _ _ _ Hs) as [Hsub [Hpos [Hrem Ht0]]].
  apply Forall_app. split.
  - destruct Ht0 as [->|[-> Hne]]; [constructor|]. constructor; [|constructor]. left. split; [reflexivity|exact Hne].
  - eapply Forall_impl; [|apply (plan_loop_rosters _ _ _ _ _ _ Hl)]. intros t Ht. right. exact Ht.
Qed.

(* a task is made of eligible segments of the sorted input; it is either the empties task
   (every live size <= 0) or a roster (every live size > 0, sum below the maximum) *)
Lemma task_cases o l ts t :
  plan_with score o l = Ok (Some ts) -> In t ts ->
  t <> [] /\ subseq t (eligibles o (sort_segs l)) /\
  (Forall (fun s => seg_live s <= 0) t \/
   (Forall (small_pos o) t /\ exists l', Forall (small_pos o) l' /\ t = build_roster o l' 0 0)).
Proof.
  intros Hp Ht. destruct (plan_with_shape _ _ _ _ Hp) as [_ [b [_ Hshape]]].
  pose proof (shape_rosters _ _ _ _ Hshape) as Hf. rewrite Forall_forall in Hf. specialize (Hf t Ht).
  destruct (loop_start o (sort_segs l)) as [tasks0 el'] eqn:Es. cbn [snd] in Hf.
  destruct (loop_start_spec _ _ _ _ Es) as [Hsub [Hpos [_ _]]].
  destruct Hf as [[-> Hne]|Hr].
  - split; [exact Hne|]. split; [apply subseq_filter|]. left.
    rewrite Forall_forall. intros s Hs. apply empties_In in Hs. tauto.
  - pose proof (is_roster_subseq _ _ _ Hr) as Hts. destruct Hr as [Hne [l' [Hl' Heq]]].
    split; [exact Hne|]. split; [eapply subseq_trans; eassumption|]. right.
    split; [eapply subseq_Forall; eassumption|]. exists l'. split; [eapply subseq_Forall; eassumption|exact Heq].
Qed.

Theorem plan_terminates_all o l : exists p, plan score o l = Ok p.
Proof. unfold plan. apply plan_with_terminates. Qed.

Theorem plan_perm_invariant o l l' :
  Permutation l l' -> NoDup (ids l) -> plan score o l = plan score o l'.
Proof.
  intros Hp Hnd. unfold plan. rewrite !plan_with_unfold.
  assert (E : zlen l = zlen l') by (unfold zlen; rewrite (Permutation_length Hp); reflexivity).
  rewrite E, (sort_perm_invariant l l' Hp Hnd). reflexivity.
Qed.

Theorem tasks_subset_input_all o l ts :
  plan score o l = Ok (Some ts) -> forall t s, In t ts -> In s t -> In s l.
Proof.
  unfold plan. intros Hp t s Ht Hs.
  destruct (task_cases _ _ _ _ Hp Ht) as [_ [Hsub _]].
  apply sort_In. apply (subseq_incl _ _ (eligibles_subseq (effective o) (sort_segs l))).
  apply (subseq_incl _ _ Hsub). exact Hs.
Qed.

Theorem tasks_disjoint_all o l ts :
  NoDup (ids l) -> plan score o l = Ok (Some ts) -> NoDup (ids (concat ts)).
Proof.
  unfold plan. intros Hnd Hp. destruct (plan_with_shape _ _ _ _ Hp) as [_ [b [_ Hshape]]].
  apply (shape_tasks _ _ _ _ _ Hshape). apply sort_NoDup. exact Hnd.
Qed.

Theorem tasks_nonempty_all o l ts : plan score o l = Ok (Some ts) -> Forall (fun t => t <> []) ts.
Proof.
  unfold plan. intros Hp. rewrite Forall_forall. intros t Ht. apply (task_cases _ _ _ _ Hp Ht).
Qed.

Theorem task_size_bound_all o l ts :
  0 < o_max_size (effective o) <= plan_max_segment_size_limit ->
  plan score o l = Ok (Some ts) ->
  forall t, In t ts ->
    (Forall (fun s => seg_live s <= 0) t /\ sum_live t <= 0) \/
    (Forall (fun s => 0 < seg_live s) t /\ 0 < sum_live t < o_max_size (effective o)).
Proof.
  unfold plan. intros Hmax Hp t Ht.
  destruct (task_cases _ _ _ _ Hp Ht) as [Hne [_ [Hem|[Hpos [l' [Hl' Heq]]]]]].
  - left. split; [exact Hem|apply sum_live_nonpos; exact Hem].
  - right. split.
    + eapply Forall_impl; [|exact Hpos]. unfold small_pos. intros; lia.
    + pose proof (build_roster_sum (effective o) l' Hmax Hl' 0 0 ltac:(lia)) as Hb. rewrite <- Heq in Hb.
      split; [|lia]. destruct t as [|s t']; [contradiction|]. inversion Hpos as [|? ? Hs Hrest]; subst.
      unfold small_pos in Hs. cbn [sum_live fold_right].
      assert (0 <= sum_live t'); [|unfold sum_live in *; lia].
      clear - Hrest. induction Hrest as [|x xs Hx _ IH]; cbn [sum_live fold_right]; [lia|]. unfold small_pos in Hx. unfold sum_live in IH. lia.
Qed.

Theorem only_small_segments_all o l ts :
  plan score o l = Ok (Some ts) ->
  forall t s, In t ts -> In s t -> seg_live s < half_max (effective o).
Proof.
  unfold plan. intros Hp t s Ht Hs.
  destruct (task_cases _ _ _ _ Hp Ht) as [_ [Hsub _]].
  apply (subseq_incl _ _ Hsub) in Hs. apply eligibles_In in Hs. tauto.
Qed.

(* on return: every eligible segment is planned, or the number of eligible segments left plus
   the number of tasks is within the budget ("no roster possible" cannot happen with sane options) *)
Theorem plan_postcondition_all o l ts :
  sane_options (effective o) ->
  plan score o l = Ok (Some ts) ->
  exists b, budget_of (effective o) (sort_segs l) = Ok b /\
    let rest := remove_segs (eligibles (effective o) (sort_segs l)) (concat ts) in
    rest = [] \/ zlen rest + zlen ts <= b.
Proof.
  unfold plan. intros Hsane Hp. destruct (plan_with_shape _ _ _ _ Hp) as [_ [b [Hb Hshape]]].
  exists b. split; [exact Hb|]. cbv zeta.
  destruct Hshape as [tasks0 [tl [el' [Hs [Hl ->]]]]].
  destruct (loop_start_spec _ _ _ _ Hs) as [Hsub [Hpos [Hrem Ht0]]].
  rewrite concat_app, <- remove_segs_app, <- Hrem.
  pose proof (plan_loop_post _ _ _ _ _ _ _ Hl) as Hpost. cbv zeta in Hpost.
  set (rest := remove_segs el' (concat tl)) in *.
  assert (Hrp : Forall (small_pos (effective o)) rest) by (eapply subseq_Forall; [apply remove_segs_subseq|exact Hpos]).
  destruct Hpost as [Hov|Hno].
  - unfold over_budget in Hov. rewrite zlen_app.
    destruct rest as [|x xs] eqn:Er; [left; reflexivity|]. right.
    rewrite zlen_cons in *. pose proof (zlen_nonneg xs). lia.
  - left. destruct rest as [|x xs] eqn:Er; [reflexivity|]. exfalso.
    apply (all_rosters_nonempty (effective o) (x :: xs) Hsane Hrp); [discriminate|exact Hno].
Qed.

End Theorems.
