(* MergePlan/BudgetProofs.v — proofs about the CalcBudget model (MergePlan/Budget.v):
   the binary-fuel iterator is plain iteration, the loop always ends within its fuel, the
   budget is logarithmic in totalSize for growth factors with an effective ratio a/b > 1
   (in particular every integer growth >= 2), linear in general, and NOT logarithmic for
   fractional growths whose first tiers never grow (witness). *)
From Coq Require Import ZArith QArith Qround List Bool Lia.
From Coq Require Import ZifyBool.
From Bluge Require Import Base.Res MergePlan.Budget.
Import ListNotations.
Open Scope Z_scope.

(* ---------- the iterator ---------- *)

Lemma budget_step_done M g b : budget_step M g (BDone b) = BDone b.
Proof. reflexivity. Qed.

Lemma pos_iter_done M g p b : Pos.iter (budget_step M g) (BDone b) p = BDone b.
Proof.
  apply (Pos.iter_invariant p _ (budget_step M g) (fun s => s = BDone b)); [|reflexivity].
  intros x Hx. subst x. reflexivity.
Qed.

Lemma iter_stop_is_iter M g p : forall s, iter_stop M g p s = Pos.iter (budget_step M g) s p.
Proof.
  induction p as [p IH|p IH|]; intros s.
  - destruct s as [t ti a|b].
    + cbn [iter_stop Pos.iter]. rewrite !IH. rewrite <- Pos.iter_swap. rewrite <- Pos.iter_swap. reflexivity.
    + cbn [iter_stop]. symmetry. apply pos_iter_done.
  - destruct s as [t ti a|b].
    + cbn [iter_stop Pos.iter]. rewrite !IH. reflexivity.
    + cbn [iter_stop]. symmetry. apply pos_iter_done.
  - destruct s; reflexivity.
Qed.

(* an invariant of the loop body holds of the final state *)
Lemma iter_stop_invariant M g (Inv : bstate -> Prop) :
  (forall s, Inv s -> Inv (budget_step M g s)) ->
  forall p s, Inv s -> Inv (iter_stop M g p s).
Proof.
  intros Hstep p s Hs. rewrite iter_stop_is_iter. apply Pos.iter_invariant; assumption.
Qed.

(* ---------- clamps ---------- *)

Lemma clamp_tier_ge1 f : 1 <= clamp_tier f.
Proof. unfold clamp_tier. destruct (f <? 1) eqn:E; lia. Qed.
Lemma clamp_per_tier_ge1 m : 1 <= clamp_per_tier m.
Proof. unfold clamp_per_tier. destruct (m <? 1) eqn:E; lia. Qed.
Lemma clamp_growth_ge1 g : (1 <= clamp_growth g)%Q.
Proof.
  unfold clamp_growth. destruct (Qle_bool 1 g) eqn:E.
  - apply Qle_bool_iff. exact E.
  - apply Qle_refl.
Qed.
Lemma clamp_tier_id f : 1 <= f -> clamp_tier f = f.
Proof. unfold clamp_tier. intros H. destruct (f <? 1) eqn:E; lia. Qed.
Lemma clamp_per_tier_id m : 1 <= m -> clamp_per_tier m = m.
Proof. unfold clamp_per_tier. intros H. destruct (m <? 1) eqn:E; lia. Qed.
Lemma clamp_growth_id g : (1 <= g)%Q -> clamp_growth g = g.
Proof. unfold clamp_growth. intros H. apply Qle_bool_iff in H. rewrite H. reflexivity. Qed.

(* int64(float64(tier)*g) >= tier when g >= 1 *)
Lemma next_tier_ge tier g : (1 <= g)%Q -> 0 <= tier -> tier <= next_tier tier g.
Proof.
  intros Hg Ht. unfold next_tier.
  rewrite <- (Qfloor_Z tier) at 1. apply Qfloor_resp_le.
  setoid_replace (inject_Z tier) with (inject_Z tier * 1)%Q at 1 by ring.
  rewrite (Qmult_comm (inject_Z tier) 1), (Qmult_comm (inject_Z tier) g).
  apply Qmult_le_compat_r; [exact Hg|].
  unfold Qle. simpl. lia.
Qed.

(* for an integer growth the next tier is the product *)
Lemma next_tier_int tier G : next_tier tier (inject_Z G) = tier * G.
Proof.
  unfold next_tier. rewrite <- inject_Z_mult. apply Qfloor_Z.
Qed.

Lemma cdiv_le_M t tier M : 0 < tier -> t < M * tier -> cdiv t tier <= M.
Proof.
  intros Ht H. unfold cdiv.
  assert (E : (t + tier - 1) / tier < M + 1); [|lia].
  apply Z.div_lt_upper_bound; lia.
Qed.

Lemma cdiv_pos t tier : 0 < tier -> 0 < t -> 1 <= cdiv t tier.
Proof.
  intros Ht H. unfold cdiv.
  apply Z.div_le_lower_bound; lia.
Qed.

(* c = ceil(t/tier): (c-1)*tier < t *)
Lemma cdiv_spec t tier : 0 < tier -> (cdiv t tier - 1) * tier < t.
Proof.
  intros Ht. unfold cdiv.
  pose proof (Z.div_mod (t + tier - 1) tier ltac:(lia)) as E.
  pose proof (Z.mod_pos_bound (t + tier - 1) tier Ht) as B.
  nia.
Qed.

(* ---------- termination: the fuel total+1 always suffices ---------- *)

Definition run_bound (total0 : Z) (n : Z) (s : bstate) : Prop :=
  match s with
  | BDone _ => True
  | BRun t tier _ => 1 <= tier /\ 0 <= t <= total0 - n
  end.

Lemma step_first M g total0 tier :
  1 <= M -> (1 <= g)%Q -> 1 <= tier ->
  run_bound total0 1 (budget_step M g (BRun total0 tier 0)).
Proof.
  intros HM Hg Ht. cbn [budget_step].
  destruct (total0 <=? 0) eqn:E1; [exact I|].
  destruct (total0 <? M * tier) eqn:E2; [exact I|].
  cbn [run_bound]. pose proof (next_tier_ge tier g Hg ltac:(lia)). nia.
Qed.

Lemma step_next M g total0 n s :
  1 <= M -> (1 <= g)%Q ->
  run_bound total0 n s -> run_bound total0 (n + 1) (budget_step M g s).
Proof.
  intros HM Hg Hs. destruct s as [t tier acc|b]; [|exact I].
  cbn [run_bound] in Hs. destruct Hs as [Ht [Hlo Hhi]].
  cbn [budget_step].
  destruct (t <=? 0) eqn:E1; [exact I|].
  destruct (t <? M * tier) eqn:E2; [exact I|].
  cbn [run_bound]. pose proof (next_tier_ge tier g Hg ltac:(lia)). nia.
Qed.

Lemma run_bound_iter M g total0 tier :
  1 <= M -> (1 <= g)%Q -> 1 <= tier ->
  forall p, run_bound total0 (Zpos p) (Pos.iter (budget_step M g) (BRun total0 tier 0) p).
Proof.
  intros HM Hg Ht p. induction p as [|p IH] using Pos.peano_ind.
  - cbn [Pos.iter]. apply step_first; assumption.
  - rewrite Pos.iter_succ. rewrite Pos2Z.inj_succ. unfold Z.succ.
    apply step_next; assumption.
Qed.

Theorem calc_budget_terminates total first M g : exists b, calc_budget total first M g = Ok b.
Proof.
  unfold calc_budget. rewrite iter_stop_is_iter.
  pose proof (run_bound_iter (clamp_per_tier M) (clamp_growth g) total (clamp_tier first)
                (clamp_per_tier_ge1 M) (clamp_growth_ge1 g) (clamp_tier_ge1 first)
                (Z.to_pos (total + 1))) as H.
  destruct (Pos.iter _ _ _) as [t tier acc|b]; [|eexists; reflexivity].
  exfalso. cbn [run_bound] in H. destruct H as [_ [Hlo Hhi]].
  destruct (Z_le_gt_dec 0 total) as [Hp|Hn].
  - rewrite Z2Pos.id in Hhi by lia. lia.
  - (* total < 0: one step ends the loop, so the state cannot be BRun with 0 <= t <= total-1 *)
    assert (Zpos (Z.to_pos (total + 1)) >= 1) by lia. lia.
Qed.

(* the result satisfies every invariant of the loop body that holds initially *)
Lemma calc_budget_invariant (Inv : bstate -> Prop) total first M g b :
  (forall s, Inv s -> Inv (budget_step (clamp_per_tier M) (clamp_growth g) s)) ->
  Inv (BRun total (clamp_tier first) 0) ->
  calc_budget total first M g = Ok b -> Inv (BDone b).
Proof.
  intros Hstep H0 Hc. unfold calc_budget in Hc.
  pose proof (iter_stop_invariant _ _ Inv Hstep (Z.to_pos (total + 1)) _ H0) as H.
  destruct (iter_stop _ _ _ _) as [t tier acc|b']; [discriminate|].
  inversion Hc. subst. exact H.
Qed.

Theorem calc_budget_nonneg total first M g b : calc_budget total first M g = Ok b -> 0 <= b.
Proof.
  apply (calc_budget_invariant
           (fun s => match s with BDone r => 0 <= r | BRun t tier acc => 1 <= tier /\ 0 <= acc end)).
  - intros s Hs. destruct s as [t tier acc|r]; [|exact Hs]. destruct Hs as [Ht Ha].
    pose proof (clamp_per_tier_ge1 M) as HM.
    cbn [budget_step]. destruct (t <=? 0) eqn:E1; [exact Ha|].
    destruct (t <? _) eqn:E2.
    + pose proof (cdiv_pos t tier ltac:(lia) ltac:(lia)). lia.
    + split; [|lia]. pose proof (next_tier_ge tier _ (clamp_growth_ge1 g) ltac:(lia)). lia.
  - split; [apply clamp_tier_ge1|lia].
Qed.

Lemma iter_stop_done M g p b : iter_stop M g p (BDone b) = BDone b.
Proof. destruct p; reflexivity. Qed.

Theorem calc_budget_zero total first M g : total <= 0 -> calc_budget total first M g = Ok 0.
Proof.
  intros H. unfold calc_budget. rewrite iter_stop_is_iter.
  assert (E : forall p, Pos.iter (budget_step (clamp_per_tier M) (clamp_growth g))
                                 (BRun total (clamp_tier first) 0) p = BDone 0).
  { intros p. induction p as [|p IH] using Pos.peano_ind.
    - cbn [Pos.iter budget_step]. destruct (total <=? 0) eqn:E; [reflexivity|lia].
    - rewrite Pos.iter_succ, IH. reflexivity. }
  rewrite E. reflexivity.
Qed.

(* a positive total needs at least one segment *)
Theorem calc_budget_pos total first M g b : 0 < total -> calc_budget total first M g = Ok b -> 1 <= b.
Proof.
  intros Hpos.
  apply (calc_budget_invariant
           (fun s => match s with
                     | BDone r => 1 <= r
                     | BRun t tier acc => 1 <= tier /\ 0 <= acc /\ (0 < t \/ 1 <= acc)
                     end)).
  - intros s Hs. destruct s as [t tier acc|r]; [|exact Hs]. destruct Hs as [Ht [Ha Hor]].
    pose proof (clamp_per_tier_ge1 M) as HM.
    cbn [budget_step]. destruct (t <=? 0) eqn:E1; [lia|].
    destruct (t <? _) eqn:E2.
    + pose proof (cdiv_pos t tier ltac:(lia) ltac:(lia)). lia.
    + pose proof (next_tier_ge tier _ (clamp_growth_ge1 g) ltac:(lia)). lia.
  - pose proof (clamp_tier_ge1 first). lia.
Qed.

Theorem calc_budget_sign total first M g b :
  calc_budget total first M g = Ok b -> 0 <= b /\ (0 < total -> 1 <= b) /\ (total <= 0 -> b = 0).
Proof.
  intros H. split; [eapply calc_budget_nonneg; exact H|]. split.
  - intros Hp. eapply calc_budget_pos; eassumption.
  - intros Hn. rewrite (calc_budget_zero total first M g Hn) in H. inversion H. reflexivity.
Qed.

(* ---------- the general (linear) bound: budget <= ceil(total/first) ---------- *)

Theorem budget_linear_bound_all total first M g b :
  0 <= total -> 1 <= first ->
  calc_budget total first M g = Ok b -> b * first < total + first.
Proof.
  intros Htot Hfirst.
  pose (f := first).
  apply (calc_budget_invariant
           (fun s => match s with
                     | BDone r => r * f < total + f
                     | BRun t tier acc => f <= tier /\ 0 <= t /\ 0 <= acc /\ acc * f + t <= total
                     end)).
  - intros s Hs. destruct s as [t tier acc|r]; [|exact Hs]. destruct Hs as [Ht [Hlo [Ha Hsum]]].
    pose proof (clamp_per_tier_ge1 M) as HM. set (m := clamp_per_tier M) in *.
    cbn [budget_step]. destruct (t <=? 0) eqn:E1; [nia|].
    destruct (t <? _) eqn:E2.
    + pose proof (cdiv_spec t tier ltac:(lia)) as Hc.
      pose proof (cdiv_pos t tier ltac:(lia) ltac:(lia)) as Hc1.
      set (c := cdiv t tier) in *.
      assert ((c - 1) * f <= (c - 1) * tier) by nia. nia.
    + pose proof (next_tier_ge tier _ (clamp_growth_ge1 g) ltac:(lia)).
      repeat split; try nia.
  - rewrite (clamp_tier_id first Hfirst). unfold f. lia.
Qed.

(* ---------- the logarithmic bound ----------
   Effective growth a/b: every tier t >= first satisfies  b * next_tier t g >= a * t.
   Then total * b^k < M * first * a^k  implies  budget <= M * (k+1):
   the integer form of  M * (ceil(log_{a/b}(total / (M*first))) + 1). *)
Section LogBound.
  Variables (M first a b : Z) (g : Q) (total : Z) (k : nat).
  Hypothesis HM : 1 <= M.
  Hypothesis Hfirst : 1 <= first.
  Hypothesis Hg : (1 <= g)%Q.
  Hypothesis Ha : 0 < a.
  Hypothesis Hb : 0 < b.
  Hypothesis Hgrow : forall t, first <= t -> a * t <= b * next_tier t g.
  Hypothesis Htotal : total * b ^ Z.of_nat k < M * first * a ^ Z.of_nat k.

  Definition log_inv (s : bstate) : Prop :=
    match s with
    | BDone r => r <= M * (Z.of_nat k + 1)
    | BRun t tier acc =>
        exists j : nat, (j <= k)%nat /\ acc = M * Z.of_nat j /\ first <= tier /\
                        first * a ^ Z.of_nat j <= tier * b ^ Z.of_nat j /\ t <= total
    end.

  Lemma log_inv_step s : log_inv s -> log_inv (budget_step M g s).
  Proof.
    destruct s as [t tier acc|r]; [|exact (fun H => H)].
    intros [j [Hjk [Hacc [Htier [Hpow Ht]]]]].
    cbn [budget_step].
    destruct (t <=? 0) eqn:E1.
    { cbn [log_inv]. subst acc. nia. }
    destruct (t <? M * tier) eqn:E2.
    { cbn [log_inv]. pose proof (cdiv_le_M t tier M ltac:(lia) ltac:(lia)). subst acc. nia. }
    (* a full tier: j < k, otherwise M*tier > total >= t *)
    assert (Hbj : 0 < b ^ Z.of_nat j) by (apply Z.pow_pos_nonneg; lia).
    assert (Haj : 0 < a ^ Z.of_nat j) by (apply Z.pow_pos_nonneg; lia).
    assert (Hlt : (j < k)%nat).
    { destruct (Nat.eq_dec j k) as [->|Hne]; [|lia]. exfalso.
      assert (H1 : M * (first * a ^ Z.of_nat k) <= M * (tier * b ^ Z.of_nat k)) by nia.
      assert (H2 : total * b ^ Z.of_nat k < M * tier * b ^ Z.of_nat k) by nia.
      assert (H3 : t * b ^ Z.of_nat k <= total * b ^ Z.of_nat k) by nia.
      assert (H4 : t * b ^ Z.of_nat k < (M * tier) * b ^ Z.of_nat k) by lia.
      assert (t < M * tier) by (apply (proj2 (Z.mul_lt_mono_pos_r (b ^ Z.of_nat k) t (M * tier) Hbj)); exact H4). lia. }
    cbn [log_inv]. exists (S j). split; [lia|]. split; [subst acc; lia|].
    pose proof (next_tier_ge tier g Hg ltac:(lia)) as Hnt.
    split; [lia|]. split; [|nia].
    rewrite Nat2Z.inj_succ. rewrite !Z.pow_succ_r by lia.
    pose proof (Hgrow tier Htier) as Hgr.
    (* first * (a * a^j) <= a * (tier * b^j) <= b * next * b^j *)
    assert (H1 : a * (first * a ^ Z.of_nat j) <= a * (tier * b ^ Z.of_nat j)) by nia.
    assert (H2 : (a * tier) * b ^ Z.of_nat j <= (b * next_tier tier g) * b ^ Z.of_nat j) by nia.
    lia.
  Qed.

  Theorem budget_log_bound_general r :
    calc_budget total first M g = Ok r -> r <= M * (Z.of_nat k + 1).
  Proof.
    intros Hc.
    assert (E : calc_budget total first M g =
                match iter_stop M g (Z.to_pos (total + 1)) (BRun total first 0) with
                | BDone x => Ok x | BRun _ _ _ => OutOfFuel end).
    { unfold calc_budget. rewrite clamp_per_tier_id, clamp_growth_id, clamp_tier_id by assumption. reflexivity. }
    rewrite E in Hc.
    pose proof (iter_stop_invariant M g log_inv log_inv_step (Z.to_pos (total + 1)) (BRun total first 0)) as H.
    destruct (iter_stop _ _ _ _) as [t tier acc|x]; [discriminate|]. inversion Hc; subst x.
    apply H. cbn [log_inv]. exists O. cbn. split; [lia|]. split; [lia|]. split; [lia|]. split; lia.
  Qed.
End LogBound.

(* every integer growth G >= 2: total < M*first*G^k -> budget <= M*(k+1) *)
Theorem budget_log_bound_int M first G total (k : nat) r :
  1 <= M -> 1 <= first -> 2 <= G ->
  total < M * first * G ^ Z.of_nat k ->
  calc_budget total first M (inject_Z G) = Ok r -> r <= M * (Z.of_nat k + 1).
Proof.
  intros HM Hf HG Ht.
  apply (budget_log_bound_general M first G 1 (inject_Z G) total k); try lia.
  - unfold Qle. simpl. lia.
  - intros t Ht'. rewrite next_tier_int. lia.
  - rewrite Z.pow_1_l by lia. lia.
Qed.

(* the hypotheses are satisfiable and the bound is nearly reached: 39 of the allowed 40 *)
Example budget_log_bound_int_example :
  calc_budget (10 * 2000 * 10 ^ 3 - 1) 2000 10 (inject_Z 10) = Ok 39 /\
  10 * 2000 * 10 ^ 3 - 1 < 10 * 2000 * 10 ^ Z.of_nat 3 /\ 39 <= 10 * (Z.of_nat 3 + 1).
Proof. vm_compute. repeat split; try reflexivity. discriminate. Qed.

(* the hypothesis of the general bound for growth 3/2 once the tiers have left {1}:
   2*floor(3t/2) >= 3t - 1 >= (5/2) t ... stated with a/b = 5/4 for t >= 2 *)
Lemma next_tier_three_halves t : 2 <= t -> 5 * t <= 4 * next_tier t (3 # 2).
Proof.
  intros Ht. unfold next_tier, Qfloor. cbn [Qmult inject_Z Qnum Qden].
  rewrite Z.mul_1_l || idtac.
  change (Zpos (1 * 2)) with 2.
  pose proof (Z.div_mod (t * 3) 2 ltac:(lia)) as E.
  pose proof (Z.mod_pos_bound (t * 3) 2 ltac:(lia)) as B. lia.
Qed.

Theorem budget_log_bound_three_halves M first total (k : nat) r :
  1 <= M -> 2 <= first ->
  total * 4 ^ Z.of_nat k < M * first * 5 ^ Z.of_nat k ->
  calc_budget total first M (3 # 2) = Ok r -> r <= M * (Z.of_nat k + 1).
Proof.
  intros HM Hf Ht.
  apply (budget_log_bound_general M first 5 4 (3 # 2) total k); try lia.
  - unfold Qle. simpl. lia.
  - intros t Ht'. apply next_tier_three_halves. lia.
Qed.

(* ... and it fails for a fractional growth when the first tier is 1: int64(1 * 1.5) = 1, the
   staircase never grows and the budget is linear in totalSize *)
Theorem budget_log_bound_fractional_refuted :
  exists M first total (g : Q) (k : nat) r,
    1 <= M /\ 1 <= first /\ (1 < g)%Q /\
    (inject_Z total < inject_Z (M * first) * g ^ Z.of_nat k)%Q /\
    calc_budget total first M g = Ok r /\ ~ r <= M * (Z.of_nat k + 1).
Proof.
  exists 1, 1, 100, (3 # 2), 12%nat, 100.
  split; [lia|]. split; [lia|]. split; [reflexivity|]. split; [reflexivity|].
  split; [vm_compute; reflexivity|]. vm_compute. intros H. apply H. reflexivity.
Qed.

(* growth 1 (and every growth clamped to 1): the exact linear value for a total that is a
   multiple of M*first *)
Example budget_growth_one_linear :
  calc_budget 100000 10 1 1 = Ok 10000 /\ calc_budget 100000 10 1 (1 # 2) = Ok 10000.
Proof. vm_compute. split; reflexivity. Qed.
