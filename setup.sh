#!/bin/sh
# Offline setup after a fresh restore: build the translator, regenerate coq/Gen from /repo,
# build the whole Coq development (full .vo build) and the Go harness.
set -e
cd "$(dirname "$0")"
export GOFLAGS=-mod=mod GOPROXY=off GOSUMDB=off GOTOOLCHAIN=local
mkdir -p bin work evidence replays
python3 - <<'PY'
import sys, os
sys.path.insert(0, os.path.join(os.getcwd(), "lib"))
import vcheck
rc, out = vcheck.build_tools()
if rc != 0:
    print(out); sys.exit(1)
ok, msg = vcheck.tgen()
if not ok:
    print("T-gen failed:", msg); sys.exit(1)
vcheck.coq_project()
rc, out, w = vcheck.run(["make", "-j16"], cwd=vcheck.COQ, timeout=7000)
print(out[-3000:])
if rc != 0:
    sys.exit(1)
rc, out, w = vcheck.build_harness()
if rc != 0:
    print(out); sys.exit(1)
print("setup ok")
PY
