// Package sim provides a simulated index.Directory (SimDir) with recording, gating, fault
// injection and crash images, and the Recorder that linearises everything observed about a
// writer: directory operations, the verif trace events of /repo/index (root replacements,
// introductions, persister grab/ack), batch calls/returns, callbacks, reader use.
package sim

import (
	"bytes"
	"fmt"
	"io"
	"os"
	"path/filepath"
	"sort"
	"strings"
	"sync"

	"github.com/blugelabs/bluge/index"
	segment "github.com/blugelabs/bluge_segment_api"
)

// Event is one entry of the linearised log.
type Event struct {
	Seq  int
	Kind string // dir ops: persist-start persist-ok persist-err remove-ok remove-err load-ok load-err list lock unlock close-handle
	//              writer: root intro-segment intro-merge grab persisted
	//              client: batch-call batch-ret callback async-error reader-open reader-close writer-close-start writer-closed
	Item  string // ".seg" / ".snp"
	ID    uint64
	Bytes []byte
	Err   string
	Batch int // batch sequence number for client events
	V     *index.VerifEvent
	Note  string
}

type Recorder struct {
	mu     sync.Mutex
	Events []*Event
}

func (r *Recorder) Add(e *Event) *Event {
	r.mu.Lock()
	e.Seq = len(r.Events)
	r.Events = append(r.Events, e)
	r.mu.Unlock()
	return e
}

func (r *Recorder) Len() int {
	r.mu.Lock()
	defer r.mu.Unlock()
	return len(r.Events)
}

func (r *Recorder) Snapshot() []*Event {
	r.mu.Lock()
	defer r.mu.Unlock()
	return append([]*Event{}, r.Events...)
}

// Op is a directory operation about to execute; gates and fault plans look at it.
type Op struct {
	N    int    // per-directory operation counter (0-based)
	Op   string // persist load remove list lock unlock
	Item string
	ID   uint64
}

// Fault tells Persist/Load/Remove/List to fail.
type Fault struct {
	Err error
	// for persist: how much of the item the writer had produced when the failure hit
	// ("before" = nothing, "partial", "after" = everything); a correct directory leaves no file.
	When string
}

func key(item string, id uint64) string { return fmt.Sprintf("%s/%016x", item, id) }

type SimDir struct {
	mu      sync.Mutex
	Files   map[string][]byte
	locked  bool
	Rec     *Recorder
	nops    int
	Gate    func(op Op)        // called before an operation executes, outside the lock; may block
	FaultAt func(op Op) *Fault // consulted once per operation
	handles int
	Open    map[int]string // open handles (load without close)
	// LockedElsewhere simulates another process holding the directory lock
	LockedElsewhere bool
	// Pinned: files mapped by open handles cannot be removed (shared flock of the real directory)
	PinOpen bool
	// PoisonOnClose: closing a handle wipes the bytes Load handed out (the real directory unmaps them)
	PoisonOnClose bool
}

func NewSimDir(rec *Recorder) *SimDir {
	return &SimDir{Files: map[string][]byte{}, Rec: rec, Open: map[int]string{}, PinOpen: true}
}

// Image returns a deep copy of the current files.
func (d *SimDir) Image() map[string][]byte {
	d.mu.Lock()
	defer d.mu.Unlock()
	out := make(map[string][]byte, len(d.Files))
	for k, v := range d.Files {
		out[k] = append([]byte{}, v...)
	}
	return out
}

// FromImage builds a fresh directory holding a copy of the image.
func FromImage(img map[string][]byte, rec *Recorder) *SimDir {
	d := NewSimDir(rec)
	for k, v := range img {
		d.Files[k] = append([]byte{}, v...)
	}
	return d
}

func (d *SimDir) begin(op, item string, id uint64) (Op, *Fault) {
	d.mu.Lock()
	o := Op{N: d.nops, Op: op, Item: item, ID: id}
	d.nops++
	d.mu.Unlock()
	if d.Gate != nil {
		d.Gate(o)
	}
	var f *Fault
	if d.FaultAt != nil {
		f = d.FaultAt(o)
	}
	return o, f
}

func (d *SimDir) Setup(readOnly bool) error { return nil }

func (d *SimDir) List(kind string) ([]uint64, error) {
	_, f := d.begin("list", kind, 0)
	if f != nil {
		d.Rec.Add(&Event{Kind: "list-err", Item: kind, Err: f.Err.Error()})
		return nil, f.Err
	}
	d.mu.Lock()
	var rv []uint64
	for k := range d.Files {
		var id uint64
		var it string
		if n, _ := fmt.Sscanf(k, "%4s/%x", &it, &id); n == 2 && it == kind {
			rv = append(rv, id)
		}
	}
	d.mu.Unlock()
	sort.Slice(rv, func(i, j int) bool { return rv[i] > rv[j] })
	d.Rec.Add(&Event{Kind: "list", Item: kind, Note: fmt.Sprint(rv)})
	return rv, nil
}

type handle struct {
	d    *SimDir
	n    int
	once sync.Once
	name string
	data []byte // the bytes handed out by Load (a private copy)
}

func (h *handle) Close() error {
	closed := false
	h.once.Do(func() {
		closed = true
		h.d.mu.Lock()
		delete(h.d.Open, h.n)
		h.d.mu.Unlock()
		h.d.Rec.Add(&Event{Kind: "close-handle", Note: h.name, ID: uint64(h.n)})
		if h.d.PoisonOnClose {
			// the real directory unmaps the file: whoever still reads these bytes no longer sees the segment
			for i := range h.data {
				h.data[i] = 0
			}
		}
	})
	if !closed {
		h.d.Rec.Add(&Event{Kind: "double-close", Note: h.name, ID: uint64(h.n)})
	}
	return nil
}

func (d *SimDir) Load(kind string, id uint64) (*segment.Data, io.Closer, error) {
	_, f := d.begin("load", kind, id)
	if f != nil {
		d.Rec.Add(&Event{Kind: "load-err", Item: kind, ID: id, Err: f.Err.Error()})
		return nil, nil, f.Err
	}
	d.mu.Lock()
	b, ok := d.Files[key(kind, id)]
	var h *handle
	if ok {
		d.handles++
		h = &handle{d: d, n: d.handles, name: key(kind, id)}
		d.Open[h.n] = h.name
		b = append([]byte{}, b...)
		h.data = b
	}
	d.mu.Unlock()
	if !ok {
		d.Rec.Add(&Event{Kind: "load-err", Item: kind, ID: id, Err: "not found"})
		return nil, nil, fmt.Errorf("item %s %d not found", kind, id)
	}
	d.Rec.Add(&Event{Kind: "load-ok", Item: kind, ID: id, Note: fmt.Sprint(h.n)})
	return segment.NewDataBytes(b), h, nil
}

func (d *SimDir) Persist(kind string, id uint64, w index.WriterTo, closeCh chan struct{}) error {
	_, f := d.begin("persist", kind, id)
	if f != nil && f.When == "before" {
		d.Rec.Add(&Event{Kind: "persist-err", Item: kind, ID: id, Err: f.Err.Error(), Note: "before"})
		return f.Err
	}
	// the real directory opens the file with an exclusive non-blocking flock: it fails while a
	// handle (shared lock) on that name is open
	if d.PinOpen {
		d.mu.Lock()
		busy := false
		for _, name := range d.Open {
			if name == key(kind, id) {
				busy = true
			}
		}
		d.mu.Unlock()
		if busy {
			d.Rec.Add(&Event{Kind: "persist-err", Item: kind, ID: id, Err: "resource temporarily unavailable", Note: "in use"})
			return fmt.Errorf("resource temporarily unavailable")
		}
	}
	var buf bytes.Buffer
	_, err := w.WriteTo(&buf, closeCh)
	if err != nil {
		d.Rec.Add(&Event{Kind: "persist-err", Item: kind, ID: id, Err: err.Error(), Note: "writer"})
		return err
	}
	content := buf.Bytes()
	// the write is in flight from here: a crash now leaves a torn file
	d.Rec.Add(&Event{Kind: "persist-start", Item: kind, ID: id, Bytes: content})
	if f != nil {
		d.Rec.Add(&Event{Kind: "persist-err", Item: kind, ID: id, Err: f.Err.Error(), Note: f.When})
		return f.Err
	}
	d.mu.Lock()
	d.Files[key(kind, id)] = append([]byte{}, content...)
	d.mu.Unlock()
	d.Rec.Add(&Event{Kind: "persist-ok", Item: kind, ID: id})
	return nil
}

func (d *SimDir) Remove(kind string, id uint64) error {
	_, f := d.begin("remove", kind, id)
	if f != nil {
		d.Rec.Add(&Event{Kind: "remove-err", Item: kind, ID: id, Err: f.Err.Error()})
		return f.Err
	}
	d.mu.Lock()
	k := key(kind, id)
	pinned := false
	if d.PinOpen {
		for _, name := range d.Open {
			if name == k {
				pinned = true
			}
		}
	}
	_, ok := d.Files[k]
	if ok && !pinned {
		delete(d.Files, k)
	}
	d.mu.Unlock()
	if pinned {
		d.Rec.Add(&Event{Kind: "remove-err", Item: kind, ID: id, Err: "in use"})
		return fmt.Errorf("item in use")
	}
	if !ok {
		d.Rec.Add(&Event{Kind: "remove-err", Item: kind, ID: id, Err: "not found"})
		return fmt.Errorf("not found")
	}
	d.Rec.Add(&Event{Kind: "remove-ok", Item: kind, ID: id})
	return nil
}

func (d *SimDir) Stats() (uint64, uint64) {
	d.mu.Lock()
	defer d.mu.Unlock()
	var b uint64
	for _, v := range d.Files {
		b += uint64(len(v))
	}
	return uint64(len(d.Files)), b
}

func (d *SimDir) Sync() error { return nil }

func (d *SimDir) Lock() error {
	d.mu.Lock()
	defer d.mu.Unlock()
	if d.locked || d.LockedElsewhere {
		d.Rec.Add(&Event{Kind: "lock-err"})
		return fmt.Errorf("directory locked")
	}
	d.locked = true
	d.Rec.Add(&Event{Kind: "lock"})
	return nil
}

func (d *SimDir) Unlock() error {
	d.mu.Lock()
	defer d.mu.Unlock()
	d.locked = false
	d.Rec.Add(&Event{Kind: "unlock"})
	return nil
}

func (d *SimDir) Locked() bool {
	d.mu.Lock()
	defer d.mu.Unlock()
	return d.locked
}

func (d *SimDir) OpenHandles() []string {
	d.mu.Lock()
	defer d.mu.Unlock()
	var out []string
	for _, n := range d.Open {
		out = append(out, n)
	}
	sort.Strings(out)
	return out
}

// ---------------------------------------------------------------------------------------------
// RecDir: the real FileSystemDirectory behind the same recording / gating / fault-injection
// interface as SimDir.  Faults are injected at the item writer (the io.Writer handed to WriteTo
// fails before any byte, after a partial write, or after the full write) so that the directory's
// own error paths run.  After every Persist that reports success the file is read back.

type RecDir struct {
	Inner   *index.FileSystemDirectory
	Path    string
	Rec     *Recorder
	mu      sync.Mutex
	nops    int
	Gate    func(op Op)
	FaultAt func(op Op) *Fault
	handles int
	Open    map[int]string
	locked  bool
}

func NewRecDir(path string, rec *Recorder) *RecDir {
	return &RecDir{Inner: index.NewFileSystemDirectory(path), Path: path, Rec: rec, Open: map[int]string{}}
}

func (d *RecDir) begin(op, item string, id uint64) (Op, *Fault) {
	d.mu.Lock()
	o := Op{N: d.nops, Op: op, Item: item, ID: id}
	d.nops++
	d.mu.Unlock()
	if d.Gate != nil {
		d.Gate(o)
	}
	var f *Fault
	if d.FaultAt != nil {
		f = d.FaultAt(o)
	}
	return o, f
}

func (d *RecDir) fileName(kind string, id uint64) string {
	return filepath.Join(d.Path, fmt.Sprintf("%012x", id)+kind)
}

func (d *RecDir) Setup(readOnly bool) error { return d.Inner.Setup(readOnly) }

func (d *RecDir) List(kind string) ([]uint64, error) {
	_, f := d.begin("list", kind, 0)
	if f != nil {
		d.Rec.Add(&Event{Kind: "list-err", Item: kind, Err: f.Err.Error()})
		return nil, f.Err
	}
	rv, err := d.Inner.List(kind)
	if err != nil {
		d.Rec.Add(&Event{Kind: "list-err", Item: kind, Err: err.Error()})
		return nil, err
	}
	d.Rec.Add(&Event{Kind: "list", Item: kind, Note: fmt.Sprint(rv)})
	return rv, nil
}

type recHandle struct {
	d     *RecDir
	n     int
	name  string
	inner io.Closer
	once  sync.Once
}

func (h *recHandle) Close() error {
	var err error
	closed := false
	h.once.Do(func() {
		closed = true
		h.d.mu.Lock()
		delete(h.d.Open, h.n)
		h.d.mu.Unlock()
		h.d.Rec.Add(&Event{Kind: "close-handle", Note: h.name, ID: uint64(h.n)})
		if h.inner != nil {
			err = h.inner.Close()
		}
	})
	if !closed {
		h.d.Rec.Add(&Event{Kind: "double-close", Note: h.name, ID: uint64(h.n)})
	}
	return err
}

func (d *RecDir) Load(kind string, id uint64) (*segment.Data, io.Closer, error) {
	_, f := d.begin("load", kind, id)
	if f != nil {
		d.Rec.Add(&Event{Kind: "load-err", Item: kind, ID: id, Err: f.Err.Error()})
		return nil, nil, f.Err
	}
	data, closer, err := d.Inner.Load(kind, id)
	if err != nil {
		d.Rec.Add(&Event{Kind: "load-err", Item: kind, ID: id, Err: err.Error()})
		return nil, nil, err
	}
	d.mu.Lock()
	d.handles++
	h := &recHandle{d: d, n: d.handles, name: key(kind, id), inner: closer}
	d.Open[h.n] = h.name
	d.mu.Unlock()
	d.Rec.Add(&Event{Kind: "load-ok", Item: kind, ID: id, Note: fmt.Sprint(h.n)})
	return data, h, nil
}

// faultyWriterTo captures what the item writes and fails as planned.
type faultyWriterTo struct {
	inner    index.WriterTo
	fault    *Fault
	buf      bytes.Buffer
	intended []byte
	started  func()
}

type teeWriter struct {
	w      io.Writer
	buf    *bytes.Buffer
	limit  int // -1 = unlimited; fail once this many bytes went through
	err    error
	failAt int // > 0: the write that completes this many bytes passes them on and returns err
}

func (t *teeWriter) Write(p []byte) (int, error) {
	if t.limit >= 0 && t.buf.Len()+len(p) > t.limit {
		n := t.limit - t.buf.Len()
		if n < 0 {
			n = 0
		}
		if n > 0 {
			m, _ := t.w.Write(p[:n])
			t.buf.Write(p[:m])
		}
		return n, t.err
	}
	n, err := t.w.Write(p)
	t.buf.Write(p[:n])
	if err == nil && t.failAt > 0 && t.buf.Len() >= t.failAt {
		// every byte went through, and the write that carried the last one reports the error
		return n, t.err
	}
	return n, err
}

func (f *faultyWriterTo) WriteTo(w io.Writer, closeCh chan struct{}) (int64, error) {
	if f.started != nil {
		f.started()
	}
	// render the item once into memory: the recorded content of a persist is what the file is meant
	// to hold (torn variants are derived from it), whatever part of it reaches the file
	var dry bytes.Buffer
	if _, err := f.inner.WriteTo(&dry, closeCh); err != nil {
		return 0, err
	}
	f.intended = append([]byte{}, dry.Bytes()...)
	tw := &teeWriter{w: w, buf: &f.buf, limit: -1}
	if f.fault != nil && f.fault.When == "partial" {
		tw.limit = dry.Len() / 2
		tw.err = f.fault.Err
	}
	if f.fault != nil && f.fault.When == "after" && dry.Len() > 0 {
		tw.failAt = dry.Len()
		tw.err = f.fault.Err
	}
	n, err := f.inner.WriteTo(tw, closeCh)
	if err == nil && f.fault != nil && f.fault.When == "after" {
		return n, f.fault.Err
	}
	return n, err
}

func (d *RecDir) Persist(kind string, id uint64, w index.WriterTo, closeCh chan struct{}) error {
	_, f := d.begin("persist", kind, id)
	if f != nil && f.When == "before" {
		d.Rec.Add(&Event{Kind: "persist-err", Item: kind, ID: id, Err: f.Err.Error(), Note: "before"})
		return f.Err
	}
	var startEv *Event
	fw := &faultyWriterTo{inner: w, fault: f}
	fw.started = func() { startEv = d.Rec.Add(&Event{Kind: "persist-start", Item: kind, ID: id}) }
	err := d.Inner.Persist(kind, id, fw, closeCh)
	if startEv != nil {
		startEv.Bytes = fw.intended
		if startEv.Bytes == nil {
			startEv.Bytes = append([]byte{}, fw.buf.Bytes()...)
		}
	}
	if err != nil {
		d.Rec.Add(&Event{Kind: "persist-err", Item: kind, ID: id, Err: err.Error()})
		if _, serr := os.Stat(d.fileName(kind, id)); serr == nil {
			d.Rec.Add(&Event{Kind: "oracle", Note: "persist-failed-but-file-left", Item: kind, ID: id})
		}
		return err
	}
	if f != nil && f.When != "before" {
		// the item writer failed, yet the directory reported success
		d.Rec.Add(&Event{Kind: "oracle", Note: "persist-ok-although-writer-failed", Item: kind, ID: id})
	}
	got, rerr := os.ReadFile(d.fileName(kind, id))
	if rerr != nil || !bytes.Equal(got, fw.buf.Bytes()) {
		d.Rec.Add(&Event{Kind: "oracle", Note: "persist-ok-but-file-differs", Item: kind, ID: id})
	}
	d.Rec.Add(&Event{Kind: "persist-ok", Item: kind, ID: id})
	return nil
}

func (d *RecDir) Remove(kind string, id uint64) error {
	_, f := d.begin("remove", kind, id)
	if f != nil {
		d.Rec.Add(&Event{Kind: "remove-err", Item: kind, ID: id, Err: f.Err.Error()})
		return f.Err
	}
	err := d.Inner.Remove(kind, id)
	if err != nil {
		d.Rec.Add(&Event{Kind: "remove-err", Item: kind, ID: id, Err: err.Error()})
		return err
	}
	d.Rec.Add(&Event{Kind: "remove-ok", Item: kind, ID: id})
	return nil
}

func (d *RecDir) Stats() (uint64, uint64) { return d.Inner.Stats() }
func (d *RecDir) Sync() error             { return d.Inner.Sync() }

func (d *RecDir) Lock() error {
	err := d.Inner.Lock()
	if err != nil {
		d.Rec.Add(&Event{Kind: "lock-err"})
		return err
	}
	d.mu.Lock()
	d.locked = true
	d.mu.Unlock()
	d.Rec.Add(&Event{Kind: "lock"})
	return nil
}

func (d *RecDir) Unlock() error {
	err := d.Inner.Unlock()
	d.mu.Lock()
	d.locked = false
	d.mu.Unlock()
	d.Rec.Add(&Event{Kind: "unlock"})
	return err
}

func (d *RecDir) Locked() bool {
	d.mu.Lock()
	defer d.mu.Unlock()
	return d.locked
}

func (d *RecDir) OpenHandles() []string {
	d.mu.Lock()
	defer d.mu.Unlock()
	var out []string
	for _, n := range d.Open {
		out = append(out, n)
	}
	sort.Strings(out)
	return out
}

// Image reads the directory as a reopening process would find it (same keys as SimDir.Image).
func (d *RecDir) Image() map[string][]byte {
	out := map[string][]byte{}
	ents, err := os.ReadDir(d.Path)
	if err != nil {
		return out
	}
	for _, e := range ents {
		name := e.Name()
		ext := filepath.Ext(name)
		if ext != ".snp" && ext != ".seg" {
			continue
		}
		var id uint64
		if _, err := fmt.Sscanf(strings.TrimSuffix(name, ext), "%x", &id); err != nil {
			continue
		}
		b, err := os.ReadFile(filepath.Join(d.Path, name))
		if err == nil {
			out[key(ext, id)] = b
		}
	}
	return out
}
