// harness — runs the implementation (/repo, built with -tags verif) on generated
// inputs and writes correspondence cases for the Coq models.
package main

import (
	"flag"
	"fmt"
	"os"
	"sort"

	"verif/harness/engines"
)

func main() {
	if len(os.Args) < 2 {
		names := make([]string, 0)
		for n := range engines.Registry {
			names = append(names, n)
		}
		sort.Strings(names)
		fmt.Fprintln(os.Stderr, "usage: harness <engine> -seed N -tier quick|thorough -out DIR; engines:", names)
		os.Exit(2)
	}
	eng := os.Args[1]
	fs := flag.NewFlagSet(eng, flag.ExitOnError)
	seed := fs.Int64("seed", 1, "PRNG seed")
	tier := fs.String("tier", "quick", "quick|thorough")
	out := fs.String("out", "", "output directory")
	replay := fs.String("replay", "", "replay file")
	fs.Parse(os.Args[2:])
	f, ok := engines.Registry[eng]
	if !ok {
		fmt.Fprintln(os.Stderr, "unknown engine", eng)
		os.Exit(2)
	}
	if *out == "" {
		fmt.Fprintln(os.Stderr, "-out required")
		os.Exit(2)
	}
	if err := f(engines.Opts{Seed: *seed, Tier: *tier, Out: *out, Replay: *replay, Args: fs.Args()}); err != nil {
		fmt.Fprintln(os.Stderr, "engine error:", err)
		os.Exit(3)
	}
}
