// Package cq writes correspondence cases as Coq source (cases_<k>.v shards evaluated
// with vm_compute), together with cases.jsonl (one JSON object per case, same
// order), oracle.jsonl (property-predicate failures observed on the implementation)
// and stats.json (input distribution).
package cq

import (
	"bufio"
	"encoding/json"
	"fmt"
	"math/big"
	"os"
	"path/filepath"
	"sort"
	"strings"
	"time"
)

type Writer struct {
	Dir       string
	Imports   string // e.g. "From Bluge Require Import Search.NumericCorr."
	CaseType  string // Coq type of one case
	ShardSize int
	terms     []string
	metaF     *os.File
	metaW     *bufio.Writer
	oracleF   *os.File
	oracleW   *bufio.Writer
	Stats     map[string]int
	distinct  map[string]bool
	NonTriv   int
	Oracles   int
	OracleEvals int
	Samples   []interface{}
	Extra     string // further vernacular appended to every shard (e.g. a second Print)
}

func New(dir, imports, caseType string, shard int) *Writer {
	if err := os.MkdirAll(dir, 0o755); err != nil {
		panic(err)
	}
	old, _ := filepath.Glob(filepath.Join(dir, "cases_*"))
	for _, f := range old {
		os.Remove(f)
	}
	w := &Writer{Dir: dir, Imports: imports, CaseType: caseType, ShardSize: shard,
		Stats: map[string]int{}, distinct: map[string]bool{}}
	var err error
	w.metaF, err = os.Create(filepath.Join(dir, "cases.jsonl"))
	if err != nil {
		panic(err)
	}
	w.metaW = bufio.NewWriter(w.metaF)
	w.oracleF, err = os.Create(filepath.Join(dir, "oracle.jsonl"))
	if err != nil {
		panic(err)
	}
	w.oracleW = bufio.NewWriter(w.oracleF)
	return w
}

// Add appends a case.  kind feeds the distribution; nontrivial is the engine's
// rule; meta is what a reader needs to replay the case.
func (w *Writer) Add(term, kind string, nontrivial bool, meta map[string]interface{}) {
	idx := len(w.terms)
	w.terms = append(w.terms, term)
	w.Stats["kind:"+kind]++
	if meta == nil {
		meta = map[string]interface{}{}
	}
	meta["i"] = idx
	meta["kind"] = kind
	meta["nontrivial"] = nontrivial
	if !w.distinct[term] {
		w.distinct[term] = true
		if nontrivial {
			w.NonTriv++
		}
	}
	b, _ := json.Marshal(meta)
	w.metaW.Write(b)
	w.metaW.WriteByte('\n')
	if len(w.Samples) < 6 && (nontrivial || idx < 2) && w.Stats["sampled:"+kind] < 2 {
		w.Stats["sampled:"+kind]++
		w.Samples = append(w.Samples, meta)
	}
}

// OracleEval counts one evaluation of the property predicate on the implementation.
func (w *Writer) OracleEval(n int) { w.OracleEvals += n }

// OracleFail records that the property predicate failed on the implementation.
// key identifies the failing input / call site for KNOWN_FINDINGS matching.
func (w *Writer) OracleFail(key, reason string, input interface{}) {
	w.Oracles++
	b, _ := json.Marshal(map[string]interface{}{"key": key, "reason": reason, "input": input})
	w.oracleW.Write(b)
	w.oracleW.WriteByte('\n')
}

func (w *Writer) Count(k string, n int) { w.Stats[k] += n }

func (w *Writer) Close() {
	w.metaW.Flush()
	w.metaF.Close()
	w.oracleW.Flush()
	w.oracleF.Close()
	n := len(w.terms)
	shards := 0
	for s := 0; s*w.ShardSize < n || (s == 0 && n == 0); s++ {
		lo, hi := s*w.ShardSize, (s+1)*w.ShardSize
		if hi > n {
			hi = n
		}
		var sb strings.Builder
		sb.WriteString(w.Imports + "\n")
		sb.WriteString("From Coq Require Import ZArith List String. Import ListNotations. Open Scope Z_scope.\n")
		fmt.Fprintf(&sb, "Definition cases : list (%s) := [\n", w.CaseType)
		for i := lo; i < hi; i++ {
			sb.WriteString(w.terms[i])
			if i+1 < hi {
				sb.WriteString(";\n")
			}
		}
		sb.WriteString("].\n")
		sb.WriteString("Definition M := Eval vm_compute in mismatches cases.\nPrint M.\n")
		sb.WriteString(w.Extra)
		if err := os.WriteFile(filepath.Join(w.Dir, fmt.Sprintf("cases_%d.v", s)), []byte(sb.String()), 0o644); err != nil {
			panic(err)
		}
		shards++
	}
	keys := make([]string, 0, len(w.Stats))
	for k := range w.Stats {
		keys = append(keys, k)
	}
	sort.Strings(keys)
	st := map[string]interface{}{
		"cases": n, "distinct": len(w.distinct), "distinct_nontrivial": w.NonTriv,
		"shards": shards, "shard_size": w.ShardSize, "oracle_failures": w.Oracles,
		"oracle_evaluations": w.OracleEvals, "distribution": w.Stats, "samples": w.Samples,
	}
	b, _ := json.MarshalIndent(st, "", " ")
	os.WriteFile(filepath.Join(w.Dir, "stats.json"), b, 0o644)
}

// ---- Coq term printers ----

func Z(v int64) string {
	if v < 0 {
		return fmt.Sprintf("(%d)", v)
	}
	return fmt.Sprintf("%d", v)
}
func U(v uint64) string { return new(big.Int).SetUint64(v).String() }
func I(v int) string    { return Z(int64(v)) }
func Nat(v int) string  { return fmt.Sprintf("%d%%nat", v) }
func B(b bool) string {
	if b {
		return "true"
	}
	return "false"
}
func Bytes(p []byte) string {
	var sb strings.Builder
	sb.WriteByte('[')
	for i, c := range p {
		if i > 0 {
			sb.WriteByte(';')
		}
		fmt.Fprintf(&sb, "%d", c)
	}
	sb.WriteByte(']')
	return sb.String()
}
func List(items []string) string { return "[" + strings.Join(items, "; ") + "]" }
func BytesList(ps [][]byte) string {
	it := make([]string, len(ps))
	for i, p := range ps {
		it[i] = Bytes(p)
	}
	return List(it)
}
func ZList(vs []int64) string {
	it := make([]string, len(vs))
	for i, v := range vs {
		it[i] = Z(v)
	}
	return List(it)
}
func IntList(vs []int) string {
	it := make([]string, len(vs))
	for i, v := range vs {
		it[i] = I(v)
	}
	return List(it)
}
func U64List(vs []uint64) string {
	it := make([]string, len(vs))
	for i, v := range vs {
		it[i] = U(v)
	}
	return List(it)
}
func Some(s string) string { return "(Some " + s + ")" }
func None() string         { return "None" }
func Pair(a, b string) string { return "(" + a + ", " + b + ")" }
// Str prints a Go string as a list of byte values (models use list Z for strings).
func Str(s string) string { return Bytes([]byte(s)) }

// Guard runs f and reports whether it finished within d.  When it does not, the
// goroutine is left behind: the caller is expected to Abort.
func Guard(d time.Duration, f func()) (finished bool, panicked interface{}) {
	done := make(chan interface{}, 1)
	go func() {
		defer func() { done <- recover() }()
		f()
	}()
	select {
	case p := <-done:
		return true, p
	case <-time.After(d):
		return false, nil
	}
}

// Abort records an oracle failure (a hang or crash of the implementation), writes
// everything gathered so far and ends the process: the remaining goroutine cannot
// be stopped.
func (w *Writer) Abort(key, reason string, input interface{}) {
	w.OracleFail(key, reason, input)
	w.Stats["aborted"] = 1
	w.Close()
	os.Exit(0)
}
