package engines

// fsdir — property C13: the real index.FileSystemDirectory.Persist is run in a scratch
// directory under /verif/work with scripted io.WriterTo values over every prior file state
// (absent / shorter / equal / longer), the boundary sizes of the 4096-byte buffer, every failure
// point (writer error after k bytes, cancellation through closeCh, failing Truncate / Sync /
// Close / open) and both item kinds.  Observed: the returned error, the bytes left under the
// item's name, and — in a child process under strace — the system calls issued on the item,
// projected to the model's operation alphabet.  Each observation is (a) emitted as a
// correspondence case for Index/FsDirCorr.v and (b) judged directly against the property text.

import (
	"bufio"
	"encoding/json"
	"errors"
	"fmt"
	"io"
	"math/rand"
	"os"
	"os/exec"
	"path/filepath"
	"regexp"
	"strconv"
	"strings"
	"time"

	"github.com/blugelabs/bluge/index"
	"github.com/blugelabs/bluge/index/lock"

	"verif/harness/cq"
)

func init() {
	Registry["fsdir"] = runFsdir
	Registry["fsdir-child"] = runFsdirChild
}

type fsChunk struct {
	Byte byte `json:"b"`
	N    int  `json:"n"`
}

type fsScenario struct {
	Idx     int       `json:"idx"`
	Kind    string    `json:"kind"`
	ID      uint64    `json:"id"`
	Pre     int       `json:"pre"` // -1 = absent, else length of the prior file
	PreByte byte      `json:"preb"`
	Chunks  []fsChunk `json:"chunks"`
	Fail    string    `json:"fail"` // none | write | cancel | truncate | sync | close | open
	K       int       `json:"k"`    // write: bytes that reach the file before the error; cancel: chunks written before it
}

func (sc fsScenario) total() int {
	t := 0
	for _, c := range sc.Chunks {
		t += c.N
	}
	return t
}

func (sc fsScenario) want() []byte {
	out := make([]byte, 0, sc.total())
	for _, c := range sc.Chunks {
		for i := 0; i < c.N; i++ {
			out = append(out, c.Byte)
		}
	}
	return out
}

// bytes of the writer that reach the file according to the scenario's script
func (sc fsScenario) modelK() int {
	switch sc.Fail {
	case "write":
		return sc.K
	case "cancel":
		k := 0
		for i := 0; i < sc.K && i < len(sc.Chunks); i++ {
			k += sc.Chunks[i].N
		}
		return k
	}
	return -1
}

var errScripted = errors.New("scripted writer failure")
var errCancelled = errors.New("scripted writer: cancelled")

// scriptWriter is the io.WriterTo handed to Persist.
type scriptWriter struct {
	sc      fsScenario
	closeIt func() // closes closeCh (cancellation issued by "another goroutine")
}

func (s *scriptWriter) WriteTo(w io.Writer, closeCh chan struct{}) (int64, error) {
	var n int64
	for i, c := range s.sc.Chunks {
		if s.sc.Fail == "cancel" && i == s.sc.K && s.closeIt != nil {
			s.closeIt()
		}
		select {
		case <-closeCh:
			return n, errCancelled
		default:
		}
		buf := make([]byte, c.N)
		for j := range buf {
			buf[j] = c.Byte
		}
		if s.sc.Fail == "write" && n+int64(len(buf)) > int64(s.sc.K) {
			part := buf[:int64(s.sc.K)-n]
			if len(part) > 0 {
				m, err := w.Write(part)
				n += int64(m)
				if err != nil {
					return n, err
				}
			}
			return n, errScripted
		}
		m, err := w.Write(buf)
		n += int64(m)
		if err != nil {
			return n, err
		}
	}
	if s.sc.Fail == "cancel" && s.sc.K >= len(s.sc.Chunks) {
		if s.closeIt != nil {
			s.closeIt()
		}
		select {
		case <-closeCh:
			return n, errCancelled
		default:
		}
	}
	if s.sc.Fail == "write" && int64(s.sc.K) >= n {
		return n, errScripted // every byte written, then the writer reports an error
	}
	return n, nil
}

// faultFile wraps the real LockedFile: the failAt-th call of File() hands out the write end
// of a pipe (ftruncate and fsync fail on it with EINVAL, writes are drained), and Close can be
// made to report an error after really closing.
type faultFile struct {
	lock.LockedFile
	calls     *int
	failAt    int
	pipeW     *os.File
	closeErr  bool
	closeDone bool
}

func (f *faultFile) File() *os.File {
	*f.calls++
	if f.failAt > 0 && *f.calls == f.failAt {
		return f.pipeW
	}
	return f.LockedFile.File()
}

func (f *faultFile) Close() error {
	err := f.LockedFile.Close()
	if f.closeErr && !f.closeDone {
		f.closeDone = true
		return errors.New("scripted close failure")
	}
	return err
}

type fsOutcome struct {
	Err    bool
	ErrOp  string // Op of an *os.PathError
	Exists bool
	Post   []byte
	Calls  int
}

type fsCalib struct {
	TruncN int `json:"trunc"` // File() call on which Truncate happens (0 = never seen)
	SyncN  int `json:"sync"`
}

// runFsScenario performs one Persist call.  mark(…) brackets the call for the strace projection.
func runFsScenario(root string, sc fsScenario, cal fsCalib, pipeAt int, mark func(string)) (out fsOutcome, skipped bool) {
	dir := filepath.Join(root, fmt.Sprintf("s%d", sc.Idx))
	_ = os.RemoveAll(dir)
	if err := os.MkdirAll(dir, 0o755); err != nil {
		panic(err)
	}
	defer os.RemoveAll(dir)
	d := index.NewFileSystemDirectory(dir)
	path := filepath.Join(dir, index.VerifFileName(d, sc.Kind, sc.ID))
	if sc.Pre >= 0 {
		pre := make([]byte, sc.Pre)
		for i := range pre {
			pre[i] = sc.PreByte
		}
		if err := os.WriteFile(path, pre, 0o600); err != nil {
			panic(err)
		}
	}
	calls := 0
	failAt := pipeAt
	switch sc.Fail {
	case "truncate":
		failAt = cal.TruncN
		if failAt == 0 {
			return out, true
		}
	case "sync":
		failAt = cal.SyncN
		if failAt == 0 {
			return out, true
		}
	}
	var pr, pw *os.File
	if failAt > 0 {
		var err error
		pr, pw, err = os.Pipe()
		if err != nil {
			panic(err)
		}
		go func() { _, _ = io.Copy(io.Discard, pr) }()
		defer pr.Close()
		defer pw.Close()
	}
	var held lock.LockedFile
	switch {
	case sc.Fail == "open" && sc.Pre >= 0:
		// a reader holds the item: shared lock on another open file description
		var err error
		held, err = lock.OpenShared(path, os.O_RDONLY, 0)
		if err != nil {
			panic(err)
		}
		defer held.Close()
	case sc.Fail == "open":
		index.VerifSetOpenExclusive(d, func(string, int, os.FileMode) (lock.LockedFile, error) {
			return nil, errors.New("scripted open failure")
		})
	case failAt > 0 || sc.Fail == "close":
		index.VerifSetOpenExclusive(d, func(p string, flag int, perm os.FileMode) (lock.LockedFile, error) {
			f, err := lock.OpenExclusive(p, flag, perm)
			if err != nil {
				return nil, err
			}
			return &faultFile{LockedFile: f, calls: &calls, failAt: failAt, pipeW: pw, closeErr: sc.Fail == "close"}, nil
		})
	}
	closeCh := make(chan struct{})
	closed := false
	closeIt := func() {
		if !closed {
			closed = true
			close(closeCh)
		}
	}
	w := &scriptWriter{sc: sc, closeIt: closeIt}
	if mark != nil {
		mark(fmt.Sprintf("B %d\n", sc.Idx))
	}
	err := d.Persist(sc.Kind, sc.ID, w, closeCh)
	if mark != nil {
		r := 0
		if err != nil {
			r = 1
		}
		mark(fmt.Sprintf("E %d %d\n", sc.Idx, r))
	}
	out.Err = err != nil
	out.Calls = calls
	var pe *os.PathError
	if errors.As(err, &pe) {
		out.ErrOp = pe.Op
	}
	if b, rerr := os.ReadFile(path); rerr == nil {
		out.Exists, out.Post = true, b
	} else if !os.IsNotExist(rerr) {
		panic(rerr)
	}
	return out, false
}

// calibrate finds on which File() call Truncate and Sync operate (the pipe makes exactly those fail).
func fsCalibrate(root string) fsCalib {
	var cal fsCalib
	for n := 1; n <= 6; n++ {
		sc := fsScenario{Idx: 900000 + n, Kind: index.ItemKindSnapshot, ID: 1, Pre: -1, Chunks: []fsChunk{{Byte: 1, N: 3}}, Fail: "none"}
		out, _ := runFsScenario(root, sc, cal, n, nil)
		if out.Err && out.ErrOp == "truncate" && cal.TruncN == 0 {
			cal.TruncN = n
		}
		if out.Err && out.ErrOp == "sync" && cal.SyncN == 0 {
			cal.SyncN = n
		}
	}
	return cal
}

func rleOf(b []byte) []fsChunk {
	var out []fsChunk
	for _, c := range b {
		if len(out) > 0 && out[len(out)-1].Byte == c {
			out[len(out)-1].N++
		} else {
			out = append(out, fsChunk{Byte: c, N: 1})
		}
	}
	return out
}

func cqRle(r []fsChunk) string {
	it := make([]string, len(r))
	for i, c := range r {
		it[i] = cq.Pair(cq.I(int(c.Byte)), cq.I(c.N))
	}
	return cq.List(it)
}

func cqPre(sc fsScenario) string {
	if sc.Pre < 0 {
		return cq.None()
	}
	if sc.Pre == 0 {
		return cq.Some("[]")
	}
	return cq.Some(cqRle([]fsChunk{{Byte: sc.PreByte, N: sc.Pre}}))
}

func cqChunks(sc fsScenario) string {
	it := make([]string, len(sc.Chunks))
	for i, c := range sc.Chunks {
		if c.N == 0 {
			it[i] = "[]"
		} else {
			it[i] = cqRle([]fsChunk{c})
		}
	}
	return cq.List(it)
}

func cqFailure(sc fsScenario) string {
	switch sc.Fail {
	case "none":
		return "NoFail"
	case "open":
		return "FailOpen"
	case "truncate":
		return "FailTruncate"
	case "write", "cancel":
		return fmt.Sprintf("(FailWrite %d)", sc.modelK())
	case "sync":
		return "FailSync"
	case "close":
		return "FailClose"
	}
	panic("bad failure " + sc.Fail)
}

func fsScenarios(o Opts) []fsScenario {
	rng := rand.New(rand.NewSource(o.Seed))
	sizes := []int{0, 1, 4095, 4096, 4097, 3 * 4096}
	if o.Thorough() {
		sizes = append(sizes, 2, 4094, 8191, 8192, 8193, 5*4096+1, 70000)
	}
	var out []fsScenario
	idx := 0
	add := func(sc fsScenario) {
		sc.Idx = idx
		idx++
		out = append(out, sc)
	}
	for _, kind := range []string{index.ItemKindSnapshot, index.ItemKindSegment} {
		for _, size := range sizes {
			// chunkings of the item
			var chunkings [][]fsChunk
			b0 := byte(1 + rng.Intn(60))
			chunkings = append(chunkings, []fsChunk{{Byte: b0, N: size}})
			if size > 1 {
				var cs []fsChunk
				rest := size
				for i := 0; rest > 0; i++ {
					n := 4096
					if n > rest {
						n = rest
					}
					cs = append(cs, fsChunk{Byte: b0 + byte(i+1), N: n})
					rest -= n
				}
				if len(cs) == 1 {
					cs = []fsChunk{{Byte: b0 + 1, N: 1}, {Byte: b0 + 2, N: size - 1}}
				}
				chunkings = append(chunkings, cs)
				if o.Thorough() {
					a := 1 + rng.Intn(size-1)
					chunkings = append(chunkings, []fsChunk{{Byte: b0 + 3, N: a}, {Byte: b0 + 4, N: 0}, {Byte: b0 + 5, N: size - a}})
				}
			} else {
				chunkings = append(chunkings, []fsChunk{{Byte: b0 + 1, N: 0}, {Byte: b0 + 2, N: size}})
			}
			// prior states
			pres := []int{-1, size, size + 1, size + 5000}
			if size > 0 {
				pres = append(pres, size/2, size-1)
			}
			if size > 4096 {
				pres = append(pres, 4096)
			}
			for ci, chunks := range chunkings {
				for pi, pre := range pres {
					if !o.Thorough() && ci > 0 && !(pre == -1 || pre == size+5000 || pre == size-1) {
						continue // quick tier: the second chunking only over absent / longer / one-shorter priors
					}
					base := fsScenario{Kind: kind, ID: uint64(1 + rng.Intn(1<<20)), Pre: pre, PreByte: byte(200 + rng.Intn(50)), Chunks: chunks}
					if rng.Intn(8) == 0 {
						base.ID = rng.Uint64()
					}
					sc := base
					sc.Fail = "none"
					add(sc)
					// writer failures after k bytes
					seenK := map[int]bool{}
					for _, k := range []int{0, 1, size / 2, size - 1, size, 4095, 4096} {
						if k < 0 || k > size || seenK[k] {
							continue
						}
						seenK[k] = true
						// quick tier: thin out the product (every k for the first chunking and the longer priors)
						if !o.Thorough() && !(ci == 0 || pre > size) && k != size/2 {
							continue
						}
						sc := base
						sc.Fail, sc.K = "write", k
						add(sc)
					}
					for j := 0; j <= len(chunks); j++ {
						if !o.Thorough() && (pi+j)%2 == 1 {
							continue
						}
						sc := base
						sc.Fail, sc.K = "cancel", j
						add(sc)
					}
					for _, f := range []string{"truncate", "sync", "close", "open"} {
						if !o.Thorough() && ci > 0 && pre <= size {
							continue
						}
						sc := base
						sc.Fail = f
						add(sc)
					}
				}
			}
		}
	}
	return out
}

// ---- strace projection ----

type fsTraceOp struct {
	Op string // open flock ftruncate write fsync close unlink
	A  int64
}

var reStraceLine = regexp.MustCompile(`^(\d+)\s+(?:<\.\.\. (\w+) resumed>(.*)|(\w+)\((.*))$`)
var reStraceRet = regexp.MustCompile(`\)\s+= `)

// splitRet cuts "args) = ret" at the last ") = " (strace pads the "=" column).
func splitRet(rest string) (args, ret string, ok bool) {
	locs := reStraceRet.FindAllStringIndex(rest, -1)
	if len(locs) == 0 {
		return "", "", false
	}
	l := locs[len(locs)-1]
	return rest[:l[0]], rest[l[1]:], true
}

func parseOpenFlags(s string) int64 {
	var v int64
	for _, f := range strings.Split(s, "|") {
		switch strings.TrimSpace(f) {
		case "O_WRONLY":
			v |= 1
		case "O_RDWR":
			v |= 2
		case "O_CREAT":
			v |= 64
		case "O_EXCL":
			v |= 128
		case "O_TRUNC":
			v |= 512
		case "O_APPEND":
			v |= 1024
		}
	}
	return v
}

// projectStrace returns, per scenario index, the operations on the item's file between the
// B and E markers, and whether E reported success.
func projectStrace(tracePath, markerPath string) (map[int][]fsTraceOp, map[int]bool, error) {
	f, err := os.Open(tracePath)
	if err != nil {
		return nil, nil, err
	}
	defer f.Close()
	ops := map[int][]fsTraceOp{}
	okm := map[int]bool{}
	markerFd := int64(-1)
	cur := -1
	itemFd := int64(-1)
	type pend struct {
		name string
		args string
	}
	pending := map[string]pend{} // pid -> unfinished call
	sc := bufio.NewScanner(f)
	sc.Buffer(make([]byte, 1<<20), 1<<20)
	handle := func(name, args, ret string) {
		retv, _ := strconv.ParseInt(strings.Fields(strings.TrimSpace(ret) + " x")[0], 10, 64)
		switch name {
		case "openat":
			parts := strings.SplitN(args, ", ", 4)
			if len(parts) < 3 {
				return
			}
			p := strings.Trim(parts[1], `"`)
			if p == markerPath {
				markerFd = retv
				return
			}
			if cur >= 0 && retv >= 0 && strings.Contains(p, fmt.Sprintf("/s%d/", cur)) && !strings.HasSuffix(p, "/") {
				itemFd = retv
				ops[cur] = append(ops[cur], fsTraceOp{"open", parseOpenFlags(parts[2])})
			}
		case "write":
			parts := strings.SplitN(args, ", ", 2)
			fd, _ := strconv.ParseInt(parts[0], 10, 64)
			if fd == markerFd && len(parts) == 2 {
				m := regexp.MustCompile(`^"([BE]) (\d+)(?: (\d))?\\n"`).FindStringSubmatch(parts[1])
				if m != nil {
					i, _ := strconv.Atoi(m[2])
					if m[1] == "B" {
						cur, itemFd = i, -1
						ops[i] = []fsTraceOp{}
					} else {
						okm[i] = m[3] == "0"
						cur, itemFd = -1, -1
					}
				}
				return
			}
			if cur >= 0 && fd == itemFd && retv > 0 {
				l := ops[cur]
				if len(l) > 0 && l[len(l)-1].Op == "write" {
					l[len(l)-1].A += retv
				} else {
					l = append(l, fsTraceOp{"write", retv})
				}
				ops[cur] = l
			}
		case "pwrite64":
			fd, _ := strconv.ParseInt(strings.SplitN(args, ", ", 2)[0], 10, 64)
			if cur >= 0 && fd == itemFd {
				ops[cur] = append(ops[cur], fsTraceOp{"pwrite", retv})
			}
		case "flock", "ftruncate", "fsync", "fdatasync", "close":
			parts := strings.SplitN(strings.TrimSuffix(args, ")"), ", ", 2)
			fd, _ := strconv.ParseInt(strings.TrimSuffix(parts[0], ")"), 10, 64)
			if cur >= 0 && fd == itemFd && itemFd >= 0 {
				var a int64
				if name == "ftruncate" && len(parts) == 2 {
					a, _ = strconv.ParseInt(strings.TrimSuffix(strings.TrimSpace(parts[1]), ")"), 10, 64)
				}
				if retv == 0 || name == "close" {
					ops[cur] = append(ops[cur], fsTraceOp{name, a})
				}
				if name == "close" {
					itemFd = -2
				}
			}
		case "unlink", "unlinkat":
			if cur >= 0 && retv == 0 && strings.Contains(args, fmt.Sprintf("/s%d/", cur)) {
				ops[cur] = append(ops[cur], fsTraceOp{"unlink", 0})
			}
		}
	}
	for sc.Scan() {
		m := reStraceLine.FindStringSubmatch(sc.Text())
		if m == nil {
			continue
		}
		pid := m[1]
		if m[2] != "" { // resumed
			p, ok := pending[pid]
			if !ok || p.name != m[2] {
				continue
			}
			delete(pending, pid)
			a, r, ok := splitRet(m[3])
			if !ok {
				continue
			}
			handle(p.name, p.args+a, r)
			continue
		}
		name, rest := m[4], m[5]
		if strings.HasSuffix(rest, "<unfinished ...>") {
			pending[pid] = pend{name, strings.TrimSuffix(rest, " <unfinished ...>")}
			continue
		}
		a, r, ok := splitRet(rest)
		if !ok {
			continue
		}
		handle(name, a, r)
	}
	return ops, okm, sc.Err()
}

func cqTrace(l []fsTraceOp) string {
	it := make([]string, 0, len(l))
	for _, o := range l {
		switch o.Op {
		case "open":
			it = append(it, fmt.Sprintf("OpOpen %d", o.A))
		case "flock":
			it = append(it, "OpFlock")
		case "ftruncate":
			it = append(it, fmt.Sprintf("OpTruncate %d", o.A))
		case "write":
			it = append(it, fmt.Sprintf("OpWrite %d", o.A))
		case "pwrite":
			it = append(it, fmt.Sprintf("OpWrite (-%d)", o.A+1)) // never produced by the model
		case "fsync", "fdatasync":
			it = append(it, "OpFsync")
		case "close":
			it = append(it, "OpClose")
		case "unlink":
			it = append(it, "OpUnlink")
		}
	}
	return cq.List(it)
}

// flush issued on the item after its last write and before the call returned
func traceFsyncAfterLastWrite(l []fsTraceOp) bool {
	for i := len(l) - 1; i >= 0; i-- {
		switch l[i].Op {
		case "fsync":
			return true
		case "write", "pwrite", "ftruncate", "open":
			return false
		}
	}
	return false
}

func runFsdirChild(o Opts) error {
	if len(o.Args) < 2 {
		return errors.New("usage: fsdir-child -out DIR scenarios.json marker")
	}
	raw, err := os.ReadFile(o.Args[0])
	if err != nil {
		return err
	}
	var in struct {
		Root string       `json:"root"`
		Cal  fsCalib      `json:"cal"`
		Scs  []fsScenario `json:"scs"`
	}
	if err := json.Unmarshal(raw, &in); err != nil {
		return err
	}
	mf, err := os.OpenFile(o.Args[1], os.O_WRONLY|os.O_CREATE|os.O_APPEND, 0o644)
	if err != nil {
		return err
	}
	defer mf.Close()
	mark := func(s string) { _, _ = mf.Write([]byte(s)) }
	for _, sc := range in.Scs {
		runFsScenario(in.Root, sc, in.Cal, 0, mark)
	}
	return nil
}

func runFsdir(o Opts) error {
	verifDir := os.Getenv("VERIF_DIR")
	if verifDir == "" {
		verifDir = "/verif"
	}
	absOut, err := filepath.Abs(o.Out)
	if err != nil {
		return err
	}
	if !strings.HasPrefix(absOut, verifDir) {
		absOut = filepath.Join(verifDir, "work", "C13")
	}
	root := filepath.Join(absOut, "fs")
	_ = os.RemoveAll(root)
	if err := os.MkdirAll(root, 0o755); err != nil {
		return err
	}
	defer os.RemoveAll(root)

	w := cq.New(o.Out, "From Bluge Require Import Base.Res Index.FsDir Index.FsDirCorr.", "fcase", 60)
	cal := fsCalibrate(root)
	w.Count(fmt.Sprintf("calibration:truncate_call=%d,sync_call=%d", cal.TruncN, cal.SyncN), 1)
	scs := fsScenarios(o)

	describe := func(sc fsScenario) map[string]interface{} {
		return map[string]interface{}{"item": sc.Kind, "id": sc.ID, "prior_len": sc.Pre, "chunks": sc.Chunks, "fail": sc.Fail, "k": sc.K}
	}
	var traced []fsScenario
	for _, sc := range scs {
		var out fsOutcome
		var skipped bool
		fin, pan := cq.Guard(30*time.Second, func() { out, skipped = runFsScenario(root, sc, cal, 0, nil) })
		if !fin {
			w.Abort("persist-hang", "Persist did not return within 30s", describe(sc))
		}
		if pan != nil {
			w.OracleFail("persist-panic", fmt.Sprint(pan), describe(sc))
			continue
		}
		if skipped {
			w.Count("skipped:no-"+sc.Fail+"-step-in-this-tree", 1)
			continue
		}
		want := sc.want()
		// ---- the property, judged on the implementation
		w.OracleEval(1)
		switch {
		case !out.Err:
			if !out.Exists || string(out.Post) != string(want) {
				key := "persist-not-exact"
				if sc.Pre > len(want) {
					key = "persist-stale-tail"
				}
				w.OracleFail(key, fmt.Sprintf("Persist reported success but the file holds %d bytes (exists=%v), the writer sent %d", len(out.Post), out.Exists, len(want)),
					describe(sc))
			}
		case sc.Fail == "open":
			pre := make([]byte, 0)
			if sc.Pre >= 0 {
				for i := 0; i < sc.Pre; i++ {
					pre = append(pre, sc.PreByte)
				}
			}
			if out.Exists != (sc.Pre >= 0) || string(out.Post) != string(pre) {
				w.OracleFail("persist-open-failure-damages-file", "Persist could not open/lock the item yet changed what is stored under its name", describe(sc))
			}
		default:
			if out.Exists {
				w.OracleFail("persist-err-leaves-file", fmt.Sprintf("Persist returned an error and left a %d-byte file under the item's name", len(out.Post)), describe(sc))
			}
		}
		// ---- correspondence
		post := cq.None()
		if out.Exists {
			if len(out.Post) == 0 {
				post = cq.Some("[]")
			} else {
				post = cq.Some(cqRle(rleOf(out.Post)))
			}
		}
		prior := "absent"
		switch {
		case sc.Pre < 0:
		case sc.Pre < len(want):
			prior = "shorter"
		case sc.Pre == len(want):
			prior = "equal"
		default:
			prior = "longer"
		}
		w.Count("prior:"+prior, 1)
		w.Count("fail:"+sc.Fail, 1)
		w.Count(fmt.Sprintf("size:%d", len(want)), 1)
		w.Count("item:"+sc.Kind, 1)
		term := fmt.Sprintf("CPersist %s %s %s %s %s", cqPre(sc), cqChunks(sc), cqFailure(sc), cq.B(out.Err), post)
		w.Add(term, "persist", len(want) > 0 || sc.Pre > 0, describe(sc))
		switch sc.Fail {
		case "none", "write", "cancel", "close":
			traced = append(traced, sc)
		}
	}

	// ---- file names
	d := index.NewFileSystemDirectory(root)
	rng := rand.New(rand.NewSource(o.Seed + 7))
	ids := []uint64{0, 1, 9, 10, 15, 16, 255, 0xabcdef, 1 << 47, 1<<48 - 1, 1 << 48, 1<<64 - 1}
	for i := 0; i < 20; i++ {
		ids = append(ids, rng.Uint64()>>uint(rng.Intn(64)))
	}
	for _, id := range ids {
		for _, kind := range []string{index.ItemKindSnapshot, index.ItemKindSegment} {
			name := index.VerifFileName(d, kind, id)
			w.Add(fmt.Sprintf("CName %s %s %s", cq.Str(kind), cq.U(id), cq.Str(name)), "name", id > 0, map[string]interface{}{"kind": kind, "id": id})
		}
	}

	// ---- system-call trace of a child process running the same scenarios
	if !o.Thorough() && len(traced) > 260 {
		// quick tier: a seeded sample that keeps every (fail, prior relation) combination
		seen := map[string]int{}
		var keep []fsScenario
		for _, sc := range traced {
			key := fmt.Sprintf("%s/%v/%d", sc.Fail, sc.Pre > sc.total(), sc.total())
			if seen[key] < 3 {
				seen[key]++
				keep = append(keep, sc)
			}
		}
		traced = keep
	}
	if note := fsTraceRun(o, w, absOut, root, cal, traced, describe); note != "" {
		w.Count("trace-note:"+note, 1)
	}
	w.Close()
	return nil
}

func fsTraceRun(o Opts, w *cq.Writer, absOut, root string, cal fsCalib, traced []fsScenario, describe func(fsScenario) map[string]interface{}) string {
	strace, err := exec.LookPath("strace")
	if err != nil {
		return "strace not installed: system-call projection skipped (fsync order covered by the Coq theorem over the AST-derived step list only)"
	}
	scFile := filepath.Join(absOut, "trace_scenarios.json")
	marker := filepath.Join(absOut, "marker")
	traceFile := filepath.Join(absOut, "strace.out")
	_ = os.Remove(marker)
	_ = os.Remove(traceFile)
	raw, _ := json.Marshal(map[string]interface{}{"root": root, "cal": cal, "scs": traced})
	if err := os.WriteFile(scFile, raw, 0o644); err != nil {
		return "cannot write scenario file: " + err.Error()
	}
	cmd := exec.Command(strace, "-f", "-s", "16", "-o", traceFile,
		"-e", "trace=openat,write,pwrite64,ftruncate,fsync,fdatasync,close,unlink,unlinkat,flock",
		os.Args[0], "fsdir-child", "-out", absOut, scFile, marker)
	done := make(chan error, 1)
	var outb []byte
	go func() {
		var e error
		outb, e = cmd.CombinedOutput()
		done <- e
	}()
	select {
	case e := <-done:
		if e != nil {
			msg := string(outb)
			if strings.Contains(msg, "ptrace") || strings.Contains(msg, "PTRACE") || strings.Contains(msg, "Operation not permitted") {
				return "ptrace unavailable in this sandbox: system-call projection skipped (" + strings.TrimSpace(strings.SplitN(msg, "\n", 2)[0]) + ")"
			}
			w.OracleFail("fsdir-child-failed", "traced child process failed: "+e.Error()+": "+msg, nil)
			return "child failed"
		}
	case <-time.After(10 * time.Minute):
		_ = cmd.Process.Kill()
		w.OracleFail("fsdir-child-hang", "traced child process did not finish within 10 minutes", nil)
		return "child hang"
	}
	ops, okm, err := projectStrace(traceFile, marker)
	if err != nil {
		return "cannot parse strace output: " + err.Error()
	}
	n := 0
	for _, sc := range traced {
		l, ok := ops[sc.Idx]
		if !ok {
			w.OracleFail("fsdir-trace-missing", "no system calls recorded for a traced Persist call", describe(sc))
			continue
		}
		n++
		if okm[sc.Idx] {
			w.OracleEval(1)
			if !traceFsyncAfterLastWrite(l) {
				w.OracleFail("persist-no-fsync-before-success", "Persist reported success without an fsync on the item after its last write: "+cqTrace(l), describe(sc))
			}
		}
		meta := describe(sc)
		meta["trace"] = cqTrace(l)
		w.Add(fmt.Sprintf("CTrace %s %s %s %s", cqPre(sc), cqChunks(sc), cqFailure(sc), cqTrace(l)), "trace", sc.total() > 0, meta)
	}
	w.Count("traces_validated", n)
	_ = os.Remove(scFile)
	_ = os.Remove(marker)
	_ = os.Remove(traceFile)
	return ""
}
