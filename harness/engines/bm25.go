package engines

// Engine bm25 (property C17): BM25 similarity, composite scorers, explanations.
//
// Correspondence cases (Coq type bcase, Search/BM25Corr.v): direct calls of
// BM25Similarity.Idf / AverageFieldLength / Scorer / Score / Explain / IdfExplainTerm /
// ComputeNorm, CompositeSumScorer, ConstantScorer with boundary statistics, and end-to-end
// scores / explanation trees of term, boolean, match and match-all queries on small
// in-memory indexes.  float64 values travel as bit patterns; math.Log results travel as a
// per-case table (argument bits -> result bits), the argument being evaluated by the harness
// (bm25IdfArgMirror) and re-evaluated bit for bit by the model.
//
// Oracle (the property's clauses, on the implementation): scores finite and positive on
// consistent statistics; more occurrences -> higher; longer field -> lower; rarer term ->
// higher; boost linear (exact for powers of two); composite = sum of parts times boost;
// explanation root = score without explanation; every node's value = the formula stated in its
// message (parsed and evaluated here in float64) applied to its children.

import (
	"context"
	"fmt"
	"math"
	"math/big"
	"math/rand"
	"sort"
	"strconv"
	"strings"
	"time"

	"github.com/blugelabs/bluge"
	"github.com/blugelabs/bluge/numeric/geo"
	"github.com/blugelabs/bluge/search"
	"github.com/blugelabs/bluge/search/similarity"
	segment "github.com/blugelabs/bluge_segment_api"

	"verif/harness/cq"
)

func init() { Registry["bm25"] = runBM25 }

// ---------------------------------------------------------------- small helpers

func bm25Fb(f float64) string { return cq.U(math.Float64bits(f)) }

type bm25CollStats struct{ sumTTF, docCount uint64 }

func (c *bm25CollStats) TotalDocumentCount() uint64      { return c.docCount }
func (c *bm25CollStats) DocumentCount() uint64           { return c.docCount }
func (c *bm25CollStats) SumTotalTermFrequency() uint64   { return c.sumTTF }
func (c *bm25CollStats) Merge(o segment.CollectionStats) {}

type bm25TermStats uint64

func (t bm25TermStats) DocumentFrequency() uint64 { return uint64(t) }

func bm25StatsArg(c *bm25CollStats) segment.CollectionStats {
	if c == nil {
		return nil
	}
	return c
}

func bm25CoqStats(c *bm25CollStats) string {
	if c == nil {
		return "None"
	}
	return fmt.Sprintf("(Some (%s, %s))", cq.U(c.sumTTF), cq.U(c.docCount))
}

// bm25IdfArgMirror is the harness's evaluation of the argument handed to math.Log by
// BM25Similarity.Idf on the pinned tree; the Coq model re-evaluates it bit for bit
// (idf_arg_f), so a slip here shows up as a correspondence mismatch, not as agreement.
func bm25IdfArgMirror(n, N uint64) float64 {
	return 1.0 + float64(N-n) + 0.5/(float64(n)+0.5)
}

type bm25LogTable map[uint64]uint64

func (t bm25LogTable) add(arg float64) {
	t[math.Float64bits(arg)] = math.Float64bits(math.Log(arg))
}
func (t bm25LogTable) coq() string {
	keys := make([]uint64, 0, len(t))
	for k := range t {
		keys = append(keys, k)
	}
	sort.Slice(keys, func(i, j int) bool { return keys[i] < keys[j] })
	it := make([]string, len(keys))
	for i, k := range keys {
		it[i] = cq.Pair(cq.U(k), cq.U(t[k]))
	}
	return cq.List(it)
}

// bm25San replaces non-finite float64 values (which encoding/json refuses) by strings.
func bm25San(v interface{}) interface{} {
	switch x := v.(type) {
	case float64:
		if math.IsNaN(x) || math.IsInf(x, 0) {
			return fmt.Sprint(x)
		}
		return x
	case []float64:
		out := make([]interface{}, len(x))
		for i, y := range x {
			out[i] = bm25San(y)
		}
		return out
	case []interface{}:
		out := make([]interface{}, len(x))
		for i, y := range x {
			out[i] = bm25San(y)
		}
		return out
	case map[string]interface{}:
		out := make(map[string]interface{}, len(x))
		for k, y := range x {
			out[k] = bm25San(y)
		}
		return out
	}
	return v
}

func bm25Add(w *cq.Writer, term, kind string, nontrivial bool, meta map[string]interface{}) {
	if meta != nil {
		meta = bm25San(meta).(map[string]interface{})
	}
	w.Add(term, kind, nontrivial, meta)
}

func bm25Fail(w *cq.Writer, key, reason string, input interface{}) {
	w.OracleFail(key, reason, bm25San(input))
}

func bm25CoqStr(s string) string { return "\"" + strings.ReplaceAll(s, "\"", "\"\"") + "\"%string" }

func bm25CoqTree(e *search.Explanation) string {
	if e == nil {
		return "(ENode 0 \"<nil>\"%string [])"
	}
	ch := make([]string, len(e.Children))
	for i, c := range e.Children {
		ch[i] = bm25CoqTree(c)
	}
	return fmt.Sprintf("(ENode %s %s %s)", bm25Fb(e.Value), bm25CoqStr(e.Message), cq.List(ch))
}

func bm25TreeJSON(e *search.Explanation) interface{} {
	if e == nil {
		return nil
	}
	ch := make([]interface{}, len(e.Children))
	for i, c := range e.Children {
		ch[i] = bm25TreeJSON(c)
	}
	return map[string]interface{}{"value": e.Value, "bits": fmt.Sprintf("%#x", math.Float64bits(e.Value)), "message": e.Message, "children": ch}
}

// ---------------------------------------------------------------- the message parser (oracle)

// bm25PinnedIdfMessage is the text of the idf node on the pinned tree (defect D4); only this
// exact text together with a value equal to the as-coded idf maps to the finding's key.
const bm25PinnedIdfMessage = "idf, computed as log(1 + (N - n + 0.5) / (n + 0.5)) from:"

type bm25ExprParser struct {
	s    string
	pos  int
	vars func(string) (float64, bool)
	err  string
}

func (p *bm25ExprParser) ws() {
	for p.pos < len(p.s) && p.s[p.pos] == ' ' {
		p.pos++
	}
}
func (p *bm25ExprParser) fail(m string) float64 {
	if p.err == "" {
		p.err = m
	}
	return math.NaN()
}
func (p *bm25ExprParser) expr() float64 {
	v := p.term()
	for {
		p.ws()
		if p.pos < len(p.s) && (p.s[p.pos] == '+' || p.s[p.pos] == '-') {
			op := p.s[p.pos]
			p.pos++
			r := p.term()
			if op == '+' {
				v += r
			} else {
				v -= r
			}
			continue
		}
		return v
	}
}
func (p *bm25ExprParser) term() float64 {
	v := p.factor()
	for {
		p.ws()
		if p.pos < len(p.s) && (p.s[p.pos] == '*' || p.s[p.pos] == '/') {
			op := p.s[p.pos]
			p.pos++
			r := p.factor()
			if op == '*' {
				v *= r
			} else {
				v /= r
			}
			continue
		}
		return v
	}
}
func bm25IsIdent(c byte) bool {
	return c == '_' || (c >= 'a' && c <= 'z') || (c >= 'A' && c <= 'Z') || (c >= '0' && c <= '9')
}
func (p *bm25ExprParser) factor() float64 {
	p.ws()
	if p.pos >= len(p.s) {
		return p.fail("unexpected end of formula")
	}
	c := p.s[p.pos]
	switch {
	case c == '(':
		p.pos++
		v := p.expr()
		p.ws()
		if p.pos >= len(p.s) || p.s[p.pos] != ')' {
			return p.fail("missing )")
		}
		p.pos++
		return v
	case c == '-':
		p.pos++
		return -p.factor()
	case (c >= '0' && c <= '9') || c == '.':
		st := p.pos
		for p.pos < len(p.s) && ((p.s[p.pos] >= '0' && p.s[p.pos] <= '9') || p.s[p.pos] == '.' || p.s[p.pos] == 'e') {
			p.pos++
		}
		v, err := strconv.ParseFloat(p.s[st:p.pos], 64)
		if err != nil {
			return p.fail("bad number " + p.s[st:p.pos])
		}
		return v
	case bm25IsIdent(c):
		st := p.pos
		for p.pos < len(p.s) && bm25IsIdent(p.s[p.pos]) {
			p.pos++
		}
		name := p.s[st:p.pos]
		p.ws()
		if p.pos < len(p.s) && p.s[p.pos] == '(' {
			p.pos++
			a := p.expr()
			p.ws()
			if p.pos >= len(p.s) || p.s[p.pos] != ')' {
				return p.fail("missing ) after " + name)
			}
			p.pos++
			switch name {
			case "log", "ln":
				return math.Log(a)
			case "sqrt":
				return math.Sqrt(a)
			}
			return p.fail("unknown function " + name)
		}
		v, ok := p.vars(name)
		if !ok {
			return p.fail("no child named " + name)
		}
		return v
	}
	return p.fail(fmt.Sprintf("unexpected %q", c))
}

// bm25ChildName: the variable a child stands for = its message up to the first ',', ' ' or '('.
func bm25ChildName(msg string) string {
	for i := 0; i < len(msg); i++ {
		if msg[i] == ',' || msg[i] == ' ' || msg[i] == '(' {
			return msg[:i]
		}
	}
	return msg
}

type bm25NodeVerdict struct {
	checked bool    // the message states a formula
	exact   bool    // value bit-equal to the float64 evaluation of the stated formula
	within  bool    // value within the rounding bound of a differently associated float64 evaluation
	stated  float64 // the float64 evaluation of the stated formula
	problem string  // parse problem
}

// bm25StateFormula splits a message into (name, formula text); ok=false when no formula is stated.
func bm25StateFormula(msg string) (name, formula string, ok bool) {
	if msg == "sum of:" {
		return "sum", "", true
	}
	if i := strings.Index(msg, "computed as "); i >= 0 {
		name = strings.TrimSuffix(strings.TrimSpace(msg[:i]), ",")
		formula = strings.TrimSuffix(strings.TrimSpace(msg[i+len("computed as "):]), "from:")
		return bm25ChildName(name), strings.TrimSpace(formula), true
	}
	return "", "", false
}

// bm25JudgeNode evaluates "value = formula stated in the message applied to the children".
// Exact float64 agreement is demanded where the code evaluates the stated expression itself;
// the tf and score nodes compute an algebraically equal form (w - w/(1+f*ni)), for which the
// bound is the forward rounding error of both evaluations: 16 ulp of the node's scale
// (1 for tf, |boost*idf| for score).
func bm25JudgeNode(e *search.Explanation) bm25NodeVerdict {
	name, formula, ok := bm25StateFormula(e.Message)
	if !ok {
		if len(e.Children) > 0 {
			return bm25NodeVerdict{checked: true, problem: "node has children but its message states no formula"}
		}
		return bm25NodeVerdict{}
	}
	if e.Message == "sum of:" {
		var s float64
		for _, c := range e.Children {
			s += c.Value
		}
		return bm25NodeVerdict{checked: true, stated: s, exact: math.Float64bits(s) == math.Float64bits(e.Value) || (s == e.Value)}
	}
	vars := func(v string) (float64, bool) {
		for _, c := range e.Children {
			if bm25ChildName(c.Message) == v {
				return c.Value, true
			}
		}
		if v == "boost" { // bm25.go:128: the boost child is left out when the boost is 1
			return 1, true
		}
		return 0, false
	}
	p := &bm25ExprParser{s: formula, vars: vars}
	v := p.expr()
	p.ws()
	if p.err == "" && p.pos != len(p.s) {
		p.fail("trailing text in formula: " + p.s[p.pos:])
	}
	if p.err != "" {
		return bm25NodeVerdict{checked: true, problem: p.err + " (formula: " + formula + ")"}
	}
	nv := bm25NodeVerdict{checked: true, stated: v}
	if math.Float64bits(v) == math.Float64bits(e.Value) || v == e.Value || (math.IsNaN(v) && math.IsNaN(e.Value)) {
		nv.exact = true
		return nv
	}
	scale := 0.0
	switch name {
	case "tf":
		scale = 1
	case "score":
		bo, _ := vars("boost")
		idf, ok := vars("idf")
		if ok {
			scale = math.Abs(bo * idf)
		}
	case "idf":
		// float64(N-n) vs float64(N)-float64(n): identical below 2^53, one rounding apart above
		n, ok1 := vars("n")
		N, ok2 := vars("N")
		if ok1 && ok2 && (n >= 1<<53 || N >= 1<<53) {
			scale = math.Abs(v)
		}
	}
	if scale > 0 && !math.IsInf(scale, 0) && math.Abs(v-e.Value) <= 16*scale*(1.0/(1<<53)) {
		nv.within = true
	}
	return nv
}

// bm25CheckTree runs bm25JudgeNode on every node; failures are reported through w.
func bm25CheckTree(w *cq.Writer, root *search.Explanation, ctx interface{}) {
	var walk func(e *search.Explanation)
	walk = func(e *search.Explanation) {
		if e == nil {
			return
		}
		nv := bm25JudgeNode(e)
		if nv.checked {
			w.OracleEval(1)
			switch {
			case nv.problem != "":
				bm25Fail(w, "explain-message-unparsed", nv.problem, map[string]interface{}{"node": bm25TreeJSON(e), "context": ctx})
			case nv.exact:
				w.Count("explain_nodes_exact", 1)
			case nv.within:
				w.Count("explain_nodes_within_rounding", 1)
			default:
				key := "explain-node-unfaithful"
				if e.Message == bm25PinnedIdfMessage && len(e.Children) == 2 && e.Children[0].Value < 1<<53 && e.Children[1].Value < 1<<53 &&
					e.Children[0].Value <= e.Children[1].Value &&
					math.Float64bits(e.Value) == math.Float64bits(math.Log(bm25IdfArgMirror(uint64(e.Children[0].Value), uint64(e.Children[1].Value)))) {
					key = "idf-explain-formula"
				}
				bm25Fail(w, key, fmt.Sprintf("node value %v (%#x) but the formula stated in its message gives %v (%#x)", e.Value, math.Float64bits(e.Value), nv.stated, math.Float64bits(nv.stated)),
					map[string]interface{}{"node": bm25TreeJSON(e), "context": ctx})
			}
		}
		for _, c := range e.Children {
			walk(c)
		}
	}
	walk(root)
}

// ---------------------------------------------------------------- exact reals for the saturation classes

func bm25Bf(x float64) *big.Float { return new(big.Float).SetPrec(300).SetFloat64(x) }

// bm25RealScore: w*x/(1+x) with x = f/(k1*((1-b)+b*dl/avgdl)), in 300-bit arithmetic from the
// float64 parameters (w as given).  ok=false when the length normalisation vanishes.
func bm25RealScore(w, k1, b float64, f int, dl uint32, avgdl float64) (*big.Float, bool) {
	one := bm25Bf(1)
	L := new(big.Float).SetPrec(300).Sub(one, bm25Bf(b))
	t := new(big.Float).SetPrec(300).Mul(bm25Bf(b), bm25Bf(float64(dl)))
	t.Quo(t, bm25Bf(avgdl))
	L.Add(L, t)
	den := new(big.Float).SetPrec(300).Mul(bm25Bf(k1), L)
	if den.Sign() <= 0 {
		return nil, false
	}
	x := new(big.Float).SetPrec(300).Quo(bm25Bf(float64(f)), den)
	r := new(big.Float).SetPrec(300).Quo(x, new(big.Float).SetPrec(300).Add(one, x))
	return r.Mul(r, bm25Bf(w)), true
}

// bm25GapResolvable: the real scores differ by more than the forward error of the two float64
// evaluations (8 ulp of w each): then the float64 scores must be strictly ordered.
func bm25GapResolvable(hi, lo *big.Float, w float64) bool {
	gap := new(big.Float).SetPrec(300).Sub(hi, lo)
	bound := new(big.Float).SetPrec(300).Mul(bm25Bf(math.Abs(w)), bm25Bf(32.0/(1<<53)))
	return gap.Cmp(bound) > 0
}

type bm25ScoreParams struct {
	k1, b, boost float64
	st           *bm25CollStats
	n            uint64
}

// consistent: statistics a real index can produce (every document of the collection has at
// least one token, no document is longer than the collection, df <= document count) with
// parameters inside the law's hypotheses.
func (p bm25ScoreParams) consistent() bool {
	return p.st != nil && p.st.docCount >= 1 && p.st.sumTTF >= p.st.docCount && p.n >= 1 && p.n <= p.st.docCount &&
		p.k1 > 0 && p.k1 <= 1e3 && p.b >= 0 && p.b <= 1 && p.boost > 0 && p.boost < 1e100 && p.boost > 1e-100 && p.st.docCount < 1<<50 && p.st.sumTTF < 1<<53
}

func (p bm25ScoreParams) sim() *similarity.BM25Similarity {
	return similarity.NewBM25SimilarityBK1(p.b, p.k1)
}

func (p bm25ScoreParams) scorer() search.Scorer {
	return p.sim().Scorer(p.boost, bm25StatsArg(p.st), bm25TermStats(p.n))
}

func (p bm25ScoreParams) coq() string {
	return fmt.Sprintf("%s %s %s %s %s", bm25Fb(p.k1), bm25Fb(p.b), bm25Fb(p.boost), bm25CoqStats(p.st), cq.U(p.n))
}

func (p bm25ScoreParams) logs() bm25LogTable {
	t := bm25LogTable{}
	var N uint64
	if p.st != nil {
		N = p.st.docCount
	}
	t.add(bm25IdfArgMirror(p.n, N))
	return t
}

func (p bm25ScoreParams) meta() map[string]interface{} {
	m := map[string]interface{}{"k1": p.k1, "b": p.b, "boost": p.boost, "n": p.n}
	if p.st != nil {
		m["sumTTF"] = p.st.sumTTF
		m["docCount"] = p.st.docCount
	} else {
		m["stats"] = nil
	}
	return m
}

func bm25NormOf(dl uint32) float64 {
	return float64(similarity.NewBM25Similarity().ComputeNorm(int(dl)))
}

// ---------------------------------------------------------------- engine

func runBM25(o Opts) error {
	rng := rand.New(rand.NewSource(o.Seed))
	w := cq.New(o.Out, "From Bluge Require Import Search.BM25F Search.Explain Search.BM25Corr.", "bcase", 200)
	scale := 1
	if o.Thorough() {
		scale = 10
	}
	bm25Idf(o, rng, w, scale)
	bm25Norm(o, rng, w)
	bm25Direct(o, rng, w, scale)
	bm25Laws(o, rng, w, scale)
	bm25Composite(o, rng, w, scale)
	if err := bm25E2E(o, rng, w, scale); err != nil {
		return err
	}
	if err := bm25Structure(o, rng, w, scale); err != nil {
		return err
	}
	w.Close()
	return nil
}

// ---- Idf / IdfExplainTerm / AverageFieldLength
func bm25Idf(o Opts, rng *rand.Rand, w *cq.Writer, scale int) {
	sim := similarity.NewBM25Similarity()
	Ns := []uint64{0, 1, 2, 3, 10, 100, 1000, 1 << 20, 1<<31 - 1, 1 << 32, 1<<53 - 1, 1 << 53, 1<<53 + 1, 1<<53 + 3, 1<<63 - 1, 1 << 63, 1<<63 + 1025, 1<<64 - 1}
	type pr struct{ n, N uint64 }
	var pairs []pr
	for _, N := range Ns {
		for _, n := range []uint64{0, 1, 2, 3, N / 2, N - 1, N, N + 1} {
			pairs = append(pairs, pr{n, N})
		}
	}
	for i := 0; i < 60*scale; i++ {
		N := rng.Uint64() >> uint(rng.Intn(64))
		n := rng.Uint64() >> uint(rng.Intn(64))
		if rng.Intn(4) != 0 && N > 0 {
			n = n%N + 1
		}
		pairs = append(pairs, pr{n, N})
	}
	pairs = append(pairs, pr{3, 10})
	w.Count("idf_pairs", len(pairs))
	for _, p := range pairs {
		out := sim.Idf(p.n, p.N)
		arg := bm25IdfArgMirror(p.n, p.N)
		t := bm25LogTable{}
		t.add(arg)
		inHyp := p.n >= 1 && p.n <= p.N
		bm25Add(w, fmt.Sprintf("CIdf %s %s %s %s %s", cq.U(p.n), cq.U(p.N), bm25Fb(arg), bm25Fb(out), t.coq()), "idf", inHyp,
			map[string]interface{}{"n": p.n, "N": p.N, "idf": out})
		if inHyp {
			w.OracleEval(1)
			if out == 0 && p.n == p.N && p.n >= 1<<51 {
				// 0.5/(n+0.5) < 2^-53: the argument of the logarithm rounds to 1 (needs 2^51 documents)
				w.Count("idf_saturated_zero", 1)
			} else if !(out > 0) || math.IsInf(out, 0) || math.IsNaN(out) {
				bm25Fail(w, "law-idf-positive-finite", fmt.Sprintf("Idf(%d,%d) = %v", p.n, p.N, out), []uint64{p.n, p.N})
			}
		} else {
			w.Count("idf_outside_hypotheses", 1)
		}
	}
	// rarer term weighs more: all ordered pairs n1 < n2 <= N on boundary sets
	for _, N := range []uint64{1, 2, 3, 10, 100, 1000, 1 << 20, 1 << 32, 1<<53 - 1, 1 << 60, 1<<64 - 1} {
		ns := []uint64{1, 2, 3, 4, 5, 7, 10, 50, 99, 100, 999, 1000, N / 3, N/2 - 1, N / 2, N - 2, N - 1, N}
		var cl []uint64
		seen := map[uint64]bool{}
		for _, n := range ns {
			if n >= 1 && n <= N && !seen[n] {
				seen[n] = true
				cl = append(cl, n)
			}
		}
		sort.Slice(cl, func(i, j int) bool { return cl[i] < cl[j] })
		for i := 0; i < len(cl); i++ {
			for j := i + 1; j < len(cl); j++ {
				a, b := sim.Idf(cl[i], N), sim.Idf(cl[j], N)
				w.OracleEval(1)
				if a < b || math.IsNaN(a) || math.IsNaN(b) {
					bm25Fail(w, "law-idf-anti-df", fmt.Sprintf("Idf(%d,%d)=%v < Idf(%d,%d)=%v", cl[i], N, a, cl[j], N, b), []uint64{cl[i], cl[j], N})
				} else if a == b {
					// strict in the reals; equal float64 values are legitimate only when the arguments of the
					// logarithm are closer than the rounding of the argument and of math.Log resolves
					a1 := new(big.Float).SetPrec(300).SetFloat64(bm25IdfArgMirror(cl[i], N))
					a2 := new(big.Float).SetPrec(300).SetFloat64(bm25IdfArgMirror(cl[j], N))
					rel := new(big.Float).SetPrec(300).Sub(a1, a2)
					rel.Quo(rel, a1)
					thr := math.Max(1, a) / (1 << 45)
					if rel.Cmp(bm25Bf(thr)) > 0 {
						bm25Fail(w, "law-idf-anti-df", fmt.Sprintf("Idf(%d,%d) = Idf(%d,%d) = %v although the arguments differ well above rounding", cl[i], N, cl[j], N, a), []uint64{cl[i], cl[j], N})
					} else {
						w.Count("idf_saturated_equal", 1)
					}
				}
			}
		}
	}
	// IdfExplainTerm + AverageFieldLength
	sts := []*bm25CollStats{nil, {10, 1}, {100, 10}, {0, 0}, {5, 0}, {1, 1 << 40}, {1 << 60, 1}, {1<<64 - 1, 3}, {12345, 678}}
	for _, st := range sts {
		avg := sim.AverageFieldLength(bm25StatsArg(st))
		bm25Add(w, fmt.Sprintf("CAvg %s %s", bm25CoqStats(st), bm25Fb(avg)), "avg", st != nil && st.docCount > 0, map[string]interface{}{"avg": avg})
		for _, n := range []uint64{0, 1, 3, 10} {
			e := sim.IdfExplainTerm(bm25StatsArg(st), bm25TermStats(n))
			var N uint64
			if st != nil {
				N = st.docCount
			}
			t := bm25LogTable{}
			t.add(bm25IdfArgMirror(n, N))
			bm25Add(w, fmt.Sprintf("CIdfExplain %s %s %s %s", bm25CoqStats(st), cq.U(n), t.coq(), bm25CoqTree(e)), "idf-explain", n >= 1 && n <= N,
				map[string]interface{}{"n": n, "N": N})
			if n >= 1 && n <= N {
				bm25CheckTree(w, e, map[string]interface{}{"call": "IdfExplainTerm", "n": n, "N": N})
			}
		}
	}
}

// ---- ComputeNorm and the float32 round trip of the field length
func bm25Norm(o Opts, rng *rand.Rand, w *cq.Writer) {
	sim := similarity.NewBM25Similarity()
	vals := []int{0, 1, 2, 3, 7, 100, 65535, 65536, 1 << 20, 1<<23 - 1, 1 << 23, 1<<23 + 1, 1<<24 + 1, 0x3f800000, 0x7f7fffff, 0x7f800000, 1<<31 - 1, 1 << 31, 0x80000001, 0xff7fffff, 1<<32 - 1, 1 << 32, 1<<32 + 5}
	for i := 0; i < 40; i++ {
		vals = append(vals, int(rng.Uint32()>>uint(rng.Intn(32))))
	}
	for _, v := range vals {
		nf := sim.ComputeNorm(v)
		bits := math.Float32bits(nf)
		isNaN := bits&0x7f800000 == 0x7f800000 && bits&0x007fffff != 0
		if isNaN {
			w.Count("norm_nan_pattern_skipped", 1)
			continue
		}
		dl := math.Float32bits(float32(float64(nf)))
		bm25Add(w, fmt.Sprintf("CNorm %s %s %s", cq.I(v), cq.U(uint64(bits)), cq.U(uint64(dl))), "norm", v > 0, map[string]interface{}{"numTerms": v})
		w.OracleEval(1)
		if v >= 0 && v < 1<<32 && uint32(v) != dl {
			bm25Fail(w, "norm-roundtrip", fmt.Sprintf("field length %d comes back as %d", v, dl), v)
		}
	}
}

var bm25K1B = [][2]float64{{1.2, 0.75}, {1.2, 0}, {1.2, 1}, {0.5, 0.3}, {2, 0.9}, {1e-3, 0.5}, {100, 0.75}, {1.2, 0.75}}
var bm25Boosts = []float64{1, 1, 2, 0.5, 3.7, 1e-3, 1e6, 0.1}
var bm25Stats = []*bm25CollStats{{10, 1}, {100, 10}, {1000, 100}, {12345, 678}, {1 << 20, 1 << 10}, {1 << 40, 1 << 20}, {3, 3}, {7, 2},
	nil, {0, 0}, {5, 0}, {1, 1 << 40}, {1 << 60, 1}, {0, 5}}
var bm25Freqs = []int{1, 1, 2, 3, 5, 10, 100, 1 << 10, 1 << 20, 0, -1}
var bm25Dls = []uint32{0, 1, 2, 3, 7, 10, 100, 1000, 1 << 16, 1 << 20, 1<<23 - 1, 1 << 23, 1<<24 + 1, 0x7f7fffff, 0x7f800000}

func bm25RandParams(rng *rand.Rand, consistentOnly bool) bm25ScoreParams {
	for {
		kb := bm25K1B[rng.Intn(len(bm25K1B))]
		p := bm25ScoreParams{k1: kb[0], b: kb[1], boost: bm25Boosts[rng.Intn(len(bm25Boosts))], st: bm25Stats[rng.Intn(len(bm25Stats))]}
		var N uint64 = 10
		if p.st != nil {
			N = p.st.docCount
		}
		switch rng.Intn(5) {
		case 0:
			p.n = 1
		case 1:
			p.n = N
		case 2:
			p.n = N + 1
		default:
			if N > 0 {
				p.n = uint64(rng.Int63n(int64(N%(1<<62)+1))) + 1
				if p.n > N {
					p.n = N
				}
			}
		}
		if !consistentOnly || p.consistent() {
			return p
		}
	}
}

// ---- Scorer / Score / Explain, direct calls
func bm25Direct(o Opts, rng *rand.Rand, w *cq.Writer, scale int) {
	weird := []float64{math.NaN(), math.Inf(1), math.Inf(-1), -1.5, 1e300, 1e-50, 0.5, math.Copysign(0, -1)}
	for i := 0; i < 260*scale; i++ {
		p := bm25RandParams(rng, i%3 != 0)
		sc := p.scorer()
		freq := bm25Freqs[rng.Intn(len(bm25Freqs))]
		var norm float64
		var dl uint32
		weirdNorm := false
		if rng.Intn(12) == 0 {
			norm = weird[rng.Intn(len(weird))]
			dl = math.Float32bits(float32(norm))
			weirdNorm = true
		} else {
			dl = bm25Dls[rng.Intn(len(bm25Dls))]
			if rng.Intn(3) == 0 {
				dl = uint32(rng.Intn(200))
			}
			norm = bm25NormOf(dl)
		}
		score := sc.Score(freq, norm)
		inHyp := p.consistent() && freq >= 1 && !weirdNorm && uint64(dl) <= p.st.sumTTF && uint64(freq) <= uint64(dl)
		meta := p.meta()
		meta["freq"], meta["dl"], meta["norm_bits"], meta["score"] = freq, dl, fmt.Sprintf("%#x", math.Float64bits(norm)), score
		bm25Add(w, fmt.Sprintf("CScore %s %s %s %s %s", p.coq(), p.logs().coq(), cq.I(freq), bm25Fb(norm), bm25Fb(score)), "score", inHyp, meta)
		if inHyp {
			w.OracleEval(1)
			if !(score > 0) || math.IsInf(score, 0) || math.IsNaN(score) {
				bm25Fail(w, "law-score-positive-finite", fmt.Sprintf("score %v", score), meta)
			}
		} else {
			w.Count("score_outside_hypotheses", 1)
			switch {
			case math.IsNaN(score):
				w.Count("outside:nan", 1)
			case math.IsInf(score, 0):
				w.Count("outside:inf", 1)
			case score == 0:
				w.Count("outside:zero", 1)
			case score < 0:
				w.Count("outside:negative", 1)
			}
		}
		if i%2 == 0 {
			e := sc.Explain(freq, norm)
			bm25Add(w, fmt.Sprintf("CExplain %s %s %s %s %s", p.coq(), p.logs().coq(), cq.I(freq), bm25Fb(norm), bm25CoqTree(e)), "explain", inHyp, meta)
			w.OracleEval(1)
			if math.Float64bits(e.Value) != math.Float64bits(score) && !(math.IsNaN(e.Value) && math.IsNaN(score)) {
				bm25Fail(w, "explain-root-not-score", fmt.Sprintf("Explain value %v, Score %v", e.Value, score), meta)
			}
			if inHyp {
				bm25CheckTree(w, e, meta)
			}
		}
	}
}

// ---- the laws on pairs, direct calls (consistent statistics only)
func bm25Laws(o Opts, rng *rand.Rand, w *cq.Writer, scale int) {
	for i := 0; i < 400*scale; i++ {
		p := bm25RandParams(rng, true)
		sc := p.scorer()
		maxDl := uint64(0x7f7fffff) // larger lengths are float32 NaN bit patterns (payloads are outside the model)
		if p.st.sumTTF < maxDl {
			maxDl = p.st.sumTTF
		}
		pickDl := func() uint32 {
			d := bm25Dls[rng.Intn(len(bm25Dls))]
			if rng.Intn(2) == 0 {
				d = uint32(rng.Intn(300))
			}
			if uint64(d) > maxDl {
				d = uint32(maxDl)
			}
			if d == 0 {
				d = 1
			}
			return d
		}
		dl := pickDl()
		pickF := func() int {
			f := bm25Freqs[rng.Intn(len(bm25Freqs)-2)]
			if rng.Intn(2) == 0 {
				f = 1 + rng.Intn(50)
			}
			if uint64(f) > uint64(dl) {
				f = int(dl)
			}
			return f
		}
		f := pickF()
		avgdl := p.sim().AverageFieldLength(bm25StatsArg(p.st))
		weight := p.boost * p.sim().Idf(p.n, p.st.docCount)
		meta := p.meta()
		meta["freq"], meta["dl"] = f, dl
		s := sc.Score(f, bm25NormOf(dl))

		// more occurrences -> higher
		f2 := f + 1 + rng.Intn(3)
		if rng.Intn(3) == 0 {
			f2 = f * 2
		}
		s2 := sc.Score(f2, bm25NormOf(dl))
		w.OracleEval(1)
		if s2 < s || math.IsNaN(s) || math.IsNaN(s2) {
			bm25Fail(w, "law-mono-freq", fmt.Sprintf("freq %d scores %v, freq %d scores %v", f, s, f2, s2), meta)
		} else if s2 == s {
			r1, ok1 := bm25RealScore(weight, p.k1, p.b, f, dl, avgdl)
			r2, ok2 := bm25RealScore(weight, p.k1, p.b, f2, dl, avgdl)
			if ok1 && ok2 && bm25GapResolvable(r2, r1, weight) {
				bm25Fail(w, "law-mono-freq", fmt.Sprintf("freq %d and freq %d both score %v although the real scores differ above rounding", f, f2, s), meta)
			} else {
				w.Count("saturated:freq", 1)
			}
		}

		// longer field -> lower (strict for b > 0)
		dl2 := dl + 1 + uint32(rng.Intn(5))
		if rng.Intn(3) == 0 && dl < 1<<30 {
			dl2 = dl * 2
		}
		s3 := sc.Score(f, bm25NormOf(dl2))
		w.OracleEval(1)
		if s3 > s || math.IsNaN(s3) {
			bm25Fail(w, "law-anti-len", fmt.Sprintf("dl %d scores %v, dl %d scores %v", dl, s, dl2, s3), meta)
		} else if s3 == s && p.b > 0 {
			r1, ok1 := bm25RealScore(weight, p.k1, p.b, f, dl, avgdl)
			r2, ok2 := bm25RealScore(weight, p.k1, p.b, f, dl2, avgdl)
			if ok1 && ok2 && bm25GapResolvable(r1, r2, weight) {
				bm25Fail(w, "law-anti-len", fmt.Sprintf("dl %d and dl %d both score %v although the real scores differ above rounding", dl, dl2, s), meta)
			} else {
				w.Count("saturated:len", 1)
			}
		}

		// rarer term -> higher
		if p.n < p.st.docCount {
			q := p
			q.n = p.n + 1 + uint64(rng.Int63n(int64(p.st.docCount-p.n)))
			s4 := q.scorer().Score(f, bm25NormOf(dl))
			w.OracleEval(1)
			if s4 > s || math.IsNaN(s4) {
				bm25Fail(w, "law-anti-df", fmt.Sprintf("n %d scores %v, n %d scores %v", p.n, s, q.n, s4), meta)
			} else if s4 == s {
				i1, i2 := p.sim().Idf(p.n, p.st.docCount), p.sim().Idf(q.n, p.st.docCount)
				if i1 > i2 && (i1-i2) > 64*i1/(1<<53) {
					bm25Fail(w, "law-anti-df", fmt.Sprintf("n %d and n %d both score %v although the weights differ above rounding", p.n, q.n, s), meta)
				} else {
					w.Count("saturated:df", 1)
				}
			}
		}

		// boost linear: exact for powers of two; monotone and within rounding for any factor
		for _, c := range []float64{2, 4, 0.5, 3, 1.7} {
			q := p
			q.boost = p.boost * c
			s5 := q.scorer().Score(f, bm25NormOf(dl))
			w.OracleEval(1)
			pow2 := c == 2 || c == 4 || c == 0.5
			if pow2 {
				if s5 != c*s {
					bm25Fail(w, "law-boost-linear", fmt.Sprintf("boost %v scores %v, boost %v scores %v (factor %v)", p.boost, s, q.boost, s5, c), meta)
				}
				continue
			}
			if s5 < s {
				bm25Fail(w, "law-boost-linear", fmt.Sprintf("boost %v scores %v, larger boost %v scores %v", p.boost, s, q.boost, s5), meta)
			} else if math.Abs(s5-c*s) > 32*math.Abs(c*weight)/(1<<53) {
				bm25Fail(w, "law-boost-linear", fmt.Sprintf("boost %v scores %v, boost %v scores %v: not the factor %v within rounding", p.boost, s, q.boost, s5, c), meta)
			} else {
				w.Count("boost_linear_within_rounding", 1)
			}
		}
	}
}

// ---- CompositeSumScorer / ConstantScorer, direct calls
func bm25Composite(o Opts, rng *rand.Rand, w *cq.Writer, scale int) {
	boosts := []float64{1, 1, 2, 0.5, 3.3, 0, 1e-3, 7}
	pool := []float64{0, 1, 0.5, 2.25, 1e-17, 1e17, 3.0000000000000004, 0.1, 0.2, 0.3, 1e300, math.SmallestNonzeroFloat64}
	for i := 0; i < 70*scale; i++ {
		boost := boosts[rng.Intn(len(boosts))]
		k := rng.Intn(6)
		scores := make([]float64, k)
		ms := make([]*search.DocumentMatch, k)
		sb := make([]string, k)
		parts := make([]string, k)
		for j := range scores {
			scores[j] = pool[rng.Intn(len(pool))]
			if rng.Intn(2) == 0 {
				scores[j] = rng.Float64() * 10
			}
			ex := search.NewExplanation(scores[j], fmt.Sprintf("part %d", j))
			ms[j] = &search.DocumentMatch{Score: scores[j], Explanation: ex}
			sb[j] = bm25Fb(scores[j])
			parts[j] = cq.Pair(bm25Fb(scores[j]), bm25CoqTree(ex))
		}
		var cs *similarity.CompositeSumScorer
		if boost == 1 && rng.Intn(2) == 0 {
			cs = similarity.NewCompositeSumScorer()
		} else {
			cs = similarity.NewCompositeSumScorerWithBoost(boost)
		}
		out := cs.ScoreComposite(ms)
		meta := map[string]interface{}{"boost": boost, "scores": scores, "out": out}
		bm25Add(w, fmt.Sprintf("CComposite %s %s %s", bm25Fb(boost), cq.List(sb), bm25Fb(out)), "composite", k > 0, meta)
		e := cs.ExplainComposite(ms)
		bm25Add(w, fmt.Sprintf("CCompositeExplain %s %s %s", bm25Fb(boost), cq.List(parts), bm25CoqTree(e)), "composite-explain", k > 0, meta)
		// the law: sum of the parts times the boost
		var sum float64
		for _, s := range scores {
			sum += s
		}
		w.OracleEval(2)
		if math.Float64bits(sum*boost) != math.Float64bits(out) && !(math.IsNaN(out) && math.IsNaN(sum*boost)) {
			bm25Fail(w, "law-composite-sum", fmt.Sprintf("composite %v, sum of parts times boost %v", out, sum*boost), meta)
		}
		if math.Float64bits(e.Value) != math.Float64bits(out) && !(math.IsNaN(out) && math.IsNaN(e.Value)) {
			bm25Fail(w, "explain-root-not-score", fmt.Sprintf("ExplainComposite value %v, ScoreComposite %v", e.Value, out), meta)
		}
		if k > 0 && !math.IsInf(sum, 0) && !math.IsNaN(sum) {
			bm25CheckTree(w, e, meta)
		}
	}
	for _, c := range []float64{1, 0, 2.5, -1, 1e300} {
		cs := similarity.ConstantScorer(c)
		e, ce := cs.Explain(3, 1), cs.ExplainComposite(nil)
		bm25Add(w, fmt.Sprintf("CConstant %s %s %s %s %s", bm25Fb(c), bm25Fb(cs.Score(3, 1)), bm25Fb(cs.ScoreComposite(nil)), bm25CoqTree(e), bm25CoqTree(ce)), "constant", true,
			map[string]interface{}{"c": c})
		bm25CheckTree(w, e, "constant")
	}
}

// ---------------------------------------------------------------- end to end

type bm25E2eDoc struct {
	id     string
	body   []string
	title  []string
	counts map[string]map[string]int // field -> term -> freq
}

type bm25E2eQuery struct {
	kind     string // term | bool | match | matchall
	field    string
	term     string
	text     string
	and      bool
	boost    float64 // 0 = not set
	musts    []*bm25E2eQuery
	shoulds  []*bm25E2eQuery
	mustNots []*bm25E2eQuery
}

func (q *bm25E2eQuery) build() bluge.Query {
	switch q.kind {
	case "term":
		t := bluge.NewTermQuery(q.term).SetField(q.field)
		if q.boost != 0 {
			t.SetBoost(q.boost)
		}
		return t
	case "match":
		m := bluge.NewMatchQuery(q.text).SetField(q.field)
		if q.and {
			m.SetOperator(bluge.MatchQueryOperatorAnd)
		}
		if q.boost != 0 {
			m.SetBoost(q.boost)
		}
		return m
	case "matchall":
		m := bluge.NewMatchAllQuery()
		if q.boost != 0 {
			m.SetBoost(q.boost)
		}
		return m
	}
	b := bluge.NewBooleanQuery()
	for _, c := range q.musts {
		b.AddMust(c.build())
	}
	for _, c := range q.shoulds {
		b.AddShould(c.build())
	}
	for _, c := range q.mustNots {
		b.AddMustNot(c.build())
	}
	if q.boost != 0 {
		b.SetBoost(q.boost)
	}
	return b
}

func (q *bm25E2eQuery) desc() interface{} {
	m := map[string]interface{}{"kind": q.kind}
	if q.boost != 0 {
		m["boost"] = q.boost
	}
	switch q.kind {
	case "term":
		m["field"], m["term"] = q.field, q.term
	case "match":
		m["field"], m["text"], m["and"] = q.field, q.text, q.and
	case "bool":
		for name, l := range map[string][]*bm25E2eQuery{"musts": q.musts, "shoulds": q.shoulds, "mustNots": q.mustNots} {
			if len(l) > 0 {
				d := make([]interface{}, len(l))
				for i, c := range l {
					d[i] = c.desc()
				}
				m[name] = d
			}
		}
	}
	return m
}

func (q *bm25E2eQuery) withBoost(b float64) *bm25E2eQuery {
	c := *q
	c.boost = b
	return &c
}

type bm25E2eHit struct {
	score float64
	expl  *search.Explanation
}

func bm25E2eSearch(w *cq.Writer, rd *bluge.Reader, q bluge.Query, explain bool, desc interface{}) (map[string]bm25E2eHit, error) {
	out := map[string]bm25E2eHit{}
	var serr error
	fin, pan := cq.Guard(30*time.Second, func() {
		req := bluge.NewAllMatches(q)
		if explain {
			req.ExplainScores()
		}
		it, err := rd.Search(context.Background(), req)
		if err != nil {
			serr = err
			return
		}
		m, err := it.Next()
		for err == nil && m != nil {
			var id string
			m.VisitStoredFields(func(field string, value []byte) bool {
				if field == "_id" {
					id = string(value)
				}
				return true
			})
			out[id] = bm25E2eHit{score: m.Score, expl: m.Explanation}
			m, err = it.Next()
		}
		serr = err
	})
	if !fin {
		w.Abort("search-hang", "search did not return within 30s", desc)
	}
	if pan != nil {
		bm25Fail(w, "search-panic", fmt.Sprint(pan), desc)
		return nil, nil
	}
	return out, serr
}

// bm25ShapeOf reads the leaves of an observed tree (Coq type shape); the model rebuilds every
// inner value from them.
func bm25ShapeOf(e *search.Explanation, t bm25LogTable) (string, bool) {
	if e == nil {
		return "", false
	}
	switch {
	case strings.HasPrefix(e.Message, "score(freq="):
		var idf, tf, boost *search.Explanation
		for _, c := range e.Children {
			switch bm25ChildName(c.Message) {
			case "idf":
				idf = c
			case "tf":
				tf = c
			case "boost":
				boost = c
			}
		}
		if idf == nil || tf == nil || len(idf.Children) != 2 || len(tf.Children) != 5 {
			return "", false
		}
		bo := 1.0
		if boost != nil {
			bo = boost.Value
		}
		n, N := idf.Children[0].Value, idf.Children[1].Value
		fr, dl := tf.Children[0].Value, tf.Children[3].Value
		if n != math.Trunc(n) || N != math.Trunc(N) || n < 0 || N < 0 || n >= 1<<53 || N >= 1<<53 || fr != math.Trunc(fr) || dl != math.Trunc(dl) || dl < 0 || math.Abs(fr) >= 1<<53 || dl >= 1<<32 {
			return "", false
		}
		t.add(bm25IdfArgMirror(uint64(n), uint64(N)))
		return fmt.Sprintf("(STerm %s %s %s %s %s %s %s %s)", bm25Fb(tf.Children[1].Value), bm25Fb(tf.Children[2].Value), bm25Fb(bo), bm25Fb(tf.Children[4].Value),
			cq.U(uint64(n)), cq.U(uint64(N)), cq.Z(int64(fr)), cq.U(uint64(dl))), true
	case e.Message == "sum of:":
		parts := make([]string, len(e.Children))
		for i, c := range e.Children {
			s, ok := bm25ShapeOf(c, t)
			if !ok {
				return "", false
			}
			parts[i] = s
		}
		return fmt.Sprintf("(SComposite %s %s)", bm25Fb(1), cq.List(parts)), true
	case e.Message == "computed as boost * sum":
		if len(e.Children) != 2 || e.Children[1].Message != "sum of:" {
			return "", false
		}
		parts := make([]string, len(e.Children[1].Children))
		for i, c := range e.Children[1].Children {
			s, ok := bm25ShapeOf(c, t)
			if !ok {
				return "", false
			}
			parts[i] = s
		}
		return fmt.Sprintf("(SComposite %s %s)", bm25Fb(e.Children[0].Value), cq.List(parts)), true
	case e.Message == "constant" && len(e.Children) == 0:
		return fmt.Sprintf("(SConstant %s false)", bm25Fb(e.Value)), true
	}
	return "", false
}

// bm25TermLeaves collects the term-score nodes of a tree as (n, freq, boost, value).
type bm25TermLeaf struct {
	n, freq uint64
	boost   float64
	value   float64
}

func bm25TermLeaves(e *search.Explanation, out *[]bm25TermLeaf) {
	if e == nil {
		return
	}
	if strings.HasPrefix(e.Message, "score(freq=") {
		var l bm25TermLeaf
		l.boost = 1
		l.value = e.Value
		for _, c := range e.Children {
			switch bm25ChildName(c.Message) {
			case "idf":
				if len(c.Children) == 2 {
					l.n = uint64(c.Children[0].Value)
				}
			case "tf":
				if len(c.Children) == 5 {
					l.freq = uint64(c.Children[0].Value)
				}
			case "boost":
				l.boost = c.Value
			}
		}
		*out = append(*out, l)
		return
	}
	for _, c := range e.Children {
		bm25TermLeaves(c, out)
	}
}

func bm25E2E(o Opts, rng *rand.Rand, w *cq.Writer, scale int) error {
	vocab := []string{"alfa", "bravo", "charlie", "delta", "echo", "foxtrot", "golf"}
	weights := []int{30, 20, 12, 8, 5, 3, 1}
	totalW := 0
	for _, x := range weights {
		totalW += x
	}
	pickTerm := func() string {
		r := rng.Intn(totalW)
		for i, x := range weights {
			if r < x {
				return vocab[i]
			}
			r -= x
		}
		return vocab[0]
	}
	rounds := 2 * scale
	for r := 0; r < rounds; r++ {
		nd := 14 + rng.Intn(14)
		docs := make([]*bm25E2eDoc, nd)
		lens := []int{1, 2, 3, 5, 5, 8, 8, 8, 13, 20, 40}
		for i := range docs {
			d := &bm25E2eDoc{id: fmt.Sprintf("d%d", i), counts: map[string]map[string]int{"body": {}, "title": {}}}
			l := lens[rng.Intn(len(lens))]
			for k := 0; k < l; k++ {
				t := pickTerm()
				d.body = append(d.body, t)
				d.counts["body"][t]++
			}
			if rng.Intn(3) != 0 {
				l := 1 + rng.Intn(4)
				for k := 0; k < l; k++ {
					t := pickTerm()
					d.title = append(d.title, t)
					d.counts["title"][t]++
				}
			}
			docs[i] = d
		}
		// pairs that differ in one statistic only: same length, one more occurrence
		if nd >= 4 {
			docs[1].body = append([]string{}, docs[0].body...)
			docs[1].counts["body"] = map[string]int{}
			for i, t := range docs[1].body {
				if i == 0 && len(docs[1].body) > 1 && docs[1].body[1] != t {
					docs[1].body[0] = docs[1].body[1]
				}
			}
			for _, t := range docs[1].body {
				docs[1].counts["body"][t]++
			}
		}
		cfg := bluge.InMemoryOnlyConfig()
		perField := r%2 == 1
		if perField { // config.go:109-114, search.go:185-190: per-field similarity for norms and scoring
			cfg.PerFieldSimilarity["title"] = similarity.NewBM25SimilarityBK1(0.3, 2.0)
		}
		wr, err := bluge.OpenWriter(cfg)
		if err != nil {
			return err
		}
		batch := bluge.NewBatch()
		for di, d := range docs {
			bd := bluge.NewDocument(d.id).AddField(bluge.NewTextField("body", strings.Join(d.body, " ")))
			if len(d.title) > 0 {
				bd.AddField(bluge.NewTextField("title", strings.Join(d.title, " ")))
			}
			// fields for the query kinds of bm25BoostKinds (own fields: the statistics of body/title stay as generated)
			bd.AddField(bluge.NewTextField("ptext", strings.Join(d.body, " ")).SearchTermPositions())
			bd.AddField(bluge.NewNumericField("num", float64(di)))
			bd.AddField(bluge.NewDateTimeField("when", bm25E2eEpoch.Add(time.Duration(di)*time.Hour)))
			bd.AddField(bluge.NewGeoPointField("loc", float64(di)*0.5, float64(di)*0.3))
			batch.Insert(bd)
		}
		if err := wr.Batch(batch); err != nil {
			return err
		}
		rd, err := wr.Reader()
		if err != nil {
			return err
		}
		// ground truth statistics
		fieldStats := map[string]*bm25CollStats{}
		df := map[string]map[string]uint64{"body": {}, "title": {}}
		flen := func(d *bm25E2eDoc, f string) int {
			if f == "body" {
				return len(d.body)
			}
			return len(d.title)
		}
		for _, f := range []string{"body", "title"} {
			st := &bm25CollStats{}
			for _, d := range docs {
				if flen(d, f) > 0 {
					st.docCount++
					st.sumTTF += uint64(flen(d, f))
				}
				for t := range d.counts[f] {
					df[f][t]++
				}
			}
			fieldStats[f] = st
		}
		kb := func(field string) (float64, float64) {
			if perField && field == "title" {
				return 2.0, 0.3
			}
			return 1.2, 0.75
		}
		defaultsSeen := false

		// -- term queries
		type hitKey struct {
			field, term string
			boost       float64
		}
		termScores := map[hitKey]map[string]float64{}
		type lawHit struct {
			n        uint64
			freq, dl int
			boost    float64
			score    float64
			who      string
		}
		var lawHits []lawHit
		for _, f := range []string{"body", "title"} {
			for _, t := range append(append([]string{}, vocab...), "zulu") {
				for _, boost := range []float64{0, 2, 0.5, 3.7} {
					q := &bm25E2eQuery{kind: "term", field: f, term: t, boost: boost}
					plain, err := bm25E2eSearch(w, rd, q.build(), false, q.desc())
					if err != nil {
						return err
					}
					expl, err := bm25E2eSearch(w, rd, q.build(), true, q.desc())
					if err != nil {
						return err
					}
					if plain == nil || expl == nil {
						continue
					}
					eb := boost
					if eb == 0 {
						eb = 1
					}
					sc := map[string]float64{}
					termScores[hitKey{f, t, eb}] = sc
					// exactly the documents containing the term match
					for _, d := range docs {
						_, got := plain[d.id]
						want := d.counts[f][t] > 0
						w.OracleEval(1)
						if got != want {
							bm25Fail(w, "e2e-term-match-set", fmt.Sprintf("doc %s matched=%v, contains term=%v", d.id, got, want), q.desc())
						}
					}
					emitted := 0
					for _, d := range docs {
						h, ok := plain[d.id]
						if !ok {
							continue
						}
						sc[d.id] = h.score
						freq, dl := d.counts[f][t], flen(d, f)
						n := df[f][t]
						meta := map[string]interface{}{"query": q.desc(), "doc": d.id, "freq": freq, "dl": dl, "n": n, "N": fieldStats[f].docCount, "sumTTF": fieldStats[f].sumTTF, "score": h.score}
						w.OracleEval(1)
						if !(h.score > 0) || math.IsInf(h.score, 0) || math.IsNaN(h.score) {
							bm25Fail(w, "law-score-positive-finite", fmt.Sprintf("score %v", h.score), meta)
						}
						lawHits = append(lawHits, lawHit{n, freq, dl, eb, h.score, fmt.Sprintf("%s:%s^%v@%s", f, t, eb, d.id)})
						he, ok := expl[d.id]
						w.OracleEval(1)
						if !ok || he.expl == nil {
							bm25Fail(w, "e2e-explain-missing", "hit without explanation when ExplainScores is set", meta)
							continue
						}
						if math.Float64bits(he.expl.Value) != math.Float64bits(h.score) || math.Float64bits(he.score) != math.Float64bits(h.score) {
							bm25Fail(w, "explain-root-not-score", fmt.Sprintf("explanation value %v, score with explanation %v, score without %v", he.expl.Value, he.score, h.score), meta)
						}
						bm25CheckTree(w, he.expl, meta)
						if !defaultsSeen && f == "body" {
							var lv []bm25TermLeaf
							bm25TermLeaves(he.expl, &lv)
							if len(he.expl.Children) >= 2 {
								tf := he.expl.Children[len(he.expl.Children)-1]
								if len(tf.Children) == 5 {
									bm25Add(w, fmt.Sprintf("CDefaults %s %s", bm25Fb(tf.Children[1].Value), bm25Fb(tf.Children[2].Value)), "defaults", true,
										map[string]interface{}{"k1": tf.Children[1].Value, "b": tf.Children[2].Value})
									defaultsSeen = true
								}
							}
						}
						if emitted < 1 || rng.Intn(8) == 0 {
							emitted++
							k1, b := kb(f)
							p := bm25ScoreParams{k1: k1, b: b, boost: eb, st: fieldStats[f], n: n}
							bm25Add(w, fmt.Sprintf("CE2E %s %s %d %d %s", p.coq(), p.logs().coq(), freq, dl, bm25Fb(h.score)), "e2e-term", true, meta)
							lt := bm25LogTable{}
							if shp, ok := bm25ShapeOf(he.expl, lt); ok {
								bm25Add(w, fmt.Sprintf("CTree %s %s %s", shp, lt.coq(), bm25CoqTree(he.expl)), "e2e-term-tree", true, meta)
							} else {
								bm25Add(w, fmt.Sprintf("CTree (SConstant 0 false) [] %s", bm25CoqTree(he.expl)), "e2e-tree-unknown-shape", true, meta)
							}
						}
					}
				}
			}
		}
		// -- laws on pairs of hits: everything else equal
		for i := range lawHits {
			for j := range lawHits {
				a, c := lawHits[i], lawHits[j]
				if i == j {
					continue
				}
				who := []string{a.who, c.who}
				if a.n == c.n && a.dl == c.dl && a.boost == c.boost && a.freq < c.freq && bm25FieldsEqualStats(a.who, c.who) {
					w.OracleEval(1)
					if !(c.score > a.score) {
						bm25Fail(w, "law-mono-freq", fmt.Sprintf("freq %d scores %v, freq %d scores %v", a.freq, a.score, c.freq, c.score), who)
					}
				}
				if a.n == c.n && a.freq == c.freq && a.boost == c.boost && a.dl < c.dl && bm25FieldsEqualStats(a.who, c.who) {
					w.OracleEval(1)
					if !(c.score < a.score) {
						bm25Fail(w, "law-anti-len", fmt.Sprintf("dl %d scores %v, dl %d scores %v", a.dl, a.score, c.dl, c.score), who)
					}
				}
				if a.dl == c.dl && a.freq == c.freq && a.boost == c.boost && a.n < c.n && bm25FieldsEqualStats(a.who, c.who) {
					w.OracleEval(1)
					if !(a.score > c.score) {
						bm25Fail(w, "law-anti-df", fmt.Sprintf("n %d scores %v, n %d scores %v", a.n, a.score, c.n, c.score), who)
					}
				}
			}
		}
		// boost linear on term queries: exact for 2 and 0.5, monotone and within rounding for 3.7
		for k, sc := range termScores {
			if k.boost != 1 {
				continue
			}
			for _, c := range []float64{2, 0.5, 3.7} {
				other := termScores[hitKey{k.field, k.term, c}]
				for id, s := range sc {
					s2, ok := other[id]
					w.OracleEval(1)
					if !ok {
						bm25Fail(w, "law-boost-linear", "document no longer matches when the query is boosted", []interface{}{k.field, k.term, c, id})
						continue
					}
					if c != 3.7 && s2 != c*s {
						bm25Fail(w, "law-boost-linear", fmt.Sprintf("term query score %v, with boost %v score %v", s, c, s2), []interface{}{k.field, k.term, c, id})
					}
					if c == 3.7 && (s2 < s || math.Abs(s2-c*s) > 64*c*s/(1<<53)*8) {
						bm25Fail(w, "law-boost-linear", fmt.Sprintf("term query score %v, with boost %v score %v", s, c, s2), []interface{}{k.field, k.term, c, id})
					}
				}
			}
		}

		// -- compound queries
		var genQ func(depth int) *bm25E2eQuery
		genTerm := func() *bm25E2eQuery {
			f := "body"
			if rng.Intn(4) == 0 {
				f = "title"
			}
			q := &bm25E2eQuery{kind: "term", field: f, term: pickTerm()}
			switch rng.Intn(4) {
			case 0:
				q.boost = 2
			case 1:
				q.boost = 3.7
			}
			return q
		}
		genQ = func(depth int) *bm25E2eQuery {
			switch k := rng.Intn(10); {
			case depth <= 0 || k < 3:
				return genTerm()
			case k == 3:
				words := []string{pickTerm(), pickTerm()}
				if rng.Intn(2) == 0 {
					words = append(words, pickTerm())
				}
				q := &bm25E2eQuery{kind: "match", field: "body", text: strings.Join(words, " "), and: rng.Intn(2) == 0}
				return q
			case k == 4 && depth < 2:
				return &bm25E2eQuery{kind: "matchall"}
			}
			q := &bm25E2eQuery{kind: "bool"}
			for i, m := 0, rng.Intn(3); i < m; i++ {
				q.musts = append(q.musts, genQ(depth-1))
			}
			for i, m := 0, rng.Intn(4); i < m; i++ {
				q.shoulds = append(q.shoulds, genQ(depth-1))
			}
			if rng.Intn(4) == 0 {
				q.mustNots = append(q.mustNots, genTerm())
			}
			if len(q.musts)+len(q.shoulds) == 0 {
				q.shoulds = append(q.shoulds, genTerm())
			}
			switch rng.Intn(4) {
			case 0:
				q.boost = 2
			case 1:
				q.boost = 0.3
			}
			return q
		}
		for qi := 0; qi < 45; qi++ {
			q := genQ(2)
			if q.kind == "term" {
				q = &bm25E2eQuery{kind: "bool", shoulds: []*bm25E2eQuery{q, genTerm()}}
			}
			plain, err := bm25E2eSearch(w, rd, q.build(), false, q.desc())
			if err != nil {
				return err
			}
			expl, err := bm25E2eSearch(w, rd, q.build(), true, q.desc())
			if err != nil {
				return err
			}
			if plain == nil || expl == nil {
				continue
			}
			w.Count("e2e_compound_queries", 1)
			w.Count("e2e_compound_hits", len(plain))
			emitted := 0
			ids := make([]string, 0, len(plain))
			for id := range plain {
				ids = append(ids, id)
			}
			sort.Strings(ids)
			for _, id := range ids {
				h := plain[id]
				meta := map[string]interface{}{"query": q.desc(), "doc": id, "score": h.score}
				w.OracleEval(1)
				if !(h.score > 0) || math.IsInf(h.score, 0) || math.IsNaN(h.score) {
					bm25Fail(w, "law-score-positive-finite", fmt.Sprintf("score %v", h.score), meta)
				}
				he, ok := expl[id]
				w.OracleEval(1)
				if !ok || he.expl == nil {
					bm25Fail(w, "e2e-explain-missing", "hit without explanation when ExplainScores is set", meta)
					continue
				}
				if math.Float64bits(he.expl.Value) != math.Float64bits(h.score) || math.Float64bits(he.score) != math.Float64bits(h.score) {
					bm25Fail(w, "explain-root-not-score", fmt.Sprintf("explanation value %v, score with explanation %v, score without %v", he.expl.Value, he.score, h.score), meta)
				}
				bm25CheckTree(w, he.expl, meta)
				// "its matching parts": every term-score node of the tree is the score the term query
				// yields for this document on its own
				var lv []bm25TermLeaf
				bm25TermLeaves(he.expl, &lv)
				for _, l := range lv {
					found := false
					for k, sc := range termScores {
						if s, ok := sc[id]; ok && math.Float64bits(s) == math.Float64bits(l.value) && df[k.field][k.term] == l.n {
							found = true
							break
						}
					}
					w.OracleEval(1)
					if !found && (l.boost == 1 || l.boost == 2 || l.boost == 0.5 || l.boost == 3.7) {
						bm25Fail(w, "law-composite-parts", fmt.Sprintf("a term part scores %v inside the compound query but no term query scores that for the document", l.value), meta)
					}
				}
				if emitted < 2 || rng.Intn(8) == 0 {
					emitted++
					lt := bm25LogTable{}
					if shp, ok := bm25ShapeOf(he.expl, lt); ok {
						bm25Add(w, fmt.Sprintf("CTree %s %s %s", shp, lt.coq(), bm25CoqTree(he.expl)), "e2e-tree", len(lv) > 1, meta)
					} else {
						bm25Add(w, fmt.Sprintf("CTree (SConstant 0 false) [] %s", bm25CoqTree(he.expl)), "e2e-tree-unknown-shape", true, meta)
					}
				}
			}
			// a boost scales the score linearly: the same query with its boost doubled
			base := q.boost
			if base == 0 {
				base = 1
			}
			q2 := q.withBoost(base * 2)
			plain2, err := bm25E2eSearch(w, rd, q2.build(), false, q2.desc())
			if err != nil {
				return err
			}
			if plain2 != nil {
				for _, id := range ids {
					s2, ok := plain2[id]
					w.OracleEval(1)
					if !ok || s2.score != 2*plain[id].score {
						key := "law-boost-linear"
						if q.kind == "match" {
							key = "match-query-boost-squared"
						}
						bm25Fail(w, key, fmt.Sprintf("score %v with boost %v, score %v with boost %v", plain[id].score, base, s2.score, base*2),
							map[string]interface{}{"query": q.desc(), "doc": id})
					}
				}
			}
		}
		if err := bm25BoostKinds(w, rng, rd, docs[0].body, vocab); err != nil {
			return err
		}
		rd.Close()
		wr.Close()
	}
	return nil
}

var bm25E2eEpoch = time.Date(2020, 1, 1, 0, 0, 0, 0, time.UTC)

type bm25Kind struct {
	name string
	mk   func(boost float64) bluge.Query // boost 0: SetBoost not called
}

// bm25BoostKinds: "a boost scales the score linearly" for every public query type that accepts
// SetBoost (and boolean queries nesting them): the hits are the same and
// score(boost c) = c * score(no boost) — bit for bit for c in {1, 0.5, 2} (scaling by a power of
// two commutes with every rounding), within 512 ulp for c = 3 (one rounding per operation on the
// way from the leaves).  With ExplainScores the explanation must still derive the score.
func bm25BoostKinds(w *cq.Writer, rng *rand.Rand, rd *bluge.Reader, text []string, vocab []string) error {
	t0, t1 := text[0], text[0]
	if len(text) > 1 {
		t1 = text[1]
	}
	sb := func(b float64, f func(float64)) {
		if b != 0 {
			f(b)
		}
	}
	var kinds []bm25Kind
	add := func(name string, mk func(boost float64) bluge.Query) { kinds = append(kinds, bm25Kind{name, mk}) }
	add("term", func(b float64) bluge.Query {
		q := bluge.NewTermQuery("alfa").SetField("body")
		sb(b, func(b float64) { q.SetBoost(b) })
		return q
	})
	for _, fz := range []struct {
		term   string
		f, pre int
	}{{"alfa", 1, 0}, {"alfo", 1, 0}, {"brovo", 2, 1}, {"charlie", 0, 0}} {
		fz := fz
		add(fmt.Sprintf("fuzzy(%s,%d,%d)", fz.term, fz.f, fz.pre), func(b float64) bluge.Query {
			q := bluge.NewFuzzyQuery(fz.term).SetField("body").SetFuzziness(fz.f).SetPrefix(fz.pre)
			sb(b, func(b float64) { q.SetBoost(b) })
			return q
		})
	}
	for _, p := range []string{"al", "b", "c", ""} {
		p := p
		add("prefix("+p+")", func(b float64) bluge.Query {
			q := bluge.NewPrefixQuery(p).SetField("body")
			sb(b, func(b float64) { q.SetBoost(b) })
			return q
		})
	}
	for _, p := range []string{"*a", "b?avo", "*", "*l*"} {
		p := p
		add("wildcard("+p+")", func(b float64) bluge.Query {
			q := bluge.NewWildcardQuery(p).SetField("body")
			sb(b, func(b float64) { q.SetBoost(b) })
			return q
		})
	}
	for _, p := range []string{"[a-c].*", "(alfa|echo)", ".*o"} {
		p := p
		add("regexp("+p+")", func(b float64) bluge.Query {
			q := bluge.NewRegexpQuery(p).SetField("body")
			sb(b, func(b float64) { q.SetBoost(b) })
			return q
		})
	}
	add("termrange", func(b float64) bluge.Query {
		q := bluge.NewTermRangeQuery("alfa", "delta").SetField("body")
		sb(b, func(b float64) { q.SetBoost(b) })
		return q
	})
	add("termrange-inclusive", func(b float64) bluge.Query {
		q := bluge.NewTermRangeInclusiveQuery("bravo", "echo", true, true).SetField("body")
		sb(b, func(b float64) { q.SetBoost(b) })
		return q
	})
	add("numericrange", func(b float64) bluge.Query {
		q := bluge.NewNumericRangeQuery(2, 9).SetField("num")
		sb(b, func(b float64) { q.SetBoost(b) })
		return q
	})
	add("numericrange-inclusive", func(b float64) bluge.Query {
		q := bluge.NewNumericRangeInclusiveQuery(0, 5, true, true).SetField("num")
		sb(b, func(b float64) { q.SetBoost(b) })
		return q
	})
	add("daterange", func(b float64) bluge.Query {
		q := bluge.NewDateRangeQuery(bm25E2eEpoch.Add(90*time.Minute), bm25E2eEpoch.Add(8*time.Hour)).SetField("when")
		sb(b, func(b float64) { q.SetBoost(b) })
		return q
	})
	add("geoboundingbox", func(b float64) bluge.Query {
		q := bluge.NewGeoBoundingBoxQuery(-1, 5, 4, -1).SetField("loc")
		sb(b, func(b float64) { q.SetBoost(b) })
		return q
	})
	add("geodistance", func(b float64) bluge.Query {
		q := bluge.NewGeoDistanceQuery(1, 1, "300km").SetField("loc")
		sb(b, func(b float64) { q.SetBoost(b) })
		return q
	})
	add("geopolygon", func(b float64) bluge.Query {
		q := bluge.NewGeoBoundingPolygonQuery([]geo.Point{{Lon: -1, Lat: -1}, {Lon: 5, Lat: -1}, {Lon: 5, Lat: 4}, {Lon: -1, Lat: 4}}).SetField("loc")
		sb(b, func(b float64) { q.SetBoost(b) })
		return q
	})
	for _, m := range []struct {
		text   string
		and    bool
		f, pre int
	}{{"alfa bravo", false, 0, 0}, {"alfa bravo", true, 0, 0}, {"alfo brovo charlie", false, 1, 0}, {"alfo bravo", true, 1, 1},
		{"alfa delta echo", false, 2, 0}, {t0 + " " + t1, true, 1, 0}} {
		m := m
		add(fmt.Sprintf("match(%s,and=%v,fuzz=%d,prefix=%d)", m.text, m.and, m.f, m.pre), func(b float64) bluge.Query {
			q := bluge.NewMatchQuery(m.text).SetField("body").SetFuzziness(m.f).SetPrefix(m.pre)
			if m.and {
				q.SetOperator(bluge.MatchQueryOperatorAnd)
			}
			sb(b, func(b float64) { q.SetBoost(b) })
			return q
		})
	}
	for _, slop := range []int{0, 2} {
		slop := slop
		add(fmt.Sprintf("matchphrase(slop=%d)", slop), func(b float64) bluge.Query {
			q := bluge.NewMatchPhraseQuery(t0 + " " + t1).SetField("ptext").SetSlop(slop)
			sb(b, func(b float64) { q.SetBoost(b) })
			return q
		})
	}
	mpAlt := vocab[rng.Intn(2)]
	add("multiphrase", func(b float64) bluge.Query {
		q := bluge.NewMultiPhraseQuery([][]string{{t0, "zulu"}, {t1, mpAlt}}).SetField("ptext")
		sb(b, func(b float64) { q.SetBoost(b) })
		return q
	})
	add("matchall", func(b float64) bluge.Query {
		q := bluge.NewMatchAllQuery()
		sb(b, func(b float64) { q.SetBoost(b) })
		return q
	})
	add("matchnone", func(b float64) bluge.Query {
		q := bluge.NewMatchNoneQuery()
		sb(b, func(b float64) { q.SetBoost(b) })
		return q
	})
	// boolean queries nesting the kinds above: the outer boost varies, inner boosts are fixed
	nk := len(kinds)
	for i := 0; i < 10; i++ {
		a, c, d := kinds[rng.Intn(nk)], kinds[rng.Intn(nk)], kinds[rng.Intn(nk)]
		inner := []float64{0, 2, 0.5}[rng.Intn(3)]
		shape := rng.Intn(3)
		add(fmt.Sprintf("bool%d[%s | %s | %s]^inner=%v", shape, a.name, c.name, d.name, inner), func(b float64) bluge.Query {
			q := bluge.NewBooleanQuery()
			switch shape {
			case 0:
				q.AddMust(a.mk(inner)).AddShould(c.mk(0), d.mk(inner))
			case 1:
				q.AddShould(a.mk(inner), c.mk(0)).AddMustNot(d.mk(0))
			default:
				q.AddMust(a.mk(0), c.mk(inner)).AddShould(d.mk(0))
			}
			sb(b, func(b float64) { q.SetBoost(b) })
			return q
		})
	}
	// the varied boost on an inner query of a boolean query (the outer one carries none)
	for i := 0; i < 6; i++ {
		a, c := kinds[rng.Intn(nk)], kinds[rng.Intn(nk)]
		add(fmt.Sprintf("must-only[%s]+filter[%s]", a.name, c.name), func(b float64) bluge.Query {
			return bluge.NewBooleanQuery().AddMust(a.mk(b)).AddMustNot(c.mk(0))
		})
	}

	for _, k := range kinds {
		desc := map[string]interface{}{"kind": k.name}
		base, err := bm25E2eSearch(w, rd, k.mk(0), false, desc)
		if err != nil {
			return fmt.Errorf("%s: %w", k.name, err)
		}
		if base == nil {
			continue
		}
		w.Count("boost_kinds", 1)
		if len(base) > 0 {
			w.Count("boost_kinds_with_hits", 1)
		}
		keyKind := k.name
		if i := strings.IndexAny(keyKind, "(["); i >= 0 {
			keyKind = keyKind[:i]
		}
		for _, c := range []float64{1, 0.5, 2, 3} {
			desc := map[string]interface{}{"kind": k.name, "boost": c}
			got, err := bm25E2eSearch(w, rd, k.mk(c), false, desc)
			if err != nil {
				return fmt.Errorf("%s^%v: %w", k.name, c, err)
			}
			if got == nil {
				continue
			}
			w.OracleEval(1)
			if len(got) != len(base) {
				bm25Fail(w, "law-boost-linear:"+keyKind, fmt.Sprintf("%d hits without boost, %d hits with boost %v", len(base), len(got), c), desc)
				continue
			}
			for id, h := range base {
				g, ok := got[id]
				w.OracleEval(1)
				if !ok {
					bm25Fail(w, "law-boost-linear:"+keyKind, "document "+id+" no longer matches when the query is boosted", desc)
					break
				}
				want := c * h.score
				bad := g.score != want
				if c == 3 {
					bad = math.Abs(g.score-want) > 512*math.Abs(want)/(1<<53)
				}
				if bad {
					bm25Fail(w, "law-boost-linear:"+keyKind, fmt.Sprintf("doc %s scores %v without boost and %v with boost %v (linear: %v)", id, h.score, g.score, c, want), desc)
					break
				}
			}
		}
		// explanation derives the score for this kind too (boost 2)
		desc["boost"] = 2.0
		plain, err := bm25E2eSearch(w, rd, k.mk(2), false, desc)
		if err != nil {
			return err
		}
		expl, err := bm25E2eSearch(w, rd, k.mk(2), true, desc)
		if err != nil {
			return err
		}
		if plain == nil || expl == nil {
			continue
		}
		n := 0
		for id, h := range plain {
			if n++; n > 4 {
				break
			}
			he, ok := expl[id]
			w.OracleEval(1)
			meta := map[string]interface{}{"kind": k.name, "boost": 2.0, "doc": id}
			if !ok || he.expl == nil {
				bm25Fail(w, "e2e-explain-missing", "hit without explanation when ExplainScores is set", meta)
				continue
			}
			if math.Float64bits(he.expl.Value) != math.Float64bits(h.score) {
				bm25Fail(w, "explain-root-not-score", fmt.Sprintf("explanation value %v, score without explanation %v", he.expl.Value, h.score), meta)
			}
			bm25CheckTree(w, he.expl, meta)
		}
	}
	return nil
}

// bm25FieldsEqualStats: two hits share collection statistics when they come from the same field
// ("field:term^boost@doc").
func bm25FieldsEqualStats(a, b string) bool {
	return a[:strings.Index(a, ":")] == b[:strings.Index(b, ":")]
}
