package engines

// Engine aggs (C16): generated match lists / in-memory indexes x aggregation trees (metrics,
// terms, numeric and date ranges, cardinality, quantiles; metrics nested under bucket
// aggregations) x collector settings (AllMatches; TopNSearch with n / from / sort / After /
// Before including n = 0; the collector called directly).  Every aggregation value read back
// from the implementation becomes part of a correspondence case for Search/AggsCorr.v; the
// property itself is evaluated directly in Go by counting over the generator's own knowledge
// of the matched documents (independent of the collector path and of the model).

import (
	"bytes"
	"context"
	"fmt"
	"math"
	"math/rand"
	"sort"
	"strings"
	"time"

	"github.com/axiomhq/hyperloglog"
	"github.com/blugelabs/bluge"
	"github.com/blugelabs/bluge/index"
	"github.com/blugelabs/bluge/numeric"
	"github.com/blugelabs/bluge/search"
	"github.com/blugelabs/bluge/search/aggregations"
	"github.com/blugelabs/bluge/search/collector"

	"verif/harness/cq"
)

func init() { Registry["aggs"] = runAggs }

// ---------------------------------------------------------------- specs of sources / aggregations

type aggsNSrc struct {
	kind  int // 0 field, 1 score, 3 missing(p, r), 4 filter v >= c
	field int
	p, r  *aggsNSrc
	c     float64
}

func (s *aggsNSrc) coq() string {
	switch s.kind {
	case 0:
		return fmt.Sprintf("(NSField %d)", s.field)
	case 1:
		return "NSScore"
	case 3:
		return fmt.Sprintf("(NSMissing %s %s)", s.p.coq(), s.r.coq())
	default:
		return fmt.Sprintf("(NSFilterGe %s %s)", s.p.coq(), aggsCoqQ(s.c))
	}
}

func (s *aggsNSrc) String() string {
	switch s.kind {
	case 0:
		return topnFieldName(s.field)
	case 1:
		return "_score"
	case 3:
		return fmt.Sprintf("missing(%s,%s)", s.p, s.r)
	default:
		return fmt.Sprintf("filter(%s>=%v)", s.p, s.c)
	}
}

func (s *aggsNSrc) build() search.NumericValuesSource {
	switch s.kind {
	case 0:
		return search.Field(topnFieldName(s.field))
	case 1:
		return search.DocumentScore()
	case 3:
		return search.MissingNumeric(s.p.build(), s.r.build())
	default:
		c := s.c
		return aggregations.FilterNumeric(s.p.build(), func(v float64) bool { return v >= c })
	}
}

// values of the source on a document, from the generator's knowledge (oracle side)
func (s *aggsNSrc) values(d *aggsDoc) []float64 {
	switch s.kind {
	case 0:
		return d.nums[s.field]
	case 1:
		return []float64{d.score}
	case 3:
		if v := s.p.values(d); len(v) > 0 {
			return v
		}
		return s.r.values(d)
	default:
		var out []float64
		for _, v := range s.p.values(d) {
			if v >= s.c {
				out = append(out, v)
			}
		}
		return out
	}
}

type aggsVSrc struct {
	field  int
	prefix []byte // nil = plain field
}

func (s *aggsVSrc) coq() string {
	if s.prefix == nil {
		return fmt.Sprintf("(VSField %d)", s.field)
	}
	return fmt.Sprintf("(VSFilterPrefix (VSField %d) %s)", s.field, cq.Bytes(s.prefix))
}
func (s *aggsVSrc) String() string {
	if s.prefix == nil {
		return topnFieldName(s.field)
	}
	return fmt.Sprintf("prefix(%s,%q)", topnFieldName(s.field), s.prefix)
}
func (s *aggsVSrc) build() search.TextValuesSource {
	if s.prefix == nil {
		return search.Field(topnFieldName(s.field))
	}
	p := s.prefix
	return aggregations.FilterText(search.Field(topnFieldName(s.field)), func(v []byte) bool { return bytes.HasPrefix(v, p) })
}
func (s *aggsVSrc) values(d *aggsDoc) []string {
	var out []string
	for _, t := range topnKeywordTerms(d.kw[s.field]) { // a document's doc values are its distinct terms
		if s.prefix == nil || bytes.HasPrefix(t, s.prefix) {
			out = append(out, string(t))
		}
	}
	return out
}

// aggsDoc: what the oracle knows about a document
type aggsDoc struct {
	number uint64
	score  float64
	kw     map[int][]string
	nums   map[int][]float64
	dates  map[int][]int64
}

type aggsSpec struct {
	kind   string // sum min max maxfrom avg wavg count card quant terms range daterange
	ns     *aggsNSrc
	weight *aggsNSrc
	vs     *aggsVSrc
	init   float64
	size   int
	ranges [][2]float64 // numeric
	dfield int
	dates  [][2]*int64
	subs   []aggsNamed
	nested bool // a sketch metric inside a bucket aggregation: only its estimate is observable
}

type aggsNamed struct {
	id  int // 0 = "count"
	agg *aggsSpec
}

func aggsName(id int) string {
	if id == 0 {
		return "count"
	}
	return fmt.Sprintf("a%d", id)
}

func aggsCoqQ(f float64) string {
	// dyadic rationals only (generator values)
	den := int64(1)
	for f != math.Trunc(f) && den < 1<<20 {
		f *= 2
		den *= 2
	}
	return fmt.Sprintf("(%s # %d)%%Q", cq.Z(int64(f)), den)
}

func aggsCoqX(f float64) string { return fmt.Sprintf("(xq_of_bits %s)", cq.U(math.Float64bits(f))) }

func aggsCoqSubs(subs []aggsNamed) string {
	it := make([]string, len(subs))
	for i, s := range subs {
		it[i] = cq.Pair(cq.I(s.id), s.agg.coq())
	}
	return cq.List(it)
}

func (a *aggsSpec) coq() string {
	switch a.kind {
	case "sum":
		return fmt.Sprintf("(a_sum %s)", a.ns.coq())
	case "count":
		return "a_count"
	case "min":
		return fmt.Sprintf("(a_min %s)", a.ns.coq())
	case "max":
		return fmt.Sprintf("(a_max %s)", a.ns.coq())
	case "maxfrom":
		return fmt.Sprintf("(ASingle OpMax %s %s)", a.ns.coq(), aggsCoqX(a.init))
	case "avg":
		return fmt.Sprintf("(AWAvg %s None)", a.ns.coq())
	case "wavg":
		return fmt.Sprintf("(AWAvg %s (Some %s))", a.ns.coq(), a.weight.coq())
	case "card":
		return fmt.Sprintf("(ACard %s)", a.vs.coq())
	case "quant":
		return fmt.Sprintf("(AQuant %s)", a.ns.coq())
	case "terms":
		return fmt.Sprintf("(ATerms %s %s %s)", a.vs.coq(), cq.I(a.size), aggsCoqSubs(a.subs))
	case "range":
		it := make([]string, len(a.ranges))
		for i, r := range a.ranges {
			it[i] = cq.Pair(aggsCoqX(r[0]), aggsCoqX(r[1]))
		}
		return fmt.Sprintf("(ARange %s %s %s)", a.ns.coq(), cq.List(it), aggsCoqSubs(a.subs))
	default:
		it := make([]string, len(a.dates))
		for i, r := range a.dates {
			lo, hi := "None", "None"
			if r[0] != nil {
				lo = cq.Some(cq.Z(*r[0]))
			}
			if r[1] != nil {
				hi = cq.Some(cq.Z(*r[1]))
			}
			it[i] = cq.Pair(lo, hi)
		}
		return fmt.Sprintf("(ADateRange %d %s %s)", a.dfield, cq.List(it), aggsCoqSubs(a.subs))
	}
}

func (a *aggsSpec) String() string {
	var subs []string
	for _, s := range a.subs {
		if s.id != 0 {
			subs = append(subs, aggsName(s.id)+"="+s.agg.String())
		}
	}
	sub := ""
	if len(subs) > 0 {
		sub = "{" + strings.Join(subs, " ") + "}"
	}
	switch a.kind {
	case "count":
		return "count"
	case "wavg":
		return fmt.Sprintf("wavg(%s,%s)", a.ns, a.weight)
	case "maxfrom":
		return fmt.Sprintf("maxfrom(%s,%v)", a.ns, a.init)
	case "card":
		return fmt.Sprintf("card(%s)", a.vs)
	case "terms":
		return fmt.Sprintf("terms(%s,%d)%s", a.vs, a.size, sub)
	case "range":
		return fmt.Sprintf("range(%s,%v)%s", a.ns, a.ranges, sub)
	case "daterange":
		var rs []string
		for _, r := range a.dates {
			lo, hi := "-", "-"
			if r[0] != nil {
				lo = fmt.Sprint(*r[0])
			}
			if r[1] != nil {
				hi = fmt.Sprint(*r[1])
			}
			rs = append(rs, "["+lo+","+hi+")")
		}
		return fmt.Sprintf("daterange(%s,%v)%s", topnFieldName(a.dfield), rs, sub)
	default:
		return fmt.Sprintf("%s(%s)", a.kind, a.ns)
	}
}

// recording sources: what a sketch calculator is handed
type aggsRecText struct {
	inner search.TextValuesSource
	log   *[][]byte
}

func (r *aggsRecText) Fields() []string { return r.inner.Fields() }
func (r *aggsRecText) Values(m *search.DocumentMatch) [][]byte {
	vs := r.inner.Values(m)
	for _, v := range vs {
		*r.log = append(*r.log, append([]byte{}, v...))
	}
	return vs
}

type aggsRecNum struct {
	inner search.NumericValuesSource
	log   *[]float64
}

func (r *aggsRecNum) Fields() []string { return r.inner.Fields() }
func (r *aggsRecNum) Numbers(m *search.DocumentMatch) []float64 {
	vs := r.inner.Numbers(m)
	*r.log = append(*r.log, vs...)
	return vs
}

// aggsBuilt: a bluge aggregation built from a spec, with the logs of its recording sources
type aggsBuilt struct {
	agg     search.Aggregation
	textLog *[][]byte
	numLog  *[]float64
}

func (a *aggsSpec) build() aggsBuilt {
	addSubs := func(add func(name string, agg search.Aggregation)) {
		for _, s := range a.subs {
			if s.id != 0 {
				add(aggsName(s.id), s.agg.build().agg)
			}
		}
	}
	switch a.kind {
	case "sum":
		return aggsBuilt{agg: aggregations.Sum(a.ns.build())}
	case "count":
		return aggsBuilt{agg: aggregations.CountMatches()}
	case "min":
		return aggsBuilt{agg: aggregations.Min(a.ns.build())}
	case "max":
		return aggsBuilt{agg: aggregations.Max(a.ns.build())}
	case "maxfrom":
		return aggsBuilt{agg: aggregations.MaxStartingAt(a.ns.build(), a.init)}
	case "avg":
		return aggsBuilt{agg: aggregations.Avg(a.ns.build())}
	case "wavg":
		return aggsBuilt{agg: aggregations.WeightedAvg(a.ns.build(), a.weight.build())}
	case "card":
		if a.nested {
			return aggsBuilt{agg: aggregations.Cardinality(a.vs.build())}
		}
		log := &[][]byte{}
		return aggsBuilt{agg: aggregations.Cardinality(&aggsRecText{inner: a.vs.build(), log: log}), textLog: log}
	case "quant":
		if a.nested {
			return aggsBuilt{agg: aggregations.Quantiles(a.ns.build())}
		}
		log := &[]float64{}
		return aggsBuilt{agg: aggregations.Quantiles(&aggsRecNum{inner: a.ns.build(), log: log}), numLog: log}
	case "terms":
		t := aggregations.NewTermsAggregation(a.vs.build(), a.size)
		addSubs(t.AddAggregation)
		return aggsBuilt{agg: t}
	case "range":
		r := aggregations.Ranges(a.ns.build())
		for i, rg := range a.ranges {
			r.AddRange(aggregations.NamedRange(fmt.Sprintf("r%d", i), rg[0], rg[1]))
		}
		addSubs(func(n string, g search.Aggregation) { r.AddAggregation(n, g) })
		return aggsBuilt{agg: r}
	default:
		r := aggregations.DateRanges(search.Field(topnFieldName(a.dfield)))
		for i, rg := range a.dates {
			var lo, hi time.Time
			if rg[0] != nil {
				lo = time.Unix(0, *rg[0])
			}
			if rg[1] != nil {
				hi = time.Unix(0, *rg[1])
			}
			r.AddRange(aggregations.NewNamedDateRange(fmt.Sprintf("r%d", i), lo, hi))
		}
		addSubs(func(n string, g search.Aggregation) { r.AddAggregation(n, g) })
		return aggsBuilt{agg: r}
	}
}

// ---------------------------------------------------------------- reading results back

type aggsObs struct {
	coq   string
	value float64         // metrics
	bks   []aggsObsBucket // bucket aggregations, returned order
	other int
	fedT  [][]byte
	fedN  []float64
	calc  search.Calculator
}

type aggsObsBucket struct {
	name string
	subs []aggsObs
}

func aggsReadSubs(subs []aggsNamed, b *search.Bucket) ([]aggsObs, string) {
	out := make([]aggsObs, len(subs))
	it := make([]string, len(subs))
	for i, s := range subs {
		out[i] = aggsRead(s.agg, b.Aggregations()[aggsName(s.id)], aggsBuilt{})
		it[i] = out[i].coq
	}
	return out, cq.List(it)
}

// aggsSketchOnly: read sketch calculators by their estimate only (merged buckets: the recording
// logs belong to the shards)
var aggsSketchOnly bool

func aggsRead(a *aggsSpec, c search.Calculator, built aggsBuilt) aggsObs {
	o := aggsObs{calc: c}
	switch a.kind {
	case "card":
		o.value = c.(search.MetricCalculator).Value()
		if a.nested || aggsSketchOnly {
			o.coq = "OSketch"
			break
		}
		if built.textLog != nil {
			o.fedT = *built.textLog
		}
		o.coq = fmt.Sprintf("(OFedT %s)", cq.BytesList(o.fedT))
	case "quant":
		if a.nested || aggsSketchOnly {
			o.coq = "OSketch"
			break
		}
		if built.numLog != nil {
			o.fedN = *built.numLog
		}
		bits := make([]uint64, len(o.fedN))
		for i, v := range o.fedN {
			bits[i] = math.Float64bits(v)
		}
		o.coq = fmt.Sprintf("(OFedN %s)", cq.U64List(bits))
	case "terms":
		tc := c.(*aggregations.TermsCalculator)
		o.other = tc.Other()
		var it []string
		for _, b := range tc.Buckets() {
			subs, s := aggsReadSubs(a.subs, b)
			o.bks = append(o.bks, aggsObsBucket{name: b.Name(), subs: subs})
			it = append(it, cq.Pair(cq.Str(b.Name()), s))
		}
		o.coq = fmt.Sprintf("(OTerms %s %s)", cq.List(it), cq.I(o.other))
	case "range", "daterange":
		var it []string
		for _, b := range c.(search.BucketCalculator).Buckets() {
			subs, s := aggsReadSubs(a.subs, b)
			o.bks = append(o.bks, aggsObsBucket{name: b.Name(), subs: subs})
			it = append(it, s)
		}
		o.coq = fmt.Sprintf("(OBuckets %s)", cq.List(it))
	default:
		o.value = c.(search.MetricCalculator).Value()
		o.coq = fmt.Sprintf("(OVal %s)", cq.U(math.Float64bits(o.value)))
	}
	return o
}

// ---------------------------------------------------------------- the oracle: direct counting

type aggsFail struct{ what string }

func aggsFloatEq(a, b float64) bool {
	return a == b || (math.IsNaN(a) && math.IsNaN(b))
}

// aggsExpectMetric computes a metric over a list of documents (with multiplicity) directly.
func aggsExpectMetric(a *aggsSpec, docs []*aggsDoc) (float64, bool) {
	switch a.kind {
	case "count":
		return float64(len(docs)), true
	case "sum":
		s := 0.0
		for _, d := range docs {
			for _, v := range a.ns.values(d) {
				s += v
			}
		}
		return s, true
	case "min":
		m := math.Inf(1)
		for _, d := range docs {
			for _, v := range a.ns.values(d) {
				m = math.Min(m, v)
			}
		}
		return m, true
	case "max", "maxfrom":
		m := math.Inf(-1)
		if a.kind == "maxfrom" {
			m = a.init
		}
		for _, d := range docs {
			for _, v := range a.ns.values(d) {
				m = math.Max(m, v)
			}
		}
		return m, true
	case "avg", "wavg":
		num, den := 0.0, 0.0
		for _, d := range docs {
			w := 1.0
			if a.kind == "wavg" {
				if ws := a.weight.values(d); len(ws) > 0 {
					w = ws[0]
				}
			}
			for _, v := range a.ns.values(d) {
				num += v * w
				den += w
			}
		}
		return num / den, true
	}
	return 0, false
}

// aggsOracle checks one observed aggregation against direct counting over docs (the matched
// documents, in hit order; with multiplicity inside buckets).  exactSubs: nested metrics are
// judged only when every document enters a bucket at most once.
func aggsOracle(w *cq.Writer, path string, a *aggsSpec, o aggsObs, docs []*aggsDoc, fail func(key, why string)) {
	w.OracleEval(1)
	switch a.kind {
	case "card":
		sk := hyperloglog.New16()
		for _, d := range docs {
			for _, v := range a.vs.values(d) {
				sk.Insert([]byte(v))
			}
		}
		if float64(sk.Estimate()) != o.value {
			fail("C16-cardinality", fmt.Sprintf("%s: cardinality %v differs from a sketch fed the matched values directly (%d)", path, o.value, sk.Estimate()))
		}
	case "quant":
		qc := o.calc.(*aggregations.QuantilesCalculator)
		var vals []float64
		for _, d := range docs {
			vals = append(vals, a.ns.values(d)...)
		}
		if len(vals) == 0 {
			return
		}
		lo, hi := vals[0], vals[0]
		for _, v := range vals {
			lo, hi = math.Min(lo, v), math.Max(hi, v)
		}
		prev := math.Inf(-1)
		for _, r := range []float64{0, 0.01, 0.1, 0.25, 0.5, 0.75, 0.9, 0.99, 1} {
			q, err := qc.Quantile(r)
			if err != nil || q < lo || q > hi || q < prev {
				// a deficit of a few units in the last place is t-digest's own interpolation rounding
				key := "C16-quantile"
				tol := 1e-9 * math.Max(1, math.Max(math.Abs(lo), math.Abs(hi)))
				if err == nil && q >= lo-tol && q <= hi+tol && q >= prev-tol {
					key = "C16-quantile-ulp"
				}
				fail(key, fmt.Sprintf("%s: quantile(%v)=%v outside [%v,%v] or below the previous rank's %v", path, r, q, lo, hi, prev))
				return
			}
			prev = q
		}
	case "terms":
		counts := map[string]int{}
		members := map[string][]*aggsDoc{}
		single := true
		for _, d := range docs {
			vs := a.vs.values(d)
			if len(vs) > 1 {
				single = false
			}
			for _, v := range vs {
				counts[v]++
				members[v] = append(members[v], d)
			}
		}
		want := a.size
		if want > len(counts) {
			want = len(counts)
		}
		if len(o.bks) != want {
			fail("C16-terms", fmt.Sprintf("%s: %d buckets returned, want %d", path, len(o.bks), want))
			return
		}
		returned := map[string]bool{}
		sum := 0
		minRet := math.MaxInt32
		for _, b := range o.bks {
			cnt := int(b.subs[0].value)
			if returned[b.name] || counts[b.name] != cnt {
				fail("C16-terms", fmt.Sprintf("%s: bucket %q has count %d, direct counting gives %d", path, b.name, cnt, counts[b.name]))
				return
			}
			returned[b.name] = true
			sum += cnt
			if cnt < minRet {
				minRet = cnt
			}
			for i, s := range a.subs {
				if i > 0 {
					aggsOracle(w, path+"/"+b.name+"/"+aggsName(s.id), s.agg, b.subs[i], members[b.name], fail)
				}
			}
		}
		for t, c := range counts {
			if !returned[t] && want > 0 && c > minRet {
				fail("C16-terms", fmt.Sprintf("%s: bucket %q (count %d) left out although a returned bucket has count %d", path, t, c, minRet))
				return
			}
		}
		if single && o.other+sum != len(docs) {
			fail("C16-terms-other", fmt.Sprintf("%s: other=%d + returned=%d != matches=%d", path, o.other, sum, len(docs)))
		}
	case "range", "daterange":
		n := len(a.ranges)
		if a.kind == "daterange" {
			n = len(a.dates)
		}
		if len(o.bks) != n {
			fail("C16-range", fmt.Sprintf("%s: %d buckets, want %d", path, len(o.bks), n))
			return
		}
		for i := 0; i < n; i++ {
			var members []*aggsDoc
			exact := true
			for _, d := range docs {
				k := 0
				if a.kind == "range" {
					for _, v := range a.ns.values(d) {
						if v >= a.ranges[i][0] && v < a.ranges[i][1] {
							k++
						}
					}
				} else {
					for _, v := range d.dates[a.dfield] {
						if (a.dates[i][0] == nil || v >= *a.dates[i][0]) && (a.dates[i][1] == nil || v < *a.dates[i][1]) {
							k++
						}
					}
				}
				if k > 1 {
					exact = false
				}
				for ; k > 0; k-- {
					members = append(members, d)
				}
			}
			if int(o.bks[i].subs[0].value) != len(members) {
				fail("C16-range", fmt.Sprintf("%s: range %d has count %v, direct counting gives %d", path, i, o.bks[i].subs[0].value, len(members)))
				return
			}
			if exact {
				for j, s := range a.subs {
					if j > 0 {
						aggsOracle(w, fmt.Sprintf("%s/r%d/%s", path, i, aggsName(s.id)), s.agg, o.bks[i].subs[j], members, fail)
					}
				}
			}
		}
	default:
		want, ok := aggsExpectMetric(a, docs)
		if ok && !aggsFloatEq(want, o.value) {
			fail("C16-metric", fmt.Sprintf("%s: %s = %v, direct computation over the matched documents gives %v", path, a, o.value, want))
		}
	}
}

// ---------------------------------------------------------------- generators

func aggsGenNSrc(rng *rand.Rand, depth int) *aggsNSrc {
	switch r := rng.Intn(10); {
	case r < 5:
		return &aggsNSrc{kind: 0, field: []int{1, 5, 6, 1}[rng.Intn(4)]}
	case r < 6:
		return &aggsNSrc{kind: 1}
	case r < 8 && depth > 0:
		return &aggsNSrc{kind: 3, p: aggsGenNSrc(rng, depth-1), r: aggsGenNSrc(rng, depth-1)}
	case depth > 0:
		return &aggsNSrc{kind: 4, p: aggsGenNSrc(rng, depth-1), c: []float64{0, 1, 0.5, -1}[rng.Intn(4)]}
	}
	return &aggsNSrc{kind: 0, field: 5}
}

func aggsGenVSrc(rng *rand.Rand) *aggsVSrc {
	s := &aggsVSrc{field: []int{0, 3, 0}[rng.Intn(3)]}
	if rng.Intn(5) == 0 {
		s.prefix = []byte([]string{"a", "b", ""}[rng.Intn(3)])
	}
	return s
}

func aggsGenMetric(rng *rand.Rand) *aggsSpec {
	switch rng.Intn(11) {
	case 8, 9:
		return &aggsSpec{kind: "card", vs: aggsGenVSrc(rng), nested: true}
	case 10:
		return &aggsSpec{kind: "quant", ns: aggsGenNSrc(rng, 1), nested: true}
	case 0:
		return &aggsSpec{kind: "sum", ns: aggsGenNSrc(rng, 1)}
	case 1:
		return &aggsSpec{kind: "min", ns: aggsGenNSrc(rng, 1)}
	case 2:
		return &aggsSpec{kind: "max", ns: aggsGenNSrc(rng, 1)}
	case 3:
		return &aggsSpec{kind: "maxfrom", ns: aggsGenNSrc(rng, 1), init: []float64{0, 1, -5}[rng.Intn(3)]}
	case 4:
		return &aggsSpec{kind: "avg", ns: aggsGenNSrc(rng, 1)}
	case 5:
		return &aggsSpec{kind: "wavg", ns: aggsGenNSrc(rng, 1), weight: &aggsNSrc{kind: 0, field: 6}}
	case 6:
		return &aggsSpec{kind: "count"}
	}
	return &aggsSpec{kind: "sum", ns: &aggsNSrc{kind: 0, field: 1}}
}

var aggsBounds = []float64{math.Inf(-1), -1000, -2, -1, 0, 0.5, 1, 2, 3, 1000, 1001, math.Inf(1)}

func aggsGenAgg(rng *rand.Rand, nextID *int, top bool) *aggsSpec {
	genSubs := func() []aggsNamed {
		subs := []aggsNamed{{0, &aggsSpec{kind: "count"}}}
		for k := rng.Intn(3); k > 0; k-- {
			*nextID++
			subs = append(subs, aggsNamed{*nextID, aggsGenMetric(rng)})
		}
		return subs
	}
	r := rng.Intn(12)
	switch {
	case r < 4:
		return aggsGenMetric(rng)
	case r < 7:
		return &aggsSpec{kind: "terms", vs: aggsGenVSrc(rng), size: []int{0, 1, 2, 3, 5, 100}[rng.Intn(6)], subs: genSubs()}
	case r < 9:
		a := &aggsSpec{kind: "range", ns: aggsGenNSrc(rng, 1), subs: genSubs()}
		for k := 1 + rng.Intn(3); k > 0; k-- {
			lo, hi := aggsBounds[rng.Intn(len(aggsBounds))], aggsBounds[rng.Intn(len(aggsBounds))]
			a.ranges = append(a.ranges, [2]float64{lo, hi})
		}
		return a
	case r < 10:
		a := &aggsSpec{kind: "daterange", dfield: 2, subs: genSubs()}
		for k := 1 + rng.Intn(3); k > 0; k-- {
			var rg [2]*int64
			if rng.Intn(4) != 0 {
				v := topnDateAlphabet[rng.Intn(len(topnDateAlphabet))]
				rg[0] = &v
			}
			if rng.Intn(4) != 0 {
				v := topnDateAlphabet[rng.Intn(len(topnDateAlphabet))] + int64(rng.Intn(2))
				rg[1] = &v
			}
			a.dates = append(a.dates, rg)
		}
		return a
	case r < 11 && top:
		return &aggsSpec{kind: "card", vs: aggsGenVSrc(rng)}
	case top:
		return &aggsSpec{kind: "quant", ns: aggsGenNSrc(rng, 1)}
	}
	return aggsGenMetric(rng)
}

func aggsGenTree(rng *rand.Rand) []aggsNamed {
	id := 0
	var out []aggsNamed
	for k := 1 + rng.Intn(4); k > 0; k-- {
		id++
		my := id
		out = append(out, aggsNamed{my, aggsGenAgg(rng, &id, true)})
	}
	if rng.Intn(2) == 0 { // the standard "count"
		out = append(out, aggsNamed{0, &aggsSpec{kind: "count"}})
	}
	return out
}

func aggsTreeString(t []aggsNamed) string {
	it := make([]string, len(t))
	for i, a := range t {
		it[i] = aggsName(a.id) + "=" + a.agg.String()
	}
	return strings.Join(it, "; ")
}

// one run of the implementation: builds fresh aggregations, runs f, reads everything back
type aggsRunResult struct {
	obs      []aggsObs
	coq      string
	panicked bool
}

func aggsRun(tree []aggsNamed, f func(aggs search.Aggregations) (*search.Bucket, error)) (res aggsRunResult) {
	defer func() {
		if r := recover(); r != nil {
			res = aggsRunResult{panicked: true, coq: "None"}
		}
	}()
	aggs := search.Aggregations{}
	built := make([]aggsBuilt, len(tree))
	for i, a := range tree {
		built[i] = a.agg.build()
		aggs.Add(aggsName(a.id), built[i].agg)
	}
	b, err := f(aggs)
	if err != nil {
		panic(err)
	}
	it := make([]string, len(tree))
	for i, a := range tree {
		o := aggsRead(a.agg, b.Aggregations()[aggsName(a.id)], built[i])
		res.obs = append(res.obs, o)
		it[i] = o.coq
	}
	res.coq = cq.Some(cq.List(it))
	return res
}

// aggsReuseProbe: ONE set of aggregation objects serves two searches over different match sets
// (an application keeps its aggregation definitions around); the second search must report exactly
// the second match set's aggregations.
func aggsReuseProbe(w *cq.Writer, tree []aggsNamed, first, second func(aggs search.Aggregations) (*search.Bucket, error),
	secondDocs []*aggsDoc, input func() map[string]interface{}) {
	defer func() {
		if r := recover(); r != nil {
			w.OracleEval(1)
			in := input()
			in["panic"] = fmt.Sprint(r)
			w.OracleFail("C16-panic", "search with reused aggregation objects panicked", in)
		}
	}()
	aggs := search.Aggregations{}
	built := make([]aggsBuilt, len(tree))
	for i, a := range tree {
		built[i] = a.agg.build()
		aggs.Add(aggsName(a.id), built[i].agg)
	}
	if _, err := first(aggs); err != nil {
		panic(err)
	}
	b, err := second(aggs)
	if err != nil {
		panic(err)
	}
	w.Count("reuse:probes", 1)
	for i, a := range tree {
		o := aggsRead(a.agg, b.Aggregations()[aggsName(a.id)], built[i])
		failed := false
		aggsOracle(w, aggsName(a.id), a.agg, o, secondDocs, func(key, why string) {
			if failed {
				return
			}
			failed = true
			in := input()
			in["setting"] = "aggregation objects reused: second of two searches over different match sets"
			w.OracleFail(key, why, in)
		})
	}
}

// aggsCollectAll runs collector.AllCollector over stub docs and returns the finished root bucket
func aggsCollectAll(docs []*topnStubDoc, aggs search.Aggregations) (*search.Bucket, error) {
	it, err := collector.NewAllCollector().Collect(context.Background(), aggs, topnNewStubSearcher(docs))
	if err != nil {
		return nil, err
	}
	for {
		m, err := it.Next()
		if err != nil {
			return nil, err
		}
		if m == nil {
			return it.Aggregations(), nil
		}
	}
}

// aggsMergeCase: the match list is cut into 2-3 shards (possibly empty), each aggregated on its
// own with its own aggregation objects, then the shard buckets are merged into the first with
// Bucket.Merge, one after the other.  Every shard result and every intermediate merged result is
// part of the correspondence case; the final merged result is compared with direct counting
// over the whole list.  Terms buckets are only exact when no shard result and no intermediate
// result was trimmed, i.e. when the whole list has at most `size` distinct terms; otherwise a
// disagreement is the known approximation of merging trimmed lists.
func aggsMergeCase(rng *rand.Rand, w *cq.Writer, tree []aggsNamed, docs []*topnStubDoc, adocs []*aggsDoc, describe func() []string) {
	n := len(docs)
	nsh := 2 + rng.Intn(2)
	cuts := []int{0}
	for k := 1; k < nsh; k++ {
		cuts = append(cuts, rng.Intn(n+1))
	}
	cuts = append(cuts, n)
	sort.Ints(cuts)
	input := func() map[string]interface{} {
		return map[string]interface{}{"aggs": aggsTreeString(tree), "shard_bounds": cuts, "hits": describe()}
	}
	defer func() {
		aggsSketchOnly = false
		if r := recover(); r != nil {
			w.OracleEval(1)
			in := input()
			in["panic"] = fmt.Sprint(r)
			w.OracleFail("C16-panic", "merging shard aggregations panicked", in)
		}
	}()
	var buckets []*search.Bucket
	var builts [][]aggsBuilt
	var shardTerms []string
	for k := 0; k < nsh; k++ {
		sh := docs[cuts[k]:cuts[k+1]]
		aggs := search.Aggregations{}
		built := make([]aggsBuilt, len(tree))
		for i, a := range tree {
			built[i] = a.agg.build()
			aggs.Add(aggsName(a.id), built[i].agg)
		}
		b, err := aggsCollectAll(sh, aggs)
		if err != nil {
			panic(err)
		}
		buckets = append(buckets, b)
		builts = append(builts, built)
		it := make([]string, len(tree))
		for i, a := range tree {
			it[i] = aggsRead(a.agg, b.Aggregations()[aggsName(a.id)], built[i]).coq
		}
		hs := make([]string, len(sh))
		for i, d := range sh {
			hs[i] = topnCoqRawHit(d.number, d.score, d.dv, d.tab)
		}
		shardTerms = append(shardTerms, cq.Pair(cq.List(hs), cq.List(it)))
	}
	aggsSketchOnly = true
	var steps []string
	var final []aggsObs
	for k := 1; k < nsh; k++ {
		buckets[0].Merge(buckets[k])
		it := make([]string, len(tree))
		final = final[:0]
		for i, a := range tree {
			o := aggsRead(a.agg, buckets[0].Aggregations()[aggsName(a.id)], builts[0][i])
			final = append(final, o)
			it[i] = o.coq
		}
		steps = append(steps, cq.List(it))
	}
	aggsSketchOnly = false
	w.Count("merge:cases", 1)
	w.Count("merge:shards", nsh)
	for i, a := range tree {
		// a terms aggregation is exact under merging only if nothing was ever trimmed
		trimmed := false
		if a.agg.kind == "terms" {
			distinct := map[string]bool{}
			for _, d := range adocs {
				for _, v := range a.agg.vs.values(d) {
					distinct[v] = true
				}
			}
			trimmed = len(distinct) > a.agg.size
		}
		if trimmed {
			w.Count("merge:terms-trimmed", 1)
		}
		failed := false
		aggsOracle(w, aggsName(a.id), a.agg, final[i], adocs, func(key, why string) {
			if failed {
				return
			}
			failed = true
			if trimmed {
				key = "C16-merge-terms-trimmed"
			}
			in := input()
			in["setting"] = fmt.Sprintf("Bucket.Merge of %d shards", nsh)
			w.OracleFail(key, why, in)
		})
	}
	w.Add(fmt.Sprintf("CMerge %s %s\n %s", aggsCoqSubs(tree), cq.List(shardTerms), cq.List(steps)), "merge", n > 0,
		map[string]interface{}{"hits": n, "aggs": aggsTreeString(tree), "shard_bounds": cuts})
}

func aggsScoreArithmetic(t []aggsNamed) bool {
	var usesScore func(s *aggsNSrc) bool
	usesScore = func(s *aggsNSrc) bool {
		return s != nil && (s.kind == 1 || usesScore(s.p) || usesScore(s.r))
	}
	var walk func(a *aggsSpec) bool
	walk = func(a *aggsSpec) bool {
		switch a.kind {
		case "sum", "avg", "wavg":
			if usesScore(a.ns) || usesScore(a.weight) {
				return true
			}
		}
		for _, s := range a.subs {
			if walk(s.agg) {
				return true
			}
		}
		return false
	}
	for _, a := range t {
		if walk(a.agg) {
			return true
		}
	}
	return false
}

func aggsFieldsOfTree(t []aggsNamed) map[int]bool {
	out := map[int]bool{}
	var ns func(s *aggsNSrc)
	ns = func(s *aggsNSrc) {
		if s == nil {
			return
		}
		if s.kind == 0 {
			out[s.field] = true
		}
		ns(s.p)
		ns(s.r)
	}
	var walk func(a *aggsSpec)
	walk = func(a *aggsSpec) {
		ns(a.ns)
		ns(a.weight)
		if a.vs != nil {
			out[a.vs.field] = true
		}
		if a.kind == "daterange" {
			out[a.dfield] = true
		}
		for _, s := range a.subs {
			walk(s.agg)
		}
	}
	for _, a := range t {
		walk(a.agg)
	}
	return out
}

func runAggs(o Opts) error {
	rng := rand.New(rand.NewSource(o.Seed))
	w := cq.New(o.Out, "From Coq Require Import QArith.\nFrom Bluge Require Import Base.Res Search.Sort Search.TopN Search.Aggs Search.AggsCorr.", "acase", 10)
	nLists, nIdx := 70, 8
	if o.Thorough() {
		nLists, nIdx = 900, 100
	}

	// ---- the float decoder of the model on the generator's value alphabet
	for _, v := range append(append([]float64{}, topnNumAlphabet...), 4, 7.25, -0.5, 1e6, 12345678) {
		den := int64(1)
		x := v
		for x != math.Trunc(x) {
			x *= 2
			den *= 2
		}
		w.Add(fmt.Sprintf("CFloat %s %s %d", cq.U(math.Float64bits(v)), cq.Z(int64(x)), den), "float", v != 0, map[string]interface{}{"v": v})
	}

	// ---- (a) collectors driven directly on stub match lists
	for li := 0; li < nLists; li++ {
		var n int
		switch rng.Intn(8) {
		case 0:
			n = rng.Intn(3)
		case 1, 2:
			n = 8 + rng.Intn(6)
		default:
			n = rng.Intn(41)
		}
		ncols := 1 + rng.Intn(2)
		docs := topnGenStubDocs(rng, n, false, ncols, -1)
		order := topnGenOrder(rng, ncols, -1)
		if li%6 == 0 { // sort by a field that the aggregations read as well
			order = append(order, topnSortComp{kind: 1, field: []int{1, 5, 0}[rng.Intn(3)], desc: rng.Intn(2) == 0})
		}
		tree := aggsGenTree(rng)
		docMap := map[uint64]*topnStubDoc{}
		adocs := make([]*aggsDoc, n)
		for i, d := range docs {
			docMap[d.number] = d
			adocs[i] = &aggsDoc{number: d.number, score: d.score, kw: d.kw, nums: d.nums, dates: d.dates}
		}
		mkOrder := func() search.SortOrder { return topnBuildOrder(order, docMap, topnFieldName) }
		describe := func() []string { return topnDescribeStub(docs) }

		type setting struct {
			mode  string
			label string
			run   func(aggs search.Aggregations) (*search.Bucket, error)
		}
		var settings []setting
		settings = append(settings, setting{"MAll", "AllCollector", func(aggs search.Aggregations) (*search.Bucket, error) {
			it, err := collector.NewAllCollector().Collect(context.Background(), aggs, topnNewStubSearcher(docs))
			if err != nil {
				return nil, err
			}
			for {
				m, err := it.Next()
				if err != nil {
					return nil, err
				}
				if m == nil {
					break
				}
			}
			return it.Aggregations(), nil
		}})
		full, _, _, _ := topnRunDirect(docs, mkOrder(), n+1, 0, nil, false, nil)
		sizes := []int{0, 1, 3, topnSwitchPoint, topnSwitchPoint + 1, n, n + 2}
		for q := 0; q < 6; q++ {
			size := sizes[rng.Intn(len(sizes))]
			skip := []int{0, 0, 1, topnSwitchPoint, n}[rng.Intn(5)]
			var after [][]byte
			reverse := false
			if q >= 3 && len(full) > 0 {
				after = full[rng.Intn(len(full))].sortv
				skip = 0
				reverse = rng.Intn(3) == 0
			}
			if q == 0 {
				size, skip = 0, 0
			}
			afterS := "None"
			if after != nil {
				afterS = cq.Some(topnCoqKey(after))
			}
			sz, sk, af, rv := size, skip, after, reverse
			settings = append(settings, setting{
				fmt.Sprintf("(MDirect %s %s %s %s)", cq.I(sz), cq.I(sk), afterS, cq.B(rv)),
				fmt.Sprintf("TopNCollector size=%d skip=%d after=%q reverse=%v", sz, sk, af, rv),
				func(aggs search.Aggregations) (*search.Bucket, error) {
					_, b, panicked, perr := topnRunDirect(docs, mkOrder(), sz, sk, af, rv, aggs)
					if panicked {
						return nil, fmt.Errorf("panic: %v", perr)
					}
					return b, nil
				}})
		}
		var runs, rmeta []string
		for _, st := range settings {
			res := aggsRun(tree, st.run)
			runs = append(runs, fmt.Sprintf("ARun %s %s", st.mode, res.coq))
			rmeta = append(rmeta, st.label)
			w.Count("direct:runs", 1)
			if res.panicked {
				w.OracleEval(1)
				w.OracleFail("C16-panic", "aggregation run panicked", map[string]interface{}{"aggs": aggsTreeString(tree), "setting": st.label, "hits": describe()})
				continue
			}
			for i, a := range tree {
				label, failed := st.label, false
				aggsOracle(w, aggsName(a.id), a.agg, res.obs[i], adocs, func(key, why string) {
					if failed {
						return
					}
					failed = true
					w.OracleFail(key, why, map[string]interface{}{"aggs": aggsTreeString(tree), "order": topnOrderString(order), "setting": label, "hits": describe()})
				})
			}
		}
		// shards aggregated separately and merged with Bucket.Merge
		if li%2 == 0 {
			aggsMergeCase(rng, w, tree, docs, adocs, describe)
		}
		// the same aggregation objects for a search over all hits, then over every second hit
		if n >= 2 {
			var sub []*topnStubDoc
			var subDocs []*aggsDoc
			for i := 0; i < n; i += 2 {
				sub = append(sub, docs[i])
				subDocs = append(subDocs, adocs[i])
			}
			aggsReuseProbe(w, tree, settings[0].run,
				func(aggs search.Aggregations) (*search.Bucket, error) {
					_, b, panicked, perr := topnRunDirect(sub, mkOrder(), 3, 0, nil, false, aggs)
					if panicked {
						return nil, fmt.Errorf("panic: %v", perr)
					}
					return b, nil
				}, subDocs, func() map[string]interface{} {
					return map[string]interface{}{"aggs": aggsTreeString(tree), "order": topnOrderString(order), "first_search_hits": describe(), "second_search": "every second hit of the first"}
				})
		}
		hs := make([]string, n)
		for i, d := range docs {
			hs[i] = topnCoqRawHit(d.number, d.score, d.dv, d.tab)
		}
		w.Count("direct:hits", n)
		w.Add(fmt.Sprintf("CAggs %s %s %s\n %s", aggsCoqSubs(tree), topnCoqOrder(order), cq.List(hs), cq.List(runs)), "direct", n > 0,
			map[string]interface{}{"hits": n, "aggs": aggsTreeString(tree), "order": topnOrderString(order), "settings": rmeta})
	}

	// ---- (b) end to end
	for ii := 0; ii < nIdx; ii++ {
		if err := aggsEndToEnd(rng, w, ii); err != nil {
			return err
		}
	}
	// ---- (c) bluge.MultiSearch over 2-3 indexes against direct counting over their union
	nMulti := 6
	if o.Thorough() {
		nMulti = 50
	}
	for ii := 0; ii < nMulti; ii++ {
		if err := aggsMultiSearch(rng, w, ii); err != nil {
			return err
		}
	}
	w.Close()
	return nil
}

// ---------------------------------------------------------------- end to end

func aggsEndToEnd(rng *rand.Rand, w *cq.Writer, ii int) error {
	nd := rng.Intn(16)
	cfg := bluge.InMemoryOnlyConfig()
	wr, err := bluge.OpenWriter(cfg)
	if err != nil {
		return err
	}
	defer wr.Close()
	gen := topnGenStubDocs(rng, nd, false, 1, -1) // reuse the value generator; numbers/scores are replaced by the index's
	byID := map[string]*topnStubDoc{}
	vocab := []string{"red", "green", "blue"}
	batch := bluge.NewBatch()
	for i, d := range gen {
		id := fmt.Sprintf("d%02d", i)
		byID[id] = d
		bd := bluge.NewDocument(id)
		for f, vs := range d.kw {
			for _, v := range vs {
				bd.AddField(bluge.NewKeywordField(topnFieldName(f), v).Aggregatable().Sortable())
			}
		}
		for f, vs := range d.nums {
			for _, v := range vs {
				bd.AddField(bluge.NewNumericField(topnFieldName(f), v).Aggregatable().Sortable())
			}
		}
		for f, vs := range d.dates {
			for _, v := range vs {
				bd.AddField(bluge.NewDateTimeField(topnFieldName(f), time.Unix(0, v).UTC()).Aggregatable().Sortable())
			}
		}
		var words []string
		for k := 1 + rng.Intn(3); k > 0; k-- {
			words = append(words, vocab[rng.Intn(len(vocab))])
		}
		bd.AddField(bluge.NewTextField("t", strings.Join(words, " ")))
		batch.Insert(bd)
		if rng.Intn(6) == 0 {
			if err := wr.Batch(batch); err != nil {
				return err
			}
			batch = bluge.NewBatch()
		}
	}
	if err := wr.Batch(batch); err != nil {
		return err
	}
	rd, err := wr.Reader()
	if err != nil {
		return err
	}
	defer rd.Close()
	mkQuery := func(k int) bluge.Query {
		if k == 0 {
			return bluge.NewMatchAllQuery()
		}
		return bluge.NewMatchQuery("red blue").SetField("t")
	}
	for qk := 0; qk < 2; qk++ {
		tree := aggsGenTree(rng)
		// BM25 scores of a scoring query are arbitrary doubles: sums and averages over them round, and
		// the model is exact.  Such trees keep the score only where no arithmetic happens (min, max,
		// ranges, filters, quantile input).
		for qk == 1 && aggsScoreArithmetic(tree) {
			tree = aggsGenTree(rng)
		}
		var order []topnSortComp
		for k := 1 + rng.Intn(2); k > 0; k-- {
			c := topnSortComp{desc: rng.Intn(2) == 0, first: rng.Intn(2) == 0}
			if rng.Intn(4) == 0 {
				c.kind = 0
			} else {
				c.kind = 1
				c.field = []int{0, 1, 2, 5}[rng.Intn(4)]
			}
			order = append(order, c)
		}
		mkOrder := func() search.SortOrder { return topnBuildOrder(order, nil, topnFieldName) }
		// the match list with the doc values of every field the sort or the aggregations read
		fset := aggsFieldsOfTree(tree)
		for _, c := range order {
			if c.kind == 1 {
				fset[c.field] = true
			}
		}
		var fields []string
		for f := range fset {
			fields = append(fields, topnFieldName(f))
		}
		sort.Strings(fields)
		var seen []map[string][][]byte
		all := bluge.NewAllMatches(mkQuery(qk))
		all.AddAggregation("rec", &topnRecAgg{fields: fields, seen: &seen})
		it, err := rd.Search(context.Background(), all)
		if err != nil {
			return err
		}
		var adocs []*aggsDoc
		var hs []string
		for {
			m, err := it.Next()
			if err != nil {
				return err
			}
			if m == nil {
				break
			}
			var id string
			_ = m.VisitStoredFields(func(f string, v []byte) bool {
				if f == "_id" {
					id = string(v)
				}
				return true
			})
			g := byID[id]
			adocs = append(adocs, &aggsDoc{number: m.Number, score: m.Score, kw: g.kw, nums: g.nums, dates: g.dates})
			dv := map[int][][]byte{}
			for f, vs := range seen[len(adocs)-1] {
				dv[topnFieldID(f)] = vs
			}
			hs = append(hs, topnCoqRawHit(m.Number, m.Score, dv, nil))
		}
		n := len(adocs)
		describe := func() []string {
			out := make([]string, n)
			for i, d := range adocs {
				out[i] = fmt.Sprintf("#%d score=%v kw=%s nums=%v dates=%v", d.number, d.score, topnKwString(d.kw), d.nums, d.dates)
			}
			return out
		}
		searchAggs := func(req bluge.SearchRequest) func(aggs search.Aggregations) (*search.Bucket, error) {
			return func(aggs search.Aggregations) (*search.Bucket, error) {
				for name, a := range aggs {
					req.AddAggregation(name, a)
				}
				it, err := rd.Search(context.Background(), req)
				if err != nil {
					return nil, err
				}
				for {
					m, err := it.Next()
					if err != nil {
						return nil, err
					}
					if m == nil {
						break
					}
				}
				return it.Aggregations(), nil
			}
		}
		fullReq := bluge.NewTopNSearch(n+1, mkQuery(qk)).SortByCustom(mkOrder())
		fit, err := rd.Search(context.Background(), fullReq)
		if err != nil {
			return err
		}
		full, err := topnDrain(fit)
		if err != nil {
			return err
		}
		type setting struct {
			mode, label string
			run         func(aggs search.Aggregations) (*search.Bucket, error)
		}
		settings := []setting{{"MAll", "AllMatches", searchAggs(bluge.NewAllMatches(mkQuery(qk)))}}
		for q := 0; q < 6; q++ {
			size := []int{0, 1, 2, topnSwitchPoint + 1, n}[rng.Intn(5)]
			if q == 0 {
				size = 0
			}
			req := bluge.NewTopNSearch(size, mkQuery(qk)).SortByCustom(mkOrder())
			var p, label string
			switch {
			case q >= 3 && len(full) > 0 && q%2 == 1:
				k := full[rng.Intn(len(full))].sortv
				req.After(k)
				p, label = fmt.Sprintf("(PAfter %s)", topnCoqKey(k)), fmt.Sprintf("After(%q)", k)
			case q >= 3 && len(full) > 0:
				k := full[rng.Intn(len(full))].sortv
				req.Before(k)
				p, label = fmt.Sprintf("(PBefore %s)", topnCoqKey(k)), fmt.Sprintf("Before(%q)", k)
			default:
				from := []int{0, 1, n, 3}[rng.Intn(4)]
				req.SetFrom(from)
				p, label = fmt.Sprintf("(PFrom %d)", from), fmt.Sprintf("from=%d", from)
			}
			settings = append(settings, setting{fmt.Sprintf("(MTopN %s %s)", cq.I(size), p), fmt.Sprintf("TopNSearch n=%d %s", size, label), searchAggs(req)})
		}
		var runs, rmeta []string
		for _, st := range settings {
			res := aggsRun(tree, st.run)
			runs = append(runs, fmt.Sprintf("ARun %s %s", st.mode, res.coq))
			rmeta = append(rmeta, st.label)
			w.Count("e2e:runs", 1)
			if res.panicked {
				w.OracleEval(1)
				w.OracleFail("C16-panic", "aggregation run panicked", map[string]interface{}{"aggs": aggsTreeString(tree), "setting": st.label, "matches": describe()})
				continue
			}
			for i, a := range tree {
				label, failed := st.label, false
				aggsOracle(w, aggsName(a.id), a.agg, res.obs[i], adocs, func(key, why string) {
					if failed {
						return
					}
					failed = true
					w.OracleFail(key, why, map[string]interface{}{"aggs": aggsTreeString(tree), "order": topnOrderString(order), "setting": label, "matches": describe()})
				})
			}
		}
		// the same aggregation objects for the other query first, then for this one
		aggsReuseProbe(w, tree, searchAggs(bluge.NewAllMatches(mkQuery(1-qk))),
			searchAggs(bluge.NewTopNSearch(2, mkQuery(qk)).SortByCustom(mkOrder())), adocs,
			func() map[string]interface{} {
				return map[string]interface{}{"aggs": aggsTreeString(tree), "order": topnOrderString(order), "index": ii,
					"first_query": 1 - qk, "second_query": qk, "second_matches": describe()}
			})
		w.Count("e2e:matches", n)
		w.Add(fmt.Sprintf("CAggs %s %s %s\n %s", aggsCoqSubs(tree), topnCoqOrder(order), cq.List(hs), cq.List(runs)), "e2e", n > 0,
			map[string]interface{}{"index": ii, "docs": nd, "query": qk, "matches": n, "aggs": aggsTreeString(tree), "order": topnOrderString(order), "settings": rmeta})
	}
	_ = numeric.Float64ToInt64
	return nil
}

// ---------------------------------------------------------------- MultiSearch

// aggsMultiSearch: documents spread over 2-3 in-memory indexes; bluge.MultiSearch with a TopNSearch
// (multisearch.go runs ONE collector over the concatenated searchers) must report the aggregations
// of the union of the per-index match lists.
func aggsMultiSearch(rng *rand.Rand, w *cq.Writer, ii int) error {
	nIdx := 2 + rng.Intn(2)
	nd := rng.Intn(18)
	gen := topnGenStubDocs(rng, nd, false, 1, -1)
	writers := make([]*bluge.Writer, nIdx)
	for k := range writers {
		wr, err := bluge.OpenWriter(bluge.InMemoryOnlyConfig())
		if err != nil {
			return err
		}
		defer wr.Close()
		writers[k] = wr
	}
	byID := map[string]*topnStubDoc{}
	vocab := []string{"red", "green", "blue"}
	batches := make([]*index.Batch, nIdx)
	for k := range batches {
		batches[k] = bluge.NewBatch()
	}
	for i, d := range gen {
		id := fmt.Sprintf("d%02d", i)
		byID[id] = d
		bd := bluge.NewDocument(id)
		for f, vs := range d.kw {
			for _, v := range vs {
				bd.AddField(bluge.NewKeywordField(topnFieldName(f), v).Aggregatable().Sortable())
			}
		}
		for f, vs := range d.nums {
			for _, v := range vs {
				bd.AddField(bluge.NewNumericField(topnFieldName(f), v).Aggregatable().Sortable())
			}
		}
		for f, vs := range d.dates {
			for _, v := range vs {
				bd.AddField(bluge.NewDateTimeField(topnFieldName(f), time.Unix(0, v).UTC()).Aggregatable().Sortable())
			}
		}
		var words []string
		for k := 1 + rng.Intn(3); k > 0; k-- {
			words = append(words, vocab[rng.Intn(len(vocab))])
		}
		bd.AddField(bluge.NewTextField("t", strings.Join(words, " ")))
		batches[rng.Intn(nIdx)].Insert(bd)
	}
	readers := make([]*bluge.Reader, nIdx)
	for k := range writers {
		if err := writers[k].Batch(batches[k]); err != nil {
			return err
		}
		rd, err := writers[k].Reader()
		if err != nil {
			return err
		}
		defer rd.Close()
		readers[k] = rd
	}
	tree := aggsGenTree(rng)
	var mkQuery func() bluge.Query
	if rng.Intn(2) == 0 {
		mkQuery = func() bluge.Query { return bluge.NewMatchAllQuery() }
	} else {
		mkQuery = func() bluge.Query { return bluge.NewMatchQuery("red blue").SetField("t") }
		for aggsScoreArithmetic(tree) {
			tree = aggsGenTree(rng)
		}
	}
	order := []topnSortComp{{kind: 1, field: []int{0, 1, 5}[rng.Intn(3)], desc: rng.Intn(2) == 0, first: rng.Intn(2) == 0}}
	mkOrder := func() search.SortOrder { return topnBuildOrder(order, nil, topnFieldName) }
	fset := aggsFieldsOfTree(tree)
	fset[order[0].field] = true
	var fields []string
	for f := range fset {
		fields = append(fields, topnFieldName(f))
	}
	sort.Strings(fields)
	// the union match list: reader after reader, each in its searcher's order
	var adocs []*aggsDoc
	var hs []string
	for _, rd := range readers {
		var seen []map[string][][]byte
		all := bluge.NewAllMatches(mkQuery())
		all.AddAggregation("rec", &topnRecAgg{fields: fields, seen: &seen})
		it, err := rd.Search(context.Background(), all)
		if err != nil {
			return err
		}
		k := 0
		for {
			m, err := it.Next()
			if err != nil {
				return err
			}
			if m == nil {
				break
			}
			var id string
			_ = m.VisitStoredFields(func(f string, v []byte) bool {
				if f == "_id" {
					id = string(v)
				}
				return true
			})
			g := byID[id]
			adocs = append(adocs, &aggsDoc{number: m.Number, score: m.Score, kw: g.kw, nums: g.nums, dates: g.dates})
			dv := map[int][][]byte{}
			for f, vs := range seen[k] {
				dv[topnFieldID(f)] = vs
			}
			hs = append(hs, topnCoqRawHit(m.Number, m.Score, dv, nil))
			k++
		}
	}
	n := len(adocs)
	describe := func() []string {
		out := make([]string, n)
		for i, d := range adocs {
			out[i] = fmt.Sprintf("#%d score=%v kw=%s nums=%v dates=%v", d.number, d.score, topnKwString(d.kw), d.nums, d.dates)
		}
		return out
	}
	var runs, rmeta []string
	for q := 0; q < 3; q++ {
		size := []int{0, 2, topnSwitchPoint + 1}[q]
		from := []int{0, 1, 0}[q]
		res := aggsRun(tree, func(aggs search.Aggregations) (*search.Bucket, error) {
			req := bluge.NewTopNSearch(size, mkQuery()).SortByCustom(mkOrder()).SetFrom(from)
			for name, a := range aggs {
				req.AddAggregation(name, a)
			}
			it, err := bluge.MultiSearch(context.Background(), req, readers...)
			if err != nil {
				return nil, err
			}
			for {
				m, err := it.Next()
				if err != nil {
					return nil, err
				}
				if m == nil {
					return it.Aggregations(), nil
				}
			}
		})
		label := fmt.Sprintf("MultiSearch over %d indexes, TopNSearch n=%d from=%d", nIdx, size, from)
		runs = append(runs, fmt.Sprintf("ARun (MTopN %s (PFrom %d)) %s", cq.I(size), from, res.coq))
		rmeta = append(rmeta, label)
		w.Count("multi:runs", 1)
		if res.panicked {
			w.OracleEval(1)
			w.OracleFail("C16-panic", "MultiSearch with aggregations panicked", map[string]interface{}{"aggs": aggsTreeString(tree), "setting": label, "matches": describe()})
			continue
		}
		for i, a := range tree {
			failed := false
			aggsOracle(w, aggsName(a.id), a.agg, res.obs[i], adocs, func(key, why string) {
				if failed {
					return
				}
				failed = true
				w.OracleFail(key, why, map[string]interface{}{"aggs": aggsTreeString(tree), "order": topnOrderString(order), "setting": label, "matches": describe()})
			})
		}
	}
	w.Count("multi:matches", n)
	w.Add(fmt.Sprintf("CAggs %s %s %s\n %s", aggsCoqSubs(tree), topnCoqOrder(order), cq.List(hs), cq.List(runs)), "multi", n > 0,
		map[string]interface{}{"index": ii, "indexes": nIdx, "docs": nd, "matches": n, "aggs": aggsTreeString(tree), "order": topnOrderString(order), "settings": rmeta})
	return nil
}
