package engines

// highlight — engine of C20 (highlighted fragments are faithful to the stored text).
// Every call into /repo/search/highlight runs in a CHILD process (re-exec of this binary
// with the sub-command `highlight-child`): a panic, a crash or a hang of the implementation
// is observed as a result class of the job.  Locations come from real searches (in-memory
// index, bundled analyzers, IncludeLocations) and from adversarial generators.

import (
	"bufio"
	"bytes"
	"context"
	"encoding/json"
	"fmt"
	"html"
	"io"
	"math/rand"
	"os"
	"os/exec"
	"sort"
	"strings"
	"time"
	"unicode/utf8"

	"github.com/blugelabs/bluge"
	"github.com/blugelabs/bluge/analysis"
	"github.com/blugelabs/bluge/analysis/analyzer"
	"github.com/blugelabs/bluge/analysis/lang/cjk"
	"github.com/blugelabs/bluge/analysis/lang/en"
	"github.com/blugelabs/bluge/analysis/lang/fr"
	"github.com/blugelabs/bluge/analysis/token"
	"github.com/blugelabs/bluge/analysis/tokenizer"
	"github.com/blugelabs/bluge/search"
	"github.com/blugelabs/bluge/search/highlight"

	"verif/harness/cq"
)

func init() {
	Registry["highlight"] = runHighlight
	Registry["highlight-child"] = runHighlightChild
}

type hlLoc [2]int // Start, End

type hlJob struct {
	Kind   string    `json:"k"` // best | fragment | format | merge | score | order
	HTML   bool      `json:"h,omitempty"`
	FS     int       `json:"fs,omitempty"`
	Num    int       `json:"num,omitempty"`
	Orig   []byte    `json:"o,omitempty"`
	TLM    [][]hlLoc `json:"m,omitempty"`
	OT     []hlLoc   `json:"ot,omitempty"`
	Nil    []bool    `json:"nil,omitempty"` // format: entries of OT that are nil pointers
	FStart int       `json:"a,omitempty"`
	FEnd   int       `json:"b,omitempty"`
	FTL    [][5]int  `json:"ftl,omitempty"` // complete: field id, term id, pos, start, end (field id 0 = "")
}

type hlTermLocs struct {
	T    int      `json:"t"`
	Locs [][3]int `json:"l"`
}
type hlFieldLocs struct {
	F     int          `json:"f"`
	Terms []hlTermLocs `json:"ts"`
}

type hlRes struct {
	Panic string        `json:"p,omitempty"`
	Strs  [][]byte      `json:"s,omitempty"`
	Locs  []hlLoc       `json:"l,omitempty"`
	Nil   []bool        `json:"nil,omitempty"`
	Score float64       `json:"sc,omitempty"`
	Map   []hlFieldLocs `json:"map,omitempty"`
}

func hlFieldName(id int) string {
	if id == 0 {
		return ""
	}
	return fmt.Sprintf("f%04d", id)
}

// ---------------------------------------------------------------- child side

func hlTLM(m [][]hlLoc) search.TermLocationMap {
	tlm := search.TermLocationMap{}
	for i, locs := range m {
		term := fmt.Sprintf("t%03d", i)
		for j, l := range locs {
			tlm.AddLocation(term, &search.Location{Pos: j + 1, Start: l[0], End: l[1]})
		}
	}
	return tlm
}

func hlOT(ot []hlLoc, nils []bool) highlight.TermLocations {
	rv := make(highlight.TermLocations, len(ot))
	for i, l := range ot {
		if i < len(nils) && nils[i] {
			continue
		}
		rv[i] = &highlight.TermLocation{Term: fmt.Sprintf("t%03d", i), Pos: i + 1, Start: l[0], End: l[1]}
	}
	return rv
}

func hlHighlighter(htmlFmt bool, fs int) *highlight.SimpleHighlighter {
	var f highlight.FragmentFormatter
	if htmlFmt {
		f = highlight.NewHTMLFragmentFormatter()
	} else {
		f = highlight.NewANSIFragmentFormatter()
	}
	return highlight.NewSimpleHighlighter(highlight.NewSimpleFragmenterSized(fs), f, highlight.DefaultSeparator)
}

func hlExec(j *hlJob) (res hlRes) {
	defer func() {
		if r := recover(); r != nil {
			res = hlRes{Panic: fmt.Sprint(r)}
		}
	}()
	switch j.Kind {
	case "best":
		out := hlHighlighter(j.HTML, j.FS).BestFragments(hlTLM(j.TLM), j.Orig, j.Num)
		res.Strs = make([][]byte, len(out))
		for i, s := range out {
			res.Strs[i] = []byte(s)
		}
	case "fragment":
		frs := highlight.NewSimpleFragmenterSized(j.FS).Fragment(j.Orig, hlOT(j.OT, nil))
		for _, f := range frs {
			res.Locs = append(res.Locs, hlLoc{f.Start, f.End})
		}
	case "format":
		fr := &highlight.Fragment{Orig: j.Orig, Start: j.FStart, End: j.FEnd}
		var s string
		if j.HTML {
			s = highlight.NewHTMLFragmentFormatter().Format(fr, hlOT(j.OT, j.Nil))
		} else {
			s = highlight.NewANSIFragmentFormatter().Format(fr, hlOT(j.OT, j.Nil))
		}
		res.Strs = [][]byte{[]byte(s)}
	case "merge":
		ot := hlOT(j.OT, nil)
		ot.MergeOverlapping()
		for _, t := range ot {
			if t == nil {
				res.Locs = append(res.Locs, hlLoc{0, 0})
				res.Nil = append(res.Nil, true)
			} else {
				res.Locs = append(res.Locs, hlLoc{t.Start, t.End})
				res.Nil = append(res.Nil, false)
			}
		}
	case "score":
		fr := &highlight.Fragment{Orig: j.Orig, Start: j.FStart, End: j.FEnd}
		highlight.NewFragmentScorer(hlTLM(j.TLM)).Score(fr)
		res.Score = fr.Score
	case "order":
		for _, t := range highlight.OrderTermLocations(hlTLM(j.TLM)) {
			res.Locs = append(res.Locs, hlLoc{t.Start, t.End})
		}
	case "complete":
		dm := &search.DocumentMatch{}
		for _, x := range j.FTL {
			dm.FieldTermLocations = append(dm.FieldTermLocations, search.FieldTermLocation{
				Field: hlFieldName(x[0]), Term: fmt.Sprintf("t%04d", x[1]),
				Location: search.Location{Pos: x[2], Start: x[3], End: x[4]}})
		}
		dm.Complete(nil)
		fields := make([]string, 0, len(dm.Locations))
		for f := range dm.Locations {
			fields = append(fields, f)
		}
		sort.Strings(fields) // "" sorts first = id 0
		for _, f := range fields {
			fl := hlFieldLocs{}
			if f != "" {
				fmt.Sscanf(f, "f%d", &fl.F)
			}
			terms := make([]string, 0, len(dm.Locations[f]))
			for t := range dm.Locations[f] {
				terms = append(terms, t)
			}
			sort.Strings(terms)
			for _, t := range terms {
				tl := hlTermLocs{}
				fmt.Sscanf(t, "t%d", &tl.T)
				for _, l := range dm.Locations[f][t] {
					tl.Locs = append(tl.Locs, [3]int{l.Pos, l.Start, l.End})
				}
				fl.Terms = append(fl.Terms, tl)
			}
			res.Map = append(res.Map, fl)
		}
	default:
		res.Panic = "unknown job kind"
	}
	return res
}

func runHighlightChild(o Opts) error {
	in := bufio.NewReaderSize(os.Stdin, 1<<20)
	out := bufio.NewWriter(os.Stdout)
	for {
		line, err := in.ReadBytes('\n')
		if len(line) > 0 {
			var j hlJob
			if e := json.Unmarshal(line, &j); e != nil {
				return e
			}
			r := hlExec(&j)
			b, _ := json.Marshal(r)
			out.Write(b)
			out.WriteByte('\n')
			out.Flush()
		}
		if err != nil {
			return nil
		}
	}
}

// ---------------------------------------------------------------- parent side: child handle

type hlChild struct {
	cmd    *exec.Cmd
	stdin  io.WriteCloser
	stdout *bufio.Reader
	stderr *bytes.Buffer
	starts int
}

func (c *hlChild) start() error {
	c.cmd = exec.Command(os.Args[0], "highlight-child", "-out", "unused")
	c.cmd.Env = append(os.Environ(), "GOMEMLIMIT=1GiB")
	var err error
	if c.stdin, err = c.cmd.StdinPipe(); err != nil {
		return err
	}
	so, err := c.cmd.StdoutPipe()
	if err != nil {
		return err
	}
	c.stdout = bufio.NewReaderSize(so, 1<<20)
	c.stderr = &bytes.Buffer{}
	c.cmd.Stderr = c.stderr
	c.starts++
	return c.cmd.Start()
}

func (c *hlChild) stop() {
	if c.cmd != nil {
		c.stdin.Close()
		done := make(chan struct{})
		go func() { c.cmd.Wait(); close(done) }()
		select {
		case <-done:
		case <-time.After(2 * time.Second):
			c.cmd.Process.Kill()
		}
		c.cmd = nil
	}
}

// call runs one job in the child; a crash or a hang becomes the Panic class of the result.
func (c *hlChild) call(j *hlJob) hlRes {
	if c.cmd == nil {
		if err := c.start(); err != nil {
			return hlRes{Panic: "harness: cannot start child: " + err.Error()}
		}
	}
	b, _ := json.Marshal(j)
	b = append(b, '\n')
	type rd struct {
		line []byte
		err  error
	}
	ch := make(chan rd, 1)
	go func() {
		_, werr := c.stdin.Write(b)
		if werr != nil {
			ch <- rd{nil, werr}
			return
		}
		line, err := c.stdout.ReadBytes('\n')
		ch <- rd{line, err}
	}()
	select {
	case r := <-ch:
		if r.err != nil {
			c.cmd.Process.Kill()
			c.cmd.Wait()
			msg := c.stderr.String()
			if len(msg) > 300 {
				msg = msg[:300]
			}
			c.cmd = nil
			return hlRes{Panic: "crash: " + r.err.Error() + " " + msg}
		}
		var res hlRes
		if err := json.Unmarshal(r.line, &res); err != nil {
			return hlRes{Panic: "harness: bad child answer: " + err.Error()}
		}
		return res
	case <-time.After(20 * time.Second):
		c.cmd.Process.Kill()
		c.cmd.Wait()
		c.cmd = nil
		return hlRes{Panic: "hang: no answer within 20s"}
	}
}

// ---------------------------------------------------------------- Coq printers

func hlPair(l hlLoc) string { return "(" + cq.I(l[0]) + ", " + cq.I(l[1]) + ")" }
func hlPairs(ls []hlLoc) string {
	it := make([]string, len(ls))
	for i, l := range ls {
		it[i] = hlPair(l)
	}
	return cq.List(it)
}
func hlMap(m [][]hlLoc) string {
	it := make([]string, len(m))
	for i, ls := range m {
		it[i] = hlPairs(ls)
	}
	return cq.List(it)
}
func hlOptPairs(ls []hlLoc, nils []bool) string {
	it := make([]string, len(ls))
	for i, l := range ls {
		if i < len(nils) && nils[i] {
			it[i] = "None"
		} else {
			it[i] = "Some " + hlPair(l)
		}
	}
	return cq.List(it)
}

// ---------------------------------------------------------------- generators

var hlLatin = []string{"the", "quick", "brown", "fox", "jumps", "over", "lazy", "dog", "search", "index", "merge", "segment",
	"café", "naïve", "über", "straße", "señor", "crème", "brûlée", "façade", "smörgåsbord", "Ångström", "résumé", "zoë",
	"highlight", "fragment", "term", "location", "a", "I", "to", "of", "x", "running", "runs", "ran", "maisons", "chevaux"}
var hlCJK = []rune("日本語中文検索索引断片強調表示東京都大阪府こんにちは世界テキストカタカナ한국어검색")
var hlEmoji = []string{"😀", "🚀", "👍🏽", "🇫🇷", "𝔘𝔫𝔦", "​", "́", "�"}
var hlSpecial = []string{"&", "<", ">", "\"", "'", "<b>", "&amp;", "a<b", "x&y", "</mark>", "<mark>", "…", "--", "3.14", "foo@bar.com", "http://x.io/a?b=c"}

// hlText builds a valid UTF-8 text of about `target` bytes. script: 0 latin, 1 cjk, 2 mixed.
func hlText(rng *rand.Rand, target, script int, specials bool) string {
	var sb strings.Builder
	for sb.Len() < target {
		s := script
		if script == 2 {
			s = rng.Intn(2)
		}
		switch {
		case specials && rng.Intn(9) == 0:
			sb.WriteString(hlSpecial[rng.Intn(len(hlSpecial))])
		case rng.Intn(14) == 0:
			sb.WriteString(hlEmoji[rng.Intn(len(hlEmoji))])
		case s == 1:
			k := 1 + rng.Intn(6)
			for i := 0; i < k; i++ {
				sb.WriteRune(hlCJK[rng.Intn(len(hlCJK))])
			}
		default:
			w := hlLatin[rng.Intn(len(hlLatin))]
			if rng.Intn(6) == 0 {
				w = strings.ToUpper(w[:1]) + w[1:]
			}
			if rng.Intn(8) == 0 {
				w = fmt.Sprintf("%s%d", w, rng.Intn(100))
			}
			sb.WriteString(w)
		}
		switch rng.Intn(12) {
		case 0:
			sb.WriteString(", ")
		case 1:
			sb.WriteString(". ")
		case 2:
			sb.WriteString("\n")
		case 3:
			if s == 1 {
				sb.WriteString("、")
			} else {
				sb.WriteString("  ")
			}
		case 4:
			if s == 1 {
				break // no separator between CJK runs
			}
			sb.WriteString(" ")
		default:
			sb.WriteString(" ")
		}
	}
	return sb.String()
}

// hlCorrupt injects invalid UTF-8 (truncated sequences, stray continuation bytes, overlong forms,
// surrogates, bytes > F4) into a text.
func hlCorrupt(rng *rand.Rand, s []byte) []byte {
	bad := [][]byte{{0x80}, {0xbf, 0xbf}, {0xc0, 0x80}, {0xc1, 0xbf}, {0xe0, 0x80, 0x80}, {0xed, 0xa0, 0x80}, {0xf4, 0x90, 0x80, 0x80},
		{0xf5}, {0xff}, {0xe2, 0x80}, {0xf0, 0x9f, 0x98}, {0xe6}, {0xc3}, {0x80, 0x80, 0x80, 0x80, 0x80, 0x80}}
	out := append([]byte{}, s...)
	k := 1 + rng.Intn(3)
	for i := 0; i < k; i++ {
		p := rng.Intn(len(out) + 1)
		b := bad[rng.Intn(len(bad))]
		out = append(out[:p], append(append([]byte{}, b...), out[p:]...)...)
	}
	if rng.Intn(3) == 0 && len(out) > 2 { // cut in the middle of whatever is there
		out = out[:len(out)-1-rng.Intn(2)]
	}
	return out
}

func hlFragSize(rng *rand.Rand) int {
	switch rng.Intn(10) {
	case 0:
		return 1
	case 1:
		return 2 + rng.Intn(4)
	case 2, 3:
		return 6 + rng.Intn(20)
	case 4, 5, 6:
		return 26 + rng.Intn(75)
	case 7:
		return 200
	default:
		return 101 + rng.Intn(200)
	}
}

// runeBoundaries of a valid text
func hlBoundaries(s []byte) []int {
	var b []int
	for i := 0; i < len(s); {
		b = append(b, i)
		_, n := utf8.DecodeRune(s[i:])
		i += n
	}
	return append(b, len(s))
}

// hlWellFormedLocs: sorted-or-not sets of in-range locations on rune boundaries, grouped by term
func hlWellFormedLocs(rng *rand.Rand, s []byte, allowOverlap bool) [][]hlLoc {
	bs := hlBoundaries(s)
	nterms := 1 + rng.Intn(4)
	m := make([][]hlLoc, nterms)
	n := rng.Intn(9)
	if len(bs) < 2 {
		return m
	}
	used := map[int]bool{}
	lastEnd := 0
	for i := 0; i < n; i++ {
		a := rng.Intn(len(bs) - 1)
		w := 1 + rng.Intn(8)
		if rng.Intn(10) == 0 {
			w = 1 + rng.Intn(60)
		}
		e := a + w
		if e >= len(bs) {
			e = len(bs) - 1
		}
		if !allowOverlap {
			// next location after the previous one
			a = sort.SearchInts(bs, lastEnd) + rng.Intn(6)
			if a >= len(bs)-1 {
				break
			}
			e = a + w
			if e >= len(bs) {
				e = len(bs) - 1
			}
			lastEnd = bs[e]
		}
		if used[bs[a]] { // ties in Start make the order (and the output) depend on Go's map order
			continue
		}
		used[bs[a]] = true
		t := rng.Intn(nterms)
		m[t] = append(m[t], hlLoc{bs[a], bs[e]})
	}
	if rng.Intn(3) == 0 { // unsorted inside a term
		for _, ls := range m {
			rng.Shuffle(len(ls), func(i, j int) { ls[i], ls[j] = ls[j], ls[i] })
		}
	}
	return m
}

// hlAdversarialLocs: negative, inverted, beyond the text, overlapping, unsorted, huge
func hlAdversarialLocs(rng *rand.Rand, n int) [][]hlLoc {
	nterms := 1 + rng.Intn(3)
	m := make([][]hlLoc, nterms)
	k := 1 + rng.Intn(6)
	pick := func() int {
		switch rng.Intn(12) {
		case 0:
			return -1 - rng.Intn(5)
		case 1:
			return n + 1 + rng.Intn(5)
		case 2:
			return n
		case 3:
			return 0
		case 4:
			return -(1 << 40)
		case 5:
			return 1 << 40
		case 6:
			return n - 1
		default:
			return rng.Intn(n + 1)
		}
	}
	used := map[int]bool{}
	for i := 0; i < k; i++ {
		a, b := pick(), pick()
		switch rng.Intn(4) {
		case 0: // keep as drawn (possibly inverted)
		default:
			if a > b && rng.Intn(3) != 0 {
				a, b = b, a
			}
		}
		if used[a] {
			continue
		}
		used[a] = true
		t := rng.Intn(nterms)
		m[t] = append(m[t], hlLoc{a, b})
	}
	return m
}

func hlFlatten(m [][]hlLoc) []hlLoc {
	var out []hlLoc
	for _, ls := range m {
		out = append(out, ls...)
	}
	return out
}

// hlOrderDeterministic: locations with equal Start are equal (then OrderTermLocations' result does
// not depend on map iteration order / sort.Sort instability as far as (Start,End) go)
func hlOrderDeterministic(m [][]hlLoc) bool {
	seen := map[int]int{}
	for _, l := range hlFlatten(m) {
		if e, ok := seen[l[0]]; ok && e != l[1] {
			return false
		}
		seen[l[0]] = l[1]
	}
	return true
}

// ---------------------------------------------------------------- the property, evaluated on outputs

type hlSeg struct {
	marked bool
	text   string
}

// hlSplitMarkup cuts a formatted fragment at the markers and undoes the escaping.
func hlSplitMarkup(s string, htmlFmt bool) (segs []hlSeg, ok bool) {
	before, after := "<mark>", "</mark>"
	if !htmlFmt {
		before, after = highlight.BgYellow, highlight.Reset
	}
	un := func(t string) string {
		if htmlFmt {
			return html.UnescapeString(t)
		}
		return t
	}
	for len(s) > 0 {
		i := strings.Index(s, before)
		if i < 0 {
			segs = append(segs, hlSeg{false, un(s)})
			break
		}
		if i > 0 {
			segs = append(segs, hlSeg{false, un(s[:i])})
		}
		s = s[i+len(before):]
		j := strings.Index(s, after)
		if j < 0 {
			return nil, false
		}
		segs = append(segs, hlSeg{true, un(s[:j])})
		s = s[j+len(after):]
	}
	return segs, true
}

// hlIsRun: [a,b) is one location or the union of a run of overlapping locations
func hlIsRun(a, b int, locs []hlLoc) bool {
	var in []hlLoc
	for _, l := range locs {
		if l[0] == a && l[1] == b {
			return true
		}
		if l[0] >= a && l[1] <= b && l[0] < l[1] {
			in = append(in, l)
		}
	}
	if len(in) == 0 {
		return false
	}
	sort.Slice(in, func(i, j int) bool { return in[i][0] < in[j][0] })
	if in[0][0] != a {
		return false
	}
	reach := in[0][1]
	for _, l := range in[1:] {
		if l[0] >= reach { // not overlapping what has been accumulated (Overlaps is strict)
			return false
		}
		if l[1] > reach {
			reach = l[1]
		}
	}
	return reach == b
}

type hlPlacement struct{ start, end int } // the piece of orig a fragment corresponds to

// hlPlacements: all ways to read the fragment string as `sep? piece sep?` with piece = orig[p:q] and
// marked spans = runs of locations.  reason explains an empty result.
func hlPlacements(fragment string, htmlFmt bool, orig []byte, locs []hlLoc) (pl []hlPlacement, reason string) {
	sep := highlight.DefaultSeparator
	segs, ok := hlSplitMarkup(fragment, htmlFmt)
	if !ok {
		return nil, "unbalanced markup"
	}
	var full strings.Builder
	for _, sg := range segs {
		full.WriteString(sg.text)
	}
	text := full.String()
	found := false
	marksBad := false
	for _, lead := range []bool{false, true} {
		for _, trail := range []bool{false, true} {
			t := text
			off := 0
			if lead {
				if len(segs) == 0 || segs[0].marked || !strings.HasPrefix(t, sep) {
					continue
				}
				t = t[len(sep):]
				off = len(sep)
			}
			if trail {
				if len(segs) == 0 || segs[len(segs)-1].marked || !strings.HasSuffix(t, sep) || len(t) < len(sep) {
					continue
				}
				t = t[:len(t)-len(sep)]
			}
			// every occurrence of t in orig
			for p := 0; p+len(t) <= len(orig); p++ {
				if !bytes.Equal(orig[p:p+len(t)], []byte(t)) {
					continue
				}
				found = true
				good := true
				pos := -off
				for _, sg := range segs {
					if sg.marked && !hlIsRun(p+pos, p+pos+len(sg.text), locs) {
						good = false
						break
					}
					pos += len(sg.text)
				}
				if good {
					pl = append(pl, hlPlacement{p, p + len(t)})
				} else {
					marksBad = true
				}
			}
		}
	}
	if len(pl) > 0 {
		return pl, ""
	}
	if !found {
		return nil, "strip-not-substring"
	}
	_ = marksBad
	return nil, "marks-not-matches"
}

// hlDisjoint: choose one placement per fragment so that the pieces are pairwise disjoint
func hlDisjoint(pls [][]hlPlacement, chosen []hlPlacement) bool {
	if len(chosen) == len(pls) {
		return true
	}
	for _, c := range pls[len(chosen)] {
		ok := true
		for _, d := range chosen {
			if c.start < d.end && d.start < c.end { // non-empty intersection
				ok = false
				break
			}
		}
		if ok && hlDisjoint(pls, append(chosen, c)) {
			return true
		}
	}
	return false
}

// hlCheckProperty evaluates the clauses of C20 on one BestFragments answer for a valid text with
// well-formed locations.  Returns "" or the key of the violated clause.
// truth = the matched term occurrences the marks are judged against (for real searches: recomputed from
// the stored text; otherwise the given locations)
func hlCheckProperty(orig []byte, truth [][]hlLoc, fs, num int, htmlFmt bool, out [][]byte) (key, reason string) {
	locs := hlFlatten(truth)
	want := num
	if want < 0 {
		want = 0
	}
	if len(out) > want {
		return "too-many-fragments", fmt.Sprintf("%d fragments, %d asked", len(out), num)
	}
	pls := make([][]hlPlacement, len(out))
	for i, f := range out {
		pl, why := hlPlacements(string(f), htmlFmt, orig, locs)
		if len(pl) == 0 {
			return why, fmt.Sprintf("fragment %d: %q", i, string(f))
		}
		pls[i] = pl
	}
	if !hlDisjoint(pls, nil) {
		return "fragments-overlap", "no assignment of disjoint pieces"
	}
	// the best fragment contains a match when one fits the fragment size; term locations produced by
	// searching lie on rune boundaries (token offsets) - the clause is about those
	onBoundary := map[int]bool{}
	for _, b := range hlBoundaries(orig) {
		onBoundary[b] = true
	}
	for _, l := range locs {
		if !onBoundary[l[0]] || !onBoundary[l[1]] {
			return "", ""
		}
	}
	fits := false
	for _, l := range locs {
		if l[0] < l[1] && utf8.RuneCount(orig[l[0]:l[1]]) <= fs {
			fits = true
			break
		}
	}
	if fits && num >= 1 {
		if len(out) == 0 {
			return "best-without-match", "no fragment returned although a match fits"
		}
		has := false
		for _, p := range pls[0] {
			for _, l := range locs {
				if l[0] >= p.start && l[1] <= p.end {
					has = true
				}
			}
		}
		if !has {
			return "best-without-match", fmt.Sprintf("best fragment %q contains no location", string(out[0]))
		}
	}
	return "", ""
}

// ---------------------------------------------------------------- real searches

type hlAnalyzerSpec struct {
	name   string
	an     *analysis.Analyzer
	script int
}

func hlAnalyzers() []hlAnalyzerSpec {
	shingle := &analysis.Analyzer{Tokenizer: tokenizer.NewUnicodeTokenizer(),
		TokenFilters: []analysis.TokenFilter{token.NewLowerCaseFilter(), token.NewShingleFilter(2, 3, true, " ", "_")}}
	return []hlAnalyzerSpec{
		{"standard", analyzer.NewStandardAnalyzer(), 2},
		{"simple", analyzer.NewSimpleAnalyzer(), 0},
		{"web", analyzer.NewWebAnalyzer(), 0},
		{"keyword", analyzer.NewKeywordAnalyzer(), 0},
		{"en", en.NewAnalyzer(), 0},
		{"fr", fr.Analyzer(), 0},
		{"cjk", cjk.Analyzer(), 1},
		{"shingle", shingle, 0},
	}
}

type hlHit struct {
	text   []byte
	m      [][]hlLoc // dm.Locations["f"], terms sorted
	truth  [][]hlLoc // occurrences of the query's terms in the stored text, recomputed with the analyzer
	locErr string    // non-empty: dm.Locations differs from the recomputation
	query  string
	rank   int // position of the hit in the result list (0 = best)
}

// hlOccurrences analyses text and query independently of the index: for every term of the analysed
// query that occurs in the analysed text, the (Start, End) of all its occurrences, terms sorted.
func hlOccurrences(an *analysis.Analyzer, text []byte, query string) (terms []string, occ map[string][]hlLoc) {
	qterms := map[string]bool{}
	for _, t := range an.Analyze([]byte(query)) {
		qterms[string(t.Term)] = true
	}
	occ = map[string][]hlLoc{}
	for _, t := range an.Analyze(append([]byte{}, text...)) {
		if qterms[string(t.Term)] {
			occ[string(t.Term)] = append(occ[string(t.Term)], hlLoc{t.Start, t.End})
		}
	}
	for t := range occ {
		terms = append(terms, t)
	}
	sort.Strings(terms)
	return terms, occ
}

func hlLocSetEqual(a, b []hlLoc) bool {
	as, bs := map[hlLoc]bool{}, map[hlLoc]bool{}
	for _, l := range a {
		as[l] = true
	}
	for _, l := range b {
		bs[l] = true
	}
	if len(as) != len(bs) {
		return false
	}
	for l := range as {
		if !bs[l] {
			return false
		}
	}
	return true
}

// hlSearchHits indexes docs with the analyzer and returns (stored text, locations of field f) of hits.
func hlSearchHits(rng *rand.Rand, spec hlAnalyzerSpec, ndocs, nqueries int) ([]hlHit, error) {
	wr, err := bluge.OpenWriter(bluge.InMemoryOnlyConfig())
	if err != nil {
		return nil, err
	}
	defer wr.Close()
	texts := map[string]string{}
	b := bluge.NewBatch()
	for i := 0; i < ndocs; i++ {
		target := 10 + rng.Intn(300)
		switch rng.Intn(10) {
		case 0:
			target = 1 + rng.Intn(12)
		case 1:
			target = 600 + rng.Intn(1500)
		}
		if spec.name == "keyword" {
			target = 1 + rng.Intn(40)
		}
		txt := hlText(rng, target, spec.script, true)
		id := fmt.Sprintf("d%d", i)
		texts[id] = txt
		d := bluge.NewDocument(id).AddField(bluge.NewTextField("f", txt).StoreValue().HighlightMatches().WithAnalyzer(spec.an))
		b.Update(d.ID(), d)
	}
	// planted groups: 3..8 documents containing one word a different number of times (1..6) at different
	// offsets and with fillers of different lengths, so that ONE search returns several hits whose numbers
	// of locations are not ordered like their ranks
	var planted []string
	if spec.name != "keyword" {
		for g := 0; g < 3; g++ {
			word := fmt.Sprintf("zq%dx", g)
			if spec.script == 1 {
				word = string([]rune{hlCJK[(7*g+1)%len(hlCJK)], hlCJK[(11*g+3)%len(hlCJK)], hlCJK[(13*g+5)%len(hlCJK)]})
			}
			planted = append(planted, word)
			nd := 3 + rng.Intn(6)
			for i := 0; i < nd; i++ {
				k := 1 + rng.Intn(6)
				var sb strings.Builder
				for c := 0; c < k; c++ {
					sb.WriteString(hlText(rng, rng.Intn(40*(1+rng.Intn(4))), spec.script, true))
					sb.WriteString(" " + word + " ")
				}
				sb.WriteString(hlText(rng, rng.Intn(60), spec.script, true))
				id := fmt.Sprintf("p%d_%d", g, i)
				texts[id] = sb.String()
				d := bluge.NewDocument(id).AddField(bluge.NewTextField("f", sb.String()).StoreValue().HighlightMatches().WithAnalyzer(spec.an))
				b.Update(d.ID(), d)
			}
		}
	}
	if err := wr.Batch(b); err != nil {
		return nil, err
	}
	rd, err := wr.Reader()
	if err != nil {
		return nil, err
	}
	defer rd.Close()
	ids := make([]string, 0, len(texts))
	for id := range texts {
		ids = append(ids, id)
	}
	sort.Strings(ids)
	var hits []hlHit
	for q := -len(planted); q < nqueries; q++ {
		src := texts[ids[rng.Intn(len(ids))]]
		var qs string
		if q < 0 {
			qs = planted[-q-1]
			if rng.Intn(2) == 0 { // together with an ordinary word
				qs += " " + hlLatin[rng.Intn(len(hlLatin))]
			}
		} else if spec.name == "keyword" {
			qs = src
		} else if spec.script == 1 {
			rs := []rune(src)
			a := rng.Intn(len(rs))
			e := a + 2 + rng.Intn(5)
			if e > len(rs) {
				e = len(rs)
			}
			qs = string(rs[a:e])
		} else {
			ws := strings.Fields(src)
			if len(ws) == 0 {
				continue
			}
			k := 1 + rng.Intn(3)
			a := rng.Intn(len(ws))
			var parts []string
			for i := 0; i < k && a+i < len(ws); i++ {
				parts = append(parts, ws[a+i])
			}
			if rng.Intn(3) == 0 {
				parts = append(parts, ws[rng.Intn(len(ws))])
			}
			qs = strings.Join(parts, " ")
		}
		query := bluge.NewMatchQuery(qs).SetAnalyzer(spec.an).SetField("f")
		it, err := rd.Search(context.Background(), bluge.NewTopNSearch(10, query).IncludeLocations())
		if err != nil {
			return nil, err
		}
		for rank := 0; ; rank++ {
			dm, err := it.Next()
			if err != nil {
				return nil, err
			}
			if dm == nil {
				break
			}
			var id string
			var stored []byte
			err = dm.VisitStoredFields(func(field string, value []byte) bool {
				if field == "_id" {
					id = string(value)
				}
				if field == "f" {
					stored = append([]byte{}, value...)
				}
				return true
			})
			if err != nil {
				return nil, err
			}
			if stored == nil || texts[id] != string(stored) {
				return nil, fmt.Errorf("stored text of %s not returned as indexed", id)
			}
			tlm := dm.Locations["f"]
			terms := make([]string, 0, len(tlm))
			for t := range tlm {
				terms = append(terms, t)
			}
			sort.Strings(terms)
			m := make([][]hlLoc, len(terms))
			for i, t := range terms {
				for _, l := range tlm[t] {
					m[i] = append(m[i], hlLoc{l.Start, l.End})
				}
			}
			// independent recomputation of what the locations of this hit must be
			eterms, occ := hlOccurrences(spec.an, stored, qs)
			truth := make([][]hlLoc, len(eterms))
			for i, t := range eterms {
				truth[i] = occ[t]
			}
			locErr := ""
			if len(eterms) != len(terms) {
				locErr = fmt.Sprintf("terms with locations %q, terms of the query occurring in the text %q", terms, eterms)
			} else {
				for i, t := range terms {
					if t != eterms[i] || !hlLocSetEqual(m[i], truth[i]) {
						locErr = fmt.Sprintf("term %q: locations %v, occurrences in the stored text %v", t, m[i], truth[i])
						break
					}
				}
			}
			hits = append(hits, hlHit{text: stored, m: m, truth: truth, locErr: locErr, query: qs, rank: rank})
		}
	}
	return hits, nil
}

// ---------------------------------------------------------------- main

func hlStrs(bs [][]byte) []string {
	out := make([]string, len(bs))
	for i, b := range bs {
		out[i] = string(b)
	}
	return out
}

func runHighlight(o Opts) error {
	rng := rand.New(rand.NewSource(o.Seed))
	w := cq.New(o.Out, "From Bluge Require Import Base.Res Search.Highlight Search.HighlightCorr.", "hcase", 120)
	defer w.Close()
	scale := 1
	if o.Thorough() {
		scale = 10
	}
	child := &hlChild{}
	defer child.stop()

	wellFormed := func(orig []byte, m [][]hlLoc) bool {
		for _, l := range hlFlatten(m) {
			if l[0] < 0 || l[0] > l[1] || l[1] > len(orig) {
				return false
			}
		}
		return true
	}

	// best runs BestFragments in the child, emits the correspondence case when the order of the
	// locations is determined, and evaluates the property.
	best := func(kind string, orig []byte, m [][]hlLoc, fs, num int, htmlFmt bool, real bool, truth [][]hlLoc) {
		if truth == nil {
			truth = m
		}
		j := &hlJob{Kind: "best", HTML: htmlFmt, FS: fs, Num: num, Orig: orig, TLM: m}
		r := child.call(j)
		input := map[string]interface{}{"text": string(orig), "text_hex": fmt.Sprintf("%x", orig), "locations": m, "fragment_size": fs, "num": num, "html": htmlFmt}
		w.OracleEval(1)
		if r.Panic != "" {
			w.OracleFail("highlight-panic", "BestFragments: "+r.Panic, input)
		}
		if hlOrderDeterministic(m) {
			out := cq.None()
			if r.Panic == "" {
				out = cq.Some(cq.BytesList(r.Strs))
			}
			nontriv := len(r.Strs) > 0 && bytes.Contains(bytes.Join(r.Strs, nil), []byte("\x1b["+"43m")) || bytes.Contains(bytes.Join(r.Strs, nil), []byte("<mark>"))
			w.Add(fmt.Sprintf("CBest %s %d %s %s %s %s", cq.B(htmlFmt), fs, hlMap(m), cq.Bytes(orig), cq.I(num), out), kind, nontriv,
				map[string]interface{}{"input": input, "out": hlStrs(r.Strs), "panic": r.Panic})
		} else {
			w.Count("best_order_dependent_no_case", 1)
		}
		if r.Panic == "" && utf8.Valid(orig) && (real || wellFormed(orig, m)) && (htmlFmt || !bytes.Contains(orig, []byte{0x1b})) {
			w.OracleEval(1)
			if key, why := hlCheckProperty(orig, truth, fs, num, htmlFmt, r.Strs); key != "" {
				if real {
					input["matched_term_occurrences"] = truth
				}
				input["out"] = hlStrs(r.Strs)
				input["real_search"] = real
				w.OracleFail(key, why, input)
			}
		}
	}

	// ---- 1. utf8 primitives (Base/UTF8.v)
	nU := 200 * scale
	for i := 0; i < nU; i++ {
		var p []byte
		switch rng.Intn(5) {
		case 0:
			p = []byte(hlText(rng, 1+rng.Intn(12), 2, true))
			if len(p) > 0 && rng.Intn(2) == 0 {
				p = p[:rng.Intn(len(p)+1)]
			}
		case 1:
			p = hlCorrupt(rng, []byte(hlText(rng, rng.Intn(8), 2, false)))
		case 2:
			n := rng.Intn(8)
			p = make([]byte, n)
			for k := range p {
				p[k] = byte([]int{0x7f, 0x80, 0xbf, 0xc0, 0xc1, 0xc2, 0xdf, 0xe0, 0xed, 0xef, 0xf0, 0xf4, 0xf5, 0xff, 0x9f, 0xa0, 0x8f, 0x90}[rng.Intn(18)])
			}
		case 3: // a lead byte followed by continuation bytes at the acceptance boundaries
			lead := []byte{0xc2, 0xdf, 0xe0, 0xe1, 0xec, 0xed, 0xee, 0xef, 0xf0, 0xf1, 0xf3, 0xf4}[rng.Intn(12)]
			p = []byte{lead}
			for k := rng.Intn(5); k > 0; k-- {
				p = append(p, []byte{0x7f, 0x80, 0x8f, 0x90, 0x9f, 0xa0, 0xbf, 0xc0}[rng.Intn(8)])
			}
			if rng.Intn(2) == 0 {
				p = append([]byte(hlText(rng, rng.Intn(6), 2, false)), p...)
			}
		default:
			n := rng.Intn(10)
			p = make([]byte, n)
			rng.Read(p)
		}
		dr, ds := utf8.DecodeRune(p)
		lr, ls := utf8.DecodeLastRune(p)
		w.Add(fmt.Sprintf("CUtf8 %s %d %s %d %s %s %s", cq.Bytes(p), dr, cq.Nat(ds), lr, cq.Nat(ls), cq.Nat(utf8.RuneCount(p)), cq.B(utf8.Valid(p))),
			"utf8", len(p) > 0, map[string]interface{}{"p": fmt.Sprintf("%x", p)})
	}
	runes := []rune{0, 1, 0x7f, 0x80, 0x7ff, 0x800, 0xd7ff, 0xd800, 0xdfff, 0xe000, 0xfffd, 0xffff, 0x10000, 0x10ffff, 0x110000, -1, 1 << 30, 'é', '日', '😀'}
	for i := 0; i < 40*scale; i++ {
		runes = append(runes, rune(rng.Intn(0x120000)))
	}
	for _, r := range runes {
		buf := make([]byte, 4)
		n := utf8.EncodeRune(buf, r)
		w.Add(fmt.Sprintf("CEncode %s %s %s %s", cq.Z(int64(r)), cq.Bytes(buf[:n]), cq.I(utf8.RuneLen(r)), cq.B(utf8.ValidRune(r))), "encode", true,
			map[string]interface{}{"r": int64(r)})
	}

	// ---- 2. real searches
	ndocs, nq := 10, 14
	if o.Thorough() {
		ndocs, nq = 40, 120
	}
	for _, spec := range hlAnalyzers() {
		hits, err := hlSearchHits(rng, spec, ndocs, nq)
		if err != nil {
			return fmt.Errorf("search with analyzer %s: %w", spec.name, err)
		}
		w.Count("real_search_hits:"+spec.name, len(hits))
		// every hit of every search (also the non-top ones): the locations handed out with the hit are exactly
		// the occurrences of the query's terms in the hit's own stored text
		for _, h := range hits {
			w.OracleEval(1)
			if h.rank > 0 {
				w.Count("real_search_non_top_hits", 1)
			}
			if h.locErr != "" {
				w.OracleFail("hit-locations-not-term-occurrences", h.locErr,
					map[string]interface{}{"analyzer": spec.name, "query": h.query, "rank": h.rank, "text": string(h.text), "locations": h.m})
			}
		}
		for hi, h := range hits {
			if !o.Thorough() && hi >= 40 {
				break
			}
			if !wellFormed(h.text, h.m) {
				w.Count("real_search_locations_not_wellformed", 1)
			}
			combos := 2
			for c := 0; c < combos; c++ {
				fs := hlFragSize(rng)
				num := 1 + rng.Intn(4)
				if rng.Intn(12) == 0 {
					num = rng.Intn(2) - 1 // 0 or -1
				}
				best("best-real-"+spec.name, h.text, h.m, fs, num, rng.Intn(2) == 0, true, h.truth)
			}
			if hi%5 == 0 { // default highlighters
				best("best-real-"+spec.name, h.text, h.m, 200, 1, hi%2 == 0, true, h.truth)
			}
		}
	}

	// ---- 3. generated well-formed locations on generated texts (valid UTF-8), incl. overlapping ones
	nG := 120 * scale
	for i := 0; i < nG; i++ {
		target := rng.Intn(200)
		if rng.Intn(10) == 0 {
			target = 400 + rng.Intn(800)
		}
		orig := []byte(hlText(rng, target, rng.Intn(3), true))
		if rng.Intn(25) == 0 {
			orig = nil
		}
		m := hlWellFormedLocs(rng, orig, rng.Intn(3) == 0)
		if rng.Intn(15) == 0 {
			m = nil
		}
		best("best-generated", orig, m, hlFragSize(rng), rng.Intn(5), rng.Intn(2) == 0, false, nil)
	}

	// ---- 4. adversarial locations and invalid texts: no panic + correspondence
	nA := 160 * scale
	for i := 0; i < nA; i++ {
		orig := []byte(hlText(rng, rng.Intn(60), rng.Intn(3), true))
		if rng.Intn(3) == 0 {
			orig = hlCorrupt(rng, orig)
		}
		var m [][]hlLoc
		if rng.Intn(4) == 0 {
			m = hlWellFormedLocs(rng, []byte(strings.ToValidUTF8(string(orig), "?")), true)
			// offsets of the repaired text used on the damaged one: arbitrary in-range offsets
			for _, ls := range m {
				for k := range ls {
					if ls[k][1] > len(orig) {
						ls[k][1] = len(orig)
					}
					if ls[k][0] > ls[k][1] {
						ls[k][0] = ls[k][1]
					}
				}
			}
		} else {
			m = hlAdversarialLocs(rng, len(orig))
		}
		fs := hlFragSize(rng)
		if rng.Intn(10) == 0 {
			fs = rng.Intn(3) - 1 // 0, -1, 1: degenerate sizes must not panic either
			if fs < 0 {
				fs = 0
			}
		}
		best("best-adversarial", orig, m, fs, rng.Intn(4), rng.Intn(2) == 0, false, nil)
	}
	// the replayed defect D5 and its neighbours, always
	for _, l := range []hlLoc{{-3, 2}, {5, 2}, {5, 20}, {15, 20}, {0, 0}, {11, 11}, {-1, -1}, {12, 12}} {
		for _, htmlFmt := range []bool{true, false} {
			best("best-d5", []byte("hello world"), [][]hlLoc{{l}}, 200, 1, htmlFmt, false, nil)
		}
	}
	// valid text with the replacement character (fix 1bc04a0) and nested locations (fix 0996d48)
	best("best-fffd", []byte("bad � hello world"), [][]hlLoc{{{8, 13}}}, 200, 1, true, false, nil)
	best("best-fffd", []byte("hello �"), [][]hlLoc{{{0, 5}}}, 200, 1, false, false, nil)
	best("best-nested", []byte("quick brown fox jumps"), [][]hlLoc{{{0, 15}}, {{6, 11}}}, 200, 1, true, false, nil)
	best("best-nested", []byte("abcdef ghij"), [][]hlLoc{{{0, 6}}, {{1, 3}}}, 200, 1, false, false, nil)

	// ---- 5. components called directly with explicit (possibly unsorted / adversarial) lists
	nC := 100 * scale
	for i := 0; i < nC; i++ {
		orig := []byte(hlText(rng, rng.Intn(120), rng.Intn(3), true))
		if rng.Intn(5) == 0 {
			orig = hlCorrupt(rng, orig)
		}
		var ot []hlLoc
		if rng.Intn(2) == 0 && utf8.Valid(orig) {
			ot = hlFlatten(hlWellFormedLocs(rng, orig, rng.Intn(2) == 0))
			sort.SliceStable(ot, func(a, b int) bool { return ot[a][0] < ot[b][0] })
			if rng.Intn(3) == 0 { // ties and nesting, explicit order
				for k := rng.Intn(3); k > 0 && len(ot) > 0; k-- {
					x := ot[rng.Intn(len(ot))]
					y := hlLoc{x[0], x[1]}
					if rng.Intn(2) == 0 && x[1] > x[0] {
						y[1] = x[0] + rng.Intn(x[1]-x[0]+1)
					}
					p := rng.Intn(len(ot) + 1)
					ot = append(ot[:p], append([]hlLoc{y}, ot[p:]...)...)
				}
			}
		} else {
			ot = hlFlatten(hlAdversarialLocs(rng, len(orig)))
		}
		fs := hlFragSize(rng)
		if rng.Intn(12) == 0 {
			fs = 0
		}
		// Fragment
		r := child.call(&hlJob{Kind: "fragment", FS: fs, Orig: orig, OT: ot})
		w.OracleEval(1)
		input := map[string]interface{}{"text_hex": fmt.Sprintf("%x", orig), "ot": ot, "fragment_size": fs}
		if r.Panic != "" {
			w.OracleFail("highlight-panic", "Fragment: "+r.Panic, input)
		}
		out := cq.None()
		if r.Panic == "" {
			out = cq.Some(hlPairs(r.Locs))
		}
		w.Add(fmt.Sprintf("CFragment %s %d %s %s", cq.Bytes(orig), fs, hlPairs(ot), out), "fragment", len(r.Locs) > 0,
			map[string]interface{}{"input": input, "out": r.Locs, "panic": r.Panic})
		// MergeOverlapping
		rm := child.call(&hlJob{Kind: "merge", OT: ot})
		w.OracleEval(1)
		if rm.Panic != "" {
			w.OracleFail("highlight-panic", "MergeOverlapping: "+rm.Panic, input)
		} else {
			merged := false
			for _, nl := range rm.Nil {
				merged = merged || nl
			}
			w.Add(fmt.Sprintf("CMerge %s %s", hlPairs(ot), hlOptPairs(rm.Locs, rm.Nil)), "merge", merged,
				map[string]interface{}{"ot": ot})
			// Format on the merged list for each fragment returned (plus an arbitrary window)
			wins := append([]hlLoc{}, r.Locs...)
			if len(orig) > 0 && utf8.Valid(orig) {
				bs := hlBoundaries(orig)
				a := rng.Intn(len(bs))
				b := a + rng.Intn(len(bs)-a)
				wins = append(wins, hlLoc{bs[a], bs[b]})
			}
			if len(wins) > 3 {
				wins = wins[:3]
			}
			for _, win := range wins {
				htmlFmt := rng.Intn(2) == 0
				rf := child.call(&hlJob{Kind: "format", HTML: htmlFmt, Orig: orig, OT: rm.Locs, Nil: rm.Nil, FStart: win[0], FEnd: win[1]})
				w.OracleEval(1)
				finput := map[string]interface{}{"text_hex": fmt.Sprintf("%x", orig), "locations": rm.Locs, "nil": rm.Nil, "fragment": win, "html": htmlFmt}
				if rf.Panic != "" {
					w.OracleFail("highlight-panic", "Format: "+rf.Panic, finput)
				}
				fo := cq.None()
				if rf.Panic == "" {
					fo = cq.Some(cq.Bytes(rf.Strs[0]))
				}
				w.Add(fmt.Sprintf("CFormat %s %s %s %s %s %s", cq.B(htmlFmt), cq.Bytes(orig), cq.I(win[0]), cq.I(win[1]), hlOptPairs(rm.Locs, rm.Nil), fo),
					"format", rf.Panic == "" && len(rf.Strs[0]) > win[1]-win[0], map[string]interface{}{"input": finput})
			}
		}
		// Score + Order on a map made of the same locations
		m := make([][]hlLoc, 1+rng.Intn(3))
		for _, l := range ot {
			t := rng.Intn(len(m))
			m[t] = append(m[t], l)
		}
		if len(r.Locs) > 0 {
			f := r.Locs[rng.Intn(len(r.Locs))]
			rs := child.call(&hlJob{Kind: "score", TLM: m, Orig: orig, FStart: f[0], FEnd: f[1]})
			if rs.Panic == "" {
				w.Add(fmt.Sprintf("CScore %s %s %s %d", hlMap(m), cq.I(f[0]), cq.I(f[1]), int64(rs.Score)), "score", rs.Score > 0, map[string]interface{}{"m": m, "f": f})
			}
		}
		ro := child.call(&hlJob{Kind: "order", TLM: m})
		if ro.Panic == "" {
			starts := make([]int, len(ro.Locs))
			for k, l := range ro.Locs {
				starts[k] = l[0]
			}
			w.Add(fmt.Sprintf("COrder %s %s", hlMap(m), cq.IntList(starts)), "order", len(starts) > 1, map[string]interface{}{"m": m})
		}
	}
	// ---- 6. DocumentMatch.Complete on hand-made FieldTermLocations (what the collectors call on every hit)
	nK := 60 * scale
	for i := 0; i < nK; i++ {
		n := rng.Intn(13)
		ftl := make([][5]int, 0, n)
		fld := 1 + rng.Intn(3)
		pos := 1
		for k := 0; k < n; k++ {
			if rng.Intn(4) == 0 {
				fld = 1 + rng.Intn(3)
			}
			if rng.Intn(25) == 0 {
				fld = 0 // the empty field name
			}
			switch rng.Intn(6) {
			case 0: // same position again: a duplicate
			case 1:
				pos = 1 + rng.Intn(6) // out of order
			default:
				pos++
			}
			ftl = append(ftl, [5]int{fld, 1 + rng.Intn(3), pos, pos * 3, pos*3 + 2})
		}
		r := child.call(&hlJob{Kind: "complete", FTL: ftl})
		items := make([]string, len(ftl))
		for k, x := range ftl {
			items[k] = fmt.Sprintf("(%d, %d, (%d, %d, %d))", x[0], x[1], x[2], x[3], x[4])
		}
		out := cq.None()
		if r.Panic == "" {
			fs := make([]string, len(r.Map))
			for a, fl := range r.Map {
				ts := make([]string, len(fl.Terms))
				for b, tl := range fl.Terms {
					ls := make([]string, len(tl.Locs))
					for c, l := range tl.Locs {
						ls[c] = fmt.Sprintf("(%d, %d, %d)", l[0], l[1], l[2])
					}
					ts[b] = fmt.Sprintf("(%d, %s)", tl.T, cq.List(ls))
				}
				fs[a] = fmt.Sprintf("(%d, %s)", fl.F, cq.List(ts))
			}
			out = cq.Some(cq.List(fs))
		} else if len(ftl) == 0 || ftl[0][0] != 0 || !strings.Contains(r.Panic, "nil map") {
			// the only panic Complete has: first location of a field named "" (outside the property: no query
			// yields it); anything else is reported
			w.OracleFail("complete-panic", "DocumentMatch.Complete: "+r.Panic, ftl)
		}
		w.Add(fmt.Sprintf("CComplete %s %s", cq.List(items), out), "complete", len(ftl) > 1, map[string]interface{}{"ftl": ftl, "panic": r.Panic})
	}
	w.Count("child_starts", child.starts)
	return nil
}
