package engines

// analysis_patterns.go — part of engine `analysis` (C18): "pattern-bearing text" and the
// TokenFrequencies merge / composite-field checks.
//
// Pattern-bearing text: the regexp-driven components (web and exception tokenizers, regexp
// tokenizer, html / regexp / ZWNJ char filters) behave differently exactly where their patterns
// match, so the generator synthesises strings that MATCH those patterns: the pattern literals
// are read from the Go source at run time (go/parser over analysis/tokenizer and analysis/char:
// every string constant that reaches regexp.MustCompile, directly or through package-level
// variables joined with + / strings.Join), parsed with regexp/syntax, and a random matching string
// is produced by walking the syntax tree.  The matches are embedded between hostile neighbours:
// runes whose lower/upper-case form has another byte length (Ⱥ Ⱦ İ K ſ ẞ), invalid bytes,
// truncated runes, multi-byte runes, combining marks; several matches per text, matches at
// position 0 and at the end.

import (
	"bytes"
	"fmt"
	"go/ast"
	"go/parser"
	"go/token"
	"math/rand"
	"path/filepath"
	"regexp"
	"regexp/syntax"
	"sort"
	"strconv"
	"strings"
	"unicode/utf8"

	"github.com/blugelabs/bluge"
	"github.com/blugelabs/bluge/analysis"

	"verif/harness/cq"
)

// analysisEvalString evaluates a constant string expression: literals, +, identifiers bound to
// package-level string variables/constants, strings.Join of a []string literal/variable.
func analysisEvalString(e ast.Expr, vars map[string]ast.Expr, depth int) (string, bool) {
	if depth > 8 {
		return "", false
	}
	switch x := e.(type) {
	case *ast.BasicLit:
		if x.Kind == token.STRING {
			s, err := strconv.Unquote(x.Value)
			return s, err == nil
		}
	case *ast.ParenExpr:
		return analysisEvalString(x.X, vars, depth+1)
	case *ast.BinaryExpr:
		if x.Op == token.ADD {
			a, ok1 := analysisEvalString(x.X, vars, depth+1)
			b, ok2 := analysisEvalString(x.Y, vars, depth+1)
			return a + b, ok1 && ok2
		}
	case *ast.Ident:
		if v, ok := vars[x.Name]; ok {
			return analysisEvalString(v, vars, depth+1)
		}
	case *ast.CallExpr:
		if sel, ok := x.Fun.(*ast.SelectorExpr); ok && sel.Sel.Name == "Join" && len(x.Args) == 2 {
			sep, ok := analysisEvalString(x.Args[1], vars, depth+1)
			if !ok {
				return "", false
			}
			list := x.Args[0]
			if id, ok := list.(*ast.Ident); ok {
				list = vars[id.Name]
			}
			cl, ok := list.(*ast.CompositeLit)
			if !ok {
				return "", false
			}
			parts := make([]string, 0, len(cl.Elts))
			for _, el := range cl.Elts {
				s, ok := analysisEvalString(el, vars, depth+1)
				if !ok {
					return "", false
				}
				parts = append(parts, s)
			}
			return strings.Join(parts, sep), true
		}
	}
	return "", false
}

// analysisSourcePatterns: the regexp sources compiled by the packages analysis/tokenizer and
// analysis/char (and the alternatives they are joined from), read from the Go source.
func analysisSourcePatterns() []string {
	seen := map[string]bool{}
	var out []string
	add := func(s string) {
		if s != "" && !seen[s] {
			if _, err := syntax.Parse(s, syntax.Perl); err == nil {
				seen[s] = true
				out = append(out, s)
			}
		}
	}
	for _, dir := range []string{"analysis/tokenizer", "analysis/char"} {
		files, _ := filepath.Glob(filepath.Join(analysisRepoRoot(), dir, "*.go"))
		sort.Strings(files)
		fset := token.NewFileSet()
		vars := map[string]ast.Expr{}
		var parsed []*ast.File
		for _, fn := range files {
			if strings.HasSuffix(fn, "_test.go") {
				continue
			}
			f, err := parser.ParseFile(fset, fn, nil, 0)
			if err != nil {
				continue
			}
			parsed = append(parsed, f)
			for _, d := range f.Decls {
				gd, ok := d.(*ast.GenDecl)
				if !ok {
					continue
				}
				for _, sp := range gd.Specs {
					if vs, ok := sp.(*ast.ValueSpec); ok {
						for i, n := range vs.Names {
							if i < len(vs.Values) {
								vars[n.Name] = vs.Values[i]
							}
						}
					}
				}
			}
		}
		for _, f := range parsed {
			ast.Inspect(f, func(n ast.Node) bool {
				c, ok := n.(*ast.CallExpr)
				if !ok {
					return true
				}
				sel, ok := c.Fun.(*ast.SelectorExpr)
				if !ok || sel.Sel.Name != "MustCompile" || len(c.Args) != 1 {
					return true
				}
				if s, ok := analysisEvalString(c.Args[0], vars, 0); ok {
					add(s)
				}
				return true
			})
		}
		// the alternatives a joined pattern is made of (e-mail, URL, handle, hashtag separately)
		names := make([]string, 0, len(vars))
		for n := range vars {
			names = append(names, n)
		}
		sort.Strings(names)
		for _, n := range names {
			if s, ok := analysisEvalString(vars[n], vars, 0); ok && len(s) >= 4 && strings.ContainsAny(s, `[\(+*`) {
				add(s)
			}
		}
	}
	return out
}

// analysisSample produces a random string matched by the expression (anchors and word boundaries
// are not enforced: a sample that fails to match is still a legitimate input).
func analysisSample(rng *rand.Rand, re *syntax.Regexp, depth int, sb *strings.Builder) {
	fold := re.Flags&syntax.FoldCase != 0
	switch re.Op {
	case syntax.OpLiteral:
		for _, r := range re.Rune {
			if fold && rng.Intn(3) == 0 {
				r = []rune(strings.ToUpper(string(r)))[0]
			}
			sb.WriteRune(r)
		}
	case syntax.OpCharClass:
		if len(re.Rune) == 0 {
			return
		}
		// prefer an ASCII member; now and then any member of a random range
		for try := 0; try < 8; try++ {
			k := rng.Intn(len(re.Rune)/2) * 2
			lo, hi := re.Rune[k], re.Rune[k+1]
			if hi > 0x7e && lo <= 0x7e && try < 6 {
				hi = 0x7e
			}
			if lo > 0x7e && try < 4 {
				continue
			}
			if hi-lo > 2000 {
				hi = lo + 2000
			}
			r := lo + rune(rng.Intn(int(hi-lo)+1))
			if r >= 0xD800 && r <= 0xDFFF {
				continue
			}
			sb.WriteRune(r)
			return
		}
		sb.WriteRune(re.Rune[0])
	case syntax.OpAnyCharNotNL, syntax.OpAnyChar:
		sb.WriteString([]string{"a", "Z", "9", "é", "漢", "-", "Ⱥ"}[rng.Intn(7)])
	case syntax.OpCapture:
		analysisSample(rng, re.Sub[0], depth+1, sb)
	case syntax.OpConcat:
		for _, s := range re.Sub {
			analysisSample(rng, s, depth+1, sb)
		}
	case syntax.OpAlternate:
		analysisSample(rng, re.Sub[rng.Intn(len(re.Sub))], depth+1, sb)
	case syntax.OpStar, syntax.OpPlus, syntax.OpQuest, syntax.OpRepeat:
		min, max := 0, 3
		switch re.Op {
		case syntax.OpPlus:
			min = 1
		case syntax.OpQuest:
			max = 1
		case syntax.OpRepeat:
			min, max = re.Min, re.Max
			if max < 0 || max > min+3 {
				max = min + 3
			}
		}
		if depth > 6 {
			max = min
		}
		n := min
		if max > min {
			n += rng.Intn(max - min + 1)
		}
		for i := 0; i < n; i++ {
			analysisSample(rng, re.Sub[0], depth+1, sb)
		}
	}
}

// hostile neighbours of a match
var analysisHostile = []string{"Ⱥ", "Ⱦ", "ȺȺȺ", "İ", "K", "ſ", "ẞ", "\xff", "\xff\xfe", "\xe2\x82", "\xf0\x9f\x98", "\xc3", "漢", "é", "é", "́", "👍🏽",
	"", "", " ", " ", "\n", ".", "(", "<", "İstanbul ", "K\xff "}

// analysisPatternInputs builds n pattern-bearing texts.
func analysisPatternInputs(rng *rand.Rand, n int) []analysisInput {
	pats := append(analysisSourcePatterns(),
		// the patterns this harness configures itself (exception / regexp tokenizers, regexp char filters)
		`[A-Z]\.[A-Z]\.|\d+-\d+`, `\S+@\S+`, `\w+`, `\S+`, `[a-z]*`, `[0-9]+`, `[aeiou]`, `\s+`)
	var trees []*syntax.Regexp
	for _, p := range pats {
		if t, err := syntax.Parse(p, syntax.Perl); err == nil {
			trees = append(trees, t.Simplify())
		}
	}
	var out []analysisInput
	if len(trees) == 0 {
		return out
	}
	match := func() string {
		var sb strings.Builder
		analysisSample(rng, trees[rng.Intn(len(trees))], 0, &sb)
		s := sb.String()
		if len(s) > 60 {
			s = s[:60]
		}
		return s
	}
	host := func() string { return analysisHostile[rng.Intn(len(analysisHostile))] }
	for i := 0; i < n; i++ {
		var sb bytes.Buffer
		k := 1 + rng.Intn(3)
		switch i % 4 {
		case 0: // a match at position 0
		case 1, 2:
			sb.WriteString(host())
			if rng.Intn(2) == 0 {
				sb.WriteByte(' ')
			}
		default:
			sb.WriteString(host())
			sb.WriteString(host())
		}
		for j := 0; j < k; j++ {
			sb.WriteString(match())
			if j+1 < k || i%4 != 1 { // i%4 == 1: the last match ends the text
				sb.WriteString(host())
				if rng.Intn(2) == 0 {
					sb.WriteByte(' ')
				}
			}
		}
		out = append(out, analysisInput{"pattern-bearing", sb.Bytes()})
	}
	// fixed ones: a length-changing rune before each kind of web exception
	for _, s := range []string{"ȺȺȺ #go", "Ⱦ user@example.com", "\xff\xff\xff @handle x", "İİİİ http://example.com/a?b=c end", "KKKK www.example.org/x #tag",
		"#tagȺ@h", "<b>Ⱥ</b> &amp; <i\xff>", "A.B.Ⱥ 12-34\xff"} {
		out = append(out, analysisInput{"pattern-bearing", []byte(s)})
	}
	return out
}

// ---------------------------------------------------------------- TokenFrequencies.MergeAll, composite fields

func analysisCoqFreqsF(tfs analysis.TokenFrequencies) string {
	keys := make([]string, 0, len(tfs))
	for k := range tfs {
		keys = append(keys, k)
	}
	sort.Strings(keys)
	it := make([]string, 0, len(keys))
	for _, k := range keys {
		tf := tfs[k]
		locs := make([]string, len(tf.Locations))
		for i, l := range tf.Locations {
			locs[i] = fmt.Sprintf("(%s, (%s, %s, %s))", analysisBytes([]byte(l.FieldVal)), cq.I(l.StartVal), cq.I(l.EndVal), cq.I(l.PositionVal))
		}
		it = append(it, fmt.Sprintf("(%s, %s, %s)", analysisBytes(tf.TermVal), cq.List(locs), cq.I(tf.Frequency())))
	}
	return cq.List(it)
}

var analysisMergeWords = []string{"ab", "cd", "ab", "ef", "the", "fox", "ab", "x", "漢字", "cd", "Ab"}

func analysisMergeText(rng *rand.Rand) []byte {
	var sb bytes.Buffer
	for i, n := 0, 1+rng.Intn(6); i < n; i++ {
		if i > 0 {
			sb.WriteByte(' ')
		}
		sb.WriteString(analysisMergeWords[rng.Intn(len(analysisMergeWords))])
	}
	return sb.Bytes()
}

// merges: two or three token-frequency maps sharing terms, with and without locations, merged into
// one map; the merged map and every source map afterwards are compared with the model (CMerge)
func (e *analysisEngine) merges(n int) {
	for i := 0; i < n; i++ {
		k := 2 + e.rng.Intn(2)
		type src struct {
			name  string
			toks  []analysisTokSnap
			tv    bool
			start int
			tfs   analysis.TokenFrequencies
			count map[string]int
		}
		srcs := make([]src, k)
		ok := true
		for j := range srcs {
			text := analysisMergeText(e.rng)
			mk := analysisSmallAnalyzers[e.rng.Intn(2)]
			var toks analysis.TokenStream
			if !e.guarded("merge/Analyze", "merge", analysisQ(text), false, func() { toks = mk().Analyze(text) }) {
				ok = false
				break
			}
			s := src{name: fmt.Sprintf("f%d", j+1), toks: analysisSnapTokens(toks), tv: e.rng.Intn(2) == 0, start: []int{0, 0, 5}[e.rng.Intn(3)], count: map[string]int{}}
			if j == 0 && e.rng.Intn(2) == 0 {
				s.tv = false // the first field without positions
			}
			for _, t := range s.toks {
				s.count[string(t.Term)]++
			}
			s.tfs, _ = analysis.TokenFrequency(toks, s.tv, s.start)
			srcs[j] = s
		}
		if !ok {
			continue
		}
		dst := analysis.TokenFrequencies{}
		okM := true
		for j := range srcs {
			s := srcs[j]
			if !e.guarded("TokenFrequencies.MergeAll", "merge", s.name, false, func() { dst.MergeAll(s.name, s.tfs) }) {
				okM = false
				break
			}
		}
		if !okM {
			continue
		}
		// oracle: every source keeps its frequencies; the merged frequency is the sum
		e.w.OracleEval(1)
		why := ""
		total := map[string]int{}
		for _, s := range srcs {
			for term, c := range s.count {
				total[term] += c
				if tf, ok := s.tfs[term]; !ok || tf.Frequency() != c {
					why = fmt.Sprintf("source %s: frequency of %q changed by the merge (is %d, was %d)", s.name, term, s.tfs[term].Frequency(), c)
				}
			}
			if len(s.tfs) != len(s.count) {
				why = fmt.Sprintf("source %s: number of terms changed by the merge", s.name)
			}
		}
		for term, c := range total {
			if tf, ok := dst[term]; !ok || tf.Frequency() != c {
				why = fmt.Sprintf("merged frequency of %q is not the sum %d of the sources", term, c)
			}
		}
		if why != "" {
			e.w.OracleFail("freq-merge", why, map[string]interface{}{"sources": k})
		}
		items := make([]string, k)
		after := make([]string, k)
		for j, s := range srcs {
			items[j] = fmt.Sprintf("(%s, (%s, (%s, %d)))", analysisBytes([]byte(s.name)), analysisCoqStream(s.toks), cq.B(s.tv), s.start)
			after[j] = analysisCoqFreqsF(s.tfs)
		}
		e.w.Add(fmt.Sprintf("CMerge %s %s %s", cq.List(items), analysisCoqFreqsF(dst), cq.List(after)), "merge", len(total) > 0, map[string]interface{}{"sources": k})
	}
}

// composites: Document.Analyze of a document with a composite field over two or three text fields
// sharing terms (the first one without positions): every source field's AnalyzedTokenFrequencies
// still say what TokenFrequency gave for that field alone, the composite's frequencies are the sums.
func (e *analysisEngine) composites(n int) {
	for i := 0; i < n; i++ {
		k := 2 + e.rng.Intn(2)
		names := []string{"a", "b", "c"}[:k]
		var doc bluge.Document
		var fields []*bluge.TermField
		counts := make([]map[string]int, k)
		bad := false
		for j := 0; j < k; j++ {
			text := analysisMergeText(e.rng)
			mk := analysisSmallAnalyzers[e.rng.Intn(2)]
			fld := bluge.NewTextFieldBytes(names[j], append([]byte{}, text...)).WithAnalyzer(mk())
			if j > 0 && e.rng.Intn(2) == 0 {
				fld.SearchTermPositions()
			}
			var toks analysis.TokenStream
			if !e.guarded("composite/Analyze", "composite", analysisQ(text), false, func() { toks = mk().Analyze(append([]byte{}, text...)) }) {
				bad = true
				break
			}
			counts[j] = map[string]int{}
			for _, t := range toks {
				counts[j][string(t.Term)]++
			}
			fields = append(fields, fld)
			doc = append(doc, fld)
		}
		if bad {
			continue
		}
		var comp *bluge.CompositeField
		included := map[string]bool{}
		if e.rng.Intn(2) == 0 {
			comp = bluge.NewCompositeFieldExcluding("_all", nil)
			for _, nm := range names {
				included[nm] = true
			}
		} else {
			inc := names[:1+e.rng.Intn(k)]
			comp = bluge.NewCompositeFieldIncluding("_all", inc)
			for _, nm := range inc {
				included[nm] = true
			}
		}
		if e.rng.Intn(2) == 0 {
			doc = append(bluge.Document{comp}, doc...)
		} else {
			doc = append(doc, comp)
		}
		if !e.guarded("Document.Analyze(composite)", "composite", k, false, func() { doc.Analyze() }) {
			continue
		}
		e.w.OracleEval(1)
		why := ""
		total := map[string]int{}
		for j, f := range fields {
			tfs := f.AnalyzedTokenFrequencies()
			if len(tfs) != len(counts[j]) {
				why = fmt.Sprintf("field %s: number of terms changed", names[j])
			}
			for term, c := range counts[j] {
				if included[names[j]] {
					total[term] += c
				}
				if tf, ok := tfs[term]; !ok || tf.Frequency() != c {
					why = fmt.Sprintf("field %s: frequency of %q is %d after Document.Analyze, the field alone has %d occurrences", names[j], term, tfs[term].Frequency(), c)
				}
			}
		}
		ctfs := comp.AnalyzedTokenFrequencies()
		if len(ctfs) != len(total) {
			why = "composite field: number of terms is not that of the included fields"
		}
		for term, c := range total {
			if tf, ok := ctfs[term]; !ok || tf.Frequency() != c {
				why = fmt.Sprintf("composite field: frequency of %q is not the sum %d of the included fields", term, c)
			}
		}
		if why != "" {
			e.w.OracleFail("composite-merge", why, map[string]interface{}{"fields": k})
		}
	}
	_ = regexp.MustCompile
	_ = utf8.RuneError
}
