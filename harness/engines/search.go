package engines

// Engine `search` (C07): generated corpora x generated query trees.
//   * direct oracle: a plain Go evaluator of the documented query meaning over the analysed
//     fields of the live documents (the analysis output of the implementation itself, so that
//     C07 does not depend on C18), independent of the Coq model;
//   * correspondence cases for Search/SearchCorr.v: the observed layout (segments, deleted
//     sets) with the observed ids per query, recomputed by the model's `run` and `sem`;
//   * a second sub-engine drives the searcher structs directly (Query.Searcher over the
//     index snapshot) with Next/Advance scripts and checks the iterator contract step by step.
// The corpus / query / oracle machinery is shared with the `layout` engine (C08).

import (
	"bytes"
	"context"
	"fmt"
	"math"
	"math/rand"
	"regexp"
	"sort"
	"strconv"
	"os"
	"path/filepath"
	"strings"
	"sync"
	"time"

	"github.com/blugelabs/bluge"
	"github.com/blugelabs/bluge/analysis/analyzer"
	"github.com/blugelabs/bluge/index"
	"github.com/blugelabs/bluge/numeric"
	"github.com/blugelabs/bluge/search"
	"github.com/blugelabs/bluge/search/searcher"

	"verif/harness/cq"
)

func init() { Registry["search"] = runSearch }

// ---------------------------------------------------------------- corpus

const (
	sxFT = iota // text, standard analyzer, term positions
	sxFK        // keyword
	sxFN        // numeric
	sxFD        // datetime
	sxFG        // geo point
	sxNFields
)

var sFieldNames = []string{"t", "k", "n", "d", "g"}

type sxATerm struct {
	Term []byte
	Pos  []int
}

// one version of a document (an update creates a new version with the same id)
type sVersion struct {
	V, ID    int
	Text     string
	HasText  bool
	Kw       string
	HasKw    bool
	Num      float64
	HasNum   bool
	Date     time.Time
	HasDate  bool
	Lon, Lat float64
	HasGeo   bool
	an       [sxNFields][]sxATerm
}

type sOp struct {
	Kind int // 0 insert, 1 update, 2 delete
	V    *sVersion
	ID   int
}

type sCorpus struct {
	Versions []*sVersion
	Batches  [][]sOp
	Live     map[int]*sVersion // id -> live version after all batches (the abstract index)
	Vocab    []string
	Extra    []*sxGq // queries made for this corpus (run in every mode and as scripts)
}

func (v *sVersion) blugeDoc() *bluge.Document {
	d := bluge.NewDocument(strconv.Itoa(v.ID))
	d.AddField(bluge.NewStoredOnlyField("v", []byte(strconv.Itoa(v.V))))
	if v.HasText {
		d.AddField(bluge.NewTextField("t", v.Text).SearchTermPositions().StoreValue())
	}
	if v.HasKw {
		d.AddField(bluge.NewKeywordField("k", v.Kw).Sortable().Aggregatable().StoreValue())
	}
	if v.HasNum {
		d.AddField(bluge.NewNumericField("n", v.Num).StoreValue())
	}
	if v.HasDate {
		d.AddField(bluge.NewDateTimeField("d", v.Date))
	}
	if v.HasGeo {
		d.AddField(bluge.NewGeoPointField("g", v.Lon, v.Lat))
	}
	return d
}

// analyse runs the implementation's own analysis on a private copy of the document and
// records terms and positions per field.
func (v *sVersion) analyse() {
	d := v.blugeDoc()
	d.Analyze()
	for _, f := range *d {
		fi := -1
		for i, n := range sFieldNames {
			if n == f.Name() {
				fi = i
			}
		}
		if fi < 0 || !f.Index() {
			continue
		}
		var out []sxATerm
		for _, tf := range f.AnalyzedTokenFrequencies() {
			at := sxATerm{Term: append([]byte{}, tf.TermVal...)}
			for _, l := range tf.Locations {
				at.Pos = append(at.Pos, l.PositionVal)
			}
			sort.Ints(at.Pos)
			out = append(out, at)
		}
		sort.Slice(out, func(i, j int) bool { return bytes.Compare(out[i].Term, out[j].Term) < 0 })
		v.an[fi] = out
	}
}

func (v *sVersion) terms(f int) []sxATerm { return v.an[f] }

func (v *sVersion) positions(f int, term []byte) []int {
	for _, t := range v.an[f] {
		if bytes.Equal(t.Term, term) {
			return t.Pos
		}
	}
	return nil
}

func (v *sVersion) hasTerm(f int, term []byte) bool {
	for _, t := range v.an[f] {
		if bytes.Equal(t.Term, term) {
			return true
		}
	}
	return false
}

var sWordPool = []string{"ab", "abc", "abd", "ba", "bab", "cab", "b", "abcd", "ac", "bc", "cb", "xa", "abb", "bb"}
var sKwPool = []string{"k1", "k2", "k10", "ka", "kb", "m", "mm", "a", "zz", "k", "kab"}
var sNumPool = []float64{-2, -1, -0.5, 0, 0.5, 1, 2, 15, 16, 17, 255, 256, 1e10, -1e10, 3.5, 100, 1000, math.MaxFloat64, -math.MaxFloat64, math.SmallestNonzeroFloat64}
var sDateBase = time.Date(2020, 1, 1, 0, 0, 0, 0, time.UTC)
var sDateOffsets = []time.Duration{0, time.Hour, 2 * time.Hour, 24 * time.Hour, 25 * time.Hour, -time.Hour, 1000 * time.Hour, -440000 * time.Hour}

const sGeoLon, sGeoLat = 10.0, 50.0

func sxGenVersion(rng *rand.Rand, v, id int, vocab []string) *sVersion {
	sv := &sVersion{V: v, ID: id}
	if rng.Intn(12) != 0 {
		sv.HasText = true
		n := 1 + rng.Intn(6)
		ws := make([]string, n)
		for i := range ws {
			ws[i] = vocab[rng.Intn(len(vocab))]
		}
		sv.Text = strings.Join(ws, " ")
	}
	if rng.Intn(3) != 0 {
		sv.HasKw = true
		sv.Kw = sKwPool[rng.Intn(len(sKwPool))]
	}
	if rng.Intn(2) == 0 {
		sv.HasNum = true
		sv.Num = sNumPool[rng.Intn(len(sNumPool))]
	}
	if rng.Intn(3) == 0 {
		sv.HasDate = true
		sv.Date = sDateBase.Add(sDateOffsets[rng.Intn(len(sDateOffsets))])
	}
	if rng.Intn(3) == 0 {
		sv.HasGeo = true
		// a grid around the centre; steps of 0.25 degrees keep points clear of the edges used by the queries
		sv.Lon = sGeoLon + float64(rng.Intn(9)-4)*0.25
		sv.Lat = sGeoLat + float64(rng.Intn(9)-4)*0.25
	}
	sv.analyse()
	return sv
}

// sxGenCorpus: nDocs documents inserted over nSeg batches; later batches also update and delete
// documents of earlier ones so that deletions are pending in the older segments.
func sxGenCorpus(rng *rand.Rand, nDocs, nSeg int, withDeletes bool) *sCorpus {
	c := &sCorpus{Live: map[int]*sVersion{}}
	perm := rng.Perm(len(sWordPool))
	nv := 3 + rng.Intn(4)
	for i := 0; i < nv; i++ {
		c.Vocab = append(c.Vocab, sWordPool[perm[i]])
	}
	if nSeg < 1 {
		nSeg = 1
	}
	c.Batches = make([][]sOp, nSeg)
	nextV := 0
	newV := func(id int) *sVersion {
		sv := sxGenVersion(rng, nextV, id, c.Vocab)
		nextV++
		c.Versions = append(c.Versions, sv)
		return sv
	}
	for id := 1; id <= nDocs; id++ {
		b := 0
		if nSeg > 1 {
			b = rng.Intn(nSeg)
			if id <= nSeg { // no empty batch
				b = id - 1
			}
		}
		sv := newV(id)
		c.Batches[b] = append(c.Batches[b], sOp{Kind: 0, V: sv, ID: id})
	}
	// replay to know what is live where; add updates/deletes to later batches
	insertedIn := map[int]int{}
	for b, ops := range c.Batches {
		for _, op := range ops {
			insertedIn[op.ID] = b
		}
	}
	if withDeletes && nSeg > 1 {
		for id := 1; id <= nDocs; id++ {
			b0 := insertedIn[id]
			if b0 >= nSeg-1 {
				continue
			}
			switch rng.Intn(5) {
			case 0: // delete in a later batch
				b := b0 + 1 + rng.Intn(nSeg-1-b0)
				c.Batches[b] = append(c.Batches[b], sOp{Kind: 2, ID: id})
			case 1: // update in a later batch
				b := b0 + 1 + rng.Intn(nSeg-1-b0)
				c.Batches[b] = append(c.Batches[b], sOp{Kind: 1, V: newV(id), ID: id})
			}
		}
	}
	for _, ops := range c.Batches {
		for _, op := range ops {
			switch op.Kind {
			case 0, 1:
				c.Live[op.ID] = op.V
			case 2:
				delete(c.Live, op.ID)
			}
		}
	}
	return c
}

func (c *sCorpus) liveIDs() []int {
	ids := make([]int, 0, len(c.Live))
	for id := range c.Live {
		ids = append(ids, id)
	}
	sort.Ints(ids)
	return ids
}

// sxMergeFreeConfig switches background merging off through the index configuration.
func sxMergeFreeConfig(cfg bluge.Config) bluge.Config {
	ic := cfg.VerifIndexConfig()
	ic.MergePlanOptions.MaxSegmentsPerTier = 100000
	ic.MergePlanOptions.SegmentsPerMergeTask = 100000
	ic.MergePlanOptions.FloorSegmentSize = 1
	ic.MinSegmentsForInMemoryMerge = 1 << 30
	return cfg.VerifWithIndexConfig(ic)
}

func sxApplyBatches(w *bluge.Writer, batches [][]sOp) error {
	for _, ops := range batches {
		if len(ops) == 0 {
			continue
		}
		b := bluge.NewBatch()
		for _, op := range ops {
			switch op.Kind {
			case 0:
				b.Insert(op.V.blugeDoc())
			case 1:
				b.Update(bluge.Identifier(strconv.Itoa(op.ID)), op.V.blugeDoc())
			case 2:
				b.Delete(bluge.Identifier(strconv.Itoa(op.ID)))
			}
		}
		if err := w.Batch(b); err != nil {
			return err
		}
	}
	return nil
}

// ---------------------------------------------------------------- observed layout

type sxSpyQuery struct{ r search.Reader }

func (s *sxSpyQuery) Searcher(i search.Reader, o search.SearcherOptions) (search.Searcher, error) {
	s.r = i
	return searcher.NewMatchNoneSearcher(i, o)
}

type sxASeg struct {
	Docs []*sVersion
	Del  []int
}

type sxALayout struct {
	Segs    []sxASeg
	Snap    *index.Snapshot
	NumToV  []*sVersion // global number -> version
	Deleted []bool
	Broken  string // the reader resolves a global number to another document than the layout says
}

func sxSnapshotOf(rd *bluge.Reader) (*index.Snapshot, error) {
	spy := &sxSpyQuery{}
	it, err := rd.Search(context.Background(), bluge.NewAllMatches(spy))
	if err != nil {
		return nil, err
	}
	if m, _ := it.Next(); m != nil {
		return nil, fmt.Errorf("spy query matched")
	}
	snap, ok := spy.r.(*index.Snapshot)
	if !ok {
		return nil, fmt.Errorf("reader is %T", spy.r)
	}
	return snap, nil
}

// sxObserveLayout reads the physical layout: per segment (index.VerifSnapshotInfo) the stored
// version field of every local document number and the deleted bitmap.  The global numbers of
// the model are those of the documentation: a segment starts where the full sizes of the
// segments before it end.  The reader's own resolution of every global number is compared with
// that (Broken) instead of being trusted.
func sxObserveLayout(rd *bluge.Reader, c *sCorpus) (*sxALayout, error) {
	snap := rd.VerifSnapshot()
	if snap == nil {
		return nil, fmt.Errorf("reader without snapshot")
	}
	lay := &sxALayout{Snap: snap}
	_, segs := index.VerifSnapshotInfo(snap)
	num := uint64(0)
	for _, seg := range segs {
		as := sxASeg{}
		del := map[uint32]bool{}
		for _, d := range seg.Deleted {
			del[d] = true
		}
		if uint64(len(seg.Docs)) != seg.Count {
			return nil, fmt.Errorf("segment %d: %d documents described, count %d", seg.ID, len(seg.Docs), seg.Count)
		}
		for l, desc := range seg.Docs {
			ver := -1
			if i := strings.IndexByte(desc, 0); i >= 0 {
				if x, err := strconv.Atoi(desc[i+1:]); err == nil {
					ver = x
				}
			}
			if ver < 0 || ver >= len(c.Versions) {
				return nil, fmt.Errorf("segment %d document %d without version field", seg.ID, l)
			}
			seen := -1
			err := rd.VisitStoredFields(num, func(field string, value []byte) bool {
				if field == "v" {
					seen, _ = strconv.Atoi(string(value))
				}
				return true
			})
			if lay.Broken == "" && (err != nil || seen != ver) {
				lay.Broken = fmt.Sprintf("global number %d is local %d of segment %d (document version %d) but the reader resolves it to version %d (err %v)", num, l, seg.ID, ver, seen, err)
			}
			as.Docs = append(as.Docs, c.Versions[ver])
			lay.NumToV = append(lay.NumToV, c.Versions[ver])
			isDel := del[uint32(l)]
			lay.Deleted = append(lay.Deleted, isDel)
			if isDel {
				as.Del = append(as.Del, l)
			}
			num++
		}
		lay.Segs = append(lay.Segs, as)
	}
	return lay, nil
}

func sxCoqDoc(v *sVersion) string {
	var fs []string
	for f := 0; f < sxNFields; f++ {
		if len(v.an[f]) == 0 {
			continue
		}
		ts := make([]string, len(v.an[f]))
		for i, t := range v.an[f] {
			ts[i] = "T " + cq.Bytes(t.Term) + " " + cq.IntList(t.Pos)
		}
		fs = append(fs, cq.Pair(cq.I(f), cq.List(ts)))
	}
	return fmt.Sprintf("D %d %s", v.ID, cq.List(fs))
}

func (l *sxALayout) coq() string {
	segs := make([]string, len(l.Segs))
	for i, s := range l.Segs {
		ds := make([]string, len(s.Docs))
		for j, d := range s.Docs {
			ds[j] = sxCoqDoc(d)
		}
		segs[i] = "SG " + cq.List(ds) + " " + cq.IntList(s.Del)
	}
	return cq.List(segs)
}

// ---------------------------------------------------------------- queries

const (
	sxQTerm = iota
	sxQMatch
	sxQPhrase // match-phrase and multi-phrase
	sxQPrefix
	sxQWildcard
	sxQRegexp
	sxQFuzzy
	sxQTermRange
	sxQNumRange
	sxQDateRange
	sxQGeoBox
	sxQGeoDist
	sxQAll
	sxQNone
	sxQBool
)

var sxQKindNames = []string{"term", "match", "phrase", "prefix", "wildcard", "regexp", "fuzzy", "termrange", "numrange", "daterange", "geobox", "geodist", "all", "none", "bool"}

type sxGq struct {
	Kind int
	F    int
	Term string
	// match / phrase
	Text      string
	And       bool
	IsMulti   bool       // multi-phrase built from Phrase directly
	Phrase    [][]string // analysed phrase (positions x alternatives)
	Slop      int
	Terms     []string // analysed tokens of a match query
	Fuzziness int
	PrefixLen int
	// ranges
	Min, Max       string
	IncMin, IncMax bool
	Lo, Hi         float64
	DLo, DHi       time.Time
	// geo
	TLLon, TLLat, BRLon, BRLat float64
	CLon, CLat, DistKm         float64
	// bool
	Must, Should, MustNot []*sxGq
	MinShould             int
}

func (q *sxGq) hasKind(k int) bool {
	if q.Kind == k {
		return true
	}
	for _, l := range [][]*sxGq{q.Must, q.Should, q.MustNot} {
		for _, s := range l {
			if s.hasKind(k) {
				return true
			}
		}
	}
	return false
}

func (q *sxGq) kinds(m map[string]int) {
	m["q:"+sxQKindNames[q.Kind]]++
	for _, l := range [][]*sxGq{q.Must, q.Should, q.MustNot} {
		for _, s := range l {
			s.kinds(m)
		}
	}
}

func (q *sxGq) depth() int {
	d := 0
	for _, l := range [][]*sxGq{q.Must, q.Should, q.MustNot} {
		for _, s := range l {
			if x := s.depth(); x > d {
				d = x
			}
		}
	}
	return d + 1
}

func (q *sxGq) String() string {
	switch q.Kind {
	case sxQTerm:
		return fmt.Sprintf("term(%s:%q)", sFieldNames[q.F], q.Term)
	case sxQMatch:
		return fmt.Sprintf("match(%s:%q and=%v fuzz=%d)", sFieldNames[q.F], q.Text, q.And, q.Fuzziness)
	case sxQPhrase:
		if q.IsMulti {
			return fmt.Sprintf("multiphrase(%s:%v~%d)", sFieldNames[q.F], q.Phrase, q.Slop)
		}
		return fmt.Sprintf("matchphrase(%s:%q~%d)", sFieldNames[q.F], q.Text, q.Slop)
	case sxQPrefix:
		return fmt.Sprintf("prefix(%s:%q)", sFieldNames[q.F], q.Term)
	case sxQWildcard:
		return fmt.Sprintf("wildcard(%s:%q)", sFieldNames[q.F], q.Term)
	case sxQRegexp:
		return fmt.Sprintf("regexp(%s:%q)", sFieldNames[q.F], q.Term)
	case sxQFuzzy:
		return fmt.Sprintf("fuzzy(%s:%q~%d prefix=%d)", sFieldNames[q.F], q.Term, q.Fuzziness, q.PrefixLen)
	case sxQTermRange:
		return fmt.Sprintf("termrange(%s:%q..%q %v %v)", sFieldNames[q.F], q.Min, q.Max, q.IncMin, q.IncMax)
	case sxQNumRange:
		return fmt.Sprintf("numrange(%#x..%#x %v %v)", math.Float64bits(q.Lo), math.Float64bits(q.Hi), q.IncMin, q.IncMax)
	case sxQDateRange:
		return fmt.Sprintf("daterange(%s..%s %v %v)", q.DLo.Format(time.RFC3339), q.DHi.Format(time.RFC3339), q.IncMin, q.IncMax)
	case sxQGeoBox:
		return fmt.Sprintf("geobox(%v,%v,%v,%v)", q.TLLon, q.TLLat, q.BRLon, q.BRLat)
	case sxQGeoDist:
		return fmt.Sprintf("geodist(%v,%v,%vkm)", q.CLon, q.CLat, q.DistKm)
	case sxQAll:
		return "all"
	case sxQNone:
		return "none"
	}
	ls := func(l []*sxGq) string {
		s := make([]string, len(l))
		for i, x := range l {
			s[i] = x.String()
		}
		return "[" + strings.Join(s, " ") + "]"
	}
	return fmt.Sprintf("bool(must%s should%s not%s min=%d)", ls(q.Must), ls(q.Should), ls(q.MustNot), q.MinShould)
}

var sAnalyzer = analyzer.NewStandardAnalyzer()

func sxAnalyseText(text string) (terms []string, phrase [][]string) {
	toks := sAnalyzer.Analyze([]byte(text))
	pos := 0
	first := -1
	type tp struct {
		t string
		p int
	}
	var tps []tp
	for _, t := range toks {
		pos += t.PositionIncr
		terms = append(terms, string(t.Term))
		tps = append(tps, tp{string(t.Term), pos})
		if first < 0 || pos < first {
			first = pos
		}
	}
	if len(tps) == 0 {
		return nil, nil
	}
	last := first
	for _, x := range tps {
		if x.p > last {
			last = x.p
		}
	}
	phrase = make([][]string, last-first+1)
	for _, x := range tps {
		phrase[x.p-first] = append(phrase[x.p-first], x.t)
	}
	return terms, phrase
}

func (q *sxGq) bluge() bluge.Query {
	fn := sFieldNames[q.F]
	switch q.Kind {
	case sxQTerm:
		return bluge.NewTermQuery(q.Term).SetField(fn)
	case sxQMatch:
		mq := bluge.NewMatchQuery(q.Text).SetField(fn)
		if q.And {
			mq.SetOperator(bluge.MatchQueryOperatorAnd)
		}
		if q.Fuzziness > 0 {
			mq.SetFuzziness(q.Fuzziness)
		}
		return mq
	case sxQPhrase:
		if q.IsMulti {
			return bluge.NewMultiPhraseQuery(q.Phrase).SetField(fn).SetSlop(q.Slop)
		}
		return bluge.NewMatchPhraseQuery(q.Text).SetField(fn).SetSlop(q.Slop)
	case sxQPrefix:
		return bluge.NewPrefixQuery(q.Term).SetField(fn)
	case sxQWildcard:
		return bluge.NewWildcardQuery(q.Term).SetField(fn)
	case sxQRegexp:
		return bluge.NewRegexpQuery(q.Term).SetField(fn)
	case sxQFuzzy:
		return bluge.NewFuzzyQuery(q.Term).SetField(fn).SetFuzziness(q.Fuzziness).SetPrefix(q.PrefixLen)
	case sxQTermRange:
		return bluge.NewTermRangeInclusiveQuery(q.Min, q.Max, q.IncMin, q.IncMax).SetField(fn)
	case sxQNumRange:
		return bluge.NewNumericRangeInclusiveQuery(q.Lo, q.Hi, q.IncMin, q.IncMax).SetField(fn)
	case sxQDateRange:
		return bluge.NewDateRangeInclusiveQuery(q.DLo, q.DHi, q.IncMin, q.IncMax).SetField(fn)
	case sxQGeoBox:
		return bluge.NewGeoBoundingBoxQuery(q.TLLon, q.TLLat, q.BRLon, q.BRLat).SetField(fn)
	case sxQGeoDist:
		return bluge.NewGeoDistanceQuery(q.CLon, q.CLat, fmt.Sprintf("%gkm", q.DistKm)).SetField(fn)
	case sxQAll:
		return bluge.NewMatchAllQuery()
	case sxQNone:
		return bluge.NewMatchNoneQuery()
	}
	b := bluge.NewBooleanQuery()
	for _, s := range q.Must {
		b.AddMust(s.bluge())
	}
	for _, s := range q.Should {
		b.AddShould(s.bluge())
	}
	for _, s := range q.MustNot {
		b.AddMustNot(s.bluge())
	}
	b.SetMinShould(q.MinShould)
	return b
}

// ---------------------------------------------------------------- the direct oracle

func sxLevenshtein(a, b []rune) int {
	prev := make([]int, len(b)+1)
	cur := make([]int, len(b)+1)
	for j := range prev {
		prev[j] = j
	}
	for i := 1; i <= len(a); i++ {
		cur[0] = i
		for j := 1; j <= len(b); j++ {
			c := 1
			if a[i-1] == b[j-1] {
				c = 0
			}
			cur[j] = sxMinInt(sxMinInt(prev[j]+1, cur[j-1]+1), prev[j-1]+c)
		}
		prev, cur = cur, prev
	}
	return prev[len(b)]
}

// sxDamerau: optimal string alignment distance (adjacent transposition costs one edit)
func sxDamerau(a, b []rune) int {
	d := make([][]int, len(a)+1)
	for i := range d {
		d[i] = make([]int, len(b)+1)
		d[i][0] = i
	}
	for j := 0; j <= len(b); j++ {
		d[0][j] = j
	}
	for i := 1; i <= len(a); i++ {
		for j := 1; j <= len(b); j++ {
			c := 1
			if a[i-1] == b[j-1] {
				c = 0
			}
			d[i][j] = sxMinInt(sxMinInt(d[i-1][j]+1, d[i][j-1]+1), d[i-1][j-1]+c)
			if i > 1 && j > 1 && a[i-1] == b[j-2] && a[i-2] == b[j-1] {
				d[i][j] = sxMinInt(d[i][j], d[i-2][j-2]+1)
			}
		}
	}
	return d[len(a)][len(b)]
}

func sxMinInt(a, b int) int {
	if a < b {
		return a
	}
	return b
}

func sxWildcardMatch(pat, s []rune) bool {
	if len(pat) == 0 {
		return len(s) == 0
	}
	switch pat[0] {
	case '*':
		for i := 0; i <= len(s); i++ {
			if sxWildcardMatch(pat[1:], s[i:]) {
				return true
			}
		}
		return false
	case '?':
		return len(s) > 0 && sxWildcardMatch(pat[1:], s[1:])
	}
	return len(s) > 0 && s[0] == pat[0] && sxWildcardMatch(pat[1:], s[1:])
}

// termPred: the documented predicate of a multi-term leaf on one term (nil for other kinds)
func (q *sxGq) termPred() func(term []byte) bool {
	switch q.Kind {
	case sxQPrefix:
		p := []byte(q.Term)
		return func(t []byte) bool { return bytes.HasPrefix(t, p) }
	case sxQWildcard:
		p := []rune(q.Term)
		return func(t []byte) bool { return sxWildcardMatch(p, []rune(string(t))) }
	case sxQRegexp:
		re := regexp.MustCompile("^(?:" + strings.TrimPrefix(q.Term, "^") + ")$")
		return func(t []byte) bool { return re.Match(t) }
	case sxQFuzzy:
		target := []rune(q.Term)
		pre := q.Term
		if q.PrefixLen < len(pre) {
			pre = pre[:q.PrefixLen]
		}
		return func(t []byte) bool {
			return bytes.HasPrefix(t, []byte(pre)) && sxLevenshtein(target, []rune(string(t))) <= q.Fuzziness
		}
	case sxQTermRange:
		return func(t []byte) bool {
			if q.Min != "" {
				c := bytes.Compare(t, []byte(q.Min))
				if c < 0 || (c == 0 && !q.IncMin) {
					return false
				}
			}
			if q.Max != "" {
				c := bytes.Compare(t, []byte(q.Max))
				if c > 0 || (c == 0 && !q.IncMax) {
					return false
				}
			}
			return true
		}
	}
	return nil
}

func sxFloatInRange(v, lo, hi float64, il, ih bool) bool {
	ge := math.IsInf(lo, -1) || ieeeLess(lo, v) || (il && math.Float64bits(lo) == math.Float64bits(v))
	le := math.IsInf(hi, 1) || ieeeLess(v, hi) || (ih && math.Float64bits(hi) == math.Float64bits(v))
	if math.IsInf(lo, 1) {
		ge = false
	}
	if math.IsInf(hi, -1) {
		le = false
	}
	return ge && le
}

// sxPhraseEval: is there a choice of one occurrence per non-empty phrase position, no occurrence
// used twice, whose displacements from the expected positions sum to at most slop?
func sxPhraseEval(pos func(term string) []int, phrase [][]string, slop int) bool {
	type slot struct {
		k    int
		alts []string
	}
	var slots []slot
	for k, alts := range phrase {
		var ne []string
		for _, a := range alts {
			if a != "" {
				ne = append(ne, a)
			}
		}
		if len(ne) > 0 {
			slots = append(slots, slot{k, ne})
		}
	}
	if len(slots) == 0 {
		return false
	}
	type occ struct {
		t string
		p int
	}
	cands := make([][]occ, len(slots))
	for i, s := range slots {
		seen := map[occ]bool{}
		for _, a := range s.alts {
			for _, p := range pos(a) {
				o := occ{a, p}
				if !seen[o] {
					seen[o] = true
					cands[i] = append(cands[i], o)
				}
			}
		}
		if len(cands[i]) == 0 {
			return false
		}
	}
	idx := make([]int, len(slots))
	for {
		// evaluate this choice
		ok := true
		used := map[occ]bool{}
		cost := 0
		for i := range slots {
			o := cands[i][idx[i]]
			if used[o] {
				ok = false
				break
			}
			used[o] = true
			if i > 0 {
				prev := cands[i-1][idx[i-1]]
				d := prev.p + (slots[i].k - slots[i-1].k) - o.p
				if d < 0 {
					d = -d
				}
				cost += d
			}
		}
		if ok && (len(slots) == 1 || cost <= slop) {
			return true
		}
		// next choice
		i := len(slots) - 1
		for i >= 0 {
			idx[i]++
			if idx[i] < len(cands[i]) {
				break
			}
			idx[i] = 0
			i--
		}
		if i < 0 {
			return false
		}
	}
}

func sxHaversineKm(lon1, lat1, lon2, lat2 float64) float64 {
	const r = 6371.0088
	p1, p2 := lat1*math.Pi/180, lat2*math.Pi/180
	dp, dl := p2-p1, (lon2-lon1)*math.Pi/180
	a := math.Sin(dp/2)*math.Sin(dp/2) + math.Cos(p1)*math.Cos(p2)*math.Sin(dl/2)*math.Sin(dl/2)
	return 2 * r * math.Asin(math.Min(1, math.Sqrt(a)))
}

const sxGeoBoxBand = 1e-3
const sxGeoDistBand = 4e-3 // the implementation measures on an ellipsoid; a plain sphere differs by up to 0.2 %

// geoClass: 1 inside, 0 outside, -1 within the edge band (not judged)
func (q *sxGq) geoClass(v *sVersion) int {
	if !v.HasGeo {
		return 0
	}
	switch q.Kind {
	case sxQGeoBox:
		near := func(x, edge float64) bool { return math.Abs(x-edge) <= sxGeoBoxBand*math.Max(1, math.Abs(edge)) }
		if near(v.Lon, q.TLLon) || near(v.Lon, q.BRLon) || near(v.Lat, q.TLLat) || near(v.Lat, q.BRLat) {
			return -1
		}
		lonOK := v.Lon >= q.TLLon && v.Lon <= q.BRLon
		if q.BRLon < q.TLLon {
			lonOK = v.Lon >= q.TLLon || v.Lon <= q.BRLon
		}
		if lonOK && v.Lat <= q.TLLat && v.Lat >= q.BRLat {
			return 1
		}
		return 0
	case sxQGeoDist:
		d := sxHaversineKm(v.Lon, v.Lat, q.CLon, q.CLat)
		if math.Abs(d-q.DistKm) <= sxGeoDistBand*q.DistKm {
			return -1
		}
		if d <= q.DistKm {
			return 1
		}
		return 0
	}
	return 0
}

// eval: the documented meaning of the query on one analysed document.  bandIn decides how
// geo points inside the edge band are counted (the caller evaluates both ways).
func (q *sxGq) eval(v *sVersion, bandIn bool) bool {
	switch q.Kind {
	case sxQTerm:
		return v.hasTerm(q.F, []byte(q.Term))
	case sxQMatch:
		if len(q.Terms) == 0 {
			return false
		}
		one := func(t string) bool {
			if q.Fuzziness == 0 {
				return v.hasTerm(q.F, []byte(t))
			}
			fz := &sxGq{Kind: sxQFuzzy, F: q.F, Term: t, Fuzziness: q.Fuzziness, PrefixLen: q.PrefixLen}
			return fz.eval(v, bandIn)
		}
		if q.And {
			for _, t := range q.Terms {
				if !one(t) {
					return false
				}
			}
			return true
		}
		for _, t := range q.Terms {
			if one(t) {
				return true
			}
		}
		return false
	case sxQPhrase:
		return sxPhraseEval(func(t string) []int { return v.positions(q.F, []byte(t)) }, q.Phrase, q.Slop)
	case sxQPrefix, sxQWildcard, sxQRegexp, sxQFuzzy, sxQTermRange:
		p := q.termPred()
		for _, t := range v.terms(q.F) {
			if p(t.Term) {
				return true
			}
		}
		return false
	case sxQNumRange:
		return v.HasNum && sxFloatInRange(v.Num, q.Lo, q.Hi, q.IncMin, q.IncMax)
	case sxQDateRange:
		if !v.HasDate {
			return false
		}
		n := v.Date.UnixNano()
		if !q.DLo.IsZero() {
			lo := q.DLo.UnixNano()
			if n < lo || (n == lo && !q.IncMin) {
				return false
			}
		}
		if !q.DHi.IsZero() {
			hi := q.DHi.UnixNano()
			if n > hi || (n == hi && !q.IncMax) {
				return false
			}
		}
		return true
	case sxQGeoBox, sxQGeoDist:
		switch q.geoClass(v) {
		case 1:
			return true
		case -1:
			return bandIn
		}
		return false
	case sxQAll:
		return true
	case sxQNone:
		return false
	}
	// boolean: every must, no must-not, at least MinShould shoulds; without must clauses at
	// least one should; only must-not clauses: all other documents; no clause: nothing
	for _, s := range q.Must {
		if !s.eval(v, bandIn) {
			return false
		}
	}
	for _, s := range q.MustNot {
		if s.eval(v, bandIn) {
			return false
		}
	}
	cnt := 0
	for _, s := range q.Should {
		if s.eval(v, bandIn) {
			cnt++
		}
	}
	if len(q.Must) == 0 && len(q.Should) == 0 {
		return len(q.MustNot) > 0
	}
	if len(q.Must) == 0 && cnt < 1 {
		return false
	}
	if len(q.Should) > 0 && cnt < q.MinShould {
		return false
	}
	return true
}

// expected: ids selected among the live documents; masked: ids whose membership depends on a
// geo point inside the edge band
func (q *sxGq) expected(c *sCorpus) (ids []int, masked []int) {
	geo := q.hasKind(sxQGeoBox) || q.hasKind(sxQGeoDist)
	for _, id := range c.liveIDs() {
		v := c.Live[id]
		a := q.eval(v, true)
		if geo {
			b := q.eval(v, false)
			if a != b || q.geoUncertain(v) {
				masked = append(masked, id)
				continue
			}
		}
		if a {
			ids = append(ids, id)
		}
	}
	return ids, masked
}

// geoUncertain: some geo leaf of the query has this document in its band (nested negations can
// make the two evaluations agree by accident)
func (q *sxGq) geoUncertain(v *sVersion) bool {
	if (q.Kind == sxQGeoBox || q.Kind == sxQGeoDist) && q.geoClass(v) == -1 {
		return true
	}
	for _, l := range [][]*sxGq{q.Must, q.Should, q.MustNot} {
		for _, s := range l {
			if s.geoUncertain(v) {
				return true
			}
		}
	}
	return false
}

// ---------------------------------------------------------------- Coq terms for queries

type sxCoqEnv struct {
	c   *sCorpus
	lay *sxALayout
}

func sxCoqTermList(ts []string) string {
	it := make([]string, len(ts))
	for i, t := range ts {
		it[i] = cq.Str(t)
	}
	return cq.List(it)
}

func sxCoqOptBytes(s string) string {
	if s == "" {
		return "None"
	}
	return cq.Some(cq.Str(s))
}

func (q *sxGq) coq(env *sxCoqEnv) string {
	f := cq.I(q.F)
	switch q.Kind {
	case sxQTerm:
		return fmt.Sprintf("(QTerm %s %s)", f, cq.Str(q.Term))
	case sxQMatch:
		if len(q.Terms) == 0 {
			return "QNone"
		}
		subs := make([]string, len(q.Terms))
		for i, t := range q.Terms {
			if q.Fuzziness == 0 {
				subs[i] = fmt.Sprintf("(QTerm %s %s)", f, cq.Str(t))
			} else {
				fz := &sxGq{Kind: sxQFuzzy, F: q.F, Term: t, Fuzziness: q.Fuzziness, PrefixLen: q.PrefixLen}
				subs[i] = fz.coq(env)
			}
		}
		if q.And {
			return fmt.Sprintf("(QBool %s [] [] 0)", cq.List(subs))
		}
		return fmt.Sprintf("(QBool [] %s [] 1)", cq.List(subs))
	case sxQPhrase:
		if len(q.Phrase) == 0 {
			return "QNone"
		}
		ps := make([]string, len(q.Phrase))
		for i, alts := range q.Phrase {
			ps[i] = sxCoqTermList(alts)
		}
		return fmt.Sprintf("(QPhrase %s %s %s)", f, cq.List(ps), cq.I(q.Slop))
	case sxQPrefix:
		return fmt.Sprintf("(QMulti %s (PPrefix %s))", f, cq.Str(q.Term))
	case sxQTermRange:
		return fmt.Sprintf("(QMulti %s (PRange %s %s %s %s))", f, sxCoqOptBytes(q.Min), sxCoqOptBytes(q.Max), cq.B(q.IncMin), cq.B(q.IncMax))
	case sxQWildcard, sxQRegexp, sxQFuzzy:
		// the accepted terms among every term any version of the corpus holds in that field
		p := q.termPred()
		seen := map[string]bool{}
		var acc [][]byte
		for _, v := range env.c.Versions {
			for _, t := range v.terms(q.F) {
				if !seen[string(t.Term)] && p(t.Term) {
					seen[string(t.Term)] = true
					acc = append(acc, t.Term)
				}
			}
		}
		sort.Slice(acc, func(i, j int) bool { return bytes.Compare(acc[i], acc[j]) < 0 })
		return fmt.Sprintf("(QMulti %s (PSet %s))", f, cq.BytesList(acc))
	case sxQNumRange:
		return fmt.Sprintf("(QMulti %s (PNumRange %s %s %s %s))", f, cq.U(math.Float64bits(q.Lo)), cq.U(math.Float64bits(q.Hi)), cq.B(q.IncMin), cq.B(q.IncMax))
	case sxQDateRange:
		lo, hi := math.Inf(-1), math.Inf(1)
		if !q.DLo.IsZero() {
			lo = numeric.Int64ToFloat64(q.DLo.UnixNano())
		}
		if !q.DHi.IsZero() {
			hi = numeric.Int64ToFloat64(q.DHi.UnixNano())
		}
		return fmt.Sprintf("(QMulti %s (PNumRange %s %s %s %s))", f, cq.U(math.Float64bits(lo)), cq.U(math.Float64bits(hi)), cq.B(q.IncMin), cq.B(q.IncMax))
	case sxQGeoBox, sxQGeoDist:
		var nums, ids []int
		seenID := map[int]bool{}
		for n, v := range env.lay.NumToV {
			if env.lay.Deleted[n] {
				continue
			}
			if q.eval(v, true) {
				nums = append(nums, n)
				if !seenID[v.ID] {
					seenID[v.ID] = true
					ids = append(ids, v.ID)
				}
			}
		}
		return fmt.Sprintf("(QDocSet %s %s)", cq.IntList(nums), cq.IntList(ids))
	case sxQAll:
		return "QAll"
	case sxQNone:
		return "QNone"
	}
	ls := func(l []*sxGq) string {
		s := make([]string, len(l))
		for i, x := range l {
			s[i] = x.coq(env)
		}
		return cq.List(s)
	}
	return fmt.Sprintf("(QBool %s %s %s %s)", ls(q.Must), ls(q.Should), ls(q.MustNot), cq.I(q.MinShould))
}

// ---------------------------------------------------------------- query generation

var sRegexps = []string{"ab.*", "a[bc]+", "(ab|ba)c?", ".*b", "b.?b?", "a.c", "[a-c]{2}", "ab(c|d)", "k[0-9]+", "x.*|c.*"}
var sWildcards = []string{"ab*", "a?", "*b", "?a*", "a*c", "*", "??", "b*b", "k?", "k1*"}

func sxGenLeaf(rng *rand.Rand, c *sCorpus) *sxGq {
	word := func() string {
		if rng.Intn(8) == 0 {
			return sWordPool[rng.Intn(len(sWordPool))]
		}
		return c.Vocab[rng.Intn(len(c.Vocab))]
	}
	r := rng.Intn(100)
	switch {
	case r < 30:
		return &sxGq{Kind: sxQTerm, F: sxFT, Term: word()}
	case r < 35:
		return &sxGq{Kind: sxQTerm, F: sxFK, Term: sKwPool[rng.Intn(len(sKwPool))]}
	case r < 43:
		n := 1 + rng.Intn(3)
		ws := make([]string, n)
		for i := range ws {
			ws[i] = word()
		}
		q := &sxGq{Kind: sxQMatch, F: sxFT, Text: strings.Join(ws, " "), And: rng.Intn(3) == 0}
		if rng.Intn(6) == 0 {
			q.Fuzziness = 1
		}
		q.Terms, _ = sxAnalyseText(q.Text)
		return q
	case r < 51:
		n := 1 + rng.Intn(3)
		ws := make([]string, n)
		for i := range ws {
			ws[i] = word()
		}
		q := &sxGq{Kind: sxQPhrase, F: sxFT, Text: strings.Join(ws, " "), Slop: []int{0, 0, 0, 1, 2, 3}[rng.Intn(6)]}
		_, q.Phrase = sxAnalyseText(q.Text)
		return q
	case r < 56:
		n := 1 + rng.Intn(4)
		ph := make([][]string, n)
		for i := range ph {
			switch rng.Intn(6) {
			case 0:
				ph[i] = []string{""} // placeholder
			case 1, 2:
				ph[i] = []string{word(), word()}
			default:
				ph[i] = []string{word()}
			}
		}
		if len(ph[0]) == 1 && ph[0][0] == "" && rng.Intn(2) == 0 {
			ph[0] = []string{word()}
		}
		return &sxGq{Kind: sxQPhrase, F: sxFT, IsMulti: true, Phrase: ph, Slop: []int{0, 0, 1, 2, 4, -1}[rng.Intn(6)]}
	case r < 62:
		if rng.Intn(5) == 0 {
			// every shift-0 numeric token starts with the byte 0x20: a prefix over many terms (heap disjunction)
			return &sxGq{Kind: sxQPrefix, F: sxFN, Term: " "}
		}
		w := word()
		return &sxGq{Kind: sxQPrefix, F: []int{sxFT, sxFT, sxFK}[rng.Intn(3)], Term: w[:1+rng.Intn(len(w))]}
	case r < 66:
		return &sxGq{Kind: sxQWildcard, F: []int{sxFT, sxFT, sxFK}[rng.Intn(3)], Term: sWildcards[rng.Intn(len(sWildcards))]}
	case r < 70:
		return &sxGq{Kind: sxQRegexp, F: []int{sxFT, sxFT, sxFK}[rng.Intn(3)], Term: sRegexps[rng.Intn(len(sRegexps))]}
	case r < 75:
		w := word()
		return &sxGq{Kind: sxQFuzzy, F: sxFT, Term: w, Fuzziness: 1 + rng.Intn(2), PrefixLen: []int{0, 0, 1, 2}[rng.Intn(4)]}
	case r < 80:
		q := &sxGq{Kind: sxQTermRange, F: []int{sxFK, sxFK, sxFT}[rng.Intn(3)], IncMin: rng.Intn(2) == 0, IncMax: rng.Intn(2) == 0}
		pick := func() string {
			if q.F == sxFK {
				return sKwPool[rng.Intn(len(sKwPool))]
			}
			return word()
		}
		switch rng.Intn(4) {
		case 0:
			q.Min = pick()
		case 1:
			q.Max = pick()
		default:
			q.Min, q.Max = pick(), pick() // inverted and degenerate ranges included
		}
		return q
	case r < 86:
		pick := func() float64 {
			switch rng.Intn(8) {
			case 0:
				return math.Inf(-1)
			case 1:
				return math.Inf(1)
			}
			return sNumPool[rng.Intn(len(sNumPool))]
		}
		return &sxGq{Kind: sxQNumRange, F: sxFN, Lo: pick(), Hi: pick(), IncMin: rng.Intn(2) == 0, IncMax: rng.Intn(2) == 0}
	case r < 90:
		pick := func() time.Time {
			if rng.Intn(5) == 0 {
				return time.Time{}
			}
			return sDateBase.Add(sDateOffsets[rng.Intn(len(sDateOffsets))])
		}
		q := &sxGq{Kind: sxQDateRange, F: sxFD, DLo: pick(), DHi: pick(), IncMin: rng.Intn(2) == 0, IncMax: rng.Intn(2) == 0}
		if q.DLo.IsZero() && q.DHi.IsZero() {
			q.DHi = sDateBase
		}
		return q
	case r < 93:
		// edges on the 0.25-degree grid shifted by 0.125 (clear of every point), sometimes on a grid line (band)
		off := 0.125
		if rng.Intn(5) == 0 {
			off = 0
		}
		w, h := float64(1+rng.Intn(4))*0.25, float64(1+rng.Intn(4))*0.25
		cx := sGeoLon + float64(rng.Intn(5)-2)*0.25
		cy := sGeoLat + float64(rng.Intn(5)-2)*0.25
		return &sxGq{Kind: sxQGeoBox, F: sxFG, TLLon: cx - w - off, TLLat: cy + h + off, BRLon: cx + w + off, BRLat: cy - h - off}
	case r < 96:
		return &sxGq{Kind: sxQGeoDist, F: sxFG, CLon: sGeoLon + float64(rng.Intn(3)-1)*0.25, CLat: sGeoLat + float64(rng.Intn(3)-1)*0.25,
			DistKm: []float64{5, 20, 33, 47, 60, 100}[rng.Intn(6)]}
	case r < 98:
		return &sxGq{Kind: sxQAll}
	}
	return &sxGq{Kind: sxQNone}
}

func sxGenQuery(rng *rand.Rand, c *sCorpus, depth int) *sxGq {
	if depth <= 1 || rng.Intn(10) < 3 {
		return sxGenLeaf(rng, c)
	}
	q := &sxGq{Kind: sxQBool}
	sub := func() *sxGq { return sxGenQuery(rng, c, depth-1) }
	nm := []int{0, 0, 1, 1, 2, 3}[rng.Intn(6)]
	ns := []int{0, 0, 1, 2, 2, 3, 4}[rng.Intn(7)]
	nn := []int{0, 0, 0, 1, 1, 2}[rng.Intn(6)]
	wide := rng.Intn(12) == 0
	if wide {
		ns = 11 + rng.Intn(2) // above DisjunctionHeapTakeover
	}
	if rng.Intn(25) == 0 {
		nm = 11 // a wide conjunction
	}
	if nm+ns+nn == 0 {
		ns = 2
	}
	for i := 0; i < nm; i++ {
		if nm > 4 {
			q.Must = append(q.Must, sxGenLeaf(rng, c))
		} else {
			q.Must = append(q.Must, sub())
		}
	}
	for i := 0; i < ns; i++ {
		if wide {
			q.Should = append(q.Should, sxGenLeaf(rng, c))
		} else {
			q.Should = append(q.Should, sub())
		}
	}
	for i := 0; i < nn; i++ {
		q.MustNot = append(q.MustNot, sub())
	}
	if ns > 0 {
		q.MinShould = []int{0, 0, 1, 1, 2, 2, 3, ns, ns + 1}[rng.Intn(9)]
	}
	return q
}

// sxRangeBlowsUp pre-checks a numeric / date range leaf for the known defect D8 (C10:
// termRange.Enumerate walks through byte values no prefix-coded term contains).
func sxRangeBlowsUp(q *sxGq) bool {
	_, blown := sxRangeCost(q)
	return blown
}

// sxRangeCost: the number of candidate terms the numeric / date range leaves of the query
// enumerate (the model replays the enumeration with vm_compute), and whether one of them blows up.
func sxRangeCost(q *sxGq) (cost int, blown bool) {
	var minI, maxI int64
	switch q.Kind {
	case sxQNumRange:
		minI, maxI = math.MinInt64, math.MaxInt64
		if !math.IsInf(q.Lo, -1) {
			minI = numeric.Float64ToInt64(q.Lo)
		}
		if !math.IsInf(q.Hi, 1) {
			maxI = numeric.Float64ToInt64(q.Hi)
		}
	case sxQDateRange:
		// parseEndpoints: Int64ToFloat64(UnixNano) handed to NewNumericRangeSearcher, which applies Float64ToInt64
		lo, hi := math.Inf(-1), math.Inf(1)
		if !q.DLo.IsZero() {
			lo = numeric.Int64ToFloat64(q.DLo.UnixNano())
		}
		if !q.DHi.IsZero() {
			hi = numeric.Int64ToFloat64(q.DHi.UnixNano())
		}
		minI, maxI = math.MinInt64, math.MaxInt64
		if !math.IsInf(lo, -1) {
			minI = numeric.Float64ToInt64(lo)
		}
		if !math.IsInf(hi, 1) {
			maxI = numeric.Float64ToInt64(hi)
		}
	default:
		for _, l := range [][]*sxGq{q.Must, q.Should, q.MustNot} {
			for _, s := range l {
				c, b := sxRangeCost(s)
				cost += c
				if b {
					return cost, true
				}
			}
		}
		return cost, false
	}
	if !q.IncMin && minI != math.MaxInt64 {
		minI++
	}
	if !q.IncMax && maxI != math.MinInt64 {
		maxI--
	}
	for _, tr := range searcher.VerifSplitInt64Range(minI, maxI, 4) {
		n := 0
		if _, blown := enumerateBudget(tr[0], tr[1], func([]byte) bool { n++; return false }); blown {
			return cost, true
		}
		cost += n
	}
	return cost, false
}

// ---------------------------------------------------------------- running searches

const (
	sxModeAll      = iota // AllMatches
	sxModeTopN            // TopN, default scoring
	sxModeNoScore         // TopN, SetScore("none"): the unadorned rewrites are taken
	sxModeLocs            // AllMatches().IncludeLocations()
)

var sModeNames = []string{"allmatches", "topn", "topn-score-none", "allmatches-locations"}

func sxIdOfMatch(m *search.DocumentMatch) (int, error) {
	id := -1
	err := m.VisitStoredFields(func(field string, value []byte) bool {
		if field == "_id" {
			id, _ = strconv.Atoi(string(value))
		}
		return true
	})
	return id, err
}

func sxSearchRequest(q bluge.Query, mode int) bluge.SearchRequest {
	switch mode {
	case sxModeTopN:
		return bluge.NewTopNSearch(10000, q)
	case sxModeNoScore:
		return bluge.NewTopNSearch(10000, q).SetScore("none")
	case sxModeLocs:
		return bluge.NewAllMatches(q).IncludeLocations()
	}
	return bluge.NewAllMatches(q)
}

// sxSearchIDs returns the ids of the matches (ascending, repetitions kept).
func sxSearchIDs(rd *bluge.Reader, q bluge.Query, mode int) (ids []int, err error) {
	it, err := rd.Search(context.Background(), sxSearchRequest(q, mode))
	if err != nil {
		return nil, err
	}
	m, err := it.Next()
	for err == nil && m != nil {
		id, e := sxIdOfMatch(m)
		if e != nil {
			return nil, e
		}
		ids = append(ids, id)
		m, err = it.Next()
	}
	sort.Ints(ids)
	return ids, err
}

type sxSearchOutcome struct {
	ids      []int
	err      error
	panicked interface{}
	hung     bool
}

func sxGuardedSearch(rd *bluge.Reader, q bluge.Query, mode int) sxSearchOutcome {
	var out sxSearchOutcome
	fin, pan := cq.Guard(20*time.Second, func() { out.ids, out.err = sxSearchIDs(rd, q, mode) })
	out.hung = !fin
	out.panicked = pan
	return out
}

func sxEqualInts(a, b []int) bool {
	if len(a) != len(b) {
		return false
	}
	for i := range a {
		if a[i] != b[i] {
			return false
		}
	}
	return true
}

func sxWithoutInts(a, drop []int) []int {
	if len(drop) == 0 {
		return a
	}
	m := map[int]bool{}
	for _, x := range drop {
		m[x] = true
	}
	var out []int
	for _, x := range a {
		if !m[x] {
			out = append(out, x)
		}
	}
	return out
}

// sxScoreNoneShouldDefect: with scoring "none" a should clause list of >= 2 plain term clauses
// and minShould == 1 next to must clauses is rewritten into one bitmap term searcher whose
// Min() is 0, so the boolean searcher stops requiring it (known finding).
func sxScoreNoneShouldDefect(q *sxGq) bool {
	if q.Kind == sxQBool {
		if len(q.Must) > 0 && len(q.Should) > 1 && q.MinShould == 1 {
			all := true
			for _, s := range q.Should {
				if !sxOptimizableLeaf(s) {
					all = false
				}
			}
			if all {
				return true
			}
		}
		for _, l := range [][]*sxGq{q.Must, q.Should, q.MustNot} {
			for _, s := range l {
				if sxScoreNoneShouldDefect(s) {
					return true
				}
			}
		}
	}
	return false
}

// sxScoreNoneRelaxed: the query with the should requirement of every affected boolean dropped
// (what the known finding makes of it); changed reports whether there is such a boolean.
func sxScoreNoneRelaxed(q *sxGq) (*sxGq, bool) {
	c := *q
	changed := false
	if q.Kind == sxQBool {
		relax := func(l []*sxGq) []*sxGq {
			out := make([]*sxGq, len(l))
			for i, s := range l {
				r, ch := sxScoreNoneRelaxed(s)
				out[i] = r
				changed = changed || ch
			}
			return out
		}
		c.Must, c.Should, c.MustNot = relax(q.Must), relax(q.Should), relax(q.MustNot)
		if len(q.Must) > 0 && len(q.Should) > 1 && q.MinShould == 1 {
			all := true
			for _, s := range q.Should {
				if !sxOptimizableLeaf(s) {
					all = false
				}
			}
			if all {
				c.MinShould = 0
				changed = true
			}
		}
	}
	return &c, changed
}

// sxScoreNoneKnown: the observed ids are explained by the known finding score-none-drops-min-should:
// the query holds an affected boolean and the answer is either a superset of the expected one (the
// boolean sits in a positive position) or exactly the answer of the query with the affected should
// requirements dropped (any position, e.g. below a must-not clause, where it EXCLUDES more documents).
func sxScoreNoneKnown(q *sxGq, c *sCorpus, got, want []int) bool {
	if !sxScoreNoneShouldDefect(q) {
		return false
	}
	if sxSubsetInts(want, got) {
		return true
	}
	relaxed, changed := sxScoreNoneRelaxed(q)
	if !changed {
		return false
	}
	pred, masked := relaxed.expected(c)
	return sxEqualInts(sxWithoutInts(got, masked), sxWithoutInts(pred, masked))
}

// sxOptimizableLeaf: compiles to a TermSearcher (or a multi-term searcher, which under scoring
// "none" is itself a bitmap term searcher or a one-term disjunction).  A bounding box whose
// cells all lie inside the box is a plain multi-term searcher too (search_geoboundingbox.go:
// only the on-boundary cells get a FilteringSearcher; when there are some the clause list is not
// rewritten and the answer is right, so the classification is never consulted).  A point
// distance is always a FilteringSearcher: not in this class.
func sxOptimizableLeaf(q *sxGq) bool {
	switch q.Kind {
	case sxQTerm, sxQPrefix, sxQWildcard, sxQRegexp, sxQFuzzy, sxQTermRange, sxQNumRange, sxQDateRange, sxQGeoBox:
		return true
	}
	return false
}

// sxTargetedQueries: conjunctions and disjunctions of 2-3 plain term clauses over the most
// frequent keyword (field k: frequency 1, no positions) and the most frequent words of the text
// field: the shapes that scoring "none" rewrites into bitmap operations per segment
// (index/optimize.go), whose per-segment state depends on how each segment encodes its postings
// (a merged segment encodes a term of a single document as a "1-hit" list).
func sxTargetedQueries(c *sCorpus) []*sxGq {
	kwCount, wordCount := map[string]int{}, map[string]int{}
	for _, v := range c.Live {
		if v.HasKw {
			kwCount[v.Kw]++
		}
		for _, t := range v.an[sxFT] {
			wordCount[string(t.Term)]++
		}
	}
	rank := func(m map[string]int) []string {
		var ks []string
		for k := range m {
			ks = append(ks, k)
		}
		sort.Slice(ks, func(i, j int) bool {
			if m[ks[i]] != m[ks[j]] {
				return m[ks[i]] > m[ks[j]]
			}
			return ks[i] < ks[j]
		})
		return ks
	}
	kws, words := rank(kwCount), rank(wordCount)
	// sloppy phrases that repeat a term with another position in between ("a b a"~2): one token
	// of a document must never fill two phrase positions (findPhrasePaths), so a document
	// holding "a b" only does not match
	var phrases []*sxGq
	if len(words) >= 2 {
		w := func(i int) string {
			if i >= len(words) {
				i = len(words) - 1
			}
			return words[i]
		}
		mk := func(slop int, ws ...string) *sxGq {
			q := &sxGq{Kind: sxQPhrase, F: sxFT, Text: strings.Join(ws, " "), Slop: slop}
			_, q.Phrase = sxAnalyseText(q.Text)
			return q
		}
		phrases = []*sxGq{
			mk(2, w(0), w(1), w(0)),
			mk(2, w(1), w(0), w(1)),
			mk(3, w(0), w(2), w(0)),
			mk(4, w(0), w(1), w(2), w(0)),
			mk(2, w(2), w(0), w(2)),
			{Kind: sxQPhrase, F: sxFT, IsMulti: true, Phrase: [][]string{{w(0)}, {w(1), w(2)}, {w(0)}}, Slop: 2},
			{Kind: sxQPhrase, F: sxFT, IsMulti: true, Phrase: [][]string{{w(1)}, {""}, {w(1)}}, Slop: 3},
		}
	}
	if len(kws) == 0 || len(words) == 0 {
		return phrases
	}
	pick := func(l []string, i int) string {
		if i >= len(l) {
			i = len(l) - 1
		}
		return l[i]
	}
	k := func(i int) *sxGq { return &sxGq{Kind: sxQTerm, F: sxFK, Term: pick(kws, i)} }
	t := func(i int) *sxGq { return &sxGq{Kind: sxQTerm, F: sxFT, Term: pick(words, i)} }
	conj := func(l ...*sxGq) *sxGq { return &sxGq{Kind: sxQBool, Must: l} }
	disj := func(min int, l ...*sxGq) *sxGq { return &sxGq{Kind: sxQBool, Should: l, MinShould: min} }
	return append([]*sxGq{
		conj(k(0), t(0)),
		conj(k(0), t(1)),
		conj(t(0), k(0), t(1)),
		conj(k(1), t(0)),
		conj(t(0), t(1)),
		conj(t(2), k(0)),
		disj(1, k(0), t(1)),
		disj(1, k(0), k(1)),
		disj(1, t(2), k(1), k(2)),
		disj(2, k(0), t(0), t(1)),
	}, phrases...)
}

// ---------------------------------------------------------------- the engine

type sxSearchRun struct {
	o   Opts
	rng *rand.Rand
	w   *cq.Writer
}

const sxOptDefaultCoq = "(OPT false false true true true)"
const sxOptNoScoreCoq = "(OPT true false true true true)"
const sxOptLocsCoq = "(OPT false true true true true)"

func sxModeOptCoq(mode int) string {
	switch mode {
	case sxModeNoScore:
		return sxOptNoScoreCoq
	case sxModeLocs:
		return sxOptLocsCoq
	}
	return sxOptDefaultCoq
}

func runSearch(o Opts) error {
	r := &sxSearchRun{o: o, rng: rand.New(rand.NewSource(o.Seed))}
	r.w = cq.New(o.Out, "From Bluge Require Import Base.Res Search.Postings Search.Searchers Search.Semantics Search.SearchCorr.", "scase", 1)
	nCorpora, nQueries, nScripts := 10, 70, 16
	if o.Thorough() {
		nCorpora, nQueries, nScripts = 80, 110, 30
	}
	if err := r.probes(); err != nil {
		return err
	}
	for ci := 0; ci < nCorpora; ci++ {
		nDocs := 5 + r.rng.Intn(18)
		nSeg := 1 + r.rng.Intn(4)
		if ci == 0 {
			nDocs, nSeg = 0, 1 // the empty index
		}
		c := sxGenCorpus(r.rng, nDocs, nSeg, true)
		if err := r.corpus(ci, c, nQueries, nScripts); err != nil {
			return err
		}
	}
	nMerged := 6
	if o.Thorough() {
		nMerged = 24
	}
	if err := r.mergedCorpora(nCorpora, nMerged, nQueries*4/7, nScripts/2); err != nil {
		return err
	}
	nGeo := 2
	if o.Thorough() {
		nGeo = 12
	}
	if err := r.geoEdgeCorpora(nCorpora+nMerged, nGeo, nQueries/7, nScripts/4); err != nil {
		return err
	}
	if o.Thorough() {
		if err := r.exhaustive(); err != nil {
			return err
		}
	}
	r.w.Close()
	return nil
}

func (r *sxSearchRun) openMem(c *sCorpus) (*bluge.Writer, *bluge.Reader, bluge.Config, error) {
	cfg := sxMergeFreeConfig(bluge.InMemoryOnlyConfig())
	w, err := bluge.OpenWriter(cfg)
	if err != nil {
		return nil, nil, cfg, err
	}
	if err := sxApplyBatches(w, c.Batches); err != nil {
		return nil, nil, cfg, err
	}
	rd, err := w.Reader()
	if err != nil {
		return nil, nil, cfg, err
	}
	return w, rd, cfg, nil
}

// ---------------------------------------------------------------- geo points in boundary cells
//
// A geo box / distance query is a disjunction over cell terms plus a FilteringSearcher that
// re-checks the points of the cells crossing the edge (14 bits per dimension: cells of
// 360/16384 degrees of longitude).  The filter only has work when a point lies OUTSIDE the
// shape but inside such a boundary cell: these corpora put several consecutive documents
// there (outside the oracle's edge band of relative 1e-3, which is narrower than a cell at
// longitude 10), next to documents inside, all sharing words so that the geo clause is driven
// with Advance by sibling clauses.
func sxGenGeoEdgeCorpus(rng *rand.Rand) *sCorpus {
	c := &sCorpus{Live: map[int]*sVersion{}, Vocab: []string{"ab", "ba", "cab"}}
	const cell = 360.0 / 16384
	kW := math.Floor((sGeoLon - 0.3 + 180) / cell)
	west := -180 + kW*cell + 0.9*cell // the cell of the edge reaches 0.9 cell widths to the west of it
	kE := math.Floor((sGeoLon + 0.3 + 180) / cell)
	east := -180 + kE*cell + 0.1*cell
	type pt struct{ lon, lat float64 }
	var pts []pt
	lats := []float64{49.7, 49.8, 49.9, 50.0, 50.1, 50.2, 50.3}
	nOut := 3 + rng.Intn(4)
	for i := 0; i < nOut; i++ {
		d := (0.56 + 0.3*rng.Float64()) * cell
		lat := lats[rng.Intn(len(lats))]
		if rng.Intn(2) == 0 {
			pts = append(pts, pt{west - d, lat})
		} else {
			pts = append(pts, pt{east + d, lat})
		}
	}
	// the same for a circle: inside its bounding box, outside the circle (beyond the 0.4 % band)
	cx, cy, radius := sGeoLon+2.0, sGeoLat, 30.0
	for i := 0; i < 2+rng.Intn(2); i++ {
		pts = append(pts, pt{cx + 0.33 + 0.02*rng.Float64(), cy + 0.19 + 0.02*rng.Float64()})
	}
	// documents of one run are consecutive: a few inside first or last
	inside := []pt{{west + 0.1, 49.9}, {sGeoLon, 50.1}, {east - 0.1, 50.2}, {cx + 0.05, cy + 0.05}, {cx - 0.1, cy}}
	order := make([]pt, 0, len(pts)+len(inside))
	cut := rng.Intn(len(inside) + 1)
	order = append(order, inside[:cut]...)
	order = append(order, pts...)
	order = append(order, inside[cut:]...)
	var ops []sOp
	for i, p := range order {
		words := []string{"ab"}
		if rng.Intn(4) == 0 {
			words = []string{"ba"}
		}
		if rng.Intn(2) == 0 {
			words = append(words, c.Vocab[rng.Intn(3)])
		}
		sv := &sVersion{V: i, ID: i + 1, HasText: true, Text: strings.Join(words, " "), HasGeo: true, Lon: p.lon, Lat: p.lat}
		sv.analyse()
		c.Versions = append(c.Versions, sv)
		ops = append(ops, sOp{Kind: 0, V: sv, ID: sv.ID})
		c.Live[sv.ID] = sv
	}
	if rng.Intn(2) == 0 {
		k := 1 + rng.Intn(len(ops)-1)
		c.Batches = [][]sOp{ops[:k], ops[k:]}
	} else {
		c.Batches = [][]sOp{ops}
	}
	box := &sxGq{Kind: sxQGeoBox, F: sxFG, TLLon: west, TLLat: 50.5, BRLon: east, BRLat: 49.5}
	circle := &sxGq{Kind: sxQGeoDist, F: sxFG, CLon: cx, CLat: cy, DistKm: radius}
	t := func(w string) *sxGq { return &sxGq{Kind: sxQTerm, F: sxFT, Term: w} }
	for _, g := range []*sxGq{box, circle} {
		c.Extra = append(c.Extra,
			g,
			&sxGq{Kind: sxQBool, Must: []*sxGq{t("ab"), g}},
			&sxGq{Kind: sxQBool, Must: []*sxGq{g, t("ab")}},
			&sxGq{Kind: sxQBool, Must: []*sxGq{t("ab")}, Should: []*sxGq{g, t("cab")}, MinShould: 1},
			&sxGq{Kind: sxQBool, Must: []*sxGq{t("ab")}, MustNot: []*sxGq{g}},
			&sxGq{Kind: sxQBool, Should: []*sxGq{g, t("ba")}, MinShould: 2},
		)
	}
	return c
}

func (r *sxSearchRun) geoEdgeCorpora(ci0, n, nQueries, nScripts int) error {
	for k := 0; k < n; k++ {
		c := sxGenGeoEdgeCorpus(r.rng)
		if err := r.corpus(ci0+k, c, nQueries, nScripts); err != nil {
			return err
		}
		r.w.Count("geo_edge_corpora", 1)
	}
	return nil
}

// ---------------------------------------------------------------- layouts produced by a merge
//
// A merge introduction builds the new root differently from a batch introduction (the segments
// that stay are copied, the merged one is appended, the number offsets are accumulated in its own
// loop), and the next batch introduction recomputes everything: only a reader whose last
// structural change is a merge sees what the merge introduction built.  Two ways to get there:
//   file:   file-system directory, merge plan that never touches a segment with >= 5 live
//           documents and merges the small ones; big batches first (they stay), then small
//           batches that update/delete documents of the big ones; the file merger merges the
//           small segments.
//   memory: unsafe batches and a napping persister, file merging switched off: the big batches
//           are persisted one by one, then the small batches arrive while the persister naps and
//           are merged in memory by the persister (mergeSegmentBases -> introduceMerge).
// The order of root replacements is recorded through index.VerifTrace; a reader is used only when
// the last structural replacement up to its epoch was made by introduceMerge and the big segments
// are followed by exactly one segment.  Nothing is written after that, except in the
// "-then-batch" variants (every second pair): there one more batch follows the merge, so that a
// fresh unmerged segment stands behind a merged one.

type sxRootLog struct {
	mu  sync.Mutex
	evs map[*index.Writer][]sxRootEv
}

type sxRootEv struct {
	epoch   uint64
	creator string
}

func (l *sxRootLog) install() {
	l.evs = map[*index.Writer][]sxRootEv{}
	index.VerifTrace = func(ev *index.VerifEvent) {
		if ev.Kind != "root" {
			return
		}
		l.mu.Lock()
		l.evs[ev.Writer] = append(l.evs[ev.Writer], sxRootEv{ev.Epoch, ev.Creator})
		l.mu.Unlock()
	}
}

func (l *sxRootLog) uninstall() { index.VerifTrace = nil }

// lastStructural: the creator of the last root up to the epoch that was not a persist introduction
func (l *sxRootLog) lastStructural(w *index.Writer, epoch uint64) string {
	l.mu.Lock()
	defer l.mu.Unlock()
	last := ""
	for _, e := range l.evs[w] {
		if e.epoch <= epoch && e.creator != "introducePersist" {
			last = e.creator
		}
	}
	return last
}

// sxGenMergeCorpus: nBig batches of 6-8 new documents, then two small batches (1-2 new documents
// each) that delete/update documents of the big batches (every big batch keeps >= 5 live
// documents, every small segment has <= 4) and of each other.
func sxGenMergeCorpus(rng *rand.Rand, withTail bool) (c *sCorpus, nBig int) {
	c = &sCorpus{Live: map[int]*sVersion{}}
	perm := rng.Perm(len(sWordPool))
	nv := 3 + rng.Intn(4)
	for i := 0; i < nv; i++ {
		c.Vocab = append(c.Vocab, sWordPool[perm[i]])
	}
	newV := func(id int) *sVersion {
		sv := sxGenVersion(rng, len(c.Versions), id, c.Vocab)
		c.Versions = append(c.Versions, sv)
		return sv
	}
	nBig = 1 + rng.Intn(2)
	id := 0
	var bigIDs [][]int
	for b := 0; b < nBig; b++ {
		var ops []sOp
		var ids []int
		for n := 6 + rng.Intn(3); n > 0; n-- {
			id++
			ops = append(ops, sOp{Kind: 0, V: newV(id), ID: id})
			ids = append(ids, id)
		}
		c.Batches = append(c.Batches, ops)
		bigIDs = append(bigIDs, ids)
	}
	spare := make([]int, nBig) // documents a big segment may still lose
	for b := range spare {
		spare[b] = len(bigIDs[b]) - 5
	}
	gone := map[int]bool{}
	var smallIDs []int
	for sb := 0; sb < 2; sb++ {
		var ops []sOp
		docs := 0
		for n := 1 + rng.Intn(2); n > 0; n-- {
			id++
			ops = append(ops, sOp{Kind: 0, V: newV(id), ID: id})
			docs++
			smallIDs = append(smallIDs, id)
		}
		for b := 0; b < nBig; b++ {
			// the first big segment always gets a pending deletion from the first small batch
			k := rng.Intn(spare[b] + 1)
			if b == 0 && sb == 0 && k == 0 {
				k = 1
			}
			for ; k > 0 && spare[b] > 0; k-- {
				// high local numbers are the interesting ones: a too small offset makes them collide
				cand := bigIDs[b][len(bigIDs[b])-1-rng.Intn(3)]
				if rng.Intn(3) == 0 {
					cand = bigIDs[b][rng.Intn(len(bigIDs[b]))]
				}
				if gone[cand] {
					continue
				}
				gone[cand] = true
				spare[b]--
				if docs < 4 && rng.Intn(2) == 0 {
					ops = append(ops, sOp{Kind: 1, V: newV(cand), ID: cand})
					docs++
				} else {
					ops = append(ops, sOp{Kind: 2, ID: cand})
				}
			}
		}
		if sb == 1 && rng.Intn(3) == 0 { // the second small batch updates a document of the first
			cand := smallIDs[0]
			if docs < 4 {
				ops = append(ops, sOp{Kind: 1, V: newV(cand), ID: cand})
			}
		}
		c.Batches = append(c.Batches, ops)
	}
	if withTail {
		// one more batch after the merge: a fresh segment behind the merged one.  Most of its
		// documents carry the keyword of a document of the merged segment (there the keyword
		// term has a single document: the merger writes it as a 1-hit postings list).
		first := c.Batches[nBig][0].V
		if !first.HasKw {
			first.HasKw, first.Kw = true, sKwPool[rng.Intn(len(sKwPool))]
			first.analyse()
		}
		var ops []sOp
		for n := 3 + rng.Intn(2); n > 0; n-- {
			id++
			sv := newV(id)
			if rng.Intn(4) != 0 {
				sv.HasKw, sv.Kw = true, first.Kw
				sv.analyse()
			}
			ops = append(ops, sOp{Kind: 0, V: sv, ID: id})
		}
		c.Batches = append(c.Batches, ops)
	}
	for _, ops := range c.Batches {
		for _, op := range ops {
			switch op.Kind {
			case 0, 1:
				c.Live[op.ID] = op.V
			case 2:
				delete(c.Live, op.ID)
			}
		}
	}
	return c, nBig
}

// sxSmallMergeConfig: the file merger merges the segments with < 5 live documents into one (as
// long as that stays below 10) and never touches a segment with >= 5; no in-memory merging.
func sxSmallMergeConfig(cfg bluge.Config) bluge.Config {
	ic := cfg.VerifIndexConfig()
	ic.MergePlanOptions.MaxSegmentsPerTier = 1
	ic.MergePlanOptions.MaxSegmentSize = 10
	ic.MergePlanOptions.TierGrowth = 10.0
	ic.MergePlanOptions.SegmentsPerMergeTask = 10
	ic.MergePlanOptions.FloorSegmentSize = 100
	ic.MergePlanOptions.ReclaimDeletesWeight = 2.0
	ic.MinSegmentsForInMemoryMerge = 1 << 30
	return cfg.VerifWithIndexConfig(ic)
}

func sxOneBatch(w *bluge.Writer, ops []sOp) error { return sxApplyBatches(w, [][]sOp{ops}) }

// sxMergedReader builds the corpus so that a merge introduction comes last; nil reader = the
// layout was not reached within the bound (counted, not an error of the implementation).
func (r *sxSearchRun) sxMergedReader(log *sxRootLog, c *sCorpus, nBig int, memory bool, dir string) (*bluge.Writer, *bluge.Reader, bluge.Config, error) {
	var cfg bluge.Config
	if memory {
		cfg = sxMergeFreeConfig(bluge.InMemoryOnlyConfig())
		ic := cfg.VerifIndexConfig()
		ic.MinSegmentsForInMemoryMerge = 2
		ic.UnsafeBatch = true
		ic.PersisterNapTimeMSec = 120
		ic.PersisterNapUnderNumFiles = 1000
		cfg = cfg.VerifWithIndexConfig(ic)
	} else {
		cfg = sxSmallMergeConfig(bluge.DefaultConfig(dir))
	}
	w, err := bluge.OpenWriter(cfg)
	if err != nil {
		return nil, nil, cfg, err
	}
	iw := w.VerifIndexWriter()
	fail := func(err error) (*bluge.Writer, *bluge.Reader, bluge.Config, error) {
		_ = w.Close()
		return nil, nil, cfg, err
	}
	allPersisted := func(n int) bool {
		rd, err := w.Reader()
		if err != nil {
			return false
		}
		defer rd.Close()
		_, segs := index.VerifSnapshotInfo(rd.VerifSnapshot())
		if len(segs) != n {
			return false
		}
		for _, s := range segs {
			if !s.Persisted {
				return false
			}
		}
		return true
	}
	for b := 0; b < nBig; b++ {
		if err := sxOneBatch(w, c.Batches[b]); err != nil {
			return fail(err)
		}
		deadline := time.Now().Add(5 * time.Second)
		for !allPersisted(b + 1) {
			if time.Now().After(deadline) {
				_ = w.Close()
				return nil, nil, cfg, nil
			}
			time.Sleep(3 * time.Millisecond)
		}
	}
	for b := nBig; b < nBig+2; b++ {
		if err := sxOneBatch(w, c.Batches[b]); err != nil {
			return fail(err)
		}
	}
	// bounded poll for [big..., merged]
	deadline := time.Now().Add(6 * time.Second)
	lastNudge := time.Now()
	for time.Now().Before(deadline) {
		rd, err := w.Reader()
		if err != nil {
			return fail(err)
		}
		epoch, segs := index.VerifSnapshotInfo(rd.VerifSnapshot())
		if len(segs) == nBig+1 && log.lastStructural(iw, epoch) == "introduceMerge" {
			if len(c.Batches) == nBig+2 {
				return w, rd, cfg, nil
			}
			// the other order: the merge, then one more batch (a fresh segment behind the merged one)
			_ = rd.Close()
			if err := sxOneBatch(w, c.Batches[nBig+2]); err != nil {
				return fail(err)
			}
			rd, err = w.Reader()
			if err != nil {
				return fail(err)
			}
			return w, rd, cfg, nil
		}
		_ = rd.Close()
		if len(segs) <= nBig+1 && !memory {
			// merged, but a nudge was introduced after it: the offsets were recomputed by a
			// batch introduction, this index cannot show a merge introduction any more
			break
		}
		if !memory && time.Since(lastNudge) > 400*time.Millisecond {
			// the file merger sleeps until a persistence round ends after it registered its
			// watcher; an empty batch (no segment, no document) starts such a round
			if err := w.Batch(bluge.NewBatch()); err != nil {
				return fail(err)
			}
			lastNudge = time.Now()
			r.w.Count("merged_layout_nudges", 1)
		}
		time.Sleep(4 * time.Millisecond)
	}
	_ = w.Close()
	return nil, nil, cfg, nil
}

func (r *sxSearchRun) mergedCorpora(ci0, n, nQueries, nScripts int) error {
	log := &sxRootLog{}
	log.install()
	defer log.uninstall()
	reached := map[string]int{}
	tried := map[string]bool{}
	for k := 0; k < n; k++ {
		memory := k%2 == 1
		tail := k%4 >= 2
		how := "file-merge"
		if memory {
			how = "memory-merge"
		}
		if tail {
			how += "-then-batch"
		}
		tried[how] = true
		done := false
		for try := 0; try < 4 && !done; try++ {
			c, nBig := sxGenMergeCorpus(r.rng, tail)
			dir := filepath.Join(r.o.Out, "idx-merge")
			_ = os.RemoveAll(dir)
			if !memory {
				if err := os.MkdirAll(dir, 0o755); err != nil {
					return err
				}
			}
			wr, rd, cfg, err := r.sxMergedReader(log, c, nBig, memory, dir)
			if err != nil {
				return err
			}
			if rd == nil {
				r.w.Count("merged_layout_not_reached_"+how, 1)
				continue
			}
			done = true
			reached[how]++
			r.w.Count("merged_layout_"+how, 1)
			err = r.corpusOn(ci0+k, how, c, rd, cfg, nQueries, nScripts)
			_ = rd.Close()
			_ = wr.Close()
			_ = os.RemoveAll(dir)
			if err != nil {
				return err
			}
		}
	}
	for _, how := range []string{"file-merge", "memory-merge", "file-merge-then-batch", "memory-merge-then-batch"} {
		if !tried[how] {
			continue
		}
		r.w.OracleEval(1)
		if reached[how] == 0 {
			r.w.OracleFail("merged-layout-not-reached", "no index with a merge introduction at the intended place could be built (harness, not a property violation): the merge-built roots went unchecked",
				map[string]interface{}{"layout": how, "seed": r.o.Seed})
		}
	}
	return nil
}

func sxIntsToI64(a []int) []int64 {
	out := make([]int64, len(a))
	for i, x := range a {
		out[i] = int64(x)
	}
	return out
}

func (r *sxSearchRun) corpus(ci int, c *sCorpus, nQueries, nScripts int) error {
	wr, rd, cfg, err := r.openMem(c)
	if err != nil {
		return err
	}
	defer wr.Close()
	defer rd.Close()
	return r.corpusOn(ci, "batches", c, rd, cfg, nQueries, nScripts)
}

// corpusOn: query trees, oracle, model items and scripts on one reader of the corpus.
func (r *sxSearchRun) corpusOn(ci int, how string, c *sCorpus, rd *bluge.Reader, cfg bluge.Config, nQueries, nScripts int) error {
	lay, err := sxObserveLayout(rd, c)
	if err != nil {
		return err
	}
	env := &sxCoqEnv{c: c, lay: lay}
	w := r.w
	w.OracleEval(1)
	if lay.Broken != "" {
		w.OracleFail("doc-number-resolution", lay.Broken, map[string]interface{}{"corpus": ci, "layout": how, "seed": r.o.Seed})
	}
	w.Count(fmt.Sprintf("corpus_segments_%d", len(lay.Segs)), 1)
	nDel := 0
	for _, d := range lay.Deleted {
		if d {
			nDel++
		}
	}
	w.Count("corpus_docs", len(lay.NumToV))
	w.Count("corpus_pending_deletes", nDel)

	var items, itemMeta []string
	nontrivial := false
	live := c.liveIDs()
	targeted := append(sxTargetedQueries(c), c.Extra...)
	for qi := 0; qi < nQueries+len(targeted); qi++ {
		var q *sxGq
		if qi < nQueries {
			q = sxGenQuery(r.rng, c, 1+r.rng.Intn(4))
		} else {
			q = targeted[qi-nQueries]
			w.Count("queries_targeted_term_clauses", 1)
		}
		rcost, rblown := sxRangeCost(q)
		if rblown {
			w.Count("queries_skipped_enumerate_blowup", 1)
			if w.Stats["reported_blowup"] == 0 {
				w.Stats["reported_blowup"] = 1
				w.OracleEval(1)
				w.OracleFail("enumerate-blowup-carry", "a numeric/date range query would enumerate a practically unbounded number of candidate terms (pre-check; query skipped)", q.String())
			}
			continue
		}
		if sxFuzzyTranspositionSensitive(q, c) {
			w.Count("queries_skipped_fuzzy_transposition", 1) // left to the dedicated probe (known finding)
			continue
		}
		q.kinds(w.Stats)
		w.Count(fmt.Sprintf("query_depth_%d", q.depth()), 1)
		want, masked := q.expected(c)
		modes := []int{sxModeAll, sxModeTopN}
		if qi%3 == 0 || qi >= nQueries {
			modes = append(modes, sxModeNoScore)
		}
		if qi%7 == 0 {
			modes = append(modes, sxModeLocs)
		}
		bq := q.bluge()
		for _, mode := range modes {
			out := sxGuardedSearch(rd, bq, mode)
			desc := map[string]interface{}{"corpus": ci, "layout": how, "query": q.String(), "mode": sModeNames[mode], "seed": r.o.Seed}
			if out.hung {
				w.Abort("search-hang", "search did not return within 20s", desc)
			}
			w.OracleEval(1)
			if out.panicked != nil {
				w.OracleFail("search-panic", fmt.Sprint(out.panicked), desc)
				continue
			}
			if out.err != nil {
				w.OracleFail("search-error", out.err.Error(), desc)
				continue
			}
			got := sxWithoutInts(out.ids, masked)
			known := false
			if !sxEqualInts(got, want) {
				desc["got"] = got
				desc["want"] = want
				desc["docs"] = sxDescribeDocs(c, append(append([]int{}, got...), want...))
				key := "result-set"
				if mode == sxModeNoScore && sxScoreNoneKnown(q, c, got, want) {
					key = "score-none-drops-min-should"
					known = true
				}
				w.OracleFail(key, "returned ids differ from the documented meaning of the query over the live documents", desc)
			}
			if mode == sxModeTopN {
				continue // same options as AllMatches for the model; compared by the oracle only
			}
			obs := fmt.Sprintf("%s (%s, %s, %s)", sxModeOptCoq(mode), q.coq(env), cq.IntList(out.ids), cq.IntList(masked))
			switch {
			case known:
				items = append(items, "IRunOnly "+obs)
			case mode == sxModeNoScore && sxScoreNoneShouldDefect(q):
				// the class of the known finding: whether the rewrite that drops the should requirement is
				// taken depends on details of the dictionary the model does not reproduce in every case
				items = append(items, "ISemOnly "+obs)
			case rcost > 1500:
				items = append(items, "ISemOnly "+obs)
			default:
				items = append(items, "IQuery "+obs)
			}
			itemMeta = append(itemMeta, sModeNames[mode]+": "+q.String())
			w.Count("item_"+sModeNames[mode], 1)
			if len(want) > 0 && len(want) < len(live) {
				nontrivial = true
			}
		}
	}
	sitems, smeta, err := r.scripts(rd, ci, c, lay, cfg, env, nScripts)
	if err != nil {
		return err
	}
	items = append(items, sitems...)
	itemMeta = append(itemMeta, smeta...)
	w.Add(fmt.Sprintf("CCorpus %s %s", lay.coq(), cq.List(items)), "corpus", nontrivial || len(sitems) > 0,
		map[string]interface{}{"corpus": ci, "layout": how, "items": itemMeta, "segments": len(lay.Segs), "docs": len(lay.NumToV), "seed": r.o.Seed})
	return nil
}

func sxSubsetInts(a, b []int) bool {
	m := map[int]bool{}
	for _, x := range b {
		m[x] = true
	}
	for _, x := range a {
		if !m[x] {
			return false
		}
	}
	return true
}

func sxDescribeDocs(c *sCorpus, ids []int) map[string]string {
	out := map[string]string{}
	for _, id := range ids {
		if v, ok := c.Live[id]; ok {
			out[strconv.Itoa(id)] = fmt.Sprintf("t=%q k=%q n=%v(%v) d=%v g=%v,%v(%v)", v.Text, v.Kw, v.Num, v.HasNum, v.Date, v.Lon, v.Lat, v.HasGeo)
		} else {
			out[strconv.Itoa(id)] = "not live"
		}
	}
	return out
}

// ---------------------------------------------------------------- scripts: the iterator contract

type sxSop struct {
	adv bool
	n   uint64
}

func sxSearcherOptions(cfg bluge.Config) search.SearcherOptions {
	return search.SearcherOptions{
		SimilarityForField: func(field string) search.Similarity {
			if pfs, ok := cfg.PerFieldSimilarity[field]; ok {
				return pfs
			}
			return cfg.DefaultSimilarity
		},
		DefaultSearchField: cfg.DefaultSearchField,
		DefaultAnalyzer:    cfg.DefaultSearchAnalyzer,
	}
}

// sxDriveScript runs the calls on a fresh searcher of the query; -1 stands for nil.
func sxDriveScript(snap *index.Snapshot, cfg bluge.Config, q bluge.Query, ops []sxSop) (out []int64, err error) {
	s, err := q.Searcher(snap, sxSearcherOptions(cfg))
	if err != nil {
		return nil, err
	}
	defer s.Close()
	ctx := search.NewSearchContext(s.DocumentMatchPoolSize()+4, 0)
	for _, op := range ops {
		var m *search.DocumentMatch
		if op.adv {
			m, err = s.Advance(ctx, op.n)
		} else {
			m, err = s.Next(ctx)
		}
		if err != nil {
			return out, err
		}
		if m == nil {
			out = append(out, -1)
		} else {
			out = append(out, int64(m.Number))
			ctx.DocumentMatchPool.Put(m)
		}
	}
	return out, nil
}

func sxCoqOps(ops []sxSop) string {
	it := make([]string, len(ops))
	for i, op := range ops {
		if op.adv {
			it[i] = fmt.Sprintf("OAdvance %d", op.n)
		} else {
			it[i] = "ONext"
		}
	}
	return cq.List(it)
}

func sxCoqOut(out []int64) string {
	it := make([]string, len(out))
	for i, x := range out {
		if x < 0 {
			it[i] = "None"
		} else {
			it[i] = cq.Some(cq.Z(x))
		}
	}
	return cq.List(it)
}

// sxGenScript: the discipline every caller in the code base follows: the first call is Next and
// an Advance targets a number above the last one returned.
func sxGenScript(rng *rand.Rand, total int) []sxSop {
	n := 4 + rng.Intn(12)
	ops := []sxSop{{}}
	est := 0
	for i := 1; i < n; i++ {
		if rng.Intn(10) < 6 {
			ops = append(ops, sxSop{})
			est++
			continue
		}
		jump := 1 + rng.Intn(4)
		if rng.Intn(6) == 0 {
			jump = 1 + rng.Intn(total+2)
		}
		est += jump
		ops = append(ops, sxSop{adv: true, n: uint64(est)})
	}
	return ops
}

func (r *sxSearchRun) scripts(rdr *bluge.Reader, ci int, c *sCorpus, lay *sxALayout, cfg bluge.Config, env *sxCoqEnv, nScripts int) (items, meta []string, err error) {
	if len(lay.NumToV) == 0 {
		return nil, nil, nil
	}
	w := r.w
	for si := 0; si < nScripts+len(c.Extra); si++ {
		var q *sxGq
		if si < len(c.Extra) {
			q = c.Extra[si]
		} else {
			q = sxGenQuery(r.rng, c, 1+r.rng.Intn(4))
		}
		if rc, rb := sxRangeCost(q); rb || rc > 1500 || sxFuzzyTranspositionSensitive(q, c) {
			continue
		}
		if q.hasKind(sxQGeoBox) || q.hasKind(sxQGeoDist) {
			// a geo leaf (FilteringSearcher over the cell terms) is scripted when no document lies in an edge band
			unsure := false
			for _, v := range lay.NumToV {
				if q.geoUncertain(v) {
					unsure = true
				}
			}
			if unsure {
				continue
			}
			w.Count("script_geo", 1)
		}
		// the matching numbers according to the oracle
		var S []int64
		for n, v := range lay.NumToV {
			if !lay.Deleted[n] && q.eval(v, true) {
				S = append(S, int64(n))
			}
		}
		ops := sxGenScript(r.rng, len(lay.NumToV))
		// make Advance targets forward relative to what the abstract iterator returns
		last := int64(-1)
		floor := int64(0) // Advance targets never decrease and exceed the last number returned
		var want []int64
		exhausted := false
		for i := range ops {
			if last+1 > floor {
				floor = last + 1
			}
			if ops[i].adv {
				if int64(ops[i].n) < floor {
					ops[i].n = uint64(floor + int64(r.rng.Intn(3)))
				}
				floor = int64(ops[i].n)
			}
			lo := last + 1
			if ops[i].adv && int64(ops[i].n) > lo {
				lo = int64(ops[i].n)
			}
			res := int64(-1)
			if !exhausted {
				for _, x := range S {
					if x >= lo {
						res = x
						break
					}
				}
			}
			if res < 0 {
				exhausted = true
			} else {
				last = res
			}
			want = append(want, res)
		}
		var got []int64
		var derr error
		desc := map[string]interface{}{"corpus": ci, "query": q.String(), "ops": sxCoqOps(ops), "seed": r.o.Seed}
		fin, pan := cq.Guard(20*time.Second, func() { got, derr = sxDriveScript(lay.Snap, cfg, q.bluge(), ops) })
		if !fin {
			w.Abort("script-hang", "searcher script did not return within 20s", desc)
		}
		w.OracleEval(len(ops))
		if pan != nil {
			w.OracleFail("script-panic", fmt.Sprint(pan), desc)
			continue
		}
		if derr != nil {
			w.OracleFail("script-error", derr.Error(), desc)
			continue
		}
		ok := len(got) == len(want)
		for i := range want {
			if ok && got[i] != want[i] {
				ok = false
			}
		}
		if !ok {
			desc["got"] = got
			desc["want"] = want
			sids, serr := sxSearchIDs(rdr, q.bluge(), sxModeAll)
			desc["allmatches_ids"] = sids
			desc["allmatches_err"] = fmt.Sprint(serr)
			var gotIDs, wantIDs []int
			for _, n := range got {
				if n >= 0 && int(n) < len(lay.NumToV) {
					gotIDs = append(gotIDs, lay.NumToV[n].ID)
				}
			}
			for _, n := range S {
				wantIDs = append(wantIDs, lay.NumToV[n].ID)
			}
			desc["got_ids"], desc["oracle_ids"] = gotIDs, wantIDs
			w.OracleFail("iterator-contract", "Next/Advance sequence differs from the sorted remaining matches", desc)
		}
		w.Count("script_ops", len(ops))
		items = append(items, fmt.Sprintf("IScript %s (%s, %s, %s)", sxOptDefaultCoq, q.coq(env), sxCoqOps(ops), sxCoqOut(got)))
		meta = append(meta, "script: "+q.String())
		w.Count("item_script", 1)
	}
	return items, meta, nil
}

// ---------------------------------------------------------------- probes for specific inputs

func (r *sxSearchRun) probes() error {
	w := r.w
	// a fixed 2-segment, 5-document index with a pending delete (the Coq Examples use the same one)
	mk := func(v, id int, text string) *sVersion {
		sv := &sVersion{V: v, ID: id, HasText: true, Text: text}
		sv.analyse()
		return sv
	}
	c := &sCorpus{Live: map[int]*sVersion{}, Vocab: []string{"ab", "ba", "cab"}}
	texts := []string{"ab ba", "ba", "ab cab ab", "ba ab", "ba"}
	for i, t := range texts {
		c.Versions = append(c.Versions, mk(i, i+1, t))
	}
	c.Batches = [][]sOp{
		{{Kind: 0, V: c.Versions[0], ID: 1}, {Kind: 0, V: c.Versions[1], ID: 2}, {Kind: 0, V: c.Versions[2], ID: 3}},
		{{Kind: 0, V: c.Versions[3], ID: 4}, {Kind: 0, V: c.Versions[4], ID: 5}, {Kind: 2, ID: 2}},
	}
	for _, id := range []int{1, 3, 4, 5} {
		c.Live[id] = c.Versions[id-1]
	}
	wr, rd, _, err := r.openMem(c)
	if err != nil {
		return err
	}
	defer wr.Close()
	defer rd.Close()

	// fuzziness 0 is a documented value (exact term) reachable through the public FuzzyQuery
	{
		q := &sxGq{Kind: sxQFuzzy, F: sxFT, Term: "ab", Fuzziness: 0}
		out := sxGuardedSearch(rd, q.bluge(), sxModeAll)
		w.OracleEval(1)
		want, _ := q.expected(c)
		desc := map[string]interface{}{"query": q.String()}
		switch {
		case out.hung:
			w.Abort("search-hang", "fuzzy query with fuzziness 0 hangs", desc)
		case out.panicked != nil:
			desc["panic"] = fmt.Sprint(out.panicked)
			w.OracleFail("fuzzy-zero-panics", "FuzzyQuery with fuzziness 0 panics instead of returning the exact-term matches", desc)
		case out.err != nil:
			desc["error"] = out.err.Error()
			w.OracleFail("fuzzy-zero-error", "FuzzyQuery with fuzziness 0 fails", desc)
		case !sxEqualInts(out.ids, want):
			desc["got"], desc["want"] = out.ids, want
			w.OracleFail("result-set", "fuzzy query with fuzziness 0", desc)
		}
	}
	// an adjacent transposition is two Levenshtein edits
	{
		q := &sxGq{Kind: sxQFuzzy, F: sxFT, Term: "ab", Fuzziness: 1}
		out := sxGuardedSearch(rd, q.bluge(), sxModeAll)
		w.OracleEval(1)
		want, _ := q.expected(c)
		desc := map[string]interface{}{"query": q.String(), "got": out.ids, "want": want}
		if out.err == nil && out.panicked == nil && !out.hung && !sxEqualInts(out.ids, want) {
			key := "result-set"
			dq := func(v *sVersion) bool {
				for _, t := range v.terms(sxFT) {
					if sxDamerau([]rune("ab"), []rune(string(t.Term))) <= 1 {
						return true
					}
				}
				return false
			}
			var dam []int
			for _, id := range c.liveIDs() {
				if dq(c.Live[id]) {
					dam = append(dam, id)
				}
			}
			if sxEqualInts(out.ids, dam) {
				key = "fuzzy-counts-transposition-as-one-edit"
			}
			w.OracleFail(key, "FuzzyQuery (documented: Levenshtein edit distance) matches a term two edits away by counting an adjacent transposition as one edit", desc)
		}
	}
	return nil
}

// sxFuzzyTranspositionSensitive: would a Damerau automaton accept a term of the corpus that the
// documented Levenshtein distance rejects?  Such queries are left to the dedicated probe.
func sxFuzzyTranspositionSensitive(q *sxGq, c *sCorpus) bool {
	check := func(term string, fuzz, f int) bool {
		for _, v := range c.Versions {
			for _, t := range v.terms(f) {
				a, b := []rune(term), []rune(string(t.Term))
				if sxDamerau(a, b) <= fuzz && sxLevenshtein(a, b) > fuzz {
					return true
				}
			}
		}
		return false
	}
	switch q.Kind {
	case sxQFuzzy:
		return check(q.Term, q.Fuzziness, q.F)
	case sxQMatch:
		if q.Fuzziness > 0 {
			for _, t := range q.Terms {
				if check(t, q.Fuzziness, q.F) {
					return true
				}
			}
		}
		return false
	}
	for _, l := range [][]*sxGq{q.Must, q.Should, q.MustNot} {
		for _, s := range l {
			if sxFuzzyTranspositionSensitive(s, c) {
				return true
			}
		}
	}
	return false
}

// ---------------------------------------------------------------- exhaustive small scope (thorough)

func (r *sxSearchRun) exhaustive() error {
	// every assignment of three terms to five documents in two segments (3 + 2) x a family of
	// boolean shapes of depth <= 2; oracle only
	terms := []string{"ab", "ba", "cab"}
	leaf := func(i int) *sxGq { return &sxGq{Kind: sxQTerm, F: sxFT, Term: terms[i]} }
	var shapes []*sxGq
	for i := 0; i < 3; i++ {
		shapes = append(shapes, leaf(i))
	}
	for _, ms := range []int{0, 1, 2, 3} {
		shapes = append(shapes, &sxGq{Kind: sxQBool, Should: []*sxGq{leaf(0), leaf(1), leaf(2)}, MinShould: ms})
		shapes = append(shapes, &sxGq{Kind: sxQBool, Must: []*sxGq{leaf(0)}, Should: []*sxGq{leaf(1), leaf(2)}, MinShould: ms})
		shapes = append(shapes, &sxGq{Kind: sxQBool, Must: []*sxGq{leaf(0)}, Should: []*sxGq{leaf(1), leaf(2)}, MustNot: []*sxGq{leaf(2)}, MinShould: ms})
	}
	for i := 0; i < 3; i++ {
		j, k := (i+1)%3, (i+2)%3
		shapes = append(shapes,
			&sxGq{Kind: sxQBool, Must: []*sxGq{leaf(i), leaf(j)}},
			&sxGq{Kind: sxQBool, Must: []*sxGq{leaf(i)}, MustNot: []*sxGq{leaf(j)}},
			&sxGq{Kind: sxQBool, MustNot: []*sxGq{leaf(i)}},
			&sxGq{Kind: sxQBool, Must: []*sxGq{leaf(i)}, Should: []*sxGq{leaf(j)}, MinShould: 1},
			&sxGq{Kind: sxQBool, Should: []*sxGq{leaf(i), leaf(j)}, MustNot: []*sxGq{leaf(k)}, MinShould: 1},
			&sxGq{Kind: sxQBool, Must: []*sxGq{{Kind: sxQBool, Should: []*sxGq{leaf(i), leaf(j)}, MinShould: 2}}, MustNot: []*sxGq{{Kind: sxQBool, Must: []*sxGq{leaf(j), leaf(k)}}}},
			&sxGq{Kind: sxQBool, Should: []*sxGq{{Kind: sxQBool, Must: []*sxGq{leaf(i), leaf(j)}}, {Kind: sxQBool, Must: []*sxGq{leaf(k)}, MustNot: []*sxGq{leaf(i)}}}, MinShould: 1},
			&sxGq{Kind: sxQBool, Must: []*sxGq{{Kind: sxQBool, MustNot: []*sxGq{leaf(i)}}}, Should: []*sxGq{leaf(j), {Kind: sxQBool, Must: []*sxGq{leaf(k)}}}, MinShould: 2},
			&sxGq{Kind: sxQBool, MustNot: []*sxGq{{Kind: sxQBool, Should: []*sxGq{leaf(i), leaf(j)}, MinShould: 2}, leaf(k)}},
		)
	}
	bqs := make([]bluge.Query, len(shapes))
	for i, s := range shapes {
		bqs[i] = s.bluge()
	}
	w := r.w
	total := 8 * 8 * 8 * 8 * 8
	for a := 0; a < total; a++ {
		c := &sCorpus{Live: map[int]*sVersion{}, Vocab: terms}
		x := a
		for d := 0; d < 5; d++ {
			mask := x % 8
			x /= 8
			var ws []string
			for t := 0; t < 3; t++ {
				if mask&(1<<t) != 0 {
					ws = append(ws, terms[t])
				}
			}
			sv := &sVersion{V: d, ID: d + 1, HasText: len(ws) > 0, Text: strings.Join(ws, " ")}
			// cheap analysis: one token per word (the standard analyzer on these words)
			for i, wd := range ws {
				sv.an[sxFT] = append(sv.an[sxFT], sxATerm{Term: []byte(wd), Pos: []int{i + 1}})
			}
			sort.Slice(sv.an[sxFT], func(i, j int) bool { return bytes.Compare(sv.an[sxFT][i].Term, sv.an[sxFT][j].Term) < 0 })
			c.Versions = append(c.Versions, sv)
			c.Live[sv.ID] = sv
		}
		c.Batches = [][]sOp{
			{{Kind: 0, V: c.Versions[0], ID: 1}, {Kind: 0, V: c.Versions[1], ID: 2}, {Kind: 0, V: c.Versions[2], ID: 3}},
			{{Kind: 0, V: c.Versions[3], ID: 4}, {Kind: 0, V: c.Versions[4], ID: 5}},
		}
		wr, rd, _, err := r.openMem(c)
		if err != nil {
			return err
		}
		for i, s := range shapes {
			want, _ := s.expected(c)
			var got []int
			var serr error
			fin, pan := cq.Guard(20*time.Second, func() { got, serr = sxSearchIDs(rd, bqs[i], sxModeAll) })
			if !fin {
				w.Abort("search-hang", "search did not return within 20s", s.String())
			}
			w.OracleEval(1)
			if pan != nil || serr != nil || !sxEqualInts(got, want) {
				w.OracleFail("result-set", "exhaustive small scope", map[string]interface{}{"assignment": a, "query": s.String(), "got": got, "want": want, "panic": fmt.Sprint(pan), "err": fmt.Sprint(serr)})
			}
		}
		rd.Close()
		wr.Close()
		w.Count("exhaustive_corpora", 1)
	}
	w.Count("exhaustive_shapes", len(shapes))
	return nil
}
