package engines

// Engine `plan` (property C19): mergeplan.Plan / mergeplan.CalcBudget on generated segment
// lists and options.  Correspondence cases are evaluated by coq/MergePlan/PlanCorr.v; the
// property predicate (tasks within the input, disjoint, size bounds, same result for the same
// input, termination, boundedness at the end of simulated histories) is evaluated directly on
// the implementation.  Every top-level identifier of this file starts with plan/mp.

import (
	"fmt"
	"math"
	"math/big"
	"math/rand"
	"os"
	"sort"
	"strings"
	"time"

	"github.com/blugelabs/bluge/index/mergeplan"

	"verif/harness/cq"
)

func init() { Registry["plan"] = runPlan }

type planSeg struct {
	id         uint64
	full, live int64
}

func (s *planSeg) ID() uint64      { return s.id }
func (s *planSeg) FullSize() int64 { return s.full }
func (s *planSeg) LiveSize() int64 { return s.live }

func planIface(segs []*planSeg) []mergeplan.Segment {
	out := make([]mergeplan.Segment, len(segs))
	for i, s := range segs {
		out[i] = s
	}
	return out
}

// planKey maps a float64 score to an int64 whose order is the order of `<` on the floats
// (+0 and -0 compare equal and both map to 0).  NaN has no key.
func planKey(f float64) (int64, bool) {
	if math.IsNaN(f) {
		return 0, false
	}
	if f == 0 {
		return 0, true
	}
	b := math.Float64bits(f)
	if f > 0 {
		return int64(b), true
	}
	return -int64(b &^ (1 << 63)), true
}

// planSynScore: integer-valued score in [0,2^k) that the Coq side (PlanCorr.syn_score) computes
// exactly: t = (h*31 + id + 7*live + full) & (2^k-1); h = (t*2654435761) & (2^k-1).  The callers keep ids < 2^32 and
// |sizes| < 2^44, so nothing overflows int64; k <= 30.
func planSynScore(k uint) func([]mergeplan.Segment, *mergeplan.Options) float64 {
	mask := int64(1)<<k - 1
	return func(segs []mergeplan.Segment, _ *mergeplan.Options) float64 {
		var h int64
		for _, s := range segs {
			t := (h*31 + int64(s.ID()) + 7*s.LiveSize() + s.FullSize()) & mask
			h = (t * 2654435761) & mask
		}
		return float64(h)
	}
}

var planGrowths = []float64{1, 1.5, 2, 2.5, 3, 4, 8, 10, 16, 1.25, 0.5, 0, -1, 10, 10}
var planReclaims = []float64{0, 0.5, 1, 1.5, 2, 2, 3}

func planSane(o *mergeplan.Options) bool {
	return o.MaxSegmentSize > 0 && mergeplan.ValidateMergePlannerOptions(o) == nil && o.SegmentsPerMergeTask >= 1
}

// options around the defaults; mode 0 = sane, 1 = may be degenerate (zero/negative fields,
// sizes above MaxSegmentSizeLimit): those are used for the correspondence only.
func planGenOpts(rng *rand.Rand, mode int) mergeplan.Options {
	o := mergeplan.DefaultMergePlanOptions
	if rng.Intn(8) == 0 && mode == 0 {
		return o
	}
	o.MaxSegmentsPerTier = 1 + rng.Intn(20)
	switch rng.Intn(6) {
	case 0:
		o.MaxSegmentSize = int64(10 + rng.Intn(200))
	case 1:
		o.MaxSegmentSize = int64(1000 + rng.Intn(100000))
	case 2:
		o.MaxSegmentSize = 5000000
	case 3:
		o.MaxSegmentSize = mergeplan.MaxSegmentSizeLimit - int64(rng.Intn(3))
	default:
		o.MaxSegmentSize = int64(10 + rng.Intn(5000000))
	}
	o.TierGrowth = planGrowths[rng.Intn(len(planGrowths))]
	o.SegmentsPerMergeTask = 1 + rng.Intn(12)
	switch rng.Intn(4) {
	case 0:
		o.FloorSegmentSize = 0
	case 1:
		o.FloorSegmentSize = 2000
	default:
		o.FloorSegmentSize = int64(rng.Intn(5001))
	}
	o.ReclaimDeletesWeight = planReclaims[rng.Intn(len(planReclaims))]
	if rng.Intn(3) == 0 { // small values: much merging
		o.MaxSegmentsPerTier = 1 + rng.Intn(3)
		o.SegmentsPerMergeTask = 1 + rng.Intn(3)
	}
	// CalcBudget walks the staircase one tier per iteration: with a growth below 2 the tiers may
	// never grow (int64(1*1.5) = 1) and the call takes totalSize/(M*firstTier) iterations.  Keep
	// that quotient small (a large floor relative to the maximum) so that a call stays cheap.
	if o.TierGrowth < 2 {
		if o.MaxSegmentSize > 200000 {
			o.MaxSegmentSize = int64(1000 + rng.Intn(100000))
		}
		if o.FloorSegmentSize < o.MaxSegmentSize/50 {
			o.FloorSegmentSize = o.MaxSegmentSize / 50
		}
	}
	if mode == 1 {
		switch rng.Intn(6) {
		case 0:
			o.MaxSegmentSize = int64(rng.Intn(7)) - 3
		case 1:
			o.SegmentsPerMergeTask = rng.Intn(3) - 1
		case 2:
			o.MaxSegmentsPerTier = rng.Intn(3) - 1
		case 3:
			if o.TierGrowth >= 2 {
				o.MaxSegmentSize = mergeplan.MaxSegmentSizeLimit + 1 + int64(rng.Intn(1000))
			}
		case 4:
			if o.TierGrowth >= 2 {
				o.MaxSegmentSize = math.MaxInt64 - int64(rng.Intn(3))
			}
		case 5:
			if o.TierGrowth >= 2 {
				o.FloorSegmentSize = -int64(rng.Intn(50))
			}
		}
	}
	return o
}

// planGenSegs: n segments with distinct ids; sizes relative to o.MaxSegmentSize.
func planGenSegs(rng *rand.Rand, n int, o *mergeplan.Options, style int, negatives bool) []*planSeg {
	max := o.MaxSegmentSize
	if max < 4 {
		max = 4
	}
	if max > 1<<40 {
		max = 1 << 40
	}
	segs := make([]*planSeg, 0, n)
	idBase := uint64(rng.Intn(5))
	if rng.Intn(10) == 0 {
		idBase = math.MaxUint64 - uint64(n) - uint64(rng.Intn(10))
	}
	perm := rng.Perm(n)
	few := []int64{1 + rng.Int63n(max), 1 + rng.Int63n(max/2+1), 1 + rng.Int63n(max/8+1)}
	geo := int64(1 + rng.Intn(3))
	ratio := int64(2 + rng.Intn(19))
	for i := 0; i < n; i++ {
		var live int64
		switch style {
		case 0: // uniform from 0 to beyond the maximum
			live = rng.Int63n(max + max/4 + 2)
		case 1: // small segments (the usual shape: many small, few large)
			live = rng.Int63n(max/16 + 2)
			if rng.Intn(10) == 0 {
				live = rng.Int63n(max + 1)
			}
		case 2: // few distinct sizes: duplicates
			live = few[rng.Intn(len(few))]
		case 3: // geometric progression
			live = geo
			if geo < max {
				geo *= ratio
			}
		case 4: // around half the maximum and around the maximum
			base := []int64{max / 2, max/2 - 1, max/2 + 1, max, max - 1, max / 4, max / 3}[rng.Intn(7)]
			live = base + int64(rng.Intn(5)) - 2
			if live < 0 {
				live = 0
			}
		case 5: // tiny sizes around the floor
			fl := o.FloorSegmentSize
			if fl < 0 {
				fl = 0
			}
			live = rng.Int63n(fl*2 + 10)
			if live < 0 {
				live = 0
			}
		default: // zeros mixed in
			live = rng.Int63n(max/4 + 2)
			if rng.Intn(3) == 0 {
				live = 0
			}
		}
		if negatives && rng.Intn(6) == 0 {
			live = -rng.Int63n(50) - 1
		}
		full := live
		al := live
		if al < 0 {
			al = -al
		}
		switch rng.Intn(4) {
		case 0: // no deletions
		case 1:
			full = live + rng.Int63n(al/4+2)
		case 2:
			full = live + rng.Int63n(al+2)
		default:
			full = live + rng.Int63n(4*max+1)
		}
		if full < 0 {
			full = 0
		}
		segs = append(segs, &planSeg{id: idBase + uint64(perm[i]), full: full, live: live})
	}
	return segs
}

type planLogEntry struct {
	ids []uint64
	key int64
}

type planRun struct {
	plan     *mergeplan.MergePlan
	err      error
	log      []planLogEntry
	nan      int
	bargs    *[3]int64
	runaway  bool
	finished bool
	panicked interface{}
}

// generous: the guard only has to end a run that would never return (an infinite loop is
// detected much earlier by the call counter of planCall); the machine may be heavily loaded
const planGuard = 300 * time.Second

// planCall runs mergeplan.Plan under a time guard.  With record, the ScoreSegments and
// CalcBudget fields wrap the package defaults and record every call; a run that asks for more
// scores than (n+2)^2*4+1000 (the loop cannot take more than n iterations of at most n rosters
// when each iteration removes a segment) is stopped and reported as a runaway.
func planCall(segs []*planSeg, o *mergeplan.Options, record bool) *planRun {
	r := &planRun{}
	var oo *mergeplan.Options
	n := len(segs)
	limit := 4*(n+2)*(n+2) + 1000
	calls := 0
	if o != nil {
		c := *o
		oo = &c
		{
			inner := oo.ScoreSegments
			if inner == nil {
				inner = mergeplan.ScoreSegments
			}
			oo.ScoreSegments = func(rs []mergeplan.Segment, opt *mergeplan.Options) float64 {
				calls++
				if calls > limit {
					panic("plan-runaway")
				}
				v := inner(rs, opt)
				if record {
					k, ok := planKey(v)
					if !ok {
						r.nan++
					}
					ids := make([]uint64, len(rs))
					for i, s := range rs {
						ids[i] = s.ID()
					}
					r.log = append(r.log, planLogEntry{ids, k})
				}
				return v
			}
		}
		if record {
			oo.CalcBudget = func(total, first int64, opt *mergeplan.Options) int {
				b := mergeplan.CalcBudget(total, first, opt)
				r.bargs = &[3]int64{total, first, int64(b)}
				return b
			}
		}
	}
	in := planIface(segs)
	r.finished, r.panicked = cq.Guard(planGuard, func() {
		r.plan, r.err = mergeplan.Plan(in, oo)
	})
	if r.panicked == "plan-runaway" {
		r.runaway = true
	}
	return r
}

func planTaskIDs(p *mergeplan.MergePlan) [][]uint64 {
	if p == nil {
		return nil
	}
	out := make([][]uint64, len(p.Tasks))
	for i, t := range p.Tasks {
		out[i] = make([]uint64, len(t.Segments))
		for j, s := range t.Segments {
			out[i][j] = s.ID()
		}
	}
	return out
}

func planSameTasks(a, b *mergeplan.MergePlan) bool {
	if (a == nil) != (b == nil) {
		return false
	}
	x, y := planTaskIDs(a), planTaskIDs(b)
	if len(x) != len(y) {
		return false
	}
	for i := range x {
		if len(x[i]) != len(y[i]) {
			return false
		}
		for j := range x[i] {
			if x[i][j] != y[i][j] {
				return false
			}
		}
	}
	return true
}

func planQ(f float64) string {
	r := new(big.Rat).SetFloat64(f)
	if r == nil {
		r = new(big.Rat)
	}
	num := r.Num().String()
	if r.Num().Sign() < 0 {
		num = "(" + num + ")"
	}
	return fmt.Sprintf("(Qmake %s %s%%positive)", num, r.Denom().String())
}

func planCoqOpts(o *mergeplan.Options) string {
	return fmt.Sprintf("(mkopts %s %s %s %s %s %s)", cq.I(o.MaxSegmentsPerTier), cq.Z(o.MaxSegmentSize),
		planQ(o.TierGrowth), cq.I(o.SegmentsPerMergeTask), cq.Z(o.FloorSegmentSize), planQ(o.ReclaimDeletesWeight))
}

func planCoqSegs(segs []*planSeg) string {
	it := make([]string, len(segs))
	for i, s := range segs {
		it[i] = fmt.Sprintf("(%s,%s,%s)", cq.U(s.id), cq.Z(s.full), cq.Z(s.live))
	}
	return cq.List(it)
}

func planCoqOut(p *mergeplan.MergePlan) string {
	if p == nil {
		return cq.None()
	}
	ts := planTaskIDs(p)
	it := make([]string, len(ts))
	for i, t := range ts {
		it[i] = cq.U64List(t)
	}
	return cq.Some(cq.List(it))
}

func planMetaSegs(segs []*planSeg) [][3]string {
	out := make([][3]string, len(segs))
	for i, s := range segs {
		out[i] = [3]string{fmt.Sprint(s.id), fmt.Sprint(s.full), fmt.Sprint(s.live)}
	}
	return out
}

func planMetaOpts(o *mergeplan.Options) map[string]interface{} {
	if o == nil {
		return nil
	}
	return map[string]interface{}{"MaxSegmentsPerTier": o.MaxSegmentsPerTier, "MaxSegmentSize": o.MaxSegmentSize,
		"TierGrowth": o.TierGrowth, "SegmentsPerMergeTask": o.SegmentsPerMergeTask,
		"FloorSegmentSize": o.FloorSegmentSize, "ReclaimDeletesWeight": o.ReclaimDeletesWeight}
}

func planInput(segs []*planSeg, o *mergeplan.Options) map[string]interface{} {
	// long lists are cut in the report (the key and reason must stay readable); the full list is
	// regenerated by the same seed
	show := segs
	note := ""
	if len(show) > 48 {
		show = show[:48]
		note = fmt.Sprintf("first 48 of %d segments; rerun the engine with the same -seed for the full list", len(segs))
	}
	m := map[string]interface{}{"options": planMetaOpts(o), "segments_id_full_live": planMetaSegs(show)}
	if note != "" {
		m["note"] = note
	}
	return m
}

// planOracle evaluates the well-formedness clauses of the property on one returned plan
// (sane options only).  The text allows a task to hold up to MaxSegmentSize of live data and
// forbids touching a segment above half of it; the code is stricter (< and integer /2), which
// is what the Coq theorems state and the correspondence cases check.
func planOracle(w *cq.Writer, segs []*planSeg, o *mergeplan.Options, p *mergeplan.MergePlan) {
	if p == nil {
		return
	}
	eff := o
	if eff == nil {
		eff = &mergeplan.DefaultMergePlanOptions
	}
	in := map[mergeplan.Segment]bool{}
	for _, s := range segs {
		in[s] = true
	}
	seen := map[mergeplan.Segment]bool{}
	w.OracleEval(4)
	for _, t := range p.Tasks {
		sum := new(big.Int)
		for _, s := range t.Segments {
			if !in[s] {
				w.OracleFail("plan-foreign-segment", "a task contains a segment that is not in the input", planInput(segs, o))
				return
			}
			if seen[s] {
				w.OracleFail("plan-segment-twice", fmt.Sprintf("segment %d is planned twice", s.ID()), planInput(segs, o))
				return
			}
			seen[s] = true
			sum.Add(sum, big.NewInt(s.LiveSize()))
			// above half of the maximum: 2*live > max
			if new(big.Int).Mul(big.NewInt(2), big.NewInt(s.LiveSize())).Cmp(big.NewInt(eff.MaxSegmentSize)) > 0 {
				w.OracleFail("plan-large-segment", fmt.Sprintf("segment %d with live size %d above half of MaxSegmentSize %d is planned", s.ID(), s.LiveSize(), eff.MaxSegmentSize), planInput(segs, o))
				return
			}
		}
		if sum.Cmp(big.NewInt(eff.MaxSegmentSize)) > 0 {
			w.OracleFail("plan-task-too-large", fmt.Sprintf("a task combines %s live data, MaxSegmentSize %d", sum.String(), eff.MaxSegmentSize), planInput(segs, o))
			return
		}
	}
}

// planChecked: Plan with the recording hooks + oracle + determinism; aborts the run on a hang.
func planChecked(w *cq.Writer, rng *rand.Rand, segs []*planSeg, o *mergeplan.Options, record bool) *planRun {
	r := planCall(segs, o, record)
	w.OracleEval(1)
	if !r.finished || r.runaway {
		w.Abort("plan-nontermination", "mergeplan.Plan did not return (time guard / more loop iterations than segments)", planInput(segs, o))
	}
	if r.panicked != nil {
		w.OracleFail("plan-panic", fmt.Sprint(r.panicked), planInput(segs, o))
		return r
	}
	if r.err != nil {
		w.OracleFail("plan-error", r.err.Error(), planInput(segs, o))
		return r
	}
	oo := o
	if oo == nil {
		oo = &mergeplan.DefaultMergePlanOptions
	}
	if planSane(oo) {
		planOracle(w, segs, o, r.plan)
		// same input, same plan
		r2 := planCall(segs, o, false)
		w.OracleEval(1)
		if !r2.finished || r2.runaway {
			w.Abort("plan-nontermination", "mergeplan.Plan did not return on the second call", planInput(segs, o))
		}
		if !planSameTasks(r.plan, r2.plan) {
			w.OracleFail("plan-not-deterministic", "two calls on the same input returned different plans", planInput(segs, o))
		}
	}
	return r
}

func planShuffled(rng *rand.Rand, segs []*planSeg) []*planSeg {
	out := append([]*planSeg(nil), segs...)
	rng.Shuffle(len(out), func(i, j int) { out[i], out[j] = out[j], out[i] })
	return out
}

func planLogTerm(log []planLogEntry) string {
	it := make([]string, len(log))
	for i, e := range log {
		it[i] = cq.Pair(cq.U64List(e.ids), cq.Z(e.key))
	}
	return cq.List(it)
}

func planNumTasks(p *mergeplan.MergePlan) int {
	if p == nil {
		return 0
	}
	return len(p.Tasks)
}

// ---------------------------------------------------------------- histories (sizes only)

type planState struct {
	segs []*planSeg
	next uint64
}

// planApply executes a plan the way merge.go / introducer.go do, on sizes (Plan.v apply_task).
func planApply(st *planState, p *mergeplan.MergePlan) {
	if p == nil {
		return
	}
	for _, t := range p.Tasks {
		if len(t.Segments) == 0 {
			continue
		}
		st.next++
		gone := map[mergeplan.Segment]bool{}
		var sum int64
		kept := 0
		for _, s := range t.Segments {
			gone[s] = true
			if s.LiveSize() != 0 {
				sum += s.LiveSize()
				kept++
			}
		}
		rest := st.segs[:0:0]
		for _, s := range st.segs {
			if !gone[s] && s.live > 0 {
				rest = append(rest, s)
			}
		}
		if kept > 0 {
			rest = append(rest, &planSeg{id: st.next, full: sum, live: sum})
		}
		st.segs = rest
	}
}

func planAllNoop(p *mergeplan.MergePlan) bool {
	if p == nil || len(p.Tasks) == 0 {
		return false
	}
	for _, t := range p.Tasks {
		if !planIsNoop(t) {
			return false
		}
	}
	return true
}

func planIsNoop(t *mergeplan.MergeTask) bool {
	return len(t.Segments) == 1 && t.Segments[0].FullSize() == t.Segments[0].LiveSize() && t.Segments[0].LiveSize() != 0
}

func planSizes(segs []*planSeg) string {
	it := make([]string, len(segs))
	for i, s := range segs {
		it[i] = fmt.Sprintf("%d/%d", s.live, s.full)
	}
	sort.Strings(it)
	return strings.Join(it, ",")
}

func planMeasure(segs []*planSeg) int {
	m := len(segs)
	for _, s := range segs {
		if s.full != s.live {
			m++
		}
	}
	return m
}

// planEligibleStats: number of eligible segments and the budget the planner computes for them.
func planEligibleStats(segs []*planSeg, o *mergeplan.Options) (nElig int, budget int) {
	var total int64
	var min int64 = math.MaxInt64
	for _, s := range segs {
		if s.live < min {
			min = s.live
		}
		if s.live < o.MaxSegmentSize/2 {
			nElig++
			total += s.live
		}
	}
	return nElig, mergeplan.CalcBudget(total, o.RaiseToFloorSegmentSize(min), o)
}

// planLogBound: for an integer growth g >= 2, M*(k+1) for the least k with total < M*first*g^k
// (Coq: budget_log_bound).  ok=false when not applicable.
func planLogBound(total, first int64, o *mergeplan.Options) (int64, bool) {
	g := o.TierGrowth
	if g <= 1 || total < 0 {
		return 0, false
	}
	M := int64(o.MaxSegmentsPerTier)
	if M < 1 {
		M = 1
	}
	if first < 1 {
		first = 1
	}
	// effective growth a/b of the staircase: an integer growth G is G/1; a dyadic growth p/q (q = 2, 4, 8)
	// satisfies floor(t*p/q) >= t*p/q - 1 >= t*(p*first-q)/(q*first) for every t >= first
	// (budget_log_bound / budget_log_bound_rational in Props/C19.v)
	var a, b *big.Int
	if g == math.Floor(g) {
		a, b = big.NewInt(int64(g)), big.NewInt(1)
	} else {
		q := int64(0)
		for _, d := range []int64{2, 4, 8} {
			if g*float64(d) == math.Floor(g*float64(d)) {
				q = d
				break
			}
		}
		if q == 0 {
			return 0, false
		}
		pn := int64(g * float64(q))
		a = new(big.Int).Sub(new(big.Int).Mul(big.NewInt(pn), big.NewInt(first)), big.NewInt(q))
		b = new(big.Int).Mul(big.NewInt(q), big.NewInt(first))
		if a.Cmp(b) <= 0 {
			return 0, false // the tiers need not grow at all (e.g. growth 1.5 on a first tier of 1)
		}
	}
	// smallest k with total*b^k < M*first*a^k
	lhs := big.NewInt(total)
	rhs := new(big.Int).Mul(big.NewInt(M), big.NewInt(first))
	k := int64(0)
	for lhs.Cmp(rhs) >= 0 {
		lhs.Mul(lhs, b)
		rhs.Mul(rhs, a)
		k++
		if k > 4000 {
			return 0, false
		}
	}
	return M * (k + 1), true
}

type planHistResult struct {
	quiescent bool
	noopFix   bool
	cycles    int
	nElig     int
	budget    int
	noops     int
}

// planSettle iterates plan/apply from st until an empty plan, a fixpoint made of no-op tasks,
// or the cycle bound measure+3 of convergence_partial.
func planSettle(w *cq.Writer, st *planState, o *mergeplan.Options, rng *rand.Rand) planHistResult {
	res := planHistResult{}
	bound := planMeasure(st.segs) + 3
	for c := 0; c <= bound; c++ {
		r := planChecked(w, rng, st.segs, o, false)
		if r.plan == nil || len(r.plan.Tasks) == 0 {
			res.quiescent = true
			res.cycles = c
			res.nElig, res.budget = planEligibleStats(st.segs, o)
			return res
		}
		allNoop := true
		for _, t := range r.plan.Tasks {
			if planIsNoop(t) {
				res.noops++
			} else {
				allNoop = false
			}
		}
		before := planSizes(st.segs)
		planApply(st, r.plan)
		if allNoop && planSizes(st.segs) == before {
			res.noopFix = true
			res.cycles = c
			return res
		}
	}
	res.cycles = bound + 1
	return res
}

func planHistory(w *cq.Writer, rng *rand.Rand, o *mergeplan.Options, batches int, tag string) {
	st := &planState{next: 1}
	maxDuring := 0
	for b := 0; b < batches; b++ {
		// a batch arrives as one new small segment
		sz := 1 + rng.Int63n(o.FloorSegmentSize*2+50)
		if rng.Intn(20) == 0 {
			sz = 1 + rng.Int63n(o.MaxSegmentSize/4+1)
		}
		st.next++
		st.segs = append(st.segs, &planSeg{id: st.next, full: sz, live: sz})
		// deletions
		if len(st.segs) > 0 && rng.Intn(3) == 0 {
			s := st.segs[rng.Intn(len(st.segs))]
			d := rng.Int63n(s.live/2 + 2)
			if d > s.live {
				d = s.live
			}
			// the planner sees immutable snapshots: replace the segment value
			ns := &planSeg{id: s.id, full: s.full, live: s.live - d}
			for i := range st.segs {
				if st.segs[i] == s {
					st.segs[i] = ns
				}
			}
		}
		if rng.Intn(2) == 0 { // the merger gets a turn
			r := planChecked(w, rng, st.segs, o, false)
			if planAllNoop(r.plan) {
				// a fixpoint of no-op tasks: nothing will ever be merged again, the list would
				// only grow (and every further Plan call costs n^2 scores); settle now
				break
			}
			planApply(st, r.plan)
		}
		if len(st.segs) > maxDuring {
			maxDuring = len(st.segs)
		}
	}
	res := planSettle(w, st, o, rng)
	w.Count("hist:"+tag, 1)
	w.Count("hist_cycles_to_settle", res.cycles)
	w.Count("hist_noop_tasks", res.noops)
	w.OracleEval(2)
	in := map[string]interface{}{"options": planMetaOpts(o), "batches": batches, "final_live/full": planSizes(st.segs)}
	switch {
	case res.noopFix:
		key := "noop-single-segment-task"
		if o.SegmentsPerMergeTask == 1 {
			key = "noop-task-segments-per-merge-task-1"
		}
		w.Count("hist_noop_fixpoint", 1)
		w.OracleFail(key, "the planner returns forever the same plan of single-segment tasks without deletions: the merger rewrites these segments on every cycle and never reaches a state with no further work", in)
	case !res.quiescent:
		w.OracleFail("plan-no-convergence", "no empty plan within #segments+#segments-with-deletions+3 cycles after the arrivals stopped", in)
	default:
		lim := res.budget
		if lim < 1 {
			lim = 1
		}
		if res.nElig > lim {
			w.OracleFail("plan-over-budget", fmt.Sprintf("%d mergeable segments at the end, budget %d", res.nElig, res.budget), in)
		}
		if res.nElig > maxDuring {
			maxDuring = res.nElig
		}
		w.Count(fmt.Sprintf("hist_final_eligibles_b%d", batches), res.nElig)
		w.Count(fmt.Sprintf("hist_final_budget_b%d", batches), res.budget)
	}
}

// ---------------------------------------------------------------- engine

// planPhase prints the time spent since the previous call when PLAN_TRACE is set.
var planPhaseStart = time.Now()

func planPhase(name string) {
	if os.Getenv("PLAN_TRACE") != "" {
		fmt.Fprintf(os.Stderr, "plan: %-28s %v\n", name, time.Since(planPhaseStart).Round(time.Millisecond))
	}
	planPhaseStart = time.Now()
}

func runPlan(o Opts) error {
	rng := rand.New(rand.NewSource(o.Seed))
	w := cq.New(o.Out, "From Coq Require Import QArith.\nFrom Bluge Require Import Base.Res MergePlan.Budget MergePlan.Plan MergePlan.PlanCorr.", "pcase", 64)
	scale := 1
	if o.Thorough() {
		scale = 10
	}

	// ---- CBudget: CalcBudget on its own grid (inside the exactness domain of the Z/Q model:
	// total, first < 2^40, M <= 2^10, dyadic growth <= 16; at most ~5000 loop iterations)
	totals := []int64{-5, 0, 1, 2, 3, 9, 10, 11, 99, 100, 101, 1999, 2000, 2001, 20000, 22222, 1000000, 4999999, 5000000,
		123456789, 1 << 31, 1<<40 - 1}
	firsts := []int64{-3, 0, 1, 2, 3, 7, 10, 100, 2000, 2001, 65536, 5000000, 1<<40 - 1}
	ms := []int{-1, 0, 1, 2, 3, 7, 10, 20, 1000, 1024}
	budgetCase := func(total, first int64, M int, g float64) {
		tier := first
		if tier < 1 {
			tier = 1
		}
		mm := int64(M)
		if mm < 1 {
			mm = 1
		}
		if total > 0 && (g < 2 || tier < 4) && total/(mm*tier) > 5000 {
			w.Count("budget_skipped_long_staircase", 1)
			return
		}
		opt := mergeplan.Options{MaxSegmentsPerTier: M, TierGrowth: g}
		var b int
		fin, pan := cq.Guard(planGuard, func() { b = mergeplan.CalcBudget(total, first, &opt) })
		if !fin {
			w.Abort("budget-nontermination", "CalcBudget did not return", map[string]interface{}{"total": total, "first": first, "M": M, "g": g})
		}
		if pan != nil {
			w.OracleFail("budget-panic", fmt.Sprint(pan), map[string]interface{}{"total": total, "first": first, "M": M, "g": g})
			return
		}
		w.Add(fmt.Sprintf("CBudget %s %s %s %s %s", cq.Z(total), cq.Z(first), cq.I(M), planQ(g), cq.I(b)), "budget", b > 0,
			map[string]interface{}{"total": total, "first": first, "M": M, "g": g, "out": b})
		// the logarithmic bound proved in Coq (budget_log_bound), on the implementation
		if lb, ok := planLogBound(total, first, &opt); ok {
			w.OracleEval(1)
			if int64(b) > lb {
				w.OracleFail("budget-above-log-bound", fmt.Sprintf("CalcBudget = %d above M*(k+1) = %d", b, lb), map[string]interface{}{"total": total, "first": first, "M": M, "g": g})
			}
		}
	}
	for i, total := range totals {
		for j, first := range firsts {
			if (i+j)%2 == int(o.Seed&1) && !o.Thorough() {
				continue
			}
			budgetCase(total, first, ms[rng.Intn(len(ms))], planGrowths[rng.Intn(len(planGrowths))])
		}
	}
	for i := 0; i < 350*scale; i++ {
		total := rng.Int63n(1 << uint(1+rng.Intn(40)))
		first := rng.Int63n(1 << uint(1+rng.Intn(24)))
		if rng.Intn(4) == 0 {
			first = rng.Int63n(5)
		}
		M := 1 + rng.Intn(20)
		if rng.Intn(10) == 0 {
			M = ms[rng.Intn(len(ms))]
		}
		budgetCase(total, first, M, planGrowths[rng.Intn(len(planGrowths))])
	}
	// the witness of budget_log_bound_fractional_refuted replayed on the implementation:
	// with growth 1.5 and a first tier of 1 the staircase never grows (int64(1*1.5) = 1)
	{
		opt := mergeplan.Options{MaxSegmentsPerTier: 1, TierGrowth: 1.5}
		b := mergeplan.CalcBudget(100, 1, &opt)
		budgetCase(100, 1, 1, 1.5)
		if b == 100 {
			w.Count("obs_budget_linear_for_fractional_growth(total=100,first=1,M=1,g=1.5)=100", 1)
		}
	}

	planPhase("budget cases")
	// ---- CPlanT: recorded default score (table), small and medium lists
	nT := 260 * scale
	for i := 0; i < nT; i++ {
		mode := 0
		if i%7 == 6 {
			mode = 1
		}
		opt := planGenOpts(rng, mode)
		var n int
		switch rng.Intn(10) {
		case 0:
			n = rng.Intn(3)
		case 1, 2:
			n = 40 + rng.Intn(50)
		default:
			n = 2 + rng.Intn(30)
		}
		style := rng.Intn(7)
		segs := planGenSegs(rng, n, &opt, style, mode == 1 || rng.Intn(12) == 0)
		planTableCase(w, rng, segs, &opt, fmt.Sprintf("style%d", style))
		if i%10 == 0 { // the same segments in another order: the model is proved permutation-invariant
			planTableCase(w, rng, planShuffled(rng, segs), &opt, "shuffled")
		}
	}
	planPhase("table cases")
	// o == nil: the defaults; the table comes from a hooked run with a copy of the defaults
	for i := 0; i < 30*scale; i++ {
		def := mergeplan.DefaultMergePlanOptions
		n := rng.Intn(45)
		segs := planGenSegs(rng, n, &def, []int{1, 5, 1, 2, 6}[rng.Intn(5)], false)
		if rng.Intn(2) == 0 { // many tiny segments: over budget with the default options
			for _, s := range segs {
				s.live = s.live % 3000
				s.full = s.live + s.full%2*(s.live/3)
			}
		}
		hooked := planCall(segs, &def, true)
		if !hooked.finished || hooked.runaway {
			w.Abort("plan-nontermination", "mergeplan.Plan did not return", planInput(segs, &def))
		}
		r := planChecked(w, rng, segs, nil, false)
		if hooked.nan > 0 || r.panicked != nil || r.err != nil {
			w.Count("plan_nan_or_failed_skipped", 1)
			continue
		}
		w.Add(fmt.Sprintf("CPlanT None %s %s %s %s", planCoqSegs(segs), planLogTerm(hooked.log), planBargs(hooked.bargs), planCoqOut(r.plan)),
			"plan-nil-options", planNumTasks(r.plan) > 0, map[string]interface{}{"input": planInput(segs, nil), "out": planTaskIDs(r.plan)})
		w.Count(fmt.Sprintf("tasks:%s", planBucket(planNumTasks(r.plan))), 1)
	}

	planPhase("nil-options cases")
	// ---- CPlanS: synthetic integer score, larger lists
	primes := []uint{1, 2, 3, 7, 16, 30}
	nS := 80 * scale
	nBig := 0
	for i := 0; i < nS; i++ {
		if i%40 == 0 {
			// thousands of segments (one per shard: the model costs ~n*SegmentsPerMergeTask steps
			// per loop iteration): mostly tiny sizes against a large maximum, far over budget
			opt := mergeplan.DefaultMergePlanOptions
			n := 1000 + rng.Intn(600)
			switch nBig % 3 {
			case 1:
				opt.MaxSegmentsPerTier = 12 + rng.Intn(9)
				opt.SegmentsPerMergeTask = 8 + rng.Intn(5)
				opt.TierGrowth = []float64{2, 4, 8}[rng.Intn(3)]
				n = 1800 + rng.Intn(500)
			case 2: // a wide staircase: a large budget, fewer loop iterations
				opt.MaxSegmentsPerTier = 600 + rng.Intn(300)
				opt.SegmentsPerMergeTask = 12
				n = 3000 + rng.Intn(1000)
			}
			nBig++
			segs := planGenSegs(rng, n, &opt, 1, false)
			for _, s := range segs {
				if rng.Intn(8) != 0 {
					s.live = s.live % 5000
					s.full = s.live + (s.full % 2 * (s.live / 2))
				}
			}
			planSynCase(w, rng, segs, &opt, primes[3+rng.Intn(3)], "thousands")
			continue
		}
		mode := 0
		if i%9 == 8 {
			mode = 1
		}
		opt := planGenOpts(rng, mode)
		n := 2 + rng.Intn(150)
		style := rng.Intn(7)
		if i%20 == 10 { // a few hundred, in the shapes where rosters fill up quickly
			n = 300 + rng.Intn(300)
			style = []int{1, 5, 6}[rng.Intn(3)]
		}
		segs := planGenSegs(rng, n, &opt, style, mode == 1)
		planSynCase(w, rng, segs, &opt, primes[rng.Intn(len(primes))], fmt.Sprintf("style%d", style))
	}
	planPhase("synthetic cases")
	// ---- simulated histories: arrivals, deletions, plan executions, then settle
	nH := 24 * scale
	for i := 0; i < nH; i++ {
		opt := mergeplan.DefaultMergePlanOptions
		tag := "default-options"
		if i%3 != 0 {
			opt = planGenOpts(rng, 0)
			tag = "generated-options"
		}
		if opt.MaxSegmentSize < 50 {
			opt.MaxSegmentSize = 50 + int64(rng.Intn(1000))
		}
		batches := []int{30, 120, 480}[i%3]
		if o.Thorough() && i%10 == 0 {
			batches = 3000
		}
		planHistory(w, rng, &opt, batches, tag)
	}
	planPhase("histories")
	// geometric size progressions with small option values: where a single segment is the
	// best roster (candidate no-op plans)
	for i := 0; i < 40*scale; i++ {
		opt := mergeplan.DefaultMergePlanOptions
		opt.MaxSegmentsPerTier = 1 + rng.Intn(2)
		opt.SegmentsPerMergeTask = 2 + rng.Intn(3)
		opt.TierGrowth = []float64{10, 16, 16, 8}[rng.Intn(4)]
		opt.FloorSegmentSize = []int64{0, 0, 1, 2000}[rng.Intn(4)]
		opt.MaxSegmentSize = mergeplan.MaxSegmentSizeLimit
		st := &planState{next: 100}
		ratio := int64(4 + rng.Intn(14))
		sz := int64(1 + rng.Intn(3))
		if opt.FloorSegmentSize > 1 {
			sz = opt.FloorSegmentSize
		}
		for sz < opt.MaxSegmentSize/2 {
			st.next++
			st.segs = append(st.segs, &planSeg{id: st.next, full: sz, live: sz})
			sz *= ratio
		}
		start := planSizes(st.segs)
		res := planSettle(w, st, &opt, rng)
		w.Count("geometric_histories", 1)
		w.OracleEval(1)
		if res.noopFix {
			w.Count("geometric_noop_fixpoint", 1)
			w.OracleFail("noop-single-segment-task", "the planner returns forever the same plan of single-segment tasks without deletions (SegmentsPerMergeTask >= 2)",
				map[string]interface{}{"options": planMetaOpts(&opt), "segments_live/full": start})
		} else if !res.quiescent {
			w.OracleFail("plan-no-convergence", "no empty plan within the cycle bound", map[string]interface{}{"options": planMetaOpts(&opt), "segments_live/full": start})
		}
	}

	planPhase("geometric histories")
	// ---- the same plan for the same input, whatever was planned before with the same options value
	planHistoryIndependence(w, rng, 40*scale)
	// ---- plans made and executed by a real index.Writer (plan_writer.go)
	wruns, wbatches := 3, 30
	if o.Thorough() {
		wruns, wbatches = 12, 60
	}
	if err := planWriterCases(w, rng, wruns, wbatches); err != nil {
		w.Close()
		return err
	}
	w.Close()
	planPhase("writing shards")
	return nil
}

func planBucket(n int) string {
	switch {
	case n == 0:
		return "0"
	case n == 1:
		return "1"
	case n <= 4:
		return "2-4"
	case n <= 16:
		return "5-16"
	default:
		return "17+"
	}
}

func planBargs(b *[3]int64) string {
	if b == nil {
		return cq.None()
	}
	return cq.Some(fmt.Sprintf("(%s,%s,%s)", cq.Z(b[0]), cq.Z(b[1]), cq.Z(b[2])))
}

func planCountInput(w *cq.Writer, segs []*planSeg, o *mergeplan.Options, p *mergeplan.MergePlan) {
	w.Count("segments:"+planBucket(len(segs)), 1)
	w.Count("tasks:"+planBucket(planNumTasks(p)), 1)
	if p == nil {
		w.Count("plan_nil", 1)
	}
	if !planSane(o) {
		w.Count("options_degenerate(correspondence only)", 1)
	}
	for _, s := range segs {
		switch {
		case s.live < 0:
			w.Count("seg_negative_live", 1)
		case s.live == 0:
			w.Count("seg_zero_live", 1)
		case s.live >= o.MaxSegmentSize && o.MaxSegmentSize > 0:
			w.Count("seg_at_or_beyond_max", 1)
		case s.live >= o.MaxSegmentSize/2 && o.MaxSegmentSize > 0:
			w.Count("seg_between_half_and_max", 1)
		}
		if s.full != s.live {
			w.Count("seg_with_deletions", 1)
		}
	}
}

func planTableCase(w *cq.Writer, rng *rand.Rand, segs []*planSeg, opt *mergeplan.Options, kind string) {
	r := planChecked(w, rng, segs, opt, true)
	if r.panicked != nil || r.err != nil {
		return
	}
	if r.nan > 0 {
		w.Count("plan_nan_score_skipped", 1)
		return
	}
	if len(r.log) > 2500 {
		w.Count("plan_table_too_large_skipped", 1)
		return
	}
	planCountInput(w, segs, opt, r.plan)
	w.Count("score_calls", len(r.log))
	w.Add(fmt.Sprintf("CPlanT (Some %s) %s %s %s %s", planCoqOpts(opt), planCoqSegs(segs), planLogTerm(r.log), planBargs(r.bargs), planCoqOut(r.plan)),
		"plan-table:"+kind, planNumTasks(r.plan) > 0, map[string]interface{}{"input": planInput(segs, opt), "out": planTaskIDs(r.plan)})
}

func planSynCase(w *cq.Writer, rng *rand.Rand, segs []*planSeg, opt *mergeplan.Options, p uint, kind string) {
	for _, s := range segs { // the synthetic score needs small ids
		s.id &= 1<<32 - 1
	}
	oo := *opt
	oo.ScoreSegments = planSynScore(p)
	r := planChecked(w, rng, segs, &oo, false)
	if r.panicked != nil || r.err != nil {
		return
	}
	planCountInput(w, segs, opt, r.plan)
	w.Add(fmt.Sprintf("CPlanS %s %s %s %s", planCoqOpts(opt), planCoqSegs(segs), cq.I(int(p)), planCoqOut(r.plan)),
		"plan-synthetic:"+kind, planNumTasks(r.plan) > 0, map[string]interface{}{"input": planInput(segs, opt), "p": p, "out_tasks": planNumTasks(r.plan)})
}
