package engines

// Engine `analysis` (C18): analysis is total, deterministic and offset-correct on any bytes.
//
// (a) exactly modelled components (character/letter/whitespace/single tokenizers; length,
//     truncate, stop, unique, keyword, lowercase, n-gram, edge n-gram, reverse, apostrophe,
//     elision, shingle filters; TokenFrequency; Document.Analyze): the observed output is written
//     into a Coq case that Analysis/AnalysisCorr.v recomputes with the model;
// (b) every bundled analyzer is run stage by stage (CharFilters, Tokenizer, TokenFilters) and
//     every other bundled tokenizer / token filter / char filter is called directly; each
//     recorded stage goes through the Coq contract checker (CRun / CStage / CPure);
// (c) MatchQuery (operator AND) round trip on a one-document in-memory index.
// The oracle evaluates the clauses of the property directly on the implementation.

import (
	"bytes"
	"context"
	"fmt"
	"math/rand"
	"regexp"
	"sort"
	"strings"
	"time"
	"unicode"
	"unicode/utf8"

	"golang.org/x/text/unicode/norm"

	"github.com/blugelabs/bluge"
	"github.com/blugelabs/bluge/analysis"
	"github.com/blugelabs/bluge/analysis/analyzer"
	"github.com/blugelabs/bluge/analysis/char"
	"github.com/blugelabs/bluge/analysis/lang/ar"
	"github.com/blugelabs/bluge/analysis/lang/bg"
	"github.com/blugelabs/bluge/analysis/lang/ca"
	"github.com/blugelabs/bluge/analysis/lang/cjk"
	"github.com/blugelabs/bluge/analysis/lang/ckb"
	"github.com/blugelabs/bluge/analysis/lang/cs"
	"github.com/blugelabs/bluge/analysis/lang/da"
	"github.com/blugelabs/bluge/analysis/lang/de"
	"github.com/blugelabs/bluge/analysis/lang/el"
	"github.com/blugelabs/bluge/analysis/lang/en"
	"github.com/blugelabs/bluge/analysis/lang/es"
	"github.com/blugelabs/bluge/analysis/lang/eu"
	"github.com/blugelabs/bluge/analysis/lang/fa"
	"github.com/blugelabs/bluge/analysis/lang/fi"
	"github.com/blugelabs/bluge/analysis/lang/fr"
	"github.com/blugelabs/bluge/analysis/lang/ga"
	"github.com/blugelabs/bluge/analysis/lang/gl"
	"github.com/blugelabs/bluge/analysis/lang/hi"
	"github.com/blugelabs/bluge/analysis/lang/hu"
	"github.com/blugelabs/bluge/analysis/lang/hy"
	"github.com/blugelabs/bluge/analysis/lang/id"
	indic "github.com/blugelabs/bluge/analysis/lang/in"
	"github.com/blugelabs/bluge/analysis/lang/it"
	"github.com/blugelabs/bluge/analysis/lang/nl"
	"github.com/blugelabs/bluge/analysis/lang/no"
	"github.com/blugelabs/bluge/analysis/lang/pt"
	"github.com/blugelabs/bluge/analysis/lang/ro"
	"github.com/blugelabs/bluge/analysis/lang/ru"
	"github.com/blugelabs/bluge/analysis/lang/sv"
	"github.com/blugelabs/bluge/analysis/lang/tr"
	"github.com/blugelabs/bluge/analysis/token"
	"github.com/blugelabs/bluge/analysis/tokenizer"

	"verif/harness/cq"
)

func init() { Registry["analysis"] = runAnalysis }

// ---------------------------------------------------------------- bundled components

type analysisEntry struct {
	name string
	mk   func() *analysis.Analyzer
}

// every exported constructor returning *analysis.Analyzer under analysis/analyzer and analysis/lang/*
func analysisBundledAnalyzers() []analysisEntry {
	return []analysisEntry{
		{"keyword", analyzer.NewKeywordAnalyzer}, {"simple", analyzer.NewSimpleAnalyzer},
		{"standard", analyzer.NewStandardAnalyzer}, {"web", analyzer.NewWebAnalyzer},
		{"ar", ar.Analyzer}, {"cjk", cjk.Analyzer}, {"ckb", ckb.Analyzer}, {"da", da.Analyzer},
		{"de", de.Analyzer}, {"en", en.NewAnalyzer}, {"es", es.Analyzer}, {"fa", fa.Analyzer},
		{"fi", fi.Analyzer}, {"fr", fr.Analyzer}, {"hi", hi.Analyzer}, {"hu", hu.Analyzer},
		{"it", it.Analyzer}, {"nl", nl.Analyzer}, {"no", no.Analyzer}, {"pt", pt.Analyzer},
		{"ro", ro.Analyzer}, {"ru", ru.Analyzer}, {"sv", sv.Analyzer}, {"tr", tr.Analyzer},
	}
}

type analysisTkEntry struct {
	name string
	mk   func() analysis.Tokenizer
}

func analysisBundledTokenizers() []analysisTkEntry {
	return []analysisTkEntry{
		{"unicode", func() analysis.Tokenizer { return tokenizer.NewUnicodeTokenizer() }},
		{"letter", func() analysis.Tokenizer { return tokenizer.NewLetterTokenizer() }},
		{"whitespace", func() analysis.Tokenizer { return tokenizer.NewWhitespaceTokenizer() }},
		{"single", func() analysis.Tokenizer { return tokenizer.NewSingleTokenTokenizer() }},
		{"web", func() analysis.Tokenizer { return tokenizer.NewWebTokenizer() }},
		{"character-digit", func() analysis.Tokenizer { return tokenizer.NewCharacterTokenizer(unicode.IsDigit) }},
		{"regexp-w", func() analysis.Tokenizer { return tokenizer.NewRegexpTokenizer(regexp.MustCompile(`\w+`)) }},
		{"regexp-S", func() analysis.Tokenizer { return tokenizer.NewRegexpTokenizer(regexp.MustCompile(`\S+`)) }},
		{"regexp-empty", func() analysis.Tokenizer { return tokenizer.NewRegexpTokenizer(regexp.MustCompile(`[a-z]*`)) }},
		{"exception", func() analysis.Tokenizer {
			return tokenizer.NewExceptionsTokenizer(regexp.MustCompile(`[A-Z]\.[A-Z]\.|\d+-\d+`), tokenizer.NewUnicodeTokenizer())
		}},
		{"exception-ws", func() analysis.Tokenizer {
			return tokenizer.NewExceptionsTokenizer(regexp.MustCompile(`\S+@\S+`), tokenizer.NewWhitespaceTokenizer())
		}},
	}
}

type analysisCfEntry struct {
	name string
	mk   func() analysis.CharFilter
}

func analysisBundledCharFilters() []analysisCfEntry {
	return []analysisCfEntry{
		{"asciifolding", func() analysis.CharFilter { return char.NewASCIIFoldingFilter() }},
		{"html", func() analysis.CharFilter { return char.NewHTMLCharFilter() }},
		{"zwnj", func() analysis.CharFilter { return char.NewZeroWidthNonJoinerCharFilter() }},
		{"regexp-digits", func() analysis.CharFilter {
			return char.NewRegexpCharFilter(regexp.MustCompile(`[0-9]+`), []byte("#"))
		}},
		{"regexp-grow", func() analysis.CharFilter {
			return char.NewRegexpCharFilter(regexp.MustCompile(`[aeiou]`), []byte("<$0$0>"))
		}},
		{"regexp-delete", func() analysis.CharFilter {
			return char.NewRegexpCharFilter(regexp.MustCompile(`\s+`), []byte(""))
		}},
	}
}

type analysisTfEntry struct {
	name string
	mk   func() analysis.TokenFilter
	lang string // script hint for the generator
}

func analysisTokenMapOf(words ...string) analysis.TokenMap {
	m := analysis.NewTokenMap()
	for _, w := range words {
		m.AddToken(w)
	}
	return m
}

var analysisCompoundDict = []string{"soft", "ball", "fuss", "fuß", "boll", "klub", "ab", "ba", "abba", "футбол", "мяч", "字", "漢字", "الله", "a", "ﬁ"}

// every exported token-filter constructor that is not modelled exactly (the exact ones are
// exercised separately, over their parameter ranges)
func analysisBundledTokenFilters() []analysisTfEntry {
	f := func(name, lang string, mk func() analysis.TokenFilter) analysisTfEntry {
		return analysisTfEntry{name, mk, lang}
	}
	out := []analysisTfEntry{
		f("ar.Normalize", "ar", func() analysis.TokenFilter { return ar.NormalizeFilter() }),
		f("ar.Stemmer", "ar", func() analysis.TokenFilter { return ar.StemmerFilter() }),
		f("cjk.Bigram(false)", "cjk", func() analysis.TokenFilter { return cjk.NewBigramFilter(false) }),
		f("cjk.Bigram(true)", "cjk", func() analysis.TokenFilter { return cjk.NewBigramFilter(true) }),
		f("cjk.Width", "cjk", func() analysis.TokenFilter { return cjk.NewWidthFilter() }),
		f("ckb.Normalize", "ckb", func() analysis.TokenFilter { return ckb.NormalizeFilter() }),
		f("ckb.Stemmer", "ckb", func() analysis.TokenFilter { return ckb.StemmerFilter() }),
		f("da.Stemmer", "da", func() analysis.TokenFilter { return da.StemmerFilter() }),
		f("de.Normalize", "de", func() analysis.TokenFilter { return de.NormalizeFilter() }),
		f("de.LightStemmer", "de", func() analysis.TokenFilter { return de.LightStemmerFilter() }),
		f("de.Stemmer", "de", func() analysis.TokenFilter { return de.StemmerFilter() }),
		f("en.Possessive", "en", func() analysis.TokenFilter { return en.NewPossessiveFilter() }),
		f("en.Stemmer", "en", func() analysis.TokenFilter { return en.StemmerFilter() }),
		f("es.LightStemmer", "es", func() analysis.TokenFilter { return es.LightStemmerFilter() }),
		f("es.Stemmer", "es", func() analysis.TokenFilter { return es.StemmerFilter() }),
		f("fa.Normalize", "fa", func() analysis.TokenFilter { return fa.NormalizeFilter() }),
		f("fi.Stemmer", "fi", func() analysis.TokenFilter { return fi.StemmerFilter() }),
		f("fr.LightStemmer", "fr", func() analysis.TokenFilter { return fr.LightStemmerFilter() }),
		f("fr.MinimalStemmer", "fr", func() analysis.TokenFilter { return fr.MinimalStemmerFilter() }),
		f("fr.Stemmer", "fr", func() analysis.TokenFilter { return fr.StemmerFilter() }),
		f("hi.Normalize", "hi", func() analysis.TokenFilter { return hi.NormalizeFilter() }),
		f("hi.Stemmer", "hi", func() analysis.TokenFilter { return hi.StemmerFilter() }),
		f("hu.Stemmer", "hu", func() analysis.TokenFilter { return hu.StemmerFilter() }),
		f("in.Normalize", "hi", func() analysis.TokenFilter { return indic.NormalizeFilter() }),
		f("it.LightStemmer", "it", func() analysis.TokenFilter { return it.LightStemmerFilter() }),
		f("it.Stemmer", "it", func() analysis.TokenFilter { return it.StemmerFilter() }),
		f("nl.Stemmer", "nl", func() analysis.TokenFilter { return nl.StemmerFilter() }),
		f("no.Stemmer", "no", func() analysis.TokenFilter { return no.StemmerFilter() }),
		f("pt.LightStemmer", "pt", func() analysis.TokenFilter { return pt.LightStemmerFilter() }),
		f("ro.Stemmer", "ro", func() analysis.TokenFilter { return ro.StemmerFilter() }),
		f("ru.Stemmer", "ru", func() analysis.TokenFilter { return ru.StemmerFilter() }),
		f("sv.Stemmer", "sv", func() analysis.TokenFilter { return sv.StemmerFilter() }),
		f("tr.Stemmer", "tr", func() analysis.TokenFilter { return tr.StemmerFilter() }),
		f("Porter", "en", func() analysis.TokenFilter { return token.NewPorterStemmer() }),
		f("CamelCase", "en", func() analysis.TokenFilter { return token.NewCamelCaseFilter() }),
		f("DictCompound(all)", "de", func() analysis.TokenFilter {
			return token.NewDictionaryCompoundFilter(analysisTokenMapOf(analysisCompoundDict...), 3, 1, 15, false)
		}),
		f("DictCompound(longest)", "de", func() analysis.TokenFilter {
			return token.NewDictionaryCompoundFilter(analysisTokenMapOf(analysisCompoundDict...), 5, 2, 15, true)
		}),
		f("UnicodeNormalize(NFC)", "", func() analysis.TokenFilter { return token.NewUnicodeNormalizeFilter(norm.NFC) }),
		f("UnicodeNormalize(NFD)", "", func() analysis.TokenFilter { return token.NewUnicodeNormalizeFilter(norm.NFD) }),
		f("UnicodeNormalize(NFKC)", "", func() analysis.TokenFilter { return token.NewUnicodeNormalizeFilter(norm.NFKC) }),
		f("UnicodeNormalize(NFKD)", "", func() analysis.TokenFilter { return token.NewUnicodeNormalizeFilter(norm.NFKD) }),
	}
	return out
}

type analysisStopEntry struct {
	lang string
	mk   func() *token.StopTokensFilter
}

func analysisBundledStopFilters() []analysisStopEntry {
	return []analysisStopEntry{
		{"ar", ar.StopWordsFilter}, {"bg", bg.StopWordsFilter}, {"ca", ca.StopWordsFilter}, {"ckb", ckb.StopWordsFilter},
		{"cs", cs.StopWordsFilter}, {"da", da.StopWordsFilter}, {"de", de.StopWordsFilter}, {"el", el.StopWordsFilter},
		{"en", en.StopWordsFilter}, {"es", es.StopWordsFilter}, {"eu", eu.StopWordsFilter}, {"fa", fa.StopWordsFilter},
		{"fi", fi.StopWordsFilter}, {"fr", fr.StopWordsFilter}, {"ga", ga.StopWordsFilter}, {"gl", gl.StopWordsFilter},
		{"hi", hi.StopWordsFilter}, {"hu", hu.StopWordsFilter}, {"hy", hy.StopWordsFilter}, {"id", id.StopWordsFilter},
		{"it", it.StopWordsFilter}, {"nl", nl.StopWordsFilter}, {"no", no.StopWordsFilter}, {"pt", pt.StopWordsFilter},
		{"ro", ro.StopWordsFilter}, {"ru", ru.StopWordsFilter}, {"sv", sv.StopWordsFilter}, {"tr", tr.StopWordsFilter},
	}
}

type analysisElisionEntry struct {
	lang string
	mk   func() *token.ElisionFilter
}

func analysisBundledElisionFilters() []analysisElisionEntry {
	return []analysisElisionEntry{{"fr", fr.ElisionFilter}, {"it", it.ElisionFilter}, {"ca", ca.ElisionFilter}, {"ga", ga.ElisionFilter}}
}

// ---------------------------------------------------------------- generators

var analysisVocab = map[string][]string{
	"en": {"The", "quick", "brown", "foxes", "jumped", "over", "lazy", "dog's", "dogs’", "running", "relational", "conditional",
		"happiness", "and", "is", "a", "John's", "O'Neil", "CamelCaseHTTPServer2Go", "x86_64", "user@example.com",
		"http://example.com/a?b=c", "#hashTag", "@handle", "3.14", "1,000", "U.S.A.", "don't", "ISBN-13", "KELVIN", "s", "'s", "S"},
	"fr": {"l'avion", "L'Avion", "d’été", "qu'il", "jusqu'à", "aujourd'hui", "les", "chevaux", "nationale", "mangeaient", "heureusement",
		"être", "garçon", "œuvre", "l'", "'l", "l''a", "c'est", "tristesses", "baronnes", "journaux"},
	"it":  {"dell'Italia", "un'altra", "all’ora", "ragazzi", "abbandonata", "città", "perché", "gli", "nazionale", "propaganda"},
	"ca":  {"l'Hospitalet", "d'Història", "s'ha", "però", "això", "català"},
	"ga":  {"b'fhearr", "d'fhág", "m'athair", "n-athair", "agus", "Éire"},
	"de":  {"Fußball", "Softballklub", "Straße", "Mädchen", "Häuser", "über", "und", "der", "Abfahrtszeiten", "ÜBERGRÖSSE", "weiß", "aeoeue"},
	"es":  {"niños", "corazón", "habitaciones", "rápidamente", "el", "la", "canción", "chicos", "mujeres", "países"},
	"pt":  {"nações", "coração", "quilométricas", "também", "não", "irmãos", "papéis"},
	"nl":  {"lichamelijk", "opgeheven", "kinderen", "het", "een", "vrijheid", "ijs"},
	"da":  {"undersøgelse", "også", "være", "børnene", "og", "abrahamsen"},
	"no":  {"havnedistriktene", "også", "være", "barna", "og"},
	"sv":  {"abborrens", "också", "vara", "flickorna", "och", "jaktkarlarne"},
	"fi":  {"edeltäjiinsä", "myös", "olla", "kirjoissa", "ja", "hyvä"},
	"hu":  {"babakocsi", "babakocsijáért", "és", "egy", "házakban", "őrült"},
	"ro":  {"absenţa", "absentă", "şi", "copiilor", "în", "țară", "abruptă"},
	"tr":  {"İstanbul", "ISPARTA", "çocukları", "Ankara'da", "Türkiye’nin", "ve", "ağacı", "kitapçığınızdan", "ı", "İ"},
	"ru":  {"Вместе", "с", "тем", "о", "силе", "электромагнитной", "энергии", "имели", "представление", "еще", "ЗНАНИЕ", "бегущий", "ёлка"},
	"bg":  {"българите", "и", "на", "Компютри"},
	"el":  {"ΟΔΥΣΣΕΥΣ", "Οδυσσέας", "ΣΟΦΟΣ", "και", "το", "άνθρωπος", "Σ", "ΣΣ", "ας"},
	"ar":  {"كبيرة", "والحسن", "بالحسن", "المكتبات", "وَالكِتَابُ", "في", "من", "الذين", "ﻻ", "ـــكتاب", "٠١٢٣", "ﷺ", "ال", "و"},
	"fa":  {"می‌خورد", "کتاب‌ها", "است", "های", "خانه‌ی", "كيك", "ۀ", "هٔ", "یي"},
	"ckb": {"پێشمەرگەکان", "ڕۆژێک", "لە", "و", "كوردستان", "هەولێر", "پیاوەکە", "ێ", "ھەیە", "دڵی", "کتێبەکانمان"},
	"hi":  {"हिंदी", "लडकियों", "किताबें", "और", "का", "क़िताब", "अँगरेज़ी", "हिन्दी", "ऑस्ट्रेलिया", "ऍ", "ख़ुदा", "र्‍", "ॐ"},
	"cjk": {"漢字", "こんにちは世界", "カタカナ", "ｶﾞｷﾞｸﾞ", "ﾊﾟﾋﾟ", "ｈｅｌｌｏ１２３", "한국어", "我是中国人", "一", "东京都", "ー", "ﾞ", "ｳﾞ", "日本語abc", "𠀀𠀁"},
	"id":  {"membaca", "dan", "yang", "buku-buku"},
	"hy":  {"Հայաստան", "և", "է"},
	"eu":  {"Euskal", "Herria", "eta", "da"},
	"cs":  {"Československo", "a", "je", "příliš"},
	"gl":  {"Galicia", "e", "unha", "corazóns"},
	"elision": {"l'avion", "l’avion", "d’été", "d'été", "qu’il", "jusqu’à", "lorsqu’on", "puisqu’elle", "c’est", "j’ai", "n’est", "m’a", "t’es", "s’il",
		"dell’Italia", "un’altra", "all’ora", "nell’acqua", "sull’isola", "dall’alto", "gl’italiani", "l’Hospitalet", "d’Història", "s’ha", "n’hi",
		"b’fhearr", "d’fhág", "m’athair", "b'fhearr", "m'athair", "L’Avion", "l’", "’l", "l’’a", "l’l’a", "x’y", "été", "avion"},
	"possessive": {"dog's", "dogs’", "John's", "JOHN'S", "it’s", "she＇s", "x＇S", "'s", "’s", "s", "S", "ss", "'", "s's", "boss's", "a's's", "é's", "\xff's", "\xe2\x80s", "’\x99s", "cats", "is", "O'Neil's"},
	"folding":    {"Æon", "ﬁx", "ﬃ", "Ǆ", "ǆ", "ß", "ẞ", "Þorn", "œuvre", "Ĳ", "⑴", "⒈", "⑳", "⓪", "㈠", "«»", "‹x›", "“q”", "‘q’", "–—", "⁅⁆", "ａｂｃＡＢＣ", "１２３", "～＿", "Ꜳꜳ", "Ꝡ", "ⱥ", "ɐ", "ᵫ", "ȸ", "ʣ", "ﬆ", "‼", "⁇", "℅", "Ａ\xff", "\xc3"},
	"special": {"Kelvin", "ȺȾ", "ǅ", "ẞ", "ﬁnance", "ǆ", "İi", "ΐ", "ß", "Ω", "ⅷ", "é", "é", "ö̈", "à́b", "́", "‌", "‍",
		"\ufeff", " ", " ", "\u0085", "�", "x�y", "\U0001F600", "🇩🇪", "👍🏽", "\u0000", "a\u0000b", "\t", "\r\n"},
}

var analysisLangs []string

func init() {
	for k := range analysisVocab {
		analysisLangs = append(analysisLangs, k)
	}
	sort.Strings(analysisLangs)
}

var analysisSeparators = []string{" ", " ", " ", " ", "  ", "\n", "\t", ", ", ". ", "-", "'", "’", "/", " ", "　", "。", "،", "", "‌", "<b>", "</b>", "&amp;"}

// broken encodings: lone continuation, truncated leads, overlong forms, surrogates, > U+10FFFF, 0xff
var analysisBadBytes = [][]byte{{0x80}, {0xbf}, {0xc0, 0x80}, {0xc1, 0xbf}, {0xc3}, {0xe2, 0x82}, {0xe0, 0x80, 0x80}, {0xed, 0xa0, 0x80},
	{0xed, 0xbf, 0xbf}, {0xf0, 0x9f, 0x98}, {0xf4, 0x90, 0x80, 0x80}, {0xf8, 0x88, 0x80, 0x80, 0x80}, {0xff}, {0xfe}, {0xf0}, {0xef, 0xbf}}

type analysisInput struct {
	class string
	data  []byte
}

func analysisWords(rng *rand.Rand, lang string, n int) []byte {
	var sb bytes.Buffer
	if _, ok := analysisVocab[lang]; !ok {
		lang = map[string]string{"web": "en", "keyword": "en"}[lang]
	}
	for i := 0; i < n; i++ {
		l := lang
		if lang == "" || rng.Intn(6) == 0 {
			l = analysisLangs[rng.Intn(len(analysisLangs))]
		}
		v := analysisVocab[l]
		w := v[rng.Intn(len(v))]
		switch rng.Intn(12) {
		case 0:
			w = strings.ToUpper(w)
		case 1:
			w = strings.Title(w) //nolint
		case 2:
			w = w + w
		case 3: // runes whose lower-case form has another UTF-8 length
			w = w + analysisWideWords[rng.Intn(len(analysisWideWords))]
		}
		sb.WriteString(w)
		if i+1 < n {
			sb.WriteString(analysisSeparators[rng.Intn(len(analysisSeparators))])
		}
	}
	return sb.Bytes()
}

// analysisGen produces one input; lang is a script hint ("" = any).
func analysisGen(rng *rand.Rand, lang string) analysisInput {
	switch k := rng.Intn(20); {
	case k < 8:
		return analysisInput{"words:" + lang, analysisWords(rng, lang, 1+rng.Intn(7))}
	case k < 10:
		return analysisInput{"mixture", analysisWords(rng, "", 2+rng.Intn(6))}
	case k == 10: // raw bytes
		n := rng.Intn(24)
		p := make([]byte, n)
		for i := range p {
			p[i] = byte(rng.Intn(256))
		}
		return analysisInput{"raw-bytes", p}
	case k == 11: // high bytes biased to UTF-8 structure
		n := 1 + rng.Intn(16)
		p := make([]byte, n)
		for i := range p {
			p[i] = []byte{0x80, 0xbf, 0xc2, 0xc3, 0xe0, 0xe2, 0xed, 0xef, 0xf0, 0xf4, 0xff, 'a', ' ', 0x99, 0xa0}[rng.Intn(15)]
		}
		return analysisInput{"raw-bytes", p}
	case k == 12 || k == 13: // truncated rune: valid text cut at an arbitrary byte
		p := analysisWords(rng, lang, 1+rng.Intn(4))
		if len(p) > 1 {
			cut := 1 + rng.Intn(len(p)-1)
			if rng.Intn(2) == 0 {
				p = p[:cut]
			} else {
				p = p[cut:]
			}
		}
		return analysisInput{"truncated-rune", append([]byte{}, p...)}
	case k == 14 || k == 15: // valid text with broken encodings spliced in
		p := analysisWords(rng, lang, 1+rng.Intn(4))
		for j := 0; j < 1+rng.Intn(3); j++ {
			at := rng.Intn(len(p) + 1)
			bad := analysisBadBytes[rng.Intn(len(analysisBadBytes))]
			q := append([]byte{}, p[:at]...)
			q = append(q, bad...)
			p = append(q, p[at:]...)
		}
		return analysisInput{"invalid-spliced", p}
	case k == 16: // apostrophes / elisions
		v := []string{"l'", "d’", "qu'", "'", "’", "s", "S", "a", "dell'", "un’", "b'", "x", "'s", "’S", "＇s", "''", "l'l'a", "m'"}
		var sb bytes.Buffer
		for i := 0; i < 1+rng.Intn(5); i++ {
			sb.WriteString(v[rng.Intn(len(v))])
			if rng.Intn(3) == 0 {
				sb.WriteByte(' ')
			}
		}
		return analysisInput{"apostrophes", sb.Bytes()}
	case k == 17: // long token
		v := analysisVocab[analysisLangs[rng.Intn(len(analysisLangs))]]
		w := v[rng.Intn(len(v))]
		long := strings.Repeat(w, 20+rng.Intn(40))
		if len(long) > 150 {
			long = long[:150] // may cut a rune: a long token ending in a truncated rune
		}
		return analysisInput{"long-token", []byte(long)}
	case k == 18:
		s := []string{"", " ", "  \t\n", "a", "é", "漢", "\xff", "'", "’", "s", "ﾞ", "́", "-", ".", "1", "A", "İ", "Σ", "ς", "K"}
		return analysisInput{"tiny", []byte(s[rng.Intn(len(s))])}
	default: // markup and web shapes
		s := []string{"<p class=\"x\">Hello <b>World</b></p>", "<a href='x'>l'avion</a> &nbsp;", "mail me: a.b@c-d.org now", "see www.example.com/x(y)z.",
			"#tag @user #漢字", "<>", "<<b>>", "a<b", "x > y < z", "<!-- c -->text", "HTTP://EXAMPLE.COM/ÄÖ"}
		return analysisInput{"markup", []byte(s[rng.Intn(len(s))])}
	}
}

// fixed inputs every component sees
func analysisFixed() []analysisInput {
	fx := []analysisInput{
		{"empty", []byte{}}, {"tiny", []byte(" ")}, {"tiny", []byte("a")}, {"raw-bytes", []byte{0xff}}, {"raw-bytes", []byte{0xff, 0xff}}, {"raw-bytes", []byte("M\xe3\xa7\xfdN2q\xc9")}, {"invalid-spliced", []byte("ｶ\xe3\x82ﾞ 漢\xe6\xbc ｈ\xef\xbd")},
		{"invalid-spliced", []byte("a\xffb c\xe2\x82 d")}, {"invalid-spliced", []byte("漢\xff字 ab")}, {"invalid-spliced", []byte("漢\xff")},
		{"invalid-spliced", []byte("Abc\xc3 Def\xed\xa0\x80Ghi")}, {"truncated-rune", []byte("caf\xc3")}, {"truncated-rune", []byte("\xa9 caf\xc3\xa9")},
		{"words:special", []byte("Kelvin ȺȾ ΟΔΥΣΣΕΥΣ İstanbul")}, {"words:special", []byte("ȺȾȺȾ aȺbȾ")}, {"words:special", []byte("ab � cd")},
		{"apostrophes", []byte("l'avion d’été John's 's ' ’")}, {"words:cjk", []byte("ｶﾞｷﾞ ﾞ ﾊﾟ こんにちは世界 ｈｅｌｌｏ")},
		{"words:ar", []byte("ﷺ وَالكِتَابُ ـــ")}, {"words:hi", []byte("र्‍ ऍ ॐ क़")}, {"long-token", []byte(strings.Repeat("ab", 130))},
		{"long-token", []byte(strings.Repeat("漢", 70))},
	}
	return fx
}

// ---------------------------------------------------------------- snapshots and Coq printing

type analysisTokSnap struct {
	Start, End int
	Term       []byte
	Incr       int
	Type       int
	KW         bool
}

func analysisSnapTokens(ts analysis.TokenStream) []analysisTokSnap {
	out := make([]analysisTokSnap, len(ts))
	for i, t := range ts {
		out[i] = analysisTokSnap{t.Start, t.End, append([]byte{}, t.Term...), t.PositionIncr, int(t.Type), t.KeyWord}
	}
	return out
}

// analysisThaw builds a fresh token stream from a snapshot: terms that are the slice of `text` at their
// offsets become sub-slices of one fresh copy of the text (as a tokenizer hands them over, with
// the capacity reaching to the end of the buffer), the others private copies (cap = len)
func analysisThaw(text []byte, snap []analysisTokSnap) analysis.TokenStream {
	buf := append(make([]byte, 0, len(text)), text...)
	out := make(analysis.TokenStream, len(snap))
	for i, s := range snap {
		var term []byte
		if s.Start >= 0 && s.Start <= s.End && s.End <= len(buf) && bytes.Equal(s.Term, text[s.Start:s.End]) {
			term = buf[s.Start:s.End]
		} else {
			term = append(make([]byte, 0, len(s.Term)), s.Term...)
		}
		out[i] = &analysis.Token{Start: s.Start, End: s.End, Term: term, PositionIncr: s.Incr,
			Type: analysis.TokenType(s.Type), KeyWord: s.KW}
	}
	return out
}

func analysisSnapsEqual(a, b []analysisTokSnap) bool {
	if len(a) != len(b) {
		return false
	}
	for i := range a {
		if a[i].Start != b[i].Start || a[i].End != b[i].End || a[i].Incr != b[i].Incr || a[i].Type != b[i].Type ||
			a[i].KW != b[i].KW || !bytes.Equal(a[i].Term, b[i].Term) {
			return false
		}
	}
	return true
}

// analysisBytes prints a byte string with the identifiers x00..xff of Analysis/ByteNames.v
func analysisBytes(p []byte) string {
	var sb strings.Builder
	sb.WriteByte('[')
	for i, c := range p {
		if i > 0 {
			sb.WriteByte(';')
		}
		fmt.Fprintf(&sb, "x%02x", c)
	}
	sb.WriteByte(']')
	return sb.String()
}

func analysisBytesList(ps [][]byte) string {
	it := make([]string, len(ps))
	for i, p := range ps {
		it[i] = analysisBytes(p)
	}
	return cq.List(it)
}

// analysisBounds prints what tok_ok reads of a stream: (start, end, increment) per token
func analysisBounds(ts []analysisTokSnap) string {
	it := make([]string, len(ts))
	for i, t := range ts {
		it[i] = fmt.Sprintf("(%s,%s,%s)", cq.I(t.Start), cq.I(t.End), cq.I(t.Incr))
	}
	return cq.List(it)
}

func analysisCoqTok(t analysisTokSnap) string {
	return fmt.Sprintf("Tk %s %s %s %s %d %s", cq.I(t.Start), cq.I(t.End), analysisBytes(t.Term), cq.I(t.Incr), t.Type, cq.B(t.KW))
}

func analysisCoqStream(ts []analysisTokSnap) string {
	it := make([]string, len(ts))
	for i, t := range ts {
		it[i] = analysisCoqTok(t)
	}
	return cq.List(it)
}

func analysisCoqOptStream(ts []analysisTokSnap, panicked bool) string {
	if panicked {
		return cq.None()
	}
	return cq.Some(analysisCoqStream(ts))
}

func analysisShowTokens(ts []analysisTokSnap) string {
	var sb strings.Builder
	for i, t := range ts {
		if i >= 12 {
			fmt.Fprintf(&sb, " …(%d more)", len(ts)-i)
			break
		}
		fmt.Fprintf(&sb, "[%d,%d,%q,+%d] ", t.Start, t.End, t.Term, t.Incr)
	}
	return sb.String()
}

// analysisTokOK: the property's clause for one stream against the length of the text the tokenizer saw
func analysisTokOK(L int, ts []analysisTokSnap) (bool, string) {
	for i, t := range ts {
		if t.Start < 0 || t.Start > t.End || t.End > L {
			return false, fmt.Sprintf("token %d %q has offsets [%d,%d) outside 0 <= start <= end <= %d", i, t.Term, t.Start, t.End, L)
		}
		if t.Incr < 0 {
			return false, fmt.Sprintf("token %d %q has negative position increment %d", i, t.Term, t.Incr)
		}
	}
	return true, ""
}

func analysisHasInvalidUTF8(ts []analysisTokSnap) bool {
	for _, t := range ts {
		if !utf8.Valid(t.Term) {
			return true
		}
	}
	return false
}

// offsets in text order: for a before b, start a <= end b (see Pipeline.v `ordered`)
func analysisOrderedSnap(ts []analysisTokSnap) bool {
	for i := range ts {
		for j := i + 1; j < len(ts); j++ {
			if ts[i].Start > ts[j].End {
				return false
			}
		}
	}
	return true
}

// ---------------------------------------------------------------- engine state

type analysisEngine struct {
	o    Opts
	rng  *rand.Rand
	w    *cq.Writer
	seen map[string]bool // Coq terms of the fixed probes already written
}

// guarded runs f under recover and a watchdog.  A panic is reported as an oracle failure
// `analysis-panic:<component>` (or the more specific key chosen by analysisKeyFor); a hang aborts.
func (e *analysisEngine) guarded(component, class string, input interface{}, invalid bool, f func()) bool {
	fin, pan := cq.Guard(30*time.Second, f)
	e.w.OracleEval(1)
	if !fin {
		e.w.Abort("analysis-hang:"+component, "call did not return within 30s", input)
	}
	if pan != nil {
		e.w.OracleFail(analysisKeyFor("panic", component, invalid), fmt.Sprintf("panic: %v", pan), map[string]interface{}{"component": component, "class": class, "input": input})
		return false
	}
	return true
}

// analysisKeyFor names an oracle failure.  Failures that belong to a recorded finding get that finding's
// key, and only for the input class the finding describes; everything else gets a generic key
// (which is in no findings file and therefore fails the check).
func analysisKeyFor(clause, component string, invalidUTF8 bool) string {
	switch clause {
	case "panic":
		return "analysis-panic:" + component
	case "offsets":
		return "analysis-offsets:" + component
	}
	return "analysis-" + clause + ":" + component
}

func analysisQ(p []byte) string { return fmt.Sprintf("%q", p) }

// ---------------------------------------------------------------- (b) analyzers, stage by stage

// runStages runs one analyzer on one input stage by stage; it returns the text the tokenizer
// saw and the snapshot after every stage (nil, nil when a stage panicked).
func (e *analysisEngine) runStages(name string, a *analysis.Analyzer, in analysisInput) (seen []byte, stages [][]analysisTokSnap) {
	text := append([]byte{}, in.data...)
	okAll := true
	for i, cf := range a.CharFilters {
		cf := cf
		if !e.guarded(fmt.Sprintf("%s/char[%d]%T", name, i, cf), in.class, analysisQ(in.data), false, func() { text = cf.Filter(text) }) {
			return nil, nil
		}
	}
	seen = append([]byte{}, text...)
	var toks analysis.TokenStream
	if !e.guarded(fmt.Sprintf("%s/%T", name, a.Tokenizer), in.class, analysisQ(in.data), false, func() { toks = a.Tokenizer.Tokenize(text) }) {
		return nil, nil
	}
	stages = append(stages, analysisSnapTokens(toks))
	for i, tf := range a.TokenFilters {
		tf := tf
		comp := fmt.Sprintf("%s/filter[%d]%T", name, i, tf)
		if !e.guarded(comp, in.class, analysisQ(in.data), false, func() { toks = tf.Filter(toks) }) {
			okAll = false
			break
		}
		stages = append(stages, analysisSnapTokens(toks))
	}
	if !okAll {
		return nil, nil
	}
	return seen, stages
}

func (e *analysisEngine) analyzers(perAnalyzer int) {
	for _, ae := range analysisBundledAnalyzers() {
		inputs := append([]analysisInput{}, analysisFixed()...)
		for i := 0; i < perAnalyzer; i++ {
			inputs = append(inputs, analysisGen(e.rng, ae.name))
		}
		if ae.name == "web" {
			inputs = append(inputs, analysisPatternInputs(e.rng, 2*perAnalyzer)...)
		}
		for _, in := range inputs {
			e.analyzeOne(ae.name, ae.mk, in)
		}
	}
}

// analyzeOne: one analyzer on one input, stage by stage, with all the oracle clauses
func (e *analysisEngine) analyzeOne(name string, mk func() *analysis.Analyzer, in analysisInput) {
	e.w.Count("input:"+strings.SplitN(in.class, ":", 2)[0], 1)
	a := mk()
	seen, stages := e.runStages(name, a, in)
	if stages == nil {
		return
	}
	// tokenizer clause: pure tokens, offsets within the text the tokenizer saw
	e.w.OracleEval(1)
	good := true
	for i, t := range stages[0] {
		if t.Start < 0 || t.Start > t.End || t.End > len(seen) || !bytes.Equal(t.Term, seen[t.Start:t.End]) || t.Incr < 0 {
			e.w.OracleFail(analysisKeyFor("pure-tokenizer", fmt.Sprintf("%s/%T", name, a.Tokenizer), false),
				fmt.Sprintf("token %d: term %q is not the input slice [%d,%d) (text of %d bytes), or its increment %d is negative", i, t.Term, t.Start, t.End, len(seen), t.Incr),
				map[string]interface{}{"analyzer": name, "class": in.class, "input": analysisQ(in.data)})
			good = false
			break
		}
	}
	// every stage keeps the offsets within the text the tokenizer saw and the increments >= 0
	for k := 1; k < len(stages) && good; k++ {
		e.w.OracleEval(1)
		if ok, why := analysisTokOK(len(seen), stages[k]); !ok {
			comp := fmt.Sprintf("%s/filter[%d]%T", name, k-1, a.TokenFilters[k-1])
			e.w.OracleFail(analysisKeyFor("offsets", comp, false), why, map[string]interface{}{"analyzer": name, "class": in.class, "input": analysisQ(in.data), "tokens": analysisShowTokens(stages[k])})
			good = false
		}
	}
	// determinism: the whole analyzer, twice, on fresh copies, equals the staged run
	final := stages[len(stages)-1]
	for rep := 0; rep < 2; rep++ {
		var again []analysisTokSnap
		b := mk()
		if rep == 1 {
			b = a // the same instance again
		}
		if !e.guarded(name+"/Analyze", in.class, analysisQ(in.data), false, func() { again = analysisSnapTokens(b.Analyze(append([]byte{}, in.data...))) }) {
			good = false
			break
		}
		e.w.OracleEval(1)
		if !analysisSnapsEqual(final, again) {
			e.w.OracleFail(analysisKeyFor("determinism", name, false), "two analyses of the same bytes differ",
				map[string]interface{}{"analyzer": name, "class": in.class, "input": analysisQ(in.data), "first": analysisShowTokens(final), "second": analysisShowTokens(again)})
			good = false
			break
		}
	}
	// stored value unchanged (field.go TermField.Analyze copies before the in-place filters run)
	{
		orig := append([]byte{}, in.data...)
		val := append([]byte{}, in.data...)
		fld := bluge.NewTextFieldBytes("f", val).WithAnalyzer(mk()).StoreValue().SearchTermPositions()
		if e.guarded(name+"/TermField.Analyze", in.class, analysisQ(in.data), false, func() { fld.Analyze(0) }) {
			e.w.OracleEval(1)
			if !bytes.Equal(fld.Value(), orig) {
				e.w.OracleFail(analysisKeyFor("stored-value", name, false), "the stored field value changed during analysis",
					map[string]interface{}{"analyzer": name, "class": in.class, "input": analysisQ(in.data), "after": analysisQ(fld.Value())})
			}
		}
	}
	if !good {
		return // the failing stage is in oracle.jsonl; no Coq case that would only repeat it
	}
	st := make([]string, 0, len(stages))
	for _, s := range stages[1:] {
		st = append(st, analysisBounds(s))
	}
	e.w.Add(fmt.Sprintf("CRun %s %s %s", analysisBytes(seen), analysisCoqStream(stages[0]), cq.List(st)), analysisRunKind(name), len(final) > 0,
		map[string]interface{}{"analyzer": name, "class": in.class, "input": analysisQ(in.data), "tokens": len(final)})
}

// chains: random pipelines of bundled components (a tokenizer, two to four token filters, now
// and then a char filter), run like the bundled analyzers: filters see what other filters emit
func (e *analysisEngine) chains(n int) {
	tks := analysisBundledTokenizers()
	cfs := analysisBundledCharFilters()
	tfs := analysisBundledTokenFilters()
	stops := analysisBundledStopFilters()
	type pick struct {
		name string
		mk   func() analysis.TokenFilter
	}
	exact := []pick{
		{"lowercase", func() analysis.TokenFilter { return token.NewLowerCaseFilter() }},
		{"length(2,8)", func() analysis.TokenFilter { return token.NewLengthFilter(2, 8) }},
		{"truncate(3)", func() analysis.TokenFilter { return token.NewTruncateTokenFilter(3) }},
		{"unique", func() analysis.TokenFilter { return token.NewUniqueTermFilter() }},
		{"ngram(1,2)", func() analysis.TokenFilter { return token.NewNgramFilter(1, 2) }},
		{"edge(front,1,3)", func() analysis.TokenFilter { return token.NewEdgeNgramFilter(token.FRONT, 1, 3) }},
		{"edge(back,2,3)", func() analysis.TokenFilter { return token.NewEdgeNgramFilter(token.BACK, 2, 3) }},
		{"reverse", func() analysis.TokenFilter { return token.NewReverseFilter() }},
		{"apostrophe", func() analysis.TokenFilter { return token.NewApostropheFilter() }},
		{"shingle(2,3)", func() analysis.TokenFilter { return token.NewShingleFilter(2, 3, true, " ", "_") }},
		{"shingle(2,2,no-original)", func() analysis.TokenFilter { return token.NewShingleFilter(2, 2, false, "", "") }},
		{"fr.elision", func() analysis.TokenFilter { return fr.ElisionFilter() }},
		{"keyword", func() analysis.TokenFilter {
			return token.NewKeyWordMarkerFilter(analysisTokenMapOf("the", "fox", "漢字"))
		}},
	}
	// fixed pipelines that replay the repaired offset defects (terms rewritten to more bytes
	// than their source span, then a filter deriving offsets from the term)
	type fixedChain struct {
		name   string
		mk     func() *analysis.Analyzer
		inputs []string
	}
	fixedChains := []fixedChain{
		{"whitespace+NFKD+DictCompound", func() *analysis.Analyzer {
			return &analysis.Analyzer{Tokenizer: tokenizer.NewWhitespaceTokenizer(), TokenFilters: []analysis.TokenFilter{
				token.NewUnicodeNormalizeFilter(norm.NFKD), token.NewDictionaryCompoundFilter(analysisTokenMapOf(analysisCompoundDict...), 1, 1, 15, false)}}
		}, []string{"ﷺ", "x ﷺ", "ﬁﬁ abba", "Fußballklub ﷺ"}},
		{"unicode+lowercase+CamelCase", func() *analysis.Analyzer {
			return &analysis.Analyzer{Tokenizer: tokenizer.NewUnicodeTokenizer(), TokenFilters: []analysis.TokenFilter{token.NewLowerCaseFilter(), token.NewCamelCaseFilter()}}
		}, []string{"ȺȾȺȾ aȺbȾ", "ȺȾ", "Ⱥ1Ⱦ"}},
		{"single+NFKD+CamelCase", func() *analysis.Analyzer {
			return &analysis.Analyzer{Tokenizer: tokenizer.NewSingleTokenTokenizer(), TokenFilters: []analysis.TokenFilter{token.NewUnicodeNormalizeFilter(norm.NFKD), token.NewCamelCaseFilter()}}
		}, []string{"ﷺ", "ǅx", "\xff\xff"}},
		{"regexp-S+Width+Bigram", func() *analysis.Analyzer {
			return &analysis.Analyzer{Tokenizer: tokenizer.NewRegexpTokenizer(regexp.MustCompile(`\S+`)), TokenFilters: []analysis.TokenFilter{cjk.NewWidthFilter(), cjk.NewBigramFilter(true)}}
		}, []string{"漢\xff", "漢\xe3\xa7\xfd字", "ｶ\xffﾞ漢"}},
	}
	for _, fc := range fixedChains {
		for _, s := range fc.inputs {
			e.analyzeOne("chain:"+fc.name, fc.mk, analysisInput{"fixed-chain", []byte(s)})
		}
	}
	for i := 0; i < n; i++ {
		tk := tks[e.rng.Intn(len(tks))]
		k := 2 + e.rng.Intn(3)
		var picks []pick
		name := tk.name
		for j := 0; j < k; j++ {
			switch e.rng.Intn(5) {
			case 0, 1:
				p := exact[e.rng.Intn(len(exact))]
				picks = append(picks, p)
			case 2:
				st := stops[e.rng.Intn(len(stops))]
				picks = append(picks, pick{"stop:" + st.lang, func() analysis.TokenFilter { return st.mk() }})
			default:
				f := tfs[e.rng.Intn(len(tfs))]
				picks = append(picks, pick{f.name, f.mk})
			}
			name += "+" + picks[len(picks)-1].name
		}
		var cf *analysisCfEntry
		if e.rng.Intn(4) == 0 {
			cf = &cfs[e.rng.Intn(len(cfs))]
			name = cf.name + "+" + name
		}
		mk := func() *analysis.Analyzer {
			a := &analysis.Analyzer{Tokenizer: tk.mk()}
			if cf != nil {
				a.CharFilters = []analysis.CharFilter{cf.mk()}
			}
			for _, p := range picks {
				a.TokenFilters = append(a.TokenFilters, p.mk())
			}
			return a
		}
		for j := 0; j < 3; j++ {
			in := analysisGen(e.rng, "")
			if j == 0 {
				fx := analysisFixed()
				in = fx[e.rng.Intn(len(fx))]
			}
			if len(in.data) > 80 {
				in.data = in.data[:80]
			}
			e.analyzeOne("chain:"+name, mk, in)
		}
	}
}

// ---------------------------------------------------------------- tokenizers, char filters

// runeTable tabulates a rune predicate for the runes DecodeRune meets while walking p
func analysisRuneBoolTable(p []byte, f func(rune) bool) string {
	seen := map[rune]bool{}
	var it []string
	for i := 0; i < len(p); {
		r, sz := utf8.DecodeRune(p[i:])
		if !seen[r] {
			seen[r] = true
			it = append(it, cq.Pair(cq.I(int(r)), cq.B(f(r))))
		}
		i += sz
	}
	return cq.List(it)
}

func analysisNotSpaceRune(r rune) bool { return !unicode.IsSpace(r) }

func (e *analysisEngine) tokenizers(per int) {
	exact := map[string]func(rune) bool{"letter": unicode.IsLetter, "whitespace": analysisNotSpaceRune, "character-digit": unicode.IsDigit}
	for _, te := range analysisBundledTokenizers() {
		inputs := append([]analysisInput{}, analysisFixed()...)
		for i := 0; i < per; i++ {
			inputs = append(inputs, analysisGen(e.rng, ""))
		}
		switch te.name { // the regexp-driven ones: texts that match their patterns
		case "web", "exception", "exception-ws", "regexp-w", "regexp-S", "regexp-empty":
			inputs = append(inputs, analysisPatternInputs(e.rng, per)...)
		}
		for _, in := range inputs {
			text := append([]byte{}, in.data...)
			var s1, s2 []analysisTokSnap
			if !e.guarded("tokenizer:"+te.name, in.class, analysisQ(in.data), !utf8.Valid(in.data), func() { s1 = analysisSnapTokens(te.mk().Tokenize(text)) }) {
				continue
			}
			if !e.guarded("tokenizer:"+te.name, in.class, analysisQ(in.data), !utf8.Valid(in.data), func() { s2 = analysisSnapTokens(te.mk().Tokenize(append([]byte{}, in.data...))) }) {
				continue
			}
			e.w.OracleEval(3)
			if !bytes.Equal(text, in.data) {
				e.w.OracleFail(analysisKeyFor("input-mutated", "tokenizer:"+te.name, false), "the tokenizer changed its input", analysisQ(in.data))
			}
			if !analysisSnapsEqual(s1, s2) {
				e.w.OracleFail(analysisKeyFor("determinism", "tokenizer:"+te.name, false), "two tokenizations differ", analysisQ(in.data))
				continue
			}
			good := true
			for i, t := range s1 {
				if t.Start < 0 || t.Start > t.End || t.End > len(in.data) || !bytes.Equal(t.Term, in.data[t.Start:t.End]) || t.Incr < 0 {
					e.w.OracleFail(analysisKeyFor("pure-tokenizer", "tokenizer:"+te.name, false),
						fmt.Sprintf("token %d: term %q is not the input slice [%d,%d) (input of %d bytes), or its increment %d is negative", i, t.Term, t.Start, t.End, len(in.data), t.Incr),
						map[string]interface{}{"class": in.class, "input": analysisQ(in.data)})
					good = false
					break
				}
			}
			if !good {
				continue
			}
			meta := map[string]interface{}{"tokenizer": te.name, "class": in.class, "input": analysisQ(in.data)}
			if pred, ok := exact[te.name]; ok {
				e.w.Add(fmt.Sprintf("CCharTok %s %s %s", analysisRuneBoolTable(in.data, pred), analysisBytes(in.data), analysisCoqStream(s1)), "exact:tokenizer:"+te.name, len(s1) > 0, meta)
			} else if te.name == "single" {
				e.w.Add(fmt.Sprintf("CSingle %s %s", analysisBytes(in.data), analysisCoqStream(s1)), "exact:tokenizer:single", len(in.data) > 0, meta)
			} else {
				e.w.Add(fmt.Sprintf("CPure %s %s", analysisBytes(in.data), analysisCoqStream(s1)), "pure:"+te.name, len(s1) > 0, meta)
			}
		}
	}
}

func (e *analysisEngine) charFilters(per int) {
	for _, ce := range analysisBundledCharFilters() {
		inputs := append([]analysisInput{}, analysisFixed()...)
		for i := 0; i < per; i++ {
			inputs = append(inputs, analysisGen(e.rng, ""))
		}
		inputs = append(inputs, analysisPatternInputs(e.rng, per)...)
		switch ce.name { // more of the text these two rewrite
		case "asciifolding":
			for i := 0; i < 4*per; i++ {
				inputs = append(inputs, analysisGen(e.rng, []string{"folding", "de", "fr", "tr", "special", "cjk"}[e.rng.Intn(6)]))
			}
		case "zwnj":
			for i := 0; i < 2*per; i++ {
				inputs = append(inputs, analysisGen(e.rng, "fa"))
			}
		}
		for _, in := range inputs {
			var o1, o2 []byte
			arg := append([]byte{}, in.data...)
			if !e.guarded("charfilter:"+ce.name, in.class, analysisQ(in.data), !utf8.Valid(in.data), func() { o1 = append([]byte{}, ce.mk().Filter(arg)...) }) {
				continue
			}
			if !e.guarded("charfilter:"+ce.name, in.class, analysisQ(in.data), !utf8.Valid(in.data), func() { o2 = ce.mk().Filter(append([]byte{}, in.data...)) }) {
				continue
			}
			e.w.OracleEval(1)
			if !bytes.Equal(o1, o2) {
				e.w.OracleFail(analysisKeyFor("determinism", "charfilter:"+ce.name, false), "two runs differ", analysisQ(in.data))
				continue
			}
			// exact models of the table-driven / one-rune filters
			switch ce.name {
			case "asciifolding":
				e.w.Add(fmt.Sprintf("CAsciiFold %s %s", analysisBytes(in.data), cq.Some(analysisBytes(o1))), "exact:charfilter:asciifolding",
					!bytes.Equal(o1, in.data), map[string]interface{}{"class": in.class, "input": analysisQ(in.data)})
			case "zwnj":
				e.w.Add(fmt.Sprintf("CZwnj %s %s", analysisBytes(in.data), analysisBytes(o1)), "exact:charfilter:zwnj",
					!bytes.Equal(o1, in.data), map[string]interface{}{"class": in.class, "input": analysisQ(in.data)})
			}
			// the filter in front of a tokenizer: offsets refer to the rewritten text
			a := &analysis.Analyzer{CharFilters: []analysis.CharFilter{ce.mk()}, Tokenizer: tokenizer.NewUnicodeTokenizer(),
				TokenFilters: []analysis.TokenFilter{token.NewLowerCaseFilter()}}
			seen, stages := e.runStages("charfilter:"+ce.name, a, in)
			if stages == nil {
				continue
			}
			e.w.OracleEval(1)
			if !bytes.Equal(seen, o1) {
				e.w.OracleFail(analysisKeyFor("determinism", "charfilter:"+ce.name, false), "filter output differs inside the analyzer", analysisQ(in.data))
				continue
			}
			good := true
			for _, t := range stages[0] {
				if t.Start < 0 || t.Start > t.End || t.End > len(seen) || !bytes.Equal(t.Term, seen[t.Start:t.End]) {
					good = false
				}
			}
			if ok, _ := analysisTokOK(len(seen), stages[1]); !ok {
				good = false
			}
			e.w.OracleEval(1)
			if !good {
				e.w.OracleFail(analysisKeyFor("offsets", "charfilter:"+ce.name, false), "offsets do not refer to the text the tokenizer saw", analysisQ(in.data))
				continue
			}
			e.w.Add(fmt.Sprintf("CRun %s %s %s", analysisBytes(seen), analysisCoqStream(stages[0]), cq.List([]string{analysisBounds(stages[1])})), "run:charfilter:"+ce.name,
				!bytes.Equal(seen, in.data), map[string]interface{}{"charfilter": ce.name, "class": in.class, "input": analysisQ(in.data)})
		}
	}
}

// foldSweep: the ASCII folding filter on every rune of the Basic Multilingual Plane, alone, after
// and before an ASCII letter (every case of its switch is reached, at the end of the text and
// inside it); oracle only, every 4000th call also as an exact case.
func (e *analysisEngine) foldSweep() {
	f := char.NewASCIIFoldingFilter()
	calls, failures := 0, 0
	fin, _ := cq.Guard(120*time.Second, func() {
		for r := rune(0x80); r <= 0xFFFF; r++ {
			if r >= 0xD800 && r <= 0xDFFF {
				continue
			}
			for k, s := range []string{string(r), "a" + string(r), string(r) + "a"} {
				calls++
				var out []byte
				pan := func() (p interface{}) {
					defer func() { p = recover() }()
					out = f.Filter([]byte(s))
					return nil
				}()
				if pan != nil {
					failures++
					if failures <= 3 {
						e.w.OracleFail("analysis-panic:charfilter:asciifolding", fmt.Sprintf("panic: %v", pan), map[string]interface{}{"class": "fold-sweep", "input": analysisQ([]byte(s))})
					}
					continue
				}
				if k == 0 && calls%4000 == 1 {
					e.w.Add(fmt.Sprintf("CAsciiFold %s %s", analysisBytes([]byte(s)), cq.Some(analysisBytes(out))), "exact:charfilter:asciifolding",
						!bytes.Equal(out, []byte(s)), map[string]interface{}{"class": "fold-sweep", "input": analysisQ([]byte(s))})
				}
			}
		}
	})
	e.w.OracleEval(calls)
	e.w.Count("fold_sweep_calls", calls)
	if !fin {
		e.w.Abort("analysis-hang:charfilter:asciifolding", "fold sweep did not finish within 120s", nil)
	}
}

// ---------------------------------------------------------------- token streams to feed filters

// stream makes a token stream the way a pipeline would hand it to a filter: a bundled tokenizer
// on generated text, sometimes followed by filters that create position gaps, lower-case the
// terms or emit stacked tokens.
func (e *analysisEngine) stream(lang string) (in analysisInput, text []byte, toks analysis.TokenStream) {
	in = analysisGen(e.rng, lang)
	if e.rng.Intn(8) == 0 {
		fx := analysisFixed()
		in = fx[e.rng.Intn(len(fx))]
	}
	text = append([]byte{}, in.data...)
	var tk analysis.Tokenizer
	switch e.rng.Intn(10) {
	case 0, 1, 2:
		tk = tokenizer.NewWhitespaceTokenizer()
	case 3, 4, 5:
		tk = tokenizer.NewUnicodeTokenizer()
	case 6:
		tk = tokenizer.NewSingleTokenTokenizer()
	case 7:
		tk = tokenizer.NewLetterTokenizer()
	default:
		tk = tokenizer.NewRegexpTokenizer(regexp.MustCompile(`\S+`))
	}
	toks = tk.Tokenize(text)
	switch e.rng.Intn(10) {
	case 0: // gaps
		toks = token.NewLengthFilter(2, 6).Filter(toks)
	case 1:
		toks = token.NewLowerCaseFilter().Filter(toks)
	case 2: // stacked tokens (increment 0)
		toks = token.NewEdgeNgramFilter(token.FRONT, 1, 2).Filter(toks)
	case 3: // gaps through a stop set drawn from the stream itself
		m := analysis.NewTokenMap()
		for i, t := range toks {
			if i%3 == 1 {
				m.AddToken(string(t.Term))
			}
		}
		toks = token.NewStopTokensFilter(m).Filter(toks)
	case 4: // terms rewritten to more runes / bytes than their source span
		toks = token.NewUnicodeNormalizeFilter(norm.NFKD).Filter(toks)
	case 5: // lower case of Ⱥ/Ⱦ is wider; invalid bytes re-encoded as U+FFFD by the n-gram filter
		toks = token.NewEdgeNgramFilter(token.BACK, 2, 6).Filter(token.NewLowerCaseFilter().Filter(toks))
	}
	return in, text, toks
}

// safeStream: stream() under recover (its ingredients are exercised elsewhere; a panic here is
// reported there, with a component name)
func (e *analysisEngine) safeStream(lang string) (in analysisInput, text []byte, snap []analysisTokSnap, ok bool) {
	defer func() {
		if r := recover(); r != nil {
			ok = false
		}
	}()
	var toks analysis.TokenStream
	in, text, toks = e.stream(lang)
	return in, text, analysisSnapTokens(toks), true
}

// ---------------------------------------------------------------- (b) other token filters, called directly

// oneFilterCall runs a (not exactly modelled) filter on one recorded stream: no panic, two runs
// equal, tok_ok preserved; the stage goes to the Coq contract checker.
func (e *analysisEngine) oneFilterCall(name string, mk func() analysis.TokenFilter, in analysisInput, text []byte, tin []analysisTokSnap) {
	L := len(text)
	invalid := analysisHasInvalidUTF8(tin)
	var o1, o2 []analysisTokSnap
	meta := map[string]interface{}{"filter": name, "class": in.class, "input": analysisQ(in.data), "tokens_in": analysisShowTokens(tin)}
	if !e.guarded(name, in.class, meta, invalid, func() { o1 = analysisSnapTokens(mk().Filter(analysisThaw(text, tin))) }) {
		return
	}
	if !e.guarded(name, in.class, meta, invalid, func() { o2 = analysisSnapTokens(mk().Filter(analysisThaw(text, tin))) }) {
		return
	}
	e.w.OracleEval(2)
	if !analysisSnapsEqual(o1, o2) {
		e.w.OracleFail(analysisKeyFor("determinism", name, invalid), "two runs of the filter on equal streams differ", meta)
		return
	}
	inOK, _ := analysisTokOK(L, tin)
	if inOK {
		if ok, why := analysisTokOK(L, o1); !ok {
			meta["tokens_out"] = analysisShowTokens(o1)
			e.w.OracleFail(analysisKeyFor("offsets", name, invalid), why, meta)
			return
		}
	}
	term := fmt.Sprintf("CStage %d %s %s", L, analysisBounds(tin), analysisBounds(o1))
	if strings.HasPrefix(in.class, "probe:") {
		if e.seen[term] { // many filters leave a hostile token alone: one case per distinct stage
			e.w.Count("probe_stage_duplicates_not_emitted", 1)
			return
		}
		e.seen[term] = true
	}
	e.w.Add(term, "stage:"+name, len(o1) > 0 && !analysisSnapsEqual(tin, o1), meta)
}

func (e *analysisEngine) otherFilters(per int) {
	for _, f := range analysisBundledTokenFilters() {
		for i := 0; i < per; i++ {
			in, text, tin, ok := e.safeStream(f.lang)
			if !ok {
				continue
			}
			e.oneFilterCall(f.name, f.mk, in, text, tin)
		}
	}
}

// probes: fixed hostile inputs every (not exactly modelled) filter sees on every run, through
// bundled tokenizers: the empty term, lone invalid bytes, an ideographic token with broken
// encodings (regexp tokenizer), apostrophes only.
func (e *analysisEngine) probes() {
	type tkf struct {
		name string
		mk   func() analysis.Tokenizer
	}
	tks := []tkf{
		{"single", func() analysis.Tokenizer { return tokenizer.NewSingleTokenTokenizer() }},
		{"regexp-S", func() analysis.Tokenizer { return tokenizer.NewRegexpTokenizer(regexp.MustCompile(`\S+`)) }},
	}
	inputs := []string{"", "\xff", "a", "s", "'", "'s", "\xe2\x80", "漢\xff", "漢\xff x", "\xff漢字", "漢字\xe6 カ\xe3\x82", "ab\xff\xffCd", "é\xcc", "\xd9", "ى\xd9", "क\xe0\xa4"}
	for _, f := range analysisBundledTokenFilters() {
		for _, tk := range tks {
			for _, s := range inputs {
				in := analysisInput{"probe:" + tk.name, []byte(s)}
				text := append([]byte{}, in.data...)
				var tin []analysisTokSnap
				if !e.guarded("tokenizer:"+tk.name, in.class, analysisQ(in.data), true, func() { tin = analysisSnapTokens(tk.mk().Tokenize(text)) }) {
					continue
				}
				if len(tin) == 0 {
					continue
				}
				e.oneFilterCall(f.name, f.mk, in, text, tin)
			}
		}
	}
}

// ---------------------------------------------------------------- (a) exactly modelled filters

func analysisTermRunes(ts []analysisTokSnap, visit func(r rune)) {
	for _, t := range ts {
		for i := 0; i < len(t.Term); {
			r, sz := utf8.DecodeRune(t.Term[i:])
			visit(r)
			i += sz
		}
	}
}

// unicode.ToLower for the runes present (identity entries omitted: the model's default)
func analysisLowerTable(ts []analysisTokSnap) string {
	seen := map[rune]bool{}
	var it []string
	analysisTermRunes(ts, func(r rune) {
		if !seen[r] {
			seen[r] = true
			if l := unicode.ToLower(r); l != r {
				it = append(it, cq.Pair(cq.I(int(r)), cq.I(int(l))))
			}
		}
	})
	return cq.List(it)
}

// analysisRuneSet lists the runes present in the terms for which f holds
func analysisRuneSet(ts []analysisTokSnap, f func(rune) bool) string {
	seen := map[rune]bool{}
	var it []string
	analysisTermRunes(ts, func(r rune) {
		if !seen[r] {
			seen[r] = true
			if f(r) {
				it = append(it, cq.I(int(r)))
			}
		}
	})
	return cq.List(it)
}

func analysisIsMark(r rune) bool {
	return unicode.Is(unicode.Mn, r) || unicode.Is(unicode.Me, r) || unicode.Is(unicode.Mc, r)
}

func analysisMarkList(ts []analysisTokSnap) string {
	seen := map[rune]bool{}
	var it []string
	analysisTermRunes(ts, func(r rune) {
		if !seen[r] && analysisIsMark(r) {
			seen[r] = true
			it = append(it, cq.I(int(r)))
		}
	})
	return cq.List(it)
}

func analysisTermSet(ts []analysisTokSnap, member func([]byte) bool) string {
	seen := map[string]bool{}
	var out [][]byte
	for _, t := range ts {
		if !seen[string(t.Term)] {
			seen[string(t.Term)] = true
			if member(t.Term) {
				out = append(out, t.Term)
			}
		}
	}
	return analysisBytesList(out)
}

func analysisOneToken(term []byte) analysis.TokenStream {
	return analysis.TokenStream{&analysis.Token{Start: 0, End: len(term), Term: append([]byte{}, term...), PositionIncr: 1}}
}

// the articles an elision filter knows, among the prefixes that end right before an apostrophe
func analysisArticleSet(ts []analysisTokSnap, f *token.ElisionFilter) string {
	seen := map[string]bool{}
	var out [][]byte
	for _, t := range ts {
		for i := 0; i < len(t.Term); {
			r, sz := utf8.DecodeRune(t.Term[i:])
			if r == '\'' || r == '’' {
				pre := t.Term[:i]
				if !seen[string(pre)] {
					seen[string(pre)] = true
					// probe: prefix + ' + x comes back as x exactly when the prefix is an article
					// (a prefix containing an earlier article+apostrophe is never looked up by the filter)
					probe := append(append([]byte{}, pre...), '\'', 'x')
					res := f.Filter(analysisOneToken(probe))
					if len(res) == 1 && string(res[0].Term) == "x" {
						inner := false
						for j := 0; j < len(pre); {
							r2, s2 := utf8.DecodeRune(pre[j:])
							if r2 == '\'' || r2 == '’' {
								p2 := append(append([]byte{}, pre[:j]...), '\'', 'x')
								r3 := f.Filter(analysisOneToken(p2))
								if len(r3) == 1 && string(r3[0].Term) == "x" {
									inner = true
								}
							}
							j += s2
						}
						if !inner {
							out = append(out, append([]byte{}, pre...))
						}
					}
				}
			}
			i += sz
		}
	}
	return analysisBytesList(out)
}

type analysisExact struct {
	kind string
	lang string
	// run applies the filter to a thawed stream; term builds the Coq case from in/out
	mk func(rng *rand.Rand, tin []analysisTokSnap) (f analysis.TokenFilter, caseFmt func(tin []analysisTokSnap, out []analysisTokSnap, panicked bool) string, canPanic bool, needOrdered bool)
}

func (e *analysisEngine) exactFilters(per int) {
	stopF := analysisBundledStopFilters()
	elF := analysisBundledElisionFilters()
	seps := []string{" ", "", "_", "‌"}
	exacts := []analysisExact{
		{"length", "", func(rng *rand.Rand, tin []analysisTokSnap) (analysis.TokenFilter, func([]analysisTokSnap, []analysisTokSnap, bool) string, bool, bool) {
			mn, mx := rng.Intn(6), rng.Intn(9)
			return token.NewLengthFilter(mn, mx), func(i, o []analysisTokSnap, _ bool) string {
				return fmt.Sprintf("CLength %d %d %s %s", mn, mx, analysisCoqStream(i), analysisCoqStream(o))
			}, false, false
		}},
		{"truncate", "", func(rng *rand.Rand, tin []analysisTokSnap) (analysis.TokenFilter, func([]analysisTokSnap, []analysisTokSnap, bool) string, bool, bool) {
			n := []int{0, 1, 2, 3, 4, 5, 6, 10}[rng.Intn(8)]
			return token.NewTruncateTokenFilter(n), func(i, o []analysisTokSnap, p bool) string {
				return fmt.Sprintf("CTruncate %d %s %s", n, analysisCoqStream(i), analysisCoqOptStream(o, p))
			}, false, false
		}},
		{"stop", "", func(rng *rand.Rand, tin []analysisTokSnap) (analysis.TokenFilter, func([]analysisTokSnap, []analysisTokSnap, bool) string, bool, bool) {
			var f *token.StopTokensFilter
			if rng.Intn(3) == 0 { // a custom map drawn from the stream
				m := analysis.NewTokenMap()
				for _, t := range tin {
					if rng.Intn(3) == 0 {
						m.AddToken(string(t.Term))
					}
				}
				f = token.NewStopTokensFilter(m)
			} else {
				f = stopF[rng.Intn(len(stopF))].mk()
			}
			probe := stopF[0].mk
			_ = probe
			return f, func(i, o []analysisTokSnap, _ bool) string {
				set := analysisTermSet(i, func(term []byte) bool { return len(f.Filter(analysisOneToken(term))) == 0 })
				return fmt.Sprintf("CStop %s %s %s", set, analysisCoqStream(i), analysisCoqStream(o))
			}, false, false
		}},
		{"unique", "", func(rng *rand.Rand, tin []analysisTokSnap) (analysis.TokenFilter, func([]analysisTokSnap, []analysisTokSnap, bool) string, bool, bool) {
			return token.NewUniqueTermFilter(), func(i, o []analysisTokSnap, _ bool) string {
				return fmt.Sprintf("CUnique %s %s", analysisCoqStream(i), analysisCoqStream(o))
			}, false, false
		}},
		{"keyword", "", func(rng *rand.Rand, tin []analysisTokSnap) (analysis.TokenFilter, func([]analysisTokSnap, []analysisTokSnap, bool) string, bool, bool) {
			m := analysis.NewTokenMap()
			for _, t := range tin {
				if rng.Intn(3) == 0 {
					m.AddToken(string(t.Term))
				}
			}
			f := token.NewKeyWordMarkerFilter(m)
			return f, func(i, o []analysisTokSnap, _ bool) string {
				set := analysisTermSet(i, func(term []byte) bool { r := f.Filter(analysisOneToken(term)); return len(r) == 1 && r[0].KeyWord })
				return fmt.Sprintf("CKeyword %s %s %s", set, analysisCoqStream(i), analysisCoqStream(o))
			}, false, false
		}},
		{"lowercase", "", func(rng *rand.Rand, tin []analysisTokSnap) (analysis.TokenFilter, func([]analysisTokSnap, []analysisTokSnap, bool) string, bool, bool) {
			return token.NewLowerCaseFilter(), func(i, o []analysisTokSnap, p bool) string {
				return fmt.Sprintf("CLower %s %s %s", analysisLowerTable(i), analysisCoqStream(i), analysisCoqOptStream(o, p))
			}, false, false
		}},
		{"ngram", "", func(rng *rand.Rand, tin []analysisTokSnap) (analysis.TokenFilter, func([]analysisTokSnap, []analysisTokSnap, bool) string, bool, bool) {
			mn := rng.Intn(4)
			mx := mn + rng.Intn(3)
			if rng.Intn(10) == 0 {
				mx = mn - 1
			}
			return token.NewNgramFilter(mn, mx), func(i, o []analysisTokSnap, p bool) string {
				return fmt.Sprintf("CNgram %d %s %s %s", mn, cq.I(mx), analysisCoqStream(i), analysisCoqOptStream(o, p))
			}, false, false
		}},
		{"edgengram", "", func(rng *rand.Rand, tin []analysisTokSnap) (analysis.TokenFilter, func([]analysisTokSnap, []analysisTokSnap, bool) string, bool, bool) {
			mn := rng.Intn(4)
			mx := mn + rng.Intn(4)
			back := rng.Intn(2) == 0
			return token.NewEdgeNgramFilter(token.Side(back), mn, mx), func(i, o []analysisTokSnap, p bool) string {
				return fmt.Sprintf("CEdge %s %d %d %s %s", cq.B(back), mn, mx, analysisCoqStream(i), analysisCoqOptStream(o, p))
			}, false, false
		}},
		{"reverse", "", func(rng *rand.Rand, tin []analysisTokSnap) (analysis.TokenFilter, func([]analysisTokSnap, []analysisTokSnap, bool) string, bool, bool) {
			return token.NewReverseFilter(), func(i, o []analysisTokSnap, p bool) string {
				return fmt.Sprintf("CReverse %s %s %s %s", cq.B(analysisReverseFixed), analysisMarkList(i), analysisCoqStream(i), analysisCoqOptStream(o, p))
			}, false, false
		}},
		{"apostrophe", "tr", func(rng *rand.Rand, tin []analysisTokSnap) (analysis.TokenFilter, func([]analysisTokSnap, []analysisTokSnap, bool) string, bool, bool) {
			return token.NewApostropheFilter(), func(i, o []analysisTokSnap, _ bool) string {
				return fmt.Sprintf("CApostrophe %s %s", analysisCoqStream(i), analysisCoqStream(o))
			}, false, false
		}},
		{"elision", "elision", func(rng *rand.Rand, tin []analysisTokSnap) (analysis.TokenFilter, func([]analysisTokSnap, []analysisTokSnap, bool) string, bool, bool) {
			var f *token.ElisionFilter
			if rng.Intn(3) == 0 {
				f = token.NewElisionFilter(analysisTokenMapOf("l", "d", "qu", "L", "dell", "un", "l'l", ""))
			} else {
				f = elF[rng.Intn(len(elF))].mk()
			}
			return f, func(i, o []analysisTokSnap, _ bool) string {
				return fmt.Sprintf("CElision %s %s %s", analysisArticleSet(i, f), analysisCoqStream(i), analysisCoqStream(o))
			}, false, false
		}},
		{"shingle", "", func(rng *rand.Rand, tin []analysisTokSnap) (analysis.TokenFilter, func([]analysisTokSnap, []analysisTokSnap, bool) string, bool, bool) {
			mn := 1 + rng.Intn(3)
			mx := mn + rng.Intn(3)
			if rng.Intn(12) == 0 {
				mn = 0
			}
			oo := rng.Intn(2) == 0
			sep := seps[rng.Intn(len(seps))]
			fill := []string{"_", "", "‌‌"}[rng.Intn(3)]
			return token.NewShingleFilter(mn, mx, oo, sep, fill), func(i, o []analysisTokSnap, p bool) string {
				return fmt.Sprintf("CShingle %d %d %s %s %s %s %s", mn, mx, cq.B(oo), analysisBytes([]byte(sep)), analysisBytes([]byte(fill)), analysisCoqStream(i), analysisCoqOptStream(o, p))
			}, false, true
		}},
	}
	type exF = func([]analysisTokSnap, []analysisTokSnap, bool) string
	exacts = append(exacts,
		analysisExact{"camelcase", "en", func(rng *rand.Rand, tin []analysisTokSnap) (analysis.TokenFilter, exF, bool, bool) {
			return token.NewCamelCaseFilter(), func(i, o []analysisTokSnap, _ bool) string {
				return fmt.Sprintf("CCamel true %s %s %s %s %s", analysisRuneSet(i, unicode.IsLower), analysisRuneSet(i, unicode.IsUpper), analysisRuneSet(i, unicode.IsNumber), analysisCoqStream(i), analysisCoqStream(o))
			}, false, false
		}},
		analysisExact{"dictcompound", "de", func(rng *rand.Rand, tin []analysisTokSnap) (analysis.TokenFilter, exF, bool, bool) {
			words := append([]string{}, analysisCompoundDict...)
			for _, t := range tin { // sub-words drawn from the stream itself
				rs := bytes.Runes(t.Term)
				if len(rs) >= 2 && rng.Intn(2) == 0 {
					a := rng.Intn(len(rs))
					b := a + 1 + rng.Intn(len(rs)-a)
					words = append(words, string(rs[a:b]))
				}
			}
			mw, ms, xs, longest := rng.Intn(6), rng.Intn(4), 1+rng.Intn(15), rng.Intn(2) == 0
			f := token.NewDictionaryCompoundFilter(analysisTokenMapOf(words...), mw, ms, xs, longest)
			dict := make([][]byte, len(words))
			for k, w := range words {
				dict[k] = []byte(w)
			}
			return f, func(i, o []analysisTokSnap, p bool) string {
				return fmt.Sprintf("CDict true %s %d %d %d %s %s %s", analysisBytesList(dict), mw, ms, xs, cq.B(longest), analysisCoqStream(i), analysisCoqOptStream(o, p))
			}, false, false
		}},
		analysisExact{"cjkbigram", "cjk", func(rng *rand.Rand, tin []analysisTokSnap) (analysis.TokenFilter, exF, bool, bool) {
			uni := rng.Intn(2) == 0
			return cjk.NewBigramFilter(uni), func(i, o []analysisTokSnap, _ bool) string {
				return fmt.Sprintf("CBigram true %s %s %s", cq.B(uni), analysisCoqStream(i), analysisCoqStream(o))
			}, false, false
		}},
		analysisExact{"cjkwidth", "cjk", func(rng *rand.Rand, tin []analysisTokSnap) (analysis.TokenFilter, exF, bool, bool) {
			return cjk.NewWidthFilter(), func(i, o []analysisTokSnap, p bool) string {
				return fmt.Sprintf("CWidth %s %s", analysisCoqStream(i), analysisCoqOptStream(o, p))
			}, false, false
		}},
		analysisExact{"possessive", "possessive", func(rng *rand.Rand, tin []analysisTokSnap) (analysis.TokenFilter, exF, bool, bool) {
			return en.NewPossessiveFilter(), func(i, o []analysisTokSnap, _ bool) string {
				return fmt.Sprintf("CPossessive %s %s", analysisCoqStream(i), analysisCoqStream(o))
			}, false, false
		}},
	)
	for _, ex := range exacts {
		for k := 0; k < per; k++ {
			in, text, tin, ok := e.safeStream(ex.lang)
			if !ok {
				continue
			}
			if ex.kind == "shingle" && len(tin) > 14 {
				tin = tin[:14]
			}
			if (ex.kind == "ngram") && len(tin) > 10 {
				tin = tin[:10]
			}
			L := len(text)
			f, mkCase, _, needOrdered := ex.mk(e.rng, tin)
			invalid := analysisHasInvalidUTF8(tin)
			meta := map[string]interface{}{"filter": fmt.Sprintf("%s %+v", ex.kind, f), "class": in.class, "input": analysisQ(in.data), "tokens_in": analysisShowTokens(tin)}
			var o1, o2 []analysisTokSnap
			ok1 := e.guarded("exact:"+ex.kind, in.class, meta, invalid, func() { o1 = analysisSnapTokens(f.Filter(analysisThaw(text, tin))) })
			if ok1 {
				ok2 := e.guarded("exact:"+ex.kind, in.class, meta, invalid, func() { o2 = analysisSnapTokens(f.Filter(analysisThaw(text, tin))) })
				e.w.OracleEval(1)
				if !ok2 || !analysisSnapsEqual(o1, o2) {
					e.w.OracleFail(analysisKeyFor("determinism", "exact:"+ex.kind, invalid), "two runs of the filter on equal streams differ", meta)
					continue
				}
				inOK, _ := analysisTokOK(L, tin)
				if inOK && (!needOrdered || analysisOrderedSnap(tin)) {
					e.w.OracleEval(1)
					if ok, why := analysisTokOK(L, o1); !ok {
						meta["tokens_out"] = analysisShowTokens(o1)
						e.w.OracleFail(analysisKeyFor("offsets", "exact:"+ex.kind, invalid), why, meta)
					}
				}
			}
			// the case is written even after a panic: the model must panic on the same input
			e.w.Add(mkCase(tin, o1, !ok1), "exact:"+ex.kind, len(o1) > 0 && !analysisSnapsEqual(tin, o1), meta)
		}
	}
}

// analysisReverseFixed: reverse.go takes the width of a rune from the bytes (repaired) rather than
// from utf8.RuneLen of the decoded rune (as pinned); see Filters.v reverse_loop
var analysisReverseFixed = true

// ---------------------------------------------------------------- TokenFrequency / Document.Analyze

func analysisCoqFreqs(tfs analysis.TokenFrequencies) string {
	keys := make([]string, 0, len(tfs))
	for k := range tfs {
		keys = append(keys, k)
	}
	sort.Strings(keys)
	it := make([]string, 0, len(keys))
	for _, k := range keys {
		tf := tfs[k]
		locs := make([]string, len(tf.Locations))
		for i, l := range tf.Locations {
			locs[i] = fmt.Sprintf("(%s, %s, %s)", cq.I(l.StartVal), cq.I(l.EndVal), cq.I(l.PositionVal))
		}
		it = append(it, fmt.Sprintf("(%s, %s, %s)", analysisBytes(tf.TermVal), cq.List(locs), cq.I(tf.Frequency())))
	}
	return cq.List(it)
}

var analysisSmallAnalyzers = []func() *analysis.Analyzer{
	analyzer.NewStandardAnalyzer, analyzer.NewSimpleAnalyzer, analyzer.NewKeywordAnalyzer, en.NewAnalyzer, fr.Analyzer, cjk.Analyzer,
	func() *analysis.Analyzer {
		return &analysis.Analyzer{Tokenizer: tokenizer.NewWhitespaceTokenizer(), TokenFilters: []analysis.TokenFilter{token.NewEdgeNgramFilter(token.FRONT, 1, 3)}}
	},
	func() *analysis.Analyzer {
		return &analysis.Analyzer{Tokenizer: tokenizer.NewUnicodeTokenizer(), TokenFilters: []analysis.TokenFilter{token.NewLowerCaseFilter(), en.StopWordsFilter(), token.NewShingleFilter(2, 2, true, " ", "_")}}
	},
}

func (e *analysisEngine) freqs(n int) {
	for i := 0; i < n; i++ {
		in := analysisGen(e.rng, []string{"en", "fr", "cjk", "ru", ""}[e.rng.Intn(5)])
		mk := analysisSmallAnalyzers[e.rng.Intn(len(analysisSmallAnalyzers))]
		var toks analysis.TokenStream
		if !e.guarded("freq/Analyze", in.class, analysisQ(in.data), false, func() { toks = mk().Analyze(append([]byte{}, in.data...)) }) {
			continue
		}
		snap := analysisSnapTokens(toks)
		tv := e.rng.Intn(4) != 0
		start := []int{0, 0, 1, 7, 100, 101, 1000}[e.rng.Intn(7)]
		var tfs analysis.TokenFrequencies
		var pos int
		if !e.guarded("TokenFrequency", in.class, analysisQ(in.data), false, func() { tfs, pos = analysis.TokenFrequency(toks, tv, start) }) {
			continue
		}
		// oracle: the clauses of freq_positions directly on the implementation
		e.w.OracleEval(1)
		if why := analysisFreqOracle(snap, tv, start, tfs, pos); why != "" {
			e.w.OracleFail("freq-positions", why, map[string]interface{}{"class": in.class, "input": analysisQ(in.data), "tv": tv, "start": start})
			continue
		}
		e.w.Add(fmt.Sprintf("CFreq %s %s %d %s %s", analysisCoqStream(snap), cq.B(tv), start, analysisCoqFreqs(tfs), cq.I(pos)), "freq", len(snap) > 1,
			map[string]interface{}{"class": in.class, "input": analysisQ(in.data), "tv": tv, "start": start, "tokens": len(snap)})
	}
}

func analysisFreqOracle(snap []analysisTokSnap, tv bool, start int, tfs analysis.TokenFrequencies, pos int) string {
	count := map[string]int{}
	for _, t := range snap {
		count[string(t.Term)]++
	}
	if len(count) != len(tfs) {
		return fmt.Sprintf("%d distinct terms in the stream, %d entries in the map", len(count), len(tfs))
	}
	for k, c := range count {
		tf, ok := tfs[k]
		if !ok || tf.Frequency() != c || !bytes.Equal(tf.TermVal, []byte(k)) {
			return fmt.Sprintf("term %q: frequency differs from its %d occurrences", k, c)
		}
		if tv && len(tf.Locations) != c {
			return fmt.Sprintf("term %q: %d locations for %d occurrences", k, len(tf.Locations), c)
		}
	}
	if !tv {
		return ""
	}
	next := map[string]int{}
	p := start
	for _, t := range snap {
		p += t.Incr
		tf := tfs[string(t.Term)]
		l := tf.Locations[next[string(t.Term)]]
		next[string(t.Term)]++
		if l.StartVal != t.Start || l.EndVal != t.End || l.PositionVal != p {
			return fmt.Sprintf("term %q: location (%d,%d,pos %d), expected (%d,%d,pos %d)", t.Term, l.StartVal, l.EndVal, l.PositionVal, t.Start, t.End, p)
		}
	}
	if pos != p {
		return fmt.Sprintf("last position %d, running sum %d", pos, p)
	}
	return ""
}

func (e *analysisEngine) docs(n int) {
	for i := 0; i < n; i++ {
		nf := 1 + e.rng.Intn(4)
		var doc bluge.Document
		var fields []string
		var fobj []*bluge.TermField
		bad := false
		for j := 0; j < nf; j++ {
			name := []string{"a", "a", "b"}[e.rng.Intn(3)]
			in := analysisGen(e.rng, []string{"en", "fr", "cjk", ""}[e.rng.Intn(4)])
			mk := analysisSmallAnalyzers[e.rng.Intn(len(analysisSmallAnalyzers))]
			fld := bluge.NewTextFieldBytes(name, append([]byte{}, in.data...)).WithAnalyzer(mk())
			tv := e.rng.Intn(3) != 0
			if tv {
				fld.SearchTermPositions()
			}
			if e.rng.Intn(3) == 0 {
				fld.StoreValue()
			}
			gap := 100
			if e.rng.Intn(3) == 0 {
				gap = []int{0, 1, 5}[e.rng.Intn(3)]
				fld.SetPositionIncrementGap(gap)
			}
			indexed := true
			if e.rng.Intn(6) == 0 {
				fld.FieldOptions = bluge.Store
				indexed, tv = false, false
			}
			var toks []analysisTokSnap
			if !e.guarded("doc/Analyze", in.class, analysisQ(in.data), false, func() { toks = analysisSnapTokens(mk().Analyze(append([]byte{}, in.data...))) }) {
				bad = true
				break
			}
			fields = append(fields, fmt.Sprintf("Field %s %s %d %s %s", analysisBytes([]byte(name)), cq.B(indexed), gap, cq.B(tv), analysisCoqStream(toks)))
			doc = append(doc, fld)
			fobj = append(fobj, fld)
		}
		if bad {
			continue
		}
		if !e.guarded("Document.Analyze", "doc", len(doc), false, func() { doc.Analyze() }) {
			continue
		}
		outs := make([]string, len(fobj))
		for j, f := range fobj {
			if !f.Index() {
				outs[j] = cq.None()
			} else {
				outs[j] = cq.Some(analysisCoqFreqs(f.AnalyzedTokenFrequencies()))
			}
		}
		e.w.Add(fmt.Sprintf("CDoc %s %s", cq.List(fields), cq.List(outs)), "doc", nf > 1, map[string]interface{}{"fields": nf})
	}
}

// ---------------------------------------------------------------- (c) MatchQuery (AND) round trip

// matchOwnText indexes one document whose field text is `data` and asks for it back with its
// own text: (hits, tokens, error)
func analysisMatchOwnText(mk func() *analysis.Analyzer, data []byte) (hits int, ntok int, err error) {
	ntok = len(mk().Analyze(append([]byte{}, data...)))
	wr, err := bluge.OpenWriter(bluge.InMemoryOnlyConfig())
	if err != nil {
		return 0, ntok, err
	}
	defer wr.Close()
	doc := bluge.NewDocument("d").AddField(bluge.NewTextFieldBytes("f", append([]byte{}, data...)).WithAnalyzer(mk()).StoreValue())
	b := bluge.NewBatch()
	b.Insert(doc)
	if err = wr.Batch(b); err != nil {
		return 0, ntok, err
	}
	rd, err := wr.Reader()
	if err != nil {
		return 0, ntok, err
	}
	defer rd.Close()
	mq := bluge.NewMatchQuery(string(data)).SetField("f").SetAnalyzer(mk()).SetOperator(bluge.MatchQueryOperatorAnd)
	it, err := rd.Search(context.Background(), bluge.NewAllMatches(mq))
	if err != nil {
		return 0, ntok, err
	}
	m, err := it.Next()
	for err == nil && m != nil {
		hits++
		m, err = it.Next()
	}
	return hits, ntok, err
}

func (e *analysisEngine) matchRoundTrip(per int) {
	type ent struct {
		name string
		mk   func() *analysis.Analyzer
	}
	var all []ent
	for _, a := range analysisBundledAnalyzers() {
		all = append(all, ent{a.name, a.mk})
	}
	// configurable filters inside an analyzer
	all = append(all,
		ent{"ws+ngram(1,3)", func() *analysis.Analyzer {
			return &analysis.Analyzer{Tokenizer: tokenizer.NewWhitespaceTokenizer(), TokenFilters: []analysis.TokenFilter{token.NewLowerCaseFilter(), token.NewNgramFilter(1, 3)}}
		}},
		ent{"unicode+edge(2,4)+unique", func() *analysis.Analyzer {
			return &analysis.Analyzer{Tokenizer: tokenizer.NewUnicodeTokenizer(), TokenFilters: []analysis.TokenFilter{token.NewEdgeNgramFilter(token.BACK, 2, 4), token.NewUniqueTermFilter()}}
		}},
		ent{"html+letter+shingle", func() *analysis.Analyzer {
			return &analysis.Analyzer{CharFilters: []analysis.CharFilter{char.NewHTMLCharFilter(), char.NewASCIIFoldingFilter()}, Tokenizer: tokenizer.NewLetterTokenizer(),
				TokenFilters: []analysis.TokenFilter{token.NewLowerCaseFilter(), token.NewLengthFilter(2, 0), token.NewShingleFilter(2, 3, true, " ", "_")}}
		}},
		ent{"single+truncate+lower", func() *analysis.Analyzer {
			return &analysis.Analyzer{Tokenizer: tokenizer.NewSingleTokenTokenizer(), TokenFilters: []analysis.TokenFilter{token.NewTruncateTokenFilter(5), token.NewLowerCaseFilter()}}
		}},
	)
	fixed := analysisFixed()
	for _, a := range all {
		for k := 0; k < per; k++ {
			var in analysisInput
			if k < 4 {
				in = fixed[(k*5+len(a.name))%len(fixed)]
			} else {
				in = analysisGen(e.rng, a.name)
			}
			if len(in.data) > 400 {
				in.data = in.data[:400]
			}
			var hits, ntok int
			var err error
			if !e.guarded(a.name+"/index+match", in.class, analysisQ(in.data), false, func() { hits, ntok, err = analysisMatchOwnText(a.mk, in.data) }) {
				continue
			}
			e.w.Count("match_round_trips", 1)
			if err != nil {
				e.w.OracleFail(analysisKeyFor("match-error", a.name, false), err.Error(), map[string]interface{}{"analyzer": a.name, "input": analysisQ(in.data)})
				continue
			}
			if ntok == 0 {
				e.w.Count("match_round_trips_no_token", 1)
				continue
			}
			if hits != 1 {
				e.w.OracleFail(analysisKeyFor("match-own-text", a.name, false), fmt.Sprintf("a match query (AND) with the document's own text found %d documents; the analysis yields %d tokens", hits, ntok),
					map[string]interface{}{"analyzer": a.name, "class": in.class, "input": analysisQ(in.data)})
			}
		}
	}
}

// ---------------------------------------------------------------- witnesses of the _refuted theorems, replayed

func (e *analysisEngine) witnesses() {
	// shingle_preserves_refuted (FiltersProofs.v): offsets that run backwards make start > end
	{
		tin := []analysisTokSnap{{5, 8, []byte("a"), 1, 0, false}, {0, 2, []byte("b"), 1, 0, false}}
		var out []analysisTokSnap
		if e.guarded("exact:shingle", "witness", "unordered offsets", false, func() {
			out = analysisSnapTokens(token.NewShingleFilter(2, 2, false, " ", "_").Filter(analysisThaw(nil, tin)))
		}) {
			e.w.Add(fmt.Sprintf("CShingle 2 2 false %s %s %s %s", analysisBytes([]byte(" ")), analysisBytes([]byte("_")), analysisCoqStream(tin), analysisCoqOptStream(out, false)), "witness:shingle-unordered", true,
				map[string]interface{}{"tokens_in": analysisShowTokens(tin), "tokens_out": analysisShowTokens(out)})
		}
	}
	// the witnesses of camel_pinned_refuted / dict_compound_pinned_refuted / bigram_pinned_refuted on
	// the repaired implementation: the offsets now stay inside the source token (model with clamp = true)
	{
		tin := []analysisTokSnap{{0, 2, []byte("\xff\xff"), 1, 0, false}, {2, 4, []byte("ȺȾⱥⱦ"), 1, 0, false}}
		var out []analysisTokSnap
		if e.guarded("exact:camelcase", "witness", "term longer than its span", true, func() {
			out = analysisSnapTokens(token.NewCamelCaseFilter().Filter(analysisThaw(nil, tin)))
		}) {
			e.w.Add(fmt.Sprintf("CCamel true %s %s %s %s %s", analysisRuneSet(tin, unicode.IsLower), analysisRuneSet(tin, unicode.IsUpper), analysisRuneSet(tin, unicode.IsNumber), analysisCoqStream(tin), analysisCoqStream(out)),
				"witness:camel-offsets", true, map[string]interface{}{"tokens_in": analysisShowTokens(tin), "tokens_out": analysisShowTokens(out)})
		}
	}
	{
		tin := []analysisTokSnap{{0, 1, []byte("abc"), 1, 0, false}, {1, 4, []byte("صلى الله عليه"), 1, 0, false}}
		var out []analysisTokSnap
		if e.guarded("exact:dictcompound", "witness", "term longer than its span", false, func() {
			out = analysisSnapTokens(token.NewDictionaryCompoundFilter(analysisTokenMapOf("c", "الله"), 1, 1, 4, false).Filter(analysisThaw(nil, tin)))
		}) {
			e.w.Add(fmt.Sprintf("CDict true %s 1 1 4 false %s %s", analysisBytesList([][]byte{[]byte("c"), []byte("الله")}), analysisCoqStream(tin), analysisCoqOptStream(out, false)),
				"witness:dict-offsets", true, map[string]interface{}{"tokens_in": analysisShowTokens(tin), "tokens_out": analysisShowTokens(out)})
		}
	}
	for _, uni := range []bool{false, true} {
		uni := uni
		tin := []analysisTokSnap{{1, 4, []byte("���"), 1, int(analysis.Ideographic), false}, {4, 7, []byte("n2q"), 1, 0, false}, {8, 14, []byte("漢\xff字"), 1, int(analysis.Ideographic), false}}
		var out []analysisTokSnap
		if e.guarded("exact:cjkbigram", "witness", "term longer than its span", true, func() {
			out = analysisSnapTokens(cjk.NewBigramFilter(uni).Filter(analysisThaw(nil, tin)))
		}) {
			e.w.Add(fmt.Sprintf("CBigram true %s %s %s", cq.B(uni), analysisCoqStream(tin), analysisCoqStream(out)),
				"witness:bigram-offsets", true, map[string]interface{}{"tokens_in": analysisShowTokens(tin), "tokens_out": analysisShowTokens(out)})
		}
	}
	// lowercase: a narrower replacement followed by unchanged runes keeps stale bytes (Kelvin sign)
	{
		tin := []analysisTokSnap{{0, 8, []byte("Kelvin"), 1, 0, false}}
		var out []analysisTokSnap
		if e.guarded("exact:lowercase", "witness", "Kelvin sign", false, func() {
			out = analysisSnapTokens(token.NewLowerCaseFilter().Filter(analysisThaw([]byte("Kelvin"), tin)))
		}) {
			e.w.Add(fmt.Sprintf("CLower %s %s %s", analysisLowerTable(tin), analysisCoqStream(tin), analysisCoqOptStream(out, false)), "witness:lowercase-stale-bytes", true,
				map[string]interface{}{"tokens_out": analysisShowTokens(out)})
		}
	}
}

// ---------------------------------------------------------------- entry point

func runAnalysis(o Opts) error {
	e := &analysisEngine{o: o, rng: rand.New(rand.NewSource(o.Seed)), seen: map[string]bool{}}
	e.w = cq.New(o.Out, "From Bluge Require Import Base.Res Analysis.Pipeline Analysis.Freq Analysis.AnalysisCorr.", "acase", 200)
	scale := 1
	if o.Thorough() {
		scale = 4 // Coq spends ~0.1 s per case elaborating the literals: 4x keeps the thorough tier within its budget
	}
	e.witnesses()
	e.probes()
	e.analyzers(14 * scale)
	e.chains(60 * scale)
	e.tokenizers(10 * scale)
	e.charFilters(6 * scale)
	e.foldSweep()
	e.otherFilters(10 * scale)
	e.exactFilters(45 * scale)
	e.freqs(60 * scale)
	e.docs(40 * scale)
	e.merges(40 * scale)
	e.composites(40 * scale)
	e.retained(3 * scale)
	e.matchRoundTrip(10 * scale)
	if o.Thorough() {
		e.sweep(8, 6, 60000, 600, 12)
	} else {
		e.sweep(7, 6, 20000, 150, 3)
	}
	e.w.Close()
	return nil
}

func analysisRunKind(name string) string {
	if strings.HasPrefix(name, "chain:") {
		return "run:chain"
	}
	return "run:" + name
}
