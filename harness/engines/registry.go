package engines

type Opts struct {
	Seed   int64
	Tier   string
	Out    string
	Replay string
	Args   []string
}

func (o Opts) Thorough() bool { return o.Tier == "thorough" }

// Registry maps engine name to its entry point.
var Registry = map[string]func(Opts) error{}
