package engines

// index.go — engines `index-c01`, `index-c04`, `index-c05`, `index-c06`: generated batch histories
// on a real writer (built with -tags verif) under a simulated / file-system / in-memory directory.
// The recorded root history is emitted as a Coq case for the monitor of Index/Trace.v; the
// property predicates are evaluated directly on what readers return.

import (
	"encoding/json"
	"fmt"
	"math/rand"
	"os"
	"os/exec"
	"path/filepath"
	"strings"
	"sync"
	"time"

	"verif/harness/cq"
	"verif/harness/sim"
)

func init() {
	Registry["index-c01"] = func(o Opts) error { return runIndex(o, "c01") }
	Registry["index-c04"] = func(o Opts) error { return runIndex(o, "c04") }
	Registry["index-c05"] = func(o Opts) error { return runIndex(o, "c05") }
	Registry["index-c06"] = func(o Opts) error { return runIndex(o, "c06") }
	Registry["index-c04child"] = runIndexChild
}

func workDir(name string) string {
	base := os.Getenv("VERIF_DIR")
	if base == "" {
		base = "/verif"
	}
	d := filepath.Join(base, "work", "fs", name)
	os.RemoveAll(d)
	os.MkdirAll(d, 0o755)
	return d
}

// waitQuiet waits until no event has been recorded for `quiet`, at most `max`.
func waitQuiet(rec *sim.Recorder, quiet, max time.Duration) {
	deadline := time.Now().Add(max)
	last := rec.Len()
	lastChange := time.Now()
	for time.Now().Before(deadline) {
		time.Sleep(quiet / 4)
		n := rec.Len()
		if n != last {
			last, lastChange = n, time.Now()
		} else if time.Since(lastChange) >= quiet {
			return
		}
	}
}

type scenarioResult struct {
	trace      string
	stats      TraceStats
	introOrder []int
	world      *World
}

// abstract content after the batches of introOrder[:n]
func abstractAfter(w *World, order []int) []DV {
	var A []DV
	for _, k := range order {
		if spec, ok := w.Specs[k]; ok {
			A = applyAbstract(A, spec)
		}
	}
	return A
}

// checkObservation evaluates the C01 predicate on one observation: the reader exposes exactly the
// abstract index after the batches introduced up to the root it captured.
func checkObservation(cw *cq.Writer, w *World, o Observation, desc map[string]interface{}, prefixAt map[uint64]int, order []int, base []DV) {
	cw.OracleEval(1)
	if o.Err != "" {
		cw.OracleFail("reader-error", o.Err, desc)
		return
	}
	n, ok := prefixAt[o.Epoch]
	if !ok {
		// the reader captured a root created by a persist swap or merge: content equals that of the
		// latest batch introduction at or before its epoch
		best := -1
		var bestE uint64
		for e, k := range prefixAt {
			if e <= o.Epoch && (best < 0 || e > bestE) {
				best, bestE = k, e
			}
		}
		if best < 0 {
			best = 0
		}
		n = best
	}
	A := append([]DV{}, base...)
	for _, k := range order[:n] {
		if spec, ok := w.Specs[k]; ok {
			A = applyAbstract(A, spec)
		}
	}
	if !sameDV(o.docs(), A) {
		cw.OracleFail("content-differs-from-abstract-index", fmt.Sprintf("reader at epoch %d: got %v want %v", o.Epoch, sortedDV(o.docs()), sortedDV(A)), desc)
		return
	}
	if int(o.Count) != len(A) {
		cw.OracleFail("count-differs", fmt.Sprintf("Count()=%d, abstract index has %d", o.Count, len(A)), desc)
	}
	for i := 1; i < len(o.MatchAll); i++ {
		if o.MatchAll[i].Num <= o.MatchAll[i-1].Num {
			cw.OracleFail("match-all-duplicate-or-unordered", fmt.Sprintf("doc numbers %d then %d", o.MatchAll[i-1].Num, o.MatchAll[i].Num), desc)
		}
	}
	for id, got := range o.Lookups {
		var want []DV
		for _, d := range A {
			if d.ID == id {
				want = append(want, d)
			}
		}
		if !sameDV(got, want) {
			cw.OracleFail("lookup-differs", fmt.Sprintf("id %s: got %v want %v", idString(id), got, want), desc)
		}
		if id < 100 && len(got) > 1 {
			cw.OracleFail("update-only-id-not-unique", fmt.Sprintf("id %s has %d live documents", idString(id), len(got)), desc)
		}
	}
}

// prefixIndex maps the epoch of every root created by a batch introduction to the number of batches
// introduced so far; other roots inherit from the previous one.
func prefixIndex(w *World) (map[uint64]int, uint64) {
	m := map[uint64]int{}
	n := 0
	var last uint64
	for _, e := range w.Rec.Snapshot() {
		if e.Kind == "root" && e.V.Creator != "nil" {
			if e.V.Creator == "introduceSegment" {
				n++
			}
			m[e.V.Epoch] = n
			last = e.V.Epoch
		}
	}
	m[0] = 0
	return m, last
}

func runIndex(o Opts, mode string) error {
	rng := rand.New(rand.NewSource(o.Seed))
	cw := cq.New(o.Out, "From Bluge Require Import Base.Res Index.Model Index.Trace Index.TraceCorr.", "icase", 6)
	if mode == "c04" {
		cw.Imports = "From Bluge Require Import Base.Res Index.Model Index.Trace Index.TraceCorr Index.Handles Index.HandlesCorr."
		cw.CaseType = "hcase"
	}
	cw.Extra = "Definition R := Eval vm_compute in rejects cases.\nPrint R.\n"
	nScen := map[string]int{"c01": 120, "c04": 60, "c05": 90, "c06": 110}[mode]
	if o.Thorough() {
		nScen *= 6
	}
	for s := 0; s < nScen; s++ {
		wo := WorldOpts{Universe: 3 + rng.Intn(5), Poison: true}
		switch rng.Intn(10) {
		case 0, 1:
			wo.DirKind = "mem"
		case 2, 3:
			wo.DirKind = "fs"
			wo.Path = workDir(fmt.Sprintf("%s-%d-%d", mode, o.Seed, s))
		default:
			wo.DirKind = "sim"
			wo.OpDelayUs = []int{0, 0, 200, 1500}[rng.Intn(4)]
		}
		wo.SegVersion = uint32(1 + rng.Intn(2))
		wo.Unsafe = rng.Intn(3) == 0
		wo.Merges = []string{"small", "small", "default", "off"}[rng.Intn(4)]
		wo.KeepN = 1 + rng.Intn(3)
		if mode == "c06" {
			wo.Merges = "small"
			wo.DirKind = "sim"
			wo.Path = ""
		}
		worldSeed := rng.Int63()
		desc := map[string]interface{}{"scenario": s, "mode": mode, "dir": wo.DirKind, "unsafe": wo.Unsafe, "segver": wo.SegVersion,
			"merges": wo.Merges, "universe": wo.Universe, "seed": o.Seed}
		if mode == "c04" && wo.DirKind == "fs" {
			// readers over memory-mapped files: a reference-count bug unmaps memory a reader still uses and
			// kills the process, so these scenarios run in a child
			indexChild(cw, o, wo, worldSeed, rng.Int63(), desc)
			os.RemoveAll(wo.Path)
			continue
		}
		w := NewWorld(wo, rand.New(rand.NewSource(worldSeed)))
		var err error
		fin, pan := cq.Guard(120*time.Second, func() {
			switch mode {
			case "c01":
				if s%6 == 5 { // histories whose batches were prepared against a root that has moved on since
					err = scenarioConcurrent(cw, w, rng, desc)
				} else {
					err = scenarioSequential(cw, w, rng, desc)
				}
			case "c04":
				err = scenarioHeldReaders(cw, w, rng, desc)
			case "c05":
				err = scenarioConcurrent(cw, w, rng, desc)
			case "c06":
				err = scenarioMergeWindows(cw, w, rng, desc)
			}
		})
		if !fin {
			cw.Abort("scenario-hang", "scenario did not finish within 120s", desc)
		}
		if pan != nil {
			cw.OracleFail("scenario-panic", fmt.Sprint(pan), desc)
			continue
		}
		if err != nil {
			cw.OracleFail("scenario-error", err.Error(), desc)
			continue
		}
		trace, st, order := w.TraceEvents()
		prefixAt, _ := prefixIndex(w)
		var base []DV
		for _, ob := range w.Observed {
			checkObservation(cw, w, ob, desc, prefixAt, order, base)
		}
		nontrivial := st.Intros >= 3 && (st.Merges+st.Swaps > 0 || wo.DirKind == "mem")
		desc["intros"], desc["swaps"], desc["merges"], desc["observes"] = st.Intros, st.Swaps, st.Merges, st.Observes
		if mode == "c04" {
			hev := "[]"
			if wo.DirKind == "sim" {
				hev = w.HandleEvents(true)
			}
			trace = cq.Pair(trace, hev)
		}
		cw.Add(trace, mode+"-"+wo.DirKind, nontrivial, desc)
		cw.Count("intros", st.Intros)
		cw.Count("persist_swaps", st.Swaps)
		cw.Count("merges", st.Merges)
		cw.Count("merges_skipped", st.MergesSkipped)
		cw.Count("mem_merges", st.MemMerges)
		cw.Count("merges_with_delete_in_window", st.MergeWithDeleteSince)
		cw.Count("observations", st.Observes)
		cw.Count("intros_with_stale_obsoletes", st.StaleObs)
		cw.Count("traces_validated", 1)
		if wo.DirKind == "fs" {
			os.RemoveAll(wo.Path)
		}
	}
	if mode == "c01" {
		dupProbe(cw, rng)
	}
	cw.Close()
	return nil
}

// scenarioSequential: batches one after the other, a reader observed after (almost) every batch.
func scenarioSequential(cw *cq.Writer, w *World, rng *rand.Rand, desc map[string]interface{}) error {
	if err := w.Open(); err != nil {
		return err
	}
	n := 3 + rng.Intn(22)
	if _, err := w.Observe(); err != nil {
		return err
	}
	for i := 0; i < n; i++ {
		b := w.GenBatch()
		if err := w.Do(b, rng.Intn(4) == 0); err != nil {
			return fmt.Errorf("batch %d: %w", b.Key, err)
		}
		if rng.Intn(4) != 0 {
			if _, err := w.Observe(); err != nil {
				return err
			}
		}
		if rng.Intn(6) == 0 {
			waitQuiet(w.Rec, 3*time.Millisecond, 300*time.Millisecond)
			if _, err := w.Observe(); err != nil {
				return err
			}
		}
	}
	waitQuiet(w.Rec, 5*time.Millisecond, 500*time.Millisecond)
	if _, err := w.Observe(); err != nil {
		return err
	}
	return w.Close()
}

// scenarioHeldReaders (C04): readers of different ages are held open while batches, merges, persists,
// removals and finally Close happen; each is re-queried after every step and must answer as at the start.
func scenarioHeldReaders(cw *cq.Writer, w *World, rng *rand.Rand, desc map[string]interface{}) error {
	// churn: two or three ids, every batch rewrites all of them, and the loading of freshly written segment
	// files is held back: merges planned on a root are obsolete by the time they are introduced (skipped
	// introductions), persisted segments are swapped in long after their documents were superseded
	churn := w.O.DirKind == "sim" && rng.Intn(3) == 0
	var gate *holdGate
	if churn {
		w.O.Universe = 3 + rng.Intn(3)
		w.O.Merges = "small"
		w.O.OpDelayUs = 0
		w.O.HoldMergeIntro = true // merges wait at their introduction while batches supersede what they merged
		desc["churn"] = true
	}
	// some runs inject transient persist failures: the persister's error paths release and re-take
	// snapshot references while readers are held
	var faults *faultPlan
	if !churn && w.O.DirKind == "sim" && rng.Intn(3) == 0 {
		faults = newFaultPlan(rng)
		faults.sticky = false
		faults.class = []string{"persist.seg", "persist.snp", "load.seg"}[rng.Intn(3)]
		faults.fromN = rng.Intn(20)
		desc["faults"] = faults.describe()
		w.config()
		w.SetFaultAt(faults.at)
	}
	if err := w.Open(); err != nil {
		return err
	}
	if gate != nil {
		defer gate.releaseAll()
	}
	type held struct {
		r     interface{ Close() error }
		first Observation
		check func() Observation
		age   int
	}
	var hs []*held
	recheck := func(step string) {
		for _, h := range hs {
			cw.OracleEval(1)
			var now Observation
			fin, pan := cq.Guard(30*time.Second, func() { now = h.check() })
			if !fin {
				cw.Abort("held-reader-hang", "a held reader did not answer", desc)
			}
			if pan != nil {
				cw.OracleFail("held-reader-fault", fmt.Sprintf("%v (after %s)", pan, step), desc)
				continue
			}
			if !now.equal(h.first) {
				cw.OracleFail("held-reader-changed", fmt.Sprintf("reader opened at step %d (epoch %d) answers differently after %s: count %d -> %d, docs %v -> %v, err %q",
					h.age, h.first.Epoch, step, h.first.Count, now.Count, sortedDV(h.first.docs()), sortedDV(now.docs()), now.Err), desc)
			}
		}
	}
	n := 6 + rng.Intn(14)
	heldSeen := 0
	if churn {
		n = (w.O.Universe + 1) * (2 + rng.Intn(2))
	}
	for i := 0; i < n; i++ {
		b := w.GenBatch()
		if churn {
			// cycles of: one batch per id (several small segments, a merge gets planned and parks at its
			// introduction), then one batch rewriting every id (everything the merge merged is obsolete)
			b.Ops = nil
			phase := i % (w.O.Universe + 1)
			fresh := func(id int) DocOp {
				w.mu.Lock()
				v := w.nextV
				w.nextV++
				w.mu.Unlock()
				return DocOp{Kind: "upd", ID: id, V: v}
			}
			if phase < w.O.Universe {
				b.Ops = append(b.Ops, fresh(phase))
			} else {
				// give the merger time to plan, write and park
				deadline := time.Now().Add(400 * time.Millisecond)
				for time.Now().Before(deadline) {
					w.mu.Lock()
					held := w.MergesHeld
					w.mu.Unlock()
					if held > heldSeen {
						heldSeen = held
						break
					}
					time.Sleep(2 * time.Millisecond)
				}
				for id := 0; id < w.O.Universe; id++ {
					b.Ops = append(b.Ops, fresh(id))
				}
			}
		}
		if err := w.Do(b, false); err != nil {
			if faults == nil {
				return err
			}
			faults.clearTransient()
		}
		if churn && i%(w.O.Universe+1) == w.O.Universe {
			w.ReleaseMerge()
			w.ReleaseMerge()
			time.Sleep(time.Duration(rng.Intn(1500)) * time.Microsecond)
		}
		if len(hs) < 4 && rng.Intn(2) == 0 {
			r, err := w.W.Reader()
			if err != nil {
				return err
			}
			uni := w.universeIDs()
			first := observeReader(r, uni)
			rkey := i
			w.Rec.Add(&sim.Event{Kind: "reader-open", Batch: rkey, ID: first.Epoch})
			w.mu.Lock()
			w.Observed = append(w.Observed, first)
			w.mu.Unlock()
			hs = append(hs, &held{r: r, first: first, check: func() Observation { return observeReader(r, uni) }, age: rkey})
		}
		recheck(fmt.Sprintf("batch %d", b.Key))
		if rng.Intn(3) == 0 {
			waitQuiet(w.Rec, 3*time.Millisecond, 300*time.Millisecond)
			recheck("background work")
		}
		if len(hs) > 0 && rng.Intn(5) == 0 {
			k := rng.Intn(len(hs))
			w.Rec.Add(&sim.Event{Kind: "reader-close", Batch: hs[k].age}) // logged first: the handle closes it triggers come after
			hs[k].r.Close()
			hs = append(hs[:k], hs[k+1:]...)
		}
	}
	if faults != nil {
		faults.clearAll()
	}
	if churn {
		for k := 0; k < 64; k++ {
			w.ReleaseMerge()
		}
		w.O.HoldMergeIntro = false
	}
	waitQuiet(w.Rec, 5*time.Millisecond, 500*time.Millisecond)
	recheck("quiescence")
	if churn {
		for k := 0; k < 64; k++ {
			w.ReleaseMerge()
		}
	}
	if err := w.Close(); err != nil {
		return err
	}
	recheck("writer Close")
	for _, h := range hs {
		w.Rec.Add(&sim.Event{Kind: "reader-close", Batch: h.age})
		h.r.Close()
	}
	cw.Count("held_readers", len(hs))
	return nil
}

// scenarioConcurrent (C05): several goroutines issue batches over a tiny id universe; readers are taken
// concurrently; real-time order and prefix consistency are decided on the recorded history.
func scenarioConcurrent(cw *cq.Writer, w *World, rng *rand.Rand, desc map[string]interface{}) error {
	w.O.Universe = 2 + rng.Intn(3)
	if err := w.Open(); err != nil {
		return err
	}
	g := 2 + rng.Intn(7)
	per := 2 + rng.Intn(5)
	desc["goroutines"] = g
	var wg sync.WaitGroup
	errs := make(chan error, g*per+8)
	batches := make([][]BatchSpec, g)
	for i := range batches {
		for j := 0; j < per; j++ {
			b := w.GenBatch()
			// concurrent batches must be distinguishable in the writer's trace: every one names an id of its
			// own that was never inserted (two pending batches with identical content cannot be told apart,
			// which made the real-time check blame the wrong one — false alarm found by the thorough tier)
			hasMarker := false
			for _, op := range b.Ops {
				if op.ID >= 1000000 {
					hasMarker = true
				}
			}
			if !hasMarker {
				b.Ops = append(b.Ops, DocOp{Kind: "del", ID: 1000000 + b.Key})
			}
			batches[i] = append(batches[i], b)
		}
	}
	seeds := make([]int64, g)
	for i := range seeds {
		seeds[i] = rng.Int63()
	}
	for i := 0; i < g; i++ {
		wg.Add(1)
		go func(i int) {
			defer wg.Done()
			r := rand.New(rand.NewSource(seeds[i]))
			for _, b := range batches[i] {
				if r.Intn(3) == 0 {
					time.Sleep(time.Duration(r.Intn(400)) * time.Microsecond)
				}
				if err := w.Do(b, false); err != nil {
					errs <- err
					return
				}
				if r.Intn(2) == 0 {
					// a reader obtained after the call returned must reflect the batch
					ob, err := w.Observe()
					if err != nil {
						errs <- err
						return
					}
					w.mu.Lock()
					w.afterRet = append(w.afterRet, afterRet{key: b.Key, epoch: ob.Epoch})
					w.mu.Unlock()
				}
			}
		}(i)
	}
	wg.Wait()
	close(errs)
	for err := range errs {
		return err
	}
	waitQuiet(w.Rec, 5*time.Millisecond, 500*time.Millisecond)
	if _, err := w.Observe(); err != nil {
		return err
	}
	if err := w.Close(); err != nil {
		return err
	}
	// oracle: real-time order: ret(b1) before call(b2) => b1 introduced before b2
	evs := w.Rec.Snapshot()
	_, _, order := w.TraceEvents()
	pos := map[int]int{}
	for i, k := range order {
		pos[k] = i
	}
	retAt, callAt := map[int]int{}, map[int]int{}
	for _, e := range evs {
		switch e.Kind {
		case "batch-call":
			callAt[e.Batch] = e.Seq
		case "batch-ret":
			retAt[e.Batch] = e.Seq
		}
	}
	for b1, r1 := range retAt {
		for b2, c2 := range callAt {
			cw.OracleEval(1)
			if r1 < c2 {
				p1, ok1 := pos[b1]
				p2, ok2 := pos[b2]
				if ok1 && ok2 && p1 > p2 {
					cw.OracleFail("real-time-order-violated", fmt.Sprintf("batch %d returned before batch %d was called but took effect after it", b1, b2), desc)
				}
			}
		}
		cw.OracleEval(1)
		if _, ok := pos[b1]; !ok {
			cw.OracleFail("returned-batch-never-introduced", fmt.Sprintf("batch %d", b1), desc)
		}
	}
	// a reader obtained after Batch returned reflects that batch
	prefixAt, _ := prefixIndex(w)
	for _, ar := range w.afterRet {
		cw.OracleEval(1)
		n := prefixAt[ar.epoch]
		if _, known := prefixAt[ar.epoch]; !known {
			continue
		}
		if p, ok := pos[ar.key]; !ok || p >= n {
			cw.OracleFail("reader-after-return-misses-batch", fmt.Sprintf("batch %d not within the %d batches of the reader at epoch %d", ar.key, n, ar.epoch), desc)
		}
	}
	return nil
}

// scenarioMergeWindows (C06): deletes and updates are concentrated on segments while they are being
// merged / persisted; the directory gate holds the persister or the merger at chosen operations so
// that batches land in every phase.
func scenarioMergeWindows(cw *cq.Writer, w *World, rng *rand.Rand, desc map[string]interface{}) error {
	w.O.Unsafe = true // the caller is not blocked by persistence, so batches can land inside the windows
	w.O.OpDelayUs = 0
	hold := []string{"persist.seg", "persist.snp", "load.seg", "remove"}[rng.Intn(4)]
	desc["hold"] = hold
	gate := newHoldGate(hold, 1+rng.Intn(3))
	w.config()
	w.Dir.Gate = gate.gate
	if err := w.Open(); err != nil {
		return err
	}
	n := 8 + rng.Intn(16)
	for i := 0; i < n; i++ {
		b := w.GenBatch()
		if err := w.Do(b, false); err != nil {
			return err
		}
		if rng.Intn(3) == 0 {
			if _, err := w.Observe(); err != nil {
				return err
			}
		}
		switch rng.Intn(4) {
		case 0:
			gate.releaseOne()
		case 1:
			time.Sleep(time.Duration(rng.Intn(1500)) * time.Microsecond)
		}
	}
	gate.releaseAll()
	waitQuiet(w.Rec, 5*time.Millisecond, 800*time.Millisecond)
	if _, err := w.Observe(); err != nil {
		return err
	}
	err := w.Close()
	gate.releaseAll()
	return err
}

// holdGate blocks every k-th directory operation of one class until released.
type holdGate struct {
	mu      sync.Mutex
	class   string
	every   int
	seen    int
	waiting []chan struct{}
	open    bool
}

func newHoldGate(class string, every int) *holdGate { return &holdGate{class: class, every: every} }

func (g *holdGate) gate(op sim.Op) {
	cls := op.Op
	if op.Op == "persist" || op.Op == "load" {
		cls = op.Op + op.Item
	}
	g.mu.Lock()
	if g.open || cls != g.class {
		g.mu.Unlock()
		return
	}
	g.seen++
	if g.seen%g.every != 0 {
		g.mu.Unlock()
		return
	}
	ch := make(chan struct{})
	g.waiting = append(g.waiting, ch)
	g.mu.Unlock()
	select {
	case <-ch:
	case <-time.After(5 * time.Second):
	}
}

func (g *holdGate) releaseOne() {
	g.mu.Lock()
	if len(g.waiting) > 0 {
		close(g.waiting[0])
		g.waiting = g.waiting[1:]
	}
	g.mu.Unlock()
}

func (g *holdGate) releaseAll() {
	g.mu.Lock()
	g.open = true
	for _, ch := range g.waiting {
		close(ch)
	}
	g.waiting = nil
	g.mu.Unlock()
}

// dupProbe: the dedicated known-finding probe of C01 — one batch naming the same id in two operations.
func dupProbe(cw *cq.Writer, rng *rand.Rand) {
	w := NewWorld(WorldOpts{DirKind: "mem", Universe: 3}, rand.New(rand.NewSource(rng.Int63())))
	desc := map[string]interface{}{"probe": "batch with Update(d1, v1) and Update(d1, v2)"}
	if err := w.Open(); err != nil {
		cw.OracleFail("scenario-error", err.Error(), desc)
		return
	}
	b := BatchSpec{Key: 0, Ops: []DocOp{{Kind: "upd", ID: 1, V: 1}, {Kind: "upd", ID: 1, V: 2}}}
	w.nextKey = 1
	if err := w.Do(b, false); err != nil {
		cw.OracleFail("scenario-error", err.Error(), desc)
		return
	}
	ob, err := w.Observe()
	w.Close()
	cw.OracleEval(1)
	if err == nil && len(ob.Lookups[1]) > 1 {
		cw.OracleFail("dup-id-in-one-batch", fmt.Sprintf("id d1 written only through Update has %d live documents after one batch naming it twice", len(ob.Lookups[1])), desc)
	}
	trace, _, _ := w.TraceEvents()
	cw.Add(trace, "c01-dup-probe", true, desc)
}

// ---- C04 scenarios on the real file-system directory, in a child process ----

type indexChildSpec struct {
	W         WorldOpts
	WorldSeed int64
	ScenSeed  int64
	Desc      map[string]interface{}
}

func runIndexChild(o Opts) error {
	if len(o.Args) < 1 {
		return fmt.Errorf("usage: index-c04child -out DIR <spec.json>")
	}
	var spec indexChildSpec
	b, err := os.ReadFile(o.Args[0])
	if err != nil {
		return err
	}
	if err := json.Unmarshal(b, &spec); err != nil {
		return err
	}
	cw := cq.New(o.Out, "", "unit", 1000)
	w := NewWorld(spec.W, rand.New(rand.NewSource(spec.WorldSeed)))
	rng := rand.New(rand.NewSource(spec.ScenSeed))
	var serr error
	fin, pan := cq.Guard(120*time.Second, func() { serr = scenarioHeldReaders(cw, w, rng, spec.Desc) })
	if !fin {
		cw.Abort("scenario-hang", "held-reader scenario did not finish within 120s", spec.Desc)
	}
	if pan != nil {
		cw.OracleFail("held-reader-fault", fmt.Sprint(pan), spec.Desc)
	} else if serr != nil {
		cw.OracleFail("scenario-error", serr.Error(), spec.Desc)
	} else {
		_, _, order := w.TraceEvents()
		prefixAt, _ := prefixIndex(w)
		for _, ob := range w.Observed {
			checkObservation(cw, w, ob, spec.Desc, prefixAt, order, nil)
		}
	}
	cw.Close()
	return nil
}

func indexChild(cw *cq.Writer, o Opts, wo WorldOpts, worldSeed, scenSeed int64, desc map[string]interface{}) {
	dir := workDir(fmt.Sprintf("c04child-%d-%v", o.Seed, desc["scenario"]))
	defer os.RemoveAll(dir)
	spec := indexChildSpec{W: wo, WorldSeed: worldSeed, ScenSeed: scenSeed, Desc: desc}
	b, _ := json.Marshal(spec)
	specFile := filepath.Join(dir, "spec.json")
	os.WriteFile(specFile, b, 0o644)
	cmd := exec.Command(os.Args[0], "index-c04child", "-out", filepath.Join(dir, "out"), specFile)
	var out strings.Builder
	cmd.Stdout = &out
	cmd.Stderr = &out
	done := make(chan error, 1)
	if err := cmd.Start(); err != nil {
		cw.Count("c04_child_setup_errors", 1)
		return
	}
	go func() { done <- cmd.Wait() }()
	var werr error
	select {
	case werr = <-done:
	case <-time.After(180 * time.Second):
		cmd.Process.Kill()
		<-done
		cw.OracleFail("held-reader-hang", "file-system held-reader scenario did not finish within 180s", desc)
		return
	}
	cw.Count("c04_fs_child_runs", 1)
	if werr != nil {
		t := out.String()
		if len(t) > 900 {
			t = t[:900]
		}
		cw.OracleFail("held-reader-fault", fmt.Sprintf("the process using held readers over the file-system directory died: %v: %s", werr, t), desc)
		return
	}
	if ob, err := os.ReadFile(filepath.Join(dir, "out", "oracle.jsonl")); err == nil {
		for _, line := range strings.Split(string(ob), "\n") {
			if strings.TrimSpace(line) == "" {
				continue
			}
			var f struct {
				Key, Reason string
				Input       interface{}
			}
			if json.Unmarshal([]byte(line), &f) == nil {
				cw.OracleFail(f.Key, f.Reason, f.Input)
			}
		}
	}
	if sb, err := os.ReadFile(filepath.Join(dir, "out", "stats.json")); err == nil {
		var st struct {
			OracleEvaluations int `json:"oracle_evaluations"`
		}
		if json.Unmarshal(sb, &st) == nil {
			cw.OracleEval(st.OracleEvaluations)
		}
	}
}
